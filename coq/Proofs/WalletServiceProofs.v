(* Proofs for C19 (Model/WalletService.v). *)
From Coq Require Import List String Bool ZArith Lia.
From Sky Require Import Base.Uint Model.WalletService.
Import ListNotations.
Open Scope Z_scope.

(* ------------------------------------------------------------------ strings *)

Lemma seqb_refl : forall a, String.eqb a a = true.
Proof. apply String.eqb_refl. Qed.
Lemma seqb_true : forall a b, String.eqb a b = true -> a = b.
Proof. intros. now apply String.eqb_eq. Qed.
Lemma seqb_false : forall a b, String.eqb a b = false -> a <> b.
Proof. intros a b H E. subst. rewrite seqb_refl in H. discriminate. Qed.
Lemma seqb_neq : forall a b, a <> b -> String.eqb a b = false.
Proof. intros a b H. destruct (String.eqb a b) eqn:E; auto. apply seqb_true in E. contradiction. Qed.

(* ------------------------------------------------------------------ find / put / del *)

Lemma find_name : forall n l w, find n l = Some w -> w_name w = n.
Proof.
  induction l as [|x r IH]; cbn; intros w H; [discriminate|].
  destruct (String.eqb (w_name x) n) eqn:E.
  - inversion H. subst. now apply seqb_true.
  - auto.
Qed.

Lemma find_In : forall n l w, find n l = Some w -> In w l.
Proof.
  induction l as [|x r IH]; cbn; intros w H; [discriminate|].
  destruct (String.eqb (w_name x) n); [inversion H; auto | right; auto].
Qed.

Lemma find_put : forall n w l,
  find n (put w l) = if String.eqb (w_name w) n then Some w else find n l.
Proof.
  induction l as [|x r IH]; cbn.
  - reflexivity.
  - destruct (String.eqb (w_name x) (w_name w)) eqn:E; cbn.
    + apply seqb_true in E. rewrite E. destruct (String.eqb (w_name w) n); reflexivity.
    + rewrite IH. destruct (String.eqb (w_name x) n) eqn:E2; auto.
      apply seqb_true in E2. subst n.
      rewrite seqb_neq; auto. apply seqb_false in E. congruence.
Qed.

Lemma find_del : forall n m l,
  find n (del m l) = if String.eqb m n then None else find n l.
Proof.
  induction l as [|x r IH]; cbn.
  - destruct (String.eqb m n); reflexivity.
  - destruct (String.eqb (w_name x) m) eqn:E; cbn.
    + rewrite IH. apply seqb_true in E. subst m.
      destruct (String.eqb (w_name x) n); reflexivity.
    + rewrite IH. destruct (String.eqb (w_name x) n) eqn:E2; auto.
      apply seqb_true in E2. subst n. apply seqb_false in E.
      rewrite seqb_neq; auto.
Qed.

Definition uniq (l : list wallet) : Prop := NoDup (map w_name l).

Lemma In_find : forall l x, uniq l -> In x l -> find (w_name x) l = Some x.
Proof.
  induction l as [|y r IH]; cbn; intros x U H; [contradiction|].
  inversion U as [|? ? Hn U']. subst.
  destruct H as [H|H].
  - subst. now rewrite seqb_refl.
  - destruct (String.eqb (w_name y) (w_name x)) eqn:E.
    + apply seqb_true in E. exfalso. apply Hn. rewrite E. now apply in_map.
    + now apply IH.
Qed.

Lemma names_put : forall w l n, In n (map w_name (put w l)) <-> n = w_name w \/ In n (map w_name l).
Proof.
  induction l as [|x r IH]; cbn; intros n.
  - intuition.
  - destruct (String.eqb (w_name x) (w_name w)) eqn:E; cbn.
    + apply seqb_true in E. rewrite E. intuition.
    + rewrite IH. intuition.
Qed.

Lemma uniq_put : forall w l, uniq l -> uniq (put w l).
Proof.
  unfold uniq. induction l as [|x r IH]; cbn; intros U.
  - constructor; [intros []|constructor].
  - inversion U as [|? ? Hn U']. subst.
    destruct (String.eqb (w_name x) (w_name w)) eqn:E; cbn.
    + apply seqb_true in E. constructor; auto. now rewrite <- E.
    + constructor; auto. rewrite names_put. intros [H|H]; auto.
      apply seqb_false in E. congruence.
Qed.

Lemma names_del : forall m l n, In n (map w_name (del m l)) -> In n (map w_name l).
Proof.
  induction l as [|x r IH]; cbn; intros n H; auto.
  destruct (String.eqb (w_name x) m); cbn in H; intuition.
Qed.

Lemma uniq_del : forall m l, uniq l -> uniq (del m l).
Proof.
  unfold uniq. induction l as [|x r IH]; cbn; intros U; auto.
  inversion U as [|? ? Hn U']. subst.
  destruct (String.eqb (w_name x) m); cbn; auto.
  constructor; auto. intros H. apply Hn. eapply names_del; eauto.
Qed.

(* ------------------------------------------------------------------ small sets *)

Lemma mem_str_cons : forall n m u, mem_str n (m :: u) = String.eqb n m || mem_str n u.
Proof. reflexivity. Qed.

Lemma mem_str_del_same : forall n u, mem_str n (del_str n u) = false.
Proof.
  unfold mem_str, del_str. induction u as [|x r IH]; cbn; auto.
  destruct (String.eqb x n) eqn:E; cbn; auto.
  rewrite IH. apply seqb_false in E. rewrite seqb_neq; auto.
Qed.

Lemma mem_str_del_other : forall n m u, n <> m -> mem_str n (del_str m u) = mem_str n u.
Proof.
  unfold mem_str, del_str. induction u as [|x r IH]; cbn; intros H; auto.
  destruct (String.eqb x m) eqn:E; cbn.
  - apply seqb_true in E. subst x. rewrite (seqb_neq n m H). cbn. auto.
  - rewrite IH; auto.
Qed.

Lemma has_fp_cons : forall f g n l, has_fp f ((g, n) :: l) = (g =? f) || has_fp f l.
Proof. reflexivity. Qed.

Lemma has_fp_del : forall f g l, has_fp f (del_fp g l) = negb (f =? g) && has_fp f l.
Proof.
  unfold has_fp, del_fp. induction l as [|[h n] r IH]; cbn.
  - now rewrite andb_false_r.
  - destruct (h =? g) eqn:E; cbn.
    + rewrite IH. apply Z.eqb_eq in E. subst h. rewrite (Z.eqb_sym f g).
      destruct (g =? f); cbn; auto.
    + rewrite IH. destruct (h =? f) eqn:E2; cbn; auto.
      apply Z.eqb_eq in E2. subst h. rewrite E. reflexivity.
Qed.

(* ------------------------------------------------------------------ the invariant *)

Record inv (s : st) : Prop := mkInv {
  i_umem : uniq (mem s);
  i_udisk : uniq (disk s);
  (* a non-temporary wallet in memory is exactly its file *)
  i_md : forall n w, find n (mem s) = Some w -> w_temp w = false -> find n (disk s) = Some w;
  (* a file without a non-temporary wallet in memory was unloaded *)
  i_u1 : forall n x, find n (disk s) = Some x ->
           (forall m, find n (mem s) = Some m -> w_temp m = true) -> mem_str n (unloaded s) = true;
  i_u2 : forall n w, find n (mem s) = Some w -> w_temp w = false -> mem_str n (unloaded s) = false;
  (* serv.fingerprints = the fingerprints of the wallets in memory *)
  i_f : forall f, has_fp f (fps s) = true <-> (f <> 0 /\ exists n w, find n (mem s) = Some w /\ fp w = f);
  i_fm : forall n1 n2 a b, find n1 (mem s) = Some a -> find n2 (mem s) = Some b ->
           fp a = fp b -> fp a <> 0 -> n1 = n2;
  i_fd : forall n1 n2 a b, find n1 (disk s) = Some a -> find n2 (disk s) = Some b ->
           fp a = fp b -> fp a <> 0 -> n1 = n2;
  i_nm : forall n w, find n (mem s) = Some w -> w_type w <> TColl -> 1 <= w_n w;
  i_nd : forall n w, find n (disk s) = Some w -> w_type w <> TColl -> 1 <= w_n w;
  i_cm : forall n w, find n (mem s) = Some w -> 0 <= w_c w;
  i_cd : forall n w, find n (disk s) = Some w -> 0 <= w_c w;
  i_ok : forall n w, find n (disk s) = Some w -> name_ok n = true;
  i_et : forall n w, find n (mem s) = Some w -> w_enc w = true -> w_temp w = false }.

Lemma inv_init : inv init.
Proof.
  constructor; cbn; try (intros; discriminate); try constructor.
  - intros H. discriminate.
  - intros [_ (n & w & H & _)]. discriminate.
Qed.

(* ------------------------------------------------------------------ preservation *)

Ltac name_cases a b :=
  let E := fresh "E" in
  destruct (String.eqb a b) eqn:E; [apply seqb_true in E | pose proof (seqb_false _ _ E)].

(* Save + serv.wallets.set of an updated copy w' of the wallet w in memory:
   same name, same fingerprint, same temp flag *)
Lemma commit_inv : forall s w w' dfail s' e,
  inv s ->
  find (w_name w') (mem s) = Some w ->
  fp w' = fp w -> w_temp w' = w_temp w ->
  (w_type w' <> TColl -> 1 <= w_n w') ->
  0 <= w_c w' ->
  (w_enc w' = true -> w_temp w' = false) ->
  commit s w' dfail = (s', e) -> inv s'.
Proof.
  intros s w w' dfail s' e I Hw Hfp Htemp Hn Hcn Het Hc.
  destruct I as [Um Ud Md U1 U2 F Fm Fd Nm Nd Cm Cd Ok Et].
  assert (Hfw : forall f, (exists n x, find n (put w' (mem s)) = Some x /\ fp x = f) <->
                          (exists n x, find n (mem s) = Some x /\ fp x = f)).
  { intros f. split; intros (n & x & Hx & Hf).
    - rewrite find_put in Hx. name_cases (w_name w') n.
      + inversion Hx. subst x. exists (w_name w'), w. split; auto. congruence.
      + eauto.
    - name_cases (w_name w') n.
      + subst n. rewrite Hw in Hx. inversion Hx. subst x.
        exists (w_name w'), w'. rewrite find_put, seqb_refl. split; auto. congruence.
      + exists n, x. rewrite find_put, E. auto. }
  assert (Hfm : forall n1 n2 a b, find n1 (put w' (mem s)) = Some a -> find n2 (put w' (mem s)) = Some b ->
                  fp a = fp b -> fp a <> 0 -> n1 = n2).
  { intros n1 n2 a b Ha Hb Hab Hnz. rewrite find_put in Ha, Hb.
    name_cases (w_name w') n1; name_cases (w_name w') n2; try congruence.
    - inversion Ha. subst a. apply (Fm n1 n2 w b); auto; try congruence.
    - inversion Hb. subst b. apply (Fm n1 n2 a w); auto; try congruence.
    - eapply Fm; eauto. }
  unfold commit, save in Hc.
  destruct (w_temp w') eqn:Tw.
  - (* temporary: only memory changes *)
    inversion Hc. subst s' e. clear Hc.
    constructor; cbn [mem disk fps unloaded]; auto.
    + now apply uniq_put.
    + intros n x Hx Hnt. rewrite find_put in Hx. name_cases (w_name w') n.
      * inversion Hx. subst x. congruence.
      * auto.
    + intros n x Hx Hall. apply (U1 n x Hx). intros m Hm.
      name_cases (w_name w') n.
      * subst n. rewrite Hw in Hm. inversion Hm. subst m. congruence.
      * apply Hall. rewrite find_put, E. auto.
    + intros n x Hx Hnt. rewrite find_put in Hx. name_cases (w_name w') n.
      * inversion Hx. subst x. congruence.
      * eauto.
    + intros f. pose proof (F f) as F1. pose proof (Hfw f) as F2. tauto.
    + intros n x Hx Ht. rewrite find_put in Hx. name_cases (w_name w') n.
      * inversion Hx. subst x. auto.
      * eauto.
    + intros n x Hx. rewrite find_put in Hx. name_cases (w_name w') n.
      * inversion Hx. subst x. auto.
      * eauto.
    + intros n x Hx He. rewrite find_put in Hx. name_cases (w_name w') n.
      * inversion Hx. subst x. specialize (Het He). congruence.
      * eauto.
  - destruct dfail.
    + inversion Hc. subst s' e. constructor; auto.
    + inversion Hc. subst s' e. clear Hc.
      assert (Hwd : find (w_name w') (disk s) = Some w) by (apply Md; auto; congruence).
      constructor; cbn [mem disk fps unloaded]; auto.
      * now apply uniq_put.
      * now apply uniq_put.
      * intros n x Hx Hnt. rewrite find_put in *. name_cases (w_name w') n; auto.
      * intros n x Hx Hall. rewrite find_put in Hx. name_cases (w_name w') n.
        -- exfalso.
           assert (Hq : find n (put w' (mem s)) = Some w') by (rewrite find_put, E, seqb_refl; auto).
           specialize (Hall w' Hq). congruence.
        -- apply (U1 n x Hx). intros m Hm. apply Hall. rewrite find_put, E. auto.
      * intros n x Hx Hnt. rewrite find_put in Hx. name_cases (w_name w') n.
        -- subst n. apply (U2 _ w Hw). congruence.
        -- eauto.
      * intros f. pose proof (F f) as F1. pose proof (Hfw f) as F2. tauto.
      * intros n1 n2 a b Ha Hb Hab Hnz. rewrite find_put in Ha, Hb.
        name_cases (w_name w') n1; name_cases (w_name w') n2; try congruence.
        -- inversion Ha. subst a. apply (Fd n1 n2 w b); auto; try congruence.
        -- inversion Hb. subst b. apply (Fd n1 n2 a w); auto; try congruence.
        -- eapply Fd; eauto.
      * intros n x Hx Ht. rewrite find_put in Hx. name_cases (w_name w') n.
        -- inversion Hx. subst x. auto.
        -- eauto.
      * intros n x Hx Ht. rewrite find_put in Hx. name_cases (w_name w') n.
        -- inversion Hx. subst x. auto.
        -- eauto.
      * intros n x Hx. rewrite find_put in Hx. name_cases (w_name w') n.
        -- inversion Hx. subst x. auto.
        -- eauto.
      * intros n x Hx. rewrite find_put in Hx. name_cases (w_name w') n.
        -- inversion Hx. subst x. auto.
        -- eauto.
      * intros n x Hx. rewrite find_put in Hx. name_cases (w_name w') n.
        -- subst n. eapply Ok; eauto.
        -- eauto.
      * intros n x Hx He. rewrite find_put in Hx. name_cases (w_name w') n.
        -- inversion Hx. subst x. auto.
        -- eauto.
Qed.

Lemma scan_false : forall s f skip,
  unloaded_file_has_fp s f skip = false ->
  forall n x, find n (disk s) = Some x -> n <> skip ->
    (forall m, find n (mem s) = Some m -> w_temp m = true) -> fp x <> f.
Proof.
  intros s f skip H n x Hx Hns Hall Hf.
  unfold unloaded_file_has_fp in H.
  assert (Hex : existsb (fun x0 : wallet => negb (String.eqb (w_name x0) skip) &&
             match find (w_name x0) (mem s) with Some m => w_temp m | None => true end &&
             (fp x0 =? f)) (disk s) = true); [|congruence].
  apply existsb_exists. exists x. split; [eapply find_In; eauto|].
  pose proof (find_name _ _ _ Hx) as Hn. rewrite Hn.
  rewrite (seqb_neq n skip Hns). cbn.
  destruct (find n (mem s)) as [m|] eqn:Em.
  - rewrite (Hall m eq_refl). cbn. now apply Z.eqb_eq.
  - cbn. now apply Z.eqb_eq.
Qed.

(* CreateWallet, success path *)
Lemma create_inv : forall s w,
  inv s ->
  name_ok (w_name w) = true ->
  (w_type w <> TColl -> 1 <= w_n w) ->
  0 <= w_c w ->
  (w_enc w = true -> w_temp w = false) ->
  (fp w <> 0 -> has_fp (fp w) (fps s) = false) ->
  (fp w <> 0 -> w_temp w = false -> unloaded_file_has_fp s (fp w) (w_name w) = false) ->
  find (w_name w) (mem s) = None ->
  inv (mkSt (put w (mem s))
            (if w_temp w then disk s else put w (disk s))
            (if fp w =? 0 then fps s else (fp w, w_name w) :: fps s)
            (if w_temp w then unloaded s else del_str (w_name w) (unloaded s))).
Proof.
  intros s w I Hok Hn Hcn Het Hfps Hscan Hnone.
  destruct I as [Um Ud Md U1 U2 F Fm Fd Nm Nd Cm Cd Ok Et].
  (* the new fingerprint is not in memory *)
  assert (Hnew : forall n x, find n (mem s) = Some x -> fp x = fp w -> fp w = 0).
  { intros n x Hx Hf. destruct (Z.eq_dec (fp w) 0) as [|Hnz]; auto.
    specialize (Hfps Hnz). exfalso.
    assert (has_fp (fp w) (fps s) = true); [|congruence].
    apply F. split; auto. eauto. }
  assert (HF : forall f, has_fp f (if fp w =? 0 then fps s else (fp w, w_name w) :: fps s) = true <->
               f <> 0 /\ (exists n x, find n (put w (mem s)) = Some x /\ fp x = f)).
  { intros f. destruct (fp w =? 0) eqn:Ez.
    - apply Z.eqb_eq in Ez. rewrite F. split; intros [Hnz (n & x & Hx & Hf)]; split; auto.
      + exists n, x. rewrite find_put. name_cases (w_name w) n; auto. congruence.
      + rewrite find_put in Hx. name_cases (w_name w) n; eauto.
        inversion Hx. subst x. congruence.
    - apply Z.eqb_neq in Ez. rewrite has_fp_cons. split.
      + intros H. apply orb_prop in H. destruct H as [H|H].
        * apply Z.eqb_eq in H. subst f. split; auto.
          exists (w_name w), w. rewrite find_put, seqb_refl. auto.
        * apply F in H. destruct H as [Hnz (n & x & Hx & Hf)]. split; auto.
          exists n, x. rewrite find_put. name_cases (w_name w) n; auto. congruence.
      + intros [Hnz (n & x & Hx & Hf)]. rewrite find_put in Hx. name_cases (w_name w) n.
        * inversion Hx. subst x. rewrite Hf, Z.eqb_refl. reflexivity.
        * apply orb_true_intro. right. apply F. split; eauto. }
  assert (HFm : forall n1 n2 a b, find n1 (put w (mem s)) = Some a -> find n2 (put w (mem s)) = Some b ->
                  fp a = fp b -> fp a <> 0 -> n1 = n2).
  { intros n1 n2 a b Ha Hb Hab Hnz. rewrite find_put in Ha, Hb.
    name_cases (w_name w) n1; name_cases (w_name w) n2; try congruence.
    - inversion Ha. subst a. exfalso. apply Hnz. eapply Hnew; eauto.
    - inversion Hb. subst b. exfalso. apply Hnz. rewrite Hab. eapply Hnew; eauto.
    - eapply Fm; eauto. }
  destruct (w_temp w) eqn:Tw.
  - constructor; cbn [mem disk fps unloaded]; auto.
    + now apply uniq_put.
    + intros n x Hx Hnt. rewrite find_put in Hx. name_cases (w_name w) n.
      * inversion Hx. subst x. congruence.
      * auto.
    + intros n x Hx Hall. apply (U1 n x Hx). intros m Hm.
      name_cases (w_name w) n.
      * subst n. congruence.
      * apply Hall. rewrite find_put, E. auto.
    + intros n x Hx Hnt. rewrite find_put in Hx. name_cases (w_name w) n.
      * inversion Hx. subst x. congruence.
      * eauto.
    + intros n x Hx Ht. rewrite find_put in Hx. name_cases (w_name w) n.
      * inversion Hx. subst x. auto.
      * eauto.
    + intros n x Hx. rewrite find_put in Hx. name_cases (w_name w) n.
      * inversion Hx. subst x. auto.
      * eauto.
    + intros n x Hx He. rewrite find_put in Hx. name_cases (w_name w) n.
      * inversion Hx. subst x. specialize (Het He). congruence.
      * eauto.
  - constructor; cbn [mem disk fps unloaded]; auto.
    + now apply uniq_put.
    + now apply uniq_put.
    + intros n x Hx Hnt. rewrite find_put in *. name_cases (w_name w) n; auto.
    + intros n x Hx Hall. rewrite find_put in Hx. name_cases (w_name w) n.
      * exfalso.
        assert (Hq : find n (put w (mem s)) = Some w) by (rewrite find_put, E, seqb_refl; auto).
        specialize (Hall w Hq). congruence.
      * rewrite mem_str_del_other; auto.
        apply (U1 n x Hx). intros m Hm. apply Hall. rewrite find_put, E. auto.
    + intros n x Hx Hnt. rewrite find_put in Hx. name_cases (w_name w) n.
      * subst n. apply mem_str_del_same.
      * rewrite mem_str_del_other; eauto.
    + (* no two files with one fingerprint *)
      assert (Hone : forall n b, find n (disk s) = Some b -> n <> w_name w -> fp b = fp w -> fp w = 0).
      { intros n b Hb Hne Hf. destruct (Z.eq_dec (fp w) 0) as [|Hnz]; auto. exfalso.
        destruct (find n (mem s)) as [m|] eqn:Em.
        - destruct (w_temp m) eqn:Tm.
          + apply (scan_false s (fp w) (w_name w) (Hscan Hnz eq_refl) n b Hb Hne); auto.
            intros m' Hm'. congruence.
          + pose proof (Md n m Em Tm) as Hd. rewrite Hb in Hd. inversion Hd. subst m.
            apply Hnz. eapply Hnew; eauto.
        - apply (scan_false s (fp w) (w_name w) (Hscan Hnz eq_refl) n b Hb Hne); auto.
          intros m' Hm'. congruence. }
      intros n1 n2 a b Ha Hb Hab Hnz. rewrite find_put in Ha, Hb.
      name_cases (w_name w) n1; name_cases (w_name w) n2; try congruence.
      * inversion Ha. subst a. exfalso. apply Hnz. eapply (Hone n2 b); eauto.
      * inversion Hb. subst b. exfalso. apply Hnz. rewrite Hab. eapply (Hone n1 a); eauto.
      * eapply Fd; eauto.
    + intros n x Hx Ht. rewrite find_put in Hx. name_cases (w_name w) n.
      * inversion Hx. subst x. auto.
      * eauto.
    + intros n x Hx Ht. rewrite find_put in Hx. name_cases (w_name w) n.
      * inversion Hx. subst x. auto.
      * eauto.
    + intros n x Hx. rewrite find_put in Hx. name_cases (w_name w) n.
      * inversion Hx. subst x. auto.
      * eauto.
    + intros n x Hx. rewrite find_put in Hx. name_cases (w_name w) n.
      * inversion Hx. subst x. auto.
      * eauto.
    + intros n x Hx. rewrite find_put in Hx. name_cases (w_name w) n.
      * subst n. auto.
      * eauto.
    + intros n x Hx He. rewrite find_put in Hx. name_cases (w_name w) n.
      * inversion Hx. subst x. auto.
      * eauto.
Qed.

(* UnloadWallet *)
Lemma unload_inv : forall s name w,
  inv s -> find name (mem s) = Some w ->
  inv (mkSt (del name (mem s)) (disk s)
            (if fp w =? 0 then fps s else del_fp (fp w) (fps s))
            (if mem_str name (unloaded s) then unloaded s else name :: unloaded s)).
Proof.
  intros s name w I Hw.
  destruct I as [Um Ud Md U1 U2 F Fm Fd Nm Nd Cm Cd Ok Et].
  assert (Hu : forall n, mem_str n (if mem_str name (unloaded s) then unloaded s else name :: unloaded s) =
                         String.eqb n name || mem_str n (unloaded s)).
  { intros n. destruct (mem_str name (unloaded s)) eqn:Eu.
    - name_cases n name; auto. subst n. rewrite Eu. reflexivity.
    - now rewrite mem_str_cons. }
  constructor; cbn [mem disk fps unloaded]; auto.
  - now apply uniq_del.
  - intros n x Hx Hnt. rewrite find_del in Hx. name_cases name n; [discriminate|]. auto.
  - intros n x Hx Hall. rewrite Hu. name_cases n name; auto. cbn.
    apply (U1 n x Hx). intros m Hm. apply Hall. rewrite find_del.
    rewrite seqb_neq; auto.
  - intros n x Hx Hnt. rewrite find_del in Hx. name_cases name n; [discriminate|].
    rewrite Hu. rewrite seqb_neq; auto. cbn. eauto.
  - intros f. destruct (fp w =? 0) eqn:Ez.
    + apply Z.eqb_eq in Ez. rewrite F. split; intros [Hnz (n & x & Hx & Hf)]; split; auto.
      * exists n, x. rewrite find_del. name_cases name n; auto.
        subst n. rewrite Hw in Hx. inversion Hx. subst x. congruence.
      * rewrite find_del in Hx. name_cases name n; [discriminate|]. eauto.
    + apply Z.eqb_neq in Ez. rewrite has_fp_del. split.
      * intros H. apply andb_prop in H. destruct H as [H1 H2].
        apply F in H2. destruct H2 as [Hnz (n & x & Hx & Hf)]. split; auto.
        exists n, x. rewrite find_del. name_cases name n; auto.
        subst n. rewrite Hw in Hx. inversion Hx. subst x.
        rewrite Hf, Z.eqb_refl in H1. discriminate.
      * intros [Hnz (n & x & Hx & Hf)]. rewrite find_del in Hx. name_cases name n; [discriminate|].
        apply andb_true_intro. split.
        -- destruct (f =? fp w) eqn:E2; auto. apply Z.eqb_eq in E2. exfalso.
           apply H. symmetry. apply (Fm n name x w); auto; congruence.
        -- apply F. split; eauto.
  - intros n1 n2 a b Ha Hb. rewrite find_del in Ha, Hb.
    name_cases name n1; [discriminate|]. name_cases name n2; [discriminate|]. eauto.
  - intros n x Hx. rewrite find_del in Hx. name_cases name n; [discriminate|]. eauto.
  - intros n x Hx. rewrite find_del in Hx. name_cases name n; [discriminate|]. eauto.
  - intros n x Hx. rewrite find_del in Hx. name_cases name n; [discriminate|]. eauto.
Qed.

Definition E_some : forall e : string, E e = Some e := fun _ => eq_refl.

(* every operation preserves the invariant *)
Lemma create_check_enc : forall typ seed label enc pw temp,
  create_check typ seed label enc pw temp = None -> enc = true -> temp = false.
Proof.
  unfold create_check. intros typ seed label enc pw temp H He. subst enc.
  destruct (typ =? TXpub); [discriminate|].
  destruct (negb ((typ =? TDet) || (typ =? TColl) || (typ =? TBip))); [discriminate|].
  destruct (label =? 0); [discriminate|].
  destruct (negb (typ =? TColl) && (seed =? 0)); [discriminate|].
  destruct temp; auto. discriminate.
Qed.

Ltac commit_case I Ef :=
  let Hnm := fresh "Hnm" in
  pose proof (find_name _ _ _ Ef) as Hnm;
  match goal with |- inv (fst (commit ?s ?w' ?d)) =>
    let s' := fresh "s'" in let e := fresh "e" in let Ec := fresh "Ec" in
    destruct (commit s w' d) as [s' e] eqn:Ec;
    match type of Ef with find _ _ = Some ?w => apply (commit_inv s w w' d s' e I); auto;
      try (cbn; rewrite Hnm; exact Ef) end
  end.

Lemma step_inv : forall s o, inv s -> wf_op o = true -> inv (fst (step s o)).
Proof.
  intros s o I Hwf. unfold step.
  destruct o as [name typ seed coin label enc pw n temp dfail | name pw n chg dfail | name pw num ea ca dfail
                | name label dfail | name pw dfail | name pw dfail | name seed pw dfail
                | name | name pw fok label dfail | name fok label dfail
                | name pw | name pw | name]; cbn [step_gen].
  - (* Create *)
    cbn in Hwf. apply andb_prop in Hwf. destruct Hwf as [Hok Hn]. apply Z.leb_le in Hn.
    destruct (create_check typ seed label enc pw temp) eqn:Ecc; [exact I|].
    repeat match goal with
           | |- inv (fst (if ?c then _ else _)) =>
               lazymatch type of c with bool => destruct c eqn:?; [exact I|] end
           end.
    match goal with |- context [fp ?x] => set (w := x) in * end.
    destruct (find name (mem s)) eqn:Ef; [exact I|].
    unfold save. cbn [w_temp w].
    assert (Hn1 : w_type w <> TColl -> 1 <= w_n w).
    { cbn [w_type w_n w]. intros Ht. apply Z.eqb_neq in Ht. rewrite Ht.
      destruct (n =? 0) eqn:En; [lia|]. apply Z.eqb_neq in En. lia. }
    assert (Hc0 : 0 <= w_c w) by (cbn [w_c w]; destruct (typ =? TBip); lia).
    assert (Het : w_enc w = true -> w_temp w = false).
    { cbn [w_enc w_temp w]. eapply create_check_enc; eauto. }
    assert (Hfps : fp w <> 0 -> has_fp (fp w) (fps s) = false).
    { intros Hnz. apply Z.eqb_neq in Hnz.
      match goal with H : negb (fp w =? 0) && has_fp _ _ = false |- _ => rewrite Hnz in H; exact H end. }
    destruct temp.
    + pose proof (create_inv s w I Hok Hn1 Hc0 Het Hfps) as C. cbn [w_temp w_name w] in C.
      apply C; auto. intros; discriminate.
    + destruct dfail.
      * destruct (fp w =? 0) eqn:Ez; cbn in *; try discriminate; exact I.
      * pose proof (create_inv s w I Hok Hn1 Hc0 Het Hfps) as C. cbn [w_temp w_name w] in C.
        apply C; auto. intros Hnz _. apply Z.eqb_neq in Hnz.
        match goal with H : true && negb (fp w =? 0) && negb false && unloaded_file_has_fp _ _ _ = false |- _ =>
          rewrite Hnz in H; exact H end.
  - (* NewAddr *)
    cbn in Hwf. apply Z.leb_le in Hwf.
    destruct (find name (mem s)) as [w|] eqn:Ef; [|exact I].
    destruct (if (w_type w =? TBip) && w_enc w then None else guard_pw w pw); [exact I|].
    pose proof I as I'. destruct I' as [Um Ud Md U1 U2 F Fm Fd Nm Nd Cm Cd Ok Et].
    destruct (w_type w =? TColl) eqn:Etc.
    + commit_case I Ef; eauto.
    + apply Z.eqb_neq in Etc. pose proof (Nm _ _ Ef Etc). pose proof (Cm _ _ Ef).
      destruct ((w_type w =? TBip) && chg); commit_case I Ef; cbn; eauto; try lia.
  - (* Scan *)
    cbn in Hwf. apply andb_prop in Hwf. destruct Hwf as [Hwf Hca]. apply andb_prop in Hwf. destruct Hwf as [Hnum Hea].
    apply Z.leb_le in Hnum, Hea, Hca.
    assert (Hk : forall a, 0 <= a -> 0 <= keep num a).
    { intros a Ha. unfold keep. destruct (num =? 0); lia. }
    destruct (find name (mem s)) as [w|] eqn:Ef; [|exact I].
    pose proof I as I'. destruct I' as [Um Ud Md U1 U2 F Fm Fd Nm Nd Cm Cd Ok Et].
    pose proof (Hk ea Hea). pose proof (Hk ca Hca). pose proof (Cm _ _ Ef).
    destruct (w_type w =? TBip) eqn:Etb.
    + destruct (negb (pw =? 0)); [exact I|].
      commit_case I Ef; cbn; eauto; try lia.
      intros Ht. pose proof (Nm _ _ Ef Ht). lia.
    + destruct (guard_pw w pw); [exact I|].
      destruct (w_type w =? TColl); [exact I|].
      commit_case I Ef; cbn; eauto; try lia.
      intros Ht. pose proof (Nm _ _ Ef Ht). lia.
  - (* SetLabel *)
    destruct (find name (mem s)) as [w|] eqn:Ef; [|exact I].
    destruct I as [Um Ud Md U1 U2 F Fm Fd Nm Nd Cm Cd Ok Et] eqn:EI.
    assert (I' : inv s) by (constructor; auto).
    commit_case I' Ef; cbn; eauto.
  - (* Encrypt *)
    destruct (find name (mem s)) as [w|] eqn:Ef; [|exact I].
    destruct (w_enc w); [exact I|]. destruct (w_type w =? TXpub); [exact I|].
    destruct (w_temp w) eqn:Tw; [exact I|].
    destruct (pw =? 0); [exact I|].
    pose proof I as I'. destruct I' as [Um Ud Md U1 U2 F Fm Fd Nm Nd Cm Cd Ok Et].
    commit_case I Ef; cbn; eauto.
  - (* Decrypt *)
    destruct (find name (mem s)) as [w|] eqn:Ef; [|exact I].
    destruct (negb (w_enc w)); [exact I|]. destruct (pw =? 0); [exact I|].
    destruct (negb (pw =? w_pw w)); [exact I|].
    pose proof I as I'. destruct I' as [Um Ud Md U1 U2 F Fm Fd Nm Nd Cm Cd Ok Et].
    commit_case I Ef; cbn; eauto. intros; discriminate.
  - (* Recover *)
    destruct (find name (mem s)) as [w|] eqn:Ef; [|exact I].
    destruct (w_enc w) eqn:Ew; [|exact I]. cbn [negb].
    destruct (negb ((w_type w =? TDet) || (w_type w =? TBip))); [exact I|].
    destruct ((w_label w =? 0) || (seed =? 0)); [exact I|].
    destruct (negb (fp_of (w_type w) seed (w_coin w) =? fp w)) eqn:Efp; [exact I|].
    apply negb_false_iff in Efp. apply Z.eqb_eq in Efp.
    pose proof I as I'. destruct I' as [Um Ud Md U1 U2 F Fm Fd Nm Nd Cm Cd Ok Et].
    assert (Tw : w_temp w = false) by eauto.
    commit_case I Ef; cbn; eauto.
  - (* Unload *)
    destruct (find name (mem s)) as [w|] eqn:Ef; [|exact I].
    cbn [fst]. now apply unload_inv.
  - (* UpdateSecrets *)
    destruct (find name (mem s)) as [w|] eqn:Ef; [|exact I].
    destruct (guard_pw w pw); [exact I|]. destruct (negb fok); [exact I|].
    pose proof I as I'. destruct I' as [Um Ud Md U1 U2 F Fm Fd Nm Nd Cm Cd Ok Et].
    commit_case I Ef; cbn; eauto.
  - (* Update *)
    destruct (find name (mem s)) as [w|] eqn:Ef; [|exact I].
    destruct (negb fok); [exact I|].
    pose proof I as I'. destruct I' as [Um Ud Md U1 U2 F Fm Fd Nm Nd Cm Cd Ok Et].
    commit_case I Ef; cbn; eauto.
  - (* ViewSecrets *) destruct (find name (mem s)); exact I.
  - (* GetWalletSeed *) destruct (find name (mem s)) as [w|]; [destruct (negb (w_enc w))|]; exact I.
  - (* GetWallet / View *) destruct (find name (mem s)); exact I.
Qed.

Lemma run_inv : forall ops s, forallb wf_op ops = true -> inv s -> inv (run ops s).
Proof.
  unfold run. induction ops as [|o r IH]; cbn; intros s Hwf I; auto.
  apply andb_prop in Hwf. destruct Hwf as [H1 H2].
  apply IH; auto. now apply step_inv.
Qed.

(* ------------------------------------------------------------------ from the invariant to the views *)

Lemma filter_id : forall (A : Type) (p : A -> bool) l, (forall x, In x l -> p x = true) -> filter p l = l.
Proof.
  induction l as [|x r IH]; cbn; intros H; auto.
  rewrite (H x (or_introl eq_refl)). f_equal. apply IH. intros; apply H; auto.
Qed.

Lemma find_none_filter : forall p n l, ~ In n (map w_name l) -> find n (filter p l) = None.
Proof.
  induction l as [|x r IH]; cbn; intros H; auto.
  destruct (p x); cbn.
  - rewrite seqb_neq; [apply IH|]; intuition.
  - apply IH. intuition.
Qed.

Lemma find_filter : forall p n l, uniq l ->
  find n (filter p l) = match find n l with Some w => if p w then Some w else None | None => None end.
Proof.
  induction l as [|x r IH]; cbn; intros U; auto.
  inversion U as [|? ? Hn U']. subst.
  name_cases (w_name x) n.
  - destruct (p x); cbn.
    + now rewrite E, seqb_refl.
    + apply find_none_filter. now rewrite <- E.
  - destruct (p x); cbn; [rewrite E|]; auto.
Qed.

Lemma eqb_wallet_refl : forall w, eqb_wallet w w = true.
Proof.
  intros w. unfold eqb_wallet. rewrite seqb_refl, !Z.eqb_refl, !Bool.eqb_reflx. reflexivity.
Qed.

(* fingerprints pairwise distinct, as the loader checks them *)
Lemma nodup_fps_true : forall l seen,
  uniq l ->
  (forall a b, In a l -> In b l -> fp a = fp b -> fp a <> 0 -> w_name a = w_name b) ->
  (forall a, In a l -> fp a <> 0 -> ~ In (fp a) seen) ->
  nodup_fps seen l = true.
Proof.
  induction l as [|x r IH]; cbn; intros seen U Hd Hs; auto.
  inversion U as [|? ? Hn U']. subst.
  destruct (fp x =? 0) eqn:Ez.
  - apply IH; auto.
  - apply Z.eqb_neq in Ez.
    destruct (existsb (Z.eqb (fp x)) seen) eqn:Ex.
    + apply existsb_exists in Ex. destruct Ex as (f & Hf & Ef). apply Z.eqb_eq in Ef. subst f.
      exfalso. apply (Hs x); auto.
    + apply IH; auto. intros a Ha Hnz [Hin|Hin].
      * apply Hn. rewrite (Hd x a); auto. now apply in_map.
      * apply (Hs a); auto.
Qed.

Lemma inv_fd_In : forall s, inv s ->
  forall a b, In a (disk s) -> In b (disk s) -> fp a = fp b -> fp a <> 0 -> w_name a = w_name b.
Proof.
  intros s I a b Ha Hb. destruct I. eapply i_fd0; apply In_find; auto.
Qed.

Lemma inv_fm_In : forall s, inv s ->
  forall a b, In a (mem s) -> In b (mem s) -> fp a = fp b -> fp a <> 0 -> w_name a = w_name b.
Proof.
  intros s I a b Ha Hb. destruct I. eapply i_fm0; apply In_find; auto.
Qed.

Lemma inv_reload : forall s, inv s -> reload (disk s) = RLoaded (disk s).
Proof.
  intros s I. unfold reload.
  assert (Hf : filter (fun w => name_ok (w_name w)) (disk s) = disk s).
  { apply filter_id. intros x Hx. destruct I. eapply i_ok0. apply In_find; eauto. }
  rewrite Hf.
  rewrite (nodup_fps_true (disk s) []); [| destruct I; auto | now apply inv_fd_In | intros; intros []].
  cbn [negb].
  destruct (existsb (fun w => negb (w_type w =? TColl) && (w_n w + w_c w <=? 0)) (disk s)) eqn:Ex; auto.
  apply existsb_exists in Ex. destruct Ex as (x & Hx & Hb). apply andb_prop in Hb. destruct Hb as [H1 H2].
  apply negb_true_iff in H1. apply Z.eqb_neq in H1. apply Z.leb_le in H2.
  destruct I. pose proof (i_nd0 _ x (In_find _ _ i_udisk0 Hx) H1).
  pose proof (i_cd0 _ x (In_find _ _ i_udisk0 Hx)). lia.
Qed.

Lemma inv_mem_eq_disk : forall s, inv s -> mem_eq_disk_b s = true.
Proof.
  intros s I. unfold mem_eq_disk_b. rewrite (inv_reload s I).
  pose proof I as I'. destruct I' as [Um Ud Md U1 U2 F Fm Fd Nm Nd Cm Cd Ok Et].
  unfold eq_map, sub_map, not_unloaded, non_temp.
  apply andb_true_intro. split; apply forallb_forall; intros x Hx; apply filter_In in Hx; destruct Hx as [Hx Hp].
  - (* a file that was not unloaded is the wallet in memory *)
    apply negb_true_iff in Hp.
    pose proof (In_find _ _ Ud Hx) as Hfx.
    rewrite find_filter; auto.
    destruct (find (w_name x) (mem s)) as [m|] eqn:Em.
    + destruct (w_temp m) eqn:Tm.
      * exfalso. rewrite (U1 _ x Hfx) in Hp; [discriminate|]. intros m' Hm'. congruence.
      * pose proof (Md _ m Em Tm) as Hd. rewrite Hfx in Hd.
        assert (Hxm : x = m) by congruence. rewrite <- Hxm in *.
        cbn. apply eqb_wallet_refl.
    + exfalso. rewrite (U1 _ x Hfx) in Hp; [discriminate|]. intros m' Hm'. congruence.
  - (* a non-temporary wallet in memory is its file, and was not unloaded *)
    apply negb_true_iff in Hp.
    pose proof (In_find _ _ Um Hx) as Hfx.
    rewrite find_filter; auto.
    rewrite (Md _ x Hfx Hp). rewrite (U2 _ x Hfx Hp). cbn. apply eqb_wallet_refl.
Qed.

Lemma inv_fps : forall s, inv s ->
  nodup_fps [] (mem s) = true /\
  forall f, has_fp f (fps s) = true <-> (f <> 0 /\ exists w, In w (mem s) /\ fp w = f).
Proof.
  intros s I. split.
  - apply nodup_fps_true; [destruct I; auto | now apply inv_fm_In | intros; intros []].
  - intros f. destruct I. rewrite i_f0. split; intros [Hnz H]; split; auto.
    + destruct H as (n & w & Hw & Hf). exists w. split; auto. eapply find_In; eauto.
    + destruct H as (w & Hw & Hf). exists (w_name w), w. split; auto. now apply In_find.
Qed.

(* a failed operation changes nothing *)
Lemma step_failed_noop : forall s o s' e, step s o = (s', Some e) -> s' = s.
Proof.
  intros s o s' e H. unfold step in H.
  destruct o; cbn [step_gen] in H; unfold commit in H;
    repeat match type of H with
           | context [match ?c with _ => _ end] => destruct c eqn:?
           end; inversion H; auto.
Qed.

(* ------------------------------------------------------------------ the unchanged tree (F20) *)

Definition f20_history : list op :=
  [Create "a.wlt" TDet 1 0 1 false 0 1 false false; Unload "a.wlt"; Create "b.wlt" TDet 1 0 2 false 0 1 false false].

Lemma f20_v0_refuted :
  forallb wf_op f20_history = true /\
  reload (disk (run_v0 f20_history init)) = RAbort /\
  mem_eq_disk_b (run_v0 f20_history init) = false.
Proof. vm_compute. repeat split; reflexivity. Qed.

(* the same history on the current service: the second create is refused *)
Lemma f20_now :
  snd (step (run [Create "a.wlt" TDet 1 0 1 false 0 1 false false; Unload "a.wlt"] init)
            (Create "b.wlt" TDet 1 0 2 false 0 1 false false)) = Some "ErrFingerprintConflict"%string.
Proof. vm_compute. reflexivity. Qed.

(* non-vacuity: a history with a temporary wallet, an unloaded wallet, an
   encrypted one and a failed save; memory and directory differ as lists but
   agree in the sense of the theorem *)
Definition ex_history : list op :=
  [Create "a.wlt" TDet 1 0 1 false 0 2 false false;
   Create "t.wlt" TDet 2 0 1 false 0 1 true false;
   Create "c.wlt" TColl 0 0 3 true 2 0 false false;
   Create "b.wlt" TBip 3 2 1 false 0 2 false false;
   Encrypt "a.wlt" 1 false;
   NewAddr "a.wlt" 1 3 false true;
   NewAddr "a.wlt" 1 3 false false;
   Scan "b.wlt" 0 3 0 2 false;          (* activity on the change chain only *)
   Unload "c.wlt";
   Decrypt "a.wlt" 2 false].

Lemma ex_history_ok :
  forallb wf_op ex_history = true /\
  map w_name (mem (run ex_history init)) = ["a.wlt"; "t.wlt"; "b.wlt"]%string /\
  map w_name (disk (run ex_history init)) = ["a.wlt"; "c.wlt"; "b.wlt"]%string /\
  map w_n (mem (run ex_history init)) = [5; 1; 2] /\
  map w_c (disk (run ex_history init)) = [0; 0; 3] /\
  mem_eq_disk_b (run ex_history init) = true.
Proof. vm_compute. repeat split; reflexivity. Qed.

(* read-only calls return data or an error and change nothing *)
Definition is_read (o : op) : bool :=
  match o with ViewSecrets _ _ | GetSeed _ _ | ReadW _ => true | _ => false end.
Lemma read_noop : forall s o, is_read o = true -> fst (step s o) = s.
Proof.
  intros s o H. destruct o; try discriminate; unfold step; cbn [step_gen];
    destruct (find name (mem s)) as [w|]; try reflexivity.
  destruct (negb (w_enc w)); reflexivity.
Qed.

(* ------------------------------------------------------------------ for all histories *)

Lemma all_mem_eq_disk : forall ops, forallb wf_op ops = true -> mem_eq_disk_b (run ops init) = true.
Proof. intros ops H. apply inv_mem_eq_disk. apply run_inv; [exact H | exact inv_init]. Qed.

Lemma all_reload_total : forall ops, forallb wf_op ops = true ->
  reload (disk (run ops init)) = RLoaded (disk (run ops init)).
Proof. intros ops H. apply inv_reload. apply run_inv; [exact H | exact inv_init]. Qed.

Lemma all_fps : forall ops, forallb wf_op ops = true ->
  let s := run ops init in
  nodup_fps [] (mem s) = true /\
  forall f, has_fp f (fps s) = true <-> (f <> 0 /\ exists w, In w (mem s) /\ fp w = f).
Proof. intros ops H. apply inv_fps. apply run_inv; [exact H | exact inv_init]. Qed.

Lemma v0_refuted_ex :
  exists ops, forallb wf_op ops = true /\
    reload (disk (run_v0 ops init)) = RAbort /\ mem_eq_disk_b (run_v0 ops init) = false.
Proof. exists f20_history. exact f20_v0_refuted. Qed.
