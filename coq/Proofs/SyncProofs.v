(* Proofs for C33 (Model/Sync.v). *)
From Sky Require Import Base.Uint Model.Sync.
From Coq Require Import Lia ZifyBool ZArith Bool List.
Import ListNotations.
Open Scope Z_scope.

(* ---------- small list facts *)

Lemma seqs_from_snoc k n : seqs_from k (S n) = seqs_from k n ++ [k + Z.of_nat n].
Proof.
  revert k. induction n as [|n IH]; intros k.
  - cbn. f_equal. lia.
  - change (seqs_from k (S (S n))) with (k :: seqs_from (k + 1) (S n)).
    rewrite IH. cbn [seqs_from app]. do 3 f_equal. lia.
Qed.

Lemma seqs_from_length k n : length (seqs_from k n) = n.
Proof. revert k. induction n as [|n IH]; intros k; cbn; [reflexivity | now rewrite IH]. Qed.

Lemma seqs_from_In k n x : In x (seqs_from k n) <-> k <= x < k + Z.of_nat n.
Proof.
  revert k. induction n as [|n IH]; intros k.
  - cbn. lia.
  - cbn [seqs_from In]. rewrite IH. lia.
Qed.

Lemma seqs_from_nth k n i : (i < n)%nat -> nth_error (seqs_from k n) i = Some (k + Z.of_nat i).
Proof.
  revert k i. induction n as [|n IH]; intros k i Hi; [lia|].
  destruct i as [|i]; cbn [seqs_from nth_error].
  - f_equal. lia.
  - rewrite IH by lia. f_equal. lia.
Qed.

Lemma head_of_app held b : head_of (held ++ [b]) = head_of held + 1.
Proof. unfold head_of. rewrite app_length. cbn. lia. Qed.

Lemma head_of_nonneg held : 0 <= head_of held.
Proof. unfold head_of. lia. Qed.

Lemma some_inj {A} (a b : A) : Some a = Some b -> a = b.
Proof. intros H. now inversion H. Qed.

(* ---------- the loop, stated without the loop *)

Lemma take_chain_ext f1 bs : forall held,
  exists ext, take_chain f1 held bs = held ++ ext /\ incl ext bs /\
              Forall (fun b => valid f1 b = true) ext /\
              map d_seq ext = seqs_from (head_of held + 1) (length ext).
Proof.
  induction bs as [|b r IH]; intros held.
  - exists []. cbn. rewrite app_nil_r. repeat split; auto. intros x [].
  - cbn [take_chain]. destruct (exec_ok f1 held b) eqn:E.
    + destruct (IH (held ++ [b])) as (ext & He & Hi & Hv & Hs).
      exists (b :: ext). rewrite He, <- app_assoc. cbn [app].
      unfold exec_ok in E. apply andb_true_iff in E as [Ev Es].
      repeat split.
      * intros x [->|Hx]; [now left | right; now apply Hi].
      * constructor; assumption.
      * cbn [map length seqs_from]. rewrite head_of_app in Hs. f_equal; [lia | exact Hs].
    + exists []. rewrite app_nil_r. repeat split; auto. intros x [].
Qed.

Lemma exec_loop_spec f1 mx bs : forall held p,
  exec_loop f1 mx held p bs =
  (take_chain f1 held (above mx bs),
   p + (head_of (take_chain f1 held (above mx bs)) - head_of held)).
Proof.
  induction bs as [|b r IH]; intros held p.
  - cbn. f_equal. lia.
  - cbn [exec_loop above filter]. destruct (d_seq b <=? mx) eqn:Es; cbn [negb].
    + apply IH.
    + cbn [take_chain]. destruct (exec_ok f1 held b) eqn:E.
      * rewrite IH. f_equal. fold (above mx r). rewrite head_of_app. lia.
      * f_equal. lia.
Qed.

Lemma deliver_spec f1 reqn held msg :
  deliver f1 reqn held msg =
  let held' := take_chain f1 held (above (head_of held) msg) in
  (held', if head_of held' =? head_of held then []
          else [Announce (head_of held'); Request (head_of held') reqn]).
Proof.
  unfold deliver. rewrite exec_loop_spec. cbn zeta.
  set (h' := take_chain f1 held (above (head_of held) msg)).
  replace (0 + (head_of h' - head_of held) =? 0) with (head_of h' =? head_of held); [reflexivity|].
  destruct (head_of h' =? head_of held) eqn:E1, (0 + (head_of h' - head_of held) =? 0) eqn:E2; lia.
Qed.

(* ---------- invariant: what is held is valid blocks 1..head, each one given in some message *)

Definition good (f1 : bool) (held : list dblock) : Prop :=
  Forall (fun b => valid f1 b = true) held /\ map d_seq held = seqs_from 1 (length held).

Lemma good_nil f1 : good f1 []. Proof. split; [constructor | reflexivity]. Qed.

Lemma good_app f1 held ext :
  good f1 held -> Forall (fun b => valid f1 b = true) ext ->
  map d_seq ext = seqs_from (head_of held + 1) (length ext) -> good f1 (held ++ ext).
Proof.
  intros [Hv Hs] Hve Hse. split.
  - apply Forall_app; split; assumption.
  - rewrite map_app, Hs, Hse, app_length. clear - held.
    unfold head_of. generalize (length held) as n. intros n.
    induction (length ext) as [|m IH].
    + cbn. now rewrite app_nil_r, Nat.add_0_r.
    + rewrite Nat.add_succ_r, !seqs_from_snoc, app_assoc, IH. do 2 f_equal. lia.
Qed.

Lemma deliver_good f1 reqn held msg :
  good f1 held -> good f1 (fst (deliver f1 reqn held msg)).
Proof.
  intros Hg. rewrite deliver_spec. cbn [fst].
  destruct (take_chain_ext f1 (above (head_of held) msg) held) as (ext & He & _ & Hv & Hs).
  rewrite He. apply good_app; assumption.
Qed.

Lemma deliver_from f1 reqn held msg :
  exists ext, fst (deliver f1 reqn held msg) = held ++ ext /\ incl ext msg.
Proof.
  rewrite deliver_spec. cbn [fst].
  destruct (take_chain_ext f1 (above (head_of held) msg) held) as (ext & He & Hi & _ & _).
  exists ext. split; [exact He|]. intros x Hx. apply Hi in Hx. unfold above in Hx.
  apply filter_In in Hx. tauto.
Qed.

Lemma run_cons f1 reqn held m r :
  run f1 reqn held (m :: r) =
  (fst (run f1 reqn (fst (deliver f1 reqn held m)) r),
   (head_of (fst (deliver f1 reqn held m)), snd (deliver f1 reqn held m))
     :: snd (run f1 reqn (fst (deliver f1 reqn held m)) r)).
Proof.
  cbn [run]. destruct (deliver f1 reqn held m) as [h' rep]. cbn [fst snd].
  destruct (run f1 reqn h' r) as [hf tr]. reflexivity.
Qed.

Lemma final_cons f1 reqn held m r :
  final f1 reqn held (m :: r) = final f1 reqn (fst (deliver f1 reqn held m)) r.
Proof. unfold final. rewrite run_cons. reflexivity. Qed.

Lemma final_app f1 reqn s1 : forall held s2,
  final f1 reqn held (s1 ++ s2) = final f1 reqn (final f1 reqn held s1) s2.
Proof.
  induction s1 as [|m r IH]; intros held s2.
  - reflexivity.
  - cbn [app]. rewrite !final_cons. apply IH.
Qed.

Lemma final_good f1 reqn sched : forall held, good f1 held -> good f1 (final f1 reqn held sched).
Proof.
  induction sched as [|m r IH]; intros held Hg.
  - exact Hg.
  - rewrite final_cons. apply IH, deliver_good, Hg.
Qed.

Lemma final_from f1 reqn sched : forall held,
  exists ext, final f1 reqn held sched = held ++ ext /\
              Forall (fun b => exists m, In m sched /\ In b m) ext.
Proof.
  induction sched as [|m r IH]; intros held.
  - exists []. split; [now rewrite app_nil_r | constructor].
  - rewrite final_cons.
    destruct (deliver_from f1 reqn held m) as (e1 & H1 & Hi1).
    destruct (IH (fst (deliver f1 reqn held m))) as (e2 & H2 & Hi2).
    exists (e1 ++ e2). rewrite H2, H1, app_assoc. split; [reflexivity|].
    apply Forall_app; split.
    + apply Forall_forall. intros b Hb. exists m. split; [now left | now apply Hi1].
    + eapply Forall_impl; [|exact Hi2]. cbn. intros b (m' & Hm & Hb). exists m'. split; [now right | exact Hb].
Qed.

Lemma head_monotone f1 reqn sched held : head_of held <= head_of (final f1 reqn held sched).
Proof.
  destruct (final_from f1 reqn sched held) as (ext & He & _). rewrite He.
  unfold head_of. rewrite app_length. lia.
Qed.

(* sync_prefix + never_unsigned: the blocks held are valid (signed by the
   publisher, genuine content) and are exactly numbers 1..head in order *)
Theorem held_is_prefix f1 reqn sched :
  let held := final f1 reqn [] sched in
  Forall (fun b => sig_ok b = true /\ content_ok f1 b = true) held /\
  map d_seq held = seqs_from 1 (length held).
Proof.
  cbn zeta. destruct (final_good f1 reqn sched [] (good_nil f1)) as [Hv Hs].
  split; [|exact Hs]. eapply Forall_impl; [|exact Hv].
  cbn. intros b Hb. unfold valid in Hb. now apply andb_true_iff in Hb.
Qed.

Theorem never_unsigned f1 reqn sched b :
  In b (final f1 reqn [] sched) -> sig_ok b = true.
Proof.
  intros Hb. destruct (held_is_prefix f1 reqn sched) as [H _].
  rewrite Forall_forall in H. exact (proj1 (H b Hb)).
Qed.

(* the node holds only what it was given *)
Theorem held_was_delivered f1 reqn sched k :
  1 <= k <= head_of (final f1 reqn [] sched) -> delivered_valid f1 sched k.
Proof.
  intros Hk.
  destruct (final_good f1 reqn sched [] (good_nil f1)) as [Hv Hs].
  destruct (final_from f1 reqn sched []) as (ext & He & Hfrom). cbn [app] in He.
  set (held := final f1 reqn [] sched) in *.
  unfold head_of in Hk.
  assert (Hi : (Z.to_nat (k - 1) < length held)%nat) by lia.
  destruct (nth_error held (Z.to_nat (k - 1))) as [b|] eqn:Hn.
  2:{ apply nth_error_None in Hn. lia. }
  assert (Hb : In b held) by (eapply nth_error_In; eauto).
  assert (Hseq : d_seq b = k).
  { pose proof (map_nth_error d_seq _ _ Hn) as Hm. rewrite Hs, seqs_from_nth in Hm by exact Hi.
    apply some_inj in Hm. lia. }
  rewrite Forall_forall in Hv. specialize (Hv b Hb).
  rewrite He in Hb. rewrite Forall_forall in Hfrom. destruct (Hfrom b Hb) as (m & Hm & Hbm).
  exists m, b. auto.
Qed.

(* ---------- clean re-delivery reaches the longest gap-free prefix *)

Lemma take_chain_genuine f1 n : forall held,
  take_chain f1 held (map (fun k => mkd k Genuine) (seqs_from (head_of held + 1) n)) =
  held ++ map (fun k => mkd k Genuine) (seqs_from (head_of held + 1) n).
Proof.
  induction n as [|n IH]; intros held.
  - cbn. now rewrite app_nil_r.
  - cbn [seqs_from map take_chain]. unfold exec_ok, valid, sig_ok, content_ok. cbn [d_kind d_seq].
    rewrite Z.eqb_refl. cbn [andb].
    specialize (IH (held ++ [mkd (head_of held + 1) Genuine])). rewrite head_of_app in IH.
    rewrite IH, <- app_assoc. reflexivity.
Qed.

Lemma above_all h bs :
  Forall (fun b => h < d_seq b) bs -> above h bs = bs.
Proof.
  induction 1 as [|b r Hb _ IH]; [reflexivity|].
  cbn [above filter]. destruct (d_seq b <=? h) eqn:E; [lia|]. cbn [negb]. f_equal. exact IH.
Qed.

Lemma above_none h bs :
  Forall (fun b => d_seq b <= h) bs -> above h bs = [].
Proof.
  induction 1 as [|b r Hb _ IH]; [reflexivity|].
  cbn [above filter]. destruct (d_seq b <=? h) eqn:E; [|lia]. cbn [negb]. exact IH.
Qed.

Lemma above_app h a b : above h (a ++ b) = above h a ++ above h b.
Proof. unfold above. apply filter_app. Qed.

Lemma seqs_from_app k n m : seqs_from k (n + m) = seqs_from k n ++ seqs_from (k + Z.of_nat n) m.
Proof.
  revert k. induction n as [|n IH]; intros k.
  - cbn. f_equal. lia.
  - cbn [Nat.add seqs_from app]. rewrite IH. do 3 f_equal. lia.
Qed.

Lemma above_genuine_1 (h : nat) (n : nat) :
  above (Z.of_nat h) (map (fun k => mkd k Genuine) (seqs_from 1 (h + n))) =
  map (fun k => mkd k Genuine) (seqs_from (Z.of_nat h + 1) n).
Proof.
  rewrite seqs_from_app, map_app, above_app.
  rewrite above_none, above_all; cbn [app].
  - do 2 f_equal. lia.
  - apply Forall_forall. intros b Hb. apply in_map_iff in Hb as (k & <- & Hk).
    apply seqs_from_In in Hk. cbn. lia.
  - apply Forall_forall. intros b Hb. apply in_map_iff in Hb as (k & <- & Hk).
    apply seqs_from_In in Hk. cbn. lia.
Qed.

Lemma redeliver_one_head f1 reqn held (g : nat) :
  head_of (final f1 reqn held (redeliver_one g)) = Z.max (head_of held) (Z.of_nat g).
Proof.
  unfold redeliver_one. rewrite final_cons. unfold final. cbn [run fst].
  rewrite deliver_spec. cbn [fst].
  destruct (le_lt_dec (length held) g) as [Hle|Hgt].
  - replace g with (length held + (g - length held))%nat at 1 by lia.
    unfold head_of at 2. rewrite above_genuine_1. fold (head_of held).
    rewrite take_chain_genuine. unfold head_of. rewrite app_length, map_length, seqs_from_length. lia.
  - rewrite above_none.
    + cbn. unfold head_of. lia.
    + apply Forall_forall. intros b Hb. apply in_map_iff in Hb as (k & <- & Hk).
      apply seqs_from_In in Hk. cbn. unfold head_of. lia.
Qed.

Lemma redeliver_each_head f1 reqn (n : nat) : forall (a : Z) held,
  a - 1 <= head_of held ->
  head_of (final f1 reqn held (map (fun k => [mkd k Genuine]) (seqs_from a n))) =
  Z.max (head_of held) (a - 1 + Z.of_nat n).
Proof.
  induction n as [|n IH]; intros a held Ha.
  - cbn. unfold final. cbn. lia.
  - cbn [seqs_from map]. rewrite final_cons, deliver_spec. cbn [fst].
    cbn [above filter d_seq]. destruct (a <=? head_of held) eqn:E; cbn [negb].
    + cbn [take_chain]. rewrite IH by lia. lia.
    + assert (a = head_of held + 1) by lia. subst a.
      cbn [take_chain]. unfold exec_ok, valid, sig_ok, content_ok. cbn [d_kind d_seq].
      rewrite Z.eqb_refl. cbn [andb].
      rewrite IH by (rewrite head_of_app; lia). rewrite head_of_app. lia.
Qed.

(* sync_longest: whatever happened before, once everything is delivered again in
   order the node holds exactly the longest gap-free prefix of what it was given *)
Theorem sync_longest_one f1 reqn sched g :
  gapfree f1 sched g ->
  head_of (final f1 reqn [] (sched ++ redeliver_one (Z.to_nat g))) = g.
Proof.
  intros (Hg0 & Hall & Hnot).
  rewrite final_app, redeliver_one_head.
  assert (Hle : head_of (final f1 reqn [] sched) <= g).
  { destruct (Z_le_gt_dec (head_of (final f1 reqn [] sched)) g) as [H|H]; [exact H|].
    exfalso. apply Hnot. apply (held_was_delivered f1 reqn). lia. }
  lia.
Qed.

Theorem sync_longest_each f1 reqn sched g :
  gapfree f1 sched g ->
  head_of (final f1 reqn [] (sched ++ redeliver_each (Z.to_nat g))) = g.
Proof.
  intros (Hg0 & Hall & Hnot).
  rewrite final_app. unfold redeliver_each. rewrite redeliver_each_head by (pose proof (head_of_nonneg (final f1 reqn [] sched)); lia).
  assert (Hle : head_of (final f1 reqn [] sched) <= g).
  { destruct (Z_le_gt_dec (head_of (final f1 reqn [] sched)) g) as [H|H]; [exact H|].
    exfalso. apply Hnot. apply (held_was_delivered f1 reqn). lia. }
  lia.
Qed.

(* the head never exceeds the longest gap-free prefix of what was given *)
Theorem head_le_gapfree f1 reqn sched g :
  gapfree f1 sched g -> head_of (final f1 reqn [] sched) <= g.
Proof.
  intros (Hg0 & Hall & Hnot).
  destruct (Z_le_gt_dec (head_of (final f1 reqn [] sched)) g) as [H|H]; [exact H|].
  exfalso. apply Hnot. apply (held_was_delivered f1 reqn). lia.
Qed.

(* fair re-delivery in ANY order: a pass that contains every block 1..g as a
   message of its own (anywhere, in any order, among arbitrary other messages)
   advances the head by at least one until g is reached *)
Lemma deliver_single_next f1 reqn held :
  head_of (fst (deliver f1 reqn held [mkd (head_of held + 1) Genuine])) = head_of held + 1.
Proof.
  rewrite deliver_spec. cbn [fst above filter d_seq].
  destruct (head_of held + 1 <=? head_of held) eqn:E; [lia|]. cbn [negb take_chain].
  unfold exec_ok, valid, sig_ok, content_ok. cbn [d_kind d_seq]. rewrite Z.eqb_refl. cbn [andb].
  apply head_of_app.
Qed.

Theorem fair_pass_progress f1 reqn held pass g :
  (forall k, 1 <= k <= g -> In [mkd k Genuine] pass) ->
  Z.min g (head_of held + 1) <= head_of (final f1 reqn held pass).
Proof.
  intros Hall.
  destruct (Z_le_gt_dec g (head_of held)) as [Hd|Hd].
  { pose proof (head_monotone f1 reqn pass held). lia. }
  assert (Hin : In [mkd (head_of held + 1) Genuine] pass) by (apply Hall; pose proof (head_of_nonneg held); lia).
  apply in_split in Hin as (p1 & p2 & ->).
  rewrite final_app. cbn [app]. rewrite final_cons.
  set (h1 := final f1 reqn held p1).
  pose proof (head_monotone f1 reqn p1 held) as M1. fold h1 in M1.
  pose proof (head_monotone f1 reqn p2 (fst (deliver f1 reqn h1 [mkd (head_of held + 1) Genuine]))) as M2.
  destruct (Z.eq_dec (head_of h1) (head_of held)) as [E|E].
  - rewrite <- E in M2 |- *. rewrite deliver_single_next in M2. lia.
  - assert (M3 : head_of h1 <= head_of (fst (deliver f1 reqn h1 [mkd (head_of held + 1) Genuine]))).
    { destruct (deliver_from f1 reqn h1 [mkd (head_of held + 1) Genuine]) as (ext & He & _).
      rewrite He. unfold head_of. rewrite app_length. lia. }
    lia.
Qed.

Theorem fair_passes_converge f1 reqn g (passes : list (list (list dblock))) : forall held,
  (forall pass, In pass passes -> forall k, 1 <= k <= g -> In [mkd k Genuine] pass) ->
  Z.min g (head_of held + Z.of_nat (length passes)) <= head_of (final f1 reqn held (concat passes)).
Proof.
  induction passes as [|p r IH]; intros held Hall.
  - cbn. unfold final. cbn. lia.
  - cbn [concat]. rewrite final_app.
    pose proof (fair_pass_progress f1 reqn held p g (Hall p (or_introl eq_refl))) as P.
    specialize (IH (final f1 reqn held p) (fun q Hq => Hall q (or_intror Hq))).
    cbn [length]. lia.
Qed.

(* ---------- requests *)

Theorem requests_follow_head f1 reqn sched : forall held,
  trace_ok reqn (head_of held) (snd (run f1 reqn held sched)).
Proof.
  induction sched as [|m r IH]; intros held.
  - cbn. exact I.
  - rewrite run_cons. cbn [snd trace_ok]. split; [|split].
    + destruct (deliver_from f1 reqn held m) as (ext & He & _). rewrite He.
      unfold head_of. rewrite app_length. lia.
    + rewrite deliver_spec. cbn [fst snd]. reflexivity.
    + apply IH.
Qed.

(* every request asks for the blocks above the head the node has at that moment,
   and one is sent whenever the head moved *)
Corollary requests_above_head f1 reqn sched i h rep :
  nth_error (snd (run f1 reqn [] sched)) i = Some (h, rep) ->
  (forall last n, In (Request last n) rep -> last = h /\ n = reqn) /\
  (head_of (final f1 reqn [] (firstn i sched)) < h -> In (Request h reqn) rep).
Proof.
  assert (G : forall sched held i h rep,
    nth_error (snd (run f1 reqn held sched)) i = Some (h, rep) ->
    (forall last n, In (Request last n) rep -> last = h /\ n = reqn) /\
    (head_of (final f1 reqn held (firstn i sched)) < h -> In (Request h reqn) rep)).
  { clear. induction sched as [|m r IH]; intros held i h rep Hn.
    - destruct i; discriminate.
    - rewrite run_cons in Hn. cbn [snd] in Hn. destruct i as [|i].
      + cbn in Hn. injection Hn as <- <-. rewrite deliver_spec. cbn [fst snd firstn].
        unfold final. cbn [run fst].
        destruct (head_of (take_chain f1 held (above (head_of held) m)) =? head_of held) eqn:E.
        * split; [intros ? ? []|]. lia.
        * split.
          -- intros last n [H|[H|[]]]; [discriminate|]. injection H as <- <-. auto.
          -- intros _. right. left. reflexivity.
      + cbn [nth_error] in Hn. cbn [firstn]. rewrite final_cons. apply IH. exact Hn. }
  apply G.
Qed.

(* ---------- executable gapfree_fn agrees with the relational definition *)

Lemma delivered_valid_b_iff f1 sched k :
  delivered_valid_b f1 sched k = true <-> delivered_valid f1 sched k.
Proof.
  unfold delivered_valid_b, delivered_valid. rewrite existsb_exists. split.
  - intros (m & Hm & H). apply existsb_exists in H as (b & Hb & H).
    apply andb_true_iff in H as [H1 H2]. exists m, b. repeat split; auto. lia.
  - intros (m & b & Hm & Hb & Hs & Hv). exists m. split; [exact Hm|].
    apply existsb_exists. exists b. split; [exact Hb|]. apply andb_true_iff. split; [lia | exact Hv].
Qed.

Lemma extend_spec (P : Z -> bool) fuel : forall h,
  let g := extend P h fuel in
  h <= g <= h + Z.of_nat fuel /\ (forall k, h < k <= g -> P k = true) /\
  (P (g + 1) = true -> g = h + Z.of_nat fuel).
Proof.
  induction fuel as [|f IH]; intros h; cbn [extend].
  - cbn zeta. split; [lia|]. split; [intros k Hk; lia | intros _; lia].
  - destruct (P (h + 1)) eqn:E.
    + specialize (IH (h + 1)). cbn zeta in IH |- *. destruct IH as (I1 & I2 & I3).
      split; [lia|]. split.
      * intros k Hk. destruct (Z.eq_dec k (h + 1)) as [->|Hne]; [exact E | apply I2; lia].
      * intros H. specialize (I3 H). lia.
    + cbn zeta. split; [lia|]. split.
      * intros k Hk. lia.
      * intros H. congruence.
Qed.

Lemma seqs_from_NoDup k n : NoDup (seqs_from k n).
Proof.
  revert k. induction n as [|n IH]; intros k; cbn [seqs_from]; constructor.
  - rewrite seqs_from_In. lia.
  - apply IH.
Qed.

Theorem gapfree_fn_correct f1 sched : gapfree f1 sched (gapfree_fn f1 sched).
Proof.
  unfold gapfree_fn.
  pose proof (extend_spec (delivered_valid_b f1 sched) (length (concat sched)) 0) as H.
  cbn zeta in H. destruct H as (H1 & H2 & H3).
  set (g := extend (delivered_valid_b f1 sched) 0 (length (concat sched))) in *.
  split; [lia|]. split.
  - intros k Hk. apply delivered_valid_b_iff. apply H2. lia.
  - intros Hd. apply delivered_valid_b_iff in Hd. specialize (H3 Hd).
    assert (Hincl : incl (seqs_from 1 (S (length (concat sched)))) (map d_seq (concat sched))).
    { intros k Hk. apply seqs_from_In in Hk.
      assert (Hdk : delivered_valid f1 sched k).
      { destruct (Z.eq_dec k (g + 1)) as [->|Hne].
        - apply delivered_valid_b_iff. exact Hd.
        - apply delivered_valid_b_iff. apply H2. lia. }
      destruct Hdk as (m & b & Hm & Hb & Hs & _). apply in_map_iff. exists b. split; [exact Hs|].
      apply in_concat. exists m. auto. }
    apply NoDup_incl_length in Hincl; [|apply seqs_from_NoDup].
    rewrite seqs_from_length, map_length in Hincl. lia.
Qed.

Lemma gapfree_unique f1 sched g g' : gapfree f1 sched g -> gapfree f1 sched g' -> g = g'.
Proof.
  intros (A0 & A1 & A2) (B0 & B1 & B2).
  destruct (Z.lt_trichotomy g g') as [H|[H|H]]; [|exact H|].
  - exfalso. apply A2. apply B1. lia.
  - exfalso. apply B2. apply A1. lia.
Qed.

(* ---------- request / response cycle with an honest peer *)

Lemma peer_round f1 reqn n cap held :
  1 <= reqn -> 1 <= cap -> head_of held <= n ->
  let c := Z.min reqn cap in
  head_of (fst (deliver f1 reqn held (peer_reply n cap (head_of held) reqn))) = Z.min n (head_of held + c).
Proof.
  intros Hr Hc Hn. cbn zeta. rewrite deliver_spec. cbn [fst]. unfold peer_reply.
  set (cnt := Z.to_nat (Z.min (Z.min reqn cap) (Z.max 0 (n - head_of held)))).
  rewrite above_all.
  - rewrite take_chain_genuine. unfold head_of. rewrite app_length, map_length, seqs_from_length.
    unfold head_of in *. lia.
  - apply Forall_forall. intros b Hb. apply in_map_iff in Hb as (k & <- & Hk).
    apply seqs_from_In in Hk. cbn. lia.
Qed.

Lemma peer_reply_nil n cap last reqn :
  1 <= reqn -> 1 <= cap -> (peer_reply n cap last reqn = [] <-> n <= last).
Proof.
  intros Hr Hc. unfold peer_reply.
  destruct (Z.to_nat (Z.min (Z.min reqn cap) (Z.max 0 (n - last)))) eqn:E.
  - cbn. split; [intros _; lia | reflexivity].
  - cbn [seqs_from map]. split; [discriminate | intros; lia].
Qed.

(* with an honest peer the follower reaches the peer's head n: after the cycle
   stops (fuel permitting) it holds exactly n blocks *)
Theorem honest_peer_converges f1 reqn n cap fuel : forall held,
  1 <= reqn -> 1 <= cap -> head_of held <= n -> (Z.to_nat (n - head_of held) <= fuel)%nat ->
  head_of (fst (sync_loop f1 reqn n cap fuel held)) = n.
Proof.
  induction fuel as [|f IH]; intros held Hr Hc Hn Hf.
  - cbn. lia.
  - cbn [sync_loop].
    destruct (peer_reply n cap (head_of held) reqn) as [|b m] eqn:Ep.
    + apply peer_reply_nil in Ep; try assumption. cbn. lia.
    + rewrite <- Ep.
      pose proof (peer_round f1 reqn n cap held Hr Hc Hn) as R. cbn zeta in R.
      assert (Hlt : head_of held < n).
      { destruct (Z_lt_ge_dec (head_of held) n) as [H|H]; [exact H|].
        assert (peer_reply n cap (head_of held) reqn = []) by (apply peer_reply_nil; try assumption; lia).
        congruence. }
      rewrite deliver_spec in R |- *. cbn [fst] in R. cbn zeta.
      set (h' := take_chain f1 held (above (head_of held) (peer_reply n cap (head_of held) reqn))) in *.
      destruct (head_of h' =? head_of held) eqn:E; [lia|].
      specialize (IH h' Hr Hc).
      destruct (sync_loop f1 reqn n cap f h') as [hf hs] eqn:El. cbn [fst] in *.
      apply IH; lia.
Qed.

(* and the head after each round is min n (previous + min(requested, cap)) *)
Theorem honest_peer_heads f1 reqn n cap fuel : forall held,
  1 <= reqn -> 1 <= cap -> head_of held <= n ->
  let c := Z.min reqn cap in
  forall i h, nth_error (snd (sync_loop f1 reqn n cap fuel held)) i = Some h ->
  h = Z.min n (head_of held + (Z.of_nat i + 1) * c).
Proof.
  induction fuel as [|f IH]; intros held Hr Hc Hn c i h Hi.
  - cbn in Hi. destruct i; discriminate.
  - cbn [sync_loop] in Hi.
    destruct (peer_reply n cap (head_of held) reqn) as [|b m] eqn:Ep.
    + cbn in Hi. destruct i; discriminate.
    + rewrite <- Ep in Hi.
      pose proof (peer_round f1 reqn n cap held Hr Hc Hn) as R. cbn zeta in R. fold c in R.
      rewrite deliver_spec in R, Hi. cbn [fst] in R. cbn zeta in Hi.
      set (h' := take_chain f1 held (above (head_of held) (peer_reply n cap (head_of held) reqn))) in *.
      destruct (head_of h' =? head_of held) eqn:E.
      * cbn [snd] in Hi. destruct i as [|i]; [|destruct i; discriminate].
        cbn in Hi. injection Hi as <-. lia.
      * specialize (IH h' Hr Hc).
        destruct (sync_loop f1 reqn n cap f h') as [hf hs] eqn:El. cbn [snd] in *.
        destruct i as [|i].
        -- cbn in Hi. injection Hi as <-. lia.
        -- cbn [nth_error] in Hi. assert (Hn' : head_of h' <= n) by lia.
           specialize (IH Hn' i h Hi). fold c in IH. rewrite IH, R.
           assert (0 < c) by (unfold c; lia). nia.
Qed.
