(* Proofs/FieldBytes.v — C14: Field.SetB32 / Field.GetB32 (unrolled 2-bit chunk
   loops of secp256k1-go2/field.go, regenerated into Gen/FieldLimbs.v) convert
   between 32 big-endian bytes and the ten limbs: SetB32 yields reduced limbs
   standing for be_val bytes, GetB32 of reduced limbs yields the 32 bytes of their
   value. Method: the generated straight-line code is shown EQUAL (by
   computation) to a fold over explicit chunk lists; an OR of 2-bit chunks at
   ascending positions is their sum; bytes / limbs are their base-4 digits;
   what remains is a linear identity in the 128 digits. *)
From Coq Require Import Lia ZifyBool.
From Sky Require Import Base.Uint Model.Secp Model.FieldSpec Gen.FieldLimbs Proofs.UintLemmas Proofs.FieldLimbs
  Proofs.SecpProofs.
Open Scope Z_scope.

(* limb k of SetB32: OR of the 2-bit chunks (byte index, shift inside the byte), chunk t at bit 2t *)
Definition lor_chunks (bs : list Z) (chunks : list (nat * Z)) : Z :=
  fold_left (fun acc c => Z.lor acc (wrap 32 (Z.shiftl (Z.land (Z.shiftr (nth (fst (snd c)) bs 0) (snd (snd c))) 3) (2 * Z.of_nat (fst c)))))
    (combine (seq 0 (List.length chunks)) chunks) 0.
Definition chunks_of (k : Z) (cnt : nat) : list (nat * Z) :=
  map (fun t => let e := 26 * k + 2 * Z.of_nat t in (Z.to_nat (31 - e / 8), e mod 8)) (seq 0 cnt).
Definition ch0 := Eval vm_compute in chunks_of 0 13.
Definition ch1 := Eval vm_compute in chunks_of 1 13.
Definition ch2 := Eval vm_compute in chunks_of 2 13.
Definition ch3 := Eval vm_compute in chunks_of 3 13.
Definition ch4 := Eval vm_compute in chunks_of 4 13.
Definition ch5 := Eval vm_compute in chunks_of 5 13.
Definition ch6 := Eval vm_compute in chunks_of 6 13.
Definition ch7 := Eval vm_compute in chunks_of 7 13.
Definition ch8 := Eval vm_compute in chunks_of 8 13.
Definition ch9 := Eval vm_compute in chunks_of 9 11.

Lemma SetB32_unfold : forall a0 a1 a2 a3 a4 a5 a6 a7 a8 a9 a10 a11 a12 a13 a14 a15 a16 a17 a18 a19 a20 a21 a22 a23 a24 a25 a26 a27 a28 a29 a30 a31,
  let bs := [a0; a1; a2; a3; a4; a5; a6; a7; a8; a9; a10; a11; a12; a13; a14; a15; a16; a17; a18; a19; a20; a21; a22; a23; a24; a25; a26; a27; a28; a29; a30; a31] in
  Field_SetB32 a0 a1 a2 a3 a4 a5 a6 a7 a8 a9 a10 a11 a12 a13 a14 a15 a16 a17 a18 a19 a20 a21 a22 a23 a24 a25 a26 a27 a28 a29 a30 a31
  = Val (lor_chunks bs ch0, lor_chunks bs ch1, lor_chunks bs ch2, lor_chunks bs ch3, lor_chunks bs ch4,
         lor_chunks bs ch5, lor_chunks bs ch6, lor_chunks bs ch7, lor_chunks bs ch8, lor_chunks bs ch9).
Proof.
  intros.
  cbv beta iota zeta delta [Field_SetB32 lor_chunks bs ch0 ch1 ch2 ch3 ch4 ch5 ch6 ch7 ch8 ch9 fold_left combine seq List.length nth fst snd
     Z.of_nat Pos.of_succ_nat Pos.succ Z.mul Pos.mul Pos.add].
  reflexivity.
Qed.

(* value of a chunk list: chunk t at bits 2t, 2t+1 *)
Definition cval (bs : list Z) (c : nat * Z) : Z := (nth (fst c) bs 0 / 2 ^ snd c) mod 4.
Fixpoint csum (bs : list Z) (l : list (nat * Z)) : Z :=
  match l with [] => 0 | c :: r => cval bs c + 4 * csum bs r end.

Lemma lor_chunks_gen : forall bs l i acc,
  Forall (fun c => 0 <= snd c) l ->
  0 <= acc < 4 ^ Z.of_nat i -> (i + List.length l <= 16)%nat ->
  fold_left (fun acc c => Z.lor acc (wrap 32 (Z.shiftl (Z.land (Z.shiftr (nth (fst (snd c)) bs 0) (snd (snd c))) 3) (2 * Z.of_nat (fst c)))))
             (combine (seq i (List.length l)) l) acc
  = acc + 4 ^ Z.of_nat i * csum bs l /\
  0 <= acc + 4 ^ Z.of_nat i * csum bs l < 4 ^ Z.of_nat (i + List.length l).
Proof.
  intros bs. induction l as [|c l IH]; intros i acc Hs Hacc Hlen; cbn [List.length seq combine fold_left csum].
  - rewrite Nat.add_0_r. split; [ring|]. replace (acc + 4 ^ Z.of_nat i * 0) with acc by ring. exact Hacc.
  - inversion Hs as [|? ? Hc Hs']; subst. cbn [fst snd]. cbn [List.length] in Hlen.
    assert (Hcv : 0 <= cval bs c < 4) by (unfold cval; apply Z.mod_pos_bound; lia).
    assert (E : Z.land (Z.shiftr (nth (fst c) bs 0) (snd c)) 3 = cval bs c).
    { unfold cval. change 3 with (Z.ones 2). rewrite Z.land_ones by lia. rewrite Z.shiftr_div_pow2 by lia. reflexivity. }
    rewrite E. rewrite Z.shiftl_mul_pow2 by lia.
    assert (P : 2 ^ (2 * Z.of_nat i) = 4 ^ Z.of_nat i).
    { change 4 with (2 ^ 2). rewrite <- Z.pow_mul_r by lia. reflexivity. }
    assert (P4 : 4 ^ Z.of_nat (S i) = 4 * 4 ^ Z.of_nat i).
    { rewrite Nat2Z.inj_succ, Z.pow_succ_r by lia. reflexivity. }
    assert (Hpos : 0 < 4 ^ Z.of_nat i) by (apply Z.pow_pos_nonneg; lia).
    assert (Hle : 4 ^ Z.of_nat (S i) <= 4 ^ 16) by (apply Z.pow_le_mono_r; lia).
    change (4 ^ 16) with (2 ^ 32) in Hle.
    rewrite P. rewrite (wrap_small 32 (cval bs c * 4 ^ Z.of_nat i)) by nia.
    rewrite Z.lor_comm. rewrite <- P. rewrite lor_add by (rewrite ?P; lia). rewrite P.
    destruct (IH (S i) (cval bs c * 4 ^ Z.of_nat i + acc) Hs') as [IH1 IH2]; [rewrite P4; nia|lia|].
    rewrite IH1. replace (i + S (List.length l))%nat with (S i + List.length l)%nat by lia.
    rewrite P4 in *.
    replace (acc + 4 ^ Z.of_nat i * (cval bs c + 4 * csum bs l))
      with (cval bs c * 4 ^ Z.of_nat i + acc + 4 * 4 ^ Z.of_nat i * csum bs l) by ring.
    split; [reflexivity|exact IH2].
Qed.

Lemma lor_chunks_sum : forall bs l, Forall (fun c => 0 <= snd c) l -> (List.length l <= 16)%nat ->
  lor_chunks bs l = csum bs l /\ 0 <= csum bs l < 4 ^ Z.of_nat (List.length l).
Proof.
  intros bs l Hs Hl. unfold lor_chunks.
  destruct (lor_chunks_gen bs l 0 0 Hs ltac:(cbn; lia) ltac:(lia)) as [H1 H2].
  cbn [Z.of_nat Nat.add] in H1, H2. rewrite H1. split; [lia|lia].
Qed.

(* a byte is its four base-4 digits *)
Lemma byte_digits : forall a, 0 <= a < 256 ->
  a = (a / 2 ^ 0) mod 4 + 4 * ((a / 2 ^ 2) mod 4) + 16 * ((a / 2 ^ 4) mod 4) + 64 * ((a / 2 ^ 6) mod 4).
Proof. intros a Ha. Z.div_mod_to_equations. lia. Qed.

Ltac digits a :=
  match goal with Ha : 0 <= a < 256 |- _ =>
    let E := fresh "E" in
    pose proof (byte_digits a Ha) as E;
    let d0 := fresh "d" in let d1 := fresh "d" in let d2 := fresh "d" in let d3 := fresh "d" in
    set (d0 := (a / 2 ^ 0) mod 4) in *; set (d1 := (a / 2 ^ 2) mod 4) in *;
    set (d2 := (a / 2 ^ 4) mod 4) in *; set (d3 := (a / 2 ^ 6) mod 4) in *;
    clearbody d0 d1 d2 d3; clear Ha; subst a
  end.

Theorem SetB32_correct : forall a0 a1 a2 a3 a4 a5 a6 a7 a8 a9 a10 a11 a12 a13 a14 a15 a16 a17 a18 a19 a20 a21 a22 a23 a24 a25 a26 a27 a28 a29 a30 a31,
  let bs := [a0; a1; a2; a3; a4; a5; a6; a7; a8; a9; a10; a11; a12; a13; a14; a15; a16; a17; a18; a19; a20; a21; a22; a23; a24; a25; a26; a27; a28; a29; a30; a31] in
  Forall (fun a => 0 <= a < 256) bs ->
  returns (fun r => reduced r /\ val r = be_val bs)
    (Field_SetB32 a0 a1 a2 a3 a4 a5 a6 a7 a8 a9 a10 a11 a12 a13 a14 a15 a16 a17 a18 a19 a20 a21 a22 a23 a24 a25 a26 a27 a28 a29 a30 a31).
Proof.
  intros until bs. intros Hb. rewrite SetB32_unfold. fold bs. eexists. split; [reflexivity|].
  assert (Hch : forall l, Forall (fun c : nat * Z => 0 <= snd c) l -> (List.length l <= 16)%nat ->
                 lor_chunks bs l = csum bs l /\ 0 <= csum bs l < 4 ^ Z.of_nat (List.length l))
    by (intros; apply lor_chunks_sum; assumption).
  destruct (Hch ch0) as [E0 B0]; [repeat constructor; cbn; lia|cbn; lia|].
  destruct (Hch ch1) as [E1 B1]; [repeat constructor; cbn; lia|cbn; lia|].
  destruct (Hch ch2) as [E2 B2]; [repeat constructor; cbn; lia|cbn; lia|].
  destruct (Hch ch3) as [E3 B3]; [repeat constructor; cbn; lia|cbn; lia|].
  destruct (Hch ch4) as [E4 B4]; [repeat constructor; cbn; lia|cbn; lia|].
  destruct (Hch ch5) as [E5 B5]; [repeat constructor; cbn; lia|cbn; lia|].
  destruct (Hch ch6) as [E6 B6]; [repeat constructor; cbn; lia|cbn; lia|].
  destruct (Hch ch7) as [E7 B7]; [repeat constructor; cbn; lia|cbn; lia|].
  destruct (Hch ch8) as [E8 B8]; [repeat constructor; cbn; lia|cbn; lia|].
  destruct (Hch ch9) as [E9 B9]; [repeat constructor; cbn; lia|cbn; lia|].
  clear Hch. rewrite E0, E1, E2, E3, E4, E5, E6, E7, E8, E9.
  change (4 ^ Z.of_nat (List.length ch0)) with 67108864 in B0. change (4 ^ Z.of_nat (List.length ch1)) with 67108864 in B1.
  change (4 ^ Z.of_nat (List.length ch2)) with 67108864 in B2. change (4 ^ Z.of_nat (List.length ch3)) with 67108864 in B3.
  change (4 ^ Z.of_nat (List.length ch4)) with 67108864 in B4. change (4 ^ Z.of_nat (List.length ch5)) with 67108864 in B5.
  change (4 ^ Z.of_nat (List.length ch6)) with 67108864 in B6. change (4 ^ Z.of_nat (List.length ch7)) with 67108864 in B7.
  change (4 ^ Z.of_nat (List.length ch8)) with 67108864 in B8. change (4 ^ Z.of_nat (List.length ch9)) with 4194304 in B9.
  split; [unfold reduced, mag; lia|].
  clear E0 E1 E2 E3 E4 E5 E6 E7 E8 E9 B0 B1 B2 B3 B4 B5 B6 B7 B8 B9.
  cbn [val be_val be_val_acc].
  cbv beta iota delta [csum cval ch0 ch1 ch2 ch3 ch4 ch5 ch6 ch7 ch8 ch9 nth fst snd bs].
  cbn [be_val be_val_acc].
  unfold bs in Hb. clear bs.
  repeat match goal with H : Forall _ (_ :: _) |- _ => inversion H; clear H; subst end.
  digits a0. digits a1. digits a2. digits a3. digits a4. digits a5. digits a6. digits a7.
  digits a8. digits a9. digits a10. digits a11. digits a12. digits a13. digits a14. digits a15.
  digits a16. digits a17. digits a18. digits a19. digits a20. digits a21. digits a22. digits a23.
  digits a24. digits a25. digits a26. digits a27. digits a28. digits a29. digits a30. digits a31.
  lia.
Qed.

(* ---- GetB32: byte i (from the least significant) = the four 2-bit chunks at bits 8i .. 8i+7 *)
Definition gchunks (i : Z) : list (nat * Z) :=
  map (fun j => let e := 8 * i + 2 * Z.of_nat j in (Z.to_nat (e / 26), e mod 26)) (seq 0 4).
Definition gb0 := Eval vm_compute in gchunks 0.
Definition gb1 := Eval vm_compute in gchunks 1.
Definition gb2 := Eval vm_compute in gchunks 2.
Definition gb3 := Eval vm_compute in gchunks 3.
Definition gb4 := Eval vm_compute in gchunks 4.
Definition gb5 := Eval vm_compute in gchunks 5.
Definition gb6 := Eval vm_compute in gchunks 6.
Definition gb7 := Eval vm_compute in gchunks 7.
Definition gb8 := Eval vm_compute in gchunks 8.
Definition gb9 := Eval vm_compute in gchunks 9.
Definition gb10 := Eval vm_compute in gchunks 10.
Definition gb11 := Eval vm_compute in gchunks 11.
Definition gb12 := Eval vm_compute in gchunks 12.
Definition gb13 := Eval vm_compute in gchunks 13.
Definition gb14 := Eval vm_compute in gchunks 14.
Definition gb15 := Eval vm_compute in gchunks 15.
Definition gb16 := Eval vm_compute in gchunks 16.
Definition gb17 := Eval vm_compute in gchunks 17.
Definition gb18 := Eval vm_compute in gchunks 18.
Definition gb19 := Eval vm_compute in gchunks 19.
Definition gb20 := Eval vm_compute in gchunks 20.
Definition gb21 := Eval vm_compute in gchunks 21.
Definition gb22 := Eval vm_compute in gchunks 22.
Definition gb23 := Eval vm_compute in gchunks 23.
Definition gb24 := Eval vm_compute in gchunks 24.
Definition gb25 := Eval vm_compute in gchunks 25.
Definition gb26 := Eval vm_compute in gchunks 26.
Definition gb27 := Eval vm_compute in gchunks 27.
Definition gb28 := Eval vm_compute in gchunks 28.
Definition gb29 := Eval vm_compute in gchunks 29.
Definition gb30 := Eval vm_compute in gchunks 30.
Definition gb31 := Eval vm_compute in gchunks 31.

Lemma GetB32_unfold : forall n0 n1 n2 n3 n4 n5 n6 n7 n8 n9,
  let ls := [n0; n1; n2; n3; n4; n5; n6; n7; n8; n9] in
  Field_GetB32 n0 n1 n2 n3 n4 n5 n6 n7 n8 n9 = Val (wrap 8 (lor_chunks ls gb31), wrap 8 (lor_chunks ls gb30), wrap 8 (lor_chunks ls gb29), wrap 8 (lor_chunks ls gb28), wrap 8 (lor_chunks ls gb27), wrap 8 (lor_chunks ls gb26), wrap 8 (lor_chunks ls gb25), wrap 8 (lor_chunks ls gb24), wrap 8 (lor_chunks ls gb23), wrap 8 (lor_chunks ls gb22), wrap 8 (lor_chunks ls gb21), wrap 8 (lor_chunks ls gb20), wrap 8 (lor_chunks ls gb19), wrap 8 (lor_chunks ls gb18), wrap 8 (lor_chunks ls gb17), wrap 8 (lor_chunks ls gb16), wrap 8 (lor_chunks ls gb15), wrap 8 (lor_chunks ls gb14), wrap 8 (lor_chunks ls gb13), wrap 8 (lor_chunks ls gb12), wrap 8 (lor_chunks ls gb11), wrap 8 (lor_chunks ls gb10), wrap 8 (lor_chunks ls gb9), wrap 8 (lor_chunks ls gb8), wrap 8 (lor_chunks ls gb7), wrap 8 (lor_chunks ls gb6), wrap 8 (lor_chunks ls gb5), wrap 8 (lor_chunks ls gb4), wrap 8 (lor_chunks ls gb3), wrap 8 (lor_chunks ls gb2), wrap 8 (lor_chunks ls gb1), wrap 8 (lor_chunks ls gb0)).
Proof.
  intros.
  cbv beta iota zeta delta [Field_GetB32 lor_chunks ls gb0 gb1 gb2 gb3 gb4 gb5 gb6 gb7 gb8 gb9 gb10 gb11 gb12 gb13 gb14 gb15 gb16 gb17 gb18 gb19 gb20 gb21 gb22 gb23 gb24 gb25 gb26 gb27 gb28 gb29 gb30 gb31 fold_left combine seq List.length nth fst snd
     Z.of_nat Pos.of_succ_nat Pos.succ Z.mul Pos.mul Pos.add].
  reflexivity.
Qed.

Lemma limb_digits13 : forall n, 0 <= n < 2 ^ 26 -> n = (n / 2 ^ 0) mod 4 + 4 * ((n / 2 ^ 2) mod 4 + 4 * ((n / 2 ^ 4) mod 4 + 4 * ((n / 2 ^ 6) mod 4 + 4 * ((n / 2 ^ 8) mod 4 + 4 * ((n / 2 ^ 10) mod 4 + 4 * ((n / 2 ^ 12) mod 4 + 4 * ((n / 2 ^ 14) mod 4 + 4 * ((n / 2 ^ 16) mod 4 + 4 * ((n / 2 ^ 18) mod 4 + 4 * ((n / 2 ^ 20) mod 4 + 4 * ((n / 2 ^ 22) mod 4 + 4 * ((n / 2 ^ 24) mod 4)))))))))))).
Proof. intros n Hn. Z.div_mod_to_equations. lia. Qed.
Lemma limb_digits11 : forall n, 0 <= n < 2 ^ 22 -> n = (n / 2 ^ 0) mod 4 + 4 * ((n / 2 ^ 2) mod 4 + 4 * ((n / 2 ^ 4) mod 4 + 4 * ((n / 2 ^ 6) mod 4 + 4 * ((n / 2 ^ 8) mod 4 + 4 * ((n / 2 ^ 10) mod 4 + 4 * ((n / 2 ^ 12) mod 4 + 4 * ((n / 2 ^ 14) mod 4 + 4 * ((n / 2 ^ 16) mod 4 + 4 * ((n / 2 ^ 18) mod 4 + 4 * ((n / 2 ^ 20) mod 4)))))))))).
Proof. intros n Hn. Z.div_mod_to_equations. lia. Qed.

Ltac ldigits13 n :=
  match goal with Hn : 0 <= n < 2 ^ 26 |- _ =>
    let E := fresh "E" in pose proof (limb_digits13 n Hn) as E;
    let d0 := fresh "d" in let d1 := fresh "d" in let d2 := fresh "d" in let d3 := fresh "d" in let d4 := fresh "d" in let d5 := fresh "d" in let d6 := fresh "d" in let d7 := fresh "d" in let d8 := fresh "d" in let d9 := fresh "d" in let d10 := fresh "d" in let d11 := fresh "d" in let d12 := fresh "d" in
    set (d0 := (n / 2 ^ 0) mod 4) in *; set (d1 := (n / 2 ^ 2) mod 4) in *; set (d2 := (n / 2 ^ 4) mod 4) in *; set (d3 := (n / 2 ^ 6) mod 4) in *; set (d4 := (n / 2 ^ 8) mod 4) in *; set (d5 := (n / 2 ^ 10) mod 4) in *; set (d6 := (n / 2 ^ 12) mod 4) in *; set (d7 := (n / 2 ^ 14) mod 4) in *; set (d8 := (n / 2 ^ 16) mod 4) in *; set (d9 := (n / 2 ^ 18) mod 4) in *; set (d10 := (n / 2 ^ 20) mod 4) in *; set (d11 := (n / 2 ^ 22) mod 4) in *; set (d12 := (n / 2 ^ 24) mod 4) in *;
    clearbody d0 d1 d2 d3 d4 d5 d6 d7 d8 d9 d10 d11 d12; clear Hn; subst n
  end.
Ltac ldigits11 n :=
  match goal with Hn : 0 <= n < 2 ^ 22 |- _ =>
    let E := fresh "E" in pose proof (limb_digits11 n Hn) as E;
    let d0 := fresh "d" in let d1 := fresh "d" in let d2 := fresh "d" in let d3 := fresh "d" in let d4 := fresh "d" in let d5 := fresh "d" in let d6 := fresh "d" in let d7 := fresh "d" in let d8 := fresh "d" in let d9 := fresh "d" in let d10 := fresh "d" in
    set (d0 := (n / 2 ^ 0) mod 4) in *; set (d1 := (n / 2 ^ 2) mod 4) in *; set (d2 := (n / 2 ^ 4) mod 4) in *; set (d3 := (n / 2 ^ 6) mod 4) in *; set (d4 := (n / 2 ^ 8) mod 4) in *; set (d5 := (n / 2 ^ 10) mod 4) in *; set (d6 := (n / 2 ^ 12) mod 4) in *; set (d7 := (n / 2 ^ 14) mod 4) in *; set (d8 := (n / 2 ^ 16) mod 4) in *; set (d9 := (n / 2 ^ 18) mod 4) in *; set (d10 := (n / 2 ^ 20) mod 4) in *;
    clearbody d0 d1 d2 d3 d4 d5 d6 d7 d8 d9 d10; clear Hn; subst n
  end.

Theorem GetB32_correct : forall n0 n1 n2 n3 n4 n5 n6 n7 n8 n9,
  reduced (n0, n1, n2, n3, n4, n5, n6, n7, n8, n9) ->
  returns (fun t => Forall (fun b => 0 <= b < 256) (l32 t) /\ be_val (l32 t) = val (n0, n1, n2, n3, n4, n5, n6, n7, n8, n9))
    (Field_GetB32 n0 n1 n2 n3 n4 n5 n6 n7 n8 n9).
Proof.
  intros n0 n1 n2 n3 n4 n5 n6 n7 n8 n9 Hred. rewrite GetB32_unfold.
  set (ls := [n0; n1; n2; n3; n4; n5; n6; n7; n8; n9]).
  eexists. split; [reflexivity|].
  assert (Hch : forall l, Forall (fun c : nat * Z => 0 <= snd c) l -> (List.length l <= 16)%nat ->
                 lor_chunks ls l = csum ls l /\ 0 <= csum ls l < 4 ^ Z.of_nat (List.length l))
    by (intros; apply lor_chunks_sum; assumption).
  destruct (Hch gb0) as [E0 B0]; [repeat constructor; cbn; lia|cbn; lia|].
  destruct (Hch gb1) as [E1 B1]; [repeat constructor; cbn; lia|cbn; lia|].
  destruct (Hch gb2) as [E2 B2]; [repeat constructor; cbn; lia|cbn; lia|].
  destruct (Hch gb3) as [E3 B3]; [repeat constructor; cbn; lia|cbn; lia|].
  destruct (Hch gb4) as [E4 B4]; [repeat constructor; cbn; lia|cbn; lia|].
  destruct (Hch gb5) as [E5 B5]; [repeat constructor; cbn; lia|cbn; lia|].
  destruct (Hch gb6) as [E6 B6]; [repeat constructor; cbn; lia|cbn; lia|].
  destruct (Hch gb7) as [E7 B7]; [repeat constructor; cbn; lia|cbn; lia|].
  destruct (Hch gb8) as [E8 B8]; [repeat constructor; cbn; lia|cbn; lia|].
  destruct (Hch gb9) as [E9 B9]; [repeat constructor; cbn; lia|cbn; lia|].
  destruct (Hch gb10) as [E10 B10]; [repeat constructor; cbn; lia|cbn; lia|].
  destruct (Hch gb11) as [E11 B11]; [repeat constructor; cbn; lia|cbn; lia|].
  destruct (Hch gb12) as [E12 B12]; [repeat constructor; cbn; lia|cbn; lia|].
  destruct (Hch gb13) as [E13 B13]; [repeat constructor; cbn; lia|cbn; lia|].
  destruct (Hch gb14) as [E14 B14]; [repeat constructor; cbn; lia|cbn; lia|].
  destruct (Hch gb15) as [E15 B15]; [repeat constructor; cbn; lia|cbn; lia|].
  destruct (Hch gb16) as [E16 B16]; [repeat constructor; cbn; lia|cbn; lia|].
  destruct (Hch gb17) as [E17 B17]; [repeat constructor; cbn; lia|cbn; lia|].
  destruct (Hch gb18) as [E18 B18]; [repeat constructor; cbn; lia|cbn; lia|].
  destruct (Hch gb19) as [E19 B19]; [repeat constructor; cbn; lia|cbn; lia|].
  destruct (Hch gb20) as [E20 B20]; [repeat constructor; cbn; lia|cbn; lia|].
  destruct (Hch gb21) as [E21 B21]; [repeat constructor; cbn; lia|cbn; lia|].
  destruct (Hch gb22) as [E22 B22]; [repeat constructor; cbn; lia|cbn; lia|].
  destruct (Hch gb23) as [E23 B23]; [repeat constructor; cbn; lia|cbn; lia|].
  destruct (Hch gb24) as [E24 B24]; [repeat constructor; cbn; lia|cbn; lia|].
  destruct (Hch gb25) as [E25 B25]; [repeat constructor; cbn; lia|cbn; lia|].
  destruct (Hch gb26) as [E26 B26]; [repeat constructor; cbn; lia|cbn; lia|].
  destruct (Hch gb27) as [E27 B27]; [repeat constructor; cbn; lia|cbn; lia|].
  destruct (Hch gb28) as [E28 B28]; [repeat constructor; cbn; lia|cbn; lia|].
  destruct (Hch gb29) as [E29 B29]; [repeat constructor; cbn; lia|cbn; lia|].
  destruct (Hch gb30) as [E30 B30]; [repeat constructor; cbn; lia|cbn; lia|].
  destruct (Hch gb31) as [E31 B31]; [repeat constructor; cbn; lia|cbn; lia|].
  clear Hch.
  rewrite E0, E1, E2, E3, E4, E5, E6, E7, E8, E9, E10, E11, E12, E13, E14, E15, E16, E17, E18, E19, E20, E21, E22, E23, E24, E25, E26, E27, E28, E29, E30, E31.
  change (4 ^ Z.of_nat (List.length gb0)) with 256 in B0.
  change (4 ^ Z.of_nat (List.length gb1)) with 256 in B1.
  change (4 ^ Z.of_nat (List.length gb2)) with 256 in B2.
  change (4 ^ Z.of_nat (List.length gb3)) with 256 in B3.
  change (4 ^ Z.of_nat (List.length gb4)) with 256 in B4.
  change (4 ^ Z.of_nat (List.length gb5)) with 256 in B5.
  change (4 ^ Z.of_nat (List.length gb6)) with 256 in B6.
  change (4 ^ Z.of_nat (List.length gb7)) with 256 in B7.
  change (4 ^ Z.of_nat (List.length gb8)) with 256 in B8.
  change (4 ^ Z.of_nat (List.length gb9)) with 256 in B9.
  change (4 ^ Z.of_nat (List.length gb10)) with 256 in B10.
  change (4 ^ Z.of_nat (List.length gb11)) with 256 in B11.
  change (4 ^ Z.of_nat (List.length gb12)) with 256 in B12.
  change (4 ^ Z.of_nat (List.length gb13)) with 256 in B13.
  change (4 ^ Z.of_nat (List.length gb14)) with 256 in B14.
  change (4 ^ Z.of_nat (List.length gb15)) with 256 in B15.
  change (4 ^ Z.of_nat (List.length gb16)) with 256 in B16.
  change (4 ^ Z.of_nat (List.length gb17)) with 256 in B17.
  change (4 ^ Z.of_nat (List.length gb18)) with 256 in B18.
  change (4 ^ Z.of_nat (List.length gb19)) with 256 in B19.
  change (4 ^ Z.of_nat (List.length gb20)) with 256 in B20.
  change (4 ^ Z.of_nat (List.length gb21)) with 256 in B21.
  change (4 ^ Z.of_nat (List.length gb22)) with 256 in B22.
  change (4 ^ Z.of_nat (List.length gb23)) with 256 in B23.
  change (4 ^ Z.of_nat (List.length gb24)) with 256 in B24.
  change (4 ^ Z.of_nat (List.length gb25)) with 256 in B25.
  change (4 ^ Z.of_nat (List.length gb26)) with 256 in B26.
  change (4 ^ Z.of_nat (List.length gb27)) with 256 in B27.
  change (4 ^ Z.of_nat (List.length gb28)) with 256 in B28.
  change (4 ^ Z.of_nat (List.length gb29)) with 256 in B29.
  change (4 ^ Z.of_nat (List.length gb30)) with 256 in B30.
  change (4 ^ Z.of_nat (List.length gb31)) with 256 in B31.
  rewrite (wrap_small 8 (csum ls gb0)) by (change (2 ^ 8) with 256; lia).
  rewrite (wrap_small 8 (csum ls gb1)) by (change (2 ^ 8) with 256; lia).
  rewrite (wrap_small 8 (csum ls gb2)) by (change (2 ^ 8) with 256; lia).
  rewrite (wrap_small 8 (csum ls gb3)) by (change (2 ^ 8) with 256; lia).
  rewrite (wrap_small 8 (csum ls gb4)) by (change (2 ^ 8) with 256; lia).
  rewrite (wrap_small 8 (csum ls gb5)) by (change (2 ^ 8) with 256; lia).
  rewrite (wrap_small 8 (csum ls gb6)) by (change (2 ^ 8) with 256; lia).
  rewrite (wrap_small 8 (csum ls gb7)) by (change (2 ^ 8) with 256; lia).
  rewrite (wrap_small 8 (csum ls gb8)) by (change (2 ^ 8) with 256; lia).
  rewrite (wrap_small 8 (csum ls gb9)) by (change (2 ^ 8) with 256; lia).
  rewrite (wrap_small 8 (csum ls gb10)) by (change (2 ^ 8) with 256; lia).
  rewrite (wrap_small 8 (csum ls gb11)) by (change (2 ^ 8) with 256; lia).
  rewrite (wrap_small 8 (csum ls gb12)) by (change (2 ^ 8) with 256; lia).
  rewrite (wrap_small 8 (csum ls gb13)) by (change (2 ^ 8) with 256; lia).
  rewrite (wrap_small 8 (csum ls gb14)) by (change (2 ^ 8) with 256; lia).
  rewrite (wrap_small 8 (csum ls gb15)) by (change (2 ^ 8) with 256; lia).
  rewrite (wrap_small 8 (csum ls gb16)) by (change (2 ^ 8) with 256; lia).
  rewrite (wrap_small 8 (csum ls gb17)) by (change (2 ^ 8) with 256; lia).
  rewrite (wrap_small 8 (csum ls gb18)) by (change (2 ^ 8) with 256; lia).
  rewrite (wrap_small 8 (csum ls gb19)) by (change (2 ^ 8) with 256; lia).
  rewrite (wrap_small 8 (csum ls gb20)) by (change (2 ^ 8) with 256; lia).
  rewrite (wrap_small 8 (csum ls gb21)) by (change (2 ^ 8) with 256; lia).
  rewrite (wrap_small 8 (csum ls gb22)) by (change (2 ^ 8) with 256; lia).
  rewrite (wrap_small 8 (csum ls gb23)) by (change (2 ^ 8) with 256; lia).
  rewrite (wrap_small 8 (csum ls gb24)) by (change (2 ^ 8) with 256; lia).
  rewrite (wrap_small 8 (csum ls gb25)) by (change (2 ^ 8) with 256; lia).
  rewrite (wrap_small 8 (csum ls gb26)) by (change (2 ^ 8) with 256; lia).
  rewrite (wrap_small 8 (csum ls gb27)) by (change (2 ^ 8) with 256; lia).
  rewrite (wrap_small 8 (csum ls gb28)) by (change (2 ^ 8) with 256; lia).
  rewrite (wrap_small 8 (csum ls gb29)) by (change (2 ^ 8) with 256; lia).
  rewrite (wrap_small 8 (csum ls gb30)) by (change (2 ^ 8) with 256; lia).
  rewrite (wrap_small 8 (csum ls gb31)) by (change (2 ^ 8) with 256; lia).
  cbn [l32]. split.
  - repeat (apply Forall_cons; [assumption|]). apply Forall_nil.
  - clear E0 E1 E2 E3 E4 E5 E6 E7 E8 E9 E10 E11 E12 E13 E14 E15 E16 E17 E18 E19 E20 E21 E22 E23 E24 E25 E26 E27 E28 E29 E30 E31 B0 B1 B2 B3 B4 B5 B6 B7 B8 B9 B10 B11 B12 B13 B14 B15 B16 B17 B18 B19 B20 B21 B22 B23 B24 B25 B26 B27 B28 B29 B30 B31.
    cbn [val be_val be_val_acc].
    cbv beta iota delta [csum cval gb0 gb1 gb2 gb3 gb4 gb5 gb6 gb7 gb8 gb9 gb10 gb11 gb12 gb13 gb14 gb15 gb16 gb17 gb18 gb19 gb20 gb21 gb22 gb23 gb24 gb25 gb26 gb27 gb28 gb29 gb30 gb31 nth fst snd ls].
    unfold reduced, mag in Hred.
    assert (H0 : 0 <= n0 < 2 ^ 26) by lia. assert (H1 : 0 <= n1 < 2 ^ 26) by lia. assert (H2 : 0 <= n2 < 2 ^ 26) by lia.
    assert (H3 : 0 <= n3 < 2 ^ 26) by lia. assert (H4 : 0 <= n4 < 2 ^ 26) by lia. assert (H5 : 0 <= n5 < 2 ^ 26) by lia.
    assert (H6 : 0 <= n6 < 2 ^ 26) by lia. assert (H7 : 0 <= n7 < 2 ^ 26) by lia. assert (H8 : 0 <= n8 < 2 ^ 26) by lia.
    assert (H9 : 0 <= n9 < 2 ^ 22) by lia. clear Hred. clear ls.
    ldigits13 n0. ldigits13 n1. ldigits13 n2. ldigits13 n3. ldigits13 n4. ldigits13 n5. ldigits13 n6. ldigits13 n7. ldigits13 n8.
    ldigits11 n9.
    lia.
Qed.

(* ---- round trips *)
Lemma all_bytes_of_Forall : forall l, Forall (fun b => 0 <= b < 256) l -> all_bytes l = true.
Proof.
  induction 1 as [|b l Hb _ IH]; [reflexivity|]. cbn [all_bytes forallb]. unfold all_bytes in IH. rewrite IH.
  unfold is_byte. lia.
Qed.

Lemma be_val_inj32 : forall l l', List.length l = 32%nat -> List.length l' = 32%nat ->
  Forall (fun b => 0 <= b < 256) l -> Forall (fun b => 0 <= b < 256) l' -> be_val l = be_val l' -> l = l'.
Proof.
  intros l l' Hl Hl' Hb Hb' E.
  rewrite <- (be_bytes_be_val l (all_bytes_of_Forall _ Hb)), <- (be_bytes_be_val l' (all_bytes_of_Forall _ Hb')).
  rewrite Hl, Hl', E. reflexivity.
Qed.

Lemma l32_length : forall t, List.length (l32 t) = 32%nat.
Proof.
  intros t. repeat match goal with x : (_ * _)%type |- _ => destruct x end. reflexivity.
Qed.

(* GetB32 (SetB32 bytes) = bytes *)
Theorem SetB32_GetB32 : forall a0 a1 a2 a3 a4 a5 a6 a7 a8 a9 a10 a11 a12 a13 a14 a15 a16 a17 a18 a19 a20 a21 a22 a23 a24 a25 a26 a27 a28 a29 a30 a31,
  let bs := [a0; a1; a2; a3; a4; a5; a6; a7; a8; a9; a10; a11; a12; a13; a14; a15; a16; a17; a18; a19; a20; a21; a22; a23; a24; a25; a26; a27; a28; a29; a30; a31] in
  Forall (fun a => 0 <= a < 256) bs ->
  exists r t,
    Field_SetB32 a0 a1 a2 a3 a4 a5 a6 a7 a8 a9 a10 a11 a12 a13 a14 a15 a16 a17 a18 a19 a20 a21 a22 a23 a24 a25 a26 a27 a28 a29 a30 a31 = Val r /\
    (let '(n0, n1, n2, n3, n4, n5, n6, n7, n8, n9) := r in Field_GetB32 n0 n1 n2 n3 n4 n5 n6 n7 n8 n9 = Val t) /\
    l32 t = bs.
Proof.
  intros until bs. intros Hb.
  destruct (SetB32_correct a0 a1 a2 a3 a4 a5 a6 a7 a8 a9 a10 a11 a12 a13 a14 a15 a16 a17 a18 a19 a20 a21 a22 a23 a24 a25 a26 a27 a28 a29 a30 a31 Hb)
    as (r & Er & Hr & Vr).
  destr_limbs r.
  destruct (GetB32_correct _ _ _ _ _ _ _ _ _ _ Hr) as (t & Et & Bt & Vt).
  exists (n0, n1, n2, n3, n4, n5, n6, n7, n8, n9), t. split; [exact Er|]. split; [exact Et|].
  apply be_val_inj32; [apply l32_length|reflexivity|exact Bt|exact Hb|]. rewrite Vt. exact Vr.
Qed.

(* SetB32 (GetB32 f) = f on reduced limbs *)
Theorem GetB32_SetB32 : forall n0 n1 n2 n3 n4 n5 n6 n7 n8 n9,
  reduced (n0, n1, n2, n3, n4, n5, n6, n7, n8, n9) ->
  exists t r, Field_GetB32 n0 n1 n2 n3 n4 n5 n6 n7 n8 n9 = Val t /\
    (let '(b0, b1, b2, b3, b4, b5, b6, b7, b8, b9, b10, b11, b12, b13, b14, b15, b16, b17, b18, b19, b20, b21, b22, b23, b24, b25, b26, b27, b28, b29, b30, b31) := t in
     Field_SetB32 b0 b1 b2 b3 b4 b5 b6 b7 b8 b9 b10 b11 b12 b13 b14 b15 b16 b17 b18 b19 b20 b21 b22 b23 b24 b25 b26 b27 b28 b29 b30 b31 = Val r) /\
    reduced r /\ val r = val (n0, n1, n2, n3, n4, n5, n6, n7, n8, n9).
Proof.
  intros n0 n1 n2 n3 n4 n5 n6 n7 n8 n9 Hred.
  destruct (GetB32_correct _ _ _ _ _ _ _ _ _ _ Hred) as (t & Et & Bt & Vt).
  repeat match goal with x : (_ * _)%type |- _ => destruct x end. cbn [l32] in Bt, Vt.
  match type of Bt with Forall _ [?b0; ?b1; ?b2; ?b3; ?b4; ?b5; ?b6; ?b7; ?b8; ?b9; ?b10; ?b11; ?b12; ?b13; ?b14; ?b15; ?b16; ?b17; ?b18; ?b19; ?b20; ?b21; ?b22; ?b23; ?b24; ?b25; ?b26; ?b27; ?b28; ?b29; ?b30; ?b31] =>
    destruct (SetB32_correct b0 b1 b2 b3 b4 b5 b6 b7 b8 b9 b10 b11 b12 b13 b14 b15 b16 b17 b18 b19 b20 b21 b22 b23 b24 b25 b26 b27 b28 b29 b30 b31 Bt) as (r & Er & Hr & Vr)
  end.
  eexists. exists r. split; [exact Et|]. split; [exact Er|]. split; [exact Hr|]. rewrite Vr. exact Vt.
Qed.

(* the serialisation path: Normalize then GetB32 writes the canonical 32 bytes of the value modulo p *)
Theorem Normalize_GetB32 : forall n0 n1 n2 n3 n4 n5 n6 n7 n8 n9,
  norm_pre (n0, n1, n2, n3, n4, n5, n6, n7, n8, n9) ->
  exists r t, Field_Normalize n0 n1 n2 n3 n4 n5 n6 n7 n8 n9 = Val r /\
    (let '(m0, m1, m2, m3, m4, m5, m6, m7, m8, m9) := r in Field_GetB32 m0 m1 m2 m3 m4 m5 m6 m7 m8 m9 = Val t) /\
    l32 t = be_bytes 32 (val (n0, n1, n2, n3, n4, n5, n6, n7, n8, n9) mod p).
Proof.
  intros n0 n1 n2 n3 n4 n5 n6 n7 n8 n9 Hpre.
  destruct (Normalize_correct _ _ _ _ _ _ _ _ _ _ Hpre) as (r & Er & [Hr Hlt] & Vr).
  destr_limbs r.
  destruct (GetB32_correct _ _ _ _ _ _ _ _ _ _ Hr) as (t & Et & Bt & Vt).
  exists (n10, n11, n12, n13, n14, n15, n16, n17, n18, n19), t. split; [exact Er|]. split; [exact Et|].
  rewrite <- Vr, <- Vt. rewrite <- (l32_length t) at 1. symmetry. apply be_bytes_be_val, all_bytes_of_Forall, Bt.
Qed.
