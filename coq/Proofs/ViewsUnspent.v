(* C07 proofs, part 1: the chain invariant and the unspent pool / address index /
   checksum maintained by ProcessBlock and rebuilt by buildAddrIndex. *)
From Sky Require Import Base.Uint Model.Views Proofs.ViewsBase.
From Coq Require Import Lia ZifyBool ZArith Bool List Permutation.
Import ListNotations.
Open Scope Z_scope.

(* ---------- first-principles lists under extension of the chain *)

Lemma created_snoc c b : created (c ++ [b]) = created c ++ block_uxs b.
Proof. unfold created. rewrite flat_map_app. cbn. now rewrite app_nil_r. Qed.
Lemma spent_snoc c b : spent_ids (c ++ [b]) = spent_ids c ++ block_ins b.
Proof. unfold spent_ids. rewrite flat_map_app. cbn. now rewrite app_nil_r. Qed.
Lemma spends_snoc c b : spends (c ++ [b]) = spends c ++ block_spends b.
Proof. unfold spends. rewrite flat_map_app. cbn. now rewrite app_nil_r. Qed.
Lemma txns_snoc c b : txns_of (c ++ [b]) = txns_of c ++ block_txns b.
Proof. unfold txns_of. rewrite flat_map_app. cbn. now rewrite app_nil_r. Qed.

(* ---------- what wf_block_b says *)

Record wfb (p : chain) (b : block) : Prop := {
  wb_seq : b_seq b = Z.of_nat (List.length p);
  wb_ins_nodup : NoDup (block_ins b);
  wb_ins_unspent : forall i, In i (block_ins b) -> In i (map ux_id (utxo_of p));
  wb_new_nodup : NoDup (map ux_id (block_uxs b));
  wb_new_fresh : forall u, In u (block_uxs b) -> ~ In (ux_id u) (map ux_id (created p));
  wb_tx_nodup : NoDup (map t_id (b_txns b));
  wb_tx_fresh : forall t, In t (b_txns b) -> ~ In (t_id t) (map (fun q => t_id (fst q)) (txns_of p));
  wb_nonempty : block_uxs b <> [];
  wb_outs : forall t, In t (b_txns b) -> t_outs t <> [] }.

Lemma wf_block_wfb p b : wf_block p b -> wfb p b.
Proof.
  unfold wf_block, wf_block_b. rewrite !andb_true_iff.
  intros ((((((((H1 & H2) & H3) & H4) & H5) & H6) & H7) & H8) & H9).
  constructor.
  - lia.
  - now apply nodup_b_NoDup.
  - rewrite forallb_forall in H3. intros i Hi. apply memZ_In. now apply H3.
  - now apply nodup_b_NoDup.
  - rewrite forallb_forall in H5. intros u Hu. apply memZ_false. specialize (H5 u Hu).
    now apply negb_true_iff in H5.
  - now apply nodup_b_NoDup.
  - rewrite forallb_forall in H7. intros t Ht. apply memZ_false. specialize (H7 t Ht).
    now apply negb_true_iff in H7.
  - destruct (block_uxs b); [discriminate | discriminate].
  - rewrite forallb_forall in H9. intros t Ht. specialize (H9 t Ht). destruct (t_outs t); [discriminate | discriminate].
Qed.

(* ---------- invariant of an accepted chain *)

Record cinv (c : chain) : Prop := {
  ci_ids : NoDup (map ux_id (created c));
  ci_spent_sub : incl (spent_ids c) (map ux_id (created c));
  ci_spent_nodup : NoDup (spent_ids c);
  ci_tx : NoDup (map (fun q => t_id (fst q)) (txns_of c));
  ci_seq : map b_seq c = map Z.of_nat (seq 0 (List.length c));
  ci_seq_bound : forall u, In u (created c) -> 0 <= ux_seq u <= head_seq c;
  ci_head_ux : c <> [] -> exists u, In u (utxo_of c) /\ ux_seq u = head_seq c }.

Lemma cinv_nil : cinv [].
Proof.
  constructor.
  - constructor.
  - intros x [].
  - constructor.
  - constructor.
  - reflexivity.
  - intros v [].
  - intros H. now contradiction H.
Qed.

Lemma block_uxs_seq b u : In u (block_uxs b) -> ux_seq u = b_seq b.
Proof.
  unfold block_uxs, txn_uxs. intros H. apply in_flat_map in H as (t & _ & H).
  apply in_map_iff in H as (o & <- & _). reflexivity.
Qed.

Lemma utxo_sub_created c u : In u (utxo_of c) -> In u (created c).
Proof. unfold utxo_of. intros H. apply filter_In in H. tauto. Qed.

Lemma utxo_ids_sub c i : In i (map ux_id (utxo_of c)) -> In i (map ux_id (created c)).
Proof. intros H. apply in_map_iff in H as (u & E & Hu). apply in_map_iff. exists u. split; [exact E | now apply utxo_sub_created]. Qed.

Lemma utxo_not_spent c u : In u (utxo_of c) -> ~ In (ux_id u) (spent_ids c).
Proof. unfold utxo_of. intros H. apply filter_In in H as [_ H]. apply negb_true_iff in H. now apply memZ_false. Qed.

Lemma utxo_ids_nodup c : cinv c -> NoDup (map ux_id (utxo_of c)).
Proof. intros H. unfold utxo_of. apply NoDup_map_filter. apply H. Qed.

Lemma block_txns_ids b : map (fun q => t_id (fst q)) (block_txns b) = map t_id (b_txns b).
Proof. unfold block_txns. rewrite map_map. reflexivity. Qed.

Lemma cinv_snoc c b : cinv c -> wfb c b -> cinv (c ++ [b]).
Proof.
  intros Hc Hb. constructor.
  - rewrite created_snoc, map_app. apply NoDup_app_intro; [apply Hc | apply Hb |].
    intros i Hi Hn. apply in_map_iff in Hn as (u & E & Hu). subst i. exact (wb_new_fresh _ _ Hb u Hu Hi).
  - rewrite spent_snoc, created_snoc, map_app. intros i Hi. apply in_app_iff in Hi as [Hi|Hi]; apply in_app_iff; left.
    + now apply (ci_spent_sub _ Hc).
    + apply utxo_ids_sub. now apply (wb_ins_unspent _ _ Hb).
  - rewrite spent_snoc. apply NoDup_app_intro; [apply Hc | apply Hb |].
    intros i Hi Hn. apply (wb_ins_unspent _ _ Hb) in Hn. apply in_map_iff in Hn as (u & E & Hu). subst i.
    exact (utxo_not_spent _ _ Hu Hi).
  - rewrite txns_snoc, map_app, block_txns_ids. apply NoDup_app_intro; [apply Hc | apply Hb |].
    intros i Hi Hn. apply in_map_iff in Hn as (t & E & Ht). subst i. exact (wb_tx_fresh _ _ Hb t Ht Hi).
  - rewrite map_app, app_length, seq_app, map_app, (ci_seq _ Hc). cbn. f_equal. f_equal. apply Hb.
  - intros u Hu. rewrite created_snoc in Hu. unfold head_seq. rewrite app_length. cbn [List.length].
    apply in_app_iff in Hu as [Hu|Hu].
    + pose proof (ci_seq_bound _ Hc u Hu) as B. unfold head_seq in B. lia.
    + rewrite (block_uxs_seq b u Hu), (wb_seq _ _ Hb). lia.
  - intros _. destruct (block_uxs b) as [|u r] eqn:E; [exfalso; exact (wb_nonempty _ _ Hb E)|].
    exists u. split.
    + unfold utxo_of. apply filter_In. split.
      * rewrite created_snoc, E. apply in_app_iff. right. now left.
      * apply negb_true_iff, memZ_false. rewrite spent_snoc, in_app_iff.
        assert (Hu : In u (block_uxs b)) by (rewrite E; now left).
        intros [H|H].
        -- apply (wb_new_fresh _ _ Hb u Hu). now apply (ci_spent_sub _ Hc).
        -- apply (wb_new_fresh _ _ Hb u Hu). apply utxo_ids_sub. now apply (wb_ins_unspent _ _ Hb).
    + rewrite (block_uxs_seq b u) by (rewrite E; now left). rewrite (wb_seq _ _ Hb).
      unfold head_seq. rewrite app_length. cbn [List.length]. lia.
Qed.

(* ---------- the unspent set after one more block *)

Lemma utxo_snoc c b : cinv c -> wfb c b ->
  utxo_of (c ++ [b]) = filter (fun u => negb (memZ (ux_id u) (block_ins b))) (utxo_of c) ++ block_uxs b.
Proof.
  intros Hc Hb. unfold utxo_of. rewrite created_snoc, spent_snoc, filter_app. f_equal.
  - rewrite filter_filter. apply filter_ext_in'. intros u _. rewrite memZ_app, negb_orb. reflexivity.
  - apply filter_all. intros u Hu. apply negb_true_iff, memZ_false. rewrite in_app_iff. intros [H|H].
    + apply (wb_new_fresh _ _ Hb u Hu). now apply (ci_spent_sub _ Hc).
    + apply (wb_new_fresh _ _ Hb u Hu). apply utxo_ids_sub. now apply (wb_ins_unspent _ _ Hb).
Qed.

(* ---------- pool lookups *)

Lemma pool_get_in p id u : pool_get p id = Some u -> In u p /\ ux_id u = id.
Proof. unfold pool_get. apply find_key_some. Qed.

Lemma pool_get_unique p u : NoDup (map ux_id p) -> In u p -> pool_get p (ux_id u) = Some u.
Proof. unfold pool_get. apply (find_unique ux_id). Qed.

Lemma pool_get_none p id : pool_get p id = None <-> ~ In id (map ux_id p).
Proof. unfold pool_get. apply find_key_none. Qed.

Lemma pool_get_del_neq p i j : i <> j -> pool_get (pool_del p j) i = pool_get p i.
Proof.
  intros Hne. unfold pool_get, pool_del. induction p as [|u r IH]; cbn; [reflexivity|].
  destruct (ux_id u =? j) eqn:E; cbn.
  - destruct (ux_id u =? i) eqn:E2; [lia | exact IH].
  - destruct (ux_id u =? i); [reflexivity | exact IH].
Qed.

Lemma get_array_spec p ids :
  NoDup (map ux_id p) -> (forall i, In i ids -> In i (map ux_id p)) ->
  exists uxs, get_array p ids = Some uxs /\ map ux_id uxs = ids /\ (forall u, In u uxs -> In u p).
Proof.
  intros Hnd. induction ids as [|i r IH]; intros Hin.
  - exists []. cbn. repeat split; auto. intros u [].
  - destruct IH as (l & Hl & Hm & Hp); [intros j Hj; apply Hin; now right|].
    assert (Hi : In i (map ux_id p)) by (apply Hin; now left).
    apply in_map_iff in Hi as (u & E & Hu). subst i.
    exists (u :: l). cbn [get_array]. rewrite (pool_get_unique p u Hnd Hu), Hl. cbn [map]. repeat split.
    + now rewrite Hm.
    + intros v [<-|Hv]; [exact Hu | now apply Hp].
Qed.

Lemma get_array_some p ids uxs :
  get_array p ids = Some uxs -> map ux_id uxs = ids /\ (forall u, In u uxs -> In u p).
Proof.
  revert uxs. induction ids as [|i r IH]; cbn [get_array]; intros uxs H.
  - injection H as <-. split; [reflexivity | intros u []].
  - destruct (pool_get p i) as [u|] eqn:E; [|discriminate].
    destruct (get_array p r) as [l|] eqn:E2; [|discriminate]. injection H as <-.
    destruct (IH l eq_refl) as [Hm Hp]. apply pool_get_in in E as [Hu Hid]. cbn [map]. split.
    + now rewrite Hid, Hm.
    + intros v [<-|Hv]; [exact Hu | now apply Hp].
Qed.

Lemma get_array_none p ids : get_array p ids = None -> exists i, In i ids /\ ~ In i (map ux_id p).
Proof.
  induction ids as [|i r IH]; cbn [get_array]; [discriminate|].
  destruct (pool_get p i) as [u|] eqn:E.
  - destruct (get_array p r) as [l|] eqn:E2; [discriminate|]. intros _.
    destruct (IH eq_refl) as (j & Hj & Hn). exists j. split; [now right | exact Hn].
  - intros _. exists i. split; [now left | now apply pool_get_none].
Qed.

Lemma get_array_del p i ids :
  ~ In i ids -> get_array (pool_del p i) ids = get_array p ids.
Proof.
  induction ids as [|j r IH]; intros Hn; cbn [get_array]; [reflexivity|].
  rewrite pool_get_del_neq by (intros ->; apply Hn; now left).
  rewrite IH; [reflexivity|]. intros H. apply Hn. now right.
Qed.

Lemma NoDup_pool_del p i : NoDup (map ux_id p) -> NoDup (map ux_id (pool_del p i)).
Proof. apply NoDup_map_filter. Qed.

Lemma fold_pool_del uxs : forall p,
  fold_left (fun p u => pool_del p (ux_id u)) uxs p =
  filter (fun u => negb (memZ (ux_id u) (map ux_id uxs))) p.
Proof.
  induction uxs as [|v r IH]; intros p; cbn [fold_left map].
  - symmetry. apply filter_all. intros; reflexivity.
  - rewrite IH. unfold pool_del. rewrite filter_filter. apply filter_ext_in'. intros u _.
    unfold memZ at 2. cbn [existsb]. fold (memZ (ux_id u) (map ux_id r)).
    rewrite negb_orb, (Z.eqb_sym (ux_id u) (ux_id v)). reflexivity.
Qed.

(* ---------- checksum: removing an element xors its snapshot hash out *)

Definition pool_xor (p : list uxout) : Z := xor_list (map ux_snap p) 0.

Lemma pool_xor_del p i u :
  NoDup (map ux_id p) -> pool_get p i = Some u ->
  pool_xor (pool_del p i) = Z.lxor (pool_xor p) (ux_snap u).
Proof.
  unfold pool_xor, pool_get, pool_del. induction p as [|v r IH]; cbn [find filter map]; intros Hnd Hg; [discriminate|].
  inversion Hnd as [|? ? Hv Hr]; subst.
  destruct (ux_id v =? i) eqn:E; cbn [negb].
  - injection Hg as <-.
    assert (Hf : filter (fun u => negb (ux_id u =? i)) r = r).
    { apply filter_all. intros w Hw. apply negb_true_iff. destruct (ux_id w =? i) eqn:E2; [|reflexivity].
      exfalso. apply Hv. replace (ux_id v) with (ux_id w) by lia. now apply in_map. }
    rewrite Hf, xor_list_cons, Z.lxor_0_l, (xor_list_acc _ (ux_snap v)).
    rewrite (Z.lxor_comm (ux_snap v)), xor_twice. reflexivity.
  - cbn [map]. rewrite !xor_list_cons, Z.lxor_0_l, (xor_list_acc _ (ux_snap v)), (xor_list_acc (map ux_snap r) (ux_snap v)).
    rewrite (IH Hr Hg). rewrite !Z.lxor_assoc. reflexivity.
Qed.

Lemma pool_xor_remove ids : forall p uxs,
  NoDup ids -> NoDup (map ux_id p) -> get_array p ids = Some uxs ->
  pool_xor (fold_left (fun p u => pool_del p (ux_id u)) uxs p) = xor_list (map ux_snap uxs) (pool_xor p).
Proof.
  induction ids as [|i r IH]; intros p uxs Hnd Hp Hg; cbn [get_array] in Hg.
  - injection Hg as <-. reflexivity.
  - destruct (pool_get p i) as [u|] eqn:E; [|discriminate].
    destruct (get_array p r) as [l|] eqn:E2; [|discriminate]. injection Hg as <-.
    inversion Hnd as [|? ? Hi Hr]; subst.
    cbn [fold_left map]. rewrite xor_list_cons.
    pose proof (pool_get_in _ _ _ E) as [_ Hid]. rewrite Hid.
    rewrite (IH (pool_del p i) l Hr (NoDup_pool_del p i Hp)).
    + now rewrite (pool_xor_del p i u Hp E).
    + now rewrite get_array_del.
Qed.

(* ---------- poolAddrIndex.adjust *)

(* the invariants of the index bucket: distinct keys, no empty rows *)
Definition idx_ok (idx : amap (list Z)) : Prop :=
  NoDup (map fst idx) /\ forall a, aget a idx <> Some [].

Lemma add_all_ok adds : forall cur rms,
  NoDup adds -> (forall h, In h adds -> ~ In h rms) -> (forall h, In h adds -> ~ In h cur) ->
  add_all cur rms adds = Some (cur ++ adds).
Proof.
  induction adds as [|h r IH]; intros cur rms Hnd H1 H2; cbn [add_all].
  - now rewrite app_nil_r.
  - inversion Hnd as [|? ? Hh Hr]; subst.
    assert (E1 : memZ h rms = false) by (apply memZ_false, H1; now left).
    assert (E2 : memZ h cur = false) by (apply memZ_false, H2; now left).
    rewrite E1, E2, IH.
    + now rewrite <- app_assoc.
    + exact Hr.
    + intros x Hx. apply H1. now right.
    + intros x Hx Hin. apply in_app_iff in Hin as [Hin|[<-|[]]]; [apply (H2 x); [now right | exact Hin] | exact (Hh Hx)].
Qed.

Definition adjusted (existing adds rms : list Z) : list Z :=
  filter (fun h => negb (memZ h rms)) existing ++ adds.

Lemma adjust_ok idx a adds rms :
  idx_ok idx ->
  NoDup rms -> NoDup adds -> NoDup (aget_list a idx) ->
  incl rms (aget_list a idx) ->
  (forall h, In h adds -> ~ In h rms) -> (forall h, In h adds -> ~ In h (aget_list a idx)) ->
  exists idx', adjust idx a adds rms = Some idx' /\ idx_ok idx' /\
               aget_list a idx' = adjusted (aget_list a idx) adds rms /\
               (forall a', a' <> a -> aget a' idx' = aget a' idx).
Proof.
  intros [Hk He] Hrms Hadds Hex Hincl Hd1 Hd2.
  unfold adjust.
  destruct (is_empty adds && is_empty rms) eqn:Eempty.
  { apply andb_true_iff in Eempty as [E1 E2]. destruct adds; [|discriminate]. destruct rms; [|discriminate].
    exists idx. repeat split; auto. unfold adjusted. cbn. rewrite app_nil_r. symmetry. apply filter_all. intros; reflexivity. }
  set (existing := aget_list a idx) in *.
  assert (Hnb : nodup_b rms = true) by (now apply nodup_b_NoDup).
  set (kept := filter (fun h => negb (memZ h rms)) existing).
  assert (Hcnt : (List.length existing = List.length kept + List.length rms)%nat).
  { unfold kept. rewrite (filter_length_split (fun h => memZ h rms) existing).
    replace (List.length (filter (fun h => memZ h rms) existing)) with (List.length rms); [lia|].
    apply same_length_NoDup; [exact Hrms | now apply NoDup_filter |].
    intros x. rewrite filter_In, memZ_In. split; [intros Hx; split; [now apply Hincl | exact Hx] | tauto]. }
  assert (Hadd : add_all kept rms adds = Some (kept ++ adds)).
  { apply add_all_ok; [exact Hadds | exact Hd1 |].
    intros h Hh Hin. apply filter_In in Hin as [Hin _]. exact (Hd2 h Hh Hin). }
  rewrite Hnb. cbn [negb].
  destruct (List.length existing <? List.length rms)%nat eqn:E1; [apply Nat.ltb_lt in E1; lia|].
  destruct (List.length existing - List.length kept =? List.length rms)%nat eqn:E2;
    [|apply Nat.eqb_neq in E2; lia].
  cbn [negb]. rewrite Hadd.
  destruct (kept ++ adds) as [|x l] eqn:Enew.
  - exists (adel a idx). split; [reflexivity|]. split; [|split].
    + split; [now apply NoDup_akeys_adel|]. intros a'. destruct (Z.eq_dec a' a) as [->|Hne].
      * rewrite aget_adel_eq. discriminate.
      * rewrite aget_adel_neq by exact Hne. apply He.
    + rewrite aget_list_adel_eq. unfold adjusted. fold kept. now rewrite Enew.
    + intros a' Hne. now apply aget_adel_neq.
  - exists (aput a (x :: l) idx). split; [reflexivity|]. split; [|split].
    + split; [now apply NoDup_akeys_aput|]. intros a'. destruct (Z.eq_dec a' a) as [->|Hne].
      * rewrite aget_aput_eq. discriminate.
      * rewrite aget_aput_neq by exact Hne. apply He.
    + rewrite aget_list_aput_eq. unfold adjusted. fold kept. now rewrite Enew.
    + intros a' Hne. now apply aget_aput_neq.
Qed.

Lemma adjusted_nil existing : adjusted existing [] [] = existing.
Proof. unfold adjusted. rewrite app_nil_r. apply filter_all. intros; reflexivity. Qed.

Lemma adjust_fold (adds rms : Z -> list Z) addrs : forall idx,
  NoDup addrs -> idx_ok idx ->
  (forall a, In a addrs ->
     NoDup (rms a) /\ NoDup (adds a) /\ NoDup (aget_list a idx) /\ incl (rms a) (aget_list a idx) /\
     (forall h, In h (adds a) -> ~ In h (rms a)) /\ (forall h, In h (adds a) -> ~ In h (aget_list a idx))) ->
  exists idx', ofold (fun idx a => adjust idx a (adds a) (rms a)) addrs idx = Some idx' /\ idx_ok idx' /\
     (forall a, In a addrs -> aget_list a idx' = adjusted (aget_list a idx) (adds a) (rms a)) /\
     (forall a, ~ In a addrs -> aget a idx' = aget a idx).
Proof.
  induction addrs as [|a0 r IH]; intros idx Hnd Hok Hpre.
  - exists idx. cbn [ofold]. split; [reflexivity|]. split; [exact Hok|]. split; [intros a []|]. intros; reflexivity.
  - inversion Hnd as [|? ? Ha0 Hr]; subst.
    destruct (Hpre a0 (or_introl eq_refl)) as (P1 & P2 & P3 & P4 & P5 & P6).
    destruct (adjust_ok idx a0 (adds a0) (rms a0) Hok P1 P2 P3 P4 P5 P6) as (idx1 & E1 & Hok1 & Hg1 & Hother).
    assert (Hsame : forall a, a <> a0 -> aget_list a idx1 = aget_list a idx).
    { intros a Hne. unfold aget_list. now rewrite Hother. }
    destruct (IH idx1 Hr Hok1) as (idx' & E' & Hok' & Hg' & Ho').
    { intros a Ha. assert (a <> a0) by (intros ->; contradiction).
      rewrite (Hsame a H). apply Hpre. now right. }
    exists idx'. cbn [ofold]. rewrite E1. split; [exact E'|]. split; [exact Hok'|]. split.
    + intros a [<-|Ha].
      * unfold aget_list at 1. rewrite (Ho' a0 Ha0). fold (aget_list a0 idx1). exact Hg1.
      * assert (a <> a0) by (intros ->; contradiction). rewrite (Hg' a Ha), (Hsame a H). reflexivity.
    + intros a Hn. rewrite Ho' by (intros H; apply Hn; now right).
      apply Hother. intros ->. apply Hn. now left.
Qed.

Lemma nodup_map_inj {A} (f : A -> Z) l x y :
  NoDup (map f l) -> In x l -> In y l -> f x = f y -> x = y.
Proof.
  induction l as [|z r IH]; cbn; intros Hnd Hx Hy E; [contradiction|].
  inversion Hnd as [|? ? Hz Hr]; subst.
  destruct Hx as [->|Hx], Hy as [->|Hy]; auto.
  - exfalso. apply Hz. rewrite E. now apply in_map.
  - exfalso. apply Hz. rewrite <- E. now apply in_map.
Qed.

Lemma filter_map_comm {A B} (f : B -> bool) (g : A -> B) l :
  filter f (map g l) = map g (filter (fun x => f (g x)) l).
Proof. induction l as [|x r IH]; cbn; [reflexivity|]. destruct (f (g x)); cbn; now rewrite IH. Qed.

Lemma addr_index_snoc c b a : cinv c -> wfb c b ->
  addr_index_of (c ++ [b]) a =
  map ux_id (filter (fun u => ux_addr u =? a) (filter (fun u => negb (memZ (ux_id u) (block_ins b))) (utxo_of c)))
  ++ ids_at a (block_uxs b).
Proof.
  intros Hc Hb. unfold addr_index_of. rewrite (utxo_snoc c b Hc Hb), filter_app, map_app. reflexivity.
Qed.

(* one block: the state after ProcessBlock agrees with the views of the longer chain *)
Lemma process_block_agree s c b :
  cinv c -> wfb c b -> uagree s c ->
  exists s', process_block s b = Some s' /\ uagree s' (c ++ [b]).
Proof.
  intros Hc Hb (Hpool & Hidx & Hkeys & Hne & Hxor & Hhgt).
  pose proof (utxo_ids_nodup c Hc) as Hnd.
  destruct (get_array_spec (utxo_of c) (block_ins b) Hnd (wb_ins_unspent _ _ Hb)) as (uxs & Hga & Hids & Hsub).
  unfold process_block. rewrite Hpool, Hga.
  set (new := block_uxs b).
  set (pool1 := fold_left (fun p u => pool_del p (ux_id u)) uxs (utxo_of c)).
  assert (Hpool1 : pool1 = filter (fun u => negb (memZ (ux_id u) (block_ins b))) (utxo_of c)).
  { unfold pool1. now rewrite fold_pool_del, Hids. }
  assert (Hfresh : forall u, In u new -> ~ In (ux_id u) (map ux_id (utxo_of c))).
  { intros u Hu Hin. apply (wb_new_fresh _ _ Hb u Hu). now apply utxo_ids_sub. }
  (* no new id is in the pool *)
  assert (Hex : existsb (fun u => match pool_get pool1 (ux_id u) with Some _ => true | None => false end) new = false).
  { destruct (existsb _ new) eqn:E; [|reflexivity]. exfalso.
    apply existsb_exists in E as (u & Hu & E). destruct (pool_get pool1 (ux_id u)) as [v|] eqn:Eg; [|discriminate].
    apply pool_get_in in Eg as [Hv Hid]. rewrite Hpool1 in Hv. apply filter_In in Hv as [Hv _].
    apply (Hfresh u Hu). rewrite <- Hid. now apply in_map. }
  rewrite Hex.
  (* the index *)
  set (adds := fun a => ids_at a new). set (rms := fun a => ids_at a uxs).
  set (addrs := dedup (map ux_addr uxs ++ map ux_addr new)).
  assert (Hidxok : idx_ok (u_idx s)) by (split; assumption).
  assert (Huxs_nd : NoDup (map ux_id uxs)) by (rewrite Hids; apply Hb).
  assert (Hpre : forall a,
     NoDup (rms a) /\ NoDup (adds a) /\ NoDup (aget_list a (u_idx s)) /\ incl (rms a) (aget_list a (u_idx s)) /\
     (forall h, In h (adds a) -> ~ In h (rms a)) /\ (forall h, In h (adds a) -> ~ In h (aget_list a (u_idx s)))).
  { intros a. unfold rms, adds, ids_at.
    assert (Hex_nd : NoDup (aget_list a (u_idx s))).
    { eapply Permutation_NoDup; [apply Permutation_sym, Hidx|]. unfold addr_index_of. now apply NoDup_map_filter. }
    assert (Hin_ex : forall h, In h (aget_list a (u_idx s)) -> In h (map ux_id (utxo_of c))).
    { intros h Hh. apply (Permutation_in _ (Hidx a)) in Hh. unfold addr_index_of in Hh.
      apply in_map_iff in Hh as (u & E & Hu). apply filter_In in Hu as [Hu _]. apply in_map_iff. now exists u. }
    assert (Hadd_fresh : forall h, In h (map ux_id (filter (fun u => ux_addr u =? a) new)) -> ~ In h (map ux_id (utxo_of c))).
    { intros h Hh. apply in_map_iff in Hh as (u & <- & Hu). apply filter_In in Hu as [Hu _]. now apply Hfresh. }
    repeat split.
    - now apply NoDup_map_filter.
    - apply NoDup_map_filter. apply Hb.
    - exact Hex_nd.
    - intros h Hh. apply in_map_iff in Hh as (u & <- & Hu). apply filter_In in Hu as [Hu Ha].
      apply (Permutation_in _ (Permutation_sym (Hidx a))). unfold addr_index_of. apply in_map.
      apply filter_In. split; [now apply Hsub | exact Ha].
    - intros h Hh Hr. apply (Hadd_fresh h Hh). apply in_map_iff in Hr as (u & <- & Hu).
      apply filter_In in Hu as [Hu _]. apply in_map. now apply Hsub.
    - intros h Hh Hr. exact (Hadd_fresh h Hh (Hin_ex h Hr)). }
  destruct (adjust_fold adds rms addrs (u_idx s) (dedup_NoDup _) Hidxok (fun a _ => Hpre a))
    as (idx' & Efold & Hok' & Hin' & Hout').
  fold new. fold addrs. unfold adds, rms in Efold. rewrite Efold.
  (* height *)
  assert (Hheight : (if b_seq b =? 0
                     then match u_height s with None => true | Some _ => false end
                     else b_seq b =? (match u_height s with Some h => h | None => 0 end) + 1) = true).
  { rewrite Hhgt, (wb_seq _ _ Hb). unfold some_head, head_seq. destruct c as [|b0 c0]; cbn [List.length].
    - reflexivity.
    - destruct (Z.of_nat (S (List.length c0)) =? 0) eqn:E; lia. }
  rewrite Hheight.
  eexists. split; [reflexivity|].
  (* agreement *)
  assert (Hall : forall a, aget_list a idx' = adjusted (aget_list a (u_idx s)) (adds a) (rms a)).
  { intros a. destruct (in_dec Z.eq_dec a addrs) as [Hin|Hnin]; [now apply Hin'|].
    unfold aget_list at 1. rewrite (Hout' a Hnin). fold (aget_list a (u_idx s)).
    assert (E1 : adds a = []).
    { unfold adds, ids_at. rewrite filter_none; [reflexivity|]. intros u Hu.
      destruct (ux_addr u =? a) eqn:E; [|reflexivity]. exfalso. apply Hnin. unfold addrs.
      apply dedup_In, in_app_iff. right. apply in_map_iff. exists u. split; [lia | exact Hu]. }
    assert (E2 : rms a = []).
    { unfold rms, ids_at. rewrite filter_none; [reflexivity|]. intros u Hu.
      destruct (ux_addr u =? a) eqn:E; [|reflexivity]. exfalso. apply Hnin. unfold addrs.
      apply dedup_In, in_app_iff. left. apply in_map_iff. exists u. split; [lia | exact Hu]. }
    now rewrite E1, E2, adjusted_nil. }
  unfold uagree. cbn [u_pool u_idx u_xor u_height]. split; [|split; [|split; [|split; [|split]]]].
  - rewrite (utxo_snoc c b Hc Hb), <- Hpool1. reflexivity.
  - intros a. rewrite Hall, (addr_index_snoc c b a Hc Hb). unfold adjusted, adds.
    apply Permutation_app; [|reflexivity].
    transitivity (filter (fun h => negb (memZ h (rms a))) (addr_index_of c a)).
    { apply Permutation_filter, Hidx. }
    unfold addr_index_of. rewrite filter_map_comm.
    rewrite (filter_comm (fun u => ux_addr u =? a) (fun u => negb (memZ (ux_id u) (block_ins b))) (utxo_of c)).
    apply Permutation_refl'. f_equal. apply filter_ext_in'. intros u Hu. apply filter_In in Hu as [Hu Ha].
    f_equal. unfold rms, ids_at.
    destruct (memZ (ux_id u) (block_ins b)) eqn:E.
    + apply memZ_In. apply memZ_In in E. rewrite <- Hids in E. apply in_map_iff in E as (v & Ev & Hv).
      assert (v = u) by (apply (nodup_map_inj ux_id (utxo_of c)); auto).
      subst v. apply in_map. apply filter_In. split; [exact Hv | exact Ha].
    + apply memZ_false. apply memZ_false in E. intros Hin. apply E. rewrite <- Hids.
      apply in_map_iff in Hin as (v & Ev & Hv). apply filter_In in Hv as [Hv _]. apply in_map_iff. now exists v.
  - apply Hok'.
  - apply Hok'.
  - (* checksum *)
    unfold xor_of. rewrite (utxo_snoc c b Hc Hb), map_app, xor_list_app. f_equal.
    rewrite Hxor. unfold xor_of. fold (pool_xor (utxo_of c)).
    rewrite <- (pool_xor_remove (block_ins b) (utxo_of c) uxs (wb_ins_nodup _ _ Hb) Hnd Hga).
    fold pool1. rewrite Hpool1. reflexivity.
  - rewrite (wb_seq _ _ Hb). unfold some_head, head_seq. destruct (c ++ [b]) eqn:E.
    + destruct c; discriminate.
    + rewrite <- E, app_length. cbn. f_equal. lia.
Qed.

(* ---------- buildAddrIndex: regrouping the pool gives an equivalent index *)

Definition bi_step (p : list uxout) (acc : amap (list Z) * option Z) (id : Z) : amap (list Z) * option Z :=
  let '(idx, mx) := acc in
  match pool_get p id with
  | Some u => (idx_add idx (ux_addr u) id,
               Some (match mx with Some m => Z.max m (ux_seq u) | None => Z.max 0 (ux_seq u) end))
  | None => (idx, mx)
  end.

Lemma fold_left_ext {A B} (f g : A -> B -> A) l : forall a,
  (forall a b, f a b = g a b) -> fold_left f l a = fold_left g l a.
Proof. induction l as [|x r IH]; intros a H; cbn; [reflexivity|]. rewrite H. now apply IH. Qed.

Lemma build_index_unfold p order :
  build_index p order = fold_left (bi_step p) order (@pair (amap (list Z)) (option Z) [] None).
Proof. unfold build_index. apply fold_left_ext. intros [idx mx] id. reflexivity. Qed.

Definition addr_is (p : list uxout) (a : Z) (id : Z) : bool :=
  match pool_get p id with Some u => ux_addr u =? a | None => false end.

Lemma bi_fold p rest : forall done idx mx,
  (forall id, In id (done ++ rest) -> In id (map ux_id p)) ->
  idx_ok idx -> (forall a, aget_list a idx = filter (addr_is p a) done) ->
  (done = [] -> mx = None) ->
  (forall m, mx = Some m -> 0 <= m /\ (forall id u, In id done -> pool_get p id = Some u -> ux_seq u <= m) /\
                            (m = 0 \/ exists id u, In id done /\ pool_get p id = Some u /\ ux_seq u = m)) ->
  (done <> [] -> mx <> None) ->
  let res := fold_left (bi_step p) rest (idx, mx) in
  idx_ok (fst res) /\ (forall a, aget_list a (fst res) = filter (addr_is p a) (done ++ rest)) /\
  (done ++ rest = [] -> snd res = None) /\
  (forall m, snd res = Some m -> 0 <= m /\ (forall id u, In id (done ++ rest) -> pool_get p id = Some u -> ux_seq u <= m) /\
                             (m = 0 \/ exists id u, In id (done ++ rest) /\ pool_get p id = Some u /\ ux_seq u = m)) /\
  (done ++ rest <> [] -> snd res <> None).
Proof.
  induction rest as [|id r IH]; intros done idx mx Hin Hok Hg Hn Hm Hnn.
  - cbn [fold_left fst snd]. rewrite app_nil_r. cbv zeta. auto.
  - cbn [fold_left].
    assert (Hid : In id (map ux_id p)) by (apply Hin; apply in_app_iff; right; now left).
    destruct (pool_get p id) as [u|] eqn:Eg; [|apply pool_get_none in Eg; contradiction].
    assert (Estep : bi_step p (idx, mx) id =
                    (idx_add idx (ux_addr u) id,
                     Some (match mx with Some m => Z.max m (ux_seq u) | None => Z.max 0 (ux_seq u) end))).
    { unfold bi_step. now rewrite Eg. }
    rewrite Estep.
    replace (done ++ id :: r) with ((done ++ [id]) ++ r) by (now rewrite <- app_assoc).
    apply IH.
    + intros x Hx. apply Hin. rewrite <- app_assoc in Hx. exact Hx.
    + destruct Hok as [Hk He]. unfold idx_add. split; [now apply NoDup_akeys_aput|].
      intros a. destruct (Z.eq_dec a (ux_addr u)) as [->|Hne].
      * rewrite aget_aput_eq. destruct (aget_list (ux_addr u) idx); discriminate.
      * rewrite aget_aput_neq by exact Hne. apply He.
    + intros a. rewrite filter_app. cbn [filter]. unfold addr_is at 2. rewrite Eg. unfold idx_add.
      destruct (Z.eq_dec a (ux_addr u)) as [->|Hne].
      * rewrite aget_list_aput_eq, Hg, Z.eqb_refl. reflexivity.
      * rewrite aget_list_aput_neq by exact Hne. rewrite Hg.
        destruct (ux_addr u =? a) eqn:E; [lia|]. now rewrite app_nil_r.
    + intros H. destruct done; discriminate.
    + intros m Hmm. injection Hmm as Hmm.
      assert (Hcases : (mx = None /\ m = Z.max 0 (ux_seq u)) \/ (exists m0, mx = Some m0 /\ m = Z.max m0 (ux_seq u))).
      { destruct mx as [m0|]; [right; exists m0; auto | left; auto]. }
      destruct Hcases as [[Emx Em]|(m0 & Emx & Em)].
      * assert (done = []) by (destruct done; [reflexivity | exfalso; apply Hnn; [discriminate | exact Emx]]).
        subst done. cbn [app]. split; [lia|]. split.
        -- intros x v [<-|[]] Hv. rewrite Eg in Hv. injection Hv as <-. lia.
        -- destruct (Z_le_gt_dec (ux_seq u) 0) as [Hle|Hgt]; [left; lia|].
           right. exists id, u. split; [now left|]. split; [exact Eg | lia].
      * destruct (Hm m0 Emx) as (M0 & M1 & M2). split; [lia|]. split.
        -- intros x v Hx Hv. apply in_app_iff in Hx as [Hx|[<-|[]]].
           ++ pose proof (M1 x v Hx Hv). lia.
           ++ rewrite Eg in Hv. injection Hv as <-. lia.
        -- destruct (Z_le_gt_dec (ux_seq u) m0) as [Hle|Hgt].
           ++ replace m with m0 by lia. destruct M2 as [M2|(x & v & Hx & Hv & Hs)]; [now left|].
              right. exists x, v. split; [apply in_app_iff; now left | auto].
           ++ right. exists id, u. split; [apply in_app_iff; right; now left|]. split; [exact Eg | lia].
    + intros _. discriminate.
Qed.

Lemma None_neq_Some_nil (a : Z) : aget a (@nil (Z * list Z)) <> Some [].
Proof. cbn. discriminate. Qed.

Lemma build_index_agree c order :
  cinv c -> c <> [] -> Permutation order (map ux_id (utxo_of c)) ->
  let '(idx, mx) := build_index (utxo_of c) order in
  idx_ok idx /\ (forall a, Permutation (aget_list a idx) (addr_index_of c a)) /\ mx = Some (head_seq c).
Proof.
  intros Hc Hne Hperm. pose proof (utxo_ids_nodup c Hc) as Hnd.
  rewrite build_index_unfold.
  pose proof (bi_fold (utxo_of c) order [] [] None) as H. cbn [app] in H.
  assert (H' := H (fun id Hid => Permutation_in _ Hperm Hid)
                  (conj (NoDup_nil Z) (fun a => @None_neq_Some_nil a))
                  (fun a => eq_refl) (fun _ => eq_refl)
                  (fun m (Hm : None = Some m) => ltac:(discriminate))
                  (fun Hx : [] <> [] => ltac:(now contradiction Hx))).
  clear H. cbv zeta in H'. destruct H' as (Hok & Hg & Hn & Hm & Hnn).
  remember (fold_left (bi_step (utxo_of c)) order (@pair (amap (list Z)) (option Z) (@nil (Z * list Z)) (@None Z))) as res eqn:Eres in *.
  clear Eres. destruct res as [idx mx]. cbn [fst snd] in *.
  split; [exact Hok|]. split.
  - intros a. rewrite Hg. transitivity (filter (addr_is (utxo_of c) a) (map ux_id (utxo_of c))).
      { now apply Permutation_filter. }
      unfold addr_index_of. rewrite filter_map_comm. apply Permutation_refl'. f_equal.
      apply filter_ext_in'. intros u Hu. unfold addr_is. now rewrite (pool_get_unique _ u Hnd Hu).
  - destruct (ci_head_ux _ Hc Hne) as (u & Hu & Hs).
      assert (Hin : In (ux_id u) order).
      { apply (Permutation_in _ (Permutation_sym Hperm)). now apply in_map. }
      destruct mx as [m|]; [|exfalso; apply Hnn; [intros E; rewrite E in Hin; contradiction | reflexivity]].
      destruct (Hm m eq_refl) as (M0 & M1 & M2). f_equal.
      pose proof (M1 (ux_id u) u Hin (pool_get_unique _ u Hnd Hu)) as Hle.
      assert (Hub : m <= head_seq c).
      { destruct M2 as [->|(x & v & Hx & Hv & <-)].
        - pose proof (ci_seq_bound _ Hc u (utxo_sub_created c u Hu)). lia.
        - apply pool_get_in in Hv as [Hv _]. apply (ci_seq_bound _ Hc v). now apply utxo_sub_created. }
      lia.
Qed.

(* MaybeBuildIndexes on a file whose index bucket / height marker may have been damaged:
   the pool bucket and the checksum are intact; afterwards the state agrees with the chain *)
Lemma maybe_build_agree s c iw order :
  cinv c -> c <> [] -> uagree s c ->
  Permutation order (map ux_id (utxo_of c)) ->
  match iw with IdxKeep => True | IdxSet _ h => h <> Some (head_seq c) end ->
  uagree (maybe_build (wipe_idx iw s) (head_seq c) order) c.
Proof.
  intros Hc Hne Hag Hperm Hiw.
  assert (Hrebuild : forall g h, h <> Some (head_seq c) ->
            uagree (maybe_build (mk_us (u_pool s) g (u_xor s) h) (head_seq c) order) c).
  { intros g h Hh. destruct Hag as (Hpool & _ & _ & _ & Hxor & _).
    pose proof (build_index_agree c order Hc Hne Hperm) as B.
    unfold maybe_build. cbn [u_height u_pool u_xor]. rewrite Hpool.
    destruct (build_index (utxo_of c) order) as [idx mx]. destruct B as ((Bk & Be) & Bp & ->).
    assert (G : uagree (mk_us (utxo_of c) idx (u_xor s) (Some (head_seq c))) c).
    { unfold uagree. cbn [u_pool u_idx u_xor u_height]. repeat split; auto.
      unfold some_head. destruct c; [now contradiction Hne | reflexivity]. }
    destruct h as [h0|]; [|exact G].
    destruct (h0 =? head_seq c) eqn:E; [exfalso; apply Hh; f_equal; lia | exact G]. }
  destruct iw as [|g h]; cbn [wipe_idx].
  - (* untouched: the marker equals the head, nothing is rebuilt *)
    unfold maybe_build. destruct Hag as (Hpool & Hidx & Hk & He & Hxor & Hh).
    rewrite Hh. unfold some_head. destruct c as [|b0 c0]; [now contradiction Hne|].
    rewrite Z.eqb_refl. unfold uagree. repeat split; auto.
  - now apply Hrebuild.
Qed.
