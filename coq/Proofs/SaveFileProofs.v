(* Proofs for C20 (Model/SaveFile.v). *)
From Coq Require Import List String Ascii Bool ZArith Arith Lia.
From Sky Require Import Base.Uint Model.SaveFile.
Import ListNotations.
Open Scope nat_scope.

(* ------------------------------------------------------------ get/set/remove *)

Lemma get_set_same : forall n c d, get n (set n c d) = Some c.
Proof.
  induction d as [|[m x] r IH]; cbn.
  - now rewrite String.eqb_refl.
  - destruct (String.eqb m n) eqn:E; cbn; rewrite E; auto.
Qed.

Lemma get_set_other : forall n m c d, n <> m -> get m (set n c d) = get m d.
Proof.
  induction d as [|[k x] r IH]; cbn; intros Hne.
  - destruct (String.eqb n m) eqn:E; auto. apply String.eqb_eq in E. contradiction.
  - destruct (String.eqb k n) eqn:E; cbn.
    + apply String.eqb_eq in E. subst k.
      destruct (String.eqb n m) eqn:E2; auto. apply String.eqb_eq in E2. contradiction.
    + destruct (String.eqb k m); auto.
Qed.

Lemma get_remove_same : forall n d, get n (remove n d) = None.
Proof.
  induction d as [|[k x] r IH]; cbn; auto.
  destruct (String.eqb k n) eqn:E; cbn; auto. rewrite E. auto.
Qed.

Lemma get_remove_other : forall n m d, n <> m -> get m (remove n d) = get m d.
Proof.
  induction d as [|[k x] r IH]; cbn; intros Hne; auto.
  destruct (String.eqb k n) eqn:E; cbn.
  - apply String.eqb_eq in E. subst k.
    destruct (String.eqb n m) eqn:E2; auto. apply String.eqb_eq in E2. contradiction.
  - destruct (String.eqb k m); auto.
Qed.

(* ------------------------------------------------------------ visible files *)

Section Vis.
  Variable P : string -> bool.

  Lemma vis_set_hidden : forall t c d, P t = false -> vis P (set t c d) = vis P d.
  Proof.
    unfold vis. induction d as [|[k x] r IH]; cbn; intros Ht.
    - now rewrite Ht.
    - destruct (String.eqb k t) eqn:E; cbn.
      + apply String.eqb_eq in E. subst k. now rewrite Ht.
      + rewrite IH; auto.
  Qed.

  Lemma vis_remove_hidden : forall t d, P t = false -> vis P (remove t d) = vis P d.
  Proof.
    unfold vis. induction d as [|[k x] r IH]; cbn; intros Ht; auto.
    destruct (String.eqb k t) eqn:E; cbn.
    - apply String.eqb_eq in E. subst k. rewrite Ht. auto.
    - rewrite IH; auto.
  Qed.

  (* a hidden file created earlier does not change where a later file lands *)
  Lemma vis_set_after_hidden : forall t c' n c d, P t = false -> t <> n ->
    vis P (set n c (set t c' d)) = vis P (set n c d).
  Proof.
    unfold vis. induction d as [|[k x] r IH]; cbn; intros Ht Hne.
    - destruct (String.eqb t n) eqn:E.
      + apply String.eqb_eq in E. contradiction.
      + cbn. now rewrite Ht.
    - destruct (String.eqb k t) eqn:Ekt.
      + apply String.eqb_eq in Ekt. subst k. cbn.
        destruct (String.eqb t n) eqn:E.
        * apply String.eqb_eq in E. contradiction.
        * cbn. now rewrite Ht.
      + cbn. destruct (String.eqb k n) eqn:Ekn; cbn.
        * destruct (P k); [f_equal|]; apply (vis_set_hidden t c' r Ht).
        * rewrite IH; auto.
  Qed.
End Vis.

(* ------------------------------------------------------------ names *)

Lemma length_append : forall a b, String.length (a ++ b)%string = String.length a + String.length b.
Proof. induction a as [|c a IH]; cbn; intros; auto. Qed.

Lemma string_app_assoc : forall a b c, ((a ++ b) ++ c = a ++ (b ++ c))%string.
Proof. induction a as [|x a IH]; cbn; intros; auto. now rewrite IH. Qed.

Lemma eqb_length : forall a b, String.eqb a b = true -> String.length a = String.length b.
Proof. intros a b E. apply String.eqb_eq in E. now subst. Qed.

Lemma tmp_name_neq : forall name h, tmp_name name h <> name.
Proof.
  intros name h E. apply (f_equal String.length) in E. unfold tmp_name in E.
  rewrite !length_append in E. cbn in E. lia.
Qed.

(* a suffix not longer than h that does not end h does not end x ++ h either *)
Lemma suffixb_app_false : forall suf h, String.length suf <= String.length h ->
  suffixb suf h = false -> forall x, suffixb suf (x ++ h)%string = false.
Proof.
  intros suf h Hlen Hh. induction x as [|c x IH]; cbn; auto.
  rewrite IH. rewrite orb_false_r.
  destruct (String.eqb suf (String c (x ++ h)%string)) eqn:E; auto.
  apply eqb_length in E. cbn in E. rewrite length_append in E. lia.
Qed.

Lemma suffixb_true : forall suf s, suffixb suf s = true -> exists p, s = (p ++ suf)%string.
Proof.
  intros suf. induction s as [|c s IH]; cbn; intros H.
  - apply String.eqb_eq in H. subst suf. now exists EmptyString.
  - apply orb_prop in H. destruct H as [H|H].
    + apply String.eqb_eq in H. subst suf. now exists EmptyString.
    + destruct (IH H) as [p E]. exists (String c p). cbn. now rewrite E.
Qed.

Lemma all_chars_app : forall p a b, all_chars p (a ++ b)%string = all_chars p a && all_chars p b.
Proof. induction a as [|c a IH]; cbn; intros; auto. rewrite IH. now rewrite andb_assoc. Qed.

(* a suffix containing a character that is not a hex digit does not end a hex string *)
Lemma hex_suffix_false : forall suf h, all_chars is_hex suf = false -> hex8b h = true -> suffixb suf h = false.
Proof.
  intros suf h Hs H. destruct (suffixb suf h) eqn:E; auto.
  destruct (suffixb_true _ _ E) as [p Ep]. subst h.
  unfold hex8b in H. apply andb_prop in H. destruct H as [_ Hc].
  rewrite all_chars_app, Hs, andb_false_r in Hc. discriminate.
Qed.

Lemma wlt_suffix_hex8 : forall h, hex8b h = true -> suffixb "wlt" h = false.
Proof. intros. apply hex_suffix_false; auto. Qed.

Lemma bak_suffix_hex8 : forall h, hex8b h = true -> suffixb ".wlt.bak" h = false.
Proof. intros. apply hex_suffix_false; auto. Qed.

(* the tmp file of a save is never one of the files the wallet service reads *)
Lemma tmp_not_visible : forall name h, hex8b h = true -> wlt_visible (tmp_name name h) = false.
Proof.
  intros name h H. unfold wlt_visible, tmp_name.
  assert (L : String.length h = 8).
  { unfold hex8b in H. apply andb_prop in H. destruct H as [Hl _]. now apply Nat.eqb_eq in Hl. }
  rewrite <- !string_app_assoc.
  rewrite (suffixb_app_false "wlt" h), (suffixb_app_false ".wlt.bak" h); auto.
  - rewrite L. cbn. lia.
  - now apply bak_suffix_hex8.
  - rewrite L. cbn. lia.
  - now apply wlt_suffix_hex8.
Qed.

(* ------------------------------------------------------------ the crash theorem *)

(* every crash state of a save has one of three shapes *)
Lemma crash_states : forall w name h data d k cut,
  let t := tmp_name name h in
  let c := crash (service_ops w name h data) k cut d in
  c = d \/ (exists x, c = set t x (set t [] d)) \/
  c = remove t (set name data (set t data (set t [] d))).
Proof.
  intros w name h data d k cut t c. subst c.
  assert (G1 : get t (set t [] d) = Some []) by apply get_set_same.
  assert (G2 : forall x, get t (set t x (set t [] d)) = Some x) by (intros; apply get_set_same).
  unfold service_ops, save_ops. fold t.
  assert (F : forall k, crash [OCreate t; OWrite t data; OFsync t; ORename t name] k cut d = d \/
     (exists x, crash [OCreate t; OWrite t data; OFsync t; ORename t name] k cut d = set t x (set t [] d)) \/
     crash [OCreate t; OWrite t data; OFsync t; ORename t name] k cut d = remove t (set name data (set t data (set t [] d)))).
  { intros k0. destruct k0 as [|[|[|[|k0]]]]; unfold crash; cbn [firstn nth_error run fold_left apply].
    - left; reflexivity.
    - right; left. rewrite G1. cbn [app]. eexists; reflexivity.
    - right; left. rewrite G1. cbn [app]. eexists; reflexivity.
    - right; left. rewrite G1. cbn [app]. eexists; reflexivity.
    - right; right. rewrite G1. cbn [app]. rewrite G2.
      destruct k0; cbn [firstn nth_error fold_left]; reflexivity. }
  destruct w; cbn [app].
  - destruct k as [|k].
    + left. reflexivity.
    + replace (crash (OOpenW name :: [OCreate t; OWrite t data; OFsync t; ORename t name]) (S k) cut d)
        with (crash [OCreate t; OWrite t data; OFsync t; ORename t name] k cut d) by reflexivity.
      apply F.
  - apply F.
Qed.

(* the states a crash during [service_ops] can leave, as far as a reader that
   does not look at the tmp file can tell: the old directory or the new one *)
Lemma crash_vis : forall (P : string -> bool) w name h data d k cut,
  P (tmp_name name h) = false ->
  vis P (crash (service_ops w name h data) k cut d) = vis P d \/
  vis P (crash (service_ops w name h data) k cut d) = vis P (set name data d).
Proof.
  intros P w name h data d k cut Ht.
  pose proof (tmp_name_neq name h) as Hne.
  destruct (crash_states w name h data d k cut) as [E|[[x E]|E]]; rewrite E.
  - now left.
  - left. rewrite !vis_set_hidden; auto.
  - right. rewrite vis_remove_hidden; auto.
    rewrite (vis_set_after_hidden P (tmp_name name h) data name data (set (tmp_name name h) [] d)); auto.
    rewrite (vis_set_after_hidden P (tmp_name name h) [] name data d); auto.
Qed.

(* the same for a single file looked up by name (kv storage, and any file
   other than the tmp file) *)
Lemma crash_get : forall w name h data d k cut m,
  m <> tmp_name name h ->
  get m (crash (service_ops w name h data) k cut d) = get m d \/
  get m (crash (service_ops w name h data) k cut d) = get m (set name data d).
Proof.
  intros w name h data d k cut m Hm.
  pose proof (tmp_name_neq name h) as Hne.
  assert (Hm' : tmp_name name h <> m) by congruence.
  destruct (crash_states w name h data d k cut) as [E|[[x E]|E]]; rewrite E.
  - now left.
  - left. rewrite !get_set_other; auto.
  - right. rewrite get_remove_other; auto.
    destruct (String.eqb name m) eqn:En.
    + apply String.eqb_eq in En. subst m. now rewrite !get_set_same.
    + assert (name <> m) by (intro; subst; rewrite String.eqb_refl in En; discriminate).
      rewrite !(get_set_other name m); auto. rewrite !get_set_other; auto.
Qed.

(* files other than the target and the tmp file are never touched *)
Lemma crash_other_files : forall w name h data d k cut m,
  m <> tmp_name name h -> m <> name ->
  get m (crash (service_ops w name h data) k cut d) = get m d.
Proof.
  intros w name h data d k cut m Hm Hn.
  destruct (crash_get w name h data d k cut m Hm) as [E|E]; rewrite E; auto.
  apply get_set_other. congruence.
Qed.

(* ------------------------------------------------------------ loaders *)

Section WalletSafe.
  Variable W : Type.
  Variable parse : content -> parsed W.
  Variable meta_ok : content -> bool.
  Variable accept : list (string * W) -> bool.
  Let start := wallet_start W parse meta_ok accept.

  Lemma wallet_crash_safe : forall w name h data d k cut,
    hex8b h = true ->
    let c := crash (service_ops w name h data) k cut d in
    start c = start d \/ start c = start (set name data d).
  Proof.
    intros w name h data d k cut Hh c. unfold start, wallet_start.
    destruct (crash_vis wlt_visible w name h data d k cut (tmp_not_visible name h Hh)) as [E|E];
      fold c in E; rewrite E; auto.
  Qed.

  Lemma wallet_crash_starts : forall w name h data d k cut,
    hex8b h = true ->
    start d <> Abort -> start (set name data d) <> Abort ->
    start (crash (service_ops w name h data) k cut d) <> Abort.
  Proof.
    intros w name h data d k cut Hh Ho Hn.
    destruct (wallet_crash_safe w name h data d k cut Hh) as [E|E]; rewrite E; auto.
  Qed.
End WalletSafe.

Section KvSafe.
  Variable K : Type.
  Variable parsekv : content -> option K.
  Let start := kv_start K parsekv.

  Lemma kv_crash_safe : forall name h data d k cut,
    let c := crash (service_ops false name h data) k cut d in
    start name c = start name d \/ start name c = start name (set name data d).
  Proof.
    intros name h data d k cut c. unfold start, kv_start.
    assert (Hne : name <> tmp_name name h) by (intro E; symmetry in E; revert E; apply tmp_name_neq).
    destruct (crash_get false name h data d k cut name Hne) as [E|E]; fold c in E; rewrite E; auto.
  Qed.

  (* no reset to empty: if the old file (when there is one) and the new content
     parse, the storage is never declared corrupt *)
  Lemma kv_crash_no_reset : forall name h data d k cut,
    start name d <> KvResetCorrupt -> parsekv data <> None ->
    start name (crash (service_ops false name h data) k cut d) <> KvResetCorrupt.
  Proof.
    intros name h data d k cut Ho Hn.
    destruct (kv_crash_safe name h data d k cut) as [E|E]; rewrite E; auto.
    unfold start, kv_start. rewrite get_set_same. destruct (parsekv data); congruence.
  Qed.
End KvSafe.

(* ------------------------------------------------------------ file names of any length *)

Lemma crash_noop_prefix : forall (w : bool) (name : string) (k cut : nat) (d : dir),
  crash (if w then [OOpenW name] else []) k cut d = d.
Proof.
  intros w name k cut d. destruct w; unfold crash.
  - destruct k as [|[|k]]; reflexivity.
  - destruct k; reflexivity.
Qed.

Section AllNames.
  Variable W : Type.
  Variable parse : content -> parsed W.
  Variable meta_ok : content -> bool.
  Variable accept : list (string * W) -> bool.

  Lemma wallet_crash_safe_fs : forall w name h data d k cut,
    hex8b h = true ->
    let start := wallet_start W parse meta_ok accept in
    let c := crash (service_ops_fs w name h data) k cut d in
    start c = start d \/ start c = start (set name data d).
  Proof.
    intros w name h data d k cut Hh start c. subst c. unfold service_ops_fs.
    destruct (tmp_creatable name).
    - now apply wallet_crash_safe.
    - left. now rewrite crash_noop_prefix.
  Qed.

  (* when the tmp file cannot be created the save changes nothing at all *)
  Lemma long_name_save_is_noop : forall w name h data d k cut,
    tmp_creatable name = false -> crash (service_ops_fs w name h data) k cut d = d.
  Proof.
    intros w name h data d k cut H. unfold service_ops_fs. rewrite H. apply crash_noop_prefix.
  Qed.
End AllNames.

Lemma kv_crash_safe_fs : forall (K : Type) (parsekv : content -> option K) name h data d k cut,
  let c := crash (service_ops_fs false name h data) k cut d in
  kv_start K parsekv name c = kv_start K parsekv name d \/
  kv_start K parsekv name c = kv_start K parsekv name (set name data d).
Proof.
  intros K parsekv name h data d k cut c. subst c. unfold service_ops_fs.
  destruct (tmp_creatable name).
  - now apply kv_crash_safe.
  - left. change (@nil op) with (if false then [OOpenW name] else @nil op).
    now rewrite crash_noop_prefix.
Qed.

(* ------------------------------------------------------------ the unchanged tree is refuted *)

Definition ex_old : content := [123; 49; 125]%Z.       (* {1} *)
Definition ex_new : content := [123; 50; 50; 125]%Z.   (* {22} *)
Definition ex_dir : dir := [("a.wlt"%string, ex_old); ("b.wlt"%string, [123; 125]%Z)].
Definition ex_parse := parse_known [ex_old; ex_new; [123; 125]%Z].

Lemma v0_not_crash_safe :
  exists k cut,
    let c := crash (service_ops_v0 false "a.wlt" "57a94cad" ex_new) k cut ex_dir in
    wallet_start content ex_parse (fun _ => true) (fun _ => true) c = Abort /\
    kv_start content (parsekv_known [ex_old; ex_new]) "a.wlt" c = KvResetCorrupt.
Proof. exists 3, 2. vm_compute. split; reflexivity. Qed.

(* IsWritable of the unchanged tree: the wallet file is emptied before any copy exists *)
Lemma v0_iswritable_loses_data :
  let c := crash (service_ops_v0 true "a.wlt" "57a94cad" ex_new) 1 0 ex_dir in
  get "a.wlt" c = Some [] /\ get (tmp_name "a.wlt" "57a94cad") c = None.
Proof. vm_compute. split; reflexivity. Qed.

(* non-vacuity: a concrete crash state of the fixed save, in the middle of the tmp write *)
Lemma fixed_example :
  let c := crash (service_ops true "a.wlt" "57a94cad" ex_new) 2 3 ex_dir in
  get (tmp_name "a.wlt" "57a94cad") c = Some [123; 50; 50]%Z /\
  hex8b "57a94cad" = true /\
  wallet_start content ex_parse (fun _ => true) (fun _ => true) c =
    Started [("a.wlt"%string, ex_old); ("b.wlt"%string, [123; 125]%Z)] /\
  wallet_start content ex_parse (fun _ => true) (fun _ => true)
    (crash (service_ops true "a.wlt" "57a94cad" ex_new) 5 0 ex_dir) =
    Started [("a.wlt"%string, ex_new); ("b.wlt"%string, [123; 125]%Z)].
Proof. vm_compute. repeat split; reflexivity. Qed.
