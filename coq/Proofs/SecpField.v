(* Proofs/SecpField.v — F_p as a field on Z with equality "congruent modulo p":
   under the premise `prime p` the operations of Model/Secp.v (fadd, fmul, fsub,
   fneg, finv, fdiv) form a field, registered with the `field` tactic inside the
   Section (so every lemma exported from here carries the premise `prime p`). *)
From Coq Require Import ZArith Lia Znumtheory Ring Field Setoid Morphisms.
From Sky Require Import Model.Secp Proofs.SecpProofs.
Open Scope Z_scope.

Definition feq (a b : Z) : Prop := a mod p = b mod p.

#[global] Instance feq_equiv : Equivalence feq.
  Proof. split; unfold feq; [intros x; reflexivity | intros x y H; now symmetry | intros x y z H1 H2; congruence]. Qed.

#[global] Instance fadd_proper : Proper (feq ==> feq ==> feq) fadd.
  Proof. intros a b H c d H2. unfold feq, fadd in *. rewrite !Zmod_mod. rewrite (Zplus_mod a c), (Zplus_mod b d), H, H2. reflexivity. Qed.
#[global] Instance fmul_proper : Proper (feq ==> feq ==> feq) fmul.
  Proof. intros a b H c d H2. unfold feq, fmul in *. rewrite !Zmod_mod. rewrite (Zmult_mod a c), (Zmult_mod b d), H, H2. reflexivity. Qed.
#[global] Instance fsub_proper : Proper (feq ==> feq ==> feq) fsub.
  Proof. intros a b H c d H2. unfold feq, fsub in *. rewrite !Zmod_mod. rewrite (Zminus_mod a c), (Zminus_mod b d), H, H2. reflexivity. Qed.
#[global] Instance fneg_proper : Proper (feq ==> feq) fneg.
  Proof. intros a b H. unfold feq, fneg in *. rewrite !Zmod_mod.
    rewrite <- (Z.sub_0_l a), <- (Z.sub_0_l b), (Zminus_mod 0 a), (Zminus_mod 0 b), H. reflexivity. Qed.
#[global] Instance finv_proper : Proper (feq ==> feq) finv.
  Proof. intros a b H. unfold feq in H. unfold finv. rewrite <- (modinv_mod a), <- (modinv_mod b), H. reflexivity. Qed.

  Lemma Fp_ring : ring_theory 0 1 fadd fmul fsub fneg feq.
  Proof.
    split; intros; unfold feq, fadd, fmul, fsub, fneg;
      rewrite ?Zmod_mod, ?Zplus_mod_idemp_l, ?Zplus_mod_idemp_r, ?Zmult_mod_idemp_l, ?Zmult_mod_idemp_r,
        ?Zminus_mod_idemp_l, ?Zminus_mod_idemp_r; try (f_equal; ring).
  Qed.

  Lemma Fp_ext : ring_eq_ext fadd fmul fneg feq.
  Proof. split; [exact fadd_proper | exact fmul_proper | exact fneg_proper]. Qed.

  Lemma Fp_morph : ring_morph 0 1 fadd fmul fsub fneg feq 0 1 Z.add Z.mul Z.sub Z.opp Z.eqb (fun x => x).
  Proof.
    split; intros; unfold feq, fadd, fmul, fsub, fneg; rewrite ?Zmod_mod; try reflexivity.
    apply Z.eqb_eq in H. now subst.
  Qed.

  Lemma feq_0 a : feq a 0 <-> a mod p = 0.
  Proof. unfold feq. rewrite Zmod_0_l. reflexivity. Qed.

Section FpField.
  Hypothesis prime_p : prime p.

  Lemma finv_l a : ~ feq a 0 -> feq (fmul (finv a) a) 1.
  Proof.
    intros Ha. rewrite feq_0 in Ha.
    destruct (modinv_prime a p prime_p p_lt_256 Ha) as (x & Hx & Hm & Hr).
    unfold finv. rewrite Hx. unfold feq, fmul. rewrite Zmod_mod, Z.mul_comm. rewrite Hm. reflexivity.
  Qed.

  Lemma Fp_field : field_theory 0 1 fadd fmul fsub fneg fdiv finv feq.
  Proof.
    split.
    - exact Fp_ring.
    - unfold feq. intro H. vm_compute in H. discriminate.
    - intros a b. reflexivity.
    - exact finv_l.
  Qed.

  Add Field FpF : Fp_field (setoid feq_equiv Fp_ext, morphism Fp_morph, constants [Zcst]).

  (* ---- consequences used by the curve proofs *)

  Lemma feq_mod a : feq (a mod p) a.
  Proof. unfold feq. apply Zmod_mod. Qed.

  (* canonical representatives: congruent field elements are equal *)
  Lemma feq_eq a b : in_field a = true -> in_field b = true -> feq a b -> a = b.
  Proof.
    unfold in_field, feq. intros Ha Hb H.
    rewrite (Z.mod_small a p), (Z.mod_small b p) in H; lia.
  Qed.

  Lemma eqb_feq a b : (a =? b) = true -> feq a b.
  Proof. intros H. apply Z.eqb_eq in H. now subst. Qed.

  Lemma eqb_false_nfeq a b : in_field a = true -> in_field b = true -> (a =? b) = false -> ~ feq a b.
  Proof. intros Ha Hb H E. apply (feq_eq a b Ha Hb) in E. apply Z.eqb_neq in H. contradiction. Qed.

  Lemma nfeq_eqb_false a b : ~ feq a b -> (a =? b) = false.
  Proof. intros H. apply Z.eqb_neq. intros ->. apply H. reflexivity. Qed.

  (* integral domain *)
  Lemma fmul_zero a b : feq (fmul a b) 0 -> feq a 0 \/ feq b 0.
  Proof.
    rewrite !feq_0. unfold fmul. rewrite Zmod_mod. intros H.
    apply Zmod_divide in H; [|intro; discriminate].
    apply prime_mult in H; [|exact prime_p].
    destruct H as [H|H]; [left|right]; apply Zdivide_mod; exact H.
  Qed.

  Lemma fmul_nonzero a b : ~ feq a 0 -> ~ feq b 0 -> ~ feq (fmul a b) 0.
  Proof. intros Ha Hb H. apply fmul_zero in H. tauto. Qed.

  Lemma small_nonzero c : 0 < c < p -> ~ feq c 0.
  Proof. intros Hc. rewrite feq_0. rewrite Z.mod_small; lia. Qed.

  Lemma two_nonzero : ~ feq 2 0.
  Proof. apply small_nonzero. split; reflexivity. Qed.
  Lemma three_nonzero : ~ feq 3 0.
  Proof. apply small_nonzero. split; reflexivity. Qed.

  Lemma finv_nonzero a : ~ feq a 0 -> ~ feq (finv a) 0.
  Proof.
    intros Ha H. pose proof (finv_l a Ha) as H1. rewrite H in H1.
    assert (E : feq (fmul 0 a) 0) by ring. rewrite E in H1.
    unfold feq in H1. vm_compute in H1. discriminate.
  Qed.

  Lemma in_field_nonzero a : in_field a = true -> (a =? 0) = false -> ~ feq a 0.
  Proof. intros Ha H. apply eqb_false_nfeq; [exact Ha|reflexivity|exact H]. Qed.

  (* a square root of the same value is the number or its opposite *)
  Lemma fsquare_eq a b : feq (fmul a a) (fmul b b) -> feq a b \/ feq a (fneg b).
  Proof.
    intros H.
    assert (E : feq (fmul (fsub a b) (fadd a b)) 0).
    { assert (E1 : feq (fmul (fsub a b) (fadd a b)) (fsub (fmul a a) (fmul b b))) by ring.
      rewrite E1, H. ring. }
    apply fmul_zero in E. destruct E as [E|E]; [left|right].
    - assert (E1 : feq a (fadd (fsub a b) b)) by ring. rewrite E1, E. ring.
    - assert (E1 : feq a (fsub (fadd a b) b)) by ring. rewrite E1, E. ring.
  Qed.
End FpField.
