(* Proofs/LedgerAppend.v — C04: a block is appended only if it correctly extends
   the signed chain; rejected blocks change nothing; the chain stays linked. *)
From Sky Require Import Base.Uint Model.Ledger Model.LedgerSpec Model.LedgerObs Model.LedgerReplay
  Proofs.LedgerBasics Proofs.LedgerProofs.
From Coq Require Import Lia ZifyBool Permutation.
Open Scope Z_scope.

Lemma verify_header_inv head b : verify_header head b = Pass ->
  h_seq (b_head b) = wrap 64 (h_seq (b_head head) + 1) /\
  h_time (b_head head) < h_time (b_head b) /\
  h_prev (b_head b) = b_hash head /\
  b_body_actual b = h_body (b_head b).
Proof.
  unfold verify_header. intros H. chk_split H.
  apply guard_pass in Hc, Hc0, Hc1, H. repeat split; lia.
Qed.
Lemma verify_header_intro head b :
  h_seq (b_head b) = wrap 64 (h_seq (b_head head) + 1) ->
  h_time (b_head head) < h_time (b_head b) ->
  h_prev (b_head b) = b_hash head ->
  b_body_actual b = h_body (b_head b) ->
  verify_header head b = Pass.
Proof.
  intros H1 H2 H3 H4. unfold verify_header, guard.
  replace (h_seq (b_head b) =? wrap 64 (h_seq (b_head head) + 1)) with true by lia.
  replace (negb (h_time (b_head b) <=? h_time (b_head head))) with true by lia.
  replace (h_prev (b_head b) =? b_hash head) with true by lia.
  replace (b_body_actual b =? h_body (b_head b)) with true by lia.
  reflexivity.
Qed.

Lemma not_genesis_iff c h :
  eqb_option Z.eqb (option_map b_hash (genesis_of c)) (Some h) = false <->
  (forall g, genesis_of c = Some g -> b_hash g <> h).
Proof.
  destruct (genesis_of c) as [g|]; cbn [option_map eqb_option].
  - split.
    + intros H g' Hg'. inversion Hg'; subst. lia.
    + intros H. specialize (H g eq_refl). lia.
  - split; [intros _ g H; discriminate|reflexivity].
Qed.

(* append_sound: everything an accepted block satisfies; the block is stored as submitted *)
Lemma append_sound s b s' : step s (ExecBlock b) = (s', Accepted) ->
  exists head rest,
    chain s = head :: rest /\
    b_sig_ok b = true /\
    h_seq (b_head b) = wrap 64 (h_seq (b_head head) + 1) /\
    h_time (b_head head) < h_time (b_head b) /\
    h_prev (b_head b) = b_hash head /\
    b_body_actual b = h_body (b_head b) /\
    h_uxhash (b_head b) = xorsum s /\
    (forall g, genesis_of (chain s) = Some g -> b_hash g <> b_hash b) /\
    ~ In (b_hash b) (map b_hash (chain s)) /\
    process_txns (utxo s) head (b_txns b) = Pass /\
    chain s' = b :: chain s.
Proof.
  cbn [step]. intros He.
  destruct (exec_accept_inv _ _ _ He) as [head [rest [spent [Ec [Hs [Hgen [Hh [Hp [Hx [Hn [Hg [Hi Es]]]]]]]]]]]].
  destruct (verify_header_inv _ _ Hh) as [V1 [V2 [V3 V4]]].
  exists head, rest. subst s'. cbn [apply_block chain].
  repeat split; try assumption. apply not_genesis_iff. assumption.
Qed.

Lemma reject_noop s o s' out : step s o = (s', out) -> out <> Accepted -> s' = s.
Proof. destruct o as [b]. cbn [step]. apply exec_reject_noop. Qed.

Lemma second_genesis_refused s b g : genesis_of (chain s) = Some g -> b_hash b = b_hash g ->
  snd (step s (ExecBlock b)) <> Accepted.
Proof.
  intros Hg Hh He. destruct (step s (ExecBlock b)) as [s' o] eqn:E. cbn [snd] in He. subst o.
  destruct (append_sound _ _ _ E) as [head [rest [_ [_ [_ [_ [_ [_ [_ [Hn _]]]]]]]]]].
  exact (Hn g Hg (eq_sym Hh)).
Qed.
Lemma second_genesis_error s b g head rest : chain s = head :: rest ->
  genesis_of (chain s) = Some g -> b_hash b = b_hash g -> b_sig_ok b = true ->
  step s (ExecBlock b) = (s, Rejected EGenesis).
Proof.
  intros Ec Hg Hh Hs. cbn [step]. unfold exec_block. rewrite Ec. cbv zeta. rewrite <- Ec, Hg, Hs.
  cbn [option_map eqb_option guard andthen]. rewrite Hh, Z.eqb_refl. reflexivity.
Qed.

(* append_complete: the checks listed in append_sound are all there is *)
Lemma get_array_all pool head ts :
  Forall (fun t => block_txn_constraints pool head t = Pass) ts ->
  exists spent, get_array (all_ins ts) pool = Some spent.
Proof.
  induction ts as [|t r IH]; cbn [all_ins flat_map]; intros H.
  - exists []. reflexivity.
  - inversion H as [|? ? H1 H2]; subst. destruct (IH H2) as [sp Hsp].
    destruct (block_txn_inv0 _ _ _ H1) as [uxin [G _]].
    exists (uxin ++ sp). apply get_array_app_intro; assumption.
Qed.
Lemma append_complete s b head rest :
  chain s = head :: rest ->
  b_sig_ok b = true ->
  (forall g, genesis_of (chain s) = Some g -> b_hash g <> b_hash b) ->
  h_seq (b_head b) = wrap 64 (h_seq (b_head head) + 1) ->
  h_time (b_head head) < h_time (b_head b) ->
  h_prev (b_head b) = b_hash head ->
  b_body_actual b = h_body (b_head b) ->
  process_txns (utxo s) head (b_txns b) = Pass ->
  h_uxhash (b_head b) = xorsum s ->
  ~ In (b_hash b) (map b_hash (chain s)) ->
  exists s', step s (ExecBlock b) = (s', Accepted).
Proof.
  intros Ec Hs Hgen H1 H2 H3 H4 Hp Hx Hn.
  destruct (process_txns_inv _ _ _ Hp) as [_ [P1 [P2 [P3 P4]]]].
  destruct (get_array_all _ _ _ P1) as [spent Hg].
  assert (Hio : insert_ok s b = true).
  { unfold insert_ok. apply forallb_forall. intros u Hu. apply Bool.negb_true_iff. apply memZ_false.
    intros Hin. apply in_ids_filter in Hin. rewrite Forall_forall in P3. apply (P3 (u_id u)); [|assumption].
    rewrite <- created_ids_eq. apply in_map. assumption. }
  exists (apply_block s b spent). cbn [step]. unfold exec_block. rewrite Ec. cbv zeta. rewrite <- Ec.
  rewrite Hs, (proj2 (not_genesis_iff _ _) Hgen), (verify_header_intro _ _ H1 H2 H3 H4), Hp.
  replace (h_uxhash (b_head b) =? xorsum s) with true by lia.
  apply memZ_false in Hn. rewrite Hn. cbn [guard negb andthen]. rewrite Hg.
  fold (insert_ok s b). rewrite Hio. reflexivity.
Qed.

(* ---- the stored chain stays a signed, linked chain ending in the genesis block *)
Definition inv_chain (g : block) (s : state) : Prop :=
  linked (chain s) /\ genesis_of (chain s) = Some g /\ chain s <> [].

Lemma genesis_of_cons b c : c <> [] -> genesis_of (b :: c) = genesis_of c.
Proof. unfold genesis_of. destruct c as [|x r]; [congruence|reflexivity]. Qed.

Lemma exec_preserves_chain g s b s' :
  exec_block s b = (s', Accepted) -> inv_chain g s -> inv_chain g s'.
Proof.
  intros He [L [G N]].
  assert (Hst : step s (ExecBlock b) = (s', Accepted)) by exact He.
  destruct (append_sound _ _ _ Hst) as [head [rest [Ec [A1 [A2 [A3 [A4 [A5 [_ [_ [_ [_ Es]]]]]]]]]]]].
  unfold inv_chain. rewrite Es. repeat split.
  - rewrite Ec in *. change (extends head b /\ linked (head :: rest)). split; [unfold extends; repeat split; assumption|exact L].
  - rewrite genesis_of_cons; assumption.
  - discriminate.
Qed.

Lemma chain_linked g ops :
  let s := run (init_state g) ops in
  linked (chain s) /\ genesis_of (chain s) = Some g.
Proof.
  intros s.
  assert (H : inv_chain g s).
  { apply (run_invariant (inv_chain g) (fun _ => True)).
    - intros s0 b s' He _ Hs. exact (exec_preserves_chain _ _ _ _ He Hs).
    - unfold inv_chain, init_state. cbn [chain linked genesis_of map last]. repeat split. discriminate.
    - apply Forall_forall. intros; exact I. }
  destruct H as [L [G _]]. split; assumption.
Qed.

(* ---- exec_block is exactly the sequence of the pieces the projected
   correspondences (Model/LedgerReplay.v) compare with the implementation *)
Lemma andthen_assoc a b c : (a ;; b) ;; c = a ;; (b ;; c).
Proof. destruct a; reflexivity. Qed.

Lemma exec_block_pieces s b : exec_block s b =
  match chain s with
  | [] => (s, Rejected EOther)
  | head :: _ =>
      match hdr_pre s head b ;; process_txns (utxo s) head (b_txns b) ;; hdr_post s b with
      | Fail e => (s, Rejected e)
      | Boom => (s, Crashed)
      | Pass =>
          match get_array (all_ins (b_txns b)) (utxo s) with
          | None => (s, Rejected EUnspentMissing)
          | Some spent =>
              if insert_okb s b then (apply_block s b spent, Accepted) else (s, Rejected EInsertTwice)
          end
      end
  end.
Proof.
  unfold exec_block, hdr_pre, hdr_post, insert_okb.
  destruct (chain s) as [|head rest]; [reflexivity|]. cbv zeta.
  rewrite !andthen_assoc. reflexivity.
Qed.

(* ---- start-up: the genesis block is appended only with a verifying signature *)
Lemma start_needs_signature g s : start_node g = Some s -> b_sig_ok g = true /\ s = init_state g.
Proof. unfold start_node. destruct (b_sig_ok g); intros H; inversion H; auto. Qed.
Lemma start_refused g : b_sig_ok g = false -> start_node g = None.
Proof. unfold start_node. intros H. rewrite H. reflexivity. Qed.
