(* Proofs about the coin-hour rules (Model/Hours.v over the regenerated
   Gen/CoinHours.v, Gen/Mathutil.v) — property C03. *)
From Sky Require Import Base.Uint Model.ArithSpec Model.HoursSpec Model.Hours
  Gen.Mathutil Gen.CoinHours Proofs.UintLemmas Proofs.MathutilProofs Proofs.CoinHoursProofs.
From Coq Require Import Lia ZifyBool.
Open Scope Z_scope.

(* ---- generalities *)

Lemma sumZ_nonneg {A} (f : A -> Z) l : (forall x, In x l -> 0 <= f x) -> 0 <= sumZ f l.
Proof.
  induction l as [|a l IH]; cbn [sumZ fold_right]; intros H; [lia|].
  pose proof (H a (or_introl eq_refl)). fold (sumZ f l).
  assert (0 <= sumZ f l) by (apply IH; intros x Hx; apply H; right; exact Hx). lia.
Qed.

Lemma sumZ_cons {A} (f : A -> Z) a l : sumZ f (a :: l) = f a + sumZ f l.
Proof. reflexivity. Qed.

Lemma earned_nonneg c d : 0 <= c -> 0 <= d -> 0 <= earned c d.
Proof. intros. unfold earned. apply Z.div_pos; nia. Qed.

Lemma acc_hours_nonneg T i : wf_in i -> in_u 64 T -> 0 <= acc_hours T i.
Proof.
  unfold wf_in, in_u, acc_hours. intros (Ht & Hc & Hh) HT.
  destruct (T <? i_time i) eqn:E; [lia|].
  pose proof (earned_nonneg (i_coins i) (T - i_time i)). lia.
Qed.

Lemma eff_hours_range T i : wf_in i -> in_u 64 T -> 0 <= eff_hours T i < 2 ^ 64.
Proof.
  intros Hw HT. pose proof (acc_hours_nonneg T i Hw HT). unfold eff_hours.
  destruct (acc_hours T i <? 2 ^ 64) eqn:E; lia.
Qed.

Lemma eff_le_acc T i : wf_in i -> in_u 64 T -> eff_hours T i <= acc_hours T i.
Proof.
  intros Hw HT. pose proof (acc_hours_nonneg T i Hw HT). unfold eff_hours.
  destruct (acc_hours T i <? 2 ^ 64); lia.
Qed.

Lemma eff_eq_acc T i : acc_ok T i = true -> eff_hours T i = acc_hours T i.
Proof.
  unfold acc_ok, eff_hours. intros H. apply andb_prop in H. destruct H as [_ H]. rewrite H. reflexivity.
Qed.

Lemma wrap_wrap_add a b : wrap 64 (wrap 64 a + b) = wrap 64 (a + b).
Proof. unfold wrap. rewrite Zplus_mod_idemp_l. reflexivity. Qed.

Lemma out_hours_wrapped_from outs acc :
  fold_left (fun a o => wrap 64 (a + o_hours o)) outs (wrap 64 acc) = wrap 64 (acc + out_sum outs).
Proof.
  revert acc. induction outs as [|o r IH]; intros acc; cbn [fold_left].
  - unfold out_sum, sumZ. cbn [fold_right]. rewrite Z.add_0_r. reflexivity.
  - rewrite wrap_wrap_add. rewrite IH. unfold out_sum. rewrite sumZ_cons. f_equal. lia.
Qed.

(* the unchecked loop computes the sum of the outputs' hours modulo 2^64 *)
Lemma out_hours_wrapped_spec outs : out_hours_wrapped outs = wrap 64 (out_sum outs).
Proof.
  unfold out_hours_wrapped.
  replace 0 with (wrap 64 0) at 1 by reflexivity.
  rewrite out_hours_wrapped_from. reflexivity.
Qed.

(* ---- one input *)

Definition err_not_add (e : error) : Prop := is_err e = true /\ eqb_error e E_add = false.

Lemma coin_hours_cases T i : wf_in i -> in_u 64 T ->
  (acc_mid_ok T i = true /\ acc_hours T i < 2 ^ 64 /\ coin_hours T i = Val (acc_hours T i, None)) \/
  (acc_mid_ok T i = true /\ 2 ^ 64 <= acc_hours T i /\ coin_hours T i = Val (0, E_add)) \/
  (acc_mid_ok T i = false /\ exists e, coin_hours T i = Val (0, e) /\ err_not_add e /\
   (e = E_whole \/ e = E_droplet \/ e = E_sum)).
Proof.
  intros (Ht & Hc & Hh) HT. unfold coin_hours. rewrite CoinHours_spec by assumption.
  unfold coinhours_spec, acc_mid_ok, acc_hours, in_u in *.
  destruct (T <? i_time i) eqn:E0.
  { left. cbn [orb]. split; [reflexivity|]. split; [lia|reflexivity]. }
  cbn [orb]. cbv zeta.
  destruct (2 ^ 64 <=? i_coins i / 1000000 * (T - i_time i)) eqn:E1.
  { right. right. split; [lia|]. eexists. split; [reflexivity|]. split; [split; reflexivity|]. left. reflexivity. }
  destruct (2 ^ 64 <=? i_coins i mod 1000000 * (T - i_time i)) eqn:E2.
  { right. right. split; [lia|]. eexists. split; [reflexivity|]. split; [split; reflexivity|]. right. left. reflexivity. }
  destruct (2 ^ 64 <=? i_coins i * (T - i_time i) / 1000000) eqn:E3.
  { right. right. split; [lia|]. eexists. split; [reflexivity|]. split; [split; reflexivity|]. right. right. reflexivity. }
  destruct (2 ^ 64 <=? i_hours i + earned (i_coins i) (T - i_time i)) eqn:E4.
  { right. left. split; [lia|]. split; [lia|reflexivity]. }
  left. split; [lia|]. split; [lia|reflexivity].
Qed.

(* CoinHours returns no error exactly when acc_ok *)
Lemma coin_hours_ok_iff T i : wf_in i -> in_u 64 T ->
  (exists h, coin_hours T i = Val (h, None)) <-> acc_ok T i = true.
Proof.
  intros Hw HT. unfold acc_ok.
  destruct (coin_hours_cases T i Hw HT) as [(M & A & C) | [(M & A & C) | (M & e & C & (N1 & N2) & N3)]]; rewrite C, M.
  - split; [intros _; cbn [andb]; lia | intros _; eexists; reflexivity].
  - split; [intros [h H]; discriminate | cbn [andb]; lia].
  - split; [intros [h H]; inversion H; subst e; discriminate | cbn [andb]; discriminate].
Qed.

(* ---- input loops *)

Lemma hours_in_legacy_spec T ins : Forall wf_in ins -> in_u 64 T -> forall acc, 0 <= acc < 2 ^ 64 ->
  (forallb (acc_mid_ok T) ins = true /\ acc + in_eff_sum T ins < 2 ^ 64 /\
   hours_in_legacy T ins acc = Val (acc + in_eff_sum T ins, None)) \/
  ((forallb (acc_mid_ok T) ins = false \/ 2 ^ 64 <= acc + in_eff_sum T ins) /\
   exists s, hours_in_legacy T ins acc = Val (0, Some s)).
Proof.
  intros Hw HT. induction Hw as [|i r Hi Hr IH]; intros acc Hacc.
  - left. unfold in_eff_sum, sumZ. cbn [forallb fold_right hours_in_legacy].
    rewrite Z.add_0_r. split; [reflexivity|]. split; [lia|reflexivity].
  - cbn [forallb hours_in_legacy]. unfold in_eff_sum. rewrite sumZ_cons. fold (in_eff_sum T r).
    assert (Hs : 0 <= in_eff_sum T r).
    { apply sumZ_nonneg. intros x Hx. apply eff_hours_range; [|exact HT].
      rewrite Forall_forall in Hr. apply Hr; exact Hx. }
    pose proof (eff_hours_range T i Hi HT) as He.
    assert (Hgo : forall u, u = eff_hours T i -> acc_mid_ok T i = true ->
       (forallb (acc_mid_ok T) r = true /\ acc + (u + in_eff_sum T r) < 2 ^ 64 /\
        bind (AddUint64 acc u) (fun '(s, e2) =>
          if is_err e2 then Val (0, Some "Transaction input hours overflow"%string)
          else hours_in_legacy T r s) = Val (acc + (u + in_eff_sum T r), None)) \/
       ((forallb (acc_mid_ok T) r = false \/ 2 ^ 64 <= acc + (u + in_eff_sum T r)) /\
        exists s, bind (AddUint64 acc u) (fun '(s, e2) =>
          if is_err e2 then Val (0, Some "Transaction input hours overflow"%string)
          else hours_in_legacy T r s) = Val (0, Some s))).
    { intros u Hu _. subst u. rewrite AddUint64_spec by (unfold in_u; lia). unfold ret_or_err.
      destruct (acc + eff_hours T i <? 2 ^ 64) eqn:E.
      - rewrite bind_val. cbn [is_err].
        destruct (IH (acc + eff_hours T i) ltac:(lia)) as [(F & S & L) | (C & s & L)].
        + left. rewrite L. split; [exact F|]. split; [lia|]. f_equal. f_equal. lia.
        + right. split; [destruct C; [left; assumption | right; lia]|]. exists s. exact L.
      - rewrite bind_val. cbn [is_err]. right. split; [right; lia|]. eexists. reflexivity. }
    destruct (coin_hours_cases T i Hi HT) as [(M & A & C) | [(M & A & C) | (M & e & C & (N1 & N2) & N3)]];
      rewrite C, bind_val, M; cbn [andb].
    + cbn [is_err].
      assert (Hu : acc_hours T i = eff_hours T i).
      { unfold eff_hours. replace (acc_hours T i <? 2 ^ 64) with true by lia. reflexivity. }
      destruct (Hgo (acc_hours T i) Hu M) as [(F & S & L) | (Cc & s & L)].
      * left. rewrite <- Hu. split; [exact F|]. split; [exact S|exact L].
      * right. rewrite <- Hu. split; [exact Cc|]. exists s. exact L.
    + change (is_err E_add) with true. change (eqb_error E_add E_add) with true. cbv iota.
      assert (Hu : 0 = eff_hours T i).
      { unfold eff_hours. replace (acc_hours T i <? 2 ^ 64) with false by lia. reflexivity. }
      destruct (Hgo 0 Hu M) as [(F & S & L) | (Cc & s & L)].
      * left. rewrite <- Hu. split; [exact F|]. split; [exact S|exact L].
      * right. rewrite <- Hu. split; [exact Cc|]. exists s. exact L.
    + rewrite N1, N2. right. split; [left; reflexivity|].
      destruct e as [s|]; [|discriminate]. exists s. reflexivity.
Qed.

Lemma uxarray_hours_loop_spec T ins : Forall wf_in ins -> in_u 64 T -> forall acc, 0 <= acc < 2 ^ 64 ->
  (forallb (acc_ok T) ins = true /\ acc + in_acc_sum T ins < 2 ^ 64 /\
   uxarray_hours_loop T ins acc = Val (acc + in_acc_sum T ins, None)) \/
  ((forallb (acc_ok T) ins = false \/ 2 ^ 64 <= acc + in_acc_sum T ins) /\
   exists s, uxarray_hours_loop T ins acc = Val (0, Some s)).
Proof.
  intros Hw HT. induction Hw as [|i r Hi Hr IH]; intros acc Hacc.
  - left. unfold in_acc_sum, sumZ. cbn [forallb fold_right uxarray_hours_loop].
    rewrite Z.add_0_r. split; [reflexivity|]. split; [lia|reflexivity].
  - cbn [forallb uxarray_hours_loop]. unfold in_acc_sum. rewrite sumZ_cons. fold (in_acc_sum T r).
    assert (Hs : 0 <= in_acc_sum T r).
    { apply sumZ_nonneg. intros x Hx. apply acc_hours_nonneg; [|exact HT].
      rewrite Forall_forall in Hr. apply Hr; exact Hx. }
    pose proof (acc_hours_nonneg T i Hi HT) as Ha.
    unfold acc_ok at 1 3.
    destruct (coin_hours_cases T i Hi HT) as [(M & A & C) | [(M & A & C) | (M & e & C & (N1 & N2) & N3)]];
      rewrite C, bind_val, M; cbn [andb].
    + cbn [is_err]. replace (acc_hours T i <? 2 ^ 64) with true by lia. cbn [andb].
      rewrite AddUint64_spec by (unfold in_u; lia). unfold ret_or_err.
      destruct (acc + acc_hours T i <? 2 ^ 64) eqn:E; rewrite bind_val; cbn [is_err].
      * destruct (IH (acc + acc_hours T i) ltac:(lia)) as [(F & S & L) | (Cc & s & L)].
        -- left. rewrite L. split; [exact F|]. split; [lia|]. f_equal. f_equal. lia.
        -- right. split; [destruct Cc; [left; assumption | right; lia]|]. exists s. exact L.
      * right. split; [right; lia|]. eexists. reflexivity.
    + change (is_err E_add) with true. cbv iota.
      replace (acc_hours T i <? 2 ^ 64) with false by lia. cbn [andb].
      right. split; [left; reflexivity|]. eexists. reflexivity.
    + rewrite N1. right. split; [left; reflexivity|].
      destruct e as [s|]; [|discriminate]. exists s. reflexivity.
Qed.

Lemma first_coin_hours_error_spec T ins : Forall wf_in ins -> in_u 64 T ->
  (forallb (acc_ok T) ins = true /\ first_coin_hours_error T ins = Val None) \/
  (forallb (acc_ok T) ins = false /\ exists s, first_coin_hours_error T ins = Val (Some s)).
Proof.
  intros Hw HT. induction Hw as [|i r Hi Hr IH].
  - left. split; reflexivity.
  - cbn [forallb first_coin_hours_error]. unfold acc_ok at 1 3.
    destruct (coin_hours_cases T i Hi HT) as [(M & A & C) | [(M & A & C) | (M & e & C & (N1 & N2) & N3)]];
      rewrite C, bind_val, M; cbn [andb].
    + cbn [is_err]. replace (acc_hours T i <? 2 ^ 64) with true by lia. cbn [andb]. exact IH.
    + change (is_err E_add) with true. cbv iota.
      replace (acc_hours T i <? 2 ^ 64) with false by lia.
      right. split; [reflexivity|]. eexists. reflexivity.
    + rewrite N1. right. split; [reflexivity|].
      destruct e as [s|]; [|discriminate]. exists s. reflexivity.
Qed.

(* ---- output loops *)

Lemma checked_sum_loop_spec {A} (f : A -> Z) (msg : string) (l : list A) :
  (forall x, In x l -> in_u 64 (f x)) -> forall acc, 0 <= acc < 2 ^ 64 ->
  coins_loop f msg l acc =
    if acc + sumZ f l <? 2 ^ 64 then Val (acc + sumZ f l, None) else Val (0, Some msg).
Proof.
  induction l as [|a l IH]; intros Hw acc Hacc.
  - cbn [coins_loop sumZ fold_right]. rewrite Z.add_0_r.
    replace (acc <? 2 ^ 64) with true by lia. reflexivity.
  - cbn [coins_loop]. rewrite sumZ_cons.
    pose proof (Hw a (or_introl eq_refl)) as Ha. unfold in_u in Ha.
    assert (Hs : 0 <= sumZ f l).
    { apply sumZ_nonneg. intros x Hx. specialize (Hw x (or_intror Hx)). unfold in_u in Hw. lia. }
    rewrite AddUint64_spec by (unfold in_u; lia). unfold ret_or_err.
    destruct (acc + f a <? 2 ^ 64) eqn:E; rewrite bind_val; cbn [is_err].
    + rewrite IH by (try lia; intros x Hx; apply Hw; right; exact Hx).
      replace (acc + f a + sumZ f l) with (acc + (f a + sumZ f l)) by lia. reflexivity.
    + replace (acc + (f a + sumZ f l) <? 2 ^ 64) with false by lia. reflexivity.
Qed.

Lemma output_hours_loop_eq outs acc :
  output_hours_loop outs acc = coins_loop o_hours "Transaction output hours overflow" outs acc.
Proof.
  revert acc. induction outs as [|o r IH]; intros acc; cbn [output_hours_loop coins_loop]; [reflexivity|].
  destruct (AddUint64 acc (o_hours o)) as [|[s e]]; cbn [bind]; [reflexivity|].
  destruct (is_err e); [reflexivity|apply IH].
Qed.

(* Transaction.OutputHours returns the sum exactly when it fits in 64 bits *)
Lemma OutputHours_spec outs : Forall wf_out outs ->
  Transaction_OutputHours outs =
    if out_sum outs <? 2 ^ 64 then Val (out_sum outs, None)
    else Val (0, Some "Transaction output hours overflow"%string).
Proof.
  intros Hw. unfold Transaction_OutputHours. rewrite output_hours_loop_eq.
  rewrite checked_sum_loop_spec; [reflexivity| |lia].
  intros x Hx. rewrite Forall_forall in Hw. apply Hw in Hx. apply Hx.
Qed.

Lemma out_sum_nonneg outs : Forall wf_out outs -> 0 <= out_sum outs.
Proof.
  intros Hw. apply sumZ_nonneg. intros x Hx. rewrite Forall_forall in Hw. apply Hw in Hx.
  destruct Hx as [_ H]. unfold in_u in H. lia.
Qed.

Lemma in_eff_sum_nonneg T ins : Forall wf_in ins -> in_u 64 T -> 0 <= in_eff_sum T ins.
Proof.
  intros Hw HT. apply sumZ_nonneg. intros x Hx. rewrite Forall_forall in Hw.
  apply eff_hours_range; [apply Hw; exact Hx | exact HT].
Qed.

Lemma in_eff_eq_acc T ins : forallb (acc_ok T) ins = true -> in_eff_sum T ins = in_acc_sum T ins.
Proof.
  induction ins as [|i r IH]; [reflexivity|]. cbn [forallb]. intros H.
  apply andb_prop in H. destruct H as [H1 H2]. unfold in_eff_sum, in_acc_sum. rewrite !sumZ_cons.
  rewrite (eff_eq_acc T i H1). f_equal. apply IH. exact H2.
Qed.

Lemma acc_ok_mid T ins : forallb (acc_ok T) ins = true -> forallb (acc_mid_ok T) ins = true.
Proof.
  induction ins as [|i r IH]; [reflexivity|]. cbn [forallb]. intros H.
  apply andb_prop in H. destruct H as [H1 H2]. unfold acc_ok in H1. apply andb_prop in H1.
  destruct H1 as [H1 _]. rewrite H1, (IH H2). reflexivity.
Qed.

(* ---- coin.VerifyTransactionHoursSpending *)

(* the block-level hours rule accepts EXACTLY when no input has an intermediate
   overflow, the inputs' effective hours fit in 64 bits and the outputs' hours
   summed MODULO 2^64 do not exceed them *)
Theorem hours_spending_accepts_iff T ins outs :
  Forall wf_in ins -> Forall wf_out outs -> in_u 64 T ->
  (VerifyTransactionHoursSpending T ins outs = Val None <-> block_hours_ok T ins outs = true).
Proof.
  intros Hi Ho HT. unfold VerifyTransactionHoursSpending, block_hours_ok.
  rewrite out_hours_wrapped_spec.
  destruct (hours_in_legacy_spec T ins Hi HT 0 ltac:(rewrite pow64; lia)) as [(F & S & L) | (C & s & L)];
    rewrite L, bind_val; cbn [is_err].
  - rewrite Z.add_0_l in *. rewrite F. cbn [andb].
    destruct (in_eff_sum T ins <? wrap 64 (out_sum outs)) eqn:E.
    + split; [discriminate | lia].
    + split; [intros _; lia | reflexivity].
  - split; [discriminate|]. intros H. exfalso. rewrite Z.add_0_l in C.
    destruct C as [C | C]; [rewrite C in H; discriminate | lia].
Qed.

Lemma hours_spending_total T ins outs :
  Forall wf_in ins -> Forall wf_out outs -> in_u 64 T ->
  exists e, VerifyTransactionHoursSpending T ins outs = Val e.
Proof.
  intros Hi Ho HT. unfold VerifyTransactionHoursSpending.
  destruct (hours_in_legacy_spec T ins Hi HT 0 ltac:(rewrite pow64; lia)) as [(F & S & L) | (C & s & L)];
    rewrite L, bind_val; cbn [is_err].
  - destruct (_ <? _); eexists; reflexivity.
  - eexists; reflexivity.
Qed.

(* (b) PARTIAL: accepted => outputs' hours, summed as the code sums them
   (modulo 2^64), do not exceed the inputs' effective hours; and if the true sum
   fits in 64 bits the full statement holds *)
Theorem hours_not_created_partial T ins outs :
  Forall wf_in ins -> Forall wf_out outs -> in_u 64 T ->
  VerifyTransactionHoursSpending T ins outs = Val None ->
  wrap 64 (out_sum outs) <= in_eff_sum T ins < 2 ^ 64 /\
  (out_sum outs < 2 ^ 64 -> out_sum outs <= in_eff_sum T ins) /\
  not_created_partial T ins outs = true.
Proof.
  intros Hi Ho HT H. apply hours_spending_accepts_iff in H; try assumption.
  unfold block_hours_ok in H. pose proof (in_eff_sum_nonneg T ins Hi HT).
  pose proof (out_sum_nonneg outs Ho) as Hos.
  assert (W : wrap 64 (out_sum outs) <= in_eff_sum T ins < 2 ^ 64) by lia.
  split; [exact W|]. split.
  - intros Hlt. rewrite wrap_small in W by lia. lia.
  - unfold not_created_partial, not_created_full.
    destruct (2 ^ 64 <=? out_sum outs) eqn:E.
    + replace (wrap 64 (out_sum outs) <=? in_eff_sum T ins) with true by lia.
      cbn [andb]. apply orb_true_r.
    + rewrite wrap_small in W by lia. replace (out_sum outs <=? in_eff_sum T ins) with true by lia.
      reflexivity.
Qed.

(* accepted => no input had an error other than the legacy one *)
Theorem hours_spending_inputs_ok T ins outs :
  Forall wf_in ins -> Forall wf_out outs -> in_u 64 T ->
  VerifyTransactionHoursSpending T ins outs = Val None ->
  forall i, In i ins -> acc_mid_ok T i = true.
Proof.
  intros Hi Ho HT H. apply hours_spending_accepts_iff in H; try assumption.
  unfold block_hours_ok in H. intros i Hin.
  assert (F : forallb (acc_mid_ok T) ins = true) by lia.
  rewrite forallb_forall in F. apply F. exact Hin.
Qed.

(* the FULL statement (true sum of the outputs' hours) is FALSE of the block-level
   rule: one input of 1 coin with 10 hours, two outputs of 2^63 and 2^63+5 hours *)
Definition wrap_witness_T : Z := 1000.
Definition wrap_witness_ins : list uxin := [mkIn 1000 2000000 10 0].
Definition wrap_witness_outs : list txout :=
  [mkOut 1000000 9223372036854775808; mkOut 1000000 9223372036854775813].

Theorem hours_block_wrap_refuted :
  exists T ins outs, Forall wf_in ins /\ Forall wf_out outs /\ in_u 64 T /\
    VerifyTransactionHoursSpending T ins outs = Val None /\
    VerifyBlockTxnConstraints None T ins outs = Val None /\
    in_eff_sum T ins < out_sum outs.
Proof.
  exists wrap_witness_T, wrap_witness_ins, wrap_witness_outs.
  split; [repeat constructor; vm_compute; intuition discriminate|].
  split; [repeat constructor; vm_compute; intuition discriminate|].
  split; [vm_compute; intuition discriminate|].
  split; [vm_compute; reflexivity|].
  split; [vm_compute; reflexivity|].
  vm_compute. reflexivity.
Qed.

(* ---- coins *)

Theorem coins_spending_accepts_iff ins outs : Forall wf_in ins -> Forall wf_out outs ->
  (VerifyTransactionCoinsSpending ins outs = Val None <-> coins_ok ins outs = true).
Proof.
  intros Hi Ho. unfold VerifyTransactionCoinsSpending, coins_ok.
  rewrite checked_sum_loop_spec; [| |lia].
  2:{ intros x Hx. rewrite Forall_forall in Hi. apply Hi in Hx. apply Hx. }
  rewrite Z.add_0_l. fold (in_coins ins).
  destruct (in_coins ins <? 2 ^ 64) eqn:E1; rewrite bind_val; cbn [is_err andb].
  2:{ split; discriminate. }
  rewrite checked_sum_loop_spec; [| |lia].
  2:{ intros x Hx. rewrite Forall_forall in Ho. apply Ho in Hx. apply Hx. }
  rewrite Z.add_0_l. fold (out_coins outs).
  destruct (out_coins outs <? 2 ^ 64) eqn:E2; rewrite bind_val; cbn [is_err andb].
  2:{ split; discriminate. }
  destruct (in_coins ins <? out_coins outs) eqn:E3; [split; [discriminate|lia]|].
  destruct (in_coins ins >? out_coins outs) eqn:E4; [split; [discriminate|lia]|].
  split; [lia|reflexivity].
Qed.

Lemma coins_spending_total ins outs : Forall wf_in ins -> Forall wf_out outs ->
  exists e, VerifyTransactionCoinsSpending ins outs = Val e.
Proof.
  intros Hi Ho. unfold VerifyTransactionCoinsSpending.
  rewrite checked_sum_loop_spec; [| |lia].
  2:{ intros x Hx. rewrite Forall_forall in Hi. apply Hi in Hx. apply Hx. }
  destruct (_ <? _); rewrite bind_val; cbn [is_err]; [|eexists; reflexivity].
  rewrite checked_sum_loop_spec; [| |lia].
  2:{ intros x Hx. rewrite Forall_forall in Ho. apply Ho in Hx. apply Hx. }
  destruct (_ <? _); rewrite bind_val; cbn [is_err]; [|eexists; reflexivity].
  destruct (_ <? _); [eexists; reflexivity|]. destruct (_ >? _); eexists; reflexivity.
Qed.

(* ---- block-level and single-transaction checkers *)

Lemma wrap_err_none c e : wrap_err c e = None <-> e = None.
Proof. destruct e; cbn; split; congruence. Qed.

Theorem block_accepts_iff pre T ins outs :
  Forall wf_in ins -> Forall wf_out outs -> in_u 64 T ->
  (VerifyBlockTxnConstraints pre T ins outs = Val None <->
   pre = None /\ coins_ok ins outs = true /\ block_hours_ok T ins outs = true).
Proof.
  intros Hi Ho HT. unfold VerifyBlockTxnConstraints, verifyTxnHardConstraints.
  destruct pre as [s|]; cbn [is_err].
  { rewrite bind_val. cbn [wrap_err]. split; [discriminate | intros [H _]; discriminate]. }
  destruct (coins_spending_total ins outs Hi Ho) as [e He].
  pose proof (coins_spending_accepts_iff ins outs Hi Ho) as Hc. rewrite He in *. rewrite bind_val.
  destruct e as [s|]; cbn [is_err].
  { rewrite bind_val. cbn [wrap_err]. split; [discriminate|].
    intros (_ & H & _). apply Hc in H. discriminate. }
  destruct (hours_spending_total T ins outs Hi Ho HT) as [e' He'].
  pose proof (hours_spending_accepts_iff T ins outs Hi Ho HT) as Hh. rewrite He' in *. rewrite bind_val.
  split.
  - intros H. assert (e' = None) by (apply (wrap_err_none Hard); congruence). subst e'.
    split; [reflexivity|]. split; [apply Hc; reflexivity | apply Hh; reflexivity].
  - intros (_ & _ & H). apply Hh in H. inversion H. reflexivity.
Qed.

(* (b) at the level of the block checker *)
Theorem block_hours_not_created_partial pre T ins outs :
  Forall wf_in ins -> Forall wf_out outs -> in_u 64 T ->
  VerifyBlockTxnConstraints pre T ins outs = Val None ->
  wrap 64 (out_sum outs) <= in_eff_sum T ins < 2 ^ 64 /\
  (out_sum outs < 2 ^ 64 -> out_sum outs <= in_eff_sum T ins) /\
  in_coins ins = out_coins outs.
Proof.
  intros Hi Ho HT H. apply block_accepts_iff in H; try assumption.
  destruct H as (_ & Hc & Hh).
  apply hours_spending_accepts_iff in Hh; try assumption.
  destruct (hours_not_created_partial T ins outs Hi Ho HT Hh) as (A & B & _).
  split; [exact A|]. split; [exact B|]. unfold coins_ok in Hc. lia.
Qed.

Theorem single_accepts_iff pre T ins outs :
  Forall wf_in ins -> Forall wf_out outs -> in_u 64 T ->
  (VerifySingleTxnHardConstraints pre T ins outs = Val None <->
   pre = None /\ coins_ok ins outs = true /\ pool_hours_ok T ins outs = true).
Proof.
  intros Hi Ho HT. unfold VerifySingleTxnHardConstraints, pool_hours_ok.
  rewrite OutputHours_spec by assumption.
  pose proof (out_sum_nonneg outs Ho) as Hos.
  destruct (out_sum outs <? 2 ^ 64) eqn:E1; rewrite bind_val; cbn [is_err andb].
  2:{ cbn [wrap_err]. split; [discriminate | intros (_ & _ & H); discriminate]. }
  destruct (first_coin_hours_error_spec T ins Hi HT) as [(F & L) | (F & s & L)]; rewrite L, bind_val, F;
    cbn [is_err andb].
  2:{ cbn [wrap_err]. split; [discriminate | intros (_ & _ & H); discriminate]. }
  pose proof (block_accepts_iff pre T ins outs Hi Ho HT) as Hb.
  unfold VerifyBlockTxnConstraints in Hb. rewrite Hb. unfold block_hours_ok.
  rewrite (acc_ok_mid T ins F), (in_eff_eq_acc T ins F). rewrite wrap_small by lia.
  cbn [andb]. reflexivity.
Qed.

(* (c) the single-transaction hard rule (admission to the unconfirmed pool)
   accepts no transaction whose output hours overflow; and for an admitted
   transaction the FULL statement holds, with no exception: every input's
   accrued hours are computed without error and the true sum of the outputs'
   hours does not exceed the true sum of the inputs' accrued hours *)
Theorem pool_no_hours_overflow pre T ins outs :
  Forall wf_in ins -> Forall wf_out outs -> in_u 64 T ->
  VerifySingleTxnHardConstraints pre T ins outs = Val None ->
  out_sum outs < 2 ^ 64.
Proof.
  intros Hi Ho HT H. apply single_accepts_iff in H; try assumption.
  destruct H as (_ & _ & H). unfold pool_hours_ok in H. lia.
Qed.

Theorem pool_hours_not_created pre T ins outs :
  Forall wf_in ins -> Forall wf_out outs -> in_u 64 T ->
  VerifySingleTxnHardConstraints pre T ins outs = Val None ->
  (forall i, In i ins -> acc_ok T i = true) /\
  out_sum outs <= in_acc_sum T ins < 2 ^ 64 /\ in_coins ins = out_coins outs.
Proof.
  intros Hi Ho HT H. apply single_accepts_iff in H; try assumption.
  destruct H as (_ & Hc & H). unfold pool_hours_ok in H. unfold coins_ok in Hc.
  split; [|lia]. intros i Hin. assert (F : forallb (acc_ok T) ins = true) by lia.
  rewrite forallb_forall in F. apply F. exact Hin.
Qed.

(* whatever the single-transaction rule admits the block rule accepts too *)
Theorem single_implies_block pre T ins outs :
  Forall wf_in ins -> Forall wf_out outs -> in_u 64 T ->
  VerifySingleTxnHardConstraints pre T ins outs = Val None ->
  VerifyBlockTxnConstraints pre T ins outs = Val None.
Proof.
  intros Hi Ho HT H. apply single_accepts_iff in H; try assumption.
  apply block_accepts_iff; try assumption.
  destruct H as (P & C & H). split; [exact P|]. split; [exact C|].
  unfold pool_hours_ok in H. unfold block_hours_ok.
  pose proof (out_sum_nonneg outs Ho).
  assert (F : forallb (acc_ok T) ins = true) by lia.
  rewrite (acc_ok_mid T ins F), (in_eff_eq_acc T ins F). rewrite wrap_small by lia. lia.
Qed.

(* errors of both checkers are always tagged hard *)
Theorem hard_checkers_tag_hard pre T ins outs v :
  (VerifySingleTxnHardConstraints pre T ins outs = Val v \/
   VerifyBlockTxnConstraints pre T ins outs = Val v) ->
  verdict_class v = None \/ verdict_class v = Some Hard.
Proof.
  assert (W : forall e, verdict_class (wrap_err Hard e) = None \/ verdict_class (wrap_err Hard e) = Some Hard).
  { intros [s|]; cbn; [right|left]; reflexivity. }
  unfold VerifySingleTxnHardConstraints, VerifyBlockTxnConstraints. intros [H | H].
  - destruct (Transaction_OutputHours outs) as [|[h e]]; cbn [bind] in H; [discriminate|].
    destruct (is_err e). { inversion H. apply W. }
    destruct (first_coin_hours_error T ins) as [|e1]; cbn [bind] in H; [discriminate|].
    destruct (is_err e1). { inversion H. apply W. }
    destruct (verifyTxnHardConstraints pre T ins outs) as [|e2]; cbn [bind] in H; [discriminate|].
    inversion H. apply W.
  - destruct (verifyTxnHardConstraints pre T ins outs) as [|e2]; cbn [bind] in H; [discriminate|].
    inversion H. apply W.
Qed.

(* ---- (a) accrued hours: value, monotone in time, errors upward closed *)

Lemma coin_hours_value T i h : wf_in i -> in_u 64 T -> i_time i <= T ->
  coin_hours T i = Val (h, None) ->
  h = i_hours i + i_coins i * (T - i_time i) / 3600000000 /\ h < 2 ^ 64.
Proof. intros (A & B & C) HT Hle. unfold coin_hours. apply CoinHours_value; assumption. Qed.

Lemma coin_hours_mono T T' i h h' : wf_in i -> in_u 64 T -> in_u 64 T' -> T <= T' ->
  coin_hours T i = Val (h, None) -> coin_hours T' i = Val (h', None) -> h <= h'.
Proof. intros (A & B & C) HT HT' Hle. unfold coin_hours. apply CoinHours_mono; assumption. Qed.

(* an error at time T (at or after the creation time) persists at every later time *)
Lemma coin_hours_errors_upward T T' i : wf_in i -> in_u 64 T -> in_u 64 T' ->
  i_time i <= T <= T' ->
  (exists h', coin_hours T' i = Val (h', None)) -> exists h, coin_hours T i = Val (h, None).
Proof.
  intros Hw HT HT' Hle H'. destruct Hw as (A & B & C). unfold coin_hours in *.
  apply CoinHours_ok_iff in H'; try assumption; [|lia].
  apply CoinHours_ok_iff; try assumption; [lia|]. cbv zeta in *.
  unfold in_u in *.
  assert (D : 0 <= T - i_time i <= T' - i_time i) by lia.
  assert (0 <= i_coins i / 1000000) by (apply Z.div_pos; lia).
  assert (0 <= i_coins i mod 1000000) by (apply Z.mod_pos_bound; lia).
  pose proof (earned_mono (i_coins i) (T - i_time i) (T' - i_time i) ltac:(lia) D).
  assert (i_coins i * (T - i_time i) / 1000000 <= i_coins i * (T' - i_time i) / 1000000)
    by (apply Z.div_le_mono; nia).
  destruct H' as (P1 & P2 & P3 & P4).
  split; [nia|]. split; [nia|]. split; lia.
Qed.

(* the mathematical accrued hours are monotone in time from the creation time on *)
Lemma acc_hours_mono T T' i : wf_in i -> i_time i <= T <= T' -> acc_hours T i <= acc_hours T' i.
Proof.
  intros (A & B & C) Hle. unfold acc_hours, in_u in *.
  replace (T <? i_time i) with false by lia. replace (T' <? i_time i) with false by lia.
  pose proof (earned_mono (i_coins i) (T - i_time i) (T' - i_time i) ltac:(lia) ltac:(lia)). lia.
Qed.
