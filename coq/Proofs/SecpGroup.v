(* Proofs/SecpGroup.v — the ECDSA algebra (C14, used by C10 and C16).

   Everything in Section GroupLaw is proved from these PREMISES (Section
   hypotheses; they appear in front of every exported theorem):
     prime_p     : prime p
     prime_n     : prime n
     padd_assoc  : associativity of the chord-tangent addition on curve points
     order_G     : n * G = O
     sqrt_ok     : c^((p+1)/4) is a square root of every square c   (recover / parse only)
   Closure, commutativity, identity, inverses and the correctness of the
   Jacobian execution are PROVED (Proofs/SecpJacobian.v and below). *)
From Coq Require Import ZArith Lia Znumtheory Ring Field Setoid Morphisms Bool List.
From Sky Require Import Model.Secp Proofs.SecpProofs Proofs.SecpField Proofs.SecpJacobian.
Import ListNotations.
Open Scope Z_scope.

(* ------------------------------------------------------------------ congruence modulo n *)

Definition eqn (a b : Z) : Prop := a mod n = b mod n.
#[global] Instance eqn_equiv : Equivalence eqn.
Proof. split; unfold eqn; [intros x; reflexivity | intros x y H; now symmetry | intros x y z H1 H2; congruence]. Qed.
#[global] Instance add_eqn : Proper (eqn ==> eqn ==> eqn) Z.add.
Proof. intros a b H c d H2. unfold eqn in *. rewrite (Zplus_mod a c), (Zplus_mod b d), H, H2. reflexivity. Qed.
#[global] Instance mul_eqn : Proper (eqn ==> eqn ==> eqn) Z.mul.
Proof. intros a b H c d H2. unfold eqn in *. rewrite (Zmult_mod a c), (Zmult_mod b d), H, H2. reflexivity. Qed.
#[global] Instance sub_eqn : Proper (eqn ==> eqn ==> eqn) Z.sub.
Proof. intros a b H c d H2. unfold eqn in *. rewrite (Zminus_mod a c), (Zminus_mod b d), H, H2. reflexivity. Qed.
#[global] Instance opp_eqn : Proper (eqn ==> eqn) Z.opp.
Proof. intros a b H. unfold eqn in *. rewrite <- (Z.sub_0_l a), <- (Z.sub_0_l b), (Zminus_mod 0 a), (Zminus_mod 0 b), H. reflexivity. Qed.
Lemma eqn_mod a : eqn (a mod n) a.
Proof. unfold eqn. apply Zmod_mod. Qed.
Lemma eqn_n : eqn n 0.
Proof. reflexivity. Qed.
Lemma eqn_refl' a b : a = b -> eqn a b.
Proof. intros ->. reflexivity. Qed.
Lemma eqn_small a b : 0 <= a < n -> 0 <= b < n -> eqn a b -> a = b.
Proof. unfold eqn. intros Ha Hb H. rewrite !Z.mod_small in H; assumption. Qed.

(* congruence as divisibility, and the scalar identities of ECDSA *)
Lemma eqn_divide a b : eqn a b <-> (n | a - b).
Proof.
  unfold eqn. split; intros H.
  - apply Zmod_divide; [intro; discriminate|]. rewrite Zminus_mod, H, Z.sub_diag. reflexivity.
  - destruct H as [q Hq]. replace a with (b + q * n) by lia. apply Z_mod_plus_full.
Qed.

(* si = 1/s, ki = 1/nonce, s = ki (r k + m)   ==>   si m + si r k = nonce *)
Lemma scalar_verify_pos ki nonce r k m s si :
  eqn (ki * nonce) 1 -> eqn s (ki * (r * k + m)) -> eqn (si * s) 1 ->
  eqn (si * m + si * r * k) nonce.
Proof.
  rewrite !eqn_divide. intros [a Ha] [b Hb] [c Hc].
  exists (nonce * c - nonce * si * b - si * (m + r * k) * a).
  replace ((nonce * c - nonce * si * b - si * (m + r * k) * a) * n)
    with (nonce * (c * n) - nonce * si * (b * n) - si * (m + r * k) * (a * n)) by ring.
  rewrite <- Ha, <- Hb, <- Hc. ring.
Qed.

(* ... and with s = - ki (r k + m)   ==>   si m + si r k = - nonce *)
Lemma scalar_verify_neg ki nonce r k m s si :
  eqn (ki * nonce) 1 -> eqn s (- (ki * (r * k + m))) -> eqn (si * s) 1 ->
  eqn (si * m + si * r * k) (- nonce).
Proof.
  rewrite !eqn_divide. intros [a Ha] [b Hb] [c Hc].
  exists (- nonce * c + nonce * si * b - si * (m + r * k) * a).
  replace ((- nonce * c + nonce * si * b - si * (m + r * k) * a) * n)
    with (- nonce * (c * n) + nonce * si * (b * n) - si * (m + r * k) * (a * n)) by ring.
  rewrite <- Ha, <- Hb, <- Hc. ring.
Qed.

(* recovery: ri = 1/r, Q = ri (s R - m G) with R = nonce G:  ri s nonce - ri m = k *)
Lemma scalar_recover ki nonce r k m s0 ri :
  eqn (ki * nonce) 1 -> eqn s0 (ki * (r * k + m)) -> eqn (ri * r) 1 ->
  eqn (ri * s0 * nonce + (- (ri * m))) k.
Proof.
  rewrite !eqn_divide. intros [a Ha] [b Hb] [c Hc].
  exists (ri * nonce * b + ri * (r * k + m) * a + k * c).
  replace ((ri * nonce * b + ri * (r * k + m) * a + k * c) * n)
    with (ri * nonce * (b * n) + ri * (r * k + m) * (a * n) + k * (c * n)) by ring.
  rewrite <- Ha, <- Hb, <- Hc. ring.
Qed.

(* inverses modulo n are unique *)
Lemma inverse_neg s si si' : eqn (si * s) 1 -> eqn (si' * (n - s)) 1 -> eqn si' (- si).
Proof.
  rewrite !eqn_divide. intros [a Ha] [b Hb].
  exists (si * si' - si * b - si' * a).
  replace ((si * si' - si * b - si' * a) * n) with (si * si' * n - si * (b * n) - si' * (a * n)) by ring.
  rewrite <- Ha, <- Hb. ring.
Qed.

Lemma some_triple_inj (a b c a' b' c' : Z) : Some (a, b, c) = Some (a', b', c') -> a = a' /\ b = b' /\ c = c'.
Proof. intros H. injection H. auto. Qed.

Lemma neg_lincomb_eq si m r d : eqn (- si * m + - si * r * d) (- (si * m + si * r * d)).
Proof. apply eqn_refl'. ring. Qed.

Lemma pow256_32 : 256 ^ Z.of_nat 32 = 2 ^ 256.
Proof. vm_compute. reflexivity. Qed.

(* parsing a well-formed 33-byte encoding reduces to decompression *)
Lemma parse_pubkey_cons pre xs x odd :
  length xs = 32%nat -> ((pre =? 2) || (pre =? 3) = true /\ (pre =? 3) = odd) -> be_val xs = x -> in_field x = true ->
  parse_pubkey (pre :: xs) = match lift_x odd x with Some P => inl P | None => inr PkOffCurve end.
Proof.
  intros L [Hp Ho] Hv Hf. unfold parse_pubkey. rewrite L, Hp, Hv, Hf, Ho. reflexivity.
Qed.

(* recovery id bits *)
Lemma recid_bits (hi od : bool) :
  let v0 := (if hi then 2 else 0) + (if od then 1 else 0) in
  let v1 := if Z.odd v0 then v0 - 1 else v0 + 1 in
  Z.odd (v0 / 2) = hi /\ Z.odd v0 = od /\ Z.odd (v1 / 2) = hi /\ Z.odd v1 = negb od.
Proof. destruct hi, od; cbv; auto. Qed.

(* r = rx mod n and the high bit of the recovery id give rx back (p < 2n) *)
Lemma rx_of_r N P rx : 0 < N -> P < 2 * N -> 0 <= rx < P ->
  (if N <=? rx then rx mod N + N else rx mod N) = rx.
Proof.
  intros HN HP Hr. destruct (N <=? rx) eqn:E.
  - apply Z.leb_le in E. rewrite <- (Z.mod_unique rx N 1 (rx - N)); lia.
  - apply Z.leb_gt in E. rewrite Z.mod_small; lia.
Qed.

Lemma p_lt_2n : p < 2 * n.
Proof. reflexivity. Qed.

Lemma recover_scalar_eq ri s0 nonce m : eqn (ri * s0 * nonce + - (ri * m)) (ri * s0 * nonce + - (ri * m)).
Proof. reflexivity. Qed.

Lemma neg_neg_prod a b : eqn (- a * - b) (a * b).
Proof. apply eqn_refl'. ring. Qed.

(* what a successful Signature.Sign computed *)
Lemma sign_inv k m nonce r s v :
  sign k m nonce = Some (r, s, v) ->
  exists rx ry ki,
    smulx nonce G = Aff rx ry /\ rx <> 0 /\ modinv nonce n = Some ki /\ r = rx mod n /\
    let s0 := (ki * ((r * k + m) mod n)) mod n in
    let v0 := (if n <=? rx then 2 else 0) + (if Z.odd ry then 1 else 0) in
    s0 <> 0 /\
    ((halfOrder < s0 /\ s = n - s0 /\ v = (if Z.odd v0 then v0 - 1 else v0 + 1)) \/
     (s0 <= halfOrder /\ s = s0 /\ v = v0)).
Proof.
  unfold sign. destruct (smulx nonce G) as [|rx ry] eqn:ER; [discriminate|].
  destruct (rx =? 0) eqn:E0; [discriminate|]. apply Z.eqb_neq in E0.
  destruct (modinv nonce n) as [ki|]; [|discriminate].
  cbv zeta.
  destruct ((ki * ((rx mod n * k + m) mod n)) mod n =? 0) eqn:Es; [discriminate|].
  apply Z.eqb_neq in Es.
  destruct (halfOrder <? (ki * ((rx mod n * k + m) mod n)) mod n) eqn:Eh; intros E; apply some_triple_inj in E as (<- & <- & <-);
    exists rx, ry, ki; (split; [reflexivity|]); (split; [exact E0|]); (split; [reflexivity|]); (split; [reflexivity|]);
    (split; [exact Es|]).
  - left. apply Z.ltb_lt in Eh. split; [exact Eh|]. split; reflexivity.
  - right. apply Z.ltb_ge in Eh. split; [exact Eh|]. split; reflexivity.
Qed.

Lemma neg_mod_small m y : 0 < y < m -> (- y) mod m = m - y.
Proof. intros H. symmetry. apply (Z.mod_unique _ _ (-1)); lia. Qed.

Lemma fneg_parity y : 0 < y < p -> Z.odd (fneg y) = negb (Z.odd y).
Proof.
  intros Hy. unfold fneg. rewrite neg_mod_small by exact Hy.
  rewrite Z.odd_sub. change (Z.odd p) with true. reflexivity.
Qed.

Section GroupLaw.
  Hypothesis prime_p : prime p.
  Hypothesis prime_n : prime n.
  Hypothesis padd_assoc : forall P Q R,
    on_curve P = true -> on_curve Q = true -> on_curve R = true ->
    padd (padd P Q) R = padd P (padd Q R).
  Hypothesis order_G : smul n G = Inf.
  Hypothesis sqrt_ok : forall c y, in_field y = true -> fmul y y = c -> fmul (fsqrt c) (fsqrt c) = c.

  Add Field FpG : (Fp_field prime_p) (setoid feq_equiv Fp_ext, morphism Fp_morph, constants [Zcst]).

  Let closed := padd_closed prime_p.
  Let nclosed := pneg_closed prime_p.
  Let sclosed := smul_closed prime_p.
  Let spclosed := smul_pos_closed prime_p.

  Lemma G_on_curve : on_curve G = true.
  Proof. vm_compute. reflexivity. Qed.

  (* ---- identity, inverses, commutativity *)
  Lemma padd_Inf_r P : padd P Inf = P.
  Proof. destruct P; reflexivity. Qed.

  Lemma fadd_fneg y : fadd y (fneg y) = 0.
  Proof. unfold fadd, fneg. rewrite Zplus_mod_idemp_r, Z.add_opp_diag_r. reflexivity. Qed.
  Lemma fadd_fneg_l y : fadd (fneg y) y = 0.
  Proof. unfold fadd, fneg. rewrite Zplus_mod_idemp_l, Z.add_opp_diag_l. reflexivity. Qed.

  Lemma padd_neg_r P : padd P (pneg P) = Inf.
  Proof. destruct P as [|x y]; [reflexivity|]. cbn [pneg padd]. rewrite Z.eqb_refl, fadd_fneg. reflexivity. Qed.
  Lemma padd_neg_l P : padd (pneg P) P = Inf.
  Proof. destruct P as [|x y]; [reflexivity|]. cbn [pneg padd]. rewrite Z.eqb_refl, fadd_fneg_l. reflexivity. Qed.

  Lemma pneg_pneg P : on_curve P = true -> pneg (pneg P) = P.
  Proof.
    destruct P as [|x y]; [reflexivity|]. intros O. apply on_curve_inv in O as (Fx & Fy & _).
    cbn [pneg]. f_equal. apply feq_eq; [apply fneg_range|exact Fy|ring].
  Qed.

  Lemma inverse_unique P Q : on_curve P = true -> on_curve Q = true -> padd P Q = Inf -> Q = pneg P.
  Proof.
    intros OP OQ H.
    assert (E : padd (padd (pneg P) P) Q = padd (pneg P) (padd P Q)) by (apply padd_assoc; auto).
    rewrite padd_neg_l, H, padd_Inf_r in E. exact E.
  Qed.

  Lemma padd_comm P Q : on_curve P = true -> on_curve Q = true -> padd P Q = padd Q P.
  Proof.
    destruct P as [|x1 y1]; [intros; rewrite padd_Inf_r; reflexivity|].
    destruct Q as [|x2 y2]; [reflexivity|].
    intros O1 O2.
    apply on_curve_inv in O1 as (Fx1 & Fy1 & Cv1). apply on_curve_inv in O2 as (Fx2 & Fy2 & Cv2).
    unfold padd. rewrite (Z.eqb_sym x2 x1).
    assert (Ea : fadd y2 y1 = fadd y1 y2) by (unfold fadd; f_equal; apply Z.add_comm). rewrite Ea.
    destruct (x1 =? x2) eqn:EX.
    - destruct (fadd y1 y2 =? 0) eqn:EY; [reflexivity|].
      apply Z.eqb_eq in EX. subst x2.
      assert (Sq : feq (fmul y1 y1) (fmul y2 y2)) by (rewrite Cv1, Cv2; reflexivity).
      apply (fsquare_eq prime_p) in Sq.
      assert (NY : ~ feq (fadd y1 y2) 0) by (apply in_field_nonzero; [apply fadd_range|exact EY]).
      destruct Sq as [Sq|Sq]; [|exfalso; apply NY; rewrite Sq; ring].
      assert (E : y1 = y2) by (apply feq_eq; assumption). subst y2. reflexivity.
    - assert (NX : ~ feq x1 x2) by (apply eqb_false_nfeq; assumption).
      assert (ND : ~ feq (fsub x2 x1) 0).
      { intros E. apply NX. assert (E1 : feq x1 (fsub x2 (fsub x2 x1))) by ring. rewrite E1, E. ring. }
      assert (ND' : ~ feq (fsub x1 x2) 0).
      { intros E. apply NX. assert (E1 : feq x1 (fadd x2 (fsub x1 x2))) by ring. rewrite E1, E. ring. }
      cbv zeta. f_equal; (apply feq_eq; [apply fsub_range|apply fsub_range|]); unfold fdiv; field; split; assumption.
  Qed.

  (* ---- multiples *)
  Lemma smul_pos_succ k : forall P, on_curve P = true -> smul_pos (Pos.succ k) P = padd P (smul_pos k P).
  Proof.
    induction k as [k IH|k IH|]; intros P O; cbn [Pos.succ smul_pos].
    - rewrite IH by (apply closed; exact O).
      apply padd_assoc; auto.
    - reflexivity.
    - reflexivity.
  Qed.

  Lemma smul_pos_add a : forall b P, on_curve P = true ->
    smul_pos (a + b) P = padd (smul_pos a P) (smul_pos b P).
  Proof.
    induction a as [|a IH] using Pos.peano_ind; intros b P O.
    - rewrite Pos.add_1_l. rewrite smul_pos_succ by exact O. reflexivity.
    - rewrite Pos.add_succ_l. rewrite !smul_pos_succ by exact O. rewrite IH by exact O.
      symmetry. apply padd_assoc; auto.
  Qed.

  Lemma smul_pos_mul a : forall b P, on_curve P = true ->
    smul_pos (a * b) P = smul_pos a (smul_pos b P).
  Proof.
    induction a as [|a IH] using Pos.peano_ind; intros b P O.
    - rewrite Pos.mul_1_l. reflexivity.
    - rewrite Pos.mul_succ_l. rewrite smul_pos_add by exact O.
      rewrite smul_pos_succ by (apply spclosed; exact O). rewrite IH by exact O.
      reflexivity.
  Qed.

  Lemma smul_pos_Inf a : smul_pos a Inf = Inf.
  Proof. induction a as [a IH|a IH|]; cbn [smul_pos padd]; [exact IH|exact IH|reflexivity]. Qed.

  Lemma smul_add a b P : 0 <= a -> 0 <= b -> on_curve P = true ->
    smul (a + b) P = padd (smul a P) (smul b P).
  Proof.
    intros Ha Hb O. destruct a as [|a|a]; [reflexivity| |lia].
    destruct b as [|b|b]; [cbn [smul Z.add]; rewrite padd_Inf_r; reflexivity| |lia].
    cbn [Z.add smul]. apply smul_pos_add, O.
  Qed.

  Lemma smul_mul a b P : 0 <= a -> 0 <= b -> on_curve P = true ->
    smul (a * b) P = smul a (smul b P).
  Proof.
    intros Ha Hb O. destruct a as [|a|a]; [reflexivity| |lia].
    destruct b as [|b|b]; [|cbn [Z.mul smul]; apply smul_pos_mul, O|lia].
    rewrite Z.mul_0_r. cbn [smul]. symmetry. apply smul_pos_Inf.
  Qed.

  Lemma smul_Inf a : smul a Inf = Inf.
  Proof. destruct a as [|a|a]; cbn [smul]; rewrite ?smul_pos_Inf; reflexivity. Qed.

  (* scalars act modulo n on G *)
  Lemma smulG_mod a : 0 <= a -> smul (a mod n) G = smul a G.
  Proof.
    intros Ha. rewrite (Z.div_mod a n) at 2 by (intro; discriminate).
    pose proof (Z.mod_pos_bound a n ltac:(reflexivity)).
    assert (0 <= a / n) by (apply Z.div_pos; [exact Ha|reflexivity]).
    rewrite smul_add; [|apply Z.mul_nonneg_nonneg; [discriminate|assumption]|lia|exact G_on_curve].
    rewrite Z.mul_comm, smul_mul; [|assumption|discriminate|exact G_on_curve].
    rewrite order_G, smul_Inf. reflexivity.
  Qed.

  Lemma smulG_eqn a b : 0 <= a -> 0 <= b -> eqn a b -> smul a G = smul b G.
  Proof. intros Ha Hb H. rewrite <- (smulG_mod a Ha), <- (smulG_mod b Hb). unfold eqn in H. rewrite H. reflexivity. Qed.

  (* the opposite of a*G is (-a mod n)*G *)
  Lemma smulG_neg a : 0 <= a -> smul ((- a) mod n) G = pneg (smul a G).
  Proof.
    intros Ha. apply inverse_unique; try (apply sclosed; exact G_on_curve).
    pose proof (Z.mod_pos_bound (- a) n ltac:(reflexivity)).
    rewrite <- smul_add; [|exact Ha|lia|exact G_on_curve].
    rewrite <- (smulG_mod (a + (- a) mod n)) by lia.
    rewrite Zplus_mod_idemp_r, Z.add_opp_diag_r. reflexivity.
  Qed.

  (* G has order exactly n *)
  Lemma smulG_Inf a : 0 <= a -> smul a G = Inf -> eqn a 0.
  Proof.
    intros Ha H. unfold eqn. rewrite Zmod_0_l.
    destruct (Z.eq_dec (a mod n) 0) as [E|E]; [exact E|exfalso].
    destruct (modinv_prime a n prime_n n_lt_256 E) as (u & _ & Hu & Hr).
    assert (HG : smul ((a * u) mod n) G = G) by (rewrite Hu; reflexivity).
    rewrite smulG_mod in HG by nia.
    rewrite Z.mul_comm, smul_mul in HG; [|lia|exact Ha|exact G_on_curve].
    rewrite H, smul_Inf in HG. discriminate.
  Qed.

  Lemma smulG_nonzero a : 0 < a < n -> smul a G <> Inf.
  Proof.
    intros Ha H. apply smulG_Inf in H; [|lia]. unfold eqn in H. rewrite Z.mod_small, Zmod_0_l in H; lia.
  Qed.
  (* ---- ECDSA *)
  Lemma smulxG k : smulx k G = smul k G.
  Proof. apply (smulx_correct prime_p), G_on_curve. Qed.

  Lemma modinv_n a : a mod n <> 0 -> exists x, modinv a n = Some x /\ eqn (x * a) 1 /\ 0 <= x < n.
  Proof.
    intros Ha. destruct (modinv_prime a n prime_n n_lt_256 Ha) as (x & Hx & Hm & Hr).
    exists x. split; [exact Hx|]. split; [|exact Hr]. unfold eqn. rewrite Z.mul_comm, Hm. reflexivity.
  Qed.

  Lemma modinv_n_sound a x : modinv a n = Some x -> eqn (x * a) 1 /\ 0 <= x < n.
  Proof.
    intros H. apply modinv_sound in H; [|exact n_gt1]. destruct H as [Hm Hr].
    split; [|exact Hr]. unfold eqn. rewrite Z.mul_comm, Hm. reflexivity.
  Qed.

  Lemma mod_n_nonneg a : 0 <= a mod n < n.
  Proof. apply Z.mod_pos_bound. reflexivity. Qed.

  (* a signature produced by Signature.Sign verifies under the signer's public key *)
  Theorem verify_sign k m nonce r s v :
    0 <= k -> 0 <= m -> 0 <= nonce ->
    sign k m nonce = Some (r, s, v) ->
    ecdsa_verify (smul k G) m r s = true.
  Proof.
    intros Hk Hm Hnonce Hs.
    pose proof (sign_ranges _ _ _ _ _ _ Hs) as (Rr & Rs & Rv).
    apply sign_inv in Hs as (rx & ry & ki & ER & Hrx & Hki & Hr & H).
    cbv zeta in H. destruct H as (Hs0 & Hcase).
    rewrite smulxG in ER.
    apply modinv_n_sound in Hki as [Eki Rki].
    set (s0 := (ki * ((r * k + m) mod n)) mod n) in *.
    assert (Es0 : eqn s0 (ki * (r * k + m))).
    { unfold s0. rewrite eqn_mod. apply mul_eqn; [reflexivity|apply eqn_mod]. }
    pose proof n_half as Hn.
    assert (Hsn : s mod n <> 0) by (rewrite Z.mod_small; lia).
    destruct (modinv_n s Hsn) as (si & Hsi & Esi & Rsi).
    unfold ecdsa_verify. rewrite Hsi.
    pose proof (mod_n_nonneg (si * m)) as R1. pose proof (mod_n_nonneg (si * r)) as R2.
    set (u1 := (si * m) mod n) in *. set (u2 := (si * r) mod n) in *.
    assert (OQ : on_curve (smul k G) = true) by (apply sclosed, G_on_curve).
    rewrite (lincomb_correct prime_p) by (exact G_on_curve || exact OQ).
    rewrite <- smul_mul by (lia || exact G_on_curve).
    rewrite <- smul_add by (try exact G_on_curve; nia).
    assert (Eu : eqn (u1 + u2 * k) (si * m + si * r * k)).
    { unfold u1, u2. rewrite !eqn_mod. reflexivity. }
    destruct Hcase as [(Hh & Es & _)|(Hh & Es & _)].
    - (* s was negated *)
      assert (E : eqn (u1 + u2 * k) (- nonce)).
      { rewrite Eu. apply (scalar_verify_neg ki nonce r k m s si); [exact Eki| |exact Esi].
        rewrite Es, <- Es0. unfold eqn. rewrite <- (Z.sub_0_l s0), Zminus_mod, (Zminus_mod 0 s0). reflexivity. }
      rewrite <- (smulG_mod (u1 + u2 * k)) by nia.
      unfold eqn in E. rewrite E. rewrite smulG_neg by exact Hnonce. rewrite ER. cbn [pneg].
      rewrite Hr. apply Z.eqb_refl.
    - assert (E : eqn (u1 + u2 * k) nonce).
      { rewrite Eu. apply (scalar_verify_pos ki nonce r k m s si); [exact Eki| |exact Esi].
        rewrite Es. exact Es0. }
      rewrite (smulG_eqn _ nonce) by (nia || exact Hnonce || exact E).
      rewrite ER. rewrite Hr. apply Z.eqb_refl.
  Qed.
  (* a signature stays valid when s is replaced by n - s (the malleation C10 is about) *)
  Theorem negated_sig_verifies d m r s :
    0 <= d -> 0 < s < n ->
    ecdsa_verify (smul d G) m r s = true -> ecdsa_verify (smul d G) m r (n - s) = true.
  Proof.
    intros Hd Hs.
    (* arithmetic first: lia / nia must not see the unfolded verification *)
    assert (Hsn : s mod n <> 0) by (rewrite Z.mod_small; lia).
    assert (Hns : (n - s) mod n <> 0) by (rewrite Z.mod_small; lia).
    destruct (modinv_n s Hsn) as (si & Hsi & Esi & Rsi).
    destruct (modinv_n (n - s) Hns) as (si' & Hsi' & Esi' & Rsi').
    pose proof (inverse_neg s si si' Esi Esi') as Eneg.
    assert (OQ : on_curve (smul d G) = true) by (apply sclosed, G_on_curve).
    pose proof (mod_n_nonneg (si * m)) as R1. pose proof (mod_n_nonneg (si * r)) as R2.
    pose proof (mod_n_nonneg (si' * m)) as R1'. pose proof (mod_n_nonneg (si' * r)) as R2'.
    set (u1 := (si * m) mod n) in *. set (u2 := (si * r) mod n) in *.
    set (u1' := (si' * m) mod n) in *. set (u2' := (si' * r) mod n) in *.
    assert (N1 : 0 <= u1 + u2 * d) by nia. assert (N2 : 0 <= u1' + u2' * d) by nia.
    assert (N3 : 0 <= u2 * d) by nia. assert (N4 : 0 <= u2' * d) by nia.
    assert (E : eqn (u1' + u2' * d) (- (u1 + u2 * d))).
    { unfold u1, u2, u1', u2'. rewrite !eqn_mod, Eneg. apply neg_lincomb_eq. }
    assert (L1 : lincomb u1 G u2 (smul d G) = smul (u1 + u2 * d) G).
    { rewrite (lincomb_correct prime_p) by (exact G_on_curve || exact OQ).
      rewrite <- smul_mul by (lia || exact G_on_curve).
      rewrite <- smul_add by (lia || exact G_on_curve). reflexivity. }
    assert (L2 : lincomb u1' G u2' (smul d G) = pneg (smul (u1 + u2 * d) G)).
    { rewrite (lincomb_correct prime_p) by (exact G_on_curve || exact OQ).
      rewrite <- smul_mul by (lia || exact G_on_curve).
      rewrite <- smul_add by (lia || exact G_on_curve).
      rewrite <- (smulG_mod (u1' + u2' * d)) by exact N2.
      unfold eqn in E. rewrite E. apply smulG_neg. exact N1. }
    clear - Hsi Hsi' L1 L2.
    unfold ecdsa_verify. rewrite Hsi, Hsi'.
    change ((si * m) mod n) with u1. change ((si * r) mod n) with u2.
    change ((si' * m) mod n) with u1'. change ((si' * r) mod n) with u2'.
    rewrite L1, L2.
    destruct (smul (u1 + u2 * d) G) as [|x y]; [intros H; exact H|].
    cbn [pneg]. intros H. exact H.
  Qed.

  (* both parties of ECDH derive the same point *)
  Theorem ecdh_sym_points a b : 0 <= a -> 0 <= b -> smulx a (smulx b G) = smulx b (smulx a G).
  Proof.
    intros Ha Hb. rewrite !smulxG. rewrite !(smulx_correct prime_p) by (apply sclosed, G_on_curve).
    rewrite <- !smul_mul by (assumption || exact G_on_curve). f_equal. apply Z.mul_comm.
  Qed.

  (* ---- decompression *)
  Lemma lift_x_complete x y : on_curve (Aff x y) = true -> lift_x (Z.odd y) x = Some (Aff x y).
  Proof.
    intros O. pose proof O as O'. apply on_curve_inv in O as (Fx & Fy & Cv).
    unfold lift_x. rewrite Fx.
    assert (Ec : fmul y y = curve_rhs x).
    { unfold curve_rhs. apply feq_eq; [apply fmul_range|apply fadd_range|exact Cv]. }
    pose proof (sqrt_ok (curve_rhs x) y Fy Ec) as Hs.
    set (ys := fsqrt (curve_rhs x)) in *.
    assert (Fys : in_field ys = true) by apply fsqrt_range.
    rewrite Hs, Z.eqb_refl.
    assert (Sq : feq (fmul ys ys) (fmul y y)) by (rewrite Hs, Ec; reflexivity).
    apply (fsquare_eq prime_p) in Sq. destruct Sq as [Sq|Sq].
    - assert (E : ys = y) by (apply feq_eq; assumption). rewrite E.
      rewrite eqb_reflx. rewrite eqb_reflx. reflexivity.
    - assert (E : ys = fneg y) by (apply feq_eq; [exact Fys|apply fneg_range|exact Sq]).
      destruct (Z.eq_dec y 0) as [Y0|Y0].
      + subst y. change (fneg 0) with 0 in E. rewrite E. rewrite eqb_reflx. rewrite eqb_reflx. reflexivity.
      + assert (Hy : 0 < y < p) by (unfold in_field in Fy; lia).
        rewrite E. rewrite fneg_parity by exact Hy.
        assert (Eb : Bool.eqb (negb (Z.odd y)) (Z.odd y) = false) by (destruct (Z.odd y); reflexivity).
        rewrite Eb.
        assert (En : fneg (fneg y) = y) by (apply feq_eq; [apply fneg_range|exact Fy|ring]).
        rewrite En, eqb_reflx. reflexivity.
  Qed.

  Lemma compress_parse P bs : on_curve P = true -> compress P = Some bs -> parse_pubkey bs = inl P.
  Proof.
    destruct P as [|x y]; [discriminate|]. intros O. cbn [compress]. intros E. injection E as <-.
    pose proof (lift_x_complete x y O) as HL. apply on_curve_inv in O as (Fx & Fy & _).
    assert (Hx : 0 <= x < 256 ^ Z.of_nat 32).
    { unfold in_field in Fx. pose proof p_lt_256 as Hp. rewrite <- pow256_32 in Hp.
      revert Fx Hp. generalize (256 ^ Z.of_nat 32). generalize p. clear. intros P256 B Fx Hp. lia. }
    rewrite (parse_pubkey_cons (if Z.odd y then 3 else 2) (be_bytes 32 x) x (Z.odd y)).
    - rewrite HL. reflexivity.
    - apply be_bytes_length.
    - destruct (Z.odd y); split; reflexivity.
    - apply be_val_be_bytes. exact Hx.
    - exact Fx.
  Qed.

  (* byte level: cipher.ECDH(pubB, secA) = cipher.ECDH(pubA, secB) *)
  Theorem ecdh_sym a b pa pb :
    pubkey_of_seckey a = Some pa -> pubkey_of_seckey b = Some pb -> ecdh pb a = ecdh pa b.
  Proof.
    unfold pubkey_of_seckey, ecdh.
    destruct (seckey_valid a) eqn:Va; [|discriminate]. destruct (seckey_valid b) eqn:Vb; [|discriminate].
    apply seckey_valid_iff in Va. apply seckey_valid_iff in Vb.
    intros Ea Eb. cbn [negb].
    assert (Oa : on_curve (smulx a G) = true) by (rewrite smulxG; apply sclosed, G_on_curve).
    assert (Ob : on_curve (smulx b G) = true) by (rewrite smulxG; apply sclosed, G_on_curve).
    rewrite (compress_parse _ _ Oa Ea), (compress_parse _ _ Ob Eb).
    rewrite ecdh_sym_points by lia. reflexivity.
  Qed.
  (* ---- recovery returns the signer's key *)
  Lemma double_nonzero a : 0 < a < n -> padd (smul a G) (smul a G) <> Inf.
  Proof.
    intros Ha H. rewrite <- smul_add in H by (lia || exact G_on_curve).
    apply smulG_Inf in H; [|lia]. unfold eqn in H. rewrite Zmod_0_l in H.
    apply Zmod_divide in H; [|intro; discriminate]. destruct H as [q Hq].
    pose proof n_half as Hn. clear - Ha Hq Hn. assert (q = 1) by nia. subst q. lia.
  Qed.

  (* the common core: the decompressed point is c*G and the scalars combine to k *)
  Lemma recover_core m r s v k rx R' c ri :
    0 < k < n -> 0 < r < n -> 0 < s < n ->
    (if Z.odd (v / 2) then r + n else r) = rx -> (Z.odd (v / 2) && (p <=? rx)) = false ->
    lift_x (Z.odd v) rx = Some R' -> R' = smul c G -> 0 <= c ->
    modinv r n = Some ri ->
    eqn ((ri * s) mod n * c + (n - (ri * m) mod n) mod n) k ->
    recover m r s v = inl (smul k G).
  Proof.
    intros Hk Hr Hs Hx Hpx HL HR' Hc Hri Ec.
    pose proof (mod_n_nonneg (ri * s)) as R2. pose proof (mod_n_nonneg (n - (ri * m) mod n)) as R1.
    set (u1 := (n - (ri * m) mod n) mod n) in *. set (u2 := (ri * s) mod n) in *.
    assert (OR'' : on_curve R' = true) by (rewrite HR'; apply sclosed, G_on_curve).
    assert (N1 : 0 <= u2 * c) by nia. assert (N2 : 0 <= u2 * c + u1) by nia.
    assert (L : lincomb u2 R' u1 G = smul k G).
    { rewrite (lincomb_correct prime_p) by (exact G_on_curve || exact OR'').
      rewrite HR'. rewrite <- smul_mul by (lia || exact G_on_curve).
      rewrite <- smul_add by (lia || exact G_on_curve).
      apply smulG_eqn; [exact N2|lia|exact Ec]. }
    pose proof (smulG_nonzero k Hk) as NZ.
    assert (T1 : (r =? 0) = false) by lia. assert (T2 : (r <? 0) = false) by lia.
    assert (T3 : (n <=? r) = false) by lia. assert (T4 : ((s <=? 0) || (n <=? s)) = false) by lia.
    clear - T1 T2 T3 T4 Hx Hpx HL Hri L NZ.
    unfold recover. rewrite T1, T2, T3, T4, Hx, Hpx, HL, Hri.
    change ((n - (ri * m) mod n) mod n) with u1. change ((ri * s) mod n) with u2. rewrite L.
    destruct (smul k G) as [|qx qy]; [exfalso; apply NZ; reflexivity|reflexivity].
  Qed.

  (* Both (r, s0, v0) and its negation (r, n - s0, v0 xor 1) recover the signer's key:
     s0 is the un-normalised s of the nonce, v0 its recovery id. *)
  Lemma recover_both k m nonce rx ry ki :
    0 < k < n -> 0 <= m -> 0 < nonce < n ->
    smul nonce G = Aff rx ry -> modinv nonce n = Some ki ->
    let r := rx mod n in
    let s0 := (ki * ((r * k + m) mod n)) mod n in
    let v0 := (if n <=? rx then 2 else 0) + (if Z.odd ry then 1 else 0) in
    let v1 := if Z.odd v0 then v0 - 1 else v0 + 1 in
    r <> 0 -> s0 <> 0 ->
    recover m r s0 v0 = inl (smul k G) /\ recover m r (n - s0) v1 = inl (smul k G).
  Proof.
    intros Hk Hm Hnonce ER Hki r s0 v0 v1 Hr0 Hs0.
    apply modinv_n_sound in Hki as [Eki Rki].
    pose proof n_half as Hn.
    assert (OR : on_curve (Aff rx ry) = true) by (rewrite <- ER; apply sclosed, G_on_curve).
    pose proof OR as OR'. apply on_curve_inv in OR' as (Frx & Fry & _).
    assert (Hry : ry <> 0).
    { intros E0. apply (double_nonzero nonce Hnonce). rewrite ER, E0.
      cbn [padd]. rewrite Z.eqb_refl. reflexivity. }
    assert (Hry' : 0 < ry < p) by (unfold in_field in Fry; lia).
    assert (Rr : 0 <= r < n) by apply mod_n_nonneg.
    assert (Rs0 : 0 <= s0 < n) by apply mod_n_nonneg.
    assert (Es0 : eqn s0 (ki * (r * k + m))).
    { unfold s0. rewrite eqn_mod. apply mul_eqn; [reflexivity|apply eqn_mod]. }
    assert (Hrn : r mod n <> 0) by (rewrite Z.mod_small; lia).
    destruct (modinv_n r Hrn) as (ri & Hri & Eri & Rri).
    assert (Eu1 : eqn ((n - (ri * m) mod n) mod n) (- (ri * m))).
    { rewrite eqn_mod. rewrite eqn_mod. rewrite eqn_n. reflexivity. }
    pose proof (scalar_recover ki nonce r k m s0 ri Eki Es0 Eri) as Ecore.
    assert (Hx : (if n <=? rx then r + n else r) = rx).
    { apply (rx_of_r n p); [reflexivity|exact p_lt_2n|unfold in_field in Frx; lia]. }
    assert (Hpx : (p <=? rx) = false) by (unfold in_field in Frx; lia).
    pose proof (recid_bits (n <=? rx) (Z.odd ry)) as Hbits. cbv zeta in Hbits.
    fold v0 in Hbits. fold v1 in Hbits. destruct Hbits as (B1 & B2 & B3 & B4).
    assert (ONeg : on_curve (Aff rx (fneg ry)) = true) by (apply (nclosed (Aff rx ry)); exact OR).
    split.
    - apply (recover_core m r s0 v0 k rx (Aff rx ry) nonce ri).
      + exact Hk.
      + lia.
      + lia.
      + rewrite B1. exact Hx.
      + rewrite Hpx. apply andb_false_r.
      + rewrite B2. apply lift_x_complete. exact OR.
      + symmetry. exact ER.
      + lia.
      + exact Hri.
      + rewrite Eu1, !eqn_mod. exact Ecore.
    - apply (recover_core m r (n - s0) v1 k rx (Aff rx (fneg ry)) ((- nonce) mod n) ri).
      + exact Hk.
      + lia.
      + lia.
      + rewrite B3. exact Hx.
      + rewrite Hpx. apply andb_false_r.
      + rewrite B4. rewrite <- (fneg_parity ry Hry'). apply lift_x_complete. exact ONeg.
      + rewrite smulG_neg by lia. rewrite ER. reflexivity.
      + apply mod_n_nonneg.
      + exact Hri.
      + rewrite Eu1, !eqn_mod.
        assert (E1 : eqn (n - s0) (- s0)) by (rewrite eqn_n; reflexivity).
        rewrite E1. rewrite <- Ecore.
        apply add_eqn; [|reflexivity].
        transitivity (- (ri * s0) * - nonce); [apply mul_eqn; [|reflexivity]; apply eqn_refl'; lia|].
        rewrite neg_neg_prod. reflexivity.
  Qed.

  Lemma flip_flip (hi od : bool) :
    let v0 := (if hi then 2 else 0) + (if od then 1 else 0) in
    let v1 := if Z.odd v0 then v0 - 1 else v0 + 1 in
    (if Z.odd v1 then v1 - 1 else v1 + 1) = v0.
  Proof. destruct hi, od; reflexivity. Qed.

  Theorem recover_sign k m nonce r s v :
    0 < k < n -> 0 <= m -> 0 < nonce < n ->
    sign k m nonce = Some (r, s, v) -> r <> 0 ->
    recover m r s v = inl (smul k G).
  Proof.
    intros Hk Hm Hnonce Hs Hr0.
    apply sign_inv in Hs as (rx & ry & ki & ER & Hrx & Hki & Hr & H).
    cbv zeta in H. destruct H as (Hs0 & Hcase).
    rewrite smulxG in ER. subst r.
    destruct (recover_both k m nonce rx ry ki Hk Hm Hnonce ER Hki Hr0 Hs0) as [A B].
    destruct Hcase as [(_ & -> & ->)|(_ & -> & ->)]; assumption.
  Qed.

  (* the malleated signature (r, n - s, recid xor 1) of a produced signature recovers the
     same key: whether it is ACCEPTED therefore depends on the bit test of n - s alone *)
  Theorem malleated_recovers_signer k m nonce r s v :
    0 < k < n -> 0 <= m -> 0 < nonce < n ->
    sign k m nonce = Some (r, s, v) -> r <> 0 ->
    recover m r (n - s) (if Z.odd v then v - 1 else v + 1) = inl (smul k G).
  Proof.
    intros Hk Hm Hnonce Hs Hr0.
    apply sign_inv in Hs as (rx & ry & ki & ER & Hrx & Hki & Hr & H).
    cbv zeta in H. destruct H as (Hs0 & Hcase).
    rewrite smulxG in ER. subst r.
    destruct (recover_both k m nonce rx ry ki Hk Hm Hnonce ER Hki Hr0 Hs0) as [A B].
    destruct Hcase as [(_ & -> & ->)|(_ & -> & ->)].
    - rewrite (flip_flip (n <=? rx) (Z.odd ry)).
      replace (n - (n - (ki * ((rx mod n * k + m) mod n)) mod n)) with ((ki * ((rx mod n * k + m) mod n)) mod n) by lia.
      exact A.
    - exact B.
  Qed.
End GroupLaw.
