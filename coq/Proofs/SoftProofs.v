(* Proofs about the soft rules (Model/Soft.v over the regenerated Gen/Fee.v,
   Gen/Droplet.v, Gen/CoinHours.v, Gen/Mathutil.v, Gen/VerifyParams.v) — property C11. *)
From Sky Require Import Base.Uint Model.ArithSpec Model.HoursSpec Model.Hours Model.SoftSpec Model.Soft
  Gen.Mathutil Gen.Fee Gen.Droplet Gen.CoinHours Gen.VerifyParams
  Proofs.UintLemmas Proofs.MathutilProofs Proofs.FeeProofs Proofs.CoinHoursProofs Proofs.HoursProofs.
From Coq Require Import Lia ZifyBool.
Open Scope Z_scope.

(* ---- parameters: the translated VerifyTxn.Validate accepts exactly valid_params *)

Lemma Validate_spec p : in_u 32 (p_burn p) -> in_u 32 (p_maxsize p) -> in_u 8 (p_prec p) ->
  (VerifyTxn_Validate (p_burn p) (p_maxsize p) (p_prec p) = Val None <-> valid_params p).
Proof.
  unfold in_u, VerifyTxn_Validate, valid_params. intros Hb Hm Hp.
  destruct (p_burn p <? 2) eqn:E1; [split; [discriminate|lia]|].
  destruct (p_maxsize p <? 1024) eqn:E2; [split; [discriminate|lia]|].
  destruct (p_prec p >? 6) eqn:E3; [split; [discriminate|lia]|].
  split; [intros _; lia | reflexivity].
Qed.

(* ---- decimal precision *)

Lemma DropletPrecisionToDivisor_spec prec : 0 <= prec <= 6 ->
  DropletPrecisionToDivisor prec = Val (10 ^ (6 - prec)).
Proof.
  intros H.
  assert (C : prec = 0 \/ prec = 1 \/ prec = 2 \/ prec = 3 \/ prec = 4 \/ prec = 5 \/ prec = 6) by lia.
  destruct C as [C | [C | [C | [C | [C | [C | C]]]]]]; subst prec; vm_compute; reflexivity.
Qed.

Lemma pow10_pos prec : 0 <= prec <= 6 -> 0 < 10 ^ (6 - prec).
Proof. intros H. apply Z.pow_pos_nonneg; lia. Qed.

Lemma DropletPrecisionCheck_spec prec amount : 0 <= prec <= 6 ->
  DropletPrecisionCheck prec amount =
    Val (if amount mod 10 ^ (6 - prec) =? 0 then None else Some "ErrInvalidDecimals"%string).
Proof.
  intros H. unfold DropletPrecisionCheck. rewrite DropletPrecisionToDivisor_spec by exact H.
  rewrite bind_val. pose proof (pow10_pos prec H). rewrite umod_nz by lia. rewrite !bind_val.
  destruct (amount mod 10 ^ (6 - prec) =? 0); reflexivity.
Qed.

Lemma precision_loop_spec prec outs : 0 <= prec <= 6 ->
  precision_loop prec outs =
    Val (if forallb (precision_ok prec) outs then None else Some "ErrInvalidDecimals"%string).
Proof.
  intros H. induction outs as [|o r IH]; [reflexivity|].
  cbn [precision_loop forallb]. rewrite DropletPrecisionCheck_spec by exact H. rewrite bind_val.
  unfold precision_ok at 1.
  destruct (o_coins o mod 10 ^ (6 - prec) =? 0); cbn [is_err andb]; [exact IH | reflexivity].
Qed.

(* ---- locked distribution addresses *)

Lemma TransactionIsLocked_spec d ins : valid_dist d ->
  TransactionIsLocked d ins = Val (spends_locked d ins).
Proof.
  unfold valid_dist, TransactionIsLocked, LockedAddresses, spends_locked, locked_addrs. intros H.
  replace (Z.of_nat (List.length (d_addrs d)) <? d_unlocked d) with false by lia.
  reflexivity.
Qed.

Lemma memZ_In a l : memZ a l = true <-> In a l.
Proof.
  unfold memZ. rewrite existsb_exists. split.
  - intros (x & Hx & E). apply Z.eqb_eq in E. subst x. exact Hx.
  - intros H. exists a. split; [exact H | apply Z.eqb_refl].
Qed.

Lemma spends_locked_iff d ins :
  spends_locked d ins = true <-> exists i, In i ins /\ In (i_addr i) (locked_addrs d).
Proof.
  unfold spends_locked. rewrite existsb_exists. split.
  - intros (i & Hi & M). exists i. split; [exact Hi | apply memZ_In; exact M].
  - intros (i & Hi & M). exists i. split; [exact Hi | apply memZ_In; exact M].
Qed.

(* ---- hours: errors of the hour computations are never one of the six rule names *)

Lemma coin_hours_err_class T i h e : wf_in i -> in_u 64 T ->
  coin_hours T i = Val (h, e) -> is_err e = true -> classify e = SHoursErr.
Proof.
  intros Hw HT H He.
  destruct (coin_hours_cases T i Hw HT) as [(M & A & C) | [(M & A & C) | (M & e' & C & _ & N3)]];
    rewrite C in H; inversion H; subst.
  - discriminate.
  - reflexivity.
  - destruct N3 as [N | [N | N]]; subst e; reflexivity.
Qed.

Lemma uxarray_err_class T ins : Forall wf_in ins -> in_u 64 T -> forall acc h s,
  uxarray_hours_loop T ins acc = Val (h, Some s) -> classify (Some s) = SHoursErr.
Proof.
  intros Hw HT. induction Hw as [|i r Hi Hr IH]; intros acc h s H.
  - cbn [uxarray_hours_loop] in H. discriminate.
  - cbn [uxarray_hours_loop] in H.
    destruct (coin_hours T i) as [|[hi e]] eqn:C; cbn [bind] in H; [discriminate|].
    destruct (is_err e) eqn:Ee.
    + inversion H; subst. apply (coin_hours_err_class T i hi (Some s) Hi HT C Ee).
    + destruct (AddUint64 acc hi) as [|[s2 e2]]; cbn [bind] in H; [discriminate|].
      destruct (is_err e2).
      * inversion H; subst. reflexivity.
      * apply (IH _ _ _ H).
Qed.

Lemma UxArray_CoinHours_spec T ins : Forall wf_in ins -> in_u 64 T ->
  (forallb (acc_ok T) ins = true /\ in_acc_sum T ins < 2 ^ 64 /\
   UxArray_CoinHours T ins = Val (in_acc_sum T ins, None)) \/
  ((forallb (acc_ok T) ins = false \/ 2 ^ 64 <= in_acc_sum T ins) /\
   exists s, UxArray_CoinHours T ins = Val (0, Some s) /\ classify (Some s) = SHoursErr).
Proof.
  intros Hw HT. unfold UxArray_CoinHours.
  destruct (uxarray_hours_loop_spec T ins Hw HT 0 ltac:(rewrite pow64; lia)) as [(F & S & L) | (C & s & L)].
  - left. rewrite Z.add_0_l in *. split; [exact F|]. split; [exact S | exact L].
  - right. rewrite Z.add_0_l in C. split; [exact C|]. exists s. split; [exact L|].
    apply (uxarray_err_class T ins Hw HT 0 0 s L).
Qed.

Lemma in_acc_sum_nonneg T ins : Forall wf_in ins -> in_u 64 T -> 0 <= in_acc_sum T ins.
Proof.
  intros Hw HT. apply sumZ_nonneg. intros x Hx. rewrite Forall_forall in Hw.
  apply acc_hours_nonneg; [apply Hw; exact Hx | exact HT].
Qed.

(* fee.TransactionFee: the fee is input hours minus output hours *)
Lemma TransactionFee_spec T ins outs : Forall wf_in ins -> Forall wf_out outs -> in_u 64 T ->
  (hours_computable T ins outs = true /\
   TransactionFee T ins outs =
     if in_acc_sum T ins <? out_sum outs then Val (0, Some "ErrTxnInsufficientCoinHours"%string)
     else Val (in_acc_sum T ins - out_sum outs, None)) \/
  (hours_computable T ins outs = false /\
   exists s, TransactionFee T ins outs = Val (0, Some s) /\ classify (Some s) = SHoursErr).
Proof.
  intros Hi Ho HT. unfold TransactionFee, hours_computable.
  pose proof (out_sum_nonneg outs Ho) as Hos. pose proof (in_acc_sum_nonneg T ins Hi HT) as His.
  destruct (UxArray_CoinHours_spec T ins Hi HT) as [(F & S & L) | (C & s & L & K)]; rewrite L, bind_val.
  - cbn [is_err]. rewrite OutputHours_spec by exact Ho. rewrite F.
    replace (in_acc_sum T ins <? 2 ^ 64) with true by lia. cbn [andb].
    destruct (out_sum outs <? 2 ^ 64) eqn:E; rewrite bind_val; cbn [is_err].
    + left. split; [reflexivity|].
      destruct (in_acc_sum T ins <? out_sum outs) eqn:E2; [reflexivity|].
      rewrite wrap_small by lia. reflexivity.
    + right. split; [reflexivity|]. eexists. split; reflexivity.
  - cbn [is_err]. right. split.
    + destruct C as [C | C]; [rewrite C; reflexivity|].
      replace (in_acc_sum T ins <? 2 ^ 64) with false by lia. rewrite andb_false_r. reflexivity.
    + exists s. split; [reflexivity | exact K].
Qed.

(* ---- the soft rules *)

(* the model returns (never panics on validated parameters) and the rule it
   reports is the one the specification puts first *)
Theorem soft_spec_correct sz serr T ins outs d p :
  Forall wf_in ins -> Forall wf_out outs -> in_u 64 T -> valid_params p -> valid_dist d ->
  exists e, verifyTxnSoftConstraints (sz, serr) T ins outs d p = Val e /\
            classify e = soft_spec (is_err serr) sz T ins outs d p.
Proof.
  intros Hi Ho HT (Hb & Hm & Hp) Hd. unfold verifyTxnSoftConstraints, soft_spec.
  destruct (is_err serr) eqn:Es; cbn [orb].
  { eexists. split; reflexivity. }
  destruct (sz >? p_maxsize p) eqn:E1.
  { replace (p_maxsize p <? sz) with true by lia. eexists. split; reflexivity. }
  replace (p_maxsize p <? sz) with false by lia.
  pose proof (out_sum_nonneg outs Ho) as Hos. pose proof (in_acc_sum_nonneg T ins Hi HT) as His.
  destruct (TransactionFee_spec T ins outs Hi Ho HT) as [(Hc & L) | (Hc & s & L & K)]; rewrite L, Hc; cbn [negb].
  2:{ rewrite bind_val. cbn [is_err]. exists (Some s). split; [reflexivity | exact K]. }
  cbv zeta.
  destruct (in_acc_sum T ins <? out_sum outs) eqn:E2; rewrite bind_val; cbn [is_err].
  { eexists. split; reflexivity. }
  unfold hours_computable in Hc.
  unfold VerifyTransactionFee. rewrite OutputHours_spec by exact Ho.
  replace (out_sum outs <? 2 ^ 64) with true by lia. rewrite bind_val. cbn [is_err].
  rewrite VerifyTransactionFeeForHours_spec by (unfold in_u; lia).
  rewrite bind_val. unfold fee_verdict.
  destruct (in_acc_sum T ins - out_sum outs =? 0) eqn:E3.
  { cbn [is_err]. eexists. split; reflexivity. }
  replace (2 ^ 64 <=? out_sum outs + (in_acc_sum T ins - out_sum outs)) with false by lia.
  replace (out_sum outs + (in_acc_sum T ins - out_sum outs)) with (in_acc_sum T ins) by lia.
  destruct (in_acc_sum T ins - out_sum outs <? ceil_div (in_acc_sum T ins) (p_burn p)) eqn:E4.
  { cbn [is_err]. eexists. split; reflexivity. }
  cbn [is_err]. rewrite TransactionIsLocked_spec by exact Hd. rewrite bind_val.
  destruct (spends_locked d ins) eqn:E5.
  { eexists. split; reflexivity. }
  rewrite precision_loop_spec by exact Hp.
  destruct (forallb (precision_ok (p_prec p)) outs); cbn [negb]; eexists; split; reflexivity.
Qed.

Lemma classify_accept e : classify e = SAccept <-> e = None.
Proof.
  split; [|intros ->; reflexivity]. destruct e as [s|]; [|reflexivity]. unfold classify.
  repeat match goal with |- context [if ?c then _ else _] => destruct c end; discriminate.
Qed.

Lemma ceil_div_nonneg h b : 0 <= h -> 1 <= b -> 0 <= ceil_div h b.
Proof. intros. unfold ceil_div. apply Z.div_pos; lia. Qed.

(* C11: the soft rules accept EXACTLY the transactions that are within the size
   limit, whose input hours at the head time and output hours are computable,
   whose fee = input hours - output hours is non-zero and at least
   ceil(input hours / burn factor), that spend no output of a locked
   distribution address and whose output amounts have the allowed precision *)
Theorem soft_iff sz serr T ins outs d p :
  Forall wf_in ins -> Forall wf_out outs -> in_u 64 T -> valid_params p -> valid_dist d ->
  let fee := in_acc_sum T ins - out_sum outs in
  (verifyTxnSoftConstraints (sz, serr) T ins outs d p = Val None <->
   serr = None /\ sz <= p_maxsize p /\
   hours_computable T ins outs = true /\
   fee <> 0 /\ ceil_div (in_acc_sum T ins) (p_burn p) <= fee /\
   (forall i, In i ins -> ~ In (i_addr i) (locked_addrs d)) /\
   (forall o, In o outs -> o_coins o mod 10 ^ (6 - p_prec p) = 0)).
Proof.
  intros Hi Ho HT Hv Hd fee.
  destruct (soft_spec_correct sz serr T ins outs d p Hi Ho HT Hv Hd) as (e & L & K).
  rewrite L. destruct Hv as (Hb & Hm & Hp).
  pose proof (in_acc_sum_nonneg T ins Hi HT) as His.
  pose proof (ceil_div_nonneg (in_acc_sum T ins) (p_burn p) His ltac:(lia)) as Hcd.
  assert (Hlock : spends_locked d ins = false <-> (forall i, In i ins -> ~ In (i_addr i) (locked_addrs d))).
  { split.
    - intros H i Hin Hl. assert (spends_locked d ins = true) by (apply spends_locked_iff; exists i; tauto). congruence.
    - intros H. destruct (spends_locked d ins) eqn:E; [|reflexivity]. apply spends_locked_iff in E.
      destruct E as (i & A & B). exfalso. apply (H i A B). }
  assert (Hprec : forallb (precision_ok (p_prec p)) outs = true <->
                  (forall o, In o outs -> o_coins o mod 10 ^ (6 - p_prec p) = 0)).
  { rewrite forallb_forall. unfold precision_ok. split; intros H o Hin; specialize (H o Hin); lia. }
  split.
  - intros H. inversion H; subst e. clear H L. cbn [classify] in K. symmetry in K.
    unfold soft_spec in K. cbv zeta in K. fold fee in K.
    destruct (is_err serr) eqn:E0; cbn [orb] in K; [discriminate|].
    destruct (p_maxsize p <? sz) eqn:E1; [discriminate|].
    destruct (hours_computable T ins outs) eqn:E2; cbn [negb] in K; [|discriminate].
    destruct (in_acc_sum T ins <? out_sum outs) eqn:E3; [discriminate|].
    destruct (fee =? 0) eqn:E4; [discriminate|].
    destruct (fee <? ceil_div (in_acc_sum T ins) (p_burn p)) eqn:E5; [discriminate|].
    destruct (spends_locked d ins) eqn:E6; [discriminate|].
    destruct (forallb (precision_ok (p_prec p)) outs) eqn:E7; cbn [negb] in K; [|discriminate].
    split; [destruct serr; [discriminate|reflexivity]|].
    split; [lia|]. split; [reflexivity|]. split; [lia|]. split; [lia|].
    split; [apply Hlock; reflexivity | apply Hprec; reflexivity].
  - intros (A1 & A2 & A3 & A4 & A5 & A6 & A7).
    assert (K' : soft_spec (is_err serr) sz T ins outs d p = SAccept).
    { unfold soft_spec. cbv zeta. fold fee. subst serr. cbn [is_err orb].
      replace (p_maxsize p <? sz) with false by lia. rewrite A3. cbn [negb].
      replace (in_acc_sum T ins <? out_sum outs) with false by lia.
      replace (fee =? 0) with false by lia.
      replace (fee <? ceil_div (in_acc_sum T ins) (p_burn p)) with false by lia.
      apply Hlock in A6. rewrite A6. apply Hprec in A7. rewrite A7. reflexivity. }
    rewrite K' in K. apply classify_accept in K. subst e. reflexivity.
Qed.

(* ---- soft / hard are never crossed *)

(* every error of the soft checker is tagged soft *)
Theorem soft_checker_tags_soft size T ins outs d p v :
  VerifySingleTxnSoftConstraints size T ins outs d p = Val v ->
  verdict_class v = None \/ verdict_class v = Some Soft.
Proof.
  unfold VerifySingleTxnSoftConstraints. intros H.
  destruct (verifyTxnSoftConstraints size T ins outs d p) as [|e]; cbn [bind] in H; [discriminate|].
  inversion H. destruct e; cbn; [right|left]; reflexivity.
Qed.

(* a transaction that passed the hard rules of the single-transaction checker
   can fail the soft checker only for one of the five documented soft reasons:
   the hour computations cannot fail and the outputs cannot exceed the inputs *)
Theorem soft_after_hard_documented pre sz serr T ins outs d p :
  Forall wf_in ins -> Forall wf_out outs -> in_u 64 T -> valid_params p -> valid_dist d ->
  Hours.VerifySingleTxnHardConstraints pre T ins outs = Val None ->
  exists e, verifyTxnSoftConstraints (sz, serr) T ins outs d p = Val e /\
            (e = None \/ documented_soft (classify e) = true).
Proof.
  intros Hi Ho HT Hv Hd Hh.
  destruct (soft_spec_correct sz serr T ins outs d p Hi Ho HT Hv Hd) as (e & L & K).
  exists e. split; [exact L|]. rewrite K.
  apply single_accepts_iff in Hh; try assumption. destruct Hh as (_ & _ & Hp).
  unfold pool_hours_ok in Hp.
  assert (Hc : hours_computable T ins outs = true) by (unfold hours_computable; lia).
  assert (Hle : in_acc_sum T ins <? out_sum outs = false) by lia.
  unfold soft_spec in *. cbv zeta in *. rewrite Hc, Hle in *. cbn [negb] in *.
  repeat match goal with
         | |- context [if ?c then _ else _] => destruct c eqn:?
         end; try (right; reflexivity).
  left. apply classify_accept. exact K.
Qed.
