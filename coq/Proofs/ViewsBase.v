(* Basic lemmas for C07: membership, dedup, association lists, option folds, xor. *)
From Sky Require Import Base.Uint Model.Views.
From Coq Require Import Lia ZifyBool ZArith Bool List Permutation.
Import ListNotations.
Open Scope Z_scope.

(* ---------- memZ / nodup_b / dedup *)

Lemma memZ_In x l : memZ x l = true <-> In x l.
Proof.
  unfold memZ. rewrite existsb_exists. split.
  - intros (y & Hy & E). apply Z.eqb_eq in E. now subst.
  - intros H. exists x. split; [exact H | apply Z.eqb_refl].
Qed.

Lemma memZ_false x l : memZ x l = false <-> ~ In x l.
Proof.
  rewrite <- memZ_In. destruct (memZ x l); split; intros H.
  - discriminate.
  - exfalso. apply H. reflexivity.
  - intros H'. discriminate.
  - reflexivity.
Qed.

Lemma memZ_app x a b : memZ x (a ++ b) = memZ x a || memZ x b.
Proof. unfold memZ. apply existsb_app. Qed.

Lemma nodup_b_NoDup l : nodup_b l = true <-> NoDup l.
Proof.
  induction l as [|x r IH]; cbn [nodup_b].
  - split; [constructor | reflexivity].
  - rewrite andb_true_iff, negb_true_iff, memZ_false, IH. split.
    + intros [H1 H2]. now constructor.
    + intros H. inversion H. auto.
Qed.

Lemma NoDup_snoc {A} (l : list A) x : NoDup l -> ~ In x l -> NoDup (l ++ [x]).
Proof.
  intros Hl Hx. induction Hl as [|y r Hy Hr IH]; cbn.
  - constructor; [intros [] | constructor].
  - constructor.
    + rewrite in_app_iff. cbn. intros [H|[H|[]]]; [auto | subst; apply Hx; now left].
    + apply IH. intros H. apply Hx. now right.
Qed.

Lemma NoDup_app_inv {A} (a b : list A) :
  NoDup (a ++ b) -> NoDup a /\ NoDup b /\ (forall x, In x a -> ~ In x b).
Proof.
  induction a as [|x r IH]; cbn; intros H.
  - repeat split; [constructor | exact H | intros x []].
  - inversion H as [|? ? Hx Hr]; subst. destruct (IH Hr) as (A1 & B1 & C1).
    repeat split.
    + constructor; [|exact A1]. intros Hin. apply Hx. apply in_app_iff. now left.
    + exact B1.
    + intros y [->|Hy] Hb; [apply Hx; apply in_app_iff; now right | exact (C1 y Hy Hb)].
Qed.

Lemma NoDup_app_intro {A} (a b : list A) :
  NoDup a -> NoDup b -> (forall x, In x a -> ~ In x b) -> NoDup (a ++ b).
Proof.
  intros Ha Hb Hd. induction Ha as [|x r Hx Hr IH]; cbn; [exact Hb|].
  constructor.
  - rewrite in_app_iff. intros [H|H]; [auto | exact (Hd x (or_introl eq_refl) H)].
  - apply IH. intros y Hy. apply Hd. now right.
Qed.

Definition dstep (acc : list Z) (x : Z) : list Z := if memZ x acc then acc else acc ++ [x].

Lemma dedup_snoc l x : dedup (l ++ [x]) = dstep (dedup l) x.
Proof. unfold dedup. rewrite fold_left_app. reflexivity. Qed.

Lemma dfold_spec l : forall acc,
  NoDup acc ->
  NoDup (fold_left dstep l acc) /\
  (forall x, In x (fold_left dstep l acc) <-> In x acc \/ In x l).
Proof.
  induction l as [|y r IH]; intros acc Hnd; cbn [fold_left].
  - split; [exact Hnd|]. intros x; cbn; tauto.
  - unfold dstep at 2 4. destruct (memZ y acc) eqn:E.
    + destruct (IH acc Hnd) as (A & B). split; [exact A|].
      intros x. rewrite B. cbn [In]. apply memZ_In in E. split; [tauto|].
      intros [H|[H|H]]; subst; auto.
    + apply memZ_false in E.
      destruct (IH (acc ++ [y]) (NoDup_snoc acc y Hnd E)) as (A & B). split; [exact A|].
      intros x. rewrite B, in_app_iff. cbn [In]. tauto.
Qed.

Lemma dedup_NoDup l : NoDup (dedup l).
Proof. apply (dfold_spec l []). constructor. Qed.

Lemma dedup_In l x : In x (dedup l) <-> In x l.
Proof.
  pose proof (proj2 (dfold_spec l [] (NoDup_nil Z)) x) as H. unfold dedup.
  fold dstep. rewrite H. cbn. tauto.
Qed.

(* ---------- filters *)

Lemma filter_ext_in' {A} (f g : A -> bool) l :
  (forall x, In x l -> f x = g x) -> filter f l = filter g l.
Proof.
  induction l as [|x r IH]; intros H; cbn; [reflexivity|].
  rewrite (H x (or_introl eq_refl)), IH; [reflexivity|]. intros y Hy. apply H. now right.
Qed.

Lemma filter_all {A} (f : A -> bool) l : (forall x, In x l -> f x = true) -> filter f l = l.
Proof.
  induction l as [|x r IH]; intros H; cbn; [reflexivity|].
  rewrite (H x (or_introl eq_refl)), IH; [reflexivity|]. intros y Hy. apply H. now right.
Qed.

Lemma filter_none {A} (f : A -> bool) l : (forall x, In x l -> f x = false) -> filter f l = [].
Proof.
  induction l as [|x r IH]; intros H; cbn; [reflexivity|].
  rewrite (H x (or_introl eq_refl)), IH; [reflexivity|]. intros y Hy. apply H. now right.
Qed.

Lemma filter_filter {A} (f g : A -> bool) l : filter f (filter g l) = filter (fun x => g x && f x) l.
Proof.
  induction l as [|x r IH]; cbn; [reflexivity|].
  destruct (g x); cbn; [destruct (f x); now rewrite IH | exact IH].
Qed.

Lemma filter_comm {A} (f g : A -> bool) l : filter f (filter g l) = filter g (filter f l).
Proof. rewrite !filter_filter. apply filter_ext_in'. intros x _. apply andb_comm. Qed.

Lemma filter_length_split {A} (f : A -> bool) l :
  (List.length l = List.length (filter f l) + List.length (filter (fun x => negb (f x)) l))%nat.
Proof.
  induction l as [|x r IH]; cbn; [reflexivity|]. destruct (f x); cbn; lia.
Qed.

Lemma NoDup_filter {A} (f : A -> bool) l : NoDup l -> NoDup (filter f l).
Proof.
  induction 1 as [|x r Hx Hr IH]; cbn; [constructor|].
  destruct (f x); [constructor|]; auto. intros H. apply filter_In in H. tauto.
Qed.

Lemma NoDup_map_filter {A B} (g : A -> B) (f : A -> bool) l : NoDup (map g l) -> NoDup (map g (filter f l)).
Proof.
  induction l as [|x r IH]; cbn; intros H; [constructor|].
  inversion H as [|? ? Hx Hr]; subst. destruct (f x); cbn; [constructor|]; auto.
  intros Hin. apply Hx. apply in_map_iff in Hin as (y & E & Hy). apply in_map_iff. exists y. split; [exact E|].
  apply filter_In in Hy. tauto.
Qed.

Lemma Permutation_filter {A} (f : A -> bool) l l' : Permutation l l' -> Permutation (filter f l) (filter f l').
Proof.
  induction 1 as [| x l l' _ IH | x y l | l l' l'' _ IH1 _ IH2]; cbn.
  - constructor.
  - destruct (f x); [now constructor | exact IH].
  - destruct (f x), (f y); try reflexivity. apply perm_swap.
  - now transitivity (filter f l').
Qed.

Lemma same_length_NoDup {A} (l l' : list A) :
  NoDup l -> NoDup l' -> (forall x, In x l <-> In x l') -> List.length l = List.length l'.
Proof. intros H1 H2 H3. apply Permutation_length. now apply NoDup_Permutation. Qed.

(* ---------- find in lists with unique keys *)

Lemma find_app {A} (f : A -> bool) l1 l2 :
  find f (l1 ++ l2) = match find f l1 with Some x => Some x | None => find f l2 end.
Proof. induction l1 as [|x r IH]; cbn; [reflexivity|]. destruct (f x); [reflexivity | exact IH]. Qed.

Lemma find_none_iff {A} (f : A -> bool) l : find f l = None <-> forall x, In x l -> f x = false.
Proof.
  split; [apply find_none|]. induction l as [|x r IH]; intros H; cbn; [reflexivity|].
  rewrite (H x (or_introl eq_refl)). apply IH. intros y Hy. apply H. now right.
Qed.

Lemma find_unique {A} (key : A -> Z) l x :
  NoDup (map key l) -> In x l -> find (fun y => key y =? key x) l = Some x.
Proof.
  induction l as [|y r IH]; cbn; intros Hnd Hin; [contradiction|].
  inversion Hnd as [|? ? Hy Hr]; subst. destruct Hin as [->|Hin].
  - now rewrite Z.eqb_refl.
  - destruct (key y =? key x) eqn:E.
    + exfalso. apply Hy. apply Z.eqb_eq in E. rewrite E. now apply in_map.
    + now apply IH.
Qed.

Lemma find_key_some {A} (key : A -> Z) l k x :
  find (fun y => key y =? k) l = Some x -> In x l /\ key x = k.
Proof. intros H. apply find_some in H as [H1 H2]. split; [exact H1 | lia]. Qed.

Lemma find_key_none {A} (key : A -> Z) l k :
  find (fun y => key y =? k) l = None <-> ~ In k (map key l).
Proof.
  rewrite find_none_iff. split.
  - intros H Hin. apply in_map_iff in Hin as (x & E & Hx). specialize (H x Hx). lia.
  - intros H x Hx. destruct (key x =? k) eqn:E; [|reflexivity]. exfalso. apply H.
    apply in_map_iff. exists x. split; [lia | exact Hx].
Qed.

(* ---------- association lists *)

Definition akeys {V} (m : amap V) : list Z := map fst m.

Lemma aget_aput_eq {V} k (v : V) m : aget k (aput k v m) = Some v.
Proof.
  induction m as [|[k' v'] r IH]; cbn.
  - now rewrite Z.eqb_refl.
  - destruct (k =? k') eqn:E; cbn; [now rewrite Z.eqb_refl | now rewrite E].
Qed.

Lemma aget_aput_neq {V} k k' (v : V) m : k <> k' -> aget k (aput k' v m) = aget k m.
Proof.
  intros Hne. induction m as [|[k2 v2] r IH]; cbn.
  - destruct (k =? k') eqn:E; [lia | reflexivity].
  - destruct (k' =? k2) eqn:E; cbn.
    + destruct (k =? k') eqn:E1; [lia|]. destruct (k =? k2) eqn:E2; [lia | reflexivity].
    + destruct (k =? k2); [reflexivity | exact IH].
Qed.

Lemma aget_adel_eq {V} k (m : amap V) : aget k (adel k m) = None.
Proof.
  induction m as [|[k' v'] r IH]; cbn; [reflexivity|].
  destruct (k =? k') eqn:E; cbn; [exact IH | now rewrite E].
Qed.

Lemma aget_adel_neq {V} k k' (m : amap V) : k <> k' -> aget k (adel k' m) = aget k m.
Proof.
  intros Hne. induction m as [|[k2 v2] r IH]; cbn; [reflexivity|].
  destruct (k' =? k2) eqn:E; cbn.
  - destruct (k =? k2) eqn:E2; [lia | exact IH].
  - destruct (k =? k2); [reflexivity | exact IH].
Qed.

Lemma aget_In_keys {V} k (m : amap V) : In k (akeys m) <-> aget k m <> None.
Proof.
  induction m as [|[k' v'] r IH]; cbn.
  - split; [intros [] | congruence].
  - destruct (k =? k') eqn:E.
    + split; [congruence | intros _; left; lia].
    + rewrite <- IH. split; [intros [H|H]; [lia | exact H] | now right].
Qed.

Lemma akeys_aput {V} k (v : V) m :
  akeys (aput k v m) = if existsb (Z.eqb k) (akeys m) then akeys m else akeys m ++ [k].
Proof.
  unfold akeys. induction m as [|[k' v'] r IH]; cbn [aput map fst existsb app]; [reflexivity|].
  destruct (k =? k') eqn:E; cbn [map fst orb].
  - f_equal. lia.
  - rewrite IH. destruct (existsb (Z.eqb k) (map fst r)); reflexivity.
Qed.

Lemma NoDup_akeys_aput {V} k (v : V) m : NoDup (akeys m) -> NoDup (akeys (aput k v m)).
Proof.
  intros H. rewrite akeys_aput. destruct (existsb (Z.eqb k) (akeys m)) eqn:E; [exact H|].
  apply NoDup_snoc; [exact H|]. fold (memZ k (akeys m)) in E. now apply memZ_false.
Qed.

Lemma akeys_adel {V} k (m : amap V) : akeys (adel k m) = filter (fun x => negb (k =? x)) (akeys m).
Proof.
  unfold akeys. induction m as [|[k' v'] r IH]; cbn [adel map fst filter]; [reflexivity|].
  destruct (k =? k'); cbn [negb map fst]; [exact IH | now rewrite IH].
Qed.

Lemma NoDup_akeys_adel {V} k (m : amap V) : NoDup (akeys m) -> NoDup (akeys (adel k m)).
Proof. intros H. rewrite akeys_adel. now apply NoDup_filter. Qed.

Lemma aget_list_aput_eq k v m : aget_list k (aput k v m) = v.
Proof. unfold aget_list. now rewrite aget_aput_eq. Qed.
Lemma aget_list_aput_neq k k' v m : k <> k' -> aget_list k (aput k' v m) = aget_list k m.
Proof. intros H. unfold aget_list. now rewrite aget_aput_neq. Qed.
Lemma aget_list_adel_eq k m : aget_list k (adel k m) = [].
Proof. unfold aget_list. now rewrite aget_adel_eq. Qed.
Lemma aget_list_adel_neq k k' m : k <> k' -> aget_list k (adel k' m) = aget_list k m.
Proof. intros H. unfold aget_list. now rewrite aget_adel_neq. Qed.

(* ---------- option fold *)

Lemma ofold_app {A S} (f : S -> A -> option S) l1 l2 s :
  ofold f (l1 ++ l2) s = match ofold f l1 s with Some s' => ofold f l2 s' | None => None end.
Proof.
  revert s. induction l1 as [|a r IH]; intros s; cbn; [reflexivity|].
  destruct (f s a); [apply IH | reflexivity].
Qed.

(* ---------- xor checksum *)

Lemma xor_list_acc l x : xor_list l x = Z.lxor x (xor_list l 0).
Proof.
  unfold xor_list. revert x. induction l as [|y r IH]; intros x; cbn [fold_left].
  - now rewrite Z.lxor_0_r.
  - rewrite IH, (IH (Z.lxor 0 y)), Z.lxor_0_l, Z.lxor_assoc. reflexivity.
Qed.

Lemma xor_list_app a b x : xor_list (a ++ b) x = xor_list b (xor_list a x).
Proof. unfold xor_list. apply fold_left_app. Qed.

Lemma xor_list_cons y l x : xor_list (y :: l) x = xor_list l (Z.lxor x y).
Proof. reflexivity. Qed.

Lemma xor_list_perm l l' x : Permutation l l' -> xor_list l x = xor_list l' x.
Proof.
  intros P. revert x. induction P as [| y l l' _ IH | y z l | l l' l'' _ IH1 _ IH2]; intros x.
  - reflexivity.
  - rewrite !xor_list_cons. apply IH.
  - rewrite !xor_list_cons. f_equal. rewrite !Z.lxor_assoc. f_equal. apply Z.lxor_comm.
  - now rewrite IH1.
Qed.

(* a value xor-ed in twice disappears *)
Lemma xor_twice x y : Z.lxor (Z.lxor x y) y = x.
Proof. now rewrite Z.lxor_assoc, Z.lxor_nilpotent, Z.lxor_0_r. Qed.
