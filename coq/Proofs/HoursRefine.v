(* Proofs/HoursRefine.v — the hand-written loop models of Model/Hours.v are
   EQUAL, for all inputs, to the Gallina that the translator regenerates from
   src/coin on every run (Gen/CoinLoops.v: loops over slices of structs),
   applied to the projections of the model's records that the translator's
   manifest names:
     inputs  (coin.UxArray)            -> (Head.Time, Body.Coins, Body.Hours)
     outputs ([]TransactionOutput / UxArray) -> Hours  resp.  Coins
   Consequence: every theorem of C03 / C11 about Model/Hours.v is a theorem
   about the regenerated code, and a source change in one of these functions
   that changes its meaning breaks one of the proofs below (a proof obligation
   of C03), not only the sampled correspondence.
   No hypotheses are needed (not even ranges): the equalities are structural. *)
From Coq Require Import Lia ZifyBool.
From Sky Require Import Base.Uint Model.ArithSpec Model.HoursSpec Model.Hours
  Gen.Mathutil Gen.CoinHours Gen.CoinLoops Proofs.HoursProofs.
Open Scope Z_scope.

(* the projections (the order is the declaration order of the Go struct fields) *)
Definition in_proj (i : uxin) : Z * Z * Z := (i_time i, i_coins i, i_hours i).
Definition ins_proj (ins : list uxin) : list (Z * Z * Z) := map in_proj ins.
Definition outs_hours (outs : list txout) : list Z := map o_hours outs.
Definition outs_coins (outs : list txout) : list Z := map o_coins outs.
Definition ins_coins (ins : list uxin) : list Z := map i_coins ins.

(* ---- Transaction.OutputHours *)
Lemma output_hours_loop_refines : forall outs acc,
  CoinLoops.Transaction_OutputHours_loop1 (fun hours => Val (hours, None)) (outs_hours outs) acc
  = Hours.output_hours_loop outs acc.
Proof.
  induction outs as [|o r IH]; intros acc; cbn [outs_hours map CoinLoops.Transaction_OutputHours_loop1 Hours.output_hours_loop].
  - reflexivity.
  - destruct (AddUint64 acc (o_hours o)) as [|[s e]]; cbn [bind]; [reflexivity|].
    destruct (is_err e); [reflexivity|]. apply IH.
Qed.

Lemma OutputHours_refines : forall outs,
  Hours.Transaction_OutputHours outs = CoinLoops.Transaction_OutputHours (outs_hours outs).
Proof.
  intros outs. unfold Hours.Transaction_OutputHours, CoinLoops.Transaction_OutputHours.
  symmetry. apply output_hours_loop_refines.
Qed.

(* ---- UxArray.CoinHours *)
Lemma uxarray_hours_loop_refines : forall T ins acc,
  CoinLoops.UxArray_CoinHours_loop1 (fun hours => Val (hours, None)) T (ins_proj ins) acc
  = Hours.uxarray_hours_loop T ins acc.
Proof.
  induction ins as [|i r IH]; intros acc;
    cbn [ins_proj map in_proj CoinLoops.UxArray_CoinHours_loop1 Hours.uxarray_hours_loop].
  - reflexivity.
  - unfold coin_hours.
    destruct (UxOut_CoinHours (i_time i) (i_coins i) (i_hours i) T) as [|[h e]]; cbn [bind]; [reflexivity|].
    destruct (is_err e); [reflexivity|].
    destruct (AddUint64 acc h) as [|[s e2]]; cbn [bind]; [reflexivity|].
    destruct (is_err e2); [reflexivity|]. apply IH.
Qed.

Lemma UxArray_CoinHours_refines : forall T ins,
  Hours.UxArray_CoinHours T ins = CoinLoops.UxArray_CoinHours (ins_proj ins) T.
Proof.
  intros T ins. unfold Hours.UxArray_CoinHours, CoinLoops.UxArray_CoinHours.
  symmetry. apply uxarray_hours_loop_refines.
Qed.

(* ---- coin.VerifyTransactionHoursSpending *)
(* first loop, for an arbitrary continuation k of the loop *)
Lemma hours_in_loop_refines : forall (k : Z -> res error) T ins acc,
  CoinLoops.VerifyTransactionHoursSpending_loop1 k T (ins_proj ins) acc
  = bind (Hours.hours_in_legacy T ins acc) (fun '(h, e) => if is_err e then Val e else k h).
Proof.
  intros k T. induction ins as [|i r IH]; intros acc;
    cbn [ins_proj map in_proj CoinLoops.VerifyTransactionHoursSpending_loop1 Hours.hours_in_legacy].
  - reflexivity.
  - unfold coin_hours.
    destruct (UxOut_CoinHours (i_time i) (i_coins i) (i_hours i) T) as [|[h e]]; cbn [bind]; [reflexivity|].
    unfold E_add.
    destruct (is_err e) eqn:He.
    + destruct (eqb_error e (Some "ErrAddEarnedCoinHoursAdditionOverflow"%string)).
      * destruct (AddUint64 acc 0) as [|[s e2]]; cbn [bind]; [reflexivity|].
        destruct (is_err e2); [reflexivity|]. apply IH.
      * cbn [bind]. rewrite He. reflexivity.
    + destruct (AddUint64 acc h) as [|[s e2]]; cbn [bind]; [reflexivity|].
      destruct (is_err e2); [reflexivity|]. apply IH.
Qed.

(* second loop: the unchecked (wrapping) sum *)
Lemma hours_out_loop_refines : forall (k : Z -> res error) outs acc,
  CoinLoops.VerifyTransactionHoursSpending_loop2 k (outs_hours outs) acc
  = k (fold_left (fun a o => wrap 64 (a + o_hours o)) outs acc).
Proof.
  intros k. induction outs as [|o r IH]; intros acc;
    cbn [outs_hours map CoinLoops.VerifyTransactionHoursSpending_loop2 fold_left].
  - reflexivity.
  - apply IH.
Qed.

Lemma VerifyTransactionHoursSpending_refines : forall T ins outs,
  Hours.VerifyTransactionHoursSpending T ins outs
  = CoinLoops.VerifyTransactionHoursSpending T (ins_proj ins) (outs_hours outs).
Proof.
  intros T ins outs.
  unfold Hours.VerifyTransactionHoursSpending, CoinLoops.VerifyTransactionHoursSpending.
  rewrite hours_in_loop_refines.
  destruct (hours_in_legacy T ins 0) as [|[h e]]; cbn [bind]; [reflexivity|].
  destruct (is_err e); [reflexivity|].
  rewrite hours_out_loop_refines. unfold out_hours_wrapped. reflexivity.
Qed.

(* ---- coin.VerifyTransactionCoinsSpending *)
Lemma coins_in_loop_refines : forall (k : Z -> res error) ins acc,
  CoinLoops.VerifyTransactionCoinsSpending_loop1 k (ins_coins ins) acc
  = bind (Hours.coins_loop i_coins "Transaction input coins overflow" ins acc)
      (fun '(c, e) => if is_err e then Val e else k c).
Proof.
  intros k. induction ins as [|i r IH]; intros acc;
    cbn [ins_coins map CoinLoops.VerifyTransactionCoinsSpending_loop1 Hours.coins_loop].
  - reflexivity.
  - destruct (AddUint64 acc (i_coins i)) as [|[s e]]; cbn [bind]; [reflexivity|].
    destruct (is_err e); [reflexivity|]. apply IH.
Qed.

Lemma coins_out_loop_refines : forall (k : Z -> res error) outs acc,
  CoinLoops.VerifyTransactionCoinsSpending_loop2 k (outs_coins outs) acc
  = bind (Hours.coins_loop o_coins "Transaction output coins overflow" outs acc)
      (fun '(c, e) => if is_err e then Val e else k c).
Proof.
  intros k. induction outs as [|o r IH]; intros acc;
    cbn [outs_coins map CoinLoops.VerifyTransactionCoinsSpending_loop2 Hours.coins_loop].
  - reflexivity.
  - destruct (AddUint64 acc (o_coins o)) as [|[s e]]; cbn [bind]; [reflexivity|].
    destruct (is_err e); [reflexivity|]. apply IH.
Qed.

Lemma VerifyTransactionCoinsSpending_refines : forall ins outs,
  Hours.VerifyTransactionCoinsSpending ins outs
  = CoinLoops.VerifyTransactionCoinsSpending (ins_coins ins) (outs_coins outs).
Proof.
  intros ins outs.
  unfold Hours.VerifyTransactionCoinsSpending, CoinLoops.VerifyTransactionCoinsSpending.
  rewrite coins_in_loop_refines.
  destruct (coins_loop i_coins "Transaction input coins overflow" ins 0) as [|[cin e]]; cbn [bind]; [reflexivity|].
  destruct (is_err e); [reflexivity|].
  rewrite coins_out_loop_refines.
  destruct (coins_loop o_coins "Transaction output coins overflow" outs 0) as [|[cout e2]]; cbn [bind]; [reflexivity|].
  destruct (is_err e2); reflexivity.
Qed.

(* the acceptance condition proved of the model (Proofs/HoursProofs.v), on the regenerated function *)
Lemma translated_hours_spending_accepts_iff : forall T ins outs,
  Forall wf_in ins -> Forall wf_out outs -> in_u 64 T ->
  (CoinLoops.VerifyTransactionHoursSpending T (ins_proj ins) (outs_hours outs) = Val None
   <-> block_hours_ok T ins outs = true).
Proof.
  intros T ins outs Hi Ho HT. rewrite <- VerifyTransactionHoursSpending_refines.
  apply hours_spending_accepts_iff; assumption.
Qed.
