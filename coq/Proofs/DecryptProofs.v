(* Proofs/DecryptProofs.v — C18, byte-level framing of the two Decrypt functions:
   totality (no Panic for any input and any oracle answers) and the sha256xor
   round trip. *)
From Coq Require Import ZArith List Bool String Lia ZifyBool.
From Sky Require Import Base.Uint Model.WalletCrypt.
Import ListNotations.
Open Scope Z_scope.

(* ------------------------------------------------------------------ sha256xor *)
Section Sha.
  Variable H : bytes -> bytes.
  Variable KS : bytes -> Z -> bytes.

  Lemma sha_blocks_fuel : forall fuel nonce i b,
    (List.length b <= fuel)%nat -> sha_blocks KS fuel nonce i b <> Panic.
  Proof.
    induction fuel as [|f IH]; intros nonce i b Hlen.
    - destruct b as [|x b]; cbn [sha_blocks]; [discriminate | cbn [List.length] in Hlen; lia].
    - destruct b as [|x b]; [cbn [sha_blocks]; discriminate|].
      cbn [sha_blocks].
      destruct (negb (len (firstn 32 (x :: b)) =? 32)) eqn:Hb; [discriminate|].
      assert (Hs : (List.length (skipn 32 (x :: b)) <= f)%nat).
      { rewrite skipn_length. cbn [List.length] in *. lia. }
      specialize (IH nonce (i + 1) (skipn 32 (x :: b)) Hs).
      destruct (sha_blocks KS f nonce (i + 1) (skipn 32 (x :: b))) as [|[r|]]; try discriminate.
      congruence.
  Qed.

  Theorem decrypt_total_sha256xor : forall pw_empty dec,
    sha_decrypt H KS pw_empty dec <> Panic.
  Proof.
    intros pwe dec. unfold sha_decrypt.
    destruct pwe; [discriminate|].
    destruct dec as [enc|]; [|discriminate].
    destruct (buf_read 32 enc) as [[cs rest]|]; [|discriminate].
    destruct (negb (len cs =? 32)); [discriminate|].
    destruct (negb (bytes_eqb (H rest) cs)); [discriminate|].
    destruct (buf_read 32 rest) as [[nonce rest2]|]; [|discriminate].
    destruct (negb (len nonce =? 32)); [discriminate|].
    pose proof (sha_blocks_fuel (S (List.length rest2)) nonce 0 rest2 ltac:(lia)) as Hf.
    destruct (sha_blocks KS (S (List.length rest2)) nonce 0 rest2) as [|[dd|]]; [congruence| |discriminate].
    destruct (buf_read 32 dd) as [[dh body]|]; [|discriminate].
    destruct (negb (len dh =? 32)); [discriminate|].
    destruct (negb (bytes_eqb dh (H body))); [discriminate|].
    destruct (buf_read 4 body) as [[lb body2]|]; [|discriminate].
    destruct (negb (len lb =? 4)); [discriminate|].
    destruct (len body2 >? 4294967295); [discriminate|].
    destruct (le_uint lb >? len body2); discriminate.
  Qed.

  (* ---- round trip: Decrypt (Encrypt data) = data, for every hash function and
     keystream whose outputs are 32 bytes long *)
  Hypothesis H_len : forall x, List.length (H x) = 32%nat.
  Hypothesis KS_len : forall n i, List.length (KS n i) = 32%nat.

  Lemma bytes_eqb_refl : forall x, bytes_eqb x x = true.
  Proof.
    induction x as [|a x IH]; [reflexivity|].
    unfold bytes_eqb in *. cbn [eqb_list]. rewrite Z.eqb_refl, IH. reflexivity.
  Qed.

  Lemma xor_bytes_length : forall a b, List.length (xor_bytes a b) = Nat.min (List.length a) (List.length b).
  Proof. intros. unfold xor_bytes. rewrite map_length, combine_length. reflexivity. Qed.

  Lemma xor_bytes_invol : forall a k, (List.length a <= List.length k)%nat ->
    xor_bytes (xor_bytes a k) k = a.
  Proof.
    induction a as [|x a IH]; intros k Hl; [reflexivity|].
    destruct k as [|y k]; [cbn [List.length] in Hl; lia|].
    unfold xor_bytes in *. cbn [combine map fst snd]. cbn [List.length] in Hl.
    rewrite IH by lia. f_equal.
    rewrite Z.lxor_assoc, Z.lxor_nilpotent, Z.lxor_0_r. reflexivity.
  Qed.

  Lemma firstn_app_exact : forall (A : Type) (a b : list A) n, List.length a = n -> firstn n (a ++ b) = a.
  Proof.
    intros A a b n Hn. subst n. rewrite firstn_app, Nat.sub_diag, firstn_all. cbn [firstn]. apply app_nil_r.
  Qed.
  Lemma skipn_app_exact : forall (A : Type) (a b : list A) n, List.length a = n -> skipn n (a ++ b) = b.
  Proof.
    intros A a b n Hn. subst n. rewrite skipn_app, Nat.sub_diag, skipn_all. reflexivity.
  Qed.

  (* decoding the encoded blocks gives back any body whose length is a multiple of 32 *)
  Lemma blocks_roundtrip : forall k fuel fuel' nonce i body,
    List.length body = (32 * k)%nat -> (List.length body < fuel)%nat -> (List.length body < fuel')%nat ->
    sha_blocks KS fuel' nonce i (xor_blocks KS fuel nonce i body) = Val (Some body).
  Proof.
    induction k as [|k IH]; intros fuel fuel' nonce i body Hk Hf Hf'.
    - destruct body; [|cbn [List.length] in Hk; lia].
      destruct fuel; [lia|]. cbn [xor_blocks]. destruct fuel'; reflexivity.
    - destruct fuel as [|f]; [lia|]. destruct fuel' as [|f']; [lia|].
      destruct body as [|x body]; [cbn [List.length] in Hk; lia|].
      set (b := x :: body) in *.
      assert (Hfl : List.length (firstn 32 b) = 32%nat) by (rewrite firstn_length; lia).
      assert (Hsl : List.length (skipn 32 b) = (32 * k)%nat) by (rewrite skipn_length; lia).
      change (xor_blocks KS (S f) nonce i b)
        with (xor_bytes (firstn 32 b) (KS nonce i) ++ xor_blocks KS f nonce (i + 1) (skipn 32 b)).
      set (hd := xor_bytes (firstn 32 b) (KS nonce i)).
      assert (Hhd : List.length hd = 32%nat).
      { unfold hd. rewrite xor_bytes_length, Hfl, KS_len. reflexivity. }
      destruct (hd ++ xor_blocks KS f nonce (i + 1) (skipn 32 b)) as [|y l] eqn:Hl.
      { apply (f_equal (@List.length Z)) in Hl. rewrite app_length, Hhd in Hl. cbn [List.length] in Hl. lia. }
      cbn [sha_blocks]. rewrite <- Hl.
      rewrite (firstn_app_exact _ hd _ 32 Hhd), (skipn_app_exact _ hd _ 32 Hhd).
      unfold len. rewrite Hhd. cbn [Z.of_nat Z.eqb Pos.eqb negb Pos.of_succ_nat Pos.succ].
      change (Z.of_nat 32 =? 32) with true. cbn [negb].
      rewrite (IH f f' nonce (i + 1) (skipn 32 b) Hsl) by (rewrite Hsl in *; lia).
      unfold hd. rewrite xor_bytes_invol by (rewrite Hfl, KS_len; lia).
      rewrite firstn_skipn. reflexivity.
  Qed.

  Lemma xor_blocks_length : forall k fuel nonce i body,
    List.length body = (32 * k)%nat -> (List.length body < fuel)%nat ->
    List.length (xor_blocks KS fuel nonce i body) = List.length body.
  Proof.
    induction k as [|k IH]; intros fuel nonce i body Hk Hf.
    - destruct body; [|cbn [List.length] in Hk; lia]. destruct fuel; reflexivity.
    - destruct fuel as [|f]; [lia|].
      destruct body as [|x body]; [cbn [List.length] in Hk; lia|].
      set (b := x :: body) in *.
      change (xor_blocks KS (S f) nonce i b)
        with (xor_bytes (firstn 32 b) (KS nonce i) ++ xor_blocks KS f nonce (i + 1) (skipn 32 b)).
      rewrite app_length, xor_bytes_length, KS_len, firstn_length.
      rewrite (IH f nonce (i + 1) (skipn 32 b)); rewrite skipn_length; lia.
  Qed.

  Lemma pad32_length : forall b, exists k, List.length (pad32 b) = (32 * k)%nat.
  Proof.
    intros b. unfold pad32.
    pose proof (Nat.div_mod (List.length b) 32 ltac:(lia)) as Hdm.
    destruct (Nat.eqb_spec (List.length b mod 32) 0) as [Hz|Hz].
    - exists (List.length b / 32)%nat. lia.
    - exists (S (List.length b / 32)). rewrite app_length, repeat_length.
      pose proof (Nat.mod_upper_bound (List.length b) 32 ltac:(lia)). lia.
  Qed.

  Lemma pad32_prefix : forall b, exists z, pad32 b = b ++ z.
  Proof.
    intros b. unfold pad32. destruct (List.length b mod 32 =? 0)%nat.
    - exists []. symmetry. apply app_nil_r.
    - eexists. reflexivity.
  Qed.

  Lemma le_uint_le32 : forall n, 0 <= n < 4294967296 -> le_uint (le32 n) = n.
  Proof.
    intros n Hn. unfold le32, le_uint. cbn [fold_right].
    assert (E2 : n / 65536 = n / 256 / 256) by (rewrite Z.div_div by lia; reflexivity).
    assert (E3 : n / 16777216 = n / 256 / 256 / 256) by (rewrite !Z.div_div by lia; reflexivity).
    rewrite E2, E3.
    set (a := n / 256). set (b := a / 256). set (c := b / 256).
    pose proof (Z.div_mod n 256 ltac:(lia)) as D1. fold a in D1.
    pose proof (Z.div_mod a 256 ltac:(lia)) as D2. fold b in D2.
    pose proof (Z.div_mod b 256 ltac:(lia)) as D3. fold c in D3.
    pose proof (Z.mod_pos_bound n 256 ltac:(lia)).
    pose proof (Z.mod_pos_bound a 256 ltac:(lia)).
    pose proof (Z.mod_pos_bound b 256 ltac:(lia)).
    assert (0 <= c < 256) by lia.
    rewrite (Z.mod_small c 256) by lia. lia.
  Qed.

  Lemma buf_read_app : forall n (a b : bytes), List.length a = n -> (0 < n)%nat ->
    buf_read n (a ++ b) = Some (a, b).
  Proof.
    intros n a b Hn Hpos. unfold buf_read.
    destruct (a ++ b) as [|x l] eqn:E.
    - apply (f_equal (@List.length Z)) in E. rewrite app_length in E. cbn [List.length] in E. lia.
    - rewrite <- E. rewrite (firstn_app_exact _ a b n Hn), (skipn_app_exact _ a b n Hn). reflexivity.
  Qed.

  Lemma pad32_tail : forall b, exists z, pad32 b = b ++ z /\ (List.length z < 32)%nat.
  Proof.
    intros b. unfold pad32. destruct (Nat.eqb_spec (List.length b mod 32) 0) as [Hm|Hm].
    - exists []. split; [symmetry; apply app_nil_r | cbn; lia].
    - eexists. split; [reflexivity|]. rewrite repeat_length.
      pose proof (Nat.mod_upper_bound (List.length b) 32 ltac:(lia)). lia.
  Qed.

  Theorem sha256xor_roundtrip : forall nonce data,
    List.length nonce = 32%nat -> len data < 4294967296 - 32 ->
    sha_decrypt H KS false (Some (sha_encrypt H KS nonce data)) = Val (DOk data).
  Proof.
    intros nonce data Hnl Hdl.
    unfold sha_encrypt.
    destruct (pad32_length (le32 (len data) ++ data)) as [k Hk].
    destruct (pad32_tail (le32 (len data) ++ data)) as [z [Hz Hzl]].
    remember (pad32 (le32 (len data) ++ data)) as ldata eqn:Eld.
    remember (H ldata ++ ldata) as body eqn:Ebody.
    assert (Hbody : List.length body = (32 * S k)%nat).
    { subst body. rewrite app_length, H_len, Hk. lia. }
    remember (xor_blocks KS (S (List.length body)) nonce 0 body) as encd eqn:Eencd.
    remember (nonce ++ encd) as nd eqn:End.
    unfold sha_decrypt.
    rewrite (buf_read_app 32 (H nd) nd (H_len nd)) by lia.
    unfold len at 1. rewrite H_len. change (negb (Z.of_nat 32 =? 32)) with false. cbv iota.
    rewrite bytes_eqb_refl. cbn [negb].
    subst nd. rewrite (buf_read_app 32 nonce encd Hnl) by lia.
    unfold len at 1. rewrite Hnl. change (negb (Z.of_nat 32 =? 32)) with false. cbv iota.
    subst encd.
    rewrite (blocks_roundtrip (S k)); [| exact Hbody | lia |].
    2:{ rewrite (xor_blocks_length (S k)); [lia | exact Hbody | lia]. }
    subst body. rewrite (buf_read_app 32 (H ldata) ldata (H_len ldata)) by lia.
    unfold len at 1. rewrite H_len. change (negb (Z.of_nat 32 =? 32)) with false. cbv iota.
    rewrite bytes_eqb_refl. cbn [negb].
    assert (Hl4 : List.length (le32 (len data)) = 4%nat) by reflexivity.
    rewrite Hz, <- app_assoc.
    rewrite (buf_read_app 4 (le32 (len data)) (data ++ z) Hl4) by lia.
    unfold len at 1. rewrite Hl4. change (negb (Z.of_nat 4 =? 4)) with false. cbv iota.
    assert (Hd0 : 0 <= len data) by (unfold len; lia).
    rewrite le_uint_le32 by lia.
    assert (Hlz : len (data ++ z) = len data + len z) by (unfold len; rewrite app_length; lia).
    assert (Hz32 : 0 <= len z < 32) by (unfold len; lia).
    destruct (len (data ++ z) >? 4294967295) eqn:Hbig; [lia|].
    destruct (len data >? len (data ++ z)) eqn:Hgt; [lia|].
    f_equal. f_equal. unfold len. rewrite Nat2Z.id. apply firstn_app_exact. reflexivity.
  Qed.
End Sha.

(* ------------------------------------------------- scrypt-chacha20poly1305 *)
Lemma scrypt_check_no_panic : forall N r p, 0 < r -> 0 < p -> scrypt_check N r p <> Panic.
Proof.
  intros N r p Hr Hp. unfold scrypt_check.
  destruct ((N <=? 1) || negb (Z.land N (N - 1) =? 0)); [discriminate|].
  destruct (1073741824 <=? wrap 64 (wrap 64 r * wrap 64 p)); [discriminate|].
  destruct (p =? 0) eqn:Hp0; [lia|].
  destruct (r >? Z.quot (Z.quot maxInt 128) p); [discriminate|].
  destruct (r >? Z.quot maxInt 256); [discriminate|].
  destruct (r =? 0) eqn:Hr0; [lia|].
  destruct (N >? Z.quot (Z.quot maxInt 128) r); discriminate.
Qed.

Section ScryptTotal.
  Variable J : bytes -> option smeta.
  Variable aead_open : smeta -> bytes -> bytes -> option bytes.
  Variable mem_limit : Z.

  (* every metadata record the parser can return asks for memory the process has *)
  Definition mem_ok : Prop :=
    forall seg m, J seg = Some m -> scrypt_mem (m_n m) (m_r m) (m_p m) <= mem_limit.

  Theorem decrypt_total_scrypt_partial : mem_ok ->
    forall pw_empty dec, scrypt_decrypt J aead_open mem_limit pw_empty dec <> Panic.
  Proof.
    intros Hmem pwe dec. unfold scrypt_decrypt.
    destruct pwe; [discriminate|].
    destruct dec as [enc|]; [|discriminate].
    destruct (len enc <? 2); [discriminate|].
    destruct (2 + le_uint (firstn 2 enc) >? len enc); [discriminate|].
    destruct (J (firstn (Z.to_nat (le_uint (firstn 2 enc))) (skipn 2 enc))) as [m|] eqn:HJ; [|discriminate].
    destruct (negb (len (m_nonce m) =? 12)); [discriminate|].
    destruct ((m_r m <=? 0) || (m_p m <=? 0) || negb (m_keylen m =? 32)) eqn:Hpar; [discriminate|].
    pose proof (scrypt_check_no_panic (m_n m) (m_r m) (m_p m) ltac:(lia) ltac:(lia)) as Hc.
    destruct (scrypt_check (m_n m) (m_r m) (m_p m)) as [|[e|]]; [congruence|discriminate|].
    specialize (Hmem _ _ HJ).
    destruct (scrypt_mem (m_n m) (m_r m) (m_p m) >? mem_limit) eqn:Hm; [lia|].
    destruct (aead_open m _ _); discriminate.
  Qed.
End ScryptTotal.

(* the full statement (without mem_ok) is false: well-formed metadata may ask
   scrypt.Key for any amount of memory *)
Definition hostile_meta : smeta :=
  {| m_n := 1099511627776; m_r := 1; m_p := 1; m_keylen := 32; m_salt := []; m_nonce := repeat 0 12 |}.

Theorem decrypt_total_scrypt_refuted : forall aead_open mem_limit,
  mem_limit < 2 ^ 47 ->
  scrypt_decrypt (fun _ => Some hostile_meta) aead_open mem_limit false (Some [0; 0]) = Panic.
Proof.
  intros aead mem_limit Hl. unfold scrypt_decrypt.
  change (len [0; 0] <? 2) with false. cbv iota.
  change (2 + le_uint (firstn 2 [0; 0]) >? len [0; 0]) with false. cbv iota.
  change (negb (len (m_nonce hostile_meta) =? 12)) with false. cbv iota.
  change ((m_r hostile_meta <=? 0) || (m_p hostile_meta <=? 0) || negb (m_keylen hostile_meta =? 32)) with false. cbv iota.
  replace (scrypt_check (m_n hostile_meta) (m_r hostile_meta) (m_p hostile_meta)) with (@Val (option string) None)
    by (vm_compute; reflexivity).
  destruct (scrypt_mem (m_n hostile_meta) (m_r hostile_meta) (m_p hostile_meta) >? mem_limit) eqn:Hm; [reflexivity|].
  exfalso. assert (scrypt_mem (m_n hostile_meta) (m_r hostile_meta) (m_p hostile_meta) = 140737488355712) by (vm_compute; reflexivity).
  lia.
Qed.

(* F4: the function as it was before the fix panics on each of these inputs, the
   function as it is now returns an error on all of them *)
Definition meta_with (r p k : Z) (nonce_len : nat) : smeta :=
  {| m_n := 16; m_r := r; m_p := p; m_keylen := k; m_salt := []; m_nonce := repeat 0 nonce_len |}.
Definition f4_inputs : list ((bytes -> option smeta) * option bytes * Z) :=
  [ (fun _ => None, Some [], 0);                                 (* empty ciphertext: encData[:2] on capacity 0 *)
    (fun _ => None, Some [255; 255; 0], 3);                      (* length field 65535: uint16 wrap, encData[2:1] *)
    (fun _ => None, Some [254; 255; 0], 3);                      (* length field 65534: encData[2:0] *)
    (fun _ => Some (meta_with 8 1 32 3), Some [0; 0], 3);        (* 3-byte nonce: aead.Open panics *)
    (fun _ => Some (meta_with 0 1 32 12), Some [0; 0], 3);       (* r = 0: division by zero in scrypt.Key *)
    (fun _ => Some (meta_with 8 0 32 12), Some [0; 0], 3);       (* p = 0 *)
    (fun _ => Some (meta_with 8 1 (-1) 12), Some [0; 0], 3) ].   (* keyLen < 0: pbkdf2.Key *)

Theorem F4_before_and_after :
  forallb (fun c : (bytes -> option smeta) * option bytes * Z =>
             let '(J, dec, cap) := c in
             match scrypt_decrypt_v0 J (fun _ _ _ => None) (2 ^ 36) false dec cap with Panic => true | _ => false end) f4_inputs = true
  /\ forallb (fun c : (bytes -> option smeta) * option bytes * Z =>
             let '(J, dec, cap) := c in
             match scrypt_decrypt J (fun _ _ _ => None) (2 ^ 36) false dec with Val (DErr _) => true | _ => false end) f4_inputs = true.
Proof. split; vm_compute; reflexivity. Qed.

(* a one-byte payload did not panic before the fix: the re-slice stays within
   the capacity of the decode buffer *)
Example v0_one_byte_no_panic :
  scrypt_decrypt_v0 (fun _ => None) (fun _ _ _ => None) (2 ^ 36) false (Some [7]) 3 = Val (DErr "invalid metadata length").
Proof. vm_compute. reflexivity. Qed.
