(* Proofs/SigAcceptProofs.v — byte-level facts about 65-byte signatures
   (r || s || recid) and the acceptance predicates of Model/SigAccept.v (C10). *)
From Coq Require Import ZArith List Bool Lia ZifyBool Znumtheory.
From Sky Require Import Model.Secp Model.SigAccept Proofs.SecpProofs.
Import ListNotations.
Open Scope Z_scope.

(* ------------------------------------------------------------------ lists *)

Lemma firstn_app_exact {A} (a b : list A) k : length a = k -> firstn k (a ++ b) = a.
Proof. intros <-. rewrite firstn_app, Nat.sub_diag, firstn_all. cbn [firstn]. apply app_nil_r. Qed.

Lemma skipn_app_exact {A} (a b : list A) k : length a = k -> skipn k (a ++ b) = b.
Proof. intros <-. rewrite skipn_app, Nat.sub_diag, skipn_all. reflexivity. Qed.

(* be_val of a cons: most significant byte first *)
Lemma be_val_acc_shift acc l : be_val_acc acc l = acc * 256 ^ Z.of_nat (length l) + be_val l.
Proof.
  unfold be_val. revert acc. induction l as [|b l IH]; intros acc.
  - cbn. lia.
  - cbn [be_val_acc length]. rewrite IH, (IH (0 * 256 + b)). rewrite Nat2Z.inj_succ, Z.pow_succ_r by lia. ring.
Qed.

Lemma be_val_cons b l : be_val (b :: l) = b * 256 ^ Z.of_nat (length l) + be_val l.
Proof. unfold be_val at 1. cbn [be_val_acc]. rewrite be_val_acc_shift. lia. Qed.

(* the first byte of a 32-byte big-endian number below 2^256 *)
Lemma be_bytes_head s : 0 <= s < 2 ^ 256 ->
  exists tl, be_bytes 32 s = (s / 2 ^ 248) :: tl /\ length tl = 31%nat.
Proof.
  intros Hs.
  pose proof (be_bytes_length 32 s) as HL. pose proof (be_bytes_all 32 s) as HA.
  pose proof (be_val_be_bytes 32 s) as HV.
  destruct (be_bytes 32 s) as [|b tl] eqn:E; [discriminate HL|].
  cbn [length] in HL. injection HL as HL.
  exists tl. split; [|exact HL]. f_equal.
  cbn [all_bytes forallb] in HA. apply andb_true_iff in HA as [Hb Ht].
  pose proof (be_val_range tl Ht) as Rt. rewrite HL in Rt.
  rewrite be_val_cons, HL in HV.
  assert (E256 : 256 ^ Z.of_nat 32 = 2 ^ 256) by (vm_compute; reflexivity).
  assert (E248 : 256 ^ Z.of_nat 31 = 2 ^ 248) by (vm_compute; reflexivity).
  rewrite E256 in HV. specialize (HV Hs). rewrite E248 in *.
  unfold is_byte in Hb.
  apply (Z.div_unique s (2 ^ 248) b (be_val tl)); lia.
Qed.

(* ------------------------------------------------------------------ fields of sig_bytes *)

Lemma sig_bytes_length r s v : length (sig_bytes r s v) = 65%nat.
Proof. unfold sig_bytes. rewrite !app_length, !be_bytes_length. reflexivity. Qed.

Lemma pow256_32' : 256 ^ Z.of_nat 32 = 2 ^ 256.
Proof. vm_compute. reflexivity. Qed.

Lemma sig_bytes_r r s v : 0 <= r < 2 ^ 256 -> sig_r (sig_bytes r s v) = r.
Proof.
  intros Hr. unfold sig_r, sig_bytes. rewrite firstn_app_exact by apply be_bytes_length.
  apply be_val_be_bytes. rewrite pow256_32'. exact Hr.
Qed.

Lemma sig_bytes_s r s v : 0 <= s < 2 ^ 256 -> sig_s (sig_bytes r s v) = s.
Proof.
  intros Hs. unfold sig_s, sig_bytes. rewrite skipn_app_exact by apply be_bytes_length.
  rewrite firstn_app_exact by apply be_bytes_length.
  apply be_val_be_bytes. rewrite pow256_32'. exact Hs.
Qed.

Lemma sig_bytes_recid r s v : sig_recid (sig_bytes r s v) = v.
Proof.
  unfold sig_recid, sig_bytes. rewrite app_nth2 by (rewrite be_bytes_length; lia).
  rewrite be_bytes_length. rewrite app_nth2 by (rewrite be_bytes_length; lia).
  rewrite be_bytes_length. reflexivity.
Qed.

Lemma sig_bytes_byte32 r s v : 0 <= s < 2 ^ 256 -> nth 32 (sig_bytes r s v) 0 = s / 2 ^ 248.
Proof.
  intros Hs. unfold sig_bytes. rewrite app_nth2 by (rewrite be_bytes_length; lia).
  rewrite be_bytes_length. destruct (be_bytes_head s Hs) as (tl & E & _). rewrite E. reflexivity.
Qed.

(* VerifySignatureValidity on r || s || recid: bit 255 of s clear and recid < 4 *)
Lemma sig_wellformed_bytes r s v : 0 <= s < 2 ^ 256 ->
  sig_wellformed (sig_bytes r s v) = (s <? 2 ^ 255) && (v <? 4).
Proof.
  intros Hs. unfold sig_wellformed. rewrite sig_bytes_length, sig_bytes_recid, sig_bytes_byte32 by exact Hs.
  cbn [Nat.eqb andb]. f_equal.
  rewrite Z.div_div by lia. change (2 ^ 248 * 128) with (2 ^ 255).
  destruct (s <? 2 ^ 255) eqn:E.
  - apply Z.eqb_eq. apply Z.div_small. lia.
  - apply Z.eqb_neq. intros H0. apply Z.div_small_iff in H0; lia.
Qed.

Lemma all_bytes_app a b : all_bytes (a ++ b) = all_bytes a && all_bytes b.
Proof. unfold all_bytes. apply forallb_app. Qed.

(* ------------------------------------------------------------------ C10 statements *)

(* sign_low_s: what Signature.Sign / secp256k1.Sign produce is well formed and has a low s *)
Lemma sign_low_s msg k nonce sg :
  sign_bytes msg k nonce = Some sg ->
  sig_wellformed sg = true /\ 0 < sig_s sg <= halfOrder /\ 0 <= sig_recid sg < 4 /\ 0 <= sig_r sg < n.
Proof.
  unfold sign_bytes. destruct (sign k (be_val msg) nonce) as [[[r s] v]|] eqn:E; [|discriminate].
  intros H. injection H as <-.
  apply sign_ranges in E as (Hr & Hs & Hv).
  pose proof n_half as Hn. pose proof n_lt_256 as Hn256.
  assert (Hh : halfOrder < 2 ^ 255) by reflexivity.
  assert (E255 : 2 ^ 256 = 2 * 2 ^ 255) by reflexivity.
  rewrite sig_wellformed_bytes, sig_bytes_s, sig_bytes_recid, sig_bytes_r by lia.
  repeat split; try lia.
Qed.

(* accept_bits: a well-formed signature has s < 2^255 and recid < 4 *)
Lemma accept_bits sg : all_bytes sg = true -> sig_wellformed sg = true ->
  0 <= sig_s sg < 2 ^ 255 /\ 0 <= sig_recid sg < 4 /\ length sg = 65%nat.
Proof.
  intros Hb Hw. unfold sig_wellformed in Hw.
  apply andb_true_iff in Hw as [Hw H3]. apply andb_true_iff in Hw as [H1 H2].
  apply Nat.eqb_eq in H1.
  (* split the 65 bytes *)
  rewrite <- (firstn_skipn 32 sg) in Hb, H2. rewrite all_bytes_app in Hb. apply andb_true_iff in Hb as [Ba Bb].
  assert (La : length (firstn 32 sg) = 32%nat) by (rewrite firstn_length; lia).
  rewrite app_nth2 in H2 by lia. rewrite La, Nat.sub_diag in H2.
  unfold sig_s, sig_recid.
  assert (Lb : length (skipn 32 sg) = 33%nat) by (rewrite skipn_length; lia).
  destruct (skipn 32 sg) as [|b0 rest] eqn:Es; [discriminate Lb|].
  cbn [nth] in H2. cbn [length] in Lb. injection Lb as Lb.
  cbn [all_bytes forallb] in Bb. apply andb_true_iff in Bb as [Bb0 Brest].
  assert (E : firstn 32 (b0 :: rest) = b0 :: firstn 31 rest) by reflexivity. rewrite E.
  rewrite be_val_cons.
  assert (Bf : all_bytes (firstn 31 rest) = true).
  { unfold all_bytes in *. rewrite forallb_forall in *. intros x Hx. apply Brest. rewrite <- (firstn_skipn 31 rest). apply in_or_app. left. exact Hx. }
  pose proof (be_val_range _ Bf) as R. rewrite firstn_length, Lb in *. cbn [Nat.min] in R.
  change (Z.of_nat (Init.Nat.min 31 32)) with 31 in *.
  assert (E248 : 256 ^ 31 = 2 ^ 248) by (vm_compute; reflexivity). rewrite E248 in *.
  unfold is_byte in Bb0.
  assert (Hb0 : b0 < 128).
  { apply Z.eqb_eq in H2. apply Z.div_small_iff in H2; lia. }
  assert (E255 : 2 ^ 255 = 128 * 2 ^ 248) by reflexivity.
  split; [nia|]. split; [|exact H1].
  (* recid is a byte *)
  assert (Hin : In (nth 64 sg 0) sg) by (apply nth_In; lia).
  rewrite <- (firstn_skipn 32 sg) in Hin at 2.
  assert (Hbyte : is_byte (nth 64 sg 0) = true).
  { apply in_app_or in Hin. unfold all_bytes in Ba. rewrite forallb_forall in Ba.
    destruct Hin as [Hin|Hin]; [apply Ba, Hin|].
    rewrite Es in Hin. destruct Hin as [<-|Hin]; [unfold is_byte; lia|].
    unfold all_bytes in Brest. rewrite forallb_forall in Brest. apply Brest, Hin. }
  unfold is_byte in Hbyte. unfold sig_recid in H3. lia.
Qed.

(* negation_window: s and n - s both pass the bit test only inside a window of < 2^128 values around n/2 *)
Lemma negation_window s : 0 < s < n -> s < 2 ^ 255 -> n - s < 2 ^ 255 -> n - 2 ^ 255 < s < 2 ^ 255.
Proof. intros H1 H2 H3. lia. Qed.

Lemma window_size : 2 ^ 255 - (n - 2 ^ 255) < 2 ^ 129 /\ n - 2 ^ 255 < halfOrder < 2 ^ 255.
Proof. vm_compute. split; [reflexivity|split; reflexivity]. Qed.

(* recid >= 4 is never accepted *)
Lemma recid_ge4_rejected msg sg pk : 4 <= sig_recid sg -> verify_signature msg sg pk = false.
Proof.
  intros H. unfold verify_signature, sig_wellformed.
  replace (sig_recid sg <? 4) with false by lia. rewrite !andb_false_r. reflexivity.
Qed.

(* bit 255 of s set is never accepted *)
Lemma high_bit_rejected msg sg pk : 128 <= nth 32 sg 0 -> verify_signature msg sg pk = false.
Proof.
  intros H. unfold verify_signature, sig_wellformed.
  assert (E : (nth 32 sg 0 / 128 =? 0) = false).
  { apply Z.eqb_neq. intros H0. apply Z.div_small_iff in H0; lia. }
  rewrite E, !andb_false_r. reflexivity.
Qed.

(* the key that a signature is accepted for is unique *)
Lemma accepted_key_unique msg sg pk1 pk2 :
  verify_signature msg sg pk1 = true -> verify_signature msg sg pk2 = true -> bytes_eqb pk1 pk2 = true.
Proof.
  unfold verify_signature. destruct (recover_pubkey msg sg) as [pk|]; [|rewrite andb_false_r; discriminate].
  intros H1 H2. apply andb_true_iff in H1 as [_ H1]. apply andb_true_iff in H2 as [_ H2].
  clear - H1 H2. revert pk pk2 H1 H2. induction pk1 as [|a l IH]; intros [|b pk] [|c pk2]; cbn [bytes_eqb]; try discriminate; auto.
  intros H1 H2. apply andb_true_iff in H1 as [A1 B1]. apply andb_true_iff in H2 as [A2 B2].
  apply andb_true_iff. split; [lia|]. eapply IH; eassumption.
Qed.

(* acceptance of r || s || recid by secp256k1.VerifySignature in terms of the numbers *)
Lemma verify_signature_bytes msg r s v pk :
  msg <> [] -> 0 <= r < 2 ^ 256 -> 0 <= s < 2 ^ 256 ->
  verify_signature msg (sig_bytes r s v) pk =
    (s <? 2 ^ 255) && (v <? 4) &&
    match recover (be_val msg) r s v with
    | inl Q => match compress Q with Some pk' => bytes_eqb pk pk' | None => false end
    | inr _ => false
    end.
Proof.
  intros Hm Hr Hs. unfold verify_signature, recover_pubkey.
  rewrite sig_wellformed_bytes by exact Hs.
  rewrite sig_bytes_length, sig_bytes_r, sig_bytes_s, sig_bytes_recid by assumption.
  destruct msg; [contradiction|]. cbn [length Nat.eqb negb andb].
  destruct (recover _ r s v) as [Q|c]; [|reflexivity]. reflexivity.
Qed.
