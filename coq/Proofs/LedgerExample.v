(* Proofs/LedgerExample.v — a concrete reachable history meeting the premises of
   the C01/C02/C04 theorems (non-vacuity): genesis creates output 1 (1000 coins);
   block 1 spends it into outputs 4 and 8; a second spend of output 1 and a
   validly signed block naming another parent are refused. *)
From Sky Require Import Base.Uint Model.Ledger Model.LedgerSpec Model.LedgerObs
  Proofs.LedgerBasics Proofs.LedgerProofs Proofs.LedgerUtxo Proofs.LedgerPremises.
From Coq Require Import Lia ZifyBool.
Open Scope Z_scope.

Definition ex_g : block :=
  mkBlock (mkHeader 0 100 0 0 0 2 0) 3 2 true [mkTxn 2 [] [mkOut 1 1000 1000 1 77] [] 0 true true []].
Definition ex_b1 : block :=
  mkBlock (mkHeader 0 200 1 0 3 6 77) 7 6 true
    [mkTxn 6 [1] [mkOut 2 600 10 4 11; mkOut 1 400 0 8 12] [mkSig false true 1] 0 true true [5; 9]].
(* spends output 1 again *)
Definition ex_b2 : block :=
  mkBlock (mkHeader 0 300 2 0 7 13 (Z.lxor 11 12)) 14 13 true
    [mkTxn 13 [1] [mkOut 2 1000 0 15 16] [mkSig false true 1] 0 true true []].
(* validly signed, valid transaction, but names block 3 (genesis) as its parent *)
Definition ex_b3 : block :=
  mkBlock (mkHeader 0 300 2 0 3 20 (Z.lxor 11 12)) 21 20 true
    [mkTxn 20 [4] [mkOut 1 600 0 22 23] [mkSig false true 2] 0 true true []].
Definition ex_ops : list op := [ExecBlock ex_b1; ExecBlock ex_b2; ExecBlock ex_b3].
Definition ex_dump : dump := mkDump 0 0 0 0 0 true true [] 0.
Definition ex_hist : history :=
  mkHist ex_g 1000 ex_dump [(ex_b1, Accepted, ex_dump); (ex_b2, Accepted, ex_dump); (ex_b3, Accepted, ex_dump)].

Lemma ex_premises : genesis_wf ex_g /\ ops_in_range ex_ops /\ ids_consistent ex_g (ops_txns ex_ops).
Proof. apply (premises_sound ex_hist). vm_compute. reflexivity. Qed.

Lemma ex_run :
  snd (step (init_state ex_g) (ExecBlock ex_b1)) = Accepted /\
  snd (step (run (init_state ex_g) [ExecBlock ex_b1]) (ExecBlock ex_b2)) = Rejected EUnspentMissing /\
  snd (step (run (init_state ex_g) [ExecBlock ex_b1]) (ExecBlock ex_b3)) = Rejected EPrevHash /\
  snd (step (run (init_state ex_g) [ExecBlock ex_b1]) (ExecBlock ex_g)) = Rejected EGenesis /\
  map (fun u => (u_id u, u_coins u)) (utxo (run (init_state ex_g) ex_ops)) = [(4, 600); (8, 400)] /\
  map b_hash (chain (run (init_state ex_g) ex_ops)) = [7; 3] /\
  genesis_volume ex_g = 1000.
Proof. vm_compute. repeat split. Qed.
