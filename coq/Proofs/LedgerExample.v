(* Proofs/LedgerExample.v — a concrete reachable history meeting the premises of
   the C01/C02/C04 theorems (non-vacuity): genesis creates output 1 (1000 coins);
   block 1 spends it into outputs 4 and 8; a second spend of output 1 and a
   validly signed block naming another parent are refused. *)
From Sky Require Import Base.Uint Model.Ledger Model.LedgerSpec Model.LedgerObs
  Proofs.LedgerBasics Proofs.LedgerProofs Proofs.LedgerUtxo Proofs.LedgerPremises.
From Coq Require Import Lia ZifyBool.
Open Scope Z_scope.

Definition ex_g : block :=
  mkBlock (mkHeader 0 100 0 0 0 2 0) 3 2 true [mkTxn 2 [] [mkOut 1 1000 1000 1 77] [] 0 true true [] 100 2].
Definition ex_b1 : block :=
  mkBlock (mkHeader 0 200 1 0 3 6 77) 7 6 true
    [mkTxn 6 [1] [mkOut 2 600 10 4 11; mkOut 1 400 0 8 12] [mkSig false true 1] 0 true true [5; 9] 200 6].
(* spends output 1 again *)
Definition ex_b2 : block :=
  mkBlock (mkHeader 0 300 2 0 7 13 (Z.lxor 11 12)) 14 13 true
    [mkTxn 13 [1] [mkOut 2 1000 0 15 16] [mkSig false true 1] 0 true true [] 150 13].
(* validly signed, valid transaction, but names block 3 (genesis) as its parent *)
Definition ex_b3 : block :=
  mkBlock (mkHeader 0 300 2 0 3 20 (Z.lxor 11 12)) 21 20 true
    [mkTxn 20 [4] [mkOut 1 600 0 22 23] [mkSig false true 2] 0 true true [] 150 20].
(* a well-linked signed block with one good transaction (spends 4) and one that
   creates 50 coins (spends 8 = 400 coins into 400 + 50) *)
Definition ex_b4 : block :=
  mkBlock (mkHeader 0 300 2 0 7 30 (Z.lxor 11 12)) 31 30 true
    [mkTxn 32 [8] [mkOut 2 400 0 33 34; mkOut 1 50 0 35 36] [mkSig false true 1] 0 true true [] 180 32;
     mkTxn 37 [4] [mkOut 1 600 0 38 39] [mkSig false true 2] 0 true true [] 150 37].
Definition ex_ops : list op := [ExecBlock ex_b1; ExecBlock ex_b2; ExecBlock ex_b3].
Definition ex_ops_arb : list op := [ExecBlock ex_b1; ExecBlock ex_b4].
Definition ex_dump : dump := mkDump 0 0 0 0 0 true true [] 0.
Definition ex_hist : history :=
  mkHist false ex_g 1000 ex_dump [(false, false, false)]
    [(ex_b1, Accepted, ex_dump, []); (ex_b2, Accepted, ex_dump, []); (ex_b3, Accepted, ex_dump, []);
     (ex_b4, Accepted, ex_dump, [])].

Lemma ex_premises_all : genesis_wf ex_g /\ ops_in_range (ex_ops ++ [ExecBlock ex_b4]) /\
  ids_consistent ex_g (ops_txns (ex_ops ++ [ExecBlock ex_b4])).
Proof. apply (premises_sound ex_hist). vm_compute. reflexivity. Qed.
Lemma ex_premises : genesis_wf ex_g /\ ops_in_range ex_ops /\ ids_consistent ex_g (ops_txns ex_ops).
Proof.
  destruct ex_premises_all as [G [R [C1 [C2 C3]]]]. split; [exact G|]. split.
  - unfold ops_in_range in *. apply Forall_app in R. tauto.
  - unfold ids_consistent. unfold ops_txns in *. rewrite flat_map_app in C1, C2, C3.
    repeat split; intros; [eapply C1|eapply C2|eapply C3]; eauto; apply in_or_app; left; assumption.
Qed.
Lemma ex_premises_arb : genesis_wf ex_g /\ ops_in_range ex_ops_arb /\ ids_consistent ex_g (ops_txns ex_ops_arb).
Proof.
  destruct ex_premises_all as [G [R [C1 [C2 C3]]]]. split; [exact G|].
  assert (Hsub : forall t, In t (ops_txns ex_ops_arb) -> In t (ops_txns (ex_ops ++ [ExecBlock ex_b4]))).
  { intros t Ht. vm_compute in Ht. vm_compute. tauto. }
  split.
  - unfold ops_in_range in *. rewrite Forall_forall in *. intros o Ho. apply R. vm_compute in Ho. vm_compute. tauto.
  - unfold ids_consistent. repeat split; intros; [eapply C1|eapply C2|eapply C3]; eauto.
Qed.

(* an arbitrating node keeps the good transaction of ex_b4 and drops the one creating coins *)
Lemma ex_run_arb :
  snd (step_arb (run_arb (init_state ex_g) [ExecBlock ex_b1]) (ExecBlock ex_b4)) = Accepted /\
  map (fun b => map t_hash (b_txns b)) (chain (run_arb (init_state ex_g) ex_ops_arb)) = [[37]; [6]; [2]] /\
  map (fun u => (u_id u, u_coins u)) (utxo (run_arb (init_state ex_g) ex_ops_arb)) = [(8, 400); (38, 600)] /\
  snd (step (run (init_state ex_g) [ExecBlock ex_b1]) (ExecBlock ex_b4)) = Rejected EInsufficientCoins.
Proof. vm_compute. repeat split. Qed.

Lemma ex_run :
  snd (step (init_state ex_g) (ExecBlock ex_b1)) = Accepted /\
  snd (step (run (init_state ex_g) [ExecBlock ex_b1]) (ExecBlock ex_b2)) = Rejected EUnspentMissing /\
  snd (step (run (init_state ex_g) [ExecBlock ex_b1]) (ExecBlock ex_b3)) = Rejected EPrevHash /\
  snd (step (run (init_state ex_g) [ExecBlock ex_b1]) (ExecBlock ex_g)) = Rejected EGenesis /\
  map (fun u => (u_id u, u_coins u)) (utxo (run (init_state ex_g) ex_ops)) = [(4, 600); (8, 400)] /\
  map b_hash (chain (run (init_state ex_g) ex_ops)) = [7; 3] /\
  genesis_volume ex_g = 1000.
Proof. vm_compute. repeat split. Qed.
