(* Proofs/LedgerPremises.v — the boolean premises evaluated on every generated
   history (Model/LedgerObs.v: premises_b) imply the premises of the theorems
   for that history's op list. *)
From Sky Require Import Base.Uint Model.Ledger Model.LedgerSpec Model.LedgerObs
  Proofs.LedgerBasics Proofs.LedgerProofs Proofs.LedgerUtxo.
From Coq Require Import Lia ZifyBool.
Open Scope Z_scope.

Definition hist_ops (h : history) : list op := map ExecBlock (all_blocks h).

Lemma hist_ops_txns h : ops_txns (hist_ops h) = all_txns h.
Proof.
  unfold ops_txns, hist_ops, all_txns. induction (all_blocks h) as [|b r IH]; cbn [map flat_map]; [reflexivity|].
  rewrite IH. reflexivity.
Qed.

Lemma block_in_range_sound b : block_in_range_b b = true -> block_in_range b.
Proof.
  unfold block_in_range_b, block_in_range. intros H. rewrite forallb_forall in H.
  apply Forall_forall. intros t Ht. specialize (H t Ht). rewrite forallb_forall in H.
  apply Forall_forall. intros o Ho. specialize (H o Ho). unfold in_ub in H. unfold in_u. lia.
Qed.

Lemma disjointZ_sound a b : disjointZ a b = true -> forall x, In x a -> ~ In x b.
Proof.
  unfold disjointZ. intros H x Hx. rewrite forallb_forall in H. specialize (H x Hx).
  apply Bool.negb_true_iff in H. apply memZ_false. assumption.
Qed.

Lemma eqb_list_Z_eq a : forall b, eqb_list Z.eqb a b = true -> a = b.
Proof.
  induction a as [|x r IH]; intros [|y s]; cbn [eqb_list]; intros H; try discriminate; [reflexivity|].
  apply Bool.andb_true_iff in H. destruct H as [H1 H2]. f_equal; [lia|auto].
Qed.

Lemma premises_sound h : premises_b h = true ->
  genesis_wf (hi_genesis h) /\ ops_in_range (hist_ops h) /\
  ids_consistent (hi_genesis h) (ops_txns (hist_ops h)).
Proof.
  unfold premises_b, hist_in_range_b, genesis_wf_b, ids_consistent_b. intros H.
  apply Bool.andb_true_iff in H. destruct H as [H HC].
  apply Bool.andb_true_iff in H. destruct H as [HR HG].
  apply Bool.andb_true_iff in HR. destruct HR as [R1 R2].
  apply Bool.andb_true_iff in HG. destruct HG as [HG G3].
  apply Bool.andb_true_iff in HG. destruct HG as [G1 G2].
  apply Bool.andb_true_iff in HC. destruct HC as [HC C3].
  apply Bool.andb_true_iff in HC. destruct HC as [C1 C2].
  split; [|split].
  - unfold genesis_wf. split; [apply block_in_range_sound; assumption|]. split.
    + apply nodupZ_NoDup. exact G2.
    + unfold blk_ins in G3. unfold all_ins. destruct (flat_map t_ins (b_txns (hi_genesis h))); [reflexivity|discriminate].
  - unfold ops_in_range, hist_ops. apply Forall_forall. intros o Ho. apply in_map_iff in Ho.
    destruct Ho as [b [Hb1 Hb2]]. subst o. cbn [op_block]. apply block_in_range_sound.
    rewrite forallb_forall in R2. auto.
  - rewrite hist_ops_txns. unfold ids_consistent. split; [|split].
    + intros t1 t2 o1 o2 Ht1 Ht2 Ho1 Ho2 Hid. unfold outs_src_consistent_b in C1.
      rewrite forallb_forall in C1. specialize (C1 t1 Ht1). rewrite forallb_forall in C1. specialize (C1 t2 Ht2).
      apply Bool.orb_true_iff in C1. destruct C1 as [C1|C1]; [lia|].
      exfalso. apply (disjointZ_sound _ _ C1 (o_id o1)); [apply in_map; assumption|].
      rewrite Hid. apply in_map. assumption.
    + intros t1 t2 Ht1 Ht2 Hh. unfold hash_ins_consistent_b in C2.
      rewrite forallb_forall in C2. specialize (C2 t1 Ht1). rewrite forallb_forall in C2. specialize (C2 t2 Ht2).
      apply Bool.orb_true_iff in C2. destruct C2 as [C2|C2]; [lia|]. apply eqb_list_Z_eq. assumption.
    + intros t o Ht Ho Hin. apply (disjointZ_sound _ _ C3 (o_id o)); [exact Hin|].
      apply in_map. apply in_flat_map. exists t. auto.
Qed.
