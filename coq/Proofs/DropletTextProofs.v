(* C30 — coin amount text conversion is exact. *)
From Sky Require Import Base.Uint Model.Base58 Model.DropletText Proofs.Base58Proofs.
From Coq Require Import Lia ZifyBool.
Open Scope Z_scope.

Lemma MaxInt64_val : MaxInt64 = 9223372036854775807. Proof. reflexivity. Qed.

(* ================= ToString fails exactly above MaxInt64 ================= *)
Lemma to_string_err_iff n : (exists e, to_string n = Err e) <-> MaxInt64 < n.
Proof.
  unfold to_string. destruct (MaxInt64 <? n) eqn:E.
  - split; [intros _; lia | intros _; eexists; reflexivity].
  - split; [intros [e He]; discriminate | intros H; lia].
Qed.

Lemma to_string_err_kind n e : to_string n = Err e -> e = "ErrTooLarge"%string.
Proof. unfold to_string. destruct (MaxInt64 <? n); [congruence|discriminate]. Qed.

(* ================= FromString accepts exactly ... ================= *)
Lemma pow10_19 e : 13 <= e -> 10 ^ 19 <= 10 ^ (e + 6).
Proof. intros H. apply Z.pow_le_mono_r; lia. Qed.

Theorem from_iff s w :
  from_string s = Ok w <->
  exists v e, new_from_string s = Some (v, e) /\ 0 <= v /\ -6 <= e /\
              w = v * 10 ^ (e + 6) /\ w <= MaxInt64.
Proof.
  unfold from_string. destruct (new_from_string s) as [[v e]|] eqn:En.
  - destruct (v <? 0) eqn:Ev.
    { split; [discriminate|]. intros (v' & e' & H & Hv & _). injection H as <- <-. lia. }
    destruct (e <? -6) eqn:Ee.
    { split; [discriminate|]. intros (v' & e' & H & _ & He & _). injection H as <- <-. lia. }
    destruct (12 <? e) eqn:Eb.
    + destruct (v =? 0) eqn:Ez.
      * split.
        -- intros H. injection H as <-. exists v, e. assert (v = 0) by lia. subst v.
           rewrite MaxInt64_val. repeat split; lia.
        -- intros (v' & e' & H & _ & _ & Hw & _). injection H as <- <-.
           assert (v = 0) by lia. subst v. f_equal. lia.
      * split; [discriminate|].
        intros (v' & e' & H & Hv & He & Hw & Hm). injection H as <- <-.
        pose proof (pow10_19 e ltac:(lia)) as Hp.
        assert (10 ^ 19 = 10000000000000000000) by reflexivity.
        rewrite MaxInt64_val in Hm. exfalso. nia.
    + destruct (MaxInt64 <? v * 10 ^ (e + 6)) eqn:Em.
      * split; [discriminate|].
        intros (v' & e' & H & _ & _ & Hw & Hm). injection H as <- <-. lia.
      * split.
        -- intros H. injection H as <-. exists v, e. repeat split; lia.
        -- intros (v' & e' & H & _ & _ & Hw & _). injection H as <- <-. now subst w.
  - split; [discriminate|]. intros (v & e & H & _). discriminate.
Qed.

Theorem from_range s w : from_string s = Ok w -> 0 <= w <= MaxInt64.
Proof.
  intros H. apply from_iff in H. destruct H as (v & e & _ & Hv & He & Hw & Hm).
  split; [|exact Hm]. subst w. apply Z.mul_nonneg_nonneg; [exact Hv|]. apply Z.pow_nonneg. lia.
Qed.

Theorem from_error_kinds s e : from_string s = Err e ->
  In e ["parse"; "ErrNegativeValue"; "ErrTooManyDecimals"; "ErrTooLarge"]%string.
Proof.
  unfold from_string. destruct (new_from_string s) as [[v x]|].
  - destruct (v <? 0); [intros H; injection H as <-; cbn; tauto|].
    destruct (x <? -6); [intros H; injection H as <-; cbn; tauto|].
    destruct (12 <? x).
    + destruct (v =? 0); [discriminate|intros H; injection H as <-; cbn; tauto].
    + destruct (MaxInt64 <? _); [intros H; injection H as <-; cbn; tauto|discriminate].
  - intros H; injection H as <-; cbn; tauto.
Qed.

(* the only power of ten the call asks the decimal library for is 10^k, k <= 18 *)
Theorem pow10_bounded s k : pow10_arg s = Some k -> 0 < k <= 18.
Proof.
  unfold pow10_arg. destruct (new_from_string s) as [[v e]|]; [|discriminate].
  destruct (v <? 0); [discriminate|]. destruct (e <? -6) eqn:E1; [discriminate|].
  destruct (12 <? e) eqn:E2; [discriminate|]. destruct (e + 6 =? 0) eqn:E3; [discriminate|].
  intros H. injection H as <-. lia.
Qed.

(* ================= digits and text ================= *)

Lemma horner_acc b : forall y acc,
  fold_left (fun a d => a * b + d) y acc = acc * b ^ Z.of_nat (List.length y) + horner b y.
Proof.
  unfold horner. induction y as [|d y IH]; intros acc.
  - cbn. lia.
  - cbn [fold_left List.length]. rewrite IH. rewrite (IH (0 * b + d)).
    rewrite Nat2Z.inj_succ, Z.pow_succ_r by lia. ring.
Qed.

Lemma horner_app b x y :
  horner b (x ++ y) = horner b x * b ^ Z.of_nat (List.length y) + horner b y.
Proof. unfold horner at 1. rewrite fold_left_app. apply horner_acc. Qed.

Lemma uint_value_app a b :
  uint_value (a ++ b) = uint_value a * 10 ^ Z.of_nat (List.length b) + uint_value b.
Proof. unfold uint_value. rewrite map_app, horner_app, map_length. reflexivity. Qed.

Lemma map_repeat' {A B} (f : A -> B) x k : map f (repeat x k) = repeat (f x) k.
Proof. induction k as [|k IH]; [reflexivity|]. cbn [repeat map]. now rewrite IH. Qed.

Lemma uint_value_zeros k : uint_value (repeat ch_0 k) = 0.
Proof.
  unfold uint_value. rewrite map_repeat'. change (ch_0 - 48) with 0.
  rewrite <- (app_nil_r (repeat 0 k)). rewrite horner_zeros. reflexivity.
Qed.

Lemma rev_repeat' {A} (x : A) k : rev (repeat x k) = repeat x k.
Proof.
  induction k as [|k IH]; [reflexivity|]. cbn [repeat rev]. rewrite IH.
  clear IH. induction k as [|k IH]; [reflexivity|]. cbn [repeat app]. now rewrite IH.
Qed.

(* TrimRight(s, "0") removes a run of '0's at the end and nothing else *)
Lemma lead_zeros_chars : forall l,
  firstn (lead_zeros (map (fun c => c - 48) l)) l = repeat ch_0 (lead_zeros (map (fun c => c - 48) l)).
Proof.
  induction l as [|c l IH]; [reflexivity|].
  cbn [map lead_zeros]. destruct (c - 48) eqn:E; try reflexivity.
  cbn [firstn repeat]. rewrite IH. f_equal. unfold ch_0. lia.
Qed.

Lemma trim_zeros_split s :
  exists k, s = trim_zeros s ++ repeat ch_0 k /\
            (trim_zeros s = [] \/ exists d c, trim_zeros s = d ++ [c] /\ c <> ch_0).
Proof.
  unfold trim_zeros. set (l := rev s). set (z := lead_zeros (map (fun c => c - 48) l)).
  exists z. split.
  - rewrite <- (rev_involutive s) at 1. fold l.
    rewrite <- (firstn_skipn z l) at 1. rewrite rev_app_distr.
    f_equal. unfold z. rewrite lead_zeros_chars. apply rev_repeat'.
  - pose proof (lead_zeros_split (map (fun c => c - 48) l)) as [_ Hnz]. fold z in Hnz.
    destruct (skipn z l) as [|c r] eqn:Es; [left; reflexivity|right].
    exists (rev r), c. split; [reflexivity|].
    rewrite skipn_map, Es in Hnz. cbn [map nz_head] in Hnz. unfold ch_0. lia.
Qed.

Lemma forallb_app' {A} (p : A -> bool) a b : forallb p (a ++ b) = forallb p a && forallb p b.
Proof. induction a as [|x a IH]; [reflexivity|]. cbn [app forallb]. rewrite IH. now rewrite andb_assoc. Qed.

Lemma split_first_none p : forall s, forallb (fun c => negb (p c)) s = true ->
  split_first p s = (s, None).
Proof.
  induction s as [|c r IH]; intros H; [reflexivity|].
  cbn [forallb] in H. apply andb_prop in H. destruct H as [Hc Hr].
  cbn [split_first]. destruct (p c); [discriminate|]. now rewrite IH.
Qed.

Lemma split_first_some p : forall a x b, forallb (fun c => negb (p c)) a = true -> p x = true ->
  split_first p (a ++ x :: b) = (a, Some b).
Proof.
  induction a as [|c r IH]; intros x b H Hx.
  - cbn [app split_first]. now rewrite Hx.
  - cbn [forallb] in H. apply andb_prop in H. destruct H as [Hc Hr].
    cbn [app split_first]. destruct (p c); [discriminate|]. now rewrite IH.
Qed.

Lemma split_first_inv p : forall s a o, split_first p s = (a, o) ->
  forallb (fun c => negb (p c)) a = true /\
  match o with
  | None => s = a
  | Some b => exists x, p x = true /\ s = a ++ x :: b
  end.
Proof.
  induction s as [|c r IH]; intros a o H; cbn [split_first] in H.
  - injection H as <- <-. split; reflexivity.
  - destruct (p c) eqn:Ec.
    + injection H as <- <-. split; [reflexivity|]. exists c. split; [exact Ec|reflexivity].
    + destruct (split_first p r) as [a' o'] eqn:Er. injection H as <- <-.
      destruct (IH a' o' eq_refl) as [Ha Ho]. split.
      * cbn [forallb]. now rewrite Ec, Ha.
      * destruct o' as [b|]; [destruct Ho as (x & Hx & ->); exists x; split; [exact Hx|reflexivity] | now subst r].
Qed.

Lemma parse_uint_digits s : s <> [] -> forallb is_digit s = true -> parse_uint s = Some (uint_value s).
Proof. intros Hne Hd. unfold parse_uint. destruct s; [congruence|]. now rewrite Hd. Qed.

Lemma parse_int_digits s : s <> [] -> forallb is_digit s = true -> parse_int s = Some (uint_value s).
Proof.
  intros Hne Hd. destruct s as [|c r]; [congruence|]. unfold parse_int.
  assert (Hc : is_digit c = true) by (cbn [forallb] in Hd; apply andb_prop in Hd; tauto).
  unfold is_digit in Hc. unfold ch_plus, ch_minus.
  replace (c =? 43) with false by lia. replace (c =? 45) with false by lia.
  apply parse_uint_digits; [discriminate|exact Hd].
Qed.

(* decimal text of a number *)
Lemma digit_chars ds : Forall (digit 10) ds -> forallb is_digit (map (fun d => d + 48) ds) = true.
Proof.
  induction 1 as [|d r Hd _ IH]; [reflexivity|]. cbn [map forallb]. rewrite IH.
  unfold digit in Hd. unfold is_digit. lia.
Qed.

Lemma map_sub_add ds : map (fun c => c - 48) (map (fun d => d + 48) ds) = ds.
Proof. rewrite map_map. rewrite <- (map_id ds) at 2. apply map_ext. intros; lia. Qed.

Lemma dec_text_digits m : 0 <= m -> forallb is_digit (dec_text m) = true /\ dec_text m <> [].
Proof.
  intros Hm. unfold dec_text. destruct (m =? 0) eqn:E; [split; [reflexivity|discriminate]|].
  destruct (digits_canon 10 ltac:(lia) m Hm) as [Hd _]. split; [apply digit_chars; exact Hd|].
  intros Hnil. apply map_eq_nil in Hnil.
  pose proof (horner_digits 10 ltac:(lia) m Hm) as Hv. rewrite Hnil in Hv. cbn in Hv. lia.
Qed.

Lemma dec_text_value m : 0 <= m -> uint_value (dec_text m) = m.
Proof.
  intros Hm. unfold dec_text, uint_value. destruct (m =? 0) eqn:E.
  - cbn. lia.
  - rewrite map_sub_add. apply horner_digits; lia.
Qed.

Lemma fixed_rev_spec : forall k r, 0 <= r < 10 ^ Z.of_nat k ->
  le_val 10 (fixed_rev k r) = r /\ Forall (digit 10) (fixed_rev k r) /\ List.length (fixed_rev k r) = k.
Proof.
  induction k as [|k IH]; intros r Hr.
  - cbn in Hr. cbn. split; [lia|]. split; [constructor|reflexivity].
  - rewrite Nat2Z.inj_succ, Z.pow_succ_r in Hr by lia.
    assert (Hq : 0 <= r / 10 < 10 ^ Z.of_nat k).
    { split; [apply Z.div_pos; lia|]. apply Z.div_lt_upper_bound; lia. }
    destruct (IH (r / 10) Hq) as (Hv & Hd & Hl).
    cbn [fixed_rev le_val List.length]. rewrite Hv, Hl.
    pose proof (Z.div_mod r 10 ltac:(lia)). pose proof (Z.mod_pos_bound r 10 ltac:(lia)).
    split; [lia|]. split; [|reflexivity]. constructor; [unfold digit; lia|exact Hd].
Qed.

Lemma six_digits_spec r : 0 <= r < 1000000 ->
  uint_value (six_digits r) = r /\ forallb is_digit (six_digits r) = true /\
  List.length (six_digits r) = 6%nat.
Proof.
  intros Hr. destruct (fixed_rev_spec 6 r ltac:(cbn; lia)) as (Hv & Hd & Hl).
  unfold six_digits, uint_value. rewrite map_sub_add, horner_rev, Hv.
  split; [reflexivity|]. split.
  - apply digit_chars. apply Forall_rev. exact Hd.
  - now rewrite map_length, rev_length.
Qed.

Lemma digits_no_special s : forallb is_digit s = true ->
  forallb (fun c => negb (is_exp_char c)) s = true /\ forallb (fun c => negb (is_dot c)) s = true.
Proof.
  induction s as [|c r IH]; intros H; [split; reflexivity|].
  cbn [forallb] in H. apply andb_prop in H. destruct H as [Hc Hr]. destruct (IH Hr) as [H1 H2].
  cbn [forallb]. rewrite H1, H2. unfold is_digit in Hc.
  unfold is_exp_char, is_dot, ch_E, ch_e, ch_dot. split; lia.
Qed.

Lemma forallb_existsb_neg {A} (p : A -> bool) s :
  forallb (fun c => negb (p c)) s = true -> existsb p s = false.
Proof.
  induction s as [|c r IH]; intros H; [reflexivity|].
  cbn [forallb] in H. apply andb_prop in H. destruct H as [Hc Hr].
  cbn [existsb]. rewrite (IH Hr). destruct (p c); [discriminate|reflexivity].
Qed.

(* ================= ToString then FromString ================= *)

Theorem to_from n : 0 <= n <= MaxInt64 ->
  exists s, to_string n = Ok s /\ from_string s = Ok n.
Proof.
  intros Hn. unfold to_string. replace (MaxInt64 <? n) with false by lia.
  eexists. split; [reflexivity|].
  set (q := n / 1000000). set (r := n mod 1000000).
  assert (Hq : 0 <= q) by (apply Z.div_pos; lia).
  assert (Hr : 0 <= r < 1000000) by (apply Z.mod_pos_bound; lia).
  assert (Hn' : n = q * 1000000 + r) by (pose proof (Z.div_mod n 1000000 ltac:(lia)); subst q r; lia).
  destruct (dec_text_digits q Hq) as [Hipd Hipne].
  pose proof (dec_text_value q Hq) as Hipv.
  destruct (six_digits_spec r Hr) as (Hfv & Hfd & Hfl).
  set (ip := dec_text q) in *. set (fp := six_digits r) in *.
  destruct (trim_zeros_split fp) as (k & Hsplit & _).
  set (dp := trim_zeros fp) in *.
  assert (Hlen : (List.length dp + k = 6)%nat).
  { pose proof (f_equal (@List.length Z) Hsplit) as Hsl.
    rewrite app_length, repeat_length in Hsl. lia. }
  assert (Hdpd : forallb is_digit dp = true).
  { pose proof Hfd as Hfd'. rewrite Hsplit, forallb_app' in Hfd'. apply andb_prop in Hfd'. tauto. }
  assert (Hfpv : uint_value dp * 10 ^ Z.of_nat k = r).
  { rewrite <- Hfv. pose proof (f_equal uint_value Hsplit) as Hsv.
    rewrite uint_value_app, repeat_length, uint_value_zeros in Hsv. lia. }
  (* NewFromString *)
  assert (Hnew : new_from_string (ip ++ [ch_dot] ++ fp) =
                 Some (q * 10 ^ Z.of_nat (List.length dp) + uint_value dp, - Z.of_nat (List.length dp))).
  { unfold new_from_string.
    assert (Hall : forallb (fun c => negb (is_exp_char c)) (ip ++ [ch_dot] ++ fp) = true).
    { rewrite !forallb_app'. destruct (digits_no_special ip Hipd) as [-> _].
      destruct (digits_no_special fp Hfd) as [-> _]. reflexivity. }
    rewrite (split_first_none _ _ Hall).
    change (ip ++ [ch_dot] ++ fp) with (ip ++ ch_dot :: fp).
    rewrite split_first_some; [| apply digits_no_special; exact Hipd | reflexivity].
    rewrite (forallb_existsb_neg is_dot fp) by (apply digits_no_special; exact Hfd).
    fold dp.
    rewrite parse_int_digits.
    - rewrite uint_value_app, Hipv.
      replace (in_int32 (0 - Z.of_nat (List.length dp))) with true
        by (unfold in_int32; symmetry; apply andb_true_intro; split; lia).
      reflexivity.
    - destruct ip; [congruence|discriminate].
    - rewrite forallb_app', Hipd, Hdpd. reflexivity. }
  apply from_iff. eexists. eexists. split; [exact Hnew|].
  assert (Hpow : 10 ^ Z.of_nat (List.length dp) * 10 ^ Z.of_nat k = 1000000).
  { rewrite <- Z.pow_add_r by lia. replace (Z.of_nat (List.length dp) + Z.of_nat k) with 6 by lia. reflexivity. }
  assert (Hdv : 0 <= uint_value dp).
  { unfold uint_value. apply (horner_nonneg 10); [lia|].
    clear -Hdpd. induction dp as [|c d IH]; [constructor|].
    cbn [forallb] in Hdpd. apply andb_prop in Hdpd. destruct Hdpd as [Hc Hd].
    cbn [map]. constructor; [unfold digit; unfold is_digit in Hc; lia|apply IH; exact Hd]. }
  assert (Hp1 : 0 < 10 ^ Z.of_nat (List.length dp)) by (apply Z.pow_pos_nonneg; lia).
  split; [nia|]. split; [lia|].
  replace (- Z.of_nat (List.length dp) + 6) with (Z.of_nat k) by lia.
  split; [|lia]. nia.
Qed.

(* ================= the accepted syntax ================= *)

Lemma parse_uint_text s v : parse_uint s = Some v -> digits_text s /\ v = uint_value s.
Proof.
  unfold parse_uint, digits_text. destruct s as [|c r]; [discriminate|].
  destruct (forallb is_digit (c :: r)) eqn:E; [|discriminate].
  intros H. assert (Hv : v = uint_value (c :: r)) by congruence.
  split; [split; [discriminate|reflexivity]|exact Hv].
Qed.

Lemma parse_int_text s v : parse_int s = Some v -> int_text s v.
Proof.
  unfold parse_int, int_text. destruct s as [|c r]; [discriminate|].
  destruct (c =? ch_plus) eqn:Ep.
  - intros H. apply parse_uint_text in H. right. left. exists r.
    split; [f_equal; lia|exact H].
  - destruct (c =? ch_minus) eqn:Em.
    + destruct (parse_uint r) as [u|] eqn:Eu; [|discriminate]. cbn [option_map].
      intros H. injection H as <-. apply parse_uint_text in Eu. destruct Eu as [Hd ->].
      right. right. exists r. split; [f_equal; lia|]. split; [exact Hd|reflexivity].
    + intros H. apply parse_uint_text in H. left. exact H.
Qed.

Lemma int_text_parse s v : int_text s v -> parse_int s = Some v.
Proof.
  unfold int_text. intros [[Hd ->]|[(r & -> & Hd & ->)|(r & -> & Hd & ->)]].
  - destruct Hd as [Hne Hd]. apply parse_int_digits; assumption.
  - destruct Hd as [Hne Hd]. unfold parse_int. rewrite Z.eqb_refl. apply parse_uint_digits; assumption.
  - destruct Hd as [Hne Hd]. unfold parse_int. change (ch_minus =? ch_plus) with false. rewrite Z.eqb_refl.
    rewrite parse_uint_digits by assumption. reflexivity.
Qed.

Lemma existsb_forallb_neg {A} (p : A -> bool) s :
  existsb p s = false -> forallb (fun c => negb (p c)) s = true.
Proof.
  induction s as [|c r IH]; intros H; [reflexivity|].
  cbn [existsb] in H. apply orb_false_elim in H. destruct H as [Hc Hr].
  cbn [forallb]. now rewrite Hc, (IH Hr).
Qed.

(* whatever NewFromString accepts has the documented shape *)
Theorem new_from_string_text s v e : new_from_string s = Some (v, e) -> decimal_text s v e.
Proof.
  unfold new_from_string, decimal_text.
  destruct (split_first is_exp_char s) as [mant etxt] eqn:Es.
  apply split_first_inv in Es. destruct Es as [Hmant Hs].
  set (E0 := match etxt with
             | None => Some 0
             | Some es => match parse_int es with
                          | Some e1 => if in_int32 e1 then Some e1 else None
                          | None => None
                          end
             end).
  destruct E0 as [e0|] eqn:EE0; [|discriminate]. subst E0.
  assert (Hexp : s = mant /\ e0 = 0 \/
                 exists x es, is_exp_char x = true /\ s = mant ++ x :: es /\ int_text es e0 /\ - 2 ^ 31 <= e0 < 2 ^ 31).
  { destruct etxt as [es|].
    - right. destruct Hs as (x & Hx & ->). exists x, es.
      destruct (parse_int es) as [e1|] eqn:Ep; [|discriminate].
      destruct (in_int32 e1) eqn:Ei; [|discriminate]. injection EE0 as <-.
      split; [exact Hx|]. split; [reflexivity|]. split; [apply parse_int_text; exact Ep|].
      unfold in_int32 in Ei. lia.
    - left. injection EE0 as <-. split; [exact Hs|reflexivity]. }
  destruct (split_first is_dot mant) as [p0 o] eqn:Ed.
  apply split_first_inv in Ed. destruct Ed as [Hp0 Hm].
  destruct o as [p1|].
  - destruct (existsb is_dot p1) eqn:Ex; [discriminate|].
    destruct (parse_int (p0 ++ trim_zeros p1)) as [v1|] eqn:Ep; [|discriminate].
    destruct (in_int32 (e0 - Z.of_nat (List.length (trim_zeros p1)))) eqn:Ei; [|discriminate].
    intros H. injection H as <- <-.
    exists mant, e0. split; [exact Hmant|]. split; [exact Hexp|]. right.
    destruct Hm as (x & Hx & ->).
    destruct (trim_zeros_split p1) as (k & Hsp & Hend).
    exists p0, (trim_zeros p1), k. split.
    { rewrite <- Hsp. f_equal. f_equal. apply Z.eqb_eq. exact Hx. }
    split.
    { rewrite forallb_app', Hp0. cbn [andb].
      apply existsb_forallb_neg in Ex. rewrite Hsp, forallb_app' in Ex.
      apply andb_prop in Ex. tauto. }
    split; [exact Hend|]. split; [apply parse_int_text; exact Ep|]. split; [reflexivity|].
    unfold in_int32 in Ei. lia.
  - destruct (parse_int p0) as [v1|] eqn:Ep; [|discriminate].
    intros H. injection H as <- <-. subst mant.
    exists p0, e0. split; [exact Hmant|]. split; [exact Hexp|]. left.
    split; [exact Hp0|]. split; [apply parse_int_text; exact Ep|reflexivity].
Qed.

Lemma trim_zeros_canon dp k :
  (dp = [] \/ exists d c, dp = d ++ [c] /\ c <> ch_0) ->
  trim_zeros (dp ++ repeat ch_0 k) = dp.
Proof.
  intros Hend. unfold trim_zeros. rewrite rev_app_distr, rev_repeat'.
  rewrite map_app, map_repeat'. change (ch_0 - 48) with 0.
  assert (Hnz : nz_head (map (fun c => c - 48) (rev dp))).
  { destruct Hend as [->|(d & c & -> & Hc)]; [exact I|].
    rewrite rev_app_distr. cbn [rev app map nz_head]. unfold ch_0 in Hc. lia. }
  rewrite (lead_zeros_app k _ Hnz).
  rewrite (skipn_app_exact _ _ _ (repeat_length ch_0 k)). apply rev_involutive.
Qed.

(* ... and everything of that shape is accepted, with that value and exponent *)
Theorem text_new_from_string s v e : decimal_text s v e -> new_from_string s = Some (v, e).
Proof.
  unfold decimal_text. intros (mant & e0 & Hmant & Hexp & Hbody).
  unfold new_from_string.
  assert (Hsplit : exists etxt, split_first is_exp_char s = (mant, etxt) /\
            match etxt with
            | None => Some 0
            | Some es => match parse_int es with
                         | Some e1 => if in_int32 e1 then Some e1 else None
                         | None => None
                         end
            end = Some e0).
  { destruct Hexp as [[-> ->]|(x & es & Hx & -> & Hes & Hr)].
    - exists None. split; [apply split_first_none; exact Hmant|reflexivity].
    - exists (Some es). split; [apply split_first_some; assumption|].
      rewrite (int_text_parse _ _ Hes).
      replace (in_int32 e0) with true by (unfold in_int32; lia). reflexivity. }
  destruct Hsplit as (etxt & -> & ->).
  destruct Hbody as [(Hnd & Hv & ->)|(p0 & dp & k & -> & Hnd & Hend & Hv & -> & Hr)].
  - rewrite (split_first_none _ _ Hnd). rewrite (int_text_parse _ _ Hv). reflexivity.
  - rewrite forallb_app' in Hnd. apply andb_prop in Hnd. destruct Hnd as [Hp0 Hdp].
    rewrite split_first_some; [|exact Hp0|reflexivity].
    assert (Hnodot : existsb is_dot (dp ++ repeat ch_0 k) = false).
    { apply forallb_existsb_neg. rewrite forallb_app', Hdp. cbn [andb].
      clear. induction k as [|k IH]; [reflexivity|]. cbn [repeat forallb]. now rewrite IH. }
    rewrite Hnodot. rewrite (trim_zeros_canon dp k Hend).
    rewrite (int_text_parse _ _ Hv).
    replace (in_int32 (e0 - Z.of_nat (List.length dp))) with true by (unfold in_int32; lia).
    reflexivity.
Qed.

Theorem new_from_string_iff s v e : new_from_string s = Some (v, e) <-> decimal_text s v e.
Proof. split; [apply new_from_string_text|apply text_new_from_string]. Qed.
