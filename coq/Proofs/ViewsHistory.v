(* C07 proofs, part 2: the history buckets maintained by HistoryDB.ParseBlock. *)
From Sky Require Import Base.Uint Model.Views Proofs.ViewsBase Proofs.ViewsUnspent.
From Coq Require Import Lia ZifyBool ZArith Bool List Permutation.
Import ListNotations.
Open Scope Z_scope.

(* ---------- projections of the event list *)

Definition p_create (e : event) : list uxout := match e with ECreate u _ => [u] | _ => [] end.
Definition p_spend (e : event) : list (Z * Z * Z) := match e with ESpend i t q => [(i, t, q)] | _ => [] end.
Definition p_txn (e : event) : list (txn * Z) := match e with ETxn t q => [(t, q)] | _ => [] end.
Definition p_touch (p : chain) (e : event) : list (Z * Z) :=
  match e with
  | ESpend i t _ => match find_ux p i with Some u => [(ux_addr u, t)] | None => [] end
  | ECreate u t => [(ux_addr u, t)]
  | ETxn _ _ => []
  end.

Lemma flat_map_snoc {A B} (f : A -> list B) l x : flat_map f (l ++ [x]) = flat_map f l ++ f x.
Proof. rewrite flat_map_app. cbn. now rewrite app_nil_r. Qed.

Lemma flat_map_map {A B C} (f : B -> list C) (g : A -> B) l : flat_map f (map g l) = flat_map (fun x => f (g x)) l.
Proof. induction l as [|x r IH]; cbn; [reflexivity | now rewrite IH]. Qed.

Lemma flat_map_nil {A B} (l : list A) : flat_map (fun _ => @nil B) l = [].
Proof. induction l; cbn; auto. Qed.

Lemma flat_map_single {A B} (g : A -> B) l : flat_map (fun x => [g x]) l = map g l.
Proof. induction l as [|x r IH]; cbn; [reflexivity | now rewrite IH]. Qed.

Lemma flat_map_flat_map {A B C} (f : B -> list C) (g : A -> list B) l :
  flat_map f (flat_map g l) = flat_map (fun x => flat_map f (g x)) l.
Proof. induction l as [|x r IH]; cbn; [reflexivity|]. now rewrite flat_map_app, IH. Qed.

Lemma flat_map_ext' {A B} (f g : A -> list B) l : (forall x, In x l -> f x = g x) -> flat_map f l = flat_map g l.
Proof.
  induction l as [|x r IH]; intros H; cbn; [reflexivity|].
  rewrite (H x (or_introl eq_refl)), IH; [reflexivity|]. intros y Hy. apply H. now right.
Qed.

(* what a block's events project to *)
Lemma txn_events_create b t : flat_map p_create (txn_events b t) = txn_uxs b t.
Proof.
  unfold txn_events. cbn [flat_map p_create app]. rewrite flat_map_app, !flat_map_map. cbn [p_create].
  rewrite flat_map_nil, flat_map_single, map_id. reflexivity.
Qed.
Lemma txn_events_spend b t : flat_map p_spend (txn_events b t) = map (fun i => (i, t_id t, b_seq b)) (t_ins t).
Proof.
  unfold txn_events. cbn [flat_map p_spend app]. rewrite flat_map_app, !flat_map_map. cbn [p_spend].
  rewrite flat_map_nil, flat_map_single, app_nil_r. reflexivity.
Qed.
Lemma txn_events_txn b t : flat_map p_txn (txn_events b t) = [(t, b_seq b)].
Proof.
  unfold txn_events. cbn [flat_map p_txn app]. rewrite flat_map_app, !flat_map_map. cbn [p_txn].
  now rewrite !flat_map_nil.
Qed.
Lemma txn_events_touch p b t :
  flat_map (p_touch p) (txn_events b t) =
  flat_map (fun i => match find_ux p i with Some u => [(ux_addr u, t_id t)] | None => [] end) (t_ins t)
  ++ map (fun u => (ux_addr u, t_id t)) (txn_uxs b t).
Proof.
  unfold txn_events. cbn [flat_map p_touch app]. rewrite flat_map_app, !flat_map_map. cbn [p_touch].
  now rewrite flat_map_single.
Qed.

Lemma block_events_create b : flat_map p_create (block_events b) = block_uxs b.
Proof. unfold block_events, block_uxs. rewrite flat_map_flat_map. apply flat_map_ext'. intros t _. apply txn_events_create. Qed.
Lemma block_events_spend b : flat_map p_spend (block_events b) = block_spends b.
Proof. unfold block_events, block_spends. rewrite flat_map_flat_map. apply flat_map_ext'. intros t _. apply txn_events_spend. Qed.
Lemma block_events_txn b : flat_map p_txn (block_events b) = block_txns b.
Proof.
  unfold block_events, block_txns. rewrite flat_map_flat_map.
  rewrite (flat_map_ext' _ (fun t => [(t, b_seq b)])); [apply flat_map_single|]. intros t _. apply txn_events_txn.
Qed.

Lemma block_spends_ids b : map (fun s => fst (fst s)) (block_spends b) = block_ins b.
Proof.
  unfold block_spends, block_ins. induction (b_txns b) as [|t r IH]; cbn; [reflexivity|].
  rewrite map_app, IH, map_map. cbn. now rewrite map_id.
Qed.

Lemma spends_ids c : map (fun s => fst (fst s)) (spends c) = spent_ids c.
Proof.
  unfold spends, spent_ids. induction c as [|b r IH]; cbn; [reflexivity|].
  now rewrite map_app, IH, block_spends_ids.
Qed.

(* ---------- the invariant, over explicit logs *)

Definition spender_l (S : list (Z * Z * Z)) (id : Z) : Z * Z :=
  match find (fun s => fst (fst s) =? id) S with Some (_, t, q) => (t, q) | None => (0, 0) end.

Record hinv (CR : list uxout) (S : list (Z * Z * Z)) (TX : list (txn * Z)) (T : list (Z * Z)) (h : hstate) : Prop := {
  hi_outs : forall id, aget id (h_outs h) =
                       match find (fun u => ux_id u =? id) CR with
                       | Some u => Some (mk_hout u (fst (spender_l S id)) (snd (spender_l S id)))
                       | None => None
                       end;
  hi_txns : forall tid, aget tid (h_txns h) = find (fun p => t_id (fst p) =? tid) TX;
  hi_aux : forall a, aget_list a (h_addr_ux h) = map ux_id (filter (fun u => ux_addr u =? a) CR);
  hi_atx : forall a, aget_list a (h_addr_txns h) = dedup (map snd (filter (fun p => fst p =? a) T)) }.

Lemma hagree_hinv h c :
  hagree h c <-> hinv (created c) (spends c) (txns_of c) (touches c) h /\ h_parsed h = some_head c.
Proof.
  unfold hagree. split.
  - intros (H1 & H2 & H3 & H4 & H5). split; [|exact H5]. constructor; auto.
    intros id. rewrite H1. unfold hist_of, find_ux, spender, spender_l.
    destruct (find (fun u => ux_id u =? id) (created c)); [|reflexivity].
    destruct (find (fun s => fst (fst s) =? id) (spends c)) as [[[i t] q]|]; reflexivity.
  - intros ([H1 H2 H3 H4] & H5). repeat split; auto.
    intros id. rewrite H1. unfold hist_of, find_ux, spender, spender_l.
    destruct (find (fun u => ux_id u =? id) (created c)); [|reflexivity].
    destruct (find (fun s => fst (fst s) =? id) (spends c)) as [[[i t] q]|]; reflexivity.
Qed.

(* ---------- add_once *)

Lemma add_once_same k v m : aget_list k (add_once k v m) = dstep (aget_list k m) v.
Proof.
  unfold add_once, dstep. destruct (memZ v (aget_list k m)); [reflexivity | apply aget_list_aput_eq].
Qed.
Lemma add_once_other k k' v m : k' <> k -> aget_list k' (add_once k v m) = aget_list k' m.
Proof.
  intros H. unfold add_once. destruct (memZ v (aget_list k m)); [reflexivity | now apply aget_list_aput_neq].
Qed.

Lemma dedup_touch_snoc T a a' tid :
  dedup (map snd (filter (fun p => fst p =? a) (T ++ [(a', tid)]))) =
  if a' =? a then dstep (dedup (map snd (filter (fun p => fst p =? a) T))) tid
  else dedup (map snd (filter (fun p => fst p =? a) T)).
Proof.
  rewrite filter_app. cbn [filter fst]. destruct (a' =? a).
  - rewrite map_app. cbn [map snd]. apply dedup_snoc.
  - now rewrite app_nil_r.
Qed.

(* ---------- one event *)

(* what must hold of an event given the logs so far (derived from wf_block below) *)
Definition ev_ok (p : chain) (CR : list uxout) (S : list (Z * Z * Z)) (TX : list (txn * Z)) (e : event) : Prop :=
  match e with
  | ETxn t _ => ~ In (t_id t) (map (fun q => t_id (fst q)) TX)
  | ESpend id _ _ => (exists u, find_ux p id = Some u /\ find (fun u => ux_id u =? id) CR = Some u) /\
                     ~ In id (map (fun s => fst (fst s)) S)
  | ECreate u _ => ~ In (ux_id u) (map ux_id CR) /\ ~ In (ux_id u) (map (fun s => fst (fst s)) S)
  end.

Lemma apply_event_inv p CR S TX T h e :
  hinv CR S TX T h -> ev_ok p CR S TX e ->
  exists h', apply_event h e = Some h' /\
             hinv (CR ++ p_create e) (S ++ p_spend e) (TX ++ p_txn e) (T ++ p_touch p e) h' /\
             h_parsed h' = h_parsed h.
Proof.
  intros [H1 H2 H3 H4] Hok. destruct e as [t q | id tid q | u tid]; cbn [ev_ok] in Hok.
  - (* ETxn *)
    eexists. split; [reflexivity|]. split; [|reflexivity].
    cbn [p_create p_spend p_txn p_touch]. rewrite !app_nil_r.
    constructor; cbn [h_outs h_txns h_addr_ux h_addr_txns]; auto.
    intros tid'. rewrite find_app. destruct (Z.eq_dec tid' (t_id t)) as [->|Hne].
    + rewrite aget_aput_eq.
      assert (E : find (fun p0 => t_id (fst p0) =? t_id t) TX = None).
      { apply (find_key_none (fun p0 : txn * Z => t_id (fst p0))). exact Hok. }
      rewrite E. cbn. now rewrite Z.eqb_refl.
    + rewrite aget_aput_neq by exact Hne. rewrite H2.
      destruct (find (fun p0 => t_id (fst p0) =? tid') TX); [reflexivity|].
      cbn. destruct (t_id t =? tid') eqn:E; [lia | reflexivity].
  - (* ESpend *)
    destruct Hok as ((u & Hp & Hc) & Hns).
    cbn [apply_event]. rewrite H1, Hc. eexists. split; [reflexivity|]. split; [|reflexivity].
    cbn [p_create p_spend p_txn p_touch ho_ux]. rewrite Hp, !app_nil_r.
    assert (Efind : find (fun s : Z * Z * Z => fst (fst s) =? id) S = None).
    { apply (find_key_none (fun s : Z * Z * Z => fst (fst s))). exact Hns. }
    constructor; cbn [h_outs h_txns h_addr_ux h_addr_txns]; auto.
    + intros id'. destruct (Z.eq_dec id' id) as [->|Hne].
      * rewrite aget_aput_eq, Hc. unfold spender_l. rewrite find_app, Efind. cbn. now rewrite Z.eqb_refl.
      * rewrite aget_aput_neq by exact Hne. rewrite H1.
        destruct (find (fun u0 => ux_id u0 =? id') CR); [|reflexivity].
        unfold spender_l. rewrite find_app.
        destruct (find (fun s => fst (fst s) =? id') S); [reflexivity|].
        cbn. destruct (id =? id') eqn:E; [lia | reflexivity].
    + intros a. rewrite dedup_touch_snoc. destruct (ux_addr u =? a) eqn:E.
      * assert (a = ux_addr u) by lia. subst a. now rewrite add_once_same, H4.
      * rewrite add_once_other by lia. apply H4.
  - (* ECreate *)
    destruct Hok as (Hfresh & Hns).
    eexists. split; [reflexivity|]. split; [|reflexivity].
    cbn [p_create p_spend p_txn p_touch]. rewrite !app_nil_r.
    assert (Efind : find (fun v => ux_id v =? ux_id u) CR = None).
    { apply (find_key_none ux_id). exact Hfresh. }
    constructor; cbn [h_outs h_txns h_addr_ux h_addr_txns]; auto.
    + intros id'. rewrite find_app. destruct (Z.eq_dec id' (ux_id u)) as [->|Hne].
      * rewrite aget_aput_eq, Efind. cbn. rewrite Z.eqb_refl. unfold spender_l.
        assert (E : find (fun s : Z * Z * Z => fst (fst s) =? ux_id u) S = None).
        { apply (find_key_none (fun s : Z * Z * Z => fst (fst s))). exact Hns. }
        now rewrite E.
      * rewrite aget_aput_neq by exact Hne. rewrite H1.
        destruct (find (fun u0 => ux_id u0 =? id') CR); [reflexivity|].
        cbn. destruct (ux_id u =? id') eqn:E; [lia | reflexivity].
    + intros a. rewrite filter_app, map_app. cbn [filter]. destruct (ux_addr u =? a) eqn:E.
      * assert (a = ux_addr u) by lia. subst a. rewrite add_once_same, H3. unfold dstep.
        assert (Em : memZ (ux_id u) (map ux_id (filter (fun u0 => ux_addr u0 =? ux_addr u) CR)) = false).
        { apply memZ_false. intros Hin. apply Hfresh. apply in_map_iff in Hin as (v & Ev & Hv).
          apply filter_In in Hv as [Hv _]. apply in_map_iff. now exists v. }
        now rewrite Em.
      * rewrite add_once_other by lia. rewrite H3. cbn. now rewrite app_nil_r.
    + intros a. rewrite dedup_touch_snoc. destruct (ux_addr u =? a) eqn:E.
      * assert (a = ux_addr u) by lia. subst a. now rewrite add_once_same, H4.
      * rewrite add_once_other by lia. apply H4.
Qed.

(* a list of events, each fine given the logs accumulated before it *)
Fixpoint evs_ok (p : chain) (CR : list uxout) (S : list (Z * Z * Z)) (TX : list (txn * Z)) (evs : list event) : Prop :=
  match evs with
  | [] => True
  | e :: r => ev_ok p CR S TX e /\ evs_ok p (CR ++ p_create e) (S ++ p_spend e) (TX ++ p_txn e) r
  end.

Lemma apply_events_inv p evs : forall CR S TX T h,
  hinv CR S TX T h -> evs_ok p CR S TX evs ->
  exists h', ofold apply_event evs h = Some h' /\
             hinv (CR ++ flat_map p_create evs) (S ++ flat_map p_spend evs) (TX ++ flat_map p_txn evs)
                  (T ++ flat_map (p_touch p) evs) h' /\
             h_parsed h' = h_parsed h.
Proof.
  induction evs as [|e r IH]; intros CR S TX T h Hinv Hok.
  - exists h. cbn. rewrite !app_nil_r. auto.
  - destruct Hok as [Hok Hrest].
    destruct (apply_event_inv p CR S TX T h e Hinv Hok) as (h1 & E1 & Hinv1 & Hp1).
    destruct (IH _ _ _ _ h1 Hinv1 Hrest) as (h' & E' & Hinv' & Hp').
    exists h'. cbn [ofold flat_map]. rewrite E1. split; [exact E'|]. split; [|congruence].
    rewrite !app_assoc. exact Hinv'.
Qed.

(* ---------- the events of a well-formed block are fine *)

Definition skey (s : Z * Z * Z) : Z := fst (fst s).
Definition tkey (q : txn * Z) : Z := t_id (fst q).

Lemma evs_ok_global p E : forall CR S TX,
  NoDup (map ux_id (CR ++ flat_map p_create E)) ->
  NoDup (map skey (S ++ flat_map p_spend E)) ->
  NoDup (map tkey (TX ++ flat_map p_txn E)) ->
  (forall id tid q, In (ESpend id tid q) E ->
     exists u, find_ux p id = Some u /\ find (fun u => ux_id u =? id) CR = Some u) ->
  (forall u tid, In (ECreate u tid) E -> ~ In (ux_id u) (map skey (S ++ flat_map p_spend E))) ->
  evs_ok p CR S TX E.
Proof.
  induction E as [|e r IH]; intros CR S TX Ha Hb Hc Hd He; cbn [evs_ok]; [exact I|].
  cbn [flat_map] in Ha, Hb, Hc, He. rewrite app_assoc in Ha, Hb, Hc.
  split.
  - destruct e as [t q | id tid q | u tid]; cbn [ev_ok p_create p_spend p_txn] in *.
    + rewrite map_app in Hc. apply NoDup_app_inv in Hc as (Hc1 & _ & _).
      rewrite map_app in Hc1. apply NoDup_app_inv in Hc1 as (_ & _ & Hc3).
      intros Hin. apply (Hc3 _ Hin). now left.
    + split; [apply (Hd id tid q); now left|].
      rewrite map_app in Hb. apply NoDup_app_inv in Hb as (Hb1 & _ & _).
      rewrite map_app in Hb1. apply NoDup_app_inv in Hb1 as (_ & _ & Hb3).
      intros Hin. apply (Hb3 _ Hin). now left.
    + split.
      * rewrite map_app in Ha. apply NoDup_app_inv in Ha as (Ha1 & _ & _).
        rewrite map_app in Ha1. apply NoDup_app_inv in Ha1 as (_ & _ & Ha3).
        intros Hin. apply (Ha3 _ Hin). now left.
      * intros Hin. apply (He u tid (or_introl eq_refl)). rewrite app_nil_l in *.
        rewrite map_app. apply in_app_iff. now left.
  - apply IH; auto.
    + intros id tid q Hin. destruct (Hd id tid q (or_intror Hin)) as (u & H1 & H2).
      exists u. split; [exact H1|]. rewrite find_app, H2. reflexivity.
    + intros u tid Hin. rewrite <- app_assoc. apply (He u tid). now right.
Qed.

Lemma in_flat_map_proj {A B} (f : A -> list B) l x y : In x l -> In y (f x) -> In y (flat_map f l).
Proof. intros H1 H2. apply in_flat_map. now exists x. Qed.

Lemma find_ux_some p i : In i (map ux_id (created p)) -> exists u, find_ux p i = Some u /\ ux_id u = i.
Proof.
  intros Hin. unfold find_ux. destruct (find (fun u => ux_id u =? i) (created p)) as [u|] eqn:E.
  - exists u. split; [reflexivity|]. apply find_some in E. lia.
  - exfalso. apply (find_key_none ux_id) in E. contradiction.
Qed.

Lemma block_events_ok p b : cinv p -> wfb p b ->
  evs_ok p (created p) (spends p) (txns_of p) (block_events b).
Proof.
  intros Hc Hb. pose proof (cinv_snoc p b Hc Hb) as Hc'.
  apply evs_ok_global.
  - rewrite block_events_create, <- created_snoc. apply Hc'.
  - rewrite block_events_spend, <- spends_snoc. unfold skey. rewrite spends_ids. apply Hc'.
  - rewrite block_events_txn, <- txns_snoc. apply Hc'.
  - intros id tid q Hin.
    assert (Hi : In id (block_ins b)).
    { rewrite <- block_spends_ids, <- block_events_spend. apply in_map_iff. exists (id, tid, q). split; [reflexivity|].
      apply (in_flat_map_proj p_spend _ (ESpend id tid q)); [exact Hin | now left]. }
    destruct (find_ux_some p id (utxo_ids_sub p id (wb_ins_unspent _ _ Hb id Hi))) as (u & Hu & _).
    exists u. split; exact Hu.
  - intros u tid Hin.
    assert (Hu : In u (block_uxs b)).
    { rewrite <- block_events_create. apply (in_flat_map_proj p_create _ (ECreate u tid)); [exact Hin | now left]. }
    rewrite block_events_spend, <- spends_snoc. unfold skey. rewrite spends_ids, spent_snoc, in_app_iff.
    intros [H|H]; apply (wb_new_fresh _ _ Hb u Hu).
    + now apply (ci_spent_sub _ Hc).
    + apply utxo_ids_sub. now apply (wb_ins_unspent _ _ Hb).
Qed.

(* ---------- touches under extension of the chain *)

Lemma find_ux_snoc p b i u : find_ux p i = Some u -> find_ux (p ++ [b]) i = Some u.
Proof. unfold find_ux. rewrite created_snoc, find_app. now intros ->. Qed.

Lemma txn_ins_spent c t q : In (t, q) (txns_of c) -> incl (t_ins t) (spent_ids c).
Proof.
  unfold txns_of, spent_ids. intros H i Hi. apply in_flat_map in H as (b & Hb & H).
  unfold block_txns in H. apply in_map_iff in H as (t' & E & Ht). injection E as -> _.
  apply in_flat_map. exists b. split; [exact Hb|]. unfold block_ins. apply in_flat_map. now exists t.
Qed.

Lemma map_flat_map {A B C} (f : B -> C) (g : A -> list B) l : map f (flat_map g l) = flat_map (fun x => map f (g x)) l.
Proof. induction l as [|x r IH]; cbn; [reflexivity|]. now rewrite map_app, IH. Qed.

Lemma touches_snoc p b : cinv p -> wfb p b ->
  touches (p ++ [b]) = touches p ++ flat_map (p_touch p) (block_events b).
Proof.
  intros Hc Hb. unfold touches. rewrite txns_snoc, flat_map_app. f_equal.
  - apply flat_map_ext'. intros [t q] Hin. cbn [fst]. f_equal. unfold txn_addrs. f_equal.
    apply flat_map_ext'. intros i Hi.
    assert (Hcr : In i (map ux_id (created p))).
    { apply (ci_spent_sub _ Hc). now apply (txn_ins_spent p t q Hin). }
    destruct (find_ux_some p i Hcr) as (u & Hu & _). now rewrite (find_ux_snoc p b i u Hu), Hu.
  - unfold block_txns, block_events. rewrite flat_map_map, flat_map_flat_map.
    apply flat_map_ext'. intros t Ht. cbn [fst]. rewrite txn_events_touch. unfold txn_addrs.
    rewrite map_app, map_flat_map. f_equal.
    + apply flat_map_ext'. intros i Hi.
      assert (Hib : In i (block_ins b)) by (unfold block_ins; apply in_flat_map; now exists t).
      destruct (find_ux_some p i (utxo_ids_sub p i (wb_ins_unspent _ _ Hb i Hib))) as (u & Hu & _).
      now rewrite (find_ux_snoc p b i u Hu), Hu.
    + unfold txn_uxs. rewrite !map_map. reflexivity.
Qed.

(* ---------- one block *)

Lemma parse_block_agree h p b :
  cinv p -> wfb p b -> hagree h p ->
  exists h', parse_block h b = Some h' /\ hagree h' (p ++ [b]).
Proof.
  intros Hc Hb Hag. apply hagree_hinv in Hag as [Hinv Hpar].
  destruct (apply_events_inv p (block_events b) _ _ _ _ h Hinv (block_events_ok p b Hc Hb)) as (h1 & E1 & Hinv1 & _).
  unfold parse_block. rewrite E1. eexists. split; [reflexivity|].
  apply hagree_hinv. split.
  - rewrite block_events_create, block_events_spend, block_events_txn in Hinv1.
    rewrite created_snoc, spends_snoc, txns_snoc, (touches_snoc p b Hc Hb).
    destruct Hinv1 as [A1 A2 A3 A4]. constructor; cbn [h_outs h_txns h_addr_ux h_addr_txns]; assumption.
  - cbn [h_parsed]. rewrite (wb_seq _ _ Hb). unfold some_head, head_seq. destruct (p ++ [b]) eqn:E.
    + destruct p; discriminate.
    + rewrite <- E, app_length. cbn. f_equal. lia.
Qed.

Lemma hagree_empty : hagree hs_empty [].
Proof. unfold hagree, hs_empty. cbn. repeat split; auto. Qed.
