(* C07 proofs, part 2: the history buckets maintained by HistoryDB.ParseBlock. *)
From Sky Require Import Base.Uint Model.Views Proofs.ViewsBase Proofs.ViewsUnspent.
From Coq Require Import Lia ZifyBool ZArith Bool List Permutation.
Import ListNotations.
Open Scope Z_scope.

(* ---------- projections of the event list *)

Definition p_create (e : event) : list uxout := match e with ECreate u _ => [u] | _ => [] end.
Definition p_spend (e : event) : list (Z * Z * Z) := match e with ESpend i t q => [(i, t, q)] | _ => [] end.
Definition p_txn (e : event) : list (txn * Z) := match e with ETxn t q => [(t, q)] | _ => [] end.
Definition p_touch (p : chain) (e : event) : list (Z * Z) :=
  match e with
  | ESpend i t _ => match find_ux p i with Some u => [(ux_addr u, t)] | None => [] end
  | ECreate u t => [(ux_addr u, t)]
  | ETxn _ _ => []
  end.

Lemma flat_map_snoc {A B} (f : A -> list B) l x : flat_map f (l ++ [x]) = flat_map f l ++ f x.
Proof. rewrite flat_map_app. cbn. now rewrite app_nil_r. Qed.

Lemma flat_map_map {A B C} (f : B -> list C) (g : A -> B) l : flat_map f (map g l) = flat_map (fun x => f (g x)) l.
Proof. induction l as [|x r IH]; cbn; [reflexivity | now rewrite IH]. Qed.

Lemma flat_map_nil {A B} (l : list A) : flat_map (fun _ => @nil B) l = [].
Proof. induction l; cbn; auto. Qed.

Lemma flat_map_single {A B} (g : A -> B) l : flat_map (fun x => [g x]) l = map g l.
Proof. induction l as [|x r IH]; cbn; [reflexivity | now rewrite IH]. Qed.

Lemma flat_map_flat_map {A B C} (f : B -> list C) (g : A -> list B) l :
  flat_map f (flat_map g l) = flat_map (fun x => flat_map f (g x)) l.
Proof. induction l as [|x r IH]; cbn; [reflexivity|]. now rewrite flat_map_app, IH. Qed.

Lemma flat_map_ext' {A B} (f g : A -> list B) l : (forall x, In x l -> f x = g x) -> flat_map f l = flat_map g l.
Proof.
  induction l as [|x r IH]; intros H; cbn; [reflexivity|].
  rewrite (H x (or_introl eq_refl)), IH; [reflexivity|]. intros y Hy. apply H. now right.
Qed.

(* what a block's events project to *)
Lemma txn_events_create b t : flat_map p_create (txn_events b t) = txn_uxs b t.
Proof.
  unfold txn_events. cbn [flat_map p_create app]. rewrite flat_map_app, !flat_map_map. cbn [p_create].
  rewrite flat_map_nil, flat_map_single, map_id. reflexivity.
Qed.
Lemma txn_events_spend b t : flat_map p_spend (txn_events b t) = map (fun i => (i, t_id t, b_seq b)) (t_ins t).
Proof.
  unfold txn_events. cbn [flat_map p_spend app]. rewrite flat_map_app, !flat_map_map. cbn [p_spend].
  rewrite flat_map_nil, flat_map_single, app_nil_r. reflexivity.
Qed.
Lemma txn_events_txn b t : flat_map p_txn (txn_events b t) = [(t, b_seq b)].
Proof.
  unfold txn_events. cbn [flat_map p_txn app]. rewrite flat_map_app, !flat_map_map. cbn [p_txn].
  now rewrite !flat_map_nil.
Qed.
Lemma txn_events_touch p b t :
  flat_map (p_touch p) (txn_events b t) =
  flat_map (fun i => match find_ux p i with Some u => [(ux_addr u, t_id t)] | None => [] end) (t_ins t)
  ++ map (fun u => (ux_addr u, t_id t)) (txn_uxs b t).
Proof.
  unfold txn_events. cbn [flat_map p_touch app]. rewrite flat_map_app, !flat_map_map. cbn [p_touch].
  now rewrite flat_map_single.
Qed.

Lemma block_events_create b : flat_map p_create (block_events b) = block_uxs b.
Proof. unfold block_events, block_uxs. rewrite flat_map_flat_map. apply flat_map_ext'. intros t _. apply txn_events_create. Qed.
Lemma block_events_spend b : flat_map p_spend (block_events b) = block_spends b.
Proof. unfold block_events, block_spends. rewrite flat_map_flat_map. apply flat_map_ext'. intros t _. apply txn_events_spend. Qed.
Lemma block_events_txn b : flat_map p_txn (block_events b) = block_txns b.
Proof.
  unfold block_events, block_txns. rewrite flat_map_flat_map.
  rewrite (flat_map_ext' _ (fun t => [(t, b_seq b)])); [apply flat_map_single|]. intros t _. apply txn_events_txn.
Qed.

Lemma block_spends_ids b : map (fun s => fst (fst s)) (block_spends b) = block_ins b.
Proof.
  unfold block_spends, block_ins. induction (b_txns b) as [|t r IH]; cbn; [reflexivity|].
  rewrite map_app, IH, map_map. cbn. now rewrite map_id.
Qed.

Lemma spends_ids c : map (fun s => fst (fst s)) (spends c) = spent_ids c.
Proof.
  unfold spends, spent_ids. induction c as [|b r IH]; cbn; [reflexivity|].
  now rewrite map_app, IH, block_spends_ids.
Qed.

(* ---------- the invariant, over explicit logs *)

Definition spender_l (S : list (Z * Z * Z)) (id : Z) : Z * Z :=
  match find (fun s => fst (fst s) =? id) S with Some (_, t, q) => (t, q) | None => (0, 0) end.

Record hinv (CR : list uxout) (S : list (Z * Z * Z)) (TX : list (txn * Z)) (T : list (Z * Z)) (h : hstate) : Prop := {
  hi_outs : forall id, aget id (h_outs h) =
                       match find (fun u => ux_id u =? id) CR with
                       | Some u => Some (mk_hout u (fst (spender_l S id)) (snd (spender_l S id)))
                       | None => None
                       end;
  hi_txns : forall tid, aget tid (h_txns h) = find (fun p => t_id (fst p) =? tid) TX;
  hi_aux : forall a, aget_list a (h_addr_ux h) = map ux_id (filter (fun u => ux_addr u =? a) CR);
  hi_atx : forall a, aget_list a (h_addr_txns h) = dedup (map snd (filter (fun p => fst p =? a) T)) }.

Lemma hagree_hinv h c :
  hagree h c <-> hinv (created c) (spends c) (txns_of c) (touches c) h /\ h_parsed h = some_head c.
Proof.
  unfold hagree. split.
  - intros (H1 & H2 & H3 & H4 & H5). split; [|exact H5]. constructor; auto.
    intros id. rewrite H1. unfold hist_of, find_ux, spender, spender_l.
    destruct (find (fun u => ux_id u =? id) (created c)); [|reflexivity].
    destruct (find (fun s => fst (fst s) =? id) (spends c)) as [[[i t] q]|]; reflexivity.
  - intros ([H1 H2 H3 H4] & H5). repeat split; auto.
    intros id. rewrite H1. unfold hist_of, find_ux, spender, spender_l.
    destruct (find (fun u => ux_id u =? id) (created c)); [|reflexivity].
    destruct (find (fun s => fst (fst s) =? id) (spends c)) as [[[i t] q]|]; reflexivity.
Qed.

(* ---------- add_once *)

Lemma add_once_same k v m : aget_list k (add_once k v m) = dstep (aget_list k m) v.
Proof.
  unfold add_once, dstep. destruct (memZ v (aget_list k m)); [reflexivity | apply aget_list_aput_eq].
Qed.
Lemma add_once_other k k' v m : k' <> k -> aget_list k' (add_once k v m) = aget_list k' m.
Proof.
  intros H. unfold add_once. destruct (memZ v (aget_list k m)); [reflexivity | now apply aget_list_aput_neq].
Qed.

Lemma dedup_touch_snoc T a a' tid :
  dedup (map snd (filter (fun p => fst p =? a) (T ++ [(a', tid)]))) =
  if a' =? a then dstep (dedup (map snd (filter (fun p => fst p =? a) T))) tid
  else dedup (map snd (filter (fun p => fst p =? a) T)).
Proof.
  rewrite filter_app. cbn [filter fst]. destruct (a' =? a).
  - rewrite map_app. cbn [map snd]. apply dedup_snoc.
  - now rewrite app_nil_r.
Qed.

(* ---------- one event *)

(* what must hold of an event given the logs so far (derived from wf_block below) *)
Definition ev_ok (p : chain) (CR : list uxout) (S : list (Z * Z * Z)) (TX : list (txn * Z)) (e : event) : Prop :=
  match e with
  | ETxn t _ => ~ In (t_id t) (map (fun q => t_id (fst q)) TX)
  | ESpend id _ _ => (exists u, find_ux p id = Some u /\ find (fun u => ux_id u =? id) CR = Some u) /\
                     ~ In id (map (fun s => fst (fst s)) S)
  | ECreate u _ => ~ In (ux_id u) (map ux_id CR) /\ ~ In (ux_id u) (map (fun s => fst (fst s)) S)
  end.

Lemma apply_event_inv p CR S TX T h e :
  hinv CR S TX T h -> ev_ok p CR S TX e ->
  exists h', apply_event h e = Some h' /\
             hinv (CR ++ p_create e) (S ++ p_spend e) (TX ++ p_txn e) (T ++ p_touch p e) h' /\
             h_parsed h' = h_parsed h.
Proof.
  intros [H1 H2 H3 H4] Hok. destruct e as [t q | id tid q | u tid]; cbn [ev_ok] in Hok.
  - (* ETxn *)
    eexists. split; [reflexivity|]. split; [|reflexivity].
    cbn [p_create p_spend p_txn p_touch]. rewrite !app_nil_r.
    constructor; cbn [h_outs h_txns h_addr_ux h_addr_txns]; auto.
    intros tid'. rewrite find_app. destruct (Z.eq_dec tid' (t_id t)) as [->|Hne].
    + rewrite aget_aput_eq.
      assert (E : find (fun p0 => t_id (fst p0) =? t_id t) TX = None).
      { apply (find_key_none (fun p0 : txn * Z => t_id (fst p0))). exact Hok. }
      rewrite E. cbn. now rewrite Z.eqb_refl.
    + rewrite aget_aput_neq by exact Hne. rewrite H2.
      destruct (find (fun p0 => t_id (fst p0) =? tid') TX); [reflexivity|].
      cbn. destruct (t_id t =? tid') eqn:E; [lia | reflexivity].
  - (* ESpend *)
    destruct Hok as ((u & Hp & Hc) & Hns).
    cbn [apply_event]. rewrite H1, Hc. eexists. split; [reflexivity|]. split; [|reflexivity].
    cbn [p_create p_spend p_txn p_touch ho_ux]. rewrite Hp, !app_nil_r.
    assert (Efind : find (fun s : Z * Z * Z => fst (fst s) =? id) S = None).
    { apply (find_key_none (fun s : Z * Z * Z => fst (fst s))). exact Hns. }
    constructor; cbn [h_outs h_txns h_addr_ux h_addr_txns]; auto.
    + intros id'. destruct (Z.eq_dec id' id) as [->|Hne].
      * rewrite aget_aput_eq, Hc. unfold spender_l. rewrite find_app, Efind. cbn. now rewrite Z.eqb_refl.
      * rewrite aget_aput_neq by exact Hne. rewrite H1.
        destruct (find (fun u0 => ux_id u0 =? id') CR); [|reflexivity].
        unfold spender_l. rewrite find_app.
        destruct (find (fun s => fst (fst s) =? id') S); [reflexivity|].
        cbn. destruct (id =? id') eqn:E; [lia | reflexivity].
    + intros a. rewrite dedup_touch_snoc. destruct (ux_addr u =? a) eqn:E.
      * assert (a = ux_addr u) by lia. subst a. now rewrite add_once_same, H4.
      * rewrite add_once_other by lia. apply H4.
  - (* ECreate *)
    destruct Hok as (Hfresh & Hns).
    eexists. split; [reflexivity|]. split; [|reflexivity].
    cbn [p_create p_spend p_txn p_touch]. rewrite !app_nil_r.
    assert (Efind : find (fun v => ux_id v =? ux_id u) CR = None).
    { apply (find_key_none ux_id). exact Hfresh. }
    constructor; cbn [h_outs h_txns h_addr_ux h_addr_txns]; auto.
    + intros id'. rewrite find_app. destruct (Z.eq_dec id' (ux_id u)) as [->|Hne].
      * rewrite aget_aput_eq, Efind. cbn. rewrite Z.eqb_refl. unfold spender_l.
        assert (E : find (fun s : Z * Z * Z => fst (fst s) =? ux_id u) S = None).
        { apply (find_key_none (fun s : Z * Z * Z => fst (fst s))). exact Hns. }
        now rewrite E.
      * rewrite aget_aput_neq by exact Hne. rewrite H1.
        destruct (find (fun u0 => ux_id u0 =? id') CR); [reflexivity|].
        cbn. destruct (ux_id u =? id') eqn:E; [lia | reflexivity].
    + intros a. rewrite filter_app, map_app. cbn [filter]. destruct (ux_addr u =? a) eqn:E.
      * assert (a = ux_addr u) by lia. subst a. rewrite add_once_same, H3. unfold dstep.
        assert (Em : memZ (ux_id u) (map ux_id (filter (fun u0 => ux_addr u0 =? ux_addr u) CR)) = false).
        { apply memZ_false. intros Hin. apply Hfresh. apply in_map_iff in Hin as (v & Ev & Hv).
          apply filter_In in Hv as [Hv _]. apply in_map_iff. now exists v. }
        now rewrite Em.
      * rewrite add_once_other by lia. rewrite H3. cbn. now rewrite app_nil_r.
    + intros a. rewrite dedup_touch_snoc. destruct (ux_addr u =? a) eqn:E.
      * assert (a = ux_addr u) by lia. subst a. now rewrite add_once_same, H4.
      * rewrite add_once_other by lia. apply H4.
Qed.

(* a list of events, each fine given the logs accumulated before it *)
Fixpoint evs_ok (p : chain) (CR : list uxout) (S : list (Z * Z * Z)) (TX : list (txn * Z)) (evs : list event) : Prop :=
  match evs with
  | [] => True
  | e :: r => ev_ok p CR S TX e /\ evs_ok p (CR ++ p_create e) (S ++ p_spend e) (TX ++ p_txn e) r
  end.

Lemma apply_events_inv p evs : forall CR S TX T h,
  hinv CR S TX T h -> evs_ok p CR S TX evs ->
  exists h', ofold apply_event evs h = Some h' /\
             hinv (CR ++ flat_map p_create evs) (S ++ flat_map p_spend evs) (TX ++ flat_map p_txn evs)
                  (T ++ flat_map (p_touch p) evs) h' /\
             h_parsed h' = h_parsed h.
Proof.
  induction evs as [|e r IH]; intros CR S TX T h Hinv Hok.
  - exists h. cbn. rewrite !app_nil_r. auto.
  - destruct Hok as [Hok Hrest].
    destruct (apply_event_inv p CR S TX T h e Hinv Hok) as (h1 & E1 & Hinv1 & Hp1).
    destruct (IH _ _ _ _ h1 Hinv1 Hrest) as (h' & E' & Hinv' & Hp').
    exists h'. cbn [ofold flat_map]. rewrite E1. split; [exact E'|]. split; [|congruence].
    rewrite !app_assoc. exact Hinv'.
Qed.
