(* Proofs/LedgerProofs.v — what an accepted block implies in the ledger model
   (inversion of exec_block, processTransactions, VerifyBlockTxnConstraints),
   rejected blocks are no-ops, and the C04 lemmas. *)
From Sky Require Import Base.Uint Model.Ledger Model.LedgerSpec Proofs.LedgerBasics.
From Coq Require Import Lia ZifyBool Permutation.
Open Scope Z_scope.

Lemma NoDup_app_intro {A} (a b : list A) :
  NoDup a -> NoDup b -> (forall x, In x a -> ~ In x b) -> NoDup (a ++ b).
Proof.
  induction a as [|x r IH]; cbn [app]; intros Ha Hb Hd; [assumption|].
  inversion Ha as [|? ? Hx Hr]; subst. constructor.
  - intros Hin. apply in_app_or in Hin. destruct Hin as [Hin|Hin]; [contradiction|].
    apply (Hd x); [left; reflexivity|assumption].
  - apply IH; auto. intros y Hy. apply Hd. right. assumption.
Qed.
Lemma NoDup_app_l {A} (a b : list A) : NoDup (a ++ b) -> NoDup a.
Proof.
  induction a as [|x r IH]; cbn [app]; intros H; [constructor|].
  inversion H as [|? ? Hx Hr]; subst. constructor; [|auto].
  intros Hin. apply Hx. apply in_or_app. left. assumption.
Qed.
Lemma NoDup_app_r {A} (a b : list A) : NoDup (a ++ b) -> NoDup b.
Proof. induction a as [|x r IH]; cbn [app]; intros H; [assumption|]. inversion H; auto. Qed.
Lemma NoDup_app_disj {A} (a b : list A) x : NoDup (a ++ b) -> In x a -> ~ In x b.
Proof.
  induction a as [|y r IH]; cbn [app In]; intros H Hin; [contradiction|].
  inversion H as [|? ? Hy Hr]; subst. destruct Hin as [Hin|Hin].
  - subst y. intros Hb. apply Hy. apply in_or_app. right. assumption.
  - apply IH; assumption.
Qed.
Lemma NoDup_rev_iff {A} (l : list A) : NoDup (rev l) <-> NoDup l.
Proof.
  split; intros H.
  - rewrite <- (rev_involutive l). apply NoDup_rev. assumption.
  - apply NoDup_rev. assumption.
Qed.

(* ------------------------------------------------------------------ exec_block *)
Definition insert_ok (s : state) (b : block) : bool :=
  forallb (fun u => negb (memZ (u_id u) (ids (remove_ids (all_ins (b_txns b)) (utxo s))))) (created b).

Lemma exec_accept_inv s b s' : exec_block s b = (s', Accepted) ->
  exists head rest spent,
    chain s = head :: rest /\
    b_sig_ok b = true /\
    eqb_option Z.eqb (option_map b_hash (genesis_of (chain s))) (Some (b_hash b)) = false /\
    verify_header head b = Pass /\
    process_txns (utxo s) head (b_txns b) = Pass /\
    h_uxhash (b_head b) = xorsum s /\
    ~ In (b_hash b) (map b_hash (chain s)) /\
    get_array (all_ins (b_txns b)) (utxo s) = Some spent /\
    insert_ok s b = true /\
    s' = apply_block s b spent.
Proof.
  unfold exec_block. destruct (chain s) as [|head rest] eqn:Ec; [intros H; inversion H|].
  cbv zeta.
  match goal with |- context [match ?c with Pass => _ | Fail _ => _ | Boom => _ end] => destruct c eqn:Hpre end;
    try (intros H; inversion H; fail).
  destruct (get_array (all_ins (b_txns b)) (utxo s)) as [spent|] eqn:Ega; [|intros H; inversion H].
  fold (insert_ok s b). destruct (insert_ok s b) eqn:Eio; [|intros H; inversion H].
  intros H. inversion H; subst s'.
  chk_split Hpre.
  apply guard_pass in Hc. apply guard_pass in Hc0. apply guard_pass in Hc3. apply guard_pass in Hpre.
  exists head, rest, spent. repeat split; try assumption.
  - apply Bool.negb_true_iff in Hc0. exact Hc0.
  - lia.
  - apply Bool.negb_true_iff in Hpre. apply memZ_false in Hpre. exact Hpre.
Qed.

Lemma exec_reject_noop s b s' o : exec_block s b = (s', o) -> o <> Accepted -> s' = s.
Proof.
  unfold exec_block. destruct (chain s) as [|head rest]; [intros H; inversion H; reflexivity|].
  cbv zeta.
  match goal with |- context [match ?c with Pass => _ | Fail _ => _ | Boom => _ end] => destruct c end;
    try (intros H; inversion H; reflexivity).
  destruct (get_array (all_ins (b_txns b)) (utxo s)); [|intros H; inversion H; reflexivity].
  match goal with |- context [if ?c then _ else _] => destruct c end;
    intros H; inversion H; subst; [congruence|reflexivity].
Qed.

(* ------------------------------------------------------------------ processTransactions *)
Lemma outs_unique_spec pool outs : forall seen seen', outs_unique pool seen outs = inr seen' ->
  seen' = rev (map o_id outs) ++ seen /\ (NoDup seen -> NoDup seen') /\
  Forall (fun o => ~ In (o_id o) (ids pool)) outs.
Proof.
  induction outs as [|o r IH]; cbn [outs_unique map rev app]; intros seen seen' H.
  - inversion H; subst. repeat split; auto.
  - destruct (memZ (o_id o) seen) eqn:E1; [discriminate|].
    destruct (memZ (o_id o) (ids pool)) eqn:E2; [discriminate|].
    destruct (IH _ _ H) as [H1 [H2 H3]]. apply memZ_false in E1. apply memZ_false in E2.
    repeat split.
    + rewrite H1, <- app_assoc. reflexivity.
    + intros Hn. apply H2. constructor; assumption.
    + constructor; assumption.
Qed.

Lemma out_ids_cons t r : out_ids (t :: r) = map o_id (t_outs t) ++ out_ids r.
Proof. unfold out_ids. cbn [flat_map]. apply map_app. Qed.

Lemma txns_loop_spec pool head ts : forall seen, txns_loop pool head seen ts = Pass ->
  Forall (fun t => block_txn_constraints pool head t = Pass) ts /\
  (NoDup seen -> NoDup (rev (out_ids ts) ++ seen)) /\
  Forall (fun x => ~ In x (ids pool)) (out_ids ts).
Proof.
  induction ts as [|t r IH]; cbn [txns_loop]; intros seen H.
  - repeat split; [constructor|auto|constructor].
  - apply andthen_pass in H. destruct H as [H1 H].
    destruct (outs_unique pool seen (t_outs t)) as [e|seen'] eqn:E; [discriminate|].
    destruct (outs_unique_spec _ _ _ _ E) as [Hs1 [Hs2 Hs3]].
    destruct (IH _ H) as [I1 [I2 I3]].
    repeat split.
    + constructor; assumption.
    + intros Hn. rewrite out_ids_cons, rev_app_distr, <- app_assoc, <- Hs1. auto.
    + rewrite out_ids_cons. apply Forall_app. split; [|assumption].
      apply Forall_forall. intros x Hx. apply in_map_iff in Hx. destruct Hx as [o [Ho1 Ho2]].
      subst x. rewrite Forall_forall in Hs3. auto.
Qed.

Lemma shares_input_false s t : shares_input s t = false ->
  forall a, In a (t_ins s) -> ~ In a (t_ins t).
Proof.
  unfold shares_input. intros H a Ha Hin.
  assert (Hex : existsb (fun a0 => memZ a0 (t_ins t)) (t_ins s) = true).
  { apply existsb_exists. exists a. split; [assumption|]. apply memZ_In. assumption. }
  congruence.
Qed.
Lemma pair_one_spec s ts : pair_one s ts = Pass ->
  forall a, In a (t_ins s) -> ~ In a (all_ins ts).
Proof.
  induction ts as [|t r IH]; cbn [pair_one all_ins flat_map]; intros H a Ha; [tauto|].
  chk_split H. apply guard_pass in Hc0. apply Bool.negb_true_iff in Hc0.
  intros Hin. apply in_app_or in Hin. destruct Hin as [Hin|Hin].
  - exact (shares_input_false _ _ Hc0 a Ha Hin).
  - exact (IH H a Ha Hin).
Qed.
Lemma pairwise_nodup ts : pairwise ts = Pass -> Forall (fun t => NoDup (t_ins t)) ts ->
  NoDup (all_ins ts).
Proof.
  induction ts as [|s r IH]; cbn [pairwise all_ins flat_map]; intros H Hn; [constructor|].
  apply andthen_pass in H. destruct H as [H1 H2]. inversion Hn as [|? ? Hs Hr]; subst.
  apply NoDup_app_intro; [assumption|exact (IH H2 Hr)|exact (pair_one_spec _ _ H1)].
Qed.

(* ------------------------------------------------------------------ one transaction *)
Lemma txn_verify_inv t : txn_verify t = Pass ->
  t_ins t <> [] /\ t_outs t <> [] /\ NoDup (t_ins t) /\ NoDup (map o_id (t_outs t)) /\
  Forall (fun o => o_coins o <> 0) (t_outs t) /\ sigs_verify (t_sigs t) = Pass.
Proof.
  unfold txn_verify. intros H. chk_split H.
  destruct (add_all 0 (map o_coins (t_outs t))) as [|[v|]]; try discriminate.
  chk_split H.
  apply guard_pass in Hc, Hc0, Hc4, Hc6, Hc8.
  repeat split.
  - intros E. rewrite E in Hc. discriminate.
  - intros E. rewrite E in Hc0. discriminate.
  - apply nodupZ_NoDup. assumption.
  - apply nodupZ_NoDup. assumption.
  - apply Forall_forall. intros o Ho. rewrite forallb_forall in Hc6. specialize (Hc6 o Ho). lia.
  - assumption.
Qed.

(* the part that needs no range assumption *)
Lemma block_txn_inv0 pool head t : block_txn_constraints pool head t = Pass ->
  exists uxin, get_array (t_ins t) pool = Some uxin /\
    t_ins t <> [] /\ NoDup (t_ins t) /\ NoDup (map o_id (t_outs t)).
Proof.
  unfold block_txn_constraints. intros H.
  destruct (get_array (t_ins t) pool) as [uxin|] eqn:E; [|discriminate].
  chk_split H. destruct (txn_verify_inv _ Hc) as [V1 [V2 [V3 [V4 [V5 V6]]]]].
  exists uxin. repeat split; assumption.
Qed.

Lemma process_txns_inv pool head ts : process_txns pool head ts = Pass ->
  ts <> [] /\
  Forall (fun t => block_txn_constraints pool head t = Pass) ts /\
  NoDup (out_ids ts) /\
  Forall (fun x => ~ In x (ids pool)) (out_ids ts) /\
  NoDup (all_ins ts).
Proof.
  unfold process_txns. intros H. chk_split H. apply guard_pass in Hc.
  destruct (txns_loop_spec _ _ _ _ Hc0) as [T1 [T2 T3]].
  repeat split; try assumption.
  - intros E. subst ts. discriminate.
  - specialize (T2 (NoDup_nil _)). rewrite app_nil_r in T2. apply NoDup_rev_iff. assumption.
  - apply pairwise_nodup; [assumption|].
    rewrite Forall_forall in *. intros t Ht. destruct (block_txn_inv0 _ _ _ (T1 t Ht)) as [u [_ [_ [N _]]]].
    assumption.
Qed.

(* what the unspent-set update needs to know about the transactions it applies
   (established by processTransactions in either mode) *)
Definition txns_ok (pool : list ux) (head : block) (ts : list txn) : Prop :=
  Forall (fun t => block_txn_constraints pool head t = Pass) ts /\
  NoDup (out_ids ts) /\
  Forall (fun x => ~ In x (ids pool)) (out_ids ts) /\
  NoDup (all_ins ts).
Lemma process_txns_ok pool head ts : process_txns pool head ts = Pass -> txns_ok pool head ts.
Proof. intros H. destruct (process_txns_inv _ _ _ H) as [_ H']. exact H'. Qed.

(* ---- induction over histories *)
Lemma run_invariant (P : state -> Prop) (Q : block -> Prop) :
  (forall s b s', exec_block s b = (s', Accepted) -> Q b -> P s -> P s') ->
  forall ops s, P s -> Forall (fun o => Q (op_block o)) ops -> P (run s ops).
Proof.
  intros Hstep. induction ops as [|o r IH]; intros s Hs Hq; [exact Hs|].
  inversion Hq as [|? ? Hq1 Hq2]; subst. unfold run. cbn [fold_left]. fold (run (fst (step s o)) r).
  apply IH; [|assumption]. destruct o as [b]. cbn [step op_block] in *.
  destruct (exec_block s b) as [s1 out] eqn:E. cbn [fst].
  destruct out.
  - exact (Hstep _ _ _ E Hq1 Hs).
  - rewrite (exec_reject_noop _ _ _ _ E); [assumption|discriminate].
  - rewrite (exec_reject_noop _ _ _ _ E); [assumption|discriminate].
Qed.

Lemma run_app s a b : run s (a ++ b) = run (run s a) b.
Proof. unfold run. apply fold_left_app. Qed.

(* ---- created outputs *)
Lemma ids_app a b : ids (a ++ b) = ids a ++ ids b.
Proof. unfold ids. apply map_app. Qed.
Lemma created_ids_eq b : ids (created b) = out_ids (b_txns b).
Proof.
  unfold created, out_ids, ids. induction (b_txns b) as [|t r IH]; cbn [flat_map]; [reflexivity|].
  rewrite !map_app, IH. f_equal. unfold created_of. rewrite map_map. reflexivity.
Qed.

Lemma apply_block_utxo s b spent :
  utxo (apply_block s b spent) = remove_ids (all_ins (b_txns b)) (utxo s) ++ created b.
Proof. reflexivity. Qed.

Lemma new_utxo_nodup s b :
  NoDup (ids (utxo s)) -> NoDup (out_ids (b_txns b)) -> insert_ok s b = true ->
  NoDup (ids (remove_ids (all_ins (b_txns b)) (utxo s) ++ created b)).
Proof.
  intros Hn Ho Hi. rewrite ids_app. apply NoDup_app_intro.
  - apply NoDup_ids_filter. assumption.
  - rewrite created_ids_eq. assumption.
  - intros x Hx Hc. unfold ids in Hc at 1. apply in_map_iff in Hc. destruct Hc as [u [Hu1 Hu2]].
    unfold insert_ok in Hi. rewrite forallb_forall in Hi. specialize (Hi u Hu2).
    apply Bool.negb_true_iff in Hi. apply memZ_false in Hi. subst x. contradiction.
Qed.


(* the unspent set never lists an id twice (needs no arithmetic and no id-table hypothesis) *)
Lemma apply_preserves_nodup_ok s b head spent :
  txns_ok (utxo s) head (b_txns b) -> insert_ok s b = true ->
  NoDup (ids (utxo s)) -> NoDup (ids (utxo (apply_block s b spent))).
Proof.
  intros [_ [P2 _]] Hi Hn. rewrite apply_block_utxo. apply new_utxo_nodup; assumption.
Qed.
Lemma apply_preserves_nodup s b head spent :
  process_txns (utxo s) head (b_txns b) = Pass -> insert_ok s b = true ->
  NoDup (ids (utxo s)) -> NoDup (ids (utxo (apply_block s b spent))).
Proof. intros Hp. apply apply_preserves_nodup_ok with (head := head). apply process_txns_ok. assumption. Qed.
Lemma reachable_nodup g ops : NoDup (out_ids (b_txns g)) ->
  NoDup (ids (utxo (run (init_state g) ops))).
Proof.
  intros Hg. apply (run_invariant (fun s => NoDup (ids (utxo s))) (fun _ => True)).
  - intros s b s' He _ Hn.
    destruct (exec_accept_inv _ _ _ He) as [head [rest [spent [_ [_ [_ [_ [Hp [_ [_ [_ [Hi Es]]]]]]]]]]]].
    subst s'. exact (apply_preserves_nodup _ _ _ _ Hp Hi Hn).
  - unfold init_state. cbn [utxo]. rewrite created_ids_eq. assumption.
  - apply Forall_forall. intros; exact I.
Qed.
