(* Proofs/TruncateRefine.v — C23: the hand-written model of the truncate*
   functions (Model/Truncate.v: truncate_loop, truncate_hashes, take_loop,
   encode_size) is EQUAL to the Gallina regenerated from src/daemon/messages.go
   on every run (Gen/MsgTruncate.v; translator/stage3.go), for ALL item-size
   lists (resp. hash counts) and ALL 64-bit maxMsgLength, the empty-message
   size being 4. The only premises are what the Go types give: maxMsgLength is
   a uint64 and a slice has fewer than 2^63 elements.
   A change of meaning of one of the Go functions (`>` to `>=`, dropping the
   `-= 8`, another reserve, another order) breaks a proof below. *)
From Coq Require Import Lia ZifyBool.
From Sky Require Import Base.Uint Model.Truncate Gen.MsgTruncate Proofs.UintLemmas Proofs.MathutilProofs.
Open Scope Z_scope.

Definition kept_Z (r : res nat) : res Z := match r with Panic => Panic | Val n => Val (Z.of_nat n) end.

Lemma sum64_sizes_eq : forall xs, sum64_sizes xs = sum64 xs.
Proof. induction xs as [|x r IH]; [reflexivity|]. cbn [sum64_sizes sum64]. rewrite IH. reflexivity. Qed.

Lemma msg_encode_size_eq : forall xs, msg_encode_size EMPTY_SIZE xs = encode_size xs.
Proof. intros xs. unfold msg_encode_size, encode_size, add64. rewrite sum64_sizes_eq. reflexivity. Qed.

Lemma take_loop_le : forall maxl xs size, (take_loop maxl size xs <= List.length xs)%nat.
Proof.
  intros maxl. induction xs as [|x r IH]; intros size; cbn [take_loop List.length]; [lia|].
  destruct (add64 size x >? maxl); [lia|]. specialize (IH (add64 size x)). lia.
Qed.

(* what the loop leaves in `index`: untouched when nothing is kept, else i + (kept - 1) *)
Definition final_index (i index : Z) (n : nat) : Z :=
  match n with O => index | S m => i + Z.of_nat m end.

Ltac loop_refines loop IH :=
  intros K maxl l; induction l as [|x r IH]; intros i size index; cbn [loop take_loop final_index];
  [ reflexivity
  | unfold add64; destruct (wrap 64 (size + x) >? maxl); [reflexivity|];
    rewrite IH; f_equal; unfold final_index;
    destruct (take_loop maxl (wrap 64 (size + x)) r); lia ].

Lemma peers_loop_refines : forall (K : Z -> res Z) maxl l i size index,
  truncateGivePeersMessage_loop1 (fun _ idx => K idx) maxl l i size index
  = K (final_index i index (take_loop maxl size l)).
Proof. loop_refines truncateGivePeersMessage_loop1 IH. Qed.

Lemma blocks_loop_refines : forall (K : Z -> res Z) maxl l i size index,
  truncateGiveBlocksMessage_loop1 (fun _ idx => K idx) maxl l i size index
  = K (final_index i index (take_loop maxl size l)).
Proof. loop_refines truncateGiveBlocksMessage_loop1 IH. Qed.

Lemma txns_loop_refines : forall (K : Z -> res Z) maxl l i size index,
  truncateGiveTxnsMessage_loop1 (fun _ idx => K idx) maxl l i size index
  = K (final_index i index (take_loop maxl size l)).
Proof. loop_refines truncateGiveTxnsMessage_loop1 IH. Qed.

(* m.X = m.X[:index+1] after the loop *)
Lemma kept_after_loop : forall maxl size xs, Z.of_nat (List.length xs) < 2 ^ 63 ->
  bind (slice_to (swrap 64 (final_index 0 (-1) (take_loop maxl size xs) + 1)) (Z.of_nat (List.length xs)))
    (fun kept => Val kept) = Val (Z.of_nat (take_loop maxl size xs)).
Proof.
  intros maxl size xs Hlen. pose proof (take_loop_le maxl xs size) as Hle.
  assert (E : final_index 0 (-1) (take_loop maxl size xs) + 1 = Z.of_nat (take_loop maxl size xs)).
  { unfold final_index. destruct (take_loop maxl size xs); lia. }
  rewrite E, swrap_small by lia. unfold slice_to.
  destruct ((0 <=? Z.of_nat (take_loop maxl size xs)) && (Z.of_nat (take_loop maxl size xs) <=? Z.of_nat (List.length xs))) eqn:B;
    [reflexivity|lia].
Qed.

Ltac truncate_refines looplemma :=
  intros xs max Hmax Hlen; unfold truncate_loop, truncate_loop_gen, RESERVE, kept_Z; unfold in_u in Hmax;
  cbv zeta;
  destruct (max <? 8) eqn:E8; [reflexivity|];
  rewrite wrap_small by lia; rewrite msg_encode_size_eq;
  destruct (encode_size xs <=? max - 8); [reflexivity|];
  let HL := fresh "HL" in
  pose proof (looplemma (fun index => bind (slice_to (swrap 64 (index + 1)) (Z.of_nat (List.length xs))) (fun kept => Val kept))
                (max - 8) xs 0 EMPTY_SIZE (-1)) as HL;
  cbv beta in HL; rewrite HL; apply kept_after_loop; assumption.

Theorem GivePeers_refines : forall xs max, in_u 64 max -> Z.of_nat (List.length xs) < 2 ^ 63 ->
  truncateGivePeersMessage EMPTY_SIZE xs max = kept_Z (truncate_loop xs max).
Proof. unfold truncateGivePeersMessage. truncate_refines peers_loop_refines. Qed.

Theorem GiveBlocks_refines : forall xs max, in_u 64 max -> Z.of_nat (List.length xs) < 2 ^ 63 ->
  truncateGiveBlocksMessage EMPTY_SIZE xs max = kept_Z (truncate_loop xs max).
Proof. unfold truncateGiveBlocksMessage. truncate_refines blocks_loop_refines. Qed.

Theorem GiveTxns_refines : forall xs max, in_u 64 max -> Z.of_nat (List.length xs) < 2 ^ 63 ->
  truncateGiveTxnsMessage EMPTY_SIZE xs max = kept_Z (truncate_loop xs max).
Proof. unfold truncateGiveTxnsMessage. truncate_refines txns_loop_refines. Qed.

(* ---- hashes: truncateSHA256Slice and its two callers *)
Lemma SHA256Slice_refines : forall count maxl2, 0 <= count < 2 ^ 63 -> 0 <= maxl2 ->
  truncateSHA256Slice count maxl2 =
  if count =? 0 then Val 0 else let n := maxl2 / HASH_SIZE in if n >? count then Val count else Val n.
Proof.
  intros count maxl2 Hc Hm. unfold truncateSHA256Slice, HASH_SIZE. cbv zeta.
  destruct (count =? 0) eqn:E0; [f_equal; lia|].
  change (wrap 64 32) with 32. unfold udiv. change (32 =? 0) with false. cbn [bind].
  rewrite (wrap_small 64 count) by lia.
  destruct (maxl2 / 32 >? count) eqn:En; [reflexivity|].
  unfold slice_to. assert (0 <= maxl2 / 32) by (apply Z.div_pos; lia).
  destruct ((0 <=? maxl2 / 32) && (maxl2 / 32 <=? count)) eqn:B; [reflexivity|lia].
Qed.

Ltac hashes_refines :=
  intros count max Hmax Hc; unfold truncate_hashes, truncate_hashes_gen, RESERVE, EMPTY_SIZE, add64, msg_encode_size_n;
  unfold in_u in Hmax; cbv zeta;
  destruct (max <? 8) eqn:E8; [reflexivity|];
  rewrite (wrap_small 64 (max - 8)) by lia;
  change HASH_SIZE with 32 at 1;
  destruct (wrap 64 (4 + wrap 64 (32 * count)) <=? max - 8); [reflexivity|];
  destruct (max - 8 <? 4) eqn:E4; [reflexivity|];
  rewrite (wrap_small 64 (max - 8 - 4)) by lia;
  rewrite SHA256Slice_refines by lia; cbv zeta;
  destruct (count =? 0); [reflexivity|];
  destruct (_ >? count); reflexivity.

Theorem AnnounceTxns_refines : forall count max, in_u 64 max -> 0 <= count < 2 ^ 63 ->
  truncateAnnounceTxnsHashes EMPTY_SIZE count max = truncate_hashes count max.
Proof. unfold truncateAnnounceTxnsHashes. hashes_refines. Qed.

Theorem GetTxns_refines : forall count max, in_u 64 max -> 0 <= count < 2 ^ 63 ->
  truncateGetTxnsHashes EMPTY_SIZE count max = truncate_hashes count max.
Proof. unfold truncateGetTxnsHashes. hashes_refines. Qed.
