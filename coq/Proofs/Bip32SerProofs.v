(* Proofs/Bip32SerProofs.v — BIP32 extended-key serialisation (Model/Bip.v):
   the 82-byte format round-trips, and what [deserialize] accepts is exactly the
   canonical serialisation of a well-formed key (C16). *)
From Coq Require Import ZArith List Bool Lia ZifyBool.
From Sky Require Import Model.Secp Model.Bip Proofs.SecpProofs Proofs.SigAcceptProofs.
Import ListNotations.
Open Scope Z_scope.

(* well-formed extended key: what deserialisation guarantees / serialisation needs *)
Definition xkey_wf (k : xkey) : bool :=
  (0 <=? x_depth k) && (x_depth k <? 256) &&
  Nat.eqb (List.length (x_fp k)) 4 && all_bytes (x_fp k) &&
  (0 <=? x_child k) && (x_child k <? 4294967296) &&
  Nat.eqb (List.length (x_chain k)) 32 && all_bytes (x_chain k) &&
  (if x_private k then Nat.eqb (List.length (x_key k)) 32 && all_bytes (x_key k) && seckey_valid (be_val (x_key k))
   else Nat.eqb (List.length (x_key k)) 33 && pubkey_valid (x_key k)) &&
  (negb (x_depth k =? 0) || (bytes_eq (x_fp k) [0;0;0;0] && (x_child k =? 0))).

(* ------------------------------------------------------------------ bytes_eq *)

Lemma bytes_eq_refl : forall l, bytes_eq l l = true.
Proof.
  induction l as [|x l IH]; cbn [bytes_eq]; [reflexivity|].
  rewrite Z.eqb_refl, IH. reflexivity.
Qed.

Lemma bytes_eq_eq : forall a b, bytes_eq a b = true -> a = b.
Proof.
  induction a as [|x a IH]; intros [|y b] H; cbn [bytes_eq] in H; try discriminate H; [reflexivity|].
  apply andb_true_iff in H. destruct H as [H1 H2].
  apply Z.eqb_eq in H1. subst y. f_equal. apply IH, H2.
Qed.

(* ------------------------------------------------------------------ lists *)

Lemma skipn_add (i m : nat) (l : list Z) : skipn (i + m) l = skipn m (skipn i l).
Proof.
  revert l. induction i as [|i IH]; intros l; [reflexivity|].
  destruct l as [|x l]; cbn [Nat.add skipn].
  - destruct m; reflexivity.
  - apply IH.
Qed.

Lemma skipn_split (i m j : nat) (l : list Z) :
  j = (i + m)%nat -> skipn i l = slice i m l ++ skipn j l.
Proof.
  intros ->. unfold slice. rewrite skipn_add.
  symmetry. apply firstn_skipn.
Qed.

Lemma skipn_nth_cons (i : nat) (l : list Z) :
  (i < length l)%nat -> skipn i l = nth i l 0 :: skipn (S i) l.
Proof.
  revert l. induction i as [|i IH]; intros [|x l] H; cbn [length] in H; try lia.
  - reflexivity.
  - cbn [skipn nth]. apply IH. lia.
Qed.

Lemma skipn_step (i m j : nat) (l x rest : list Z) :
  skipn i l = x ++ rest -> length x = m -> j = (i + m)%nat ->
  slice i m l = x /\ skipn j l = rest.
Proof.
  intros H Hx ->. unfold slice. split.
  - rewrite H. apply firstn_app_exact, Hx.
  - rewrite skipn_add, H. apply skipn_app_exact, Hx.
Qed.

Lemma skipn_hd_nth (i : nat) (l : list Z) x r : skipn i l = x :: r -> nth i l 0 = x.
Proof.
  revert l. induction i as [|i IH]; intros [|y l] H; cbn [skipn] in H; try discriminate H.
  - injection H as -> _. reflexivity.
  - cbn [nth]. apply IH, H.
Qed.

Lemma all_bytes_app a b : all_bytes (a ++ b) = true -> all_bytes a = true /\ all_bytes b = true.
Proof. unfold all_bytes. rewrite forallb_app. apply andb_true_iff. Qed.

Lemma all_bytes_cons x a : all_bytes (x :: a) = true -> 0 <= x < 256 /\ all_bytes a = true.
Proof.
  unfold all_bytes, is_byte. cbn [forallb]. intros H.
  apply andb_true_iff in H. destruct H as [H1 H2]. split; [lia | exact H2].
Qed.

Lemma ser32_be_val s : length s = 4%nat -> all_bytes s = true -> ser32 (be_val s) = s.
Proof. intros Hl Ha. unfold ser32. rewrite <- Hl. apply be_bytes_be_val, Ha. Qed.

Lemma be_val_ser32 c : 0 <= c < 4294967296 -> be_val (ser32 c) = c.
Proof.
  intros Hc. unfold ser32. apply be_val_be_bytes.
  change (256 ^ Z.of_nat 4) with 4294967296. exact Hc.
Qed.

(* the 82-byte layout: 4 version | 1 depth | 4 fp | 4 child | 32 chain | 1+32 key | 4 checksum *)
Lemma layout v d fp c ch k0 key cs body data :
  length v = 4%nat -> length fp = 4%nat -> length c = 4%nat -> length ch = 32%nat ->
  length key = 32%nat -> length cs = 4%nat ->
  body = v ++ [d] ++ fp ++ c ++ ch ++ k0 :: key -> data = body ++ cs ->
  length data = 82%nat /\ firstn 78 data = body /\ skipn 78 data = cs /\
  slice 0 4 data = v /\ nth 4 data 0 = d /\ slice 5 4 data = fp /\ slice 9 4 data = c /\
  slice 13 32 data = ch /\ nth 45 data 0 = k0 /\ slice 46 32 data = key /\
  slice 45 33 data = k0 :: key.
Proof.
  intros Hv Hfp Hc Hch Hkey Hcs Hb Hd.
  assert (Hbody : length body = 78%nat).
  { rewrite Hb. rewrite !app_length. cbn [length]. lia. }
  assert (E0 : skipn 0 data = v ++ [d] ++ fp ++ c ++ ch ++ [k0] ++ key ++ cs).
  { rewrite Hd, Hb. cbn [skipn]. rewrite <- !app_assoc. reflexivity. }
  destruct (skipn_step 0 4 4 data _ _ E0 Hv eq_refl) as [S0 E4].
  destruct (skipn_step 4 1 5 data _ _ E4 eq_refl eq_refl) as [S4 E5].
  destruct (skipn_step 5 4 9 data _ _ E5 Hfp eq_refl) as [S5 E9].
  destruct (skipn_step 9 4 13 data _ _ E9 Hc eq_refl) as [S9 E13].
  destruct (skipn_step 13 32 45 data _ _ E13 Hch eq_refl) as [S13 E45].
  destruct (skipn_step 45 1 46 data _ _ E45 eq_refl eq_refl) as [S45 E46].
  destruct (skipn_step 46 32 78 data _ _ E46 Hkey eq_refl) as [S46 E78].
  assert (Hk33 : length (k0 :: key) = 33%nat) by (cbn [length]; rewrite Hkey; reflexivity).
  destruct (skipn_step 45 33 78 data (k0 :: key) cs E45 Hk33 eq_refl) as [S45' _].
  repeat split; try assumption.
  - rewrite Hd, app_length. lia.
  - rewrite Hd. apply firstn_app_exact, Hbody.
  - apply (skipn_hd_nth 4 data d _ E4).
  - apply (skipn_hd_nth 45 data k0 _ E45).
Qed.

Lemma decompose82 (data : list Z) :
  length data = 82%nat ->
  exists v d fp c ch k0 key cs,
    data = (v ++ [d] ++ fp ++ c ++ ch ++ k0 :: key) ++ cs /\
    length v = 4%nat /\ length fp = 4%nat /\ length c = 4%nat /\ length ch = 32%nat /\
    length key = 32%nat /\ length cs = 4%nat.
Proof.
  intros Hlen.
  exists (slice 0 4 data), (nth 4 data 0), (slice 5 4 data), (slice 9 4 data),
         (slice 13 32 data), (nth 45 data 0), (slice 46 32 data), (skipn 78 data).
  split.
  - assert (E1 : skipn 0 data = slice 0 4 data ++ skipn 4 data) by (apply skipn_split; reflexivity).
    assert (E2 : skipn 4 data = nth 4 data 0 :: skipn 5 data) by (apply skipn_nth_cons; lia).
    assert (E3 : skipn 5 data = slice 5 4 data ++ skipn 9 data) by (apply skipn_split; reflexivity).
    assert (E4 : skipn 9 data = slice 9 4 data ++ skipn 13 data) by (apply skipn_split; reflexivity).
    assert (E5 : skipn 13 data = slice 13 32 data ++ skipn 45 data) by (apply skipn_split; reflexivity).
    assert (E6 : skipn 45 data = nth 45 data 0 :: skipn 46 data) by (apply skipn_nth_cons; lia).
    assert (E7 : skipn 46 data = slice 46 32 data ++ skipn 78 data) by (apply skipn_split; reflexivity).
    rewrite <- !app_assoc. cbn [app].
    rewrite <- E7, <- E6, <- E5, <- E4, <- E3, <- E2, <- E1. reflexivity.
  - repeat split; unfold slice; rewrite ?firstn_length, ?skipn_length; lia.
Qed.

(* ------------------------------------------------------------------ xkey_wf as a proposition *)

Definition xkey_wf_prop (pr : bool) (d : Z) (fp : list Z) (c : Z) (ch key : list Z) : Prop :=
  0 <= d < 256 /\ length fp = 4%nat /\ all_bytes fp = true /\ 0 <= c < 4294967296 /\
  length ch = 32%nat /\ all_bytes ch = true /\
  (if pr then length key = 32%nat /\ all_bytes key = true /\ seckey_valid (be_val key) = true
   else length key = 33%nat /\ pubkey_valid key = true) /\
  (negb (d =? 0) || (bytes_eq fp [0;0;0;0] && (c =? 0))) = true.

Lemma xkey_wf_inv pr d fp c ch key :
  xkey_wf (XKey pr d fp c ch key) = true -> xkey_wf_prop pr d fp c ch key.
Proof.
  unfold xkey_wf, xkey_wf_prop. cbn [x_private x_depth x_fp x_child x_chain x_key]. intros H.
  rewrite !andb_true_iff in H.
  destruct H as [[[[[[[[[H1 H2] H3] H4] H5] H6] H7] H8] H9] H10].
  apply Nat.eqb_eq in H3. apply Nat.eqb_eq in H7.
  repeat split; try assumption; try lia.
  destruct pr.
  - rewrite !andb_true_iff in H9. destruct H9 as [[Ha Hb] Hc]. apply Nat.eqb_eq in Ha. auto.
  - rewrite !andb_true_iff in H9. destruct H9 as [Ha Hb]. apply Nat.eqb_eq in Ha. auto.
Qed.

Lemma xkey_wf_intro pr d fp c ch key :
  xkey_wf_prop pr d fp c ch key -> xkey_wf (XKey pr d fp c ch key) = true.
Proof.
  unfold xkey_wf, xkey_wf_prop. cbn [x_private x_depth x_fp x_child x_chain x_key].
  intros (Hd & Hlfp & Hafp & Hc & Hlch & Hach & Hk & Hm).
  rewrite Hlfp, Hafp, Hlch, Hach, Hm.
  replace (0 <=? d) with true by lia. replace (d <? 256) with true by lia.
  replace (0 <=? c) with true by lia. replace (c <? 4294967296) with true by lia.
  destruct pr.
  - destruct Hk as (Hlk & Hak & Hsk). rewrite Hlk, Hak, Hsk. reflexivity.
  - destruct Hk as (Hlk & Hpk). rewrite Hlk, Hpk. reflexivity.
Qed.

Section Bip32Ser.
  Variable sha256 : list Z -> list Z.
  Hypothesis sha_len : forall x, List.length (sha256 x) = 32%nat.

  Lemma checksum4_length b : length (checksum4 sha256 b) = 4%nat.
  Proof. unfold checksum4. rewrite firstn_length, sha_len. reflexivity. Qed.

  Lemma deserialize_length w data k : deserialize sha256 w data = inr k -> length data = 82%nat.
  Proof.
    unfold deserialize. destruct (Nat.eqb (length data) 82) eqn:E; cbn [negb].
    - intros _. apply Nat.eqb_eq, E.
    - intros H. discriminate H.
  Qed.

  (* [deserialize] on a byte string cut along the field boundaries *)
  Lemma deserialize_shape w v d fp c ch k0 key cs :
    length v = 4%nat -> length fp = 4%nat -> length c = 4%nat -> length ch = 32%nat ->
    length key = 32%nat -> length cs = 4%nat ->
    deserialize sha256 w ((v ++ [d] ++ fp ++ c ++ ch ++ k0 :: key) ++ cs) =
    if negb (bytes_eq (checksum4 sha256 (v ++ [d] ++ fp ++ c ++ ch ++ k0 :: key)) cs) then inl ErrInvalidChecksum
    else if negb (bytes_eq v xprv_version) && negb (bytes_eq v xpub_version) then inl ErrInvalidKeyVersion
    else if w && negb (bytes_eq v xprv_version) then inl ErrInvalidPrivateKeyVersion
    else if negb w && negb (bytes_eq v xpub_version) then inl ErrInvalidPublicKeyVersion
    else if (d =? 0) && negb (bytes_eq fp [0;0;0;0]) then inl ErrInvalidFingerprint
    else if (d =? 0) && negb (be_val c =? 0) then inl ErrInvalidChildNumber
    else if bytes_eq v xprv_version then
      if negb (k0 =? 0) then inl ErrInvalidPrivateKey
      else if seckey_valid (be_val key) then inr (XKey true d fp (be_val c) ch key)
           else inl ErrInvalidPrivateKey
    else if pubkey_valid (k0 :: key) then inr (XKey false d fp (be_val c) ch (k0 :: key))
         else inl ErrInvalidPublicKey.
  Proof.
    intros Hv Hfp Hc Hch Hkey Hcs.
    destruct (layout v d fp c ch k0 key cs _ _ Hv Hfp Hc Hch Hkey Hcs eq_refl eq_refl)
      as (L & F & S & S0 & N4 & S5 & S9 & S13 & N45 & S46 & S45).
    unfold deserialize. cbv zeta.
    rewrite L, F, S, S0, N4, S5, S9, S13, N45, S46, S45.
    reflexivity.
  Qed.

  Theorem serialize_length : forall k, xkey_wf k = true -> List.length (serialize sha256 k) = 82%nat.
  Proof.
    intros [pr d fp c ch key] H. apply xkey_wf_inv in H.
    destruct H as (Hd & Hlfp & Hafp & Hc & Hlch & Hach & Hk & Hm).
    unfold serialize. cbn [x_private x_depth x_fp x_child x_chain x_key].
    rewrite app_length, checksum4_length, !app_length.
    unfold ser32. rewrite be_bytes_length, Hlfp, Hlch.
    destruct pr.
    - destruct Hk as (Hlk & _ & _). cbn [length xprv_version]. rewrite Hlk. reflexivity.
    - destruct Hk as (Hlk & _). cbn [length xpub_version]. rewrite Hlk. reflexivity.
  Qed.

  Theorem xkey_roundtrip : forall k, xkey_wf k = true ->
    deserialize sha256 (x_private k) (serialize sha256 k) = inr k.
  Proof.
    intros [pr d fp c ch key] H. apply xkey_wf_inv in H.
    destruct H as (Hd & Hlfp & Hafp & Hc & Hlch & Hach & Hk & Hm).
    unfold serialize. cbn [x_private x_depth x_fp x_child x_chain x_key].
    pose proof (be_val_ser32 c Hc) as Hser.
    destruct pr.
    - destruct Hk as (Hlk & Hak & Hsk).
      rewrite (deserialize_shape true xprv_version d fp (ser32 c) ch 0 key _
                 eq_refl Hlfp (be_bytes_length 4 c) Hlch Hlk (checksum4_length _)).
      rewrite !bytes_eq_refl.
      change (bytes_eq xprv_version xpub_version) with false.
      rewrite Hser, Hsk. cbn [negb andb].
      change (0 =? 0) with true. cbn [negb].
      destruct (d =? 0) eqn:Hd0; cbn [negb orb andb] in Hm |- *.
      + apply andb_true_iff in Hm. destruct Hm as [Hm1 Hm2]. rewrite Hm1, Hm2. reflexivity.
      + reflexivity.
    - destruct Hk as (Hlk & Hpk).
      destruct key as [|k0 key]; [discriminate Hlk|].
      cbn [length] in Hlk. injection Hlk as Hlk.
      rewrite (deserialize_shape false xpub_version d fp (ser32 c) ch k0 key _
                 eq_refl Hlfp (be_bytes_length 4 c) Hlch Hlk (checksum4_length _)).
      rewrite !bytes_eq_refl.
      change (bytes_eq xpub_version xprv_version) with false.
      rewrite Hser, Hpk. cbn [negb andb].
      destruct (d =? 0) eqn:Hd0; cbn [negb orb andb] in Hm |- *.
      + apply andb_true_iff in Hm. destruct Hm as [Hm1 Hm2]. rewrite Hm1, Hm2. reflexivity.
      + reflexivity.
  Qed.

  Theorem deserialize_wrong_kind : forall k, xkey_wf k = true ->
    deserialize sha256 (negb (x_private k)) (serialize sha256 k)
    = inl (if x_private k then ErrInvalidPublicKeyVersion else ErrInvalidPrivateKeyVersion).
  Proof.
    intros [pr d fp c ch key] H. apply xkey_wf_inv in H.
    destruct H as (Hd & Hlfp & Hafp & Hc & Hlch & Hach & Hk & Hm).
    unfold serialize. cbn [x_private x_depth x_fp x_child x_chain x_key].
    destruct pr; cbn [negb].
    - destruct Hk as (Hlk & Hak & Hsk).
      rewrite (deserialize_shape false xprv_version d fp (ser32 c) ch 0 key _
                 eq_refl Hlfp (be_bytes_length 4 c) Hlch Hlk (checksum4_length _)).
      rewrite !bytes_eq_refl.
      change (bytes_eq xprv_version xpub_version) with false.
      reflexivity.
    - destruct Hk as (Hlk & Hpk).
      destruct key as [|k0 key]; [discriminate Hlk|].
      cbn [length] in Hlk. injection Hlk as Hlk.
      rewrite (deserialize_shape true xpub_version d fp (ser32 c) ch k0 key _
                 eq_refl Hlfp (be_bytes_length 4 c) Hlch Hlk (checksum4_length _)).
      rewrite !bytes_eq_refl.
      change (bytes_eq xpub_version xprv_version) with false.
      reflexivity.
  Qed.

  Theorem deserialize_sound : forall w data k,
    all_bytes data = true -> deserialize sha256 w data = inr k ->
    x_private k = w /\ xkey_wf k = true /\ serialize sha256 k = data.
  Proof.
    intros w data k Hall H. pose proof (deserialize_length _ _ _ H) as Hlen.
    destruct (decompose82 data Hlen)
      as (v & d & fp & c & ch & k0 & key & cs & -> & Hlv & Hlfp & Hlc & Hlch & Hlk & Hlcs).
    rewrite (deserialize_shape w v d fp c ch k0 key cs Hlv Hlfp Hlc Hlch Hlk Hlcs) in H.
    apply all_bytes_app in Hall. destruct Hall as [Hall Hacs].
    apply all_bytes_app in Hall. destruct Hall as [Hav Hall].
    cbn [app] in Hall.
    apply all_bytes_cons in Hall. destruct Hall as [Hd Hall].
    apply all_bytes_app in Hall. destruct Hall as [Hafp Hall].
    apply all_bytes_app in Hall. destruct Hall as [Hac Hall].
    apply all_bytes_app in Hall. destruct Hall as [Hach Hall].
    apply all_bytes_cons in Hall. destruct Hall as [Hk0 Hak].
    assert (Hc : 0 <= be_val c < 4294967296).
    { pose proof (be_val_range c Hac) as R. rewrite Hlc in R.
      change (256 ^ Z.of_nat 4) with 4294967296 in R. exact R. }
    pose proof (ser32_be_val c Hlc Hac) as Hser.
    destruct (bytes_eq (checksum4 sha256 (v ++ [d] ++ fp ++ c ++ ch ++ k0 :: key)) cs) eqn:Hck;
      cbn [negb] in H; [|discriminate H].
    apply bytes_eq_eq in Hck.
    destruct (bytes_eq v xprv_version) eqn:Hpr.
    - (* private *)
      apply bytes_eq_eq in Hpr. subst v.
      change (bytes_eq xprv_version xpub_version) with false in H.
      destruct w; cbn [negb andb] in H; [|discriminate H].
      destruct (d =? 0) eqn:Hd0; destruct (bytes_eq fp [0;0;0;0]) eqn:Hfp0;
        destruct (be_val c =? 0) eqn:Hc0; cbn [negb andb] in H; try discriminate H.
      all: destruct (k0 =? 0) eqn:Hk00; cbn [negb] in H; try discriminate H.
      all: destruct (seckey_valid (be_val key)) eqn:Hsk; try discriminate H.
      all: injection H as <-; apply Z.eqb_eq in Hk00; subst k0.
      all: split; [reflexivity|split];
        [ apply xkey_wf_intro; unfold xkey_wf_prop; rewrite Hd0, Hfp0, Hc0;
          exact (conj Hd (conj Hlfp (conj Hafp (conj Hc (conj Hlch (conj Hach
                   (conj (conj Hlk (conj Hak Hsk)) eq_refl)))))))
        | unfold serialize; cbn [x_private x_depth x_fp x_child x_chain x_key];
          rewrite Hser, Hck; reflexivity ].
    - (* public *)
      destruct (bytes_eq v xpub_version) eqn:Hpu; cbn [negb andb] in H; [|discriminate H].
      apply bytes_eq_eq in Hpu. subst v.
      destruct w; cbn [negb andb] in H; [discriminate H|].
      destruct (d =? 0) eqn:Hd0; destruct (bytes_eq fp [0;0;0;0]) eqn:Hfp0;
        destruct (be_val c =? 0) eqn:Hc0; cbn [negb andb] in H; try discriminate H.
      all: destruct (pubkey_valid (k0 :: key)) eqn:Hpk; try discriminate H.
      all: injection H as <-.
      all: assert (Hk33 : length (k0 :: key) = 33%nat) by (cbn [length]; rewrite Hlk; reflexivity).
      all: split; [reflexivity|split];
        [ apply xkey_wf_intro; unfold xkey_wf_prop; rewrite Hd0, Hfp0, Hc0;
          exact (conj Hd (conj Hlfp (conj Hafp (conj Hc (conj Hlch (conj Hach
                   (conj (conj Hk33 Hpk) eq_refl)))))))
        | unfold serialize; cbn [x_private x_depth x_fp x_child x_chain x_key];
          rewrite Hser, Hck; reflexivity ].
  Qed.

  (* acceptance = canonical serialisation of a well-formed key of the wanted kind *)
  Corollary deserialize_iff : forall w data k,
    all_bytes data = true ->
    (deserialize sha256 w data = inr k <->
     x_private k = w /\ xkey_wf k = true /\ serialize sha256 k = data).
  Proof.
    intros w data k Hall. split.
    - apply deserialize_sound, Hall.
    - intros (<- & Hwf & <-). apply xkey_roundtrip, Hwf.
  Qed.
End Bip32Ser.
