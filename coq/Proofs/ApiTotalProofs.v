(* C28 — proofs about Model/ApiTotal.v *)
From Coq Require Import Lia ZifyBool.
From Sky Require Import Base.Uint Model.ApiTotal.
Open Scope Z_scope.

(* ------------------------------------------------------------------ VerifyTxnVerbose *)

Lemma vtv_view_total : forall f, vtv_view true f <> Panic.
Proof.
  intros f. unfold vtv_view.
  destruct (f_head_err f); [discriminate|].
  destruct (f_unspent_dberr f); [discriminate|].
  destruct (all_unspent (f_inputs f)).
  - destruct (negb (f_user f)); [discriminate|].
    destruct (negb (f_soft f)); [discriminate|].
    destruct (negb (f_hard f)); discriminate.
  - destruct (f_hist_dberr f); [discriminate|].
    destruct (negb (all_in_history (f_inputs f))); [discriminate|].
    destruct (f_hist_txn f) as [| |seq]; try discriminate.
    destruct (seq >? 0); [|discriminate].
    destruct (f_prev_block f); discriminate.
Qed.

Theorem vtv_total : forall f, vtv f <> Panic.
Proof.
  intros f. unfold vtv, vtv_gen.
  destruct (vtv_view true f) as [|w] eqn:E; [exfalso; exact (vtv_view_total f E)|].
  cbn [bind].
  destruct (w_uxa w && negb (w_fee_time w =? 0)); [destruct (f_inputs_err f)|]; discriminate.
Qed.

(* the handler always answers with a verdict status *)
Theorem verify_status_verdict : forall f fz, exists s, verify_status f fz = Val s /\ is_verdict s = true.
Proof.
  intros f fz. unfold verify_status, verify_status_of.
  destruct (vtv f) as [|o] eqn:E; [exfalso; exact (vtv_total f E)|].
  cbn [bind]. destruct (o_err o) as [[| | |]|]; destruct fz; try destruct (o_confirmed o);
    eexists; split; try reflexivity; reflexivity.
Qed.

(* F6: before the repair the model panics exactly on a new (unconfirmed)
   transaction all of whose inputs are known and one of which is spent *)
Theorem vtv_unfixed_panics_iff : forall f,
  vtv_unfixed f = Panic <->
  (f_head_err f = false /\ f_unspent_dberr f = false /\ all_unspent (f_inputs f) = false /\
   f_hist_dberr f = false /\ all_in_history (f_inputs f) = true /\ f_hist_txn f = LNil).
Proof.
  intros f. unfold vtv_unfixed, vtv_gen, vtv_view.
  destruct (f_head_err f); cbn [bind].
  { split; [|intros [H _]; discriminate]. intros H. exfalso. revert H.
    cbn. destruct (f_inputs_err f); discriminate. }
  destruct (f_unspent_dberr f); cbn [bind].
  { split; [|intros [_ [H _]]; discriminate]. cbn. discriminate. }
  destruct (all_unspent (f_inputs f)).
  { split; [|intros [_ [_ [H _]]]; discriminate]. intros H. exfalso. revert H.
    destruct (negb (f_user f)); [|destruct (negb (f_soft f)); [|destruct (negb (f_hard f))]];
      cbn [bind w_uxa w_fee_time w_conf w_err];
      destruct (nonempty (f_inputs f) && negb (f_head_time f =? 0)); try destruct (f_inputs_err f); discriminate. }
  destruct (f_hist_dberr f); cbn [bind].
  { split; [|intros [_ [_ [_ [H _]]]]; discriminate]. cbn. discriminate. }
  destruct (all_in_history (f_inputs f)); cbn [negb bind].
  2:{ split; [|intros [_ [_ [_ [_ [H _]]]]]; discriminate]. cbn. discriminate. }
  destruct (f_hist_txn f) as [| |seq]; cbn [bind].
  - split; [cbn; discriminate | intros [_ [_ [_ [_ [_ H]]]]]; discriminate].
  - split; [intros _; repeat split; reflexivity | reflexivity].
  - split; [|intros [_ [_ [_ [_ [_ H]]]]]; discriminate]. intros H. exfalso. revert H.
    destruct (seq >? 0); [destruct (f_prev_block f) as [| |t]|]; cbn [bind w_uxa w_fee_time w_conf w_err andb];
      try (destruct (negb (t =? 0))); try destruct (f_inputs_err f); cbn; discriminate.
Qed.

Theorem vtv_unfixed_total_refuted : exists f, vtv_unfixed f = Panic.
Proof.
  exists {| f_head_err := false; f_head_time := 1426562714; f_inputs := [{| in_unspent := false; in_history := true |}];
            f_unspent_dberr := false; f_hist_dberr := false; f_hist_txn := LNil; f_prev_block := LNil;
            f_user := true; f_soft := true; f_hard := true; f_inputs_err := false |}.
  vm_compute. reflexivity.
Qed.

(* what the repaired code answers there: a hard-constraint violation, no inputs, not confirmed *)
Theorem vtv_double_spend_verdict : forall f,
  f_head_err f = false -> f_unspent_dberr f = false -> all_unspent (f_inputs f) = false ->
  f_hist_dberr f = false -> all_in_history (f_inputs f) = true -> f_hist_txn f = LNil ->
  vtv f = Val {| o_inputs := false; o_confirmed := false; o_err := Some EHard |}.
Proof.
  intros f H1 H2 H3 H4 H5 H6. unfold vtv, vtv_gen, vtv_view. rewrite H1, H2, H3, H4, H5, H6. reflexivity.
Qed.

(* the transaction is reported valid exactly when every input is unspent and the three checks pass,
   or it is a confirmed transaction whose previous block is found *)
Theorem vtv_no_error_iff : forall f o, vtv f = Val o ->
  (o_err o = None <->
   f_head_err f = false /\ f_unspent_dberr f = false /\
   ((all_unspent (f_inputs f) = true /\ f_user f = true /\ f_soft f = true /\ f_hard f = true /\
     (nonempty (f_inputs f) = true -> f_head_time f <> 0 -> f_inputs_err f = false)) \/
    (all_unspent (f_inputs f) = false /\ f_hist_dberr f = false /\ all_in_history (f_inputs f) = true /\
     exists seq, f_hist_txn f = LFound seq /\
       (seq <= 0 \/ exists t, f_prev_block f = LFound t /\ (t <> 0 -> f_inputs_err f = false))))).
Proof.
  intros f o. unfold vtv, vtv_gen, vtv_view.
  destruct (f_head_err f); cbn [bind].
  { cbn. intros H. inversion H. cbn. split; [discriminate | intros [H' _]; discriminate]. }
  destruct (f_unspent_dberr f); cbn [bind].
  { cbn. intros H. inversion H. cbn. split; [discriminate | intros [_ [H' _]]; discriminate]. }
  destruct (all_unspent (f_inputs f)).
  - destruct (f_user f), (f_soft f), (f_hard f); cbn [negb bind w_uxa w_fee_time w_conf w_err];
      destruct (nonempty (f_inputs f)); cbn [andb];
      try (destruct (f_head_time f =? 0) eqn:Et; cbn [negb]); try destruct (f_inputs_err f);
      intros H; inversion H; cbn [o_err]; split; intros H';
      try discriminate; try (split; [reflexivity|]; split; [reflexivity|]);
      try (left; repeat split; try reflexivity; intros; try discriminate; try reflexivity; lia);
      try (destruct H' as [_ [_ [[_ [Hu [Hs [Hh Hi]]]]|[Hc _]]]]; try discriminate;
           try (specialize (Hi eq_refl); assert (f_head_time f <> 0) by lia; specialize (Hi H0); discriminate));
      try reflexivity.
  - destruct (f_hist_dberr f); cbn [bind].
    { cbn. intros H. inversion H. cbn. split; [discriminate|]. intros [_ [_ [[H' _]|[_ [H' _]]]]]; discriminate. }
    destruct (all_in_history (f_inputs f)); cbn [negb bind].
    2:{ cbn. intros H. inversion H. cbn. split; [discriminate|]. intros [_ [_ [[H' _]|[_ [_ [H' _]]]]]]; discriminate. }
    destruct (f_hist_txn f) as [| |seq]; cbn [bind w_uxa w_fee_time w_conf w_err andb].
    + cbn. intros H. inversion H. cbn. split; [discriminate|].
      intros [_ [_ [[H' _]|[_ [_ [_ [s [H' _]]]]]]]]; discriminate.
    + cbn. intros H. inversion H. cbn. split; [discriminate|].
      intros [_ [_ [[H' _]|[_ [_ [_ [s [H' _]]]]]]]]; discriminate.
    + destruct (seq >? 0) eqn:Es.
      * destruct (f_prev_block f) as [| |t]; cbn [bind w_uxa w_fee_time w_conf w_err andb].
        -- cbn. intros H. inversion H. cbn. split; [discriminate|].
           intros [_ [_ [[H' _]|[_ [_ [_ [s [Hs [Hle|[t [Ht _]]]]]]]]]]]; try discriminate. inversion Hs. lia.
        -- cbn. intros H. inversion H. cbn. split; [discriminate|].
           intros [_ [_ [[H' _]|[_ [_ [_ [s [Hs [Hle|[t [Ht _]]]]]]]]]]]; try discriminate. inversion Hs. lia.
        -- destruct (t =? 0) eqn:Et; cbn [negb]; [|destruct (f_inputs_err f) eqn:Ei];
             intros H; inversion H; cbn [o_err]; split; intros H'; try discriminate; try reflexivity.
           ++ split; [reflexivity|]. split; [reflexivity|]. right. repeat split; try reflexivity.
              exists seq. split; [reflexivity|]. right. exists t. split; [reflexivity|]. intros. lia.
           ++ destruct H' as [_ [_ [[H' _]|[_ [_ [_ [s [Hs [Hle|[t' [Ht Hi]]]]]]]]]]]; try discriminate.
              ** inversion Hs. lia.
              ** inversion Ht. subst t'. assert (t <> 0) by lia. specialize (Hi H0). discriminate.
           ++ split; [reflexivity|]. split; [reflexivity|]. right. repeat split; try reflexivity.
              exists seq. split; [reflexivity|]. right. exists t. split; [reflexivity|]. intros _. reflexivity.
      * cbn. intros H. inversion H. cbn. split; [|reflexivity]. intros _.
        split; [reflexivity|]. split; [reflexivity|]. right. repeat split; try reflexivity.
        exists seq. split; [reflexivity|]. left. lia.
Qed.

(* ------------------------------------------------------------------ last blocks *)

Lemma blocks_in_range_count_bounds : forall head s e, 0 <= head -> 0 <= s ->
  0 <= blocks_in_range_count head s e <= head + 1.
Proof.
  intros head s e Hh Hs. unfold blocks_in_range_count.
  destruct (s >? e) eqn:E1; [lia|]. destruct (s >? head) eqn:E2; lia.
Qed.

(* for every 64-bit head and num: GetLastBlocks does not panic (it is a closed
   arithmetic expression) and returns between 0 and head+1 blocks *)
Theorem last_blocks_count_bounds : forall b head num, in_u 64 head -> in_u 64 num ->
  0 <= last_blocks_count b head num <= head + 1.
Proof.
  intros b head num [Hh1 Hh2] [Hn1 Hn2]. unfold last_blocks_count.
  destruct (num =? 0); [lia|]. destruct (negb b); [lia|].
  apply blocks_in_range_count_bounds; [lia|].
  unfold last_blocks_start.
  set (s := swrap 64 (swrap 64 (wrap 64 (head - num)) + 1)). clearbody s.
  destruct (s <? 0) eqn:E; lia.
Qed.

Lemma blocks_to_head_count : forall head st, 0 <= st ->
  blocks_in_range_count head st head = Z.max 0 (head - st + 1).
Proof.
  intros head st Hs. unfold blocks_in_range_count.
  destruct (st >? head) eqn:E; lia.
Qed.

Lemma last_blocks_start_spec : forall head num, 0 <= head < 2 ^ 62 -> 0 < num < 2 ^ 62 ->
  last_blocks_start head num = Z.max 0 (head - num + 1).
Proof.
  intros head num Hh Hn. unfold last_blocks_start, wrap, swrap.
  change (2 ^ 64) with 18446744073709551616. change (2 ^ (64 - 1)) with 9223372036854775808.
  change (2 ^ 62) with 4611686018427387904 in *.
  assert (E : ((((head - num) mod 18446744073709551616 + 9223372036854775808) mod 18446744073709551616 - 9223372036854775808 + 1 + 9223372036854775808)
               mod 18446744073709551616 - 9223372036854775808) = head - num + 1).
  { destruct (Z_lt_le_dec head num) as [Hlt|Hge].
    - assert (E1 : (head - num) mod 18446744073709551616 = head - num + 18446744073709551616).
      { symmetry. apply Z.mod_unique with (q := -1); lia. }
      rewrite E1.
      assert (E2 : (head - num + 18446744073709551616 + 9223372036854775808) mod 18446744073709551616 = head - num + 9223372036854775808).
      { symmetry. apply Z.mod_unique with (q := 1); lia. }
      rewrite E2. rewrite Z.mod_small; lia.
    - assert (E1 : (head - num) mod 18446744073709551616 = head - num) by (apply Z.mod_small; lia).
      rewrite E1.
      assert (E2 : (head - num + 9223372036854775808) mod 18446744073709551616 = head - num + 9223372036854775808) by (apply Z.mod_small; lia).
      rewrite E2. rewrite Z.mod_small; lia. }
  rewrite E. destruct (head - num + 1 <? 0) eqn:E4; lia.
Qed.

(* below 2^62 (the API bounds num by MaxLastBlocksCount) it is the last min(num, head+1) blocks *)
Theorem last_blocks_count_spec : forall head num, 0 <= head < 2 ^ 62 -> 0 < num < 2 ^ 62 ->
  last_blocks_count true head num = Z.min num (head + 1).
Proof.
  intros head num Hh Hn. unfold last_blocks_count.
  assert (E0 : (num =? 0) = false) by lia. rewrite E0. cbn [negb].
  rewrite (last_blocks_start_spec head num Hh Hn).
  rewrite blocks_to_head_count; lia.
Qed.

Theorem last_blocks_status_codes : forall p m, last_blocks_status p m = 200 \/ last_blocks_status p m = 400.
Proof.
  intros p m. unfold last_blocks_status. destruct p as [n|]; [destruct (n >? m)|]; auto.
Qed.
