(* Proofs/CoinTruncateProofs.v — C31: coin.Transactions.TruncateBytesTo as
   regenerated from src/coin/transactions.go (Gen/CoinTruncate.v; an element is
   what txns[i].Size() returns) keeps the LONGEST prefix whose total encoded
   size is <= the limit — for lists of any List.length, when every Size() succeeds
   with a 32-bit value; and the first Size() error is returned. *)
From Coq Require Import Lia ZifyBool.
From Sky Require Import Base.Uint Model.ArithSpec Gen.Mathutil Gen.CoinTruncate
  Proofs.UintLemmas Proofs.MathutilProofs Proofs.CoinLoopsProofs.
Open Scope Z_scope.

Definition size_ok (p : Z * error) : Prop := in_u 32 (fst p) /\ snd p = None.
Definition sizes (l : list (Z * error)) : Z := zsum (map fst l).

Lemma zsum_app : forall a b, zsum (a ++ b) = zsum a + zsum b.
Proof.
  induction a as [|x a IH]; intros b; [reflexivity|].
  change (x + zsum (a ++ b) = x + zsum a + zsum b). rewrite IH. lia.
Qed.
Lemma sizes_app : forall a b, sizes (a ++ b) = sizes a + sizes b.
Proof. intros a b. unfold sizes. rewrite map_app. apply zsum_app. Qed.
Lemma sizes_one : forall s e, sizes [(s, e)] = s.
Proof. intros s e. unfold sizes. change (s + 0 = s). lia. Qed.
Lemma sizes_cons : forall x l, sizes (x :: l) = fst x + sizes l.
Proof. reflexivity. Qed.

Lemma firstn_len_app : forall {A} (a b : list A), firstn (List.length a) (a ++ b) = a.
Proof.
  intros A a b. rewrite firstn_app, Nat.sub_diag, firstn_all. cbn [firstn]. apply app_nil_r.
Qed.

Lemma firstn_S_len_app : forall {A} (a : list A) x b, firstn (S (List.length a)) (a ++ x :: b) = a ++ [x].
Proof.
  intros A a x b. rewrite firstn_app. replace (S (List.length a) - List.length a)%nat with 1%nat by lia.
  rewrite firstn_all2 by lia. reflexivity.
Qed.

Lemma truncate_loop_spec : forall whole size, in_u 32 size ->
  forall l pre total, whole = pre ++ l -> total = sizes pre -> 0 <= total <= size -> Forall size_ok l ->
  exists n, (List.length pre <= n <= List.length whole)%nat /\
    Transactions_TruncateBytesTo_loop1 (fun _ => Val (whole, None)) size whole l (Z.of_nat (List.length pre)) total
      = Val (firstn n whole, None) /\
    sizes (firstn n whole) <= size /\
    ((n < List.length whole)%nat -> size < sizes (firstn (S n) whole)).
Proof.
  intros whole size Hsize. induction l as [|[s e] r IH]; intros pre total Hw Ht Htot Hok;
    cbn [Transactions_TruncateBytesTo_loop1].
  - rewrite app_nil_r in Hw. subst whole. exists (List.length pre).
    split; [lia|]. rewrite firstn_all. split; [reflexivity|]. split; [lia|lia].
  - inversion Hok as [|? ? [Hs He] Hok']; subst. cbn [fst snd] in Hs, He. subst e.
    cbn [bind is_err]. unfold in_u in *.
    rewrite AddUint32_spec by (unfold in_u; lia). unfold ret_or_err.
    assert (Hstop : exists n, (List.length pre <= n <= List.length (pre ++ (s, None) :: r))%nat /\
              Val (firstn (Z.to_nat (Z.of_nat (List.length pre))) (pre ++ (s, None) :: r), @None string)
                = Val (firstn n (pre ++ (s, None) :: r), None) /\
              sizes (firstn n (pre ++ (s, None) :: r)) <= size /\
              ((n < List.length (pre ++ (s, None) :: r))%nat ->
                 size < sizes pre + s -> size < sizes (firstn (S n) (pre ++ (s, None) :: r)))).
    { exists (List.length pre). rewrite Nat2Z.id, app_length. cbn [List.length]. split; [lia|].
      split; [reflexivity|]. rewrite firstn_len_app. split; [lia|].
      intros _ Hgt. rewrite firstn_S_len_app, sizes_app, sizes_one. lia. }
    destruct (sizes pre + s <? 2 ^ 32) eqn:Hfit; cbn [bind is_err].
    + destruct (sizes pre + s >? size) eqn:Hgt.
      * destruct Hstop as [n [Hn [Heq [Hle Hnext]]]]. exists n.
        split; [exact Hn|]. split; [exact Heq|]. split; [exact Hle|].
        intros Hlt. apply Hnext; [exact Hlt|lia].
      * destruct (IH (pre ++ [(s, None)]) (sizes pre + s)) as [n [Hn [Heq [Hle Hnext]]]].
        -- rewrite <- app_assoc. reflexivity.
        -- rewrite sizes_app, sizes_one. lia.
        -- lia.
        -- assumption.
        -- exists n. rewrite app_length in Hn. cbn [List.length] in Hn.
           replace (Z.of_nat (List.length pre) + 1) with (Z.of_nat (List.length (pre ++ [(s, @None string)])))
             by (rewrite app_length; cbn [List.length]; lia).
           split; [lia|]. split; [exact Heq|]. split; [exact Hle|exact Hnext].
    + destruct Hstop as [n [Hn [Heq [Hle Hnext]]]]. exists n.
      split; [exact Hn|]. split; [exact Heq|]. split; [exact Hle|].
      intros Hlt. apply Hnext; [exact Hlt|lia].
Qed.

(* the longest prefix that fits *)
Lemma TruncateBytesTo_spec : forall l size, in_u 32 size -> Forall size_ok l ->
  exists n, (n <= List.length l)%nat /\
    Transactions_TruncateBytesTo l size = Val (firstn n l, None) /\
    sizes (firstn n l) <= size /\
    ((n < List.length l)%nat -> size < sizes (firstn (S n) l)).
Proof.
  intros l size Hsize Hok. unfold Transactions_TruncateBytesTo.
  destruct (truncate_loop_spec l size Hsize l [] 0) as [n [Hn [Heq [Hle Hnext]]]];
    try reflexivity; try assumption; [unfold in_u in Hsize; lia|].
  exists n. cbn [List.length] in Hn. split; [lia|]. split; [exact Heq|]. split; [exact Hle|exact Hnext].
Qed.

(* the first Size() error is returned, with no transactions *)
Lemma TruncateBytesTo_size_error : forall pre s e r size, in_u 32 size -> Forall size_ok pre ->
  sizes pre <= size ->
  Transactions_TruncateBytesTo (pre ++ (s, Some e) :: r) size = Val ([], Some e).
Proof.
  intros pre s e r size Hsize Hpre Hfit. unfold Transactions_TruncateBytesTo.
  set (whole := pre ++ (s, Some e) :: r).
  assert (G : forall l done total, pre = done ++ l -> total = sizes done -> 0 <= total ->
            Transactions_TruncateBytesTo_loop1 (fun _ => Val (whole, None)) size whole
              (l ++ (s, Some e) :: r) (Z.of_nat (List.length done)) total = Val ([], Some e)).
  { induction l as [|[s' e'] l IH]; intros done total Hp Ht H0; cbn [app Transactions_TruncateBytesTo_loop1 bind is_err].
    - reflexivity.
    - assert (Hok : size_ok (s', e')).
      { rewrite Forall_forall in Hpre. apply Hpre. rewrite Hp. apply in_or_app. right. left. reflexivity. }
      destruct Hok as [Hs He]. cbn [fst snd] in Hs, He. subst e'. cbn [is_err]. unfold in_u in *.
      assert (Hsum : sizes pre = sizes done + s' + sizes l).
      { rewrite Hp, sizes_app, sizes_cons. cbn [fst]. lia. }
      assert (Hl : 0 <= sizes l).
      { unfold sizes. apply zsum_nonneg. rewrite Forall_forall. intros x Hx. apply in_map_iff in Hx.
        destruct Hx as [[a b] [Hab Hin]]. cbn [fst] in Hab. subst x.
        rewrite Forall_forall in Hpre. destruct (Hpre (a, b)) as [Ha _].
        - rewrite Hp. apply in_or_app. right. right. assumption.
        - cbn [fst] in Ha. unfold in_u in *. lia. }
      rewrite AddUint32_spec by (unfold in_u; lia). unfold ret_or_err.
      destruct (total + s' <? 2 ^ 32) eqn:E1; [|lia]. cbn [bind is_err].
      destruct (total + s' >? size) eqn:E2; [lia|].
      replace (Z.of_nat (List.length done) + 1) with (Z.of_nat (List.length (done ++ [(s', @None string)])))
        by (rewrite app_length; cbn [List.length]; lia).
      apply IH.
      + rewrite <- app_assoc. assumption.
      + rewrite sizes_app, sizes_one. lia.
      + lia. }
  apply (G pre [] 0); [reflexivity|reflexivity|lia].
Qed.
