(* Proofs/CoinLoopsProofs.v — C31: the checked sums that the translator
   regenerates from src/coin (Gen/CoinLoops.v: loops over slices of structs,
   by structural recursion on the list with the code after the loop as
   continuation k_) compute the mathematical sum over Z and report an error
   exactly when it does not fit in 64 bits — for lists of ANY length. *)
From Coq Require Import Lia ZifyBool.
From Sky Require Import Base.Uint Model.ArithSpec Gen.Mathutil Gen.Fee Gen.CoinHours Gen.CoinLoops Gen.FeeTxn
  Proofs.UintLemmas Proofs.MathutilProofs.
Open Scope Z_scope.

Definition zsum (l : list Z) : Z := fold_right Z.add 0 l.

Lemma zsum_nonneg : forall l, Forall (in_u 64) l -> 0 <= zsum l.
Proof.
  induction 1 as [|a l Ha _ IH]; cbn [zsum fold_right]; [lia|].
  unfold in_u in Ha. fold (zsum l). lia.
Qed.

(* one step of a checked sum *)
Lemma add_step : forall acc a, in_u 64 acc -> in_u 64 a ->
  AddUint64 acc a = ret_or_err (acc + a <? 2 ^ 64) (acc + a) "ErrUint64AddOverflow".
Proof. exact AddUint64_spec. Qed.

Ltac sum_loop IH acc a l Hacc Ha Hl :=
  rewrite (add_step acc a Hacc Ha); unfold ret_or_err;
  destruct (acc + a <? 2 ^ 64) eqn:Hfit; cbn [bind is_err];
  [ rewrite IH; [|assumption|unfold in_u in *; lia];
    replace (acc + a + zsum l) with (acc + (a + zsum l)) by lia; reflexivity
  | pose proof (zsum_nonneg l Hl);
    destruct (acc + (a + zsum l) <? 2 ^ 64) eqn:Hfit2; [lia|reflexivity] ].

(* ---- Transaction.OutputHours *)
Lemma OutputHours_loop_spec : forall l acc, Forall (in_u 64) l -> in_u 64 acc ->
  Transaction_OutputHours_loop1 (fun h => Val (h, None)) l acc =
  ret_or_err (acc + zsum l <? 2 ^ 64) (acc + zsum l) "Transaction output hours overflow".
Proof.
  induction l as [|a l IH]; intros acc Hl Hacc; cbn [Transaction_OutputHours_loop1 zsum fold_right].
  - unfold ret_or_err, in_u in *. replace (acc + 0) with acc by lia.
    destruct (acc <? 2 ^ 64) eqn:E; [reflexivity|lia].
  - inversion Hl as [|? ? Ha Hl']; subst. fold (zsum l). sum_loop IH acc a l Hacc Ha Hl'.
Qed.

Lemma OutputHours_spec : forall hs, Forall (in_u 64) hs ->
  Transaction_OutputHours hs = ret_or_err (zsum hs <? 2 ^ 64) (zsum hs) "Transaction output hours overflow".
Proof.
  intros hs H. unfold Transaction_OutputHours. rewrite OutputHours_loop_spec by (auto; unfold in_u; lia).
  reflexivity.
Qed.

(* ---- UxArray.Coins *)
Lemma UxArray_Coins_loop_spec : forall l acc, Forall (in_u 64) l -> in_u 64 acc ->
  UxArray_Coins_loop1 (fun c => Val (c, None)) l acc =
  ret_or_err (acc + zsum l <? 2 ^ 64) (acc + zsum l) "UxArray.Coins addition overflow".
Proof.
  induction l as [|a l IH]; intros acc Hl Hacc; cbn [UxArray_Coins_loop1 zsum fold_right].
  - unfold ret_or_err, in_u in *. replace (acc + 0) with acc by lia.
    destruct (acc <? 2 ^ 64) eqn:E; [reflexivity|lia].
  - inversion Hl as [|? ? Ha Hl']; subst. fold (zsum l). sum_loop IH acc a l Hacc Ha Hl'.
Qed.

Lemma UxArray_Coins_spec : forall cs, Forall (in_u 64) cs ->
  UxArray_Coins cs = ret_or_err (zsum cs <? 2 ^ 64) (zsum cs) "UxArray.Coins addition overflow".
Proof.
  intros cs H. unfold UxArray_Coins. rewrite UxArray_Coins_loop_spec by (auto; unfold in_u; lia).
  reflexivity.
Qed.

(* ---- coin.VerifyTransactionCoinsSpending *)
Lemma coins_loop1_spec : forall (k : Z -> res error) l acc, Forall (in_u 64) l -> in_u 64 acc ->
  VerifyTransactionCoinsSpending_loop1 k l acc =
  if acc + zsum l <? 2 ^ 64 then k (acc + zsum l) else Val (Some "Transaction input coins overflow"%string).
Proof.
  intros k. induction l as [|a l IH]; intros acc Hl Hacc; cbn [VerifyTransactionCoinsSpending_loop1 zsum fold_right].
  - unfold in_u in *. replace (acc + 0) with acc by lia.
    destruct (acc <? 2 ^ 64) eqn:E; [reflexivity|lia].
  - inversion Hl as [|? ? Ha Hl']; subst. fold (zsum l). sum_loop IH acc a l Hacc Ha Hl'.
Qed.

Lemma coins_loop2_spec : forall (k : Z -> res error) l acc, Forall (in_u 64) l -> in_u 64 acc ->
  VerifyTransactionCoinsSpending_loop2 k l acc =
  if acc + zsum l <? 2 ^ 64 then k (acc + zsum l) else Val (Some "Transaction output coins overflow"%string).
Proof.
  intros k. induction l as [|a l IH]; intros acc Hl Hacc; cbn [VerifyTransactionCoinsSpending_loop2 zsum fold_right].
  - unfold in_u in *. replace (acc + 0) with acc by lia.
    destruct (acc <? 2 ^ 64) eqn:E; [reflexivity|lia].
  - inversion Hl as [|? ? Ha Hl']; subst. fold (zsum l). sum_loop IH acc a l Hacc Ha Hl'.
Qed.

(* what the check says, mathematically: first failing rule in the order of the code *)
Definition coins_spending_verdict (ins outs : list Z) : error :=
  if 2 ^ 64 <=? zsum ins then Some "Transaction input coins overflow"%string
  else if 2 ^ 64 <=? zsum outs then Some "Transaction output coins overflow"%string
  else if zsum ins <? zsum outs then Some "Insufficient coins"%string
  else if zsum ins >? zsum outs then Some "Transactions may not destroy coins"%string
  else None.

Lemma VerifyTransactionCoinsSpending_spec : forall ins outs,
  Forall (in_u 64) ins -> Forall (in_u 64) outs ->
  VerifyTransactionCoinsSpending ins outs = Val (coins_spending_verdict ins outs).
Proof.
  intros ins outs Hi Ho. unfold VerifyTransactionCoinsSpending, coins_spending_verdict.
  rewrite coins_loop1_spec by (auto; unfold in_u; lia).
  replace (0 + zsum ins) with (zsum ins) by lia.
  destruct (zsum ins <? 2 ^ 64) eqn:E1; destruct (2 ^ 64 <=? zsum ins) eqn:E1'; try lia; [|reflexivity].
  rewrite coins_loop2_spec by (auto; unfold in_u; lia).
  replace (0 + zsum outs) with (zsum outs) by lia.
  destruct (zsum outs <? 2 ^ 64) eqn:E2; destruct (2 ^ 64 <=? zsum outs) eqn:E2'; try lia; [|reflexivity].
  destruct (zsum ins <? zsum outs); [reflexivity|].
  destruct (zsum ins >? zsum outs); reflexivity.
Qed.

(* accepted exactly when nothing overflows and the sums are equal: coins are
   neither created nor destroyed *)
Lemma VerifyTransactionCoinsSpending_accepts_iff : forall ins outs,
  Forall (in_u 64) ins -> Forall (in_u 64) outs ->
  (VerifyTransactionCoinsSpending ins outs = Val None <->
   zsum ins < 2 ^ 64 /\ zsum outs < 2 ^ 64 /\ zsum ins = zsum outs).
Proof.
  intros ins outs Hi Ho. rewrite VerifyTransactionCoinsSpending_spec by assumption.
  unfold coins_spending_verdict.
  destruct (2 ^ 64 <=? zsum ins) eqn:E1; [split; [discriminate|lia]|].
  destruct (2 ^ 64 <=? zsum outs) eqn:E2; [split; [discriminate|lia]|].
  destruct (zsum ins <? zsum outs) eqn:E3; [split; [discriminate|lia]|].
  destruct (zsum ins >? zsum outs) eqn:E4; [split; [discriminate|lia]|].
  split; [intros _; lia|reflexivity].
Qed.

(* ---- fee.TransactionFee / fee.VerifyTransactionFee (Gen/FeeTxn.v): the calls
   inUxs.CoinHours(headTime), tx.OutputHours() are the regenerated loop functions *)
Lemma TransactionFee_spec : forall outs T ins ih oh,
  UxArray_CoinHours ins T = Val (ih, None) -> Transaction_OutputHours outs = Val (oh, None) ->
  in_u 64 ih -> in_u 64 oh ->
  TransactionFee outs T ins =
    if ih <? oh then Val (0, Some "ErrTxnInsufficientCoinHours"%string) else Val (ih - oh, None).
Proof.
  intros outs T ins ih oh Hi Ho Hih Hoh. unfold TransactionFee. rewrite Hi, Ho. cbn [bind is_err].
  destruct (ih <? oh) eqn:E; [reflexivity|]. unfold in_u in *. rewrite wrap_small by lia. reflexivity.
Qed.

Lemma TransactionFee_errors : forall outs T ins,
  (forall x e, UxArray_CoinHours ins T = Val (x, Some e) -> TransactionFee outs T ins = Val (0, Some e)) /\
  (forall ih x e, UxArray_CoinHours ins T = Val (ih, None) -> Transaction_OutputHours outs = Val (x, Some e) ->
     TransactionFee outs T ins = Val (0, Some e)).
Proof.
  intros outs T ins. split.
  - intros x e H. unfold TransactionFee. rewrite H. reflexivity.
  - intros ih x e H1 H2. unfold TransactionFee. rewrite H1, H2. reflexivity.
Qed.

Lemma VerifyTransactionFee_spec : forall outs f b,
  Forall (in_u 64) outs ->
  VerifyTransactionFee outs f b =
    if zsum outs <? 2 ^ 64 then VerifyTransactionFeeForHours (zsum outs) f b
    else Val (Some "Transaction output hours overflow"%string).
Proof.
  intros outs f b H. unfold VerifyTransactionFee. rewrite OutputHours_spec by assumption.
  unfold ret_or_err. destruct (zsum outs <? 2 ^ 64); cbn [bind is_err]; [|reflexivity].
  destruct (VerifyTransactionFeeForHours (zsum outs) f b); reflexivity.
Qed.
