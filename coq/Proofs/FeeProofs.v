(* Specifications of the translated fee arithmetic (src/util/fee). *)
From Sky Require Import Base.Uint Model.ArithSpec Gen.Mathutil Gen.Fee Proofs.UintLemmas Proofs.MathutilProofs.
From Coq Require Import Lia ZifyBool.
Open Scope Z_scope.

Lemma ceil_div_alt h b : 0 <= h -> 1 <= b ->
  ceil_div h b = h / b + (if h mod b =? 0 then 0 else 1).
Proof.
  intros Hh Hb. unfold ceil_div.
  pose proof (Z.div_mod h b ltac:(lia)) as E.
  pose proof (Z.mod_pos_bound h b ltac:(lia)) as B.
  destruct (h mod b =? 0) eqn:E0.
  - assert (h mod b = 0) as M by lia. rewrite M in E.
    replace (h + b - 1) with ((b - 1) + (h / b) * b) by lia.
    rewrite Z.div_add by lia. rewrite Z.div_small by lia. lia.
  - replace (h + b - 1) with ((h mod b - 1) + (h / b + 1) * b) by lia.
    rewrite Z.div_add by lia. rewrite Z.div_small by lia. lia.
Qed.

Lemma ceil_div_le h b : 0 <= h -> 1 <= b -> ceil_div h b <= h.
Proof.
  intros Hh Hb. rewrite ceil_div_alt by lia.
  pose proof (Z.div_mod h b ltac:(lia)) as E.
  pose proof (Z.mod_pos_bound h b ltac:(lia)) as B.
  assert (0 <= h / b) by (apply Z.div_pos; lia).
  destruct (h mod b =? 0) eqn:E0; nia.
Qed.

(* the least f with f * b >= h *)
Lemma ceil_div_least h b : 0 <= h -> 1 <= b ->
  h <= ceil_div h b * b /\ (forall f, h <= f * b -> ceil_div h b <= f).
Proof.
  intros Hh Hb. rewrite ceil_div_alt by lia.
  pose proof (Z.div_mod h b ltac:(lia)) as E.
  pose proof (Z.mod_pos_bound h b ltac:(lia)) as B.
  destruct (h mod b =? 0) eqn:E0; split; try nia; intros f Hf; nia.
Qed.

Lemma RequiredFee_ceil h b : in_u 64 h -> 1 <= b < 2 ^ 32 ->
  RequiredFee h b = Val (ceil_div h b).
Proof.
  unfold in_u, RequiredFee. intros Hh Hb.
  rewrite udiv_nz, umod_nz by lia. rewrite !bind_val.
  rewrite ceil_div_alt by lia.
  pose proof (Z.div_mod h b ltac:(lia)) as E.
  pose proof (Z.mod_pos_bound h b ltac:(lia)) as B.
  assert (0 <= h / b <= h) by (split; [apply Z.div_pos; lia | apply Z.div_le_upper_bound; nia]).
  destruct (h mod b =? 0) eqn:E0; cbn [negb]; rewrite !bind_val.
  - f_equal. lia.
  - f_equal. rewrite wrap_small; [lia|]. rewrite pow64 in *.
    assert (h / b < h \/ h = 0) by nia. lia.
Qed.

Lemma RemainingHours_spec h b : in_u 64 h -> 1 <= b < 2 ^ 32 ->
  RemainingHours h b = Val (h - ceil_div h b) /\ 0 <= h - ceil_div h b <= h.
Proof.
  intros Hh Hb. unfold RemainingHours. rewrite RequiredFee_ceil by assumption. rewrite bind_val.
  pose proof (ceil_div_le h b ltac:(unfold in_u in Hh; lia) ltac:(lia)) as L.
  assert (0 <= ceil_div h b).
  { unfold ceil_div. apply Z.div_pos; unfold in_u in Hh; lia. }
  unfold in_u in Hh. rewrite wrap_small by lia. split; [reflexivity|lia].
Qed.

Lemma VerifyTransactionFeeForHours_spec hours fee b :
  in_u 64 hours -> in_u 64 fee -> 1 <= b < 2 ^ 32 ->
  VerifyTransactionFeeForHours hours fee b = Val (fee_verdict hours fee b).
Proof.
  intros Hh Hf Hb. unfold VerifyTransactionFeeForHours, fee_verdict.
  destruct (fee =? 0) eqn:E0; [reflexivity|].
  rewrite AddUint64_spec by assumption. unfold ret_or_err.
  unfold in_u in *.
  destruct (hours + fee <? 2 ^ 64) eqn:E1.
  - replace (2 ^ 64 <=? hours + fee) with false by lia. rewrite bind_val. cbn [is_err].
    rewrite RequiredFee_ceil by (unfold in_u; lia). rewrite bind_val.
    destruct (fee <? ceil_div (hours + fee) b); reflexivity.
  - replace (2 ^ 64 <=? hours + fee) with true by lia. reflexivity.
Qed.
