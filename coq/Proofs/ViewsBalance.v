(* C07 proofs, part 4: Visor.GetBalanceOfAddresses on an agreeing state. *)
From Sky Require Import Base.Uint Model.ArithSpec Gen.Mathutil Gen.CoinHours Model.Views
  Proofs.UintLemmas Proofs.MathutilProofs Proofs.CoinHoursProofs
  Proofs.ViewsBase Proofs.ViewsUnspent Proofs.ViewsHistory Proofs.ViewsNode.
From Coq Require Import Lia ZifyBool ZArith Bool List Permutation String.
Import ListNotations.
Open Scope Z_scope.

(* ---------- sums *)

Lemma sumZ_app a b : sumZ (a ++ b) = sumZ a + sumZ b.
Proof. unfold sumZ. induction a as [|x r IH]; cbn; [reflexivity | rewrite IH; lia]. Qed.

Lemma sumZ_perm l l' : Permutation l l' -> sumZ l = sumZ l'.
Proof. unfold sumZ. induction 1; cbn; lia. Qed.

Lemma coins_of_perm l l' : Permutation l l' -> coins_of l = coins_of l'.
Proof. intros P. unfold coins_of. apply sumZ_perm. now apply Permutation_map. Qed.

(* UxArray.Coins returns the mathematical sum when it returns no error *)
Lemma ua_coins_ok l : forall acc v,
  in_u 64 acc -> Forall (fun u => in_u 64 (ux_coins u)) l ->
  ua_coins acc l = Val (v, None) -> v = acc + coins_of l /\ in_u 64 v.
Proof.
  induction l as [|u r IH]; intros acc v Ha Hr H; cbn [ua_coins] in H.
  - injection H as <-. unfold coins_of, sumZ. cbn. split; [lia | exact Ha].
  - inversion Hr as [|? ? Hu Hr']; subst.
    rewrite (AddUint64_spec acc (ux_coins u) Ha Hu) in H. unfold ret_or_err in H.
    destruct (acc + ux_coins u <? 2 ^ 64) eqn:E; cbn [bind is_err] in H; [|discriminate].
    destruct (IH (acc + ux_coins u) v) as [E1 E2]; auto.
    + unfold in_u in *. lia.
    + split; [|exact E2]. rewrite E1. unfold coins_of, sumZ. cbn. lia.
Qed.

(* any error result carries the value 0 *)
Lemma ua_hours_err t l : forall acc v e, ua_hours t acc l = Val (v, Some e) -> v = 0.
Proof.
  induction l as [|u r IH]; intros acc v e H; cbn [ua_hours] in H; [discriminate|].
  destruct (UxOut_CoinHours (ux_time u) (ux_coins u) (ux_hours u) t) as [|[h eh]]; cbn [bind] in H; [discriminate|].
  destruct (is_err eh); [now injection H as <- _|].
  destruct (AddUint64 acc h) as [|[s2 e2]]; cbn [bind] in H; [discriminate|].
  destruct (is_err e2); [now injection H as <- _ | eapply IH; eauto].
Qed.

(* if some element's own hours computation fails, the whole sum reports an error *)
Lemma ua_hours_elem_err t l : forall acc,
  (forall u, In u l -> UxOut_CoinHours (ux_time u) (ux_coins u) (ux_hours u) t <> Panic) ->
  (forall a b, AddUint64 a b <> Panic) ->
  (exists u h e, In u l /\ UxOut_CoinHours (ux_time u) (ux_coins u) (ux_hours u) t = Val (h, Some e)) ->
  exists e', ua_hours t acc l = Val (0, Some e').
Proof.
  induction l as [|u r IH]; intros acc Hnp Hadd (w & h & e & Hw & Ew); [contradiction|].
  cbn [ua_hours].
  destruct (UxOut_CoinHours (ux_time u) (ux_coins u) (ux_hours u) t) as [|[hu eu]] eqn:Eu.
  { exfalso. apply (Hnp u (or_introl eq_refl)). exact Eu. }
  cbn [bind]. destruct eu as [m|]; cbn [is_err]; [now exists m|].
  destruct (AddUint64 acc hu) as [|[s2 e2]] eqn:Ea; [exfalso; now apply (Hadd acc hu)|].
  cbn [bind]. destruct e2 as [m2|]; cbn [is_err]; [eexists; reflexivity|].
  destruct Hw as [<-|Hw]; [rewrite Eu in Ew; discriminate|].
  apply IH; auto.
  - intros x Hx. apply Hnp. now right.
  - now exists w, h, e.
Qed.

(* the E_ADD error can only come from an element (the sum overflow has another text) *)
Lemma ua_hours_eadd t l : forall acc v,
  ua_hours t acc l = Val (v, Some E_ADD) ->
  exists u h, In u l /\ UxOut_CoinHours (ux_time u) (ux_coins u) (ux_hours u) t = Val (h, Some E_ADD).
Proof.
  induction l as [|u r IH]; intros acc v H; cbn [ua_hours] in H; [discriminate|].
  destruct (UxOut_CoinHours (ux_time u) (ux_coins u) (ux_hours u) t) as [|[hu eu]] eqn:Eu; cbn [bind] in H; [discriminate|].
  destruct eu as [m|]; cbn [is_err] in H.
  - injection H as _ Hm. exists u, hu. split; [now left|]. rewrite Eu. now rewrite Hm.
  - destruct (AddUint64 acc hu) as [|[s2 e2]]; cbn [bind] in H; [discriminate|].
    destruct e2 as [m2|]; cbn [is_err] in H.
    + injection H as _ Hm. discriminate.
    + destruct (IH _ _ H) as (w & h & Hw & Ew). exists w, h. split; [now right | exact Ew].
Qed.

Lemma AddUint64_nopanic a b : AddUint64 a b <> Panic.
Proof. unfold AddUint64. destruct ((wrap 64 (a + b) <? a) || (wrap 64 (a + b) <? b)); discriminate. Qed.

(* an output created "now" has exactly its initial hours *)
Lemma CoinHours_at_creation t coins hours :
  in_u 64 t -> in_u 64 coins -> in_u 64 hours ->
  UxOut_CoinHours t coins hours t = Val (hours, None).
Proof.
  intros Ht Hc Hh. rewrite CoinHours_spec by assumption. unfold coinhours_spec, in_u in *.
  rewrite Z.ltb_irrefl, Z.sub_diag, !Z.mul_0_r. unfold earned. rewrite Z.mul_0_r. cbn [Z.div].
  replace (0 / 1000000) with 0 by reflexivity. replace (0 / 3600000000) with 0 by reflexivity.
  destruct (2 ^ 64 <=? 0) eqn:E; [lia|]. rewrite Z.add_0_r.
  destruct (2 ^ 64 <=? hours) eqn:E2; [lia | reflexivity].
Qed.

(* ---------- the predicted-overflow typo cannot be observed *)

Theorem bal_one_typo_unobservable t uxs outs ins :
  in_u 64 t ->
  Forall (fun u => in_u 64 (ux_time u) /\ in_u 64 (ux_coins u) /\ in_u 64 (ux_hours u)) uxs ->
  Forall (fun u => ux_time u = t /\ in_u 64 (ux_coins u) /\ in_u 64 (ux_hours u)) ins ->
  bal_one true t uxs outs ins = bal_one false t uxs outs ins.
Proof.
  intros Ht Huxs Hins. unfold bal_one.
  destruct (ua_coins 0 uxs) as [|[coins e1]]; cbn [bind]; [reflexivity|].
  destruct (is_err e1); [reflexivity|].
  destruct (ua_hours t 0 uxs) as [|[hours0 e2]] eqn:Ehc; cbn [bind]; [reflexivity|].
  set (predicted := ua_add (ua_sub uxs outs) ins).
  assert (Hnp : forall l, (forall u, In u l -> In u uxs \/ In u ins) ->
                forall u, In u l -> UxOut_CoinHours (ux_time u) (ux_coins u) (ux_hours u) t <> Panic).
  { intros l Hl u Hu. destruct (Hl u Hu) as [H|H].
    - rewrite Forall_forall in Huxs. destruct (Huxs u H) as (A & B & C).
      rewrite CoinHours_spec by assumption. unfold coinhours_spec.
      repeat match goal with |- context [if ?b then _ else _] => destruct b end; discriminate.
    - rewrite Forall_forall in Hins. destruct (Hins u H) as (A & B & C). rewrite A.
      rewrite CoinHours_at_creation by assumption. discriminate. }
  destruct e2 as [m|].
  - (* confirmed hours failed: either the fallback 0 or an error; identical either way *)
    destruct (String.eqb m E_ADD) eqn:Em; [|reflexivity].
    destruct (ua_coins 0 predicted) as [|[pcoins e3]]; cbn [bind]; [reflexivity|].
    destruct (is_err e3); [reflexivity|].
    destruct (ua_hours t 0 predicted) as [|[ph e4]] eqn:Ehp; cbn [bind]; [reflexivity|].
    destruct e4 as [m4|]; [|reflexivity].
    destruct (String.eqb m4 E_ADD) eqn:Em4; [|reflexivity].
    pose proof (ua_hours_err _ _ _ _ _ Ehp) as ->. reflexivity.
  - (* confirmed hours fine: then the predicted hours cannot fail with E_ADD *)
    destruct (ua_coins 0 predicted) as [|[pcoins e3]]; cbn [bind]; [reflexivity|].
    destruct (is_err e3); [reflexivity|].
    destruct (ua_hours t 0 predicted) as [|[ph e4]] eqn:Ehp; cbn [bind]; [reflexivity|].
    destruct e4 as [m4|]; [|reflexivity].
    destruct (String.eqb m4 E_ADD) eqn:Em4; [|reflexivity].
    exfalso. apply String.eqb_eq in Em4. subst m4.
    destruct (ua_hours_eadd _ _ _ _ Ehp) as (u & h & Hu & Eu).
    unfold predicted, ua_add, ua_sub in Hu. apply in_app_iff in Hu as [Hu|Hu].
    + apply filter_In in Hu as [Hu _].
      destruct (ua_hours_elem_err t uxs 0 (Hnp uxs (fun x Hx => or_introl Hx)) AddUint64_nopanic) as (e' & He').
      { exists u, h, E_ADD. split; [exact Hu | exact Eu]. }
      rewrite He' in Ehc. discriminate.
    + apply filter_In in Hu as [Hu _]. rewrite Forall_forall in Hins. destruct (Hins u Hu) as (A & B & C).
      rewrite A, CoinHours_at_creation in Eu by assumption. discriminate.
Qed.

Lemma bal_all_typo_unobservable t us spend recv addrs :
  (forall uxs outs ins, bal_one true t uxs outs ins = bal_one false t uxs outs ins) ->
  bal_all true t us spend recv addrs = bal_all false t us spend recv addrs.
Proof.
  intros H. induction addrs as [|a r IH]; cbn [bal_all]; [reflexivity|].
  destruct (get_array (u_pool us) (aget_list a (u_idx us))); [|reflexivity].
  rewrite H, IH. reflexivity.
Qed.

(* ---------- what a successful answer contains *)

Lemma bal_one_inr typo t uxs outs ins cc ch pc ph :
  bal_one typo t uxs outs ins = Val (inr (cc, ch, pc, ph)) ->
  ua_coins 0 uxs = Val (cc, None) /\ ua_coins 0 (ua_add (ua_sub uxs outs) ins) = Val (pc, None).
Proof.
  unfold bal_one. intros H.
  destruct (ua_coins 0 uxs) as [|[c1 e1]]; cbn [bind] in H; [discriminate|].
  destruct e1 as [m1|]; cbn [is_err] in H; [discriminate|].
  destruct (ua_hours t 0 uxs) as [|[h1 e2]]; cbn [bind] in H; [discriminate|].
  assert (G : forall hh,
    bind (ua_coins 0 (ua_add (ua_sub uxs outs) ins)) (fun '(pcoins, e) =>
      if is_err e then Val (inl "predictedUxs.Coins failed"%string) else
      bind (ua_hours t 0 (ua_add (ua_sub uxs outs) ins)) (fun '(phours0, e0) =>
      match e0 with
      | None => Val (inr (c1, hh, pcoins, phours0))
      | Some m => if String.eqb m E_ADD
                  then (if typo then Val (inr (c1, 0, pcoins, phours0)) else Val (inr (c1, hh, pcoins, 0)))
                  else Val (inl "predictedUxs.CoinHours failed"%string)
      end)) = Val (inr (cc, ch, pc, ph)) ->
    Val (c1, @None string) = Val (cc, None) /\ ua_coins 0 (ua_add (ua_sub uxs outs) ins) = Val (pc, None)).
  { intros hh G.
    destruct (ua_coins 0 (ua_add (ua_sub uxs outs) ins)) as [|[c3 e3]]; cbn [bind] in G; [discriminate|].
    destruct e3 as [m3|]; cbn [is_err] in G; [discriminate|].
    destruct (ua_hours t 0 (ua_add (ua_sub uxs outs) ins)) as [|[h4 e4]]; cbn [bind] in G; [discriminate|].
    destruct e4 as [m4|].
    - destruct (String.eqb m4 E_ADD); [|discriminate]. destruct typo; injection G as -> _ -> _; auto.
    - injection G as -> _ -> _; auto. }
  destruct e2 as [m2|].
  - destruct (String.eqb m2 E_ADD); [|discriminate]. exact (G 0 H).
  - exact (G h1 H).
Qed.

Lemma get_array_perm (f : uxout -> bool) P ids uxs :
  NoDup (map ux_id P) -> get_array P ids = Some uxs ->
  Permutation ids (map ux_id (filter f P)) -> Permutation uxs (filter f P).
Proof.
  intros Hnd Hg Hperm. apply get_array_some in Hg as [Hids Hsub].
  assert (Hnd_ids : NoDup ids).
  { eapply Permutation_NoDup; [apply Permutation_sym, Hperm|]. now apply NoDup_map_filter. }
  apply NoDup_Permutation.
  - rewrite <- Hids in Hnd_ids. now apply NoDup_map_inv in Hnd_ids.
  - apply NoDup_filter. now apply NoDup_map_inv in Hnd.
  - intros u. split.
    + intros Hu. assert (Hin : In (ux_id u) (map ux_id (filter f P))).
      { apply (Permutation_in _ Hperm). rewrite <- Hids. now apply in_map. }
      apply in_map_iff in Hin as (v & Ev & Hv).
      assert (v = u). { apply (nodup_map_inj ux_id P); auto. apply filter_In in Hv. tauto. }
      now subst v.
    + intros Hu. assert (Hin : In (ux_id u) ids).
      { apply (Permutation_in _ (Permutation_sym Hperm)). now apply in_map. }
      rewrite <- Hids in Hin. apply in_map_iff in Hin as (v & Ev & Hv).
      assert (v = u). { apply (nodup_map_inj ux_id P); auto. apply filter_In in Hu. tauto. }
      now subst v.
Qed.

(* ---------- the GetArray error is exactly the stale-pool state *)

Definition MSG_GETARRAY : string := "GetArray failed when checking addresses balance".

Lemma bal_one_msg typo t uxs outs ins m :
  bal_one typo t uxs outs ins = Val (inl m) -> m <> MSG_GETARRAY.
Proof.
  unfold bal_one. intros H Hm. subst m.
  destruct (ua_coins 0 uxs) as [|[c1 e1]]; cbn [bind] in H; [discriminate|].
  destruct (is_err e1); [discriminate|].
  destruct (ua_hours t 0 uxs) as [|[h1 e2]]; cbn [bind] in H; [discriminate|].
  destruct e2 as [m2|].
  - destruct (String.eqb m2 E_ADD); [|discriminate].
    destruct (ua_coins 0 _) as [|[c3 e3]]; cbn [bind] in H; [discriminate|].
    destruct (is_err e3); [discriminate|].
    destruct (ua_hours t 0 _) as [|[h4 e4]]; cbn [bind] in H; [discriminate|].
    destruct e4 as [m4|]; [|discriminate]. destruct (String.eqb m4 E_ADD); [destruct typo|]; discriminate.
  - destruct (ua_coins 0 _) as [|[c3 e3]]; cbn [bind] in H; [discriminate|].
    destruct (is_err e3); [discriminate|].
    destruct (ua_hours t 0 _) as [|[h4 e4]]; cbn [bind] in H; [discriminate|].
    destruct e4 as [m4|]; [|discriminate]. destruct (String.eqb m4 E_ADD); [destruct typo|]; discriminate.
Qed.

Lemma bal_all_msg typo t us spend recv addrs m :
  bal_all typo t us spend recv addrs = Val (inl m) -> m <> MSG_GETARRAY.
Proof.
  revert m. induction addrs as [|a r IH]; intros m; cbn [bal_all]; [discriminate|].
  destruct (get_array (u_pool us) (aget_list a (u_idx us))).
  2:{ intros H Hm. injection H as H. subst m. discriminate. }
  destruct (bal_one typo t _ _ _) as [|[m1|q]] eqn:Eb; cbn [bind]; [discriminate | |].
  - intros H. injection H as <-. exact (bal_one_msg _ _ _ _ _ _ Eb).
  - destruct (bal_all typo t us spend recv r) as [|[m2|l']] eqn:Er; cbn [bind]; try discriminate.
    intros H. injection H as <-. now apply IH.
Qed.

Section Balance.
  Variable n : node.
  Variable c : chain.
  Hypothesis Hw : wf_chain c.
  Hypothesis Hag : nagree n c.
  Let Hc : cinv c := wf_chain_cinv c Hw.

  Lemma pool_is_utxo : u_pool (n_us n) = utxo_of c.
  Proof. destruct Hag as (_ & (H & _) & _). exact H. Qed.

  Theorem balance_err_iff_stale typo p a addrs :
    q_balance typo n p (a :: addrs) = Val (inl "GetArray failed when checking addresses balance"%string)
    <-> pool_stale c p = true.
  Proof.
    unfold q_balance, pool_stale. rewrite pool_is_utxo. split.
    - intros H. apply negb_true_iff.
      destruct (forallb (fun i => memZ i (map ux_id (utxo_of c))) (pool_ins p)) eqn:E; [|reflexivity]. exfalso.
      rewrite forallb_forall in E.
      destruct (get_array_spec (utxo_of c) (pool_ins p) (utxo_ids_nodup c Hc)) as (uxs & Eg & _).
      { intros i Hi. apply memZ_In. now apply E. }
      rewrite Eg in H. rewrite <- pool_is_utxo in H.
      destruct (existsb _ (a :: addrs)); [discriminate|].
      exact (bal_all_msg _ _ _ _ _ _ _ H eq_refl).
    - intros H. apply negb_true_iff in H.
      destruct (get_array (utxo_of c) (pool_ins p)) as [uxs|] eqn:Eg; [|reflexivity]. exfalso.
      apply get_array_some in Eg as [Hids Hsub].
      assert (E : forallb (fun i => memZ i (map ux_id (utxo_of c))) (pool_ins p) = true).
      { apply forallb_forall. intros i Hi. apply memZ_In. rewrite <- Hids in Hi.
        apply in_map_iff in Hi as (u & <- & Hu). apply in_map. now apply Hsub. }
      congruence.
  Qed.

  (* coins: confirmed = sum over the address's unspent outputs of the chain; predicted =
     sum over (those not spent by the pool) + (outputs the pool creates for the address) *)
  Theorem balance_coins_spec typo p addrs rows :
    pool_stale c p = false ->
    NoDup (map ux_id (utxo_of c) ++ map ux_id (pool_uxs c p)) ->
    Forall (fun u => in_u 64 (ux_coins u)) (utxo_of c ++ pool_uxs c p) ->
    q_balance typo n p addrs = Val (inr rows) ->
    Forall2 (fun a row => let '(cc, _, pc, _) := row in
                          cc = coins_of (confirmed_uxs c a) /\ pc = coins_of (predicted_uxs c p a)) addrs rows.
  Proof.
    intros Hstale Hfresh Hrange. unfold q_balance.
    assert (Hch : n_chain n = c) by apply Hag. rewrite Hch.
    destruct addrs as [|a0 r0]; [intros H; injection H as <-; constructor|].
    set (addrs := a0 :: r0). clearbody addrs. rewrite pool_is_utxo.
    pose proof (utxo_ids_nodup c Hc) as Hnd.
    destruct (get_array (utxo_of c) (pool_ins p)) as [spend|] eqn:Es; [|discriminate].
    destruct (existsb _ addrs); [discriminate|].
    destruct Hag as (_ & (Hpool & Hidx & _) & _).
    pose proof (get_array_some _ _ _ Es) as [Hsids Hssub].
    apply NoDup_app_inv in Hfresh as (_ & _ & Hdisj).
    revert rows. induction addrs as [|a r IH]; intros rows; cbn [bal_all].
    { intros H. injection H as <-. constructor. }
    rewrite Hpool.
    destruct (get_array (utxo_of c) (aget_list a (u_idx (n_us n)))) as [uxs|] eqn:Eu; [|discriminate].
    destruct (bal_one typo _ uxs _ _) as [|[m|[[[cc ch] pc] ph]]] eqn:Eb; cbn [bind]; try discriminate.
    destruct (bal_all typo _ _ spend _ r) as [|[m|l']] eqn:Er; cbn [bind]; try discriminate.
    intros H. injection H as <-. constructor; [|now apply IH].
    apply bal_one_inr in Eb as [Ec Ep].
    assert (Pux : Permutation uxs (confirmed_uxs c a)).
    { apply (get_array_perm _ _ _ _ Hnd Eu). apply Hidx. }
    assert (Hux_in : forall u, In u uxs -> In u (utxo_of c) /\ ux_addr u =? a = true).
    { intros u Hu. apply (Permutation_in _ Pux) in Hu. unfold confirmed_uxs in Hu. now apply filter_In in Hu. }
    rewrite Forall_app in Hrange. destruct Hrange as [Hr1 Hr2].
    rewrite Forall_forall in Hr1, Hr2.
    assert (in_u 64 0) by (unfold in_u; lia).
    split.
    - assert (Hf1 : Forall (fun u => in_u 64 (ux_coins u)) uxs).
      { apply Forall_forall. intros u Hu. apply Hr1. now apply Hux_in. }
      destruct (ua_coins_ok uxs 0 cc H Hf1 Ec) as [E _].
      rewrite E, Z.add_0_l. now apply coins_of_perm.
    - set (pred := ua_add (ua_sub uxs (filter (fun u => ux_addr u =? a) spend))
                          (filter (fun u => ux_addr u =? a) (pool_uxs c p))) in *.
      assert (Ppred : Permutation pred (predicted_uxs c p a)).
      { unfold pred, ua_add, ua_sub, predicted_uxs. apply Permutation_app.
        - transitivity (filter (fun u => negb (memZ (ux_id u) (pool_ins p))) uxs); [|now apply Permutation_filter].
          apply Permutation_refl'. apply filter_ext_in'. intros u Hu. f_equal. destruct (Hux_in u Hu) as [HuP Ha].
          destruct (memZ (ux_id u) (pool_ins p)) eqn:E.
          + apply memZ_In. apply memZ_In in E. rewrite <- Hsids in E. apply in_map_iff in E as (v & Ev & Hv).
            assert (v = u) by (apply (nodup_map_inj ux_id (utxo_of c)); auto). subst v.
            apply in_map. apply filter_In. auto.
          + apply memZ_false. apply memZ_false in E. intros Hin. apply E. rewrite <- Hsids.
            apply in_map_iff in Hin as (v & Ev & Hv). apply filter_In in Hv as [Hv _]. apply in_map_iff. now exists v.
        - apply Permutation_refl'. apply filter_all. intros u Hu. apply negb_true_iff, memZ_false. intros Hin.
          apply filter_In in Hu as [Hu _].
          apply in_map_iff in Hin as (v & Ev & Hv). apply filter_In in Hv as [Hv _].
          apply (Hdisj (ux_id u)).
          + rewrite <- Ev. apply in_map. now apply Hux_in.
          + now apply in_map. }
      assert (Hf2 : Forall (fun u => in_u 64 (ux_coins u)) pred).
      { apply Forall_forall. intros u Hu. apply (Permutation_in _ Ppred) in Hu. unfold predicted_uxs in Hu.
        apply in_app_iff in Hu as [Hu|Hu]; apply filter_In in Hu as [Hu _].
        - apply Hr1. unfold confirmed_uxs in Hu. apply filter_In in Hu. tauto.
        - now apply Hr2. }
      destruct (ua_coins_ok pred 0 pc H Hf2 Ep) as [E _].
      rewrite E, Z.add_0_l. now apply coins_of_perm.
  Qed.
End Balance.

(* predicted = confirmed - outgoing + incoming, as sums *)
Lemma coins_of_split (f : uxout -> bool) l :
  coins_of l = coins_of (filter f l) + coins_of (filter (fun u => negb (f u)) l).
Proof.
  unfold coins_of, sumZ. induction l as [|u r IH]; cbn; [reflexivity|].
  destruct (f u); cbn; lia.
Qed.

Theorem predicted_is_confirmed_minus_out_plus_in c p a :
  coins_of (predicted_uxs c p a) =
  coins_of (confirmed_uxs c a)
  - coins_of (filter (fun u => memZ (ux_id u) (pool_ins p)) (confirmed_uxs c a))
  + coins_of (filter (fun u => ux_addr u =? a) (pool_uxs c p)).
Proof.
  unfold predicted_uxs. unfold coins_of at 1. rewrite map_app, sumZ_app. fold (coins_of (filter (fun u => negb (memZ (ux_id u) (pool_ins p))) (confirmed_uxs c a))).
  fold (coins_of (filter (fun u => ux_addr u =? a) (pool_uxs c p))).
  rewrite (coins_of_split (fun u => memZ (ux_id u) (pool_ins p)) (confirmed_uxs c a)). lia.
Qed.

