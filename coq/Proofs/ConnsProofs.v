(* Proofs/ConnsProofs.v — the bookkeeping invariant of Model/Conns.v holds after
   every operation list whose `connected` ids are fresh (C24). *)
From Coq Require Import Lia ZifyBool.
From Sky Require Import Base.Uint Model.Conns.
Open Scope Z_scope.

(* ------------------------------------------------------------------ *)
(* association lists *)
Section AListLemmas.
  Context {K V : Type} (eqb : K -> K -> bool).
  Hypothesis eqb_spec : forall a b, eqb a b = true <-> a = b.

  Lemma eqb_refl' : forall a, eqb a a = true.
  Proof. intros a. apply eqb_spec. reflexivity. Qed.

  Lemma eqb_false : forall a b, eqb a b = false <-> a <> b.
  Proof.
    intros a b. split.
    - intros H E. apply eqb_spec in E. congruence.
    - intros H. destruct (eqb a b) eqn:E; [apply eqb_spec in E; contradiction | reflexivity].
  Qed.

  Lemma aget_aset : forall (m : list (K * V)) k v k',
    aget eqb k' (aset eqb k v m) = if eqb k' k then Some v else aget eqb k' m.
  Proof.
    induction m as [|[k0 v0] r IH]; intros k v k'.
    - cbn [aset aget]. reflexivity.
    - cbn [aset]. destruct (eqb k k0) eqn:E.
      + apply eqb_spec in E. subst k0. cbn [aget]. destruct (eqb k' k); reflexivity.
      + cbn [aget]. rewrite IH. destruct (eqb k' k0) eqn:E0; [|reflexivity].
        apply eqb_spec in E0. subst k0.
        destruct (eqb k' k) eqn:E1; [|reflexivity].
        apply eqb_spec in E1. subst k'. rewrite eqb_refl' in E. discriminate.
  Qed.

  Lemma aget_adel : forall (m : list (K * V)) k k',
    aget eqb k' (adel eqb k m) = if eqb k' k then None else aget eqb k' m.
  Proof.
    induction m as [|[k0 v0] r IH]; intros k k'.
    - cbn [adel aget]. destruct (eqb k' k); reflexivity.
    - cbn [adel]. destruct (eqb k k0) eqn:E.
      + apply eqb_spec in E. subst k0. rewrite IH. cbn [aget]. destruct (eqb k' k); reflexivity.
      + cbn [aget]. rewrite IH. destruct (eqb k' k0) eqn:E0; [|reflexivity].
        apply eqb_spec in E0. subst k0.
        destruct (eqb k' k) eqn:E1; [|reflexivity].
        apply eqb_spec in E1. subst k'. rewrite eqb_refl' in E. discriminate.
  Qed.

  Lemma aget_In : forall (m : list (K * V)) k v, aget eqb k m = Some v -> In (k, v) m.
  Proof.
    induction m as [|[k0 v0] r IH]; intros k v H; cbn [aget] in H; [discriminate|].
    destruct (eqb k k0) eqn:E.
    - apply eqb_spec in E. subst. injection H as <-. left. reflexivity.
    - right. apply IH. exact H.
  Qed.

  Lemma aget_None_notin : forall (m : list (K * V)) k, aget eqb k m = None -> ~ In k (map fst m).
  Proof.
    induction m as [|[k0 v0] r IH]; intros k H; cbn [aget] in H; cbn [map fst In].
    - tauto.
    - destruct (eqb k k0) eqn:E; [discriminate|]. apply eqb_false in E.
      intros [H1|H1]; [congruence|]. exact (IH k H H1).
  Qed.

  Lemma notin_aget_None : forall (m : list (K * V)) k, ~ In k (map fst m) -> aget eqb k m = None.
  Proof.
    induction m as [|[k0 v0] r IH]; intros k H; cbn [aget]; [reflexivity|].
    cbn [map fst In] in H. destruct (eqb k k0) eqn:E.
    - apply eqb_spec in E. subst. tauto.
    - apply IH. tauto.
  Qed.

  Lemma aget_head : forall (m : list (K * V)) k v, aget eqb k ((k, v) :: m) = Some v.
  Proof. intros. cbn [aget]. rewrite eqb_refl'. reflexivity. Qed.

  Lemma keys_aset : forall (m : list (K * V)) k v x,
    In x (map fst (aset eqb k v m)) <-> x = k \/ In x (map fst m).
  Proof.
    induction m as [|[k0 v0] r IH]; intros k v x.
    - cbn. intuition.
    - cbn [aset]. destruct (eqb k k0) eqn:E.
      + apply eqb_spec in E. subst k0. cbn [map fst In]. intuition.
      + cbn [map fst In]. rewrite IH. intuition.
  Qed.

  Lemma nodup_aset : forall (m : list (K * V)) k v,
    NoDup (map fst m) -> NoDup (map fst (aset eqb k v m)).
  Proof.
    induction m as [|[k0 v0] r IH]; intros k v H.
    - cbn. constructor; [tauto|constructor].
    - cbn [aset]. cbn [map fst] in H. inversion H as [|? ? Hn Hr]; subst.
      destruct (eqb k k0) eqn:E.
      + apply eqb_spec in E. subst k0. cbn [map fst]. constructor; assumption.
      + cbn [map fst]. constructor.
        * rewrite keys_aset. apply eqb_false in E. intros [H1|H1]; [congruence|contradiction].
        * apply IH. exact Hr.
  Qed.

  Lemma keys_adel : forall (m : list (K * V)) k x,
    In x (map fst (adel eqb k m)) -> In x (map fst m).
  Proof.
    induction m as [|[k0 v0] r IH]; intros k x H.
    - exact H.
    - cbn [adel] in H. destruct (eqb k k0).
      + right. exact (IH _ _ H).
      + cbn [map fst In] in *. destruct H as [H|H]; [left; exact H|right; exact (IH _ _ H)].
  Qed.

  Lemma nodup_adel : forall (m : list (K * V)) k,
    NoDup (map fst m) -> NoDup (map fst (adel eqb k m)).
  Proof.
    induction m as [|[k0 v0] r IH]; intros k H.
    - exact H.
    - cbn [adel]. cbn [map fst] in H. inversion H as [|? ? Hn Hr]; subst.
      destruct (eqb k k0).
      + apply IH. exact Hr.
      + cbn [map fst]. constructor; [|apply IH; exact Hr].
        intros H1. apply Hn. exact (keys_adel _ _ _ H1).
  Qed.

  Lemma adel_notin : forall (m : list (K * V)) k, ~ In k (map fst m) -> adel eqb k m = m.
  Proof.
    induction m as [|[k0 v0] r IH]; intros k H; [reflexivity|].
    cbn [adel]. cbn [map fst In] in H. destruct (eqb k k0) eqn:E.
    - apply eqb_spec in E. subst. tauto.
    - f_equal. apply IH. tauto.
  Qed.

  Lemma Forall_aset : forall (P : K * V -> Prop) (m : list (K * V)) k v,
    Forall P m -> P (k, v) -> Forall P (aset eqb k v m).
  Proof.
    induction m as [|[k0 v0] r IH]; intros k v H Hp.
    - cbn. constructor; [exact Hp|constructor].
    - cbn [aset]. inversion H; subst. destruct (eqb k k0); constructor; auto.
  Qed.

  Lemma Forall_adel : forall (P : K * V -> Prop) (m : list (K * V)) k,
    Forall P m -> Forall P (adel eqb k m).
  Proof.
    induction m as [|[k0 v0] r IH]; intros k H.
    - constructor.
    - cbn [adel]. inversion H; subst. destruct (eqb k k0); [auto|constructor; auto].
  Qed.
End AListLemmas.

Lemma addr_eqb_spec : forall a b : addr, addr_eqb a b = true <-> a = b.
Proof.
  intros [a1 a2] [b1 b2]. unfold addr_eqb. cbn [fst snd]. split.
  - intros H. apply andb_true_iff in H as [H1 H2]. apply Z.eqb_eq in H1, H2. congruence.
  - intros H. injection H as -> ->. rewrite !Z.eqb_refl. reflexivity.
Qed.
Lemma zeqb_spec : forall a b : Z, Z.eqb a b = true <-> a = b.
Proof. exact Z.eqb_eq. Qed.

Lemma addr_eqb_refl : forall a, addr_eqb a a = true.
Proof. intros a. apply addr_eqb_spec. reflexivity. Qed.
Lemma addr_eqb_neq : forall a b, addr_eqb a b = false <-> a <> b.
Proof. exact (eqb_false addr_eqb addr_eqb_spec). Qed.

(* ------------------------------------------------------------------ *)
(* count_ip *)
Lemma count_ip_cons : forall ip a c r,
  count_ip ip ((a, c) :: r) = (if fst a =? ip then 1 else 0) + count_ip ip r.
Proof.
  intros. unfold count_ip. cbn [filter]. cbn beta. cbn [fst].
  destruct (fst a =? ip); cbn [Datatypes.length]; lia.
Qed.
Lemma count_ip_nonneg : forall ip m, 0 <= count_ip ip m.
Proof. intros. unfold count_ip. lia. Qed.

Lemma count_ip_aset : forall m a c ip,
  count_ip ip (aset addr_eqb a c m) =
  count_ip ip m + match aget addr_eqb a m with Some _ => 0 | None => if fst a =? ip then 1 else 0 end.
Proof.
  induction m as [|[a0 c0] r IH]; intros a c ip.
  - cbn [aset aget]. rewrite count_ip_cons. unfold count_ip. cbn. lia.
  - cbn [aset aget]. destruct (addr_eqb a a0) eqn:E.
    + apply addr_eqb_spec in E. subst a0. rewrite !count_ip_cons. lia.
    + rewrite !count_ip_cons, IH. lia.
Qed.

Lemma count_ip_adel : forall m a c ip,
  NoDup (map fst m) -> aget addr_eqb a m = Some c ->
  count_ip ip (adel addr_eqb a m) = count_ip ip m - (if fst a =? ip then 1 else 0).
Proof.
  induction m as [|[a0 c0] r IH]; intros a c ip Hnd H; cbn [aget] in H; [discriminate|].
  cbn [map fst] in Hnd. inversion Hnd as [|? ? Hn Hr]; subst.
  cbn [adel]. destruct (addr_eqb a a0) eqn:E.
  - apply addr_eqb_spec in E. subst a0. rewrite (adel_notin addr_eqb addr_eqb_spec _ _ Hn).
    rewrite count_ip_cons. lia.
  - rewrite !count_ip_cons. rewrite (IH a c ip Hr H). lia.
Qed.

Lemma count_ip_pos : forall m a c, aget addr_eqb a m = Some c -> 1 <= count_ip (fst a) m.
Proof.
  induction m as [|[a0 c0] r IH]; intros a c H; cbn [aget] in H; [discriminate|].
  rewrite count_ip_cons. destruct (addr_eqb a a0) eqn:E.
  - apply addr_eqb_spec in E. subst a0. rewrite Z.eqb_refl. pose proof (count_ip_nonneg (fst a) r). lia.
  - specialize (IH a c H). destruct (fst a0 =? fst a); lia.
Qed.

(* ------------------------------------------------------------------ *)
(* remove_first *)
Lemma remove_first_In : forall l a x, NoDup l -> (In x (remove_first a l) <-> In x l /\ x <> a).
Proof.
  induction l as [|y r IH]; intros a x Hnd; cbn [remove_first In].
  - tauto.
  - inversion Hnd as [|? ? Hn Hr]; subst. destruct (addr_eqb y a) eqn:E.
    + apply addr_eqb_spec in E. subst y. split.
      * intros H. split; [right; exact H|]. intros ->. contradiction.
      * intros [[H|H] H1]; [congruence|exact H].
    + apply addr_eqb_neq in E. cbn [In]. rewrite (IH a x Hr). split.
      * intros [H|[H H1]]; [subst; split; [left; reflexivity|exact E]|split; [right; exact H|exact H1]].
      * intros [[H|H] H1]; [left; exact H|right; split; assumption].
Qed.
Lemma remove_first_NoDup : forall l a, NoDup l -> NoDup (remove_first a l).
Proof.
  induction l as [|y r IH]; intros a Hnd; cbn [remove_first]; [constructor|].
  inversion Hnd as [|? ? Hn Hr]; subst. destruct (addr_eqb y a); [exact Hr|].
  constructor; [|apply IH; exact Hr].
  intros H. apply (remove_first_In r a y Hr) in H. tauto.
Qed.

(* ------------------------------------------------------------------ *)
(* observations of a connection slot *)
Definition olisten (a : addr) (oc : option conn) : option addr :=
  match oc with Some c => listen_key a c | None => None end.
Definition ogid (oc : option conn) : option Z :=
  match oc with
  | Some c => match c_state c with SPending => None | _ => Some (c_gid c) end
  | None => None
  end.
Definition omir (oc : option conn) : option (Z * Z) :=
  match oc with
  | Some c => match c_state c with SIntroduced => Some (c_mirror c, c_lport c) | _ => None end
  | None => None
  end.
Definition conn_at (s : st) (a : addr) : option conn := aget addr_eqb a (conns s).

Definition gid_ok (oc : option conn) : Prop :=
  match oc with
  | Some c => match c_state c with SPending => c_gid c = 0 | _ => c_gid c <> 0 end
  | None => True
  end.
Definition inc_ok (oc : option conn) : Prop :=
  match oc with
  | Some c => c_out c = false -> c_state c <> SIntroduced -> c_lport c = 0
  | None => True
  end.

Record inv (s : st) : Prop := mkInv {
  i_nodup : NoDup (map fst (conns s));
  i_ipc : forall ip, getz ip (ipc s) = count_ip ip (conns s);
  i_mir : forall m ip p, mirror_lookup s m ip = Some p <-> exists port, omir (conn_at s (ip, port)) = Some (m, p);
  i_mir_ne : Forall (fun e : Z * list (Z * Z) => snd e <> []) (mirrors s);
  i_uniq : forall ip p1 p2 m l1 l2,
    omir (conn_at s (ip, p1)) = Some (m, l1) -> omir (conn_at s (ip, p2)) = Some (m, l2) -> p1 = p2;
  i_gid : forall id a, aget Z.eqb id (gids s) = Some a <-> ogid (conn_at s a) = Some id;
  i_gid0 : forall a, gid_ok (conn_at s a);
  i_la : forall k a, In a (getl k (laddrs s)) <-> olisten a (conn_at s a) = Some k;
  i_la_nd : forall k, NoDup (getl k (laddrs s));
  i_la_ne : Forall (fun e : addr * list addr => snd e <> []) (laddrs s);
  i_inc : forall a, inc_ok (conn_at s a) }.

Lemma inv_init : inv init.
Proof.
  constructor.
  - constructor.
  - intros ip. reflexivity.
  - intros m ip p. unfold mirror_lookup, conn_at. cbn. split; [discriminate|]. intros [port H]. discriminate.
  - constructor.
  - intros ip p1 p2 m l1 l2 H. unfold conn_at in H. cbn in H. discriminate.
  - intros id a. unfold conn_at. cbn. split; discriminate.
  - intros a. exact I.
  - intros k a. unfold conn_at. cbn. split; [tauto|discriminate].
  - intros k. constructor.
  - constructor.
  - intros a. exact I.
Qed.

(* ------------------------------------------------------------------ *)
(* helpers about the derived maps *)
Lemma getz_aset : forall m k v k', getz k' (aset Z.eqb k v m) = if k' =? k then v else getz k' m.
Proof. intros. unfold getz. rewrite (aget_aset Z.eqb zeqb_spec). destruct (k' =? k); reflexivity. Qed.

Lemma getl_aset : forall m k v k', getl k' (aset addr_eqb k v m) = if addr_eqb k' k then v else getl k' m.
Proof. intros. unfold getl. rewrite (aget_aset addr_eqb addr_eqb_spec). destruct (addr_eqb k' k); reflexivity. Qed.
Lemma getl_adel : forall m k k', getl k' (adel addr_eqb k m) = if addr_eqb k' k then [] else getl k' m.
Proof. intros. unfold getl. rewrite (aget_adel addr_eqb addr_eqb_spec). destruct (addr_eqb k' k); reflexivity. Qed.

Lemma getl_laddrs_add : forall m k a k',
  getl k' (laddrs_add (Some k) a m) = if addr_eqb k' k then getl k m ++ [a] else getl k' m.
Proof. intros. unfold laddrs_add. apply getl_aset. Qed.

Lemma getl_laddrs_del : forall m k a k',
  getl k' (laddrs_del (Some k) a m) = if addr_eqb k' k then remove_first a (getl k m) else getl k' m.
Proof.
  intros. unfold laddrs_del. destruct (remove_first a (getl k m)) eqn:E.
  - rewrite getl_adel. reflexivity.
  - rewrite getl_aset. reflexivity.
Qed.

Lemma laddrs_add_ne : forall m k a,
  Forall (fun e : addr * list addr => snd e <> []) m ->
  Forall (fun e : addr * list addr => snd e <> []) (laddrs_add k a m).
Proof.
  intros m [k|] a H; cbn [laddrs_add]; [|exact H].
  apply Forall_aset; [exact H|]. cbn [snd]. destruct (getl k m); discriminate.
Qed.
Lemma laddrs_del_ne : forall m k a,
  Forall (fun e : addr * list addr => snd e <> []) m ->
  Forall (fun e : addr * list addr => snd e <> []) (laddrs_del k a m).
Proof.
  intros m [k|] a H; cbn [laddrs_del]; [|exact H].
  destruct (remove_first a (getl k m)) eqn:E.
  - apply Forall_adel. exact H.
  - apply Forall_aset; [exact H|]. cbn [snd]. discriminate.
Qed.

Lemma conn_at_aset : forall s a c a' x y z w,
  conn_at (mkSt (aset addr_eqb a c (conns s)) x y z w) a' = if addr_eqb a' a then Some c else conn_at s a'.
Proof. intros. unfold conn_at. cbn [conns]. apply (aget_aset addr_eqb addr_eqb_spec). Qed.
Lemma conn_at_adel : forall s a a' x y z w,
  conn_at (mkSt (adel addr_eqb a (conns s)) x y z w) a' = if addr_eqb a' a then None else conn_at s a'.
Proof. intros. unfold conn_at. cbn [conns]. apply (aget_adel addr_eqb addr_eqb_spec). Qed.

Lemma mirror_lookup_mk : forall c ms i g l m ip,
  mirror_lookup (mkSt c ms i g l) m ip =
  match aget Z.eqb m ms with Some x => aget Z.eqb ip x | None => None end.
Proof. reflexivity. Qed.

(* lookup after updateMirror *)
Lemma lookup_update_mirror : forall ms ip m port ms' m' ip',
  update_mirror ms ip m port = Val ms' ->
  match aget Z.eqb m' ms' with Some x => aget Z.eqb ip' x | None => None end =
  if (m' =? m) && (ip' =? ip) then Some port
  else match aget Z.eqb m' ms with Some x => aget Z.eqb ip' x | None => None end.
Proof.
  intros ms ip m port ms' m' ip' H. unfold update_mirror in H.
  destruct (aget Z.eqb ip match aget Z.eqb m ms with Some x => x | None => [] end) eqn:E; [discriminate|].
  injection H as <-. rewrite (aget_aset Z.eqb zeqb_spec).
  destruct (m' =? m) eqn:Em.
  - apply Z.eqb_eq in Em. subst m'. rewrite (aget_aset Z.eqb zeqb_spec). cbn [andb].
    destruct (ip' =? ip); [reflexivity|]. destruct (aget Z.eqb m ms); reflexivity.
  - reflexivity.
Qed.

Lemma update_mirror_ne : forall ms ip m port ms',
  Forall (fun e : Z * list (Z * Z) => snd e <> []) ms ->
  update_mirror ms ip m port = Val ms' ->
  Forall (fun e : Z * list (Z * Z) => snd e <> []) ms'.
Proof.
  intros ms ip m port ms' H Hu. unfold update_mirror in Hu.
  destruct (aget Z.eqb ip match aget Z.eqb m ms with Some x => x | None => [] end); [discriminate|].
  injection Hu as <-. apply Forall_aset; [exact H|]. cbn [snd].
  destruct (match aget Z.eqb m ms with Some x => x | None => [] end) as [|[k0 v0] r]; cbn [aset]; [discriminate|].
  destruct (ip =? k0); discriminate.
Qed.

(* lookup after the mirrors part of remove, for an introduced connection *)
Lemma lookup_mirrors_remove : forall ms ip c m' ip',
  introduced_b c = true ->
  match aget Z.eqb m' (mirrors_remove ms ip c) with Some x => aget Z.eqb ip' x | None => None end =
  if (m' =? c_mirror c) && (ip' =? ip) then None
  else match aget Z.eqb m' ms with Some x => aget Z.eqb ip' x | None => None end.
Proof.
  intros ms ip c m' ip' Hi. unfold mirrors_remove. rewrite Hi.
  destruct (aget Z.eqb (c_mirror c) ms) as [x|] eqn:E.
  - destruct (adel Z.eqb ip x) as [|e r] eqn:Ed.
    + rewrite (aget_adel Z.eqb zeqb_spec). destruct (m' =? c_mirror c) eqn:Em.
      * apply Z.eqb_eq in Em. subst m'. rewrite E. cbn [andb].
        destruct (ip' =? ip) eqn:Ei; [reflexivity|].
        assert (H : aget Z.eqb ip' (adel Z.eqb ip x) = aget Z.eqb ip' x).
        { rewrite (aget_adel Z.eqb zeqb_spec), Ei. reflexivity. }
        rewrite Ed in H. cbn [aget] in H. exact H.
      * reflexivity.
    + rewrite (aget_aset Z.eqb zeqb_spec). destruct (m' =? c_mirror c) eqn:Em.
      * apply Z.eqb_eq in Em. subst m'. rewrite E. cbn [andb]. rewrite <- Ed.
        rewrite (aget_adel Z.eqb zeqb_spec). destruct (ip' =? ip); reflexivity.
      * reflexivity.
  - destruct (m' =? c_mirror c) eqn:Em; [|reflexivity].
    apply Z.eqb_eq in Em. subst m'. rewrite E. destruct (ip' =? ip); reflexivity.
Qed.

Lemma mirrors_remove_ne : forall ms ip c,
  Forall (fun e : Z * list (Z * Z) => snd e <> []) ms ->
  Forall (fun e : Z * list (Z * Z) => snd e <> []) (mirrors_remove ms ip c).
Proof.
  intros ms ip c H. unfold mirrors_remove. destruct (introduced_b c); [|exact H].
  destruct (aget Z.eqb (c_mirror c) ms) as [x|]; [|exact H].
  destruct (adel Z.eqb ip x) eqn:Ed.
  - apply Forall_adel. exact H.
  - apply Forall_aset; [exact H|]. cbn [snd]. discriminate.
Qed.

Lemma introduced_b_true : forall c, introduced_b c = true <-> c_state c = SIntroduced.
Proof. intros c. unfold introduced_b. destruct (c_state c); cbn; split; congruence. Qed.

Lemma gid_used_false : forall s id a c, gid_used s id = false -> conn_at s a = Some c -> c_gid c <> id.
Proof.
  intros s id a c H Hc Heq. unfold gid_used in H.
  assert (Ht : existsb (fun p : addr * conn => c_gid (snd p) =? id) (conns s) = true).
  { apply existsb_exists. exists (a, c). split.
    - apply (aget_In addr_eqb addr_eqb_spec). exact Hc.
    - cbn [snd]. apply Z.eqb_eq. exact Heq. }
  congruence.
Qed.

(* ------------------------------------------------------------------ *)
(* preservation, one operation at a time *)
Lemma NoDup_snoc : forall (l : list addr) a, NoDup l -> ~ In a l -> NoDup (l ++ [a]).
Proof.
  induction l as [|x r IH]; intros a Hnd Hn; cbn [app].
  - constructor; [tauto|constructor].
  - inversion Hnd as [|? ? Hx Hr]; subst. constructor.
    + rewrite in_app_iff. cbn [In]. intros [H|[H|[]]]; [contradiction|]. subst. apply Hn. left. reflexivity.
    + apply IH; [exact Hr|]. intros H. apply Hn. right. exact H.
Qed.

Lemma pending_inv : forall s a s' e, inv s -> pending s a = Val (s', e) -> inv s'.
Proof.
  intros s a s' e I H. unfold pending in H.
  destruct (aget addr_eqb a (conns s)) as [c0|] eqn:Ea; [injection H as <- <-; exact I|].
  injection H as <- <-. destruct I as [Ind Iipc Imir Imne Iuniq Igid Igid0 Ila Ilnd Ilne Iinc].
  assert (Hat : conn_at s a = None) by exact Ea.
  constructor.
  - cbn [conns]. apply nodup_aset; [exact addr_eqb_spec|assumption].
  - intros ip. cbn [ipc conns]. rewrite getz_aset, count_ip_aset, Ea, !Iipc.
    destruct (ip =? fst a) eqn:E1; [apply Z.eqb_eq in E1; subst ip; rewrite Z.eqb_refl; lia|].
    destruct (fst a =? ip) eqn:E2; lia.
  - intros m ip p. rewrite mirror_lookup_mk.
    fold (mirror_lookup s m ip). rewrite Imir. split; intros [port Hp]; exists port.
    + rewrite conn_at_aset. destruct (addr_eqb (ip, port) a) eqn:E; [|exact Hp].
      apply addr_eqb_spec in E. subst a. rewrite Hat in Hp. discriminate.
    + rewrite conn_at_aset in Hp. destruct (addr_eqb (ip, port) a) eqn:E; [|exact Hp]. discriminate.
  - exact Imne.
  - intros ip p1 p2 m l1 l2 H1 H2. rewrite conn_at_aset in H1, H2.
    destruct (addr_eqb (ip, p1) a); [discriminate|]. destruct (addr_eqb (ip, p2) a); [discriminate|].
    eapply Iuniq; eassumption.
  - intros id x. cbn [gids]. rewrite Igid. rewrite conn_at_aset.
    destruct (addr_eqb x a) eqn:E; [|tauto]. apply addr_eqb_spec in E. subst x. rewrite Hat. cbn. tauto.
  - intros x. rewrite conn_at_aset. destruct (addr_eqb x a); [cbn; reflexivity|apply Igid0].
  - intros k x. cbn [laddrs]. rewrite conn_at_aset. unfold listen_key at 1. cbn [c_lport].
    destruct (snd a mod 65536 =? 0) eqn:E0.
    + cbn [laddrs_add]. rewrite Ila. destruct (addr_eqb x a) eqn:E; [|tauto].
      apply addr_eqb_spec in E. subst x. rewrite Hat. cbn [olisten]. unfold listen_key. cbn [c_lport]. rewrite E0. tauto.
    + rewrite getl_laddrs_add. destruct (addr_eqb x a) eqn:E.
      * apply addr_eqb_spec in E. subst x. cbn [olisten]. unfold listen_key. cbn [c_lport]. rewrite E0. cbn [fst].
        destruct (addr_eqb k (fst a, snd a mod 65536)) eqn:Ek.
        -- apply addr_eqb_spec in Ek. subst k. rewrite in_app_iff. cbn. tauto.
        -- apply addr_eqb_neq in Ek. rewrite Ila, Hat. cbn. split; [discriminate|]. intros Hk. congruence.
      * apply addr_eqb_neq in E. destruct (addr_eqb k (fst a, snd a mod 65536)) eqn:Ek.
        -- apply addr_eqb_spec in Ek. subst k. rewrite in_app_iff, Ila. cbn [In]. split; [intros [Hx|[Hx|[]]]; [exact Hx|]|tauto].
           congruence.
        -- apply Ila.
  - intros k. cbn [laddrs]. unfold listen_key. cbn [c_lport]. destruct (snd a mod 65536 =? 0) eqn:E0; [apply Ilnd|].
    rewrite getl_laddrs_add. destruct (addr_eqb k (fst a, snd a mod 65536)) eqn:Ek; [|apply Ilnd].
    apply NoDup_snoc; [apply Ilnd|]. rewrite Ila, Hat. discriminate.
  - cbn [laddrs]. apply laddrs_add_ne. exact Ilne.
  - intros x. rewrite conn_at_aset. destruct (addr_eqb x a); [cbn; discriminate|apply Iinc].
Qed.

(* a connection slot is (re)written without touching mirrors / listenAddrs:
   legal when the slot's mirror and listen observations do not change *)
Lemma slot_update_inv : forall s a c' ipc' gids',
  inv s ->
  omir (Some c') = omir (conn_at s a) ->
  olisten a (Some c') = olisten a (conn_at s a) ->
  inc_ok (Some c') -> gid_ok (Some c') ->
  ipc' = match conn_at s a with
         | Some _ => ipc s
         | None => aset Z.eqb (fst a) (getz (fst a) (ipc s) + 1) (ipc s) end ->
  (forall id x, aget Z.eqb id gids' = Some x <->
                ogid (if addr_eqb x a then Some c' else conn_at s x) = Some id) ->
  inv (mkSt (aset addr_eqb a c' (conns s)) (mirrors s) ipc' gids' (laddrs s)).
Proof.
  intros s a c' ipc' gids' I Hm Hl Hinc Hgok Hipc Hg.
  destruct I as [Ind Iipc Imir Imne Iuniq Igid Igid0 Ila Ilnd Ilne Iinc].
  assert (Hom : forall x, omir (conn_at (mkSt (aset addr_eqb a c' (conns s)) (mirrors s) ipc' gids' (laddrs s)) x) = omir (conn_at s x)).
  { intros x. rewrite conn_at_aset. destruct (addr_eqb x a) eqn:E; [|reflexivity].
    apply addr_eqb_spec in E. subst x. exact Hm. }
  constructor.
  - cbn [conns]. apply nodup_aset; [exact addr_eqb_spec|assumption].
  - intros ip. cbn [ipc conns]. rewrite count_ip_aset. subst ipc'. unfold conn_at.
    destruct (aget addr_eqb a (conns s)) eqn:Ea.
    + rewrite Iipc. lia.
    + rewrite getz_aset, !Iipc.
      destruct (ip =? fst a) eqn:E1; [apply Z.eqb_eq in E1; subst ip; rewrite Z.eqb_refl; lia|].
      destruct (fst a =? ip) eqn:E2; lia.
  - intros m ip p. rewrite mirror_lookup_mk. fold (mirror_lookup s m ip). rewrite Imir.
    split; intros [port Hp]; exists port; [rewrite Hom|rewrite Hom in Hp]; exact Hp.
  - exact Imne.
  - intros ip p1 p2 m l1 l2 H1 H2. rewrite Hom in H1, H2. eapply Iuniq; eassumption.
  - intros id x. cbn [gids]. rewrite Hg, conn_at_aset. tauto.
  - intros x. rewrite conn_at_aset. destruct (addr_eqb x a); [exact Hgok|apply Igid0].
  - intros k x. cbn [laddrs]. rewrite Ila, conn_at_aset. destruct (addr_eqb x a) eqn:E; [|tauto].
    apply addr_eqb_spec in E. subst x. rewrite Hl. tauto.
  - exact Ilnd.
  - exact Ilne.
  - intros x. rewrite conn_at_aset. destruct (addr_eqb x a); [exact Hinc|apply Iinc].
Qed.

Lemma connected_inv : forall s a id s' e,
  inv s -> fresh_b s (Connected a id) = true -> connected s a id = Val (s', e) -> inv s'.
Proof.
  intros s a id s' e I Hf H. unfold connected in H. cbn [fresh_b] in Hf.
  destruct (id =? 0) eqn:E0; [injection H as <- <-; exact I|]. cbn [orb] in Hf.
  apply negb_true_iff in Hf.
  assert (Hid : id <> 0) by lia.
  (* the gnetIDs map after gnetIDs[id] = a *)
  assert (Hg : forall c', c_state c' = SConnected -> c_gid c' = id -> ogid (conn_at s a) = None ->
     forall id' x, aget Z.eqb id' (aset Z.eqb id a (gids s)) = Some x <->
                   ogid (if addr_eqb x a then Some c' else conn_at s x) = Some id').
  { intros c' Hs Hgi Hno id' x. rewrite (aget_aset Z.eqb zeqb_spec).
    destruct I as [_ _ _ _ _ Igid _ _ _ _ _].
    destruct (id' =? id) eqn:Ei.
    - apply Z.eqb_eq in Ei. subst id'. destruct (addr_eqb x a) eqn:Ex.
      + apply addr_eqb_spec in Ex. subst x. cbn [ogid]. rewrite Hs, Hgi. tauto.
      + apply addr_eqb_neq in Ex. split; [intros Hx; congruence|].
        intros Hx. exfalso. unfold ogid in Hx. destruct (conn_at s x) as [c|] eqn:Ec; [|discriminate].
        pose proof (gid_used_false s id x c Hf Ec) as Hne.
        destruct (c_state c); [discriminate| |]; congruence.
    - rewrite Igid. destruct (addr_eqb x a) eqn:Ex; [|tauto].
      apply addr_eqb_spec in Ex. subst x. rewrite Hno. cbn [ogid]. rewrite Hs, Hgi.
      split; [discriminate|]. intros Hx. injection Hx as Hx. lia. }
  destruct (aget addr_eqb a (conns s)) as [c0|] eqn:Ea.
  - destruct (c_state c0) eqn:Es; try (injection H as <- <-; exact I).
    injection H as <- <-.
    assert (Hat : conn_at s a = Some c0) by exact Ea.
    apply slot_update_inv; try assumption.
    + rewrite Hat. cbn [omir c_state]. rewrite Es. reflexivity.
    + rewrite Hat. reflexivity.
    + pose proof (i_inc s I a) as Hi. rewrite Hat in Hi. cbn [inc_ok] in *. cbn [c_out c_state c_lport].
      intros Ho _. apply Hi; [exact Ho|]. congruence.
    + rewrite Hat. reflexivity.
    + apply Hg; [reflexivity|reflexivity|]. rewrite Hat. cbn [ogid]. rewrite Es. reflexivity.
  - injection H as <- <-.
    assert (Hat : conn_at s a = None) by exact Ea.
    apply slot_update_inv; try assumption.
    + rewrite Hat. reflexivity.
    + rewrite Hat. reflexivity.
    + cbn. reflexivity.
    + rewrite Hat. reflexivity.
    + apply Hg; [reflexivity|reflexivity|]. rewrite Hat. reflexivity.
Qed.

Lemma set_height_inv : forall s a id h s' e, inv s -> set_height s a id h = Val (s', e) -> inv s'.
Proof.
  intros s a id h s' e I H. unfold set_height in H.
  destruct (aget addr_eqb a (conns s)) as [c0|] eqn:Ea; [|injection H as <- <-; exact I].
  destruct (negb (c_gid c0 =? id)); injection H as <- <-; [exact I|].
  assert (Hat : conn_at s a = Some c0) by exact Ea.
  unfold set_conns. apply slot_update_inv; try assumption.
  - rewrite Hat. reflexivity.
  - rewrite Hat. reflexivity.
  - pose proof (i_inc s I a) as Hi. rewrite Hat in Hi. exact Hi.
  - pose proof (i_gid0 s I a) as Hi. rewrite Hat in Hi. exact Hi.
  - rewrite Hat. reflexivity.
  - intros id' x. rewrite (i_gid s I). destruct (addr_eqb x a) eqn:Ex; [|tauto].
    apply addr_eqb_spec in Ex. subst x. rewrite Hat. cbn [ogid c_state c_gid]. tauto.
Qed.

Lemma can_update_mirror_spec : forall s ip m,
  can_update_mirror s ip m = true <-> mirror_lookup s m ip = None.
Proof.
  intros s ip m. unfold can_update_mirror, mirror_lookup.
  destruct (aget Z.eqb m (mirrors s)) as [x|]; [|tauto].
  destruct (aget Z.eqb ip x); split; congruence.
Qed.

Lemma update_mirror_ok : forall s ip m port,
  mirror_lookup s m ip = None -> exists ms, update_mirror (mirrors s) ip m port = Val ms.
Proof.
  intros s ip m port H. unfold update_mirror, mirror_lookup in *.
  destruct (aget Z.eqb m (mirrors s)) as [x|].
  - rewrite H. eexists. reflexivity.
  - cbn [aget]. eexists. reflexivity.
Qed.

Lemma addr_eta : forall a : addr, (fst a, snd a) = a.
Proof. intros [x y]. reflexivity. Qed.

Lemma introduced_inv : forall s a id mirror lport s' e,
  inv s -> introduced s a id mirror lport = Val (s', e) -> inv s'.
Proof.
  intros s a id mirror lport s' e I H. unfold introduced in H.
  destruct (id =? 0) eqn:E0; [injection H as <- <-; exact I|].
  destruct (aget addr_eqb a (conns s)) as [c0|] eqn:Ea; [|injection H as <- <-; exact I].
  destruct (c_state c0) eqn:Es; try (injection H as <- <-; exact I).
  destruct (negb (id =? c_gid c0)) eqn:Eg; [injection H as <- <-; exact I|].
  destruct (negb (can_update_mirror s (fst a) mirror)) eqn:Ec; [injection H as <- <-; exact I|].
  apply negb_false_iff in Ec. apply can_update_mirror_spec in Ec.
  set (lp := if c_out c0 then c_lport c0 else lport) in *.
  destruct (update_mirror_ok s (fst a) mirror lp Ec) as [ms Hms]. rewrite Hms in H. cbn [bind] in H.
  injection H as <- <-.
  assert (Hlp : lp = if c_out c0 then c_lport c0 else lport) by reflexivity. clearbody lp.
  assert (Hat : conn_at s a = Some c0) by exact Ea.
  pose proof (i_inc s I a) as Hinc0. rewrite Hat in Hinc0. cbn [inc_ok] in Hinc0.
  pose proof (i_gid0 s I a) as Hgid0. rewrite Hat in Hgid0. cbn [gid_ok] in Hgid0. rewrite Es in Hgid0.
  destruct I as [Ind Iipc Imir Imne Iuniq Igid Igid0 Ila Ilnd Ilne Iinc].
  set (c' := mkConn SIntroduced (c_out c0) mirror lp (c_gid c0) (c_height c0)) in *.
  set (la' := if c_out c0 then laddrs s else laddrs_add (listen_key a c') a (laddrs s)).
  assert (Hlk : forall m ip, mirror_lookup (mkSt (aset addr_eqb a c' (conns s)) ms (ipc s) (gids s) la') m ip =
                 if (m =? mirror) && (ip =? fst a) then Some lp else mirror_lookup s m ip).
  { intros m ip. rewrite mirror_lookup_mk. exact (lookup_update_mirror _ _ _ _ _ m ip Hms). }
  assert (Hnot : forall port, omir (conn_at s (fst a, port)) <> Some (mirror, lp) /\
                              forall l, omir (conn_at s (fst a, port)) <> Some (mirror, l)).
  { intros port. assert (Hx : forall l, omir (conn_at s (fst a, port)) <> Some (mirror, l)).
    { intros l Hx. assert (Hl : mirror_lookup s mirror (fst a) = Some l) by (apply Imir; exists port; exact Hx).
      congruence. }
    split; [apply Hx|exact Hx]. }
  constructor.
  - cbn [conns]. apply nodup_aset; [exact addr_eqb_spec|assumption].
  - intros ip. cbn [ipc conns]. rewrite count_ip_aset, Ea, Iipc. lia.
  - intros m ip p. rewrite Hlk. split.
    + intros Hp. destruct ((m =? mirror) && (ip =? fst a)) eqn:Em.
      * apply andb_true_iff in Em as [Em1 Em2]. apply Z.eqb_eq in Em1, Em2. subst m ip.
        injection Hp as <-. exists (snd a). rewrite conn_at_aset, addr_eta, addr_eqb_refl. reflexivity.
      * apply Imir in Hp as [port Hp]. exists port. rewrite conn_at_aset.
        destruct (addr_eqb (ip, port) a) eqn:Ex; [|exact Hp].
        apply addr_eqb_spec in Ex. subst a. rewrite Hat in Hp. cbn [omir] in Hp. rewrite Es in Hp. discriminate.
    + intros [port Hp]. rewrite conn_at_aset in Hp. destruct (addr_eqb (ip, port) a) eqn:Ex.
      * apply addr_eqb_spec in Ex. subst a. cbn [omir c' c_state c_mirror c_lport] in Hp. injection Hp as <- <-.
        cbn [fst]. rewrite !Z.eqb_refl. reflexivity.
      * destruct ((m =? mirror) && (ip =? fst a)) eqn:Em.
        -- apply andb_true_iff in Em as [Em1 Em2]. apply Z.eqb_eq in Em1, Em2. subst m ip.
           exfalso. exact (proj2 (Hnot port) p Hp).
        -- apply Imir. exists port. exact Hp.
  - cbn [mirrors]. eapply update_mirror_ne; eassumption.
  - intros ip p1 p2 m l1 l2 H1 H2. rewrite conn_at_aset in H1, H2.
    destruct (addr_eqb (ip, p1) a) eqn:E1; destruct (addr_eqb (ip, p2) a) eqn:E2.
    + apply addr_eqb_spec in E1, E2. congruence.
    + apply addr_eqb_spec in E1. subst a. cbn [omir c' c_state c_mirror c_lport] in H1. injection H1 as <- <-.
      exfalso. exact (proj2 (Hnot p2) l2 H2).
    + apply addr_eqb_spec in E2. subst a. cbn [omir c' c_state c_mirror c_lport] in H2. injection H2 as <- <-.
      exfalso. exact (proj2 (Hnot p1) l1 H1).
    + eapply Iuniq; eassumption.
  - intros id' x. cbn [gids]. rewrite Igid, conn_at_aset. destruct (addr_eqb x a) eqn:Ex; [|tauto].
    apply addr_eqb_spec in Ex. subst x. rewrite Hat. cbn [ogid c' c_state c_gid]. rewrite Es. tauto.
  - intros x. rewrite conn_at_aset. destruct (addr_eqb x a); [|apply Igid0].
    cbn [gid_ok c' c_state c_gid]. exact Hgid0.
  - intros k x. cbn [laddrs]. rewrite conn_at_aset. subst la'. destruct (c_out c0) eqn:Eo.
    + rewrite Ila. destruct (addr_eqb x a) eqn:Ex; [|tauto].
      apply addr_eqb_spec in Ex. subst x. rewrite Hat. cbn [olisten]. unfold listen_key. cbn [c' c_lport].
      rewrite Hlp. tauto.
    + assert (Hl0 : c_lport c0 = 0) by (apply Hinc0; [reflexivity|congruence]).
      assert (Hno : olisten a (conn_at s a) = None).
      { rewrite Hat. cbn [olisten]. unfold listen_key. rewrite Hl0. reflexivity. }
      unfold listen_key at 1. cbn [c' c_lport]. destruct (lp =? 0) eqn:El.
      * cbn [laddrs_add]. rewrite Ila. destruct (addr_eqb x a) eqn:Ex; [|tauto].
        apply addr_eqb_spec in Ex. subst x. rewrite Hno. cbn [olisten]. unfold listen_key. unfold c'; cbn [c_lport]. rewrite El. tauto.
      * rewrite getl_laddrs_add. destruct (addr_eqb x a) eqn:Ex.
        -- apply addr_eqb_spec in Ex. subst x. cbn [olisten]. unfold listen_key. unfold c'; cbn [c_lport]. rewrite El.
           destruct (addr_eqb k (fst a, lp)) eqn:Ek.
           ++ apply addr_eqb_spec in Ek. subst k. rewrite in_app_iff. cbn. tauto.
           ++ apply addr_eqb_neq in Ek. rewrite Ila, Hno. split; [discriminate|]. intros Hk. congruence.
        -- apply addr_eqb_neq in Ex. destruct (addr_eqb k (fst a, lp)) eqn:Ek.
           ++ apply addr_eqb_spec in Ek. subst k. rewrite in_app_iff, Ila. cbn [In].
              split; [intros [Hx|[Hx|[]]]; [exact Hx|congruence]|tauto].
           ++ apply Ila.
  - intros k. cbn [laddrs]. subst la'. destruct (c_out c0) eqn:Eo; [apply Ilnd|].
    assert (Hl0 : c_lport c0 = 0) by (apply Hinc0; [reflexivity|congruence]).
    unfold listen_key. cbn [c' c_lport]. destruct (lp =? 0) eqn:El; [apply Ilnd|].
    rewrite getl_laddrs_add. destruct (addr_eqb k (fst a, lp)); [|apply Ilnd].
    apply NoDup_snoc; [apply Ilnd|]. rewrite Ila, Hat. cbn [olisten]. unfold listen_key. rewrite Hl0. discriminate.
  - cbn [laddrs]. subst la'. destruct (c_out c0); [exact Ilne|]. apply laddrs_add_ne. exact Ilne.
  - intros x. rewrite conn_at_aset. destruct (addr_eqb x a); [|apply Iinc].
    cbn [inc_ok c' c_state]. intros _ Hc. congruence.
Qed.

Lemma remove_inv : forall s a id s' e, inv s -> remove s a id = Val (s', e) -> inv s'.
Proof.
  intros s a id s' e I H. unfold remove in H.
  destruct (aget addr_eqb a (conns s)) as [c0|] eqn:Ea; [|injection H as <- <-; exact I].
  destruct (negb (c_gid c0 =? id)) eqn:Eg; [injection H as <- <-; exact I|injection H as <- <-].
  assert (Hat : conn_at s a = Some c0) by exact Ea.
  pose proof (i_gid0 s I a) as Hgid0. rewrite Hat in Hgid0. cbn [gid_ok] in Hgid0.
  destruct I as [Ind Iipc Imir Imne Iuniq Igid Igid0 Ila Ilnd Ilne Iinc].
  set (ms' := mirrors_remove (mirrors s) (fst a) c0).
  set (ipc' := if 0 <? getz (fst a) (ipc s) then aset Z.eqb (fst a) (getz (fst a) (ipc s) - 1) (ipc s) else ipc s).
  set (g' := adel Z.eqb (c_gid c0) (gids s)).
  set (la' := laddrs_del (listen_key a c0) a (laddrs s)).
  assert (Hlk : forall m ip, mirror_lookup (mkSt (adel addr_eqb a (conns s)) ms' ipc' g' la') m ip =
     if introduced_b c0 && (m =? c_mirror c0) && (ip =? fst a) then None else mirror_lookup s m ip).
  { intros m ip. rewrite mirror_lookup_mk. subst ms'. destruct (introduced_b c0) eqn:Ei.
    - rewrite (lookup_mirrors_remove _ _ _ m ip Ei). reflexivity.
    - unfold mirrors_remove. rewrite Ei. reflexivity. }
  constructor.
  - cbn [conns]. apply nodup_adel; assumption.
  - intros ip. cbn [ipc conns]. rewrite (count_ip_adel _ _ c0 ip Ind Ea). subst ipc'.
    pose proof (count_ip_pos _ _ _ Ea) as Hpos. rewrite <- Iipc in Hpos.
    destruct (0 <? getz (fst a) (ipc s)) eqn:En; [|lia].
    rewrite getz_aset, !Iipc.
    destruct (ip =? fst a) eqn:E1; [apply Z.eqb_eq in E1; subst ip; rewrite Z.eqb_refl; lia|].
    destruct (fst a =? ip) eqn:E2; lia.
  - intros m ip p. rewrite Hlk. split.
    + intros Hp. destruct (introduced_b c0 && (m =? c_mirror c0) && (ip =? fst a)) eqn:Em; [discriminate|].
      apply Imir in Hp as [port Hp]. exists port. rewrite conn_at_adel.
      destruct (addr_eqb (ip, port) a) eqn:Ex; [|exact Hp].
      apply addr_eqb_spec in Ex. subst a. rewrite Hat in Hp. cbn [omir] in Hp.
      destruct (c_state c0) eqn:Es; try discriminate. injection Hp as <- <-.
      unfold introduced_b in Em. rewrite Es in Em. cbn [cstate_eqb fst andb] in Em. rewrite !Z.eqb_refl in Em. discriminate.
    + intros [port Hp]. rewrite conn_at_adel in Hp. destruct (addr_eqb (ip, port) a) eqn:Ex; [discriminate|].
      apply addr_eqb_neq in Ex.
      destruct (introduced_b c0 && (m =? c_mirror c0) && (ip =? fst a)) eqn:Em.
      * exfalso. apply andb_true_iff in Em as [Em Em3]. apply andb_true_iff in Em as [Em1 Em2].
        apply Z.eqb_eq in Em2, Em3. subst m ip. apply introduced_b_true in Em1.
        apply Ex. rewrite <- (addr_eta a). f_equal.
        apply (Iuniq (fst a) port (snd a) (c_mirror c0) p (c_lport c0) Hp).
        rewrite addr_eta, Hat. cbn [omir]. rewrite Em1. reflexivity.
      * apply Imir. exists port. exact Hp.
  - cbn [mirrors]. apply mirrors_remove_ne. exact Imne.
  - intros ip p1 p2 m l1 l2 H1 H2. rewrite conn_at_adel in H1, H2.
    destruct (addr_eqb (ip, p1) a); [discriminate|]. destruct (addr_eqb (ip, p2) a); [discriminate|].
    eapply Iuniq; eassumption.
  - intros id' x. cbn [gids]. subst g'. rewrite (aget_adel Z.eqb zeqb_spec), conn_at_adel.
    destruct (id' =? c_gid c0) eqn:Ei.
    + apply Z.eqb_eq in Ei. subst id'. split; [discriminate|].
      destruct (addr_eqb x a) eqn:Ex; [discriminate|]. apply addr_eqb_neq in Ex. intros Hx. exfalso.
      destruct (c_state c0) eqn:Es.
      * rewrite Hgid0 in Hx. pose proof (Igid0 x) as Hx0. unfold ogid in Hx. unfold gid_ok in Hx0.
        destruct (conn_at s x) as [c|]; [|discriminate]. destruct (c_state c); [discriminate| |]; congruence.
      * apply Igid in Hx. assert (Ha : aget Z.eqb (c_gid c0) (gids s) = Some a).
        { apply Igid. rewrite Hat. cbn [ogid]. rewrite Es. reflexivity. } congruence.
      * apply Igid in Hx. assert (Ha : aget Z.eqb (c_gid c0) (gids s) = Some a).
        { apply Igid. rewrite Hat. cbn [ogid]. rewrite Es. reflexivity. } congruence.
    + rewrite Igid. destruct (addr_eqb x a) eqn:Ex; [|tauto].
      apply addr_eqb_spec in Ex. subst x. rewrite Hat. cbn [ogid]. split; [|discriminate].
      destruct (c_state c0); [discriminate| |]; intros Hx; injection Hx as Hx; lia.
  - intros x. rewrite conn_at_adel. destruct (addr_eqb x a); [exact I|apply Igid0].
  - intros k x. cbn [laddrs]. subst la'. rewrite conn_at_adel.
    destruct (listen_key a c0) as [k0|] eqn:Ek0.
    + rewrite getl_laddrs_del. destruct (addr_eqb k k0) eqn:Ek.
      * apply addr_eqb_spec in Ek. subst k0. rewrite (remove_first_In _ a x (Ilnd k)), Ila.
        destruct (addr_eqb x a) eqn:Ex.
        -- apply addr_eqb_spec in Ex. subst x. cbn [olisten]. split; [tauto|discriminate].
        -- apply addr_eqb_neq in Ex. tauto.
      * apply addr_eqb_neq in Ek. rewrite Ila. destruct (addr_eqb x a) eqn:Ex; [|tauto].
        apply addr_eqb_spec in Ex. subst x. rewrite Hat. cbn [olisten]. rewrite Ek0.
        split; [intros Hx; congruence|discriminate].
    + cbn [laddrs_del]. rewrite Ila. destruct (addr_eqb x a) eqn:Ex; [|tauto].
      apply addr_eqb_spec in Ex. subst x. rewrite Hat. cbn [olisten]. rewrite Ek0. tauto.
  - intros k. cbn [laddrs]. subst la'. destruct (listen_key a c0) as [k0|]; [|apply Ilnd].
    rewrite getl_laddrs_del. destruct (addr_eqb k k0); [|apply Ilnd].
    apply remove_first_NoDup. apply Ilnd.
  - cbn [laddrs]. apply laddrs_del_ne. exact Ilne.
  - intros x. rewrite conn_at_adel. destruct (addr_eqb x a); [exact I|apply Iinc].
Qed.

Lemma step_inv : forall s o s' e, inv s -> fresh_b s o = true -> step s o = Val (s', e) -> inv s'.
Proof.
  intros s o s' e I Hf H. destruct o; cbn [step] in H.
  - eapply pending_inv; eassumption.
  - eapply connected_inv; eassumption.
  - eapply introduced_inv; eassumption.
  - eapply remove_inv; eassumption.
  - eapply set_height_inv; eassumption.
Qed.

Lemma step_no_panic : forall s o, step s o <> Panic.
Proof.
  intros s o. destruct o; cbn [step].
  - unfold pending. destruct (aget addr_eqb a (conns s)); discriminate.
  - unfold connected. destruct (id =? 0); [discriminate|].
    destruct (aget addr_eqb a (conns s)) as [c|]; [destruct (c_state c)|]; discriminate.
  - unfold introduced. destruct (id =? 0); [discriminate|].
    destruct (aget addr_eqb a (conns s)) as [c|]; [|discriminate].
    destruct (c_state c); try discriminate.
    destruct (negb (id =? c_gid c)); [discriminate|].
    destruct (negb (can_update_mirror s (fst a) mirror)) eqn:Ec; [discriminate|].
    apply negb_false_iff in Ec. apply can_update_mirror_spec in Ec.
    destruct (update_mirror_ok s (fst a) mirror (if c_out c then c_lport c else lport) Ec) as [ms Hms].
    rewrite Hms. cbn [bind]. discriminate.
  - unfold remove. destruct (aget addr_eqb a (conns s)) as [c|]; [|discriminate].
    destruct (negb (c_gid c =? id)); discriminate.
  - unfold set_height. destruct (aget addr_eqb a (conns s)) as [c|]; [|discriminate].
    destruct (negb (c_gid c =? id)); discriminate.
Qed.

Lemma run_total : forall ops s, exists s', run s ops = Val s'.
Proof.
  induction ops as [|o r IH]; intros s; cbn [run].
  - eexists. reflexivity.
  - destruct (step s o) as [|[s1 e]] eqn:E; [exfalso; exact (step_no_panic s o E)|].
    cbn [bind fst]. apply IH.
Qed.

Lemma run_inv : forall ops s s', inv s -> fresh_run_b s ops = true -> run s ops = Val s' -> inv s'.
Proof.
  induction ops as [|o r IH]; intros s s' I Hf H; cbn [run fresh_run_b] in *.
  - injection H as <-. exact I.
  - apply andb_true_iff in Hf as [Hf1 Hf2].
    destruct (step s o) as [|[s1 e]] eqn:E; [discriminate|]. cbn [bind fst] in *.
    eapply IH; [|exact Hf2|exact H]. eapply step_inv; eassumption.
Qed.

Lemma reach_inv : forall ops s, fresh_run_b init ops = true -> run init ops = Val s -> inv s.
Proof. intros ops s Hf H. eapply run_inv; [exact inv_init|exact Hf|exact H]. Qed.


(* ---- readable forms of the invariant *)

Lemma inv_describes : forall s, inv s -> describes_live s.
Proof.
  intros s [Ind Iipc Imir Imne Iuniq Igid Igid0 Ila Ilnd Ilne Iinc]. unfold describes_live, live.
  repeat split; try assumption.
  - intros Hp. apply Imir in Hp as [port Hp]. exists port. unfold conn_at, omir in Hp.
    destruct (aget addr_eqb (ip, port) (conns s)) as [c|]; [|discriminate]. exists c.
    destruct (c_state c) eqn:Es; try discriminate. injection Hp as <- <-. tauto.
  - intros [port [c [Hc [Hs [Hm Hp]]]]]. apply Imir. exists port. unfold conn_at. rewrite Hc. cbn [omir].
    rewrite Hs, Hm, Hp. reflexivity.
  - intros Hg. apply Igid in Hg. unfold conn_at, ogid in Hg.
    destruct (aget addr_eqb a (conns s)) as [c|]; [|discriminate]. exists c.
    destruct (c_state c) eqn:Es; try discriminate; injection Hg as <-; repeat split; congruence.
  - intros [c [Hc [Hs Hg]]]. apply Igid. unfold conn_at. rewrite Hc. cbn [ogid].
    destruct (c_state c); [congruence| |]; congruence.
  - intros Hl. apply Ila in Hl. unfold conn_at, olisten in Hl.
    destruct (aget addr_eqb a (conns s)) as [c|]; [|discriminate]. exists c. tauto.
  - intros [c [Hc Hl]]. apply Ila. unfold conn_at. rewrite Hc. exact Hl.
Qed.

Lemma maps_describe_live : forall ops s,
  run init ops = Val s -> fresh_run_b init ops = true -> describes_live s.
Proof. intros ops s H Hf. apply inv_describes. eapply reach_inv; eassumption. Qed.

Lemma mirror_unique : forall ops s a1 a2 c1 c2,
  run init ops = Val s -> fresh_run_b init ops = true ->
  live s a1 c1 -> live s a2 c2 ->
  c_state c1 = SIntroduced -> c_state c2 = SIntroduced ->
  fst a1 = fst a2 -> c_mirror c1 = c_mirror c2 -> a1 = a2.
Proof.
  intros ops s [ip p1] [ip2 p2] c1 c2 H Hf H1 H2 Hs1 Hs2 Hip Hm. cbn [fst] in Hip. subst ip2.
  f_equal. pose proof (reach_inv ops s Hf H) as I.
  apply (i_uniq s I ip p1 p2 (c_mirror c1) (c_lport c1) (c_lport c2)); unfold conn_at.
  - unfold live in H1. rewrite H1. cbn [omir]. rewrite Hs1. reflexivity.
  - unfold live in H2. rewrite H2. cbn [omir]. rewrite Hs2, Hm. reflexivity.
Qed.

(* a connection is introduced after a step only if it was already, or the step
   is `introduced` on that connection in the connected state with its gnet id *)
Lemma introduced_only_from_connected : forall s o s' e a c',
  step s o = Val (s', e) -> live s' a c' -> c_state c' = SIntroduced ->
  (exists c, live s a c /\ c_state c = SIntroduced /\ c_gid c = c_gid c') \/
  (exists id m p c, o = Introduced a id m p /\ e = OK /\ live s a c /\
                    c_state c = SConnected /\ c_gid c = id /\ c_gid c' = id).
Proof.
  intros s o s' e a c' H Hl Hs. unfold live in *.
  assert (Hsame : s' = s -> (exists c, aget addr_eqb a (conns s) = Some c /\ c_state c = SIntroduced /\ c_gid c = c_gid c') \/ 
     (exists id m p c, o = Introduced a id m p /\ e = OK /\ aget addr_eqb a (conns s) = Some c /\
                    c_state c = SConnected /\ c_gid c = id /\ c_gid c' = id)).
  { intros ->. left. exists c'. tauto. }
  destruct o as [b|b id|b id m p|b id|b id h]; cbn [step] in H.
  - unfold pending in H. destruct (aget addr_eqb b (conns s)) eqn:Eb; injection H as <- <-; [apply Hsame; reflexivity|].
    cbn [conns] in Hl. rewrite (aget_aset addr_eqb addr_eqb_spec) in Hl.
    destruct (addr_eqb a b); [injection Hl as <-; discriminate|]. left. exists c'. tauto.
  - unfold connected in H. destruct (id =? 0); [injection H as <- <-; apply Hsame; reflexivity|].
    destruct (aget addr_eqb b (conns s)) as [c|] eqn:Eb.
    + destruct (c_state c); injection H as <- <-; try (apply Hsame; reflexivity).
      cbn [conns] in Hl. rewrite (aget_aset addr_eqb addr_eqb_spec) in Hl.
      destruct (addr_eqb a b); [injection Hl as <-; discriminate|]. left. exists c'. tauto.
    + injection H as <- <-. cbn [conns] in Hl. rewrite (aget_aset addr_eqb addr_eqb_spec) in Hl.
      destruct (addr_eqb a b); [injection Hl as <-; discriminate|]. left. exists c'. tauto.
  - unfold introduced in H. destruct (id =? 0); [injection H as <- <-; apply Hsame; reflexivity|].
    destruct (aget addr_eqb b (conns s)) as [c|] eqn:Eb; [|injection H as <- <-; apply Hsame; reflexivity].
    destruct (c_state c) eqn:Esc; try (injection H as <- <-; apply Hsame; reflexivity).
    destruct (negb (id =? c_gid c)) eqn:Eg; [injection H as <- <-; apply Hsame; reflexivity|].
    destruct (negb (can_update_mirror s (fst b) m)); [injection H as <- <-; apply Hsame; reflexivity|].
    destruct (update_mirror (mirrors s) (fst b) m (if c_out c then c_lport c else p)); [discriminate|].
    cbn [bind] in H. injection H as <- <-. cbn [conns] in Hl. rewrite (aget_aset addr_eqb addr_eqb_spec) in Hl.
    destruct (addr_eqb a b) eqn:Eab.
    + apply addr_eqb_spec in Eab. subst b. injection Hl as <-. right. exists id, m, p, c.
      cbn [c_gid]. repeat split; try assumption; lia.
    + left. exists c'. tauto.
  - unfold remove in H. destruct (aget addr_eqb b (conns s)) as [c|] eqn:Eb; [|injection H as <- <-; apply Hsame; reflexivity].
    destruct (negb (c_gid c =? id)); injection H as <- <-; [apply Hsame; reflexivity|].
    cbn [conns] in Hl. rewrite (aget_adel addr_eqb addr_eqb_spec) in Hl.
    destruct (addr_eqb a b); [discriminate|]. left. exists c'. tauto.
  - unfold set_height in H. destruct (aget addr_eqb b (conns s)) as [c|] eqn:Eb; [|injection H as <- <-; apply Hsame; reflexivity].
    destruct (negb (c_gid c =? id)); injection H as <- <-; [apply Hsame; reflexivity|].
    cbn [set_conns conns] in Hl. rewrite (aget_aset addr_eqb addr_eqb_spec) in Hl.
    destruct (addr_eqb a b) eqn:Eab; [|left; exists c'; tauto].
    apply addr_eqb_spec in Eab. subst b. injection Hl as <-. cbn [c_state c_gid] in *. left. exists c. tauto.
Qed.

(* ---- removing every connection *)

Lemma inv_empty : forall s, inv s -> conns s = [] -> observably_empty s.
Proof.
  intros s [Ind Iipc Imir Imne Iuniq Igid Igid0 Ila Ilnd Ilne Iinc] Hc. unfold observably_empty.
  assert (Hat : forall a, conn_at s a = None) by (intros a; unfold conn_at; rewrite Hc; reflexivity).
  repeat split.
  - exact Hc.
  - destruct (mirrors s) as [|[m x] r] eqn:Em; [reflexivity|]. exfalso.
    inversion Imne as [|? ? Hx _]; subst. cbn [snd] in Hx. destruct x as [|[ip p] x']; [congruence|].
    assert (Hl : mirror_lookup s m ip = Some p).
    { unfold mirror_lookup. rewrite Em. rewrite (aget_head Z.eqb zeqb_spec). apply (aget_head Z.eqb zeqb_spec). }
    apply Imir in Hl as [port Hl]. rewrite Hat in Hl. discriminate.
  - destruct (gids s) as [|[id a] r] eqn:Eg; [reflexivity|]. exfalso.
    assert (Hl : aget Z.eqb id ((id, a) :: r) = Some a) by apply (aget_head Z.eqb zeqb_spec).
    apply Igid in Hl. rewrite Hat in Hl. discriminate.
  - destruct (laddrs s) as [|[k l] r] eqn:El; [reflexivity|]. exfalso.
    inversion Ilne as [|? ? Hx _]; subst. cbn [snd] in Hx. destruct l as [|a l']; [congruence|].
    assert (Hl : In a (getl k ((k, a :: l') :: r))).
    { unfold getl. rewrite (aget_head addr_eqb addr_eqb_spec). left. reflexivity. }
    apply Ila in Hl. rewrite Hat in Hl. discriminate.
  - intros ip. rewrite Iipc, Hc. reflexivity.
Qed.

Lemma remove_all_runs : forall n s, List.length (conns s) = n -> inv s ->
  exists s', run s (remove_all_ops s) = Val s' /\ inv s' /\ conns s' = [].
Proof.
  induction n as [|n IH]; intros s Hn I.
  - destruct (conns s) eqn:Ec; [|discriminate]. exists s. unfold remove_all_ops. rewrite Ec. cbn. tauto.
  - destruct (conns s) as [|[a c] r] eqn:Ec; [discriminate|].
    pose proof (i_nodup s I) as Hnd. rewrite Ec in Hnd. cbn [map fst] in Hnd. inversion Hnd as [|? ? Hna Hr]; subst.
    assert (Hg : aget addr_eqb a (conns s) = Some c) by (rewrite Ec; apply (aget_head addr_eqb addr_eqb_spec)).
    unfold remove_all_ops. rewrite Ec. cbn [map fst snd run step]. unfold remove at 1. rewrite Hg, Z.eqb_refl. cbn [negb bind fst].
    set (s1 := mkSt _ _ _ _ _).
    assert (Hc1 : conns s1 = r).
    { subst s1. cbn [conns]. rewrite Ec. cbn [adel]. rewrite addr_eqb_refl. apply (adel_notin addr_eqb addr_eqb_spec). exact Hna. }
    assert (I1 : inv s1).
    { apply (remove_inv s a (c_gid c) s1 OK I). unfold remove. rewrite Hg, Z.eqb_refl. reflexivity. }
    destruct (IH s1) as [s' [Hrun [I' Hc']]]; [rewrite Hc1; cbn in Hn; lia|exact I1|].
    exists s'. unfold remove_all_ops in Hrun. rewrite Hc1 in Hrun. tauto.
Qed.

Lemma remove_all_empty : forall ops s,
  run init ops = Val s -> fresh_run_b init ops = true ->
  (conns s = [] -> observably_empty s) /\
  exists s', run s (remove_all_ops s) = Val s' /\ observably_empty s'.
Proof.
  intros ops s H Hf. pose proof (reach_inv ops s Hf H) as I. split.
  - apply inv_empty. exact I.
  - destruct (remove_all_runs _ s eq_refl I) as [s' [Hrun [I' Hc']]]. exists s'. split; [exact Hrun|].
    apply inv_empty; assumption.
Qed.

(* ---- ids from a counter (never repeated) are fresh *)
Lemma In_aset : forall (m : list (addr * conn)) k v e,
  In e (aset addr_eqb k v m) -> e = (k, v) \/ In e m.
Proof.
  induction m as [|[k0 v0] r IH]; intros k v e H; cbn [aset] in H.
  - destruct H as [H|[]]. left. congruence.
  - destruct (addr_eqb k k0).
    + destruct H as [H|H]; [left; congruence|right; right; exact H].
    + destruct H as [H|H]; [right; left; exact H|]. destruct (IH _ _ _ H) as [H1|H1]; [left; exact H1|right; right; exact H1].
Qed.
Lemma In_adel : forall (m : list (addr * conn)) k e, In e (adel addr_eqb k m) -> In e m.
Proof.
  induction m as [|[k0 v0] r IH]; intros k e H; cbn [adel] in H; [exact H|].
  destruct (addr_eqb k k0); [right; exact (IH _ _ H)|].
  destruct H as [H|H]; [left; exact H|right; exact (IH _ _ H)].
Qed.

Definition gids_within (s : st) (used : list Z) : Prop :=
  forall e, In e (conns s) -> c_gid (snd e) = 0 \/ In (c_gid (snd e)) used.

Definition used_after (o : op) (used : list Z) : list Z :=
  match o with Connected _ id => id :: used | _ => used end.

Lemma step_gids_within : forall s o s' e used,
  gids_within s used -> step s o = Val (s', e) -> gids_within s' (used_after o used).
Proof.
  intros s o s' e used G H.
  assert (Hmono : forall x, gids_within x used -> gids_within x (used_after o used)).
  { intros x Gx y Hy. destruct (Gx y Hy) as [H0|H1]; [left; exact H0|right].
    destruct o; cbn [used_after]; try exact H1. right. exact H1. }
  assert (Hset : forall a c x y z w, c_gid c = 0 \/ In (c_gid c) (used_after o used) ->
            gids_within (mkSt (aset addr_eqb a c (conns s)) x y z w) (used_after o used)).
  { intros a c x y z w Hc e0 He. cbn [conns] in He. apply In_aset in He as [He|He].
    - subst e0. exact Hc.
    - exact (Hmono s G e0 He). }
  destruct o as [b|b id|b id m p|b id|b id h]; cbn [step] in H.
  - unfold pending in H. destruct (aget addr_eqb b (conns s)); injection H as <- <-; [apply Hmono; exact G|].
    apply Hset. left. reflexivity.
  - unfold connected in H. destruct (id =? 0); [injection H as <- <-; apply Hmono; exact G|].
    destruct (aget addr_eqb b (conns s)) as [c|].
    + destruct (c_state c); injection H as <- <-; try (apply Hmono; exact G).
      apply Hset. right. left. reflexivity.
    + injection H as <- <-. apply Hset. right. left. reflexivity.
  - unfold introduced in H. destruct (id =? 0); [injection H as <- <-; exact G|].
    destruct (aget addr_eqb b (conns s)) as [c|] eqn:Eb; [|injection H as <- <-; exact G].
    destruct (c_state c); try (injection H as <- <-; exact G).
    destruct (negb (id =? c_gid c)); [injection H as <- <-; exact G|].
    destruct (negb (can_update_mirror s (fst b) m)); [injection H as <- <-; exact G|].
    destruct (update_mirror (mirrors s) (fst b) m (if c_out c then c_lport c else p)); [discriminate|].
    cbn [bind] in H. injection H as <- <-. apply Hset. cbn [c_gid].
    exact (G (b, c) (aget_In addr_eqb addr_eqb_spec _ _ _ Eb)).
  - unfold remove in H. destruct (aget addr_eqb b (conns s)) as [c|]; [|injection H as <- <-; exact G].
    destruct (negb (c_gid c =? id)); injection H as <- <-; [exact G|].
    intros e0 He. cbn [conns] in He. apply In_adel in He. exact (G e0 He).
  - unfold set_height in H. destruct (aget addr_eqb b (conns s)) as [c|] eqn:Eb; [|injection H as <- <-; exact G].
    destruct (negb (c_gid c =? id)); injection H as <- <-; [exact G|].
    unfold set_conns. apply Hset. cbn [c_gid]. exact (G (b, c) (aget_In addr_eqb addr_eqb_spec _ _ _ Eb)).
Qed.

Lemma counter_ids_fresh_gen : forall ops s used,
  gids_within s used -> NoDup (connected_ids ops) ->
  (forall id, In id used -> ~ In id (connected_ids ops)) ->
  fresh_run_b s ops = true.
Proof.
  induction ops as [|o r IH]; intros s used G Hnd Hdis; cbn [fresh_run_b]; [reflexivity|].
  apply andb_true_iff. split.
  - destruct o as [b|b id|b id m p|b id|b id h]; cbn [fresh_b]; try reflexivity.
    destruct (id =? 0) eqn:E0; [reflexivity|]. cbn [orb]. apply negb_true_iff.
    destruct (gid_used s id) eqn:Eu; [|reflexivity]. exfalso.
    unfold gid_used in Eu. apply existsb_exists in Eu as [e0 [He Hid]]. apply Z.eqb_eq in Hid.
    destruct (G e0 He) as [H0|H1]; [lia|]. rewrite Hid in H1.
    apply (Hdis id H1). cbn [connected_ids]. left. reflexivity.
  - destruct (step s o) as [|[s1 e]] eqn:E; [reflexivity|]. cbn [fst].
    apply (IH s1 (used_after o used)).
    + eapply step_gids_within; eassumption.
    + destruct o; cbn [connected_ids] in Hnd; try exact Hnd. inversion Hnd; assumption.
    + intros id Hin. destruct o as [b|b id0|b id0 m p|b id0|b id0 h]; cbn [used_after connected_ids] in *;
        try (exact (Hdis id Hin)).
      destruct Hin as [Hin|Hin].
      * subst id0. inversion Hnd; assumption.
      * intros Hr. apply (Hdis id Hin). right. exact Hr.
Qed.

Lemma counter_ids_fresh : forall ops, NoDup (connected_ids ops) -> fresh_run_b init ops = true.
Proof.
  intros ops H. apply (counter_ids_fresh_gen ops init []); [|exact H|].
  - intros e He. destruct He.
  - intros id [].
Qed.
