(* Proofs/WalletsProofs.v — C17: address derivation is independent of batching,
   scanning and reloading. *)
From Coq Require Import List Bool Arith Lia.
From Sky Require Import Model.Wallets.
Import ListNotations.

(* ---- keep_num *)
Lemma keep_num_le : forall l, keep_num l <= length l.
Proof.
  induction l as [|b r IH]; cbn [keep_num length]; [lia|].
  destruct (keep_num r); [destruct b; lia | lia].
Qed.

Lemma keep_num_last_active : forall l, 0 < keep_num l -> nth_error l (keep_num l - 1) = Some true.
Proof.
  induction l as [|b r IH]; cbn [keep_num]; [lia|].
  destruct (keep_num r) as [|k] eqn:E.
  - destruct b; [reflexivity | lia].
  - intros _. replace (S (S k) - 1) with (S k) by lia. cbn [nth_error].
    replace k with (S k - 1) by lia. apply IH. lia.
Qed.

Lemma keep_num_rest_inactive : forall l i, keep_num l <= i -> nth_error l i <> Some true.
Proof.
  induction l as [|b r IH]; intros i Hi.
  - destruct i; discriminate.
  - cbn [keep_num] in Hi. destruct i as [|i].
    + destruct (keep_num r); [destruct b; [lia | discriminate] | lia].
    + cbn [nth_error]. apply IH. destruct (keep_num r); [lia | lia].
Qed.

Lemma keep_num_nil_map : forall (A : Type) (f : A -> bool), keep_num (map f []) = 0.
Proof. reflexivity. Qed.

(* ------------------------------------------------------------- deterministic *)
Section Det.
  Variable S K : Type.
  Variable step : S -> S * K.

  Notation derive_chain := (derive_chain S K step).
  Notation derive_all := (derive_all S K step).
  Notation seed_after := (seed_after S K step).
  Notation dwallet := (dwallet S K).

  Lemma derive_chain_app : forall n m s,
    derive_chain s (n + m) =
    (seed_after (seed_after s n) m, derive_all s n ++ derive_all (seed_after s n) m).
  Proof.
    induction n as [|n IH]; intros m s.
    - unfold Wallets.seed_after, Wallets.derive_all. cbn [plus Wallets.derive_chain fst snd app].
      destruct (derive_chain s m); reflexivity.
    - cbn [plus]. unfold Wallets.seed_after, Wallets.derive_all in *. cbn [Wallets.derive_chain].
      destruct (step s) as [s' k]. rewrite IH.
      destruct (derive_chain s' n) as [s'' ks]. cbn [fst snd]. reflexivity.
  Qed.
  Lemma derive_all_app : forall n m s, derive_all s (n + m) = derive_all s n ++ derive_all (seed_after s n) m.
  Proof. intros. unfold Wallets.derive_all at 1. rewrite derive_chain_app. reflexivity. Qed.
  Lemma seed_after_app : forall n m s, seed_after s (n + m) = seed_after (seed_after s n) m.
  Proof. intros. unfold Wallets.seed_after at 1. rewrite derive_chain_app. reflexivity. Qed.
  Lemma derive_all_length : forall n s, length (derive_all s n) = n.
  Proof.
    induction n as [|n IH]; intros s; [reflexivity|].
    unfold Wallets.derive_all in *. cbn [Wallets.derive_chain]. destruct (step s) as [s' k].
    specialize (IH s'). destruct (derive_chain s' n). cbn [snd length] in *. lia.
  Qed.
  Lemma derive_chain_eta : forall s n, derive_chain s n = (seed_after s n, derive_all s n).
  Proof. intros. unfold Wallets.seed_after, Wallets.derive_all. destruct (derive_chain s n); reflexivity. Qed.

  (* invariant: the wallet holds the first m keys of its seed's chain and, when
     m > 0, the seed reached after m steps *)
  Definition inv (s : S) (m : nat) (w : dwallet) : Prop :=
    d_seed w = s /\ d_entries w = derive_all s m /\ (0 < m -> d_last w = seed_after s m).

  Lemma inv_length : forall s m w, inv s m w -> length (d_entries w) = m.
  Proof. intros s m w [_ [He _]]. rewrite He. apply derive_all_length. Qed.

  Lemma inv_init : forall s, inv s 0 (d_init S K s).
  Proof. intros s. unfold inv, d_init. cbn. repeat split; lia. Qed.

  Lemma inv_generate : forall s m n w, inv s m w -> inv s (m + n) (d_generate S K step n w).
  Proof.
    intros s m n w Hinv. pose proof (inv_length _ _ _ Hinv) as Hlen.
    destruct Hinv as [Hs [He Hl]].
    destruct n as [|n]; [rewrite Nat.add_0_r; unfold d_generate; repeat split; assumption|].
    unfold d_generate.
    destruct (d_entries w) as [|e es] eqn:Ees.
    - cbn [length] in Hlen. subst m. rewrite derive_chain_eta. cbn [plus].
      unfold inv. cbn [d_seed d_entries d_last app]. rewrite Hs. repeat split.
    - assert (Hm : 0 < m) by (cbn [length] in Hlen; lia).
      rewrite derive_chain_eta. unfold inv. cbn [d_seed d_entries d_last].
      rewrite (Hl Hm), He. repeat split; [exact Hs | symmetry; apply derive_all_app | intros _; symmetry; apply seed_after_app].
  Qed.

  Lemma inv_reset : forall s m w, inv s m w -> inv s 0 (d_reset S K w).
  Proof. intros s m w [Hs _]. unfold inv, d_reset. cbn. repeat split; [exact Hs | lia]. Qed.

  Lemma skipn_derive : forall s m n, skipn m (derive_all s (m + n)) = derive_all (seed_after s m) n.
  Proof.
    intros. rewrite derive_all_app. rewrite skipn_app, derive_all_length, Nat.sub_diag.
    rewrite skipn_all2 by (rewrite derive_all_length; lia). reflexivity.
  Qed.

  Lemma inv_scan : forall s m n act w, inv s m w ->
    inv s (m + keep_num (map act (skipn m (derive_all s (m + n))))) (d_scan S K step n act w).
  Proof.
    intros s m n act w Hinv. pose proof (inv_length _ _ _ Hinv) as Hlen.
    destruct n as [|n].
    - rewrite Nat.add_0_r, skipn_all2 by (rewrite derive_all_length; lia).
      cbn [map keep_num]. rewrite Nat.add_0_r. exact Hinv.
    - unfold d_scan. rewrite Hlen.
      pose proof (inv_generate s m (Datatypes.S n) w Hinv) as H2.
      destruct H2 as [Hs2 [He2 Hl2]]. rewrite He2.
      set (w2 := d_generate S K step (Datatypes.S n) w) in *.
      assert (Hr : inv s 0 (d_reset S K w2)) by (unfold inv, d_reset; cbn; repeat split; [exact Hs2 | lia]).
      apply (inv_generate s 0 _ _ Hr).
  Qed.

  Lemma inv_step : forall s m w o, inv s m w -> inv s (d_count_step S K step s m o) (d_step S K step w o).
  Proof.
    intros s m w o Hinv. destruct o as [n|n act| | | | |]; cbn [d_count_step d_step]; try exact Hinv.
    - apply inv_generate. exact Hinv.
    - apply inv_scan. exact Hinv.
  Qed.

  Lemma inv_run : forall ops s m w, inv s m w ->
    inv s (fold_left (d_count_step S K step s) ops m) (d_run S K step ops w).
  Proof.
    induction ops as [|o ops IH]; intros s m w Hinv; [exact Hinv|].
    unfold d_run in *. cbn [fold_left]. apply IH. apply inv_step. exact Hinv.
  Qed.

  (* the addresses of a wallet depend only on its seed and on how many have been
     derived in total, for every sequence of generate / scan / save+reload *)
  Theorem batch_independent : forall (s : S) (ops : list (dop K)),
    let w := d_run S K step ops (d_init S K s) in
    d_entries w = derive_all s (d_count S K step s ops)
    /\ d_seed w = s
    /\ (0 < d_count S K step s ops -> d_last w = seed_after s (d_count S K step s ops)).
  Proof.
    intros s ops w. destruct (inv_run ops s 0 (d_init S K s) (inv_init s)) as [H1 [H2 H3]].
    repeat split; assumption.
  Qed.

  Lemma count_gens : forall s ns m, fold_left (d_count_step S K step s) (map (@DGen K) ns) m = m + fold_right plus 0 ns.
  Proof.
    intros s. induction ns as [|n ns IH]; intros m; cbn [map fold_left fold_right]; [lia|].
    rewrite IH. cbn [d_count_step]. lia.
  Qed.

  (* splitting a generation into batches changes nothing *)
  Corollary batches_equal_single_shot : forall (s : S) (ns : list nat),
    d_entries (d_run S K step (map (@DGen K) ns) (d_init S K s)) = derive_all s (fold_right plus 0 ns).
  Proof.
    intros s ns. destruct (batch_independent s (map (@DGen K) ns)) as [H _]. rewrite H.
    unfold d_count. rewrite count_gens. reflexivity.
  Qed.

  (* ScanAddresses keeps the scanned addresses exactly up to the last active one *)
  Theorem scan_keeps_prefix : forall (s : S) (ops : list (dop K)) (n : nat) (act : K -> bool),
    let w := d_run S K step ops (d_init S K s) in
    let m := length (d_entries w) in
    let scanned := skipn m (derive_all s (m + n)) in
    let k := keep_num (map act scanned) in
    d_entries (d_scan S K step n act w) = derive_all s (m + k)
    /\ k <= n
    /\ (0 < k -> exists key, nth_error scanned (k - 1) = Some key /\ act key = true)
    /\ (forall i key, k <= i -> nth_error scanned i = Some key -> act key = false).
  Proof.
    intros s ops n act w m scanned k.
    pose proof (inv_run ops s 0 (d_init S K s) (inv_init s)) as Hinv. fold w in Hinv.
    pose proof (inv_length _ _ _ Hinv) as Hlen. fold m in Hlen.
    rewrite <- Hlen in Hinv.
    destruct (inv_scan s m n act w Hinv) as [_ [He _]].
    split; [exact He|].
    assert (Hsl : length scanned = n).
    { unfold scanned. rewrite skipn_length, derive_all_length. lia. }
    split; [|split].
    - pose proof (keep_num_le (map act scanned)) as Hle. rewrite map_length, Hsl in Hle. exact Hle.
    - intros Hk. pose proof (keep_num_last_active (map act scanned) Hk) as Hn. fold k in Hn.
      rewrite nth_error_map in Hn. destruct (nth_error scanned (k - 1)) as [key|]; [|discriminate].
      exists key. split; [reflexivity|]. cbn in Hn. congruence.
    - intros i key Hi Hnth. pose proof (keep_num_rest_inactive (map act scanned) i Hi) as Hn.
      rewrite nth_error_map, Hnth in Hn. cbn in Hn. destruct (act key); [congruence | reflexivity].
  Qed.

  (* saving and reloading between any two operations changes nothing *)
  Theorem reload_same : forall (ops1 ops2 : list (dop K)) (w : dwallet),
    d_run S K step (ops1 ++ DSaveReload :: ops2) w = d_run S K step (ops1 ++ ops2) w.
  Proof. intros. unfold d_run. rewrite !fold_left_app. reflexivity. Qed.

  (* operations that fail, lock, unlock or reload have no effect on the derivation
     state: dropping them from any history gives the same wallet, so generation
     after a failed operation still equals the single-shot derivation *)
  Theorem inert_ops_same : forall (ops : list (dop K)) (w : dwallet),
    d_run S K step (filter d_effective ops) w = d_run S K step ops w.
  Proof.
    induction ops as [|o ops IH]; intros w; [reflexivity|].
    unfold d_run in *. destruct o; cbn [filter d_effective fold_left d_step]; apply IH.
  Qed.

  (* NewWallet with GenerateN / ScanN options is a generate followed by a scan *)
  Theorem new_wallet_prefix : forall s gen_n scan_n act,
    exists total, d_entries (d_new S K step s gen_n scan_n act) = derive_all s total /\ gen_n <= total.
  Proof.
    intros. unfold d_new.
    pose proof (inv_generate s 0 gen_n _ (inv_init s)) as Hg. cbn [plus] in Hg.
    destruct scan_n as [|sn].
    - exists gen_n. destruct Hg as [_ [He _]]. split; [exact He | lia].
    - set (n := if gen_n <? Datatypes.S sn then Datatypes.S sn - gen_n else Datatypes.S sn).
      destruct (inv_scan s gen_n n act _ Hg) as [_ [He _]].
      eexists. split; [exact He | lia].
  Qed.
End Det.

(* ------------------------------------------------- index-derived chains *)
Section Idx.
  Variable K : Type.
  Variable child : nat -> nat -> K.
  Notation new_entries := (new_entries K child).

  Lemma new_entries_length : forall j a n, length (new_entries j a n) = n.
  Proof. intros. unfold Wallets.new_entries. rewrite map_length, seq_length. reflexivity. Qed.
  Lemma new_entries_app : forall j a n, new_entries j 0 (a + n) = new_entries j 0 a ++ new_entries j a n.
  Proof. intros. unfold Wallets.new_entries. rewrite seq_app, map_app. reflexivity. Qed.

  Lemma generate_at_ok : forall w base j n w',
    chains_ok_from K child base w -> i_generate_at K child (base + j) j n w = Some w' ->
    chains_ok_from K child base w'.
  Proof.
    induction w as [|c r IH]; intros base j n w' Hok Hg; [destruct j; cbn [i_generate_at] in Hg; discriminate|].
    destruct Hok as [Hc Hr]. destruct j as [|j]; cbn [i_generate_at] in Hg.
    - injection Hg as Hg. subst w'. rewrite Nat.add_0_r. cbn [chains_ok_from]. split; [|exact Hr].
      rewrite app_length, new_entries_length, new_entries_app. rewrite <- Hc. reflexivity.
    - destruct (i_generate_at K child (base + Datatypes.S j) j n r) as [r'|] eqn:E; [|discriminate].
      injection Hg as Hg. subst w'. cbn [chains_ok_from]. split; [exact Hc|].
      apply (IH (Datatypes.S base) j n r' Hr). replace (Datatypes.S base + j) with (base + Datatypes.S j) by lia. exact E.
  Qed.

  Lemma scan_from_ok : forall w j n act, chains_ok_from K child j (i_scan_from K child j n act w).
  Proof.
    induction w as [|c r IH]; intros j n act; cbn [i_scan_from chains_ok_from]; [exact I|].
    split; [rewrite new_entries_length; reflexivity | apply IH].
  Qed.

  Lemma empty_chains_ok : forall k j, chains_ok_from K child j (repeat [] k).
  Proof. induction k as [|k IH]; intros j; cbn [repeat chains_ok_from]; [exact I | split; [reflexivity | apply IH]]. Qed.
  Lemma chains_ok_from_app : forall w j w2,
    chains_ok_from K child j w -> chains_ok_from K child (j + length w) w2 -> chains_ok_from K child j (w ++ w2).
  Proof.
    induction w as [|c r IH]; intros j w2 H1 H2.
    - cbn [length app] in *. rewrite Nat.add_0_r in H2. exact H2.
    - destruct H1 as [Hc Hr]. cbn [app chains_ok_from]. split; [exact Hc|].
      apply IH; [exact Hr|]. cbn [length] in H2. replace (Datatypes.S j + length r) with (j + Datatypes.S (length r)) by lia. exact H2.
  Qed.

  Lemma step_ok : forall w o, chains_ok K child w -> chains_ok K child (i_step K child w o).
  Proof.
    intros w o Hok. destruct o as [j n|n act| | | | | |]; cbn [i_step]; try exact Hok.
    - unfold i_generate. destruct (i_generate_at K child j j n w) as [w'|] eqn:E; [|exact Hok].
      apply (generate_at_ok w 0 j n w' Hok E).
    - unfold i_scan. destruct n; [exact Hok | apply scan_from_ok].
    - apply chains_ok_from_app; [exact Hok | apply (empty_chains_ok 2)].
  Qed.

  (* every chain of the wallet is the single-shot derivation of its own length,
     after every sequence of operations *)
  Theorem batch_independent_idx : forall (ops : list (iop K)) (w : iwallet K),
    chains_ok K child w -> chains_ok K child (i_run K child ops w).
  Proof.
    induction ops as [|o ops IH]; intros w Hok; [exact Hok|].
    unfold i_run in *. cbn [fold_left]. apply IH. apply step_ok. exact Hok.
  Qed.


  (* ScanAddresses on a chain keeps exactly up to the last active scanned address *)
  Theorem scan_keeps_prefix_idx : forall (c : list K) (r : iwallet K) (j n : nat) (act : K -> bool),
    c = new_entries j 0 (length c) ->
    let scanned := new_entries j (length c) n in
    let k := keep_num (map act scanned) in
    hd_error (i_scan_from K child j n act (c :: r)) = Some (new_entries j 0 (length c + k))
    /\ k <= n
    /\ (0 < k -> exists key, nth_error scanned (k - 1) = Some key /\ act key = true)
    /\ (forall i key, k <= i -> nth_error scanned i = Some key -> act key = false).
  Proof.
    intros c r j n act Hc scanned k. split; [reflexivity|].
    assert (Hsl : length scanned = n) by apply new_entries_length.
    split; [|split].
    - pose proof (keep_num_le (map act scanned)) as Hle. rewrite map_length, Hsl in Hle. exact Hle.
    - intros Hk. pose proof (keep_num_last_active (map act scanned) Hk) as Hn. fold k in Hn.
      rewrite nth_error_map in Hn. destruct (nth_error scanned (k - 1)) as [key|]; [|discriminate].
      exists key. split; [reflexivity|]. cbn in Hn. congruence.
    - intros i key Hi Hnth. pose proof (keep_num_rest_inactive (map act scanned) i Hi) as Hn.
      rewrite nth_error_map, Hnth in Hn. cbn in Hn. destruct (act key); [congruence | reflexivity].
  Qed.

  (* locking, working on the locked wallet and unlocking gives the addresses of
     the same operations on the unlocked wallet *)
  Theorem lock_unlock_same_idx : forall (ops1 ops2 ops3 : list (iop K)) (w : iwallet K),
    i_run K child (ops1 ++ ILock :: ops2 ++ IUnlock :: ops3) w = i_run K child (ops1 ++ ops2 ++ ops3) w.
  Proof. intros. unfold i_run. rewrite !fold_left_app. cbn [fold_left i_step]. rewrite !fold_left_app. reflexivity. Qed.

  Theorem inert_ops_same_idx : forall (ops : list (iop K)) (w : iwallet K),
    i_run K child (filter i_effective ops) w = i_run K child ops w.
  Proof.
    induction ops as [|o ops IH]; intros w; [reflexivity|].
    unfold i_run in *. destruct o; cbn [filter i_effective fold_left i_step]; apply IH.
  Qed.

  Theorem reload_same_idx : forall (ops1 ops2 : list (iop K)) (w : iwallet K),
    i_run K child (ops1 ++ ISaveReload :: ops2) w = i_run K child (ops1 ++ ops2) w.
  Proof. intros. unfold i_run. rewrite !fold_left_app. reflexivity. Qed.
End Idx.

(* ------------------------------------------------------------ coin type *)
Section CoinIdx.
  Variable K : Type.
  Variable child : coin -> nat -> nat -> K.

  Lemma cw_run_eq : forall ops (w : cwallet K),
    cw_run K child ops w = {| cw_coin := cw_coin w; cw_chains := i_run K (child (cw_coin w)) ops (cw_chains w) |}.
  Proof.
    induction ops as [|o ops IH]; intros [c cs]; [reflexivity|].
    unfold cw_run, i_run in *. cbn [fold_left]. rewrite IH. reflexivity.
  Qed.

  (* after any operation sequence, save + reload included, the wallet still has its
     coin and every chain is the single-shot derivation in that coin's address form *)
  Theorem batch_independent_coin : forall (ops : list (iop K)) (w : cwallet K),
    chains_ok K (child (cw_coin w)) (cw_chains w) ->
    cw_coin (cw_run K child ops w) = cw_coin w
    /\ chains_ok K (child (cw_coin w)) (cw_chains (cw_run K child ops w)).
  Proof.
    intros ops w Hok. rewrite cw_run_eq. cbn [cw_coin cw_chains]. split; [reflexivity|].
    apply batch_independent_idx. exact Hok.
  Qed.

  Theorem reload_same_coin : forall (ops1 ops2 : list (iop K)) (w : cwallet K),
    cw_run K child (ops1 ++ ISaveReload :: ops2) w = cw_run K child (ops1 ++ ops2) w.
  Proof. intros. rewrite !cw_run_eq. rewrite reload_same_idx. reflexivity. Qed.
End CoinIdx.

Section CoinDet.
  Variable S Sec K : Type.
  Variable step : S -> S * Sec.
  Variable key_of : coin -> Sec -> K.

  Lemma cd_run_eq : forall ops (w : cdwallet S Sec),
    cd_run S Sec step ops w = {| cd_coin := cd_coin w; cd_w := d_run S Sec step ops (cd_w w) |}.
  Proof.
    induction ops as [|o ops IH]; intros [c dw]; [reflexivity|].
    unfold cd_run, d_run in *. cbn [fold_left]. rewrite IH. reflexivity.
  Qed.

  (* the entries shown by a deterministic wallet of coin c are the first d_count
     keys of its seed's chain in c's address form, whatever the history *)
  Theorem batch_independent_det_coin : forall (c : coin) (s : S) (ops : list (dop Sec)),
    let w := cd_run S Sec step ops {| cd_coin := c; cd_w := d_init S Sec s |} in
    cd_coin w = c
    /\ cd_entries S Sec K key_of w = map (key_of c) (derive_all S Sec step s (d_count S Sec step s ops)).
  Proof.
    intros c s ops w. unfold w. rewrite cd_run_eq. unfold cd_entries. cbn [cd_coin cd_w].
    split; [reflexivity|]. destruct (batch_independent S Sec step s ops) as [H _]. rewrite H. reflexivity.
  Qed.

  Theorem reload_same_det_coin : forall (ops1 ops2 : list (dop Sec)) (w : cdwallet S Sec),
    cd_run S Sec step (ops1 ++ DSaveReload :: ops2) w = cd_run S Sec step (ops1 ++ ops2) w.
  Proof. intros. rewrite !cd_run_eq. rewrite reload_same. reflexivity. Qed.
End CoinDet.

(* ------------------------------------------------------------ entries *)
Section Entries.
  Variable Sec Pub Addr : Type.
  Variable pub_of : Sec -> Pub.
  Variable addr_of : Pub -> Addr.
  Variable cpub : nat -> nat -> Pub.
  Variable csec : nat -> nat -> Sec.
  (* BIP32: the public key derived publicly is the public key of the secret key
     derived privately (subject of C16; premise here) *)
  Hypothesis ckd_commute : forall j i, pub_of (csec j i) = cpub j i.

  Theorem entry_coherent_sec : forall s, coherent Sec Pub Addr pub_of addr_of (entry_of_sec Sec Pub Addr pub_of addr_of s).
  Proof. intros s. split; reflexivity. Qed.

  Theorem entry_coherent_bip44 : forall b j i,
    coherent Sec Pub Addr pub_of addr_of (bip44_entry Sec Pub Addr addr_of cpub csec b j i).
  Proof.
    intros b j i. split; [reflexivity|]. destruct b; cbn; [symmetry; apply ckd_commute | exact I].
  Qed.

  Theorem entry_coherent_xpub : forall j i,
    coherent Sec Pub Addr pub_of addr_of (xpub_entry Sec Pub Addr addr_of cpub j i).
  Proof. intros. split; [reflexivity | exact I]. Qed.

  (* a watch-only wallet on a chain's extended public key lists the addresses of
     the seed wallet's chain *)
  Theorem watch_same : forall b j i,
    en_addr Sec Pub Addr (xpub_entry Sec Pub Addr addr_of cpub j i)
    = en_addr Sec Pub Addr (bip44_entry Sec Pub Addr addr_of cpub csec b j i)
    /\ en_pub Sec Pub Addr (xpub_entry Sec Pub Addr addr_of cpub j i)
       = en_pub Sec Pub Addr (bip44_entry Sec Pub Addr addr_of cpub csec b j i).
  Proof. intros. split; reflexivity. Qed.
End Entries.
