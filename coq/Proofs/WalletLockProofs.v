(* Proofs/WalletLockProofs.v — C18, wallet Lock / Unlock over an abstract cipher. *)
From Coq Require Import ZArith List Bool String Lia.
From Sky Require Import Base.Uint Model.WalletCrypt.
Import ListNotations.
Open Scope Z_scope.


#[local] Arguments ser_entry {C}. #[local] Arguments serialize {C}. #[local] Arguments erase {C}. #[local] Arguments set_encrypted {C}.
#[local] Arguments locked_view {C}. #[local] Arguments public_part {C}. #[local] Arguments wf_kind {C}. #[local] Arguments lock {C}.
#[local] Arguments unlock {C}. #[local] Arguments pack {C}. #[local] Arguments all_entries {C}. #[local] Arguments names_ok {C}.
#[local] Arguments unpack {C}. #[local] Arguments w_kind {C}. #[local] Arguments w_temp {C}. #[local] Arguments w_seed {C}.
#[local] Arguments w_lastseed {C}. #[local] Arguments w_pass {C}. #[local] Arguments w_xprv {C}. #[local] Arguments w_chains {C}.
#[local] Arguments w_enc {C}. #[local] Arguments w_ct {C}.

(* ---- the secrets container *)
Definition sset_all (kvs : list (string * string)) (ss : secrets) : secrets :=
  fold_left (fun ss kv => sset (fst kv) (snd kv) ss) kvs ss.

Lemma sget_sset_eq : forall k v ss, sget k (sset k v ss) = Some v.
Proof. intros. unfold sset. cbn [sget]. rewrite String.eqb_refl. reflexivity. Qed.
Lemma sget_sset_neq : forall k k' v ss, k <> k' -> sget k (sset k' v ss) = sget k ss.
Proof. intros k k' v ss Hn. unfold sset. cbn [sget]. apply String.eqb_neq in Hn. rewrite Hn. reflexivity. Qed.

Lemma sget_sset_all_notin : forall kvs k ss, ~ In k (map fst kvs) -> sget k (sset_all kvs ss) = sget k ss.
Proof.
  induction kvs as [|[k' v'] kvs IH]; intros k ss Hn; [reflexivity|].
  cbn [map fst In] in Hn. unfold sset_all in *. cbn [fold_left fst snd].
  rewrite IH by tauto. apply sget_sset_neq. intro E. apply Hn. left. symmetry. exact E.
Qed.

Lemma sget_sset_all_in_gen : forall kvs k v ss,
  (forall kv, In kv kvs -> fst kv = k -> snd kv = v) ->
  (In k (map fst kvs) \/ sget k ss = Some v) ->
  sget k (sset_all kvs ss) = Some v.
Proof.
  induction kvs as [|[k' v'] kvs IH]; intros k v ss Hf Hor.
  - destruct Hor as [[]|Hs]. exact Hs.
  - unfold sset_all in *. cbn [fold_left fst snd].
    apply IH.
    + intros kv Hin. apply Hf. right. exact Hin.
    + destruct (in_dec string_dec k (map fst kvs)) as [Hi|Hni]; [left; exact Hi|right].
      destruct (string_dec k k') as [E|Ne].
      * subst k'. rewrite sget_sset_eq. f_equal. apply (Hf (k, v')); [left; reflexivity|reflexivity].
      * rewrite sget_sset_neq by exact Ne.
        destruct Hor as [Hi|Hs]; [|exact Hs].
        cbn [map fst In] in Hi. destruct Hi as [E|Hi]; [congruence|contradiction].
Qed.

Lemma sget_sset_all_in : forall kvs k v ss,
  (forall kv, In kv kvs -> fst kv = k -> snd kv = v) -> In (k, v) kvs ->
  sget k (sset_all kvs ss) = Some v.
Proof.
  intros kvs k v ss Hf Hin. apply sget_sset_all_in_gen; [exact Hf|left].
  apply (in_map fst) in Hin. exact Hin.
Qed.

Lemma set_sec_blank_back : forall e, set_sec (set_sec e "") (e_sec e) = e.
Proof. intros [a s o]. reflexivity. Qed.

Section Lock.
  Variable C : Type.
  Variable enc : string -> Z -> secrets -> C.
  Variable dec : string -> C -> option secrets.
  (* the cipher's laws (AEAD / checksum property of the two ciphers; trusted base) *)
  Hypothesis dec_enc : forall pw n d, dec pw (enc pw n d) = Some d.
  Hypothesis dec_wrong : forall pw pw' n d, pw' <> pw -> dec pw' (enc pw n d) = None.

  Notation wallet := (wallet C).

  Definition entry_kvs (es : list entry) : list (string * string) := map (fun e => (e_addr e, e_sec e)) es.
  Definition xprv_kvs (xs : list (string * string)) : list (string * string) :=
    filter (fun x => negb (String.eqb (snd x) "")) xs.

  Lemma pack_entries_eq : forall es ss, pack_entries es ss = sset_all (entry_kvs es) ss.
  Proof.
    induction es as [|e es IH]; intros ss; [reflexivity|].
    unfold pack_entries, sset_all, entry_kvs in *. cbn [fold_left map fst snd]. apply IH.
  Qed.
  Lemma pack_xprv_eq : forall xs ss, pack_xprv xs ss = sset_all (xprv_kvs xs) ss.
  Proof.
    induction xs as [|x xs IH]; intros ss; [reflexivity|].
    unfold pack_xprv, sset_all, xprv_kvs in *. cbn [fold_left filter].
    destruct (String.eqb (snd x) ""); cbn [negb fold_left]; apply IH.
  Qed.

  Lemma all_entries_erase_chains : forall cs, List.concat (erase_chains cs) = map (fun e => set_sec e "") (List.concat cs).
  Proof.
    induction cs as [|c cs IH]; [reflexivity|].
    unfold erase_chains in *. cbn [map List.concat]. rewrite map_app, IH. reflexivity.
  Qed.

  (* ---- serialisation of a freshly locked wallet *)
  Lemma ser_entries_blank : forall es,
    flat_map ser_entry (map (fun e => set_sec e "") es)
    = flat_map (fun a : string * string => [("address"%string, @FStr C (fst a)); ("secret"%string, FStr "")])
               (map (fun e => (e_addr e, e_osec e)) es).
  Proof.
    induction es as [|e es IH]; [reflexivity|].
    cbn [map flat_map]. rewrite IH. reflexivity.
  Qed.

  Lemma concat_map_map : forall (A B : Type) (f : A -> B) (l : list (list A)),
    List.concat (map (map f) l) = map f (List.concat l).
  Proof. intros. symmetry. apply concat_map. Qed.

  Lemma ser_locked : forall (w : wallet) c, wf_kind w ->
    serialize (erase (set_encrypted w c)) = locked_view (public_part w) c.
  Proof.
    intros w c Hwf. unfold wf_kind in Hwf. unfold public_part, locked_view.
    rewrite concat_map_map, <- ser_entries_blank.
    destruct w as [k t sd ls pp xs cs en ct]. cbn [w_kind w_temp w_seed w_lastseed w_pass w_xprv w_chains w_enc w_ct] in *.
    destruct k; unfold erase, set_encrypted, serialize, all_entries;
      cbn [w_kind w_temp w_seed w_lastseed w_pass w_xprv w_chains w_enc w_ct];
      rewrite all_entries_erase_chains.
    - destruct Hwf as [Hp Hx]. subst. reflexivity.
    - subst ls. rewrite !map_map. cbn [snd fst]. reflexivity.
    - destruct Hwf as [H1 [H2 [H3 H4]]]. subst. reflexivity.
  Qed.

  Theorem lock_serialization_public : forall (w w' : wallet) pw n,
    wf_kind w -> lock enc pw n w = (w', None) ->
    serialize w' = locked_view (public_part w) (enc pw n (pack w)).
  Proof.
    intros w w' pw n Hwf Hl. unfold lock in Hl.
    destruct (w_temp w); [discriminate|].
    destruct (String.eqb pw ""); [discriminate|].
    destruct (w_enc w); [discriminate|].
    injection Hl as Hl. subst w'. apply ser_locked. exact Hwf.
  Qed.

  Theorem lock_hides : forall (w w' : wallet) pw n,
    wf_kind w -> lock enc pw n w = (w', None) ->
    forall k v, In (k, v) (serialize w') -> secret_key k = true -> v = FStr "".
  Proof.
    intros w w' pw n Hwf Hl k v Hin Hk.
    rewrite (lock_serialization_public w w' pw n Hwf Hl) in Hin.
    unfold locked_view, public_part in Hin.
    rewrite !in_app_iff in Hin. destruct Hin as [Hin|[Hin|Hin]].
    - cbn [In] in Hin. destruct Hin as [E|[E|[E|[E|[]]]]]; inversion E; subst; try reflexivity.
      discriminate Hk.
    - apply in_map_iff in Hin. destruct Hin as [x [E _]]. inversion E. reflexivity.
    - apply in_flat_map in Hin. destruct Hin as [a [_ Hin]]. cbn [In] in Hin.
      destruct Hin as [E|[E|[]]]; inversion E; subst; [discriminate Hk|reflexivity].
  Qed.

  (* two wallets with the same public part serialise, once locked, to files that
     differ at most in the ciphertext *)
  Corollary lock_noninterference : forall (w1 w2 w1' w2' : wallet) pw1 n1 pw2 n2,
    wf_kind w1 -> wf_kind w2 -> public_part w1 = public_part w2 ->
    lock enc pw1 n1 w1 = (w1', None) -> lock enc pw2 n2 w2 = (w2', None) ->
    enc pw1 n1 (pack w1) = enc pw2 n2 (pack w2) -> serialize w1' = serialize w2'.
  Proof.
    intros w1 w2 w1' w2' pw1 n1 pw2 n2 H1 H2 Hp L1 L2 Hc.
    rewrite (lock_serialization_public _ _ _ _ H1 L1), (lock_serialization_public _ _ _ _ H2 L2), Hp, Hc.
    reflexivity.
  Qed.

  (* ---- unlock *)
  Lemma lock_shape : forall (w w' : wallet) pw n, lock enc pw n w = (w', None) ->
    w_temp w = false /\ pw <> ""%string /\ w_enc w = false /\ w' = erase (set_encrypted w (enc pw n (pack w))).
  Proof.
    intros w w' pw n Hl. unfold lock in Hl.
    destruct (w_temp w); [discriminate|].
    destruct (String.eqb pw "") eqn:Hp; [discriminate|].
    destruct (w_enc w); [discriminate|].
    injection Hl as Hl. apply String.eqb_neq in Hp. repeat split; auto.
  Qed.

  Lemma erase_enc_ct : forall (w : wallet) c,
    w_enc (erase (set_encrypted w c)) = true /\ w_ct (erase (set_encrypted w c)) = Some c
    /\ w_kind (erase (set_encrypted w c)) = w_kind w.
  Proof. intros [k t sd ls pp xs cs en ct] c. destruct k; repeat split; reflexivity. Qed.

  Theorem wrong_pw_rejected : forall (w w' : wallet) pw pw' n n',
    lock enc pw n w = (w', None) -> pw' <> pw -> pw' <> ""%string ->
    unlock enc dec pw' n' w' = (w', UErr "ErrInvalidPassword").
  Proof.
    intros w w' pw pw' n n' Hl Hne Hnz.
    destruct (lock_shape _ _ _ _ Hl) as [_ [_ [_ Hw']]].
    destruct (erase_enc_ct w (enc pw n (pack w))) as [He [Hc _]]. rewrite <- Hw' in He, Hc.
    unfold unlock. rewrite He, Hc. cbn [negb].
    apply String.eqb_neq in Hnz. rewrite Hnz.
    rewrite dec_wrong by exact Hne. reflexivity.
  Qed.

  (* lookups in the packed secrets *)
  Definition addr_functional (es : list entry) : Prop :=
    forall e1 e2, In e1 es -> In e2 es -> e_addr e1 = e_addr e2 -> e_sec e1 = e_sec e2.

  Lemma sget_pack_entries_in : forall es ss e, addr_functional es -> In e es ->
    sget (e_addr e) (pack_entries es ss) = Some (e_sec e).
  Proof.
    intros es ss e Hf Hin. rewrite pack_entries_eq. apply sget_sset_all_in.
    - intros kv Hkv Hk. unfold entry_kvs in Hkv. apply in_map_iff in Hkv. destruct Hkv as [e2 [E Hin2]].
      subst kv. cbn [fst snd] in *. symmetry. apply Hf; auto.
    - unfold entry_kvs. apply (in_map (fun e => (e_addr e, e_sec e))) in Hin. exact Hin.
  Qed.
  Lemma sget_pack_entries_notin : forall es ss k, ~ In k (map e_addr es) ->
    sget k (pack_entries es ss) = sget k ss.
  Proof.
    intros es ss k Hn. rewrite pack_entries_eq. apply sget_sset_all_notin.
    unfold entry_kvs. rewrite map_map. cbn [fst]. exact Hn.
  Qed.

  Lemma unpack_entries_blank : forall ss es,
    (forall e, In e es -> sget (e_addr e) ss = Some (e_sec e)) ->
    unpack_entries ss (map (fun e => set_sec e "") es) = Some es.
  Proof.
    induction es as [|e es IH]; intros Hs; [reflexivity|].
    cbn [map unpack_entries]. change (e_addr (set_sec e "")) with (e_addr e).
    rewrite (Hs e) by (left; reflexivity).
    rewrite IH by (intros e' Hin; apply Hs; right; exact Hin).
    rewrite set_sec_blank_back. reflexivity.
  Qed.
  Lemma unpack_chains_blank : forall ss cs,
    (forall e, In e (List.concat cs) -> sget (e_addr e) ss = Some (e_sec e)) ->
    unpack_chains ss (erase_chains cs) = Some cs.
  Proof.
    induction cs as [|c cs IH]; intros Hs; [reflexivity|].
    unfold erase_chains in *. cbn [map unpack_chains].
    rewrite unpack_entries_blank by (intros e Hin; apply Hs; cbn [List.concat]; apply in_or_app; left; exact Hin).
    rewrite IH by (intros e Hin; apply Hs; cbn [List.concat]; apply in_or_app; right; exact Hin).
    reflexivity.
  Qed.

  Lemma sget_xprv_in : forall xs ss x, NoDup (map fst xs) -> In x xs -> snd x <> ""%string ->
    sget (fst x) (pack_xprv xs ss) = Some (snd x).
  Proof.
    intros xs ss x Hnd Hin Hnz. rewrite pack_xprv_eq. apply sget_sset_all_in.
    - intros kv Hkv Hk. unfold xprv_kvs in Hkv. apply filter_In in Hkv. destruct Hkv as [Hkv _].
      (* NoDup on names: same name, same element *)
      clear Hnz. induction xs as [|y xs IH]; [destruct Hin|].
      cbn [map] in Hnd. inversion Hnd as [|? ? Hny Hnd']; subst.
      destruct Hin as [E1|Hin1]; destruct Hkv as [E2|Hin2].
      + subst. reflexivity.
      + subst y. exfalso. apply Hny. rewrite <- Hk. apply (in_map fst) in Hin2. exact Hin2.
      + subst y. exfalso. apply Hny. rewrite Hk. apply (in_map fst) in Hin1. exact Hin1.
      + apply IH; auto.
    - unfold xprv_kvs. apply filter_In. split; [destruct x; exact Hin|].
      apply String.eqb_neq in Hnz. cbn [snd]. rewrite Hnz. reflexivity.
  Qed.
  Lemma sget_xprv_notin : forall xs ss k, ~ In k (map fst xs) -> sget k (pack_xprv xs ss) = sget k ss.
  Proof.
    intros xs ss k Hn. rewrite pack_xprv_eq. apply sget_sset_all_notin.
    intro Hin. apply Hn. unfold xprv_kvs in Hin. apply in_map_iff in Hin. destruct Hin as [x [E Hx]].
    apply filter_In in Hx. destruct Hx as [Hx _]. subst k. apply (in_map fst) in Hx. exact Hx.
  Qed.

  Lemma unpack_xprv_blank : forall ss xs,
    (forall x, In x xs -> sget (fst x) ss = Some (snd x)) ->
    unpack_xprv ss (map (fun x => (fst x, ""%string)) xs) = Some xs.
  Proof.
    induction xs as [|x xs IH]; intros Hs; [reflexivity|].
    cbn [map unpack_xprv fst]. rewrite (Hs x) by (left; reflexivity).
    rewrite IH by (intros y Hy; apply Hs; right; exact Hy).
    destruct x; reflexivity.
  Qed.

  Lemma sync_present : forall es ss, (forall e, In e es -> sget (e_addr e) ss <> None) ->
    sync_entries es ss = ss /\ missing_any es ss = false.
  Proof.
    induction es as [|e es IH]; intros ss Hs; [split; reflexivity|].
    unfold sync_entries, missing_any in *. cbn [fold_left existsb].
    pose proof (Hs e ltac:(left; reflexivity)) as He.
    destruct (sget (e_addr e) ss) eqn:E; [|congruence].
    cbn [orb]. apply IH. intros e' Hin. apply Hs. right. exact Hin.
  Qed.

  Lemma reserved_neq : forall k, reserved k = false -> k <> "seed"%string /\ k <> "lastSeed"%string /\ k <> "seedPassphrase"%string.
  Proof.
    intros k Hr. unfold reserved in Hr. apply orb_false_iff in Hr. destruct Hr as [Hr H3].
    apply orb_false_iff in Hr. destruct Hr as [H1 H2].
    apply String.eqb_neq in H1, H2, H3. auto.
  Qed.

  Theorem unlock_restores : forall (w w' : wallet) pw n n',
    wf_kind w -> names_ok w -> w_ct w = None ->
    lock enc pw n w = (w', None) ->
    unlock enc dec pw n' w' = (w', UOk w).
  Proof.
    intros w w' pw n n' Hwf Hnames Hct Hl.
    destruct (lock_shape _ _ _ _ Hl) as [Htemp [Hpw [Henc Hw']]].
    destruct (erase_enc_ct w (enc pw n (pack w))) as [He [Hc Hk]]. rewrite <- Hw' in He, Hc, Hk.
    destruct Hnames as [Hres [Hfun [Hnd Hx]]].
    unfold unlock. rewrite He, Hc. cbn [negb].
    apply String.eqb_neq in Hpw. rewrite Hpw. rewrite dec_enc. rewrite Hk.
    assert (Hentries : forall e, In e (all_entries w) -> sget (e_addr e) (pack w) = Some (e_sec e)).
    { intros e Hin. unfold pack. destruct (w_kind w); apply sget_pack_entries_in; auto. }
    assert (Hnotaddr : forall k, (forall e, In e (all_entries w) -> e_addr e <> k) -> ~ In k (map e_addr (all_entries w))).
    { intros k Hk' Hin. apply in_map_iff in Hin. destruct Hin as [e [E Hin]]. apply (Hk' e Hin E). }
    assert (Hseed : ~ In "seed"%string (map e_addr (all_entries w))).
    { apply Hnotaddr. intros e Hin. destruct (Hres e Hin) as [Hr _]. apply reserved_neq in Hr. tauto. }
    assert (Hlast : ~ In "lastSeed"%string (map e_addr (all_entries w))).
    { apply Hnotaddr. intros e Hin. destruct (Hres e Hin) as [Hr _]. apply reserved_neq in Hr. tauto. }
    assert (Hpp : ~ In "seedPassphrase"%string (map e_addr (all_entries w))).
    { apply Hnotaddr. intros e Hin. destruct (Hres e Hin) as [Hr _]. apply reserved_neq in Hr. tauto. }
    destruct w as [k t sd ls pp xs cs en ct].
    cbn [w_kind w_temp w_seed w_lastseed w_pass w_xprv w_chains w_enc w_ct] in *.
    unfold all_entries in *. cbn [w_chains] in *.
    subst t en ct.
    destruct k; unfold wf_kind in Hwf; cbn [w_kind w_pass w_xprv w_seed w_lastseed] in Hwf.
    - (* deterministic *)
      destruct Hwf as [Hp0 Hx0]. subst pp xs. subst w'.
      unfold unpack, erase, set_encrypted. cbn [w_kind w_temp w_seed w_lastseed w_pass w_xprv w_chains w_enc w_ct].
      unfold pack, all_entries. cbn [w_kind w_chains w_seed w_lastseed].
      rewrite (sget_pack_entries_notin _ _ "seed" Hseed), (sget_pack_entries_notin _ _ "lastSeed" Hlast).
      change (sget "seed" (sset "lastSeed" ls (sset "seed" sd []))) with (Some sd).
      change (sget "lastSeed" (sset "lastSeed" ls (sset "seed" sd []))) with (Some ls).
      rewrite unpack_chains_blank; [reflexivity|].
      intros e Hin. specialize (Hentries e Hin). unfold pack, all_entries in Hentries. cbn [w_kind w_chains w_seed w_lastseed] in Hentries. exact Hentries.
    - (* bip44 *)
      subst ls. subst w'.
      unfold erase, set_encrypted. cbn [w_kind w_temp w_seed w_lastseed w_pass w_xprv w_chains w_enc w_ct].
      unfold all_entries. cbn [w_chains]. rewrite all_entries_erase_chains.
      set (ss := pack {| w_kind := KBip44; w_temp := false; w_seed := sd; w_lastseed := ""; w_pass := pp;
                           w_xprv := xs; w_chains := cs; w_enc := false; w_ct := None |}) in *.
      assert (Hxs : forall x, In x xs -> sget (fst x) ss = Some (snd x)).
      { intros x Hin. destruct (Hx x Hin) as [_ Hnz]. unfold ss, pack, all_entries. cbn [w_kind w_chains w_seed w_pass w_xprv].
        rewrite sget_pack_entries_notin.
        - apply sget_xprv_in; auto.
        - intro Hi. apply in_map_iff in Hi. destruct Hi as [e [E Hin']]. destruct (Hres e Hin') as [_ Hno].
          apply Hno. rewrite E. apply (in_map fst) in Hin. exact Hin. }
      assert (Hall : forallb (fun x : string * string => match sget (fst x) ss with Some _ => true | None => false end)
                       (map (fun x => (fst x, ""%string)) xs) = true).
      { apply forallb_forall. intros y Hy. apply in_map_iff in Hy. destruct Hy as [x [E Hin]]. subst y. cbn [fst].
        rewrite (Hxs x Hin). reflexivity. }
      rewrite Hall. cbn [negb].
      destruct (sync_present (map (fun e => set_sec e "") (List.concat cs)) ss) as [Hsync Hmiss].
      { intros e Hin. apply in_map_iff in Hin. destruct Hin as [e0 [E Hin]]. subst e.
        change (e_addr (set_sec e0 "")) with (e_addr e0). rewrite (Hentries e0 Hin). discriminate. }
      rewrite Hsync, Hmiss.
      unfold unpack. cbn [w_kind w_temp w_seed w_lastseed w_pass w_xprv w_chains w_enc w_ct].
      assert (Hxn : forall k, reserved k = true -> ~ In k (map fst xs)).
      { intros k Hr Hin. apply in_map_iff in Hin. destruct Hin as [x [E Hin]]. destruct (Hx x Hin) as [Hr' _]. congruence. }
      assert (Sseed : sget "seed" ss = Some sd).
      { unfold ss, pack, all_entries. cbn [w_kind w_chains w_seed w_pass w_xprv].
        rewrite (sget_pack_entries_notin _ _ "seed" Hseed), sget_xprv_notin by (apply Hxn; reflexivity). reflexivity. }
      assert (Spp : sget "seedPassphrase" ss = Some pp).
      { unfold ss, pack, all_entries. cbn [w_kind w_chains w_seed w_pass w_xprv].
        rewrite (sget_pack_entries_notin _ _ "seedPassphrase" Hpp), sget_xprv_notin by (apply Hxn; reflexivity). reflexivity. }
      rewrite Sseed, Spp.
      rewrite unpack_xprv_blank by exact Hxs.
      rewrite unpack_chains_blank by exact Hentries.
      reflexivity.
    - (* collection *)
      destruct Hwf as [H1 [H2 [H3 H4]]]. subst sd ls pp xs. subst w'.
      unfold unpack, erase, set_encrypted. cbn [w_kind w_temp w_seed w_lastseed w_pass w_xprv w_chains w_enc w_ct].
      rewrite unpack_chains_blank; [reflexivity|].
      intros e Hin. specialize (Hentries e Hin). exact Hentries.
  Qed.
End Lock.
