(* Proofs/BipMnemonic.v — C16, sentence level: NewMnemonic then EntropyFromMnemonic is
   the identity; a sentence validates iff it is well formed and its word indices are
   entropy || checksum for some entropy. *)
From Coq Require Import ZArith List Bool Lia ZifyBool.
From Sky Require Import Model.Secp Model.Bip Model.BipWords
  Proofs.SecpProofs Proofs.Bip39Proofs Proofs.BipTextProofs Proofs.BipWordsProofs.
Import ListNotations.
Open Scope Z_scope.

Lemma map_opt_length {A B} (f : A -> option B) l r : map_opt f l = Some r -> List.length r = List.length l.
Proof.
  revert r. induction l as [|a l IH]; intros r H; cbn [map_opt] in H.
  - injection H as <-. reflexivity.
  - destruct (f a) as [b|]; [|discriminate]. destruct (map_opt f l) as [bs|]; [|discriminate].
    injection H as <-. cbn [List.length]. f_equal. apply IH. reflexivity.
Qed.

Lemma map_opt_Forall {A B} (f : A -> option B) (P : B -> Prop) l r :
  (forall a b, f a = Some b -> P b) -> map_opt f l = Some r -> Forall P r.
Proof.
  intros HP. revert r. induction l as [|a l IH]; intros r H; cbn [map_opt] in H.
  - injection H as <-. constructor.
  - destruct (f a) as [b|] eqn:Ea; [|discriminate]. destruct (map_opt f l) as [bs|]; [|discriminate].
    injection H as <-. constructor; [eapply HP; exact Ea|apply IH; reflexivity].
Qed.

Lemma index_word_In words i w : index_word words i = Some w -> In w words.
Proof.
  unfold index_word. destruct ((0 <=? i) && (i <? Z.of_nat (List.length words))); [|discriminate].
  apply nth_error_In.
Qed.

Lemma index_of_range w ws base i : index_of w ws base = Some i -> base <= i < base + Z.of_nat (List.length ws).
Proof.
  revert base. induction ws as [|x r IH]; intros base H; cbn [index_of] in H; [discriminate|].
  cbn [List.length]. rewrite Nat2Z.inj_succ. destruct (bytes_eq x w).
  - injection H as <-. lia.
  - apply IH in H. lia.
Qed.

Section Mnemonic.
  Variable sha256 : list Z -> list Z.
  Hypothesis sha_bytes : forall x, all_bytes (sha256 x) = true.

  Lemma split_mnemonic_indices s idx :
    split_mnemonic english_words s = inr idx -> Forall (fun d => 0 <= d < 2048) idx.
  Proof.
    unfold split_mnemonic. destruct (surrounding_space s); [discriminate|].
    destruct (existsb _ _); [discriminate|]. destruct (negb _); [discriminate|].
    destruct (map_opt (word_index english_words) (split 32 s)) as [ix|] eqn:E; [|discriminate].
    intros H. injection H as <-.
    eapply map_opt_Forall; [|exact E]. intros w i Hi. unfold word_index in Hi.
    apply index_of_range in Hi. rewrite wordlist_length in Hi. lia.
  Qed.

  (* mnemonic_roundtrip *)
  Theorem mnemonic_roundtrip e s :
    all_bytes e = true ->
    new_mnemonic sha256 english_words e = inr s ->
    entropy_from_mnemonic sha256 english_words s = inr e.
  Proof.
    intros He Hn. unfold new_mnemonic in Hn.
    destruct (indices_of_entropy sha256 e) as [err|idx] eqn:Ei; [discriminate|].
    destruct (map_opt (index_word english_words) idx) as [ws|] eqn:Ew; [|discriminate].
    injection Hn as <-.
    pose proof (indices_of_entropy_count sha256 e idx Ei) as [Hc Hr].
    pose proof (map_opt_length _ _ _ Ew) as Hlen.
    assert (Hne : ws <> []).
    { intros ->. cbn [List.length] in Hlen. rewrite <- Hlen in Hc. cbv in Hc. discriminate. }
    assert (Hshape : Forall (fun w => w <> [] /\ Forall (fun b => 97 <= b <= 122) w) ws).
    { eapply map_opt_Forall; [|exact Ew]. intros i w Hi. apply wordlist_word_shape. eapply index_word_In. exact Hi. }
    destruct (sentence_roundtrip ws Hne Hshape) as (S1 & S2 & S3).
    unfold entropy_from_mnemonic, split_mnemonic. rewrite S1, S2, S3, Hlen, Hc. cbn [negb].
    rewrite (map_opt_roundtrip english_words idx ws wordlist_nodup Ew).
    apply (mnemonic_indices_roundtrip sha256 sha_bytes); assumption.
  Qed.

  (* validate_iff_checksum *)
  Theorem validate_iff_checksum s :
    validate_mnemonic sha256 english_words s = None <->
    exists idx e, split_mnemonic english_words s = inr idx /\ all_bytes e = true /\
                  indices_of_entropy sha256 e = inr idx.
  Proof.
    unfold validate_mnemonic, entropy_from_mnemonic.
    destruct (split_mnemonic english_words s) as [err|idx] eqn:Es.
    - split; [discriminate|]. intros (idx & e & H & _). discriminate H.
    - pose proof (split_mnemonic_indices s idx Es) as Hr.
      destruct (entropy_of_indices sha256 idx) as [err|e] eqn:Ee.
      + split; [discriminate|]. intros (idx' & e & H & Hb & Hi). injection H as <-.
        assert (Ee' : entropy_of_indices sha256 idx = inr e) by (apply (indices_valid_iff_checksum sha256 sha_bytes idx e Hr); split; assumption).
        rewrite Ee in Ee'. discriminate Ee'.
      + split; [|reflexivity]. intros _. exists idx, e. split; [reflexivity|].
        apply (indices_valid_iff_checksum sha256 sha_bytes idx e Hr). exact Ee.
  Qed.
End Mnemonic.
