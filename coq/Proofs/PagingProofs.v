(* C29 — paging partitions the list. Proved against Gen/Page.v as regenerated
   from visor.NewPageIndex / PageIndex.Cal. *)
From Sky Require Import Base.Uint Gen.Page Model.Paging Proofs.UintLemmas.
From Coq Require Import Lia ZifyBool.
Open Scope Z_scope.

(* ---------- list facts *)

Lemma zskipn_skipn {A} (l : list A) : forall k, zskipn k l = skipn (Z.to_nat k) l.
Proof.
  induction l as [|x r IH]; intros k; cbn [zskipn].
  - now rewrite skipn_nil.
  - destruct (k <=? 0) eqn:E.
    + replace (Z.to_nat k) with O by lia. reflexivity.
    + replace (Z.to_nat k) with (S (Z.to_nat (k - 1))) by lia. cbn [skipn]. apply IH.
Qed.

Lemma zfirstn_firstn {A} (l : list A) : forall k, zfirstn k l = firstn (Z.to_nat k) l.
Proof.
  induction l as [|x r IH]; intros k; cbn [zfirstn].
  - now rewrite firstn_nil.
  - destruct (k <=? 0) eqn:E.
    + replace (Z.to_nat k) with O by lia. reflexivity.
    + replace (Z.to_nat k) with (S (Z.to_nat (k - 1))) by lia. cbn [firstn]. now rewrite IH.
Qed.

Lemma chunk_firstn_skipn {A} (l : list A) size n :
  chunk l size n = firstn (Z.to_nat size) (skipn (Z.to_nat (size * (n - 1))) l).
Proof. unfold chunk. now rewrite zfirstn_firstn, zskipn_skipn. Qed.

Lemma firstn_add {A} (l : list A) : forall a b,
  firstn (a + b) l = firstn a l ++ firstn b (skipn a l).
Proof.
  induction l as [|x r IH]; intros a b.
  - now rewrite !firstn_nil, skipn_nil, firstn_nil.
  - destruct a as [|a]; [reflexivity|].
    cbn [Nat.add firstn skipn app]. now rewrite IH.
Qed.

Lemma firstn_min_length {A} (l : list A) a :
  firstn (Nat.min a (List.length l)) l = firstn a l.
Proof.
  destruct (Nat.le_ge_cases a (List.length l)) as [H|H].
  - now rewrite Nat.min_l by exact H.
  - rewrite Nat.min_r by exact H. now rewrite firstn_all, firstn_all2 by exact H.
Qed.

Lemma zseq_snoc : forall k lo, zseq lo (S k) = zseq lo k ++ [lo + Z.of_nat k].
Proof.
  induction k as [|k IH]; intros lo.
  - cbn [zseq app]. f_equal. lia.
  - change (zseq lo (S (S k))) with (lo :: zseq (lo + 1) (S k)). rewrite IH.
    cbn [zseq app]. do 2 f_equal. f_equal. lia.
Qed.

Lemma zseq_In : forall k lo x, In x (zseq lo k) -> lo <= x < lo + Z.of_nat k.
Proof.
  induction k as [|k IH]; intros lo x H; cbn [zseq In] in H; [contradiction|].
  destruct H as [H|H]; [lia|]. apply IH in H. lia.
Qed.

(* the first k mathematical pages are the first size*k items *)
Lemma concat_chunks {A} (l : list A) size : 0 <= size -> forall k,
  List.concat (map (chunk l size) (zseq 1 k)) = firstn (Z.to_nat size * k) l.
Proof.
  intros Hs. induction k as [|k IH].
  - rewrite Nat.mul_0_r. reflexivity.
  - rewrite zseq_snoc, map_app, concat_app, IH. cbn [map List.concat]. rewrite app_nil_r.
    rewrite chunk_firstn_skipn.
    replace (Z.to_nat (size * (1 + Z.of_nat k - 1))) with (Z.to_nat size * k)%nat by nia.
    replace (Z.to_nat size * S k)%nat with (Z.to_nat size * k + Z.to_nat size)%nat by lia.
    now rewrite firstn_add.
Qed.

Lemma Forall2_map_r {A B} (P : A -> B -> Prop) (f : A -> B) (xs : list A) :
  (forall x, In x xs -> P x (f x)) -> Forall2 P xs (map f xs).
Proof.
  induction xs as [|x r IH]; intros H; cbn [map]; constructor.
  - apply H. now left.
  - apply IH. intros y Hy. apply H. now right.
Qed.

(* ---------- page count *)

Lemma page_count_alt n size : 0 <= n -> 1 <= size ->
  page_count n size = n / size + (if n mod size =? 0 then 0 else 1).
Proof.
  intros Hn Hs. unfold page_count.
  pose proof (Z.div_mod n size ltac:(lia)) as E.
  pose proof (Z.mod_pos_bound n size ltac:(lia)) as B.
  destruct (n mod size =? 0) eqn:E0.
  - assert (n mod size = 0) as M by lia. rewrite M in E.
    replace (n + size - 1) with ((size - 1) + (n / size) * size) by lia.
    rewrite Z.div_add by lia. rewrite Z.div_small by lia. lia.
  - replace (n + size - 1) with ((n mod size - 1) + (n / size + 1) * size) by lia.
    rewrite Z.div_add by lia. rewrite Z.div_small by lia. lia.
Qed.

(* N = ceil(n/size): the least N with n <= size*N *)
Lemma page_count_bounds n size : 0 <= n -> 1 <= size ->
  let N := page_count n size in
  0 <= N /\ size * (N - 1) < n + (if n =? 0 then 1 else 0) /\ n <= size * N /\ N <= n.
Proof.
  intros Hn Hs N. subst N. rewrite page_count_alt by lia.
  pose proof (Z.div_mod n size ltac:(lia)) as E.
  pose proof (Z.mod_pos_bound n size ltac:(lia)) as B.
  assert (0 <= n / size) by (apply Z.div_pos; lia).
  destruct (n mod size =? 0) eqn:E0; destruct (n =? 0) eqn:E1; repeat split; nia.
Qed.

(* ---------- Cal *)

Definition cal_spec (size pn n : Z) : Z * Z * Z * error :=
  let N := page_count n size in
  if pn <=? N then (size * (pn - 1), Z.min (size * pn) n, N, None) else (0, 0, N, None).

(* The proofs about the regenerated definitions do not depend on the exact shape
   of the translated term: every `if` is split, every `wrap` is shown not to
   wrap from the path conditions, the leaves are closed by lia/nia. A rewrite
   of the Go code that keeps its meaning keeps these proofs. *)
Ltac arith := rewrite ?pow64 in *; first [lia | nia].
Ltac unwrap1 :=
  match goal with
  | H : context [wrap 64 ?x] |- _ =>
      lazymatch x with context [wrap _ _] => fail
      | _ => rewrite (wrap_small 64 x) in H by (rewrite pow64; arith) end
  | |- context [wrap 64 ?x] =>
      lazymatch x with context [wrap _ _] => fail
      | _ => rewrite (wrap_small 64 x) by (rewrite pow64; arith) end
  end.
Ltac split_if :=
  match goal with
  | |- context [if ?c then _ else _] =>
      lazymatch c with context [if _ then _ else _] => fail | _ => destruct c eqn:? end
  end.

Lemma quad_eq (a b c a' b' c' : Z) (d d' : error) :
  a = a' -> b = b' -> c = c' -> d = d' ->
  @Val (Z * Z * Z * error) (a, b, c, d) = Val (a', b', c', d').
Proof. intros; subst; reflexivity. Qed.

Lemma Cal_spec size pn n :
  1 <= size < 2 ^ 63 -> 1 <= pn < 2 ^ 64 -> 0 <= n < 2 ^ 63 ->
  PageIndex_Cal size pn n = Val (cal_spec size pn n).
Proof.
  intros Hs Hp Hn. unfold cal_spec. rewrite (page_count_alt n size) by lia.
  rewrite pow63, pow64 in *.
  pose proof (Z.div_mod n size ltac:(lia)) as E.
  pose proof (Z.mod_pos_bound n size ltac:(lia)) as B.
  assert (Hq : 0 <= n / size) by (apply Z.div_pos; lia).
  unfold PageIndex_Cal, udiv, umod.
  generalize dependent (n / size). generalize dependent (n mod size). intros r Hr q Hq E.
  cbv zeta.
  repeat first [ progress cbn [bind negb] | split_if ];
  repeat unwrap1;
  try discriminate.
  all: try (exfalso; arith).
  all: apply quad_eq; first [reflexivity | arith].
Qed.

(* ---------- Pagination *)

Lemma NewPageIndex_ok size pn : 1 <= size <= 100 -> 1 <= pn ->
  NewPageIndex size pn = Val (Some (size, pn), None).
Proof.
  intros Hs Hp. unfold NewPageIndex.
  repeat split_if; first [reflexivity | exfalso; lia].
Qed.

Lemma page_spec {A} (l : list A) size pn :
  1 <= size <= 100 -> 1 <= pn < 2 ^ 64 -> Z.of_nat (List.length l) < 2 ^ 63 ->
  page l size pn = Val (chunk l size pn, page_count (Z.of_nat (List.length l)) size, None).
Proof.
  intros Hs Hp Hl. unfold page, cal_via_new.
  rewrite NewPageIndex_ok by lia.
  rewrite pow63 in *.
  rewrite Cal_spec by (rewrite ?pow63; lia).
  set (n := Z.of_nat (List.length l)) in *.
  destruct (page_count_bounds n size ltac:(lia) ltac:(lia)) as (HN0 & HNlo & HNhi & HNn).
  unfold cal_spec. set (N := page_count n size) in *.
  rewrite chunk_firstn_skipn.
  destruct (pn <=? N) eqn:E.
  - assert (Hst : 0 <= size * (pn - 1) < n) by (destruct (n =? 0) eqn:En; nia).
    unfold slice. fold n.
    replace ((0 <=? size * (pn - 1)) && (size * (pn - 1) <=? Z.min (size * pn) n) && (Z.min (size * pn) n <=? n))
      with true by lia.
    rewrite bind_val. do 3 f_equal.
    rewrite <- (firstn_min_length (skipn _ l) (Z.to_nat size)).
    f_equal. rewrite skipn_length. subst n. lia.
  - unfold slice. cbn [Z.leb Z.compare andb]. rewrite Z.sub_0_r. cbn [Z.to_nat firstn].
    replace (0 <=? Z.of_nat (List.length l)) with true by lia. rewrite bind_val.
    do 3 f_equal. rewrite skipn_all2 by (subst n; nia). now rewrite firstn_nil.
Qed.

Lemma page_beyond {A} (l : list A) size pn :
  1 <= size <= 100 -> Z.of_nat (List.length l) < 2 ^ 63 ->
  page_count (Z.of_nat (List.length l)) size < pn < 2 ^ 64 ->
  page l size pn = Val ([], page_count (Z.of_nat (List.length l)) size, None).
Proof.
  intros Hs Hl Hp.
  destruct (page_count_bounds (Z.of_nat (List.length l)) size ltac:(lia) ltac:(lia)) as (HN0 & HNlo & HNhi & HNn).
  rewrite page_spec by lia. do 3 f_equal.
  rewrite chunk_firstn_skipn. rewrite skipn_all2 by nia. now rewrite firstn_nil.
Qed.

Lemma chunks_cover {A} (l : list A) size : 1 <= size ->
  List.concat (map (chunk l size) (pages_upto (page_count (Z.of_nat (List.length l)) size))) = l.
Proof.
  intros Hs. unfold pages_upto. rewrite concat_chunks by lia.
  destruct (page_count_bounds (Z.of_nat (List.length l)) size ltac:(lia) ltac:(lia)) as (HN0 & HNlo & HNhi & HNn).
  apply firstn_all2. nia.
Qed.

Theorem pages_partition {A} (l : list A) size :
  1 <= size <= 100 -> Z.of_nat (List.length l) < 2 ^ 63 ->
  let N := page_count (Z.of_nat (List.length l)) size in
  exists ps : list (list A),
    Forall2 (fun n p => page l size n = Val (p, N, None)) (pages_upto N) ps /\
    List.concat ps = l /\
    forall n, N < n < 2 ^ 64 -> page l size n = Val ([], N, None).
Proof.
  intros Hs Hl N.
  destruct (page_count_bounds (Z.of_nat (List.length l)) size ltac:(lia) ltac:(lia)) as (HN0 & HNlo & HNhi & HNn).
  exists (map (chunk l size) (pages_upto N)). split; [|split].
  - apply Forall2_map_r. intros n Hn. unfold pages_upto in Hn. apply zseq_In in Hn.
    apply page_spec; try assumption. fold N in HNn. rewrite pow63, pow64 in *. lia.
  - apply chunks_cover. lia.
  - intros n Hn. apply page_beyond; assumption.
Qed.

(* requests outside the limits are rejected, and nothing panics *)
Lemma page_rejects {A} (l : list A) size pn : 0 <= size -> 0 <= pn ->
  ~ (1 <= size <= 100 /\ 1 <= pn) ->
  exists e, page l size pn = Val ([], 0, Some e).
Proof.
  intros Hs Hp Hn. unfold page, cal_via_new, NewPageIndex.
  repeat split_if; first [eexists; reflexivity | exfalso; lia].
Qed.

Lemma page_no_panic {A} (l : list A) size pn :
  0 <= size < 2 ^ 64 -> 0 <= pn < 2 ^ 64 -> Z.of_nat (List.length l) < 2 ^ 63 ->
  page l size pn <> Panic.
Proof.
  intros Hs Hp Hl.
  destruct (Z.leb 1 size && Z.leb size 100 && Z.leb 1 pn) eqn:E.
  - rewrite page_spec by lia. discriminate.
  - destruct (page_rejects l size pn) as [e He]; try lia. rewrite He. discriminate.
Qed.
