(* Proofs/FieldMul.v — C14: Field.Mul (and Field.Sqr) of secp256k1-go2/field.go, as
   regenerated into Gen/FieldLimbs.v (straight-line code, uint64 accumulators),
   multiply modulo p.
   Method: (1) interval arithmetic by LEMMA APPLICATION (no search): every
   variable carries 0 <= v <= numeral; each `wrap 64` / `wrap 32` is removed
   because its argument's interval is below 2^64 / 2^32 — under magnitude <= 8
   for both inputs NO accumulator wraps; (2) each `x & M` / `x >> s` pair becomes
   x = 2^s * q + r; (3) what is left is a system of linear equations in the
   products a_i * b_j, and  val r + p * k = val a * val b  holds with the explicit
   k = 16 * (t10 + t11 2^26 + .. + t19 2^234) + c  (the folded high half and the
   final carry), closed by lia on equalities only. *)
From Coq Require Import Lia ZifyBool.
From Sky Require Import Base.Uint Model.Secp Model.FieldSpec Gen.FieldLimbs Proofs.UintLemmas Proofs.FieldLimbs.
Open Scope Z_scope.

(* interval arithmetic by lemma application (no search): every variable v carries
   a hypothesis 0 <= v <= K with K a numeral *)
Lemma mul_bounds : forall a b A B, 0 <= a <= A -> 0 <= b <= B -> 0 <= a * b <= A * B.
Proof. intros. split; [apply Z.mul_nonneg_nonneg; lia|apply Z.mul_le_mono_nonneg; lia]. Qed.
Lemma add_bounds : forall a b A B, 0 <= a <= A -> 0 <= b <= B -> 0 <= a + b <= A + B.
Proof. intros. lia. Qed.
Lemma mulc_bounds : forall a k A, 0 <= a <= A -> 0 <=? k = true -> 0 <= a * k <= A * k.
Proof. intros a k A H Hk. apply Z.leb_le in Hk. split; [apply Z.mul_nonneg_nonneg; lia|apply Z.mul_le_mono_nonneg_r; lia]. Qed.
Lemma const_bounds : forall k, 0 <=? k = true -> 0 <= k <= k.
Proof. intros k Hk. apply Z.leb_le in Hk. lia. Qed.
Lemma small_of_bound : forall bits x K, 0 <= x <= K -> K <? 2 ^ bits = true -> 0 <= x < 2 ^ bits.
Proof. intros bits x K H HK. apply Z.ltb_lt in HK. lia. Qed.
Lemma mod_bound_le : forall c m, 0 <? m = true -> 0 <= c mod m <= m - 1.
Proof. intros c m Hm. apply Z.ltb_lt in Hm. pose proof (Z.mod_pos_bound c m Hm). lia. Qed.
Lemma div_bound_le : forall c m K, 0 <? m = true -> 0 <= c <= K -> 0 <= c / m <= K / m.
Proof.
  intros c m K Hm H. apply Z.ltb_lt in Hm. split; [apply Z.div_pos; lia|apply Z.div_le_mono; lia].
Qed.
Lemma divmod_eq : forall c m y t, 0 <? m = true -> t = c mod m -> y = c / m -> c = m * y + t.
Proof. intros c m y t Hm -> ->. apply Z.ltb_lt in Hm. apply Z.div_mod. lia. Qed.
Lemma mod32_mod22 : forall a, (a mod 2 ^ 32) mod 2 ^ 22 = a mod 2 ^ 22.
Proof.
  intros a. symmetry. apply (Znumtheory.Zmod_div_mod (2 ^ 22) (2 ^ 32)); [lia|lia|].
  exists (2 ^ 10). reflexivity.
Qed.
Lemma bound_eq : forall x y K, x = y -> 0 <= y <= K -> 0 <= x <= K.
Proof. intros x y K -> H. exact H. Qed.

Ltac prove_bound :=
  lazymatch goal with
  | |- 0 <= ?a + ?b <= _ => eapply add_bounds; [prove_bound|prove_bound]
  | |- 0 <= ?a * ?k <= _ => eapply mulc_bounds; [prove_bound|reflexivity]
  | |- 0 <= ?a <= _ => first [eassumption | apply const_bounds; reflexivity]
  end.

Ltac unwrap_one H :=
  match type of H with
  | context [wrap ?n ?x] =>
      lazymatch x with context [wrap _ _] => fail | _ => idtac end;
      rewrite (wrap_small n x) in H by (eapply small_of_bound; [prove_bound|vm_compute; reflexivity])
  end.

Ltac add_bound y H :=
  let Bd := fresh "B" y in
  let K := fresh "K" in
  evar (K : Z);
  assert (Bd : 0 <= y <= K) by (subst K; eapply bound_eq; [exact H|prove_bound]);
  let k := eval vm_compute in K in
  change K with k in Bd; subst K.

Ltac mstep :=
  lazymatch goal with
  | |- returns ?Q (let x := ?e in @?b x) =>
      let y := fresh x in
      let H := fresh "D" y in
      apply (returns_let Q e b); intros y H; cbv beta;
      lazymatch type of H with
      | _ = Z.land _ 67108863 =>
          rewrite land_26 in H; unfold wrap in H; rewrite ?mod32_mod26 in H;
          let Bd := fresh "B" y in
          lazymatch type of H with _ = ?cc mod _ =>
            pose proof (mod_bound_le cc (2 ^ 26) eq_refl) as Bd end;
          rewrite <- H in Bd;
          change (2 ^ 26 - 1) with 67108863 in Bd
      | _ = Z.land _ 4194303 =>
          rewrite land_22 in H; unfold wrap in H; rewrite ?mod32_mod22 in H;
          let Bd := fresh "B" y in
          lazymatch type of H with _ = ?cc mod _ =>
            pose proof (mod_bound_le cc (2 ^ 22) eq_refl) as Bd end;
          rewrite <- H in Bd;
          change (2 ^ 22 - 1) with 4194303 in Bd
      | _ = Z.shiftr ?c ?s =>
          rewrite ?shiftr_26, ?shiftr_22 in H;
          match goal with
          | Ht : ?t = c mod ?m, Bc : 0 <= c <= ?K |- _ =>
              let E := fresh "E" in
              pose proof (divmod_eq c m y t eq_refl Ht H) as E;
              let Bd := fresh "B" y in
              pose proof (div_bound_le c m K eq_refl Bc) as Bd; rewrite <- H in Bd;
              let k := eval vm_compute in (K / m) in change (K / m) with k in Bd;
              clear Ht H
          end
      | _ => repeat unwrap_one H; add_bound y H
      end
  end.

Lemma val_mul_expand : forall fd_n0 fd_n1 fd_n2 fd_n3 fd_n4 fd_n5 fd_n6 fd_n7 fd_n8 fd_n9 b_n0 b_n1 b_n2 b_n3 b_n4 b_n5 b_n6 b_n7 b_n8 b_n9,
  val (fd_n0, fd_n1, fd_n2, fd_n3, fd_n4, fd_n5, fd_n6, fd_n7, fd_n8, fd_n9) * val (b_n0, b_n1, b_n2, b_n3, b_n4, b_n5, b_n6, b_n7, b_n8, b_n9) = fd_n0 * b_n0 * 2 ^ 0 + fd_n0 * b_n1 * 2 ^ 26 + fd_n0 * b_n2 * 2 ^ 52 + fd_n0 * b_n3 * 2 ^ 78 + fd_n0 * b_n4 * 2 ^ 104 + fd_n0 * b_n5 * 2 ^ 130 + fd_n0 * b_n6 * 2 ^ 156 + fd_n0 * b_n7 * 2 ^ 182 + fd_n0 * b_n8 * 2 ^ 208 + fd_n0 * b_n9 * 2 ^ 234 + fd_n1 * b_n0 * 2 ^ 26 + fd_n1 * b_n1 * 2 ^ 52 + fd_n1 * b_n2 * 2 ^ 78 + fd_n1 * b_n3 * 2 ^ 104 + fd_n1 * b_n4 * 2 ^ 130 + fd_n1 * b_n5 * 2 ^ 156 + fd_n1 * b_n6 * 2 ^ 182 + fd_n1 * b_n7 * 2 ^ 208 + fd_n1 * b_n8 * 2 ^ 234 + fd_n1 * b_n9 * 2 ^ 260 + fd_n2 * b_n0 * 2 ^ 52 + fd_n2 * b_n1 * 2 ^ 78 + fd_n2 * b_n2 * 2 ^ 104 + fd_n2 * b_n3 * 2 ^ 130 + fd_n2 * b_n4 * 2 ^ 156 + fd_n2 * b_n5 * 2 ^ 182 + fd_n2 * b_n6 * 2 ^ 208 + fd_n2 * b_n7 * 2 ^ 234 + fd_n2 * b_n8 * 2 ^ 260 + fd_n2 * b_n9 * 2 ^ 286 + fd_n3 * b_n0 * 2 ^ 78 + fd_n3 * b_n1 * 2 ^ 104 + fd_n3 * b_n2 * 2 ^ 130 + fd_n3 * b_n3 * 2 ^ 156 + fd_n3 * b_n4 * 2 ^ 182 + fd_n3 * b_n5 * 2 ^ 208 + fd_n3 * b_n6 * 2 ^ 234 + fd_n3 * b_n7 * 2 ^ 260 + fd_n3 * b_n8 * 2 ^ 286 + fd_n3 * b_n9 * 2 ^ 312 + fd_n4 * b_n0 * 2 ^ 104 + fd_n4 * b_n1 * 2 ^ 130 + fd_n4 * b_n2 * 2 ^ 156 + fd_n4 * b_n3 * 2 ^ 182 + fd_n4 * b_n4 * 2 ^ 208 + fd_n4 * b_n5 * 2 ^ 234 + fd_n4 * b_n6 * 2 ^ 260 + fd_n4 * b_n7 * 2 ^ 286 + fd_n4 * b_n8 * 2 ^ 312 + fd_n4 * b_n9 * 2 ^ 338 + fd_n5 * b_n0 * 2 ^ 130 + fd_n5 * b_n1 * 2 ^ 156 + fd_n5 * b_n2 * 2 ^ 182 + fd_n5 * b_n3 * 2 ^ 208 + fd_n5 * b_n4 * 2 ^ 234 + fd_n5 * b_n5 * 2 ^ 260 + fd_n5 * b_n6 * 2 ^ 286 + fd_n5 * b_n7 * 2 ^ 312 + fd_n5 * b_n8 * 2 ^ 338 + fd_n5 * b_n9 * 2 ^ 364 + fd_n6 * b_n0 * 2 ^ 156 + fd_n6 * b_n1 * 2 ^ 182 + fd_n6 * b_n2 * 2 ^ 208 + fd_n6 * b_n3 * 2 ^ 234 + fd_n6 * b_n4 * 2 ^ 260 + fd_n6 * b_n5 * 2 ^ 286 + fd_n6 * b_n6 * 2 ^ 312 + fd_n6 * b_n7 * 2 ^ 338 + fd_n6 * b_n8 * 2 ^ 364 + fd_n6 * b_n9 * 2 ^ 390 + fd_n7 * b_n0 * 2 ^ 182 + fd_n7 * b_n1 * 2 ^ 208 + fd_n7 * b_n2 * 2 ^ 234 + fd_n7 * b_n3 * 2 ^ 260 + fd_n7 * b_n4 * 2 ^ 286 + fd_n7 * b_n5 * 2 ^ 312 + fd_n7 * b_n6 * 2 ^ 338 + fd_n7 * b_n7 * 2 ^ 364 + fd_n7 * b_n8 * 2 ^ 390 + fd_n7 * b_n9 * 2 ^ 416 + fd_n8 * b_n0 * 2 ^ 208 + fd_n8 * b_n1 * 2 ^ 234 + fd_n8 * b_n2 * 2 ^ 260 + fd_n8 * b_n3 * 2 ^ 286 + fd_n8 * b_n4 * 2 ^ 312 + fd_n8 * b_n5 * 2 ^ 338 + fd_n8 * b_n6 * 2 ^ 364 + fd_n8 * b_n7 * 2 ^ 390 + fd_n8 * b_n8 * 2 ^ 416 + fd_n8 * b_n9 * 2 ^ 442 + fd_n9 * b_n0 * 2 ^ 234 + fd_n9 * b_n1 * 2 ^ 260 + fd_n9 * b_n2 * 2 ^ 286 + fd_n9 * b_n3 * 2 ^ 312 + fd_n9 * b_n4 * 2 ^ 338 + fd_n9 * b_n5 * 2 ^ 364 + fd_n9 * b_n6 * 2 ^ 390 + fd_n9 * b_n7 * 2 ^ 416 + fd_n9 * b_n8 * 2 ^ 442 + fd_n9 * b_n9 * 2 ^ 468.
Proof. intros. cbn [val]. ring. Qed.

Theorem Mul_correct : forall fd_n0 fd_n1 fd_n2 fd_n3 fd_n4 fd_n5 fd_n6 fd_n7 fd_n8 fd_n9 b_n0 b_n1 b_n2 b_n3 b_n4 b_n5 b_n6 b_n7 b_n8 b_n9,
  mag 8 (fd_n0, fd_n1, fd_n2, fd_n3, fd_n4, fd_n5, fd_n6, fd_n7, fd_n8, fd_n9) -> mag 8 (b_n0, b_n1, b_n2, b_n3, b_n4, b_n5, b_n6, b_n7, b_n8, b_n9) ->
  returns (fun r => mul_out r /\ exists k, 0 <= k /\ val r + p * k = val (fd_n0, fd_n1, fd_n2, fd_n3, fd_n4, fd_n5, fd_n6, fd_n7, fd_n8, fd_n9) * val (b_n0, b_n1, b_n2, b_n3, b_n4, b_n5, b_n6, b_n7, b_n8, b_n9))
    (Field_Mul fd_n0 fd_n1 fd_n2 fd_n3 fd_n4 fd_n5 fd_n6 fd_n7 fd_n8 fd_n9 b_n0 b_n1 b_n2 b_n3 b_n4 b_n5 b_n6 b_n7 b_n8 b_n9).
Proof.
  intros fd_n0 fd_n1 fd_n2 fd_n3 fd_n4 fd_n5 fd_n6 fd_n7 fd_n8 fd_n9 b_n0 b_n1 b_n2 b_n3 b_n4 b_n5 b_n6 b_n7 b_n8 b_n9 Ha Hb. unfold mag in Ha, Hb.
  rewrite val_mul_expand.
  cbv beta delta [Field_Mul].
  assert (P00 : 0 <= fd_n0 * b_n0 <= 288230367561777216) by (apply (mul_bounds _ _ 536870904 536870904); lia).
  assert (P01 : 0 <= fd_n0 * b_n1 <= 288230367561777216) by (apply (mul_bounds _ _ 536870904 536870904); lia).
  assert (P02 : 0 <= fd_n0 * b_n2 <= 288230367561777216) by (apply (mul_bounds _ _ 536870904 536870904); lia).
  assert (P03 : 0 <= fd_n0 * b_n3 <= 288230367561777216) by (apply (mul_bounds _ _ 536870904 536870904); lia).
  assert (P04 : 0 <= fd_n0 * b_n4 <= 288230367561777216) by (apply (mul_bounds _ _ 536870904 536870904); lia).
  assert (P05 : 0 <= fd_n0 * b_n5 <= 288230367561777216) by (apply (mul_bounds _ _ 536870904 536870904); lia).
  assert (P06 : 0 <= fd_n0 * b_n6 <= 288230367561777216) by (apply (mul_bounds _ _ 536870904 536870904); lia).
  assert (P07 : 0 <= fd_n0 * b_n7 <= 288230367561777216) by (apply (mul_bounds _ _ 536870904 536870904); lia).
  assert (P08 : 0 <= fd_n0 * b_n8 <= 288230367561777216) by (apply (mul_bounds _ _ 536870904 536870904); lia).
  assert (P09 : 0 <= fd_n0 * b_n9 <= 18014393946079296) by (apply (mul_bounds _ _ 536870904 33554424); lia).
  assert (P10 : 0 <= fd_n1 * b_n0 <= 288230367561777216) by (apply (mul_bounds _ _ 536870904 536870904); lia).
  assert (P11 : 0 <= fd_n1 * b_n1 <= 288230367561777216) by (apply (mul_bounds _ _ 536870904 536870904); lia).
  assert (P12 : 0 <= fd_n1 * b_n2 <= 288230367561777216) by (apply (mul_bounds _ _ 536870904 536870904); lia).
  assert (P13 : 0 <= fd_n1 * b_n3 <= 288230367561777216) by (apply (mul_bounds _ _ 536870904 536870904); lia).
  assert (P14 : 0 <= fd_n1 * b_n4 <= 288230367561777216) by (apply (mul_bounds _ _ 536870904 536870904); lia).
  assert (P15 : 0 <= fd_n1 * b_n5 <= 288230367561777216) by (apply (mul_bounds _ _ 536870904 536870904); lia).
  assert (P16 : 0 <= fd_n1 * b_n6 <= 288230367561777216) by (apply (mul_bounds _ _ 536870904 536870904); lia).
  assert (P17 : 0 <= fd_n1 * b_n7 <= 288230367561777216) by (apply (mul_bounds _ _ 536870904 536870904); lia).
  assert (P18 : 0 <= fd_n1 * b_n8 <= 288230367561777216) by (apply (mul_bounds _ _ 536870904 536870904); lia).
  assert (P19 : 0 <= fd_n1 * b_n9 <= 18014393946079296) by (apply (mul_bounds _ _ 536870904 33554424); lia).
  assert (P20 : 0 <= fd_n2 * b_n0 <= 288230367561777216) by (apply (mul_bounds _ _ 536870904 536870904); lia).
  assert (P21 : 0 <= fd_n2 * b_n1 <= 288230367561777216) by (apply (mul_bounds _ _ 536870904 536870904); lia).
  assert (P22 : 0 <= fd_n2 * b_n2 <= 288230367561777216) by (apply (mul_bounds _ _ 536870904 536870904); lia).
  assert (P23 : 0 <= fd_n2 * b_n3 <= 288230367561777216) by (apply (mul_bounds _ _ 536870904 536870904); lia).
  assert (P24 : 0 <= fd_n2 * b_n4 <= 288230367561777216) by (apply (mul_bounds _ _ 536870904 536870904); lia).
  assert (P25 : 0 <= fd_n2 * b_n5 <= 288230367561777216) by (apply (mul_bounds _ _ 536870904 536870904); lia).
  assert (P26 : 0 <= fd_n2 * b_n6 <= 288230367561777216) by (apply (mul_bounds _ _ 536870904 536870904); lia).
  assert (P27 : 0 <= fd_n2 * b_n7 <= 288230367561777216) by (apply (mul_bounds _ _ 536870904 536870904); lia).
  assert (P28 : 0 <= fd_n2 * b_n8 <= 288230367561777216) by (apply (mul_bounds _ _ 536870904 536870904); lia).
  assert (P29 : 0 <= fd_n2 * b_n9 <= 18014393946079296) by (apply (mul_bounds _ _ 536870904 33554424); lia).
  assert (P30 : 0 <= fd_n3 * b_n0 <= 288230367561777216) by (apply (mul_bounds _ _ 536870904 536870904); lia).
  assert (P31 : 0 <= fd_n3 * b_n1 <= 288230367561777216) by (apply (mul_bounds _ _ 536870904 536870904); lia).
  assert (P32 : 0 <= fd_n3 * b_n2 <= 288230367561777216) by (apply (mul_bounds _ _ 536870904 536870904); lia).
  assert (P33 : 0 <= fd_n3 * b_n3 <= 288230367561777216) by (apply (mul_bounds _ _ 536870904 536870904); lia).
  assert (P34 : 0 <= fd_n3 * b_n4 <= 288230367561777216) by (apply (mul_bounds _ _ 536870904 536870904); lia).
  assert (P35 : 0 <= fd_n3 * b_n5 <= 288230367561777216) by (apply (mul_bounds _ _ 536870904 536870904); lia).
  assert (P36 : 0 <= fd_n3 * b_n6 <= 288230367561777216) by (apply (mul_bounds _ _ 536870904 536870904); lia).
  assert (P37 : 0 <= fd_n3 * b_n7 <= 288230367561777216) by (apply (mul_bounds _ _ 536870904 536870904); lia).
  assert (P38 : 0 <= fd_n3 * b_n8 <= 288230367561777216) by (apply (mul_bounds _ _ 536870904 536870904); lia).
  assert (P39 : 0 <= fd_n3 * b_n9 <= 18014393946079296) by (apply (mul_bounds _ _ 536870904 33554424); lia).
  assert (P40 : 0 <= fd_n4 * b_n0 <= 288230367561777216) by (apply (mul_bounds _ _ 536870904 536870904); lia).
  assert (P41 : 0 <= fd_n4 * b_n1 <= 288230367561777216) by (apply (mul_bounds _ _ 536870904 536870904); lia).
  assert (P42 : 0 <= fd_n4 * b_n2 <= 288230367561777216) by (apply (mul_bounds _ _ 536870904 536870904); lia).
  assert (P43 : 0 <= fd_n4 * b_n3 <= 288230367561777216) by (apply (mul_bounds _ _ 536870904 536870904); lia).
  assert (P44 : 0 <= fd_n4 * b_n4 <= 288230367561777216) by (apply (mul_bounds _ _ 536870904 536870904); lia).
  assert (P45 : 0 <= fd_n4 * b_n5 <= 288230367561777216) by (apply (mul_bounds _ _ 536870904 536870904); lia).
  assert (P46 : 0 <= fd_n4 * b_n6 <= 288230367561777216) by (apply (mul_bounds _ _ 536870904 536870904); lia).
  assert (P47 : 0 <= fd_n4 * b_n7 <= 288230367561777216) by (apply (mul_bounds _ _ 536870904 536870904); lia).
  assert (P48 : 0 <= fd_n4 * b_n8 <= 288230367561777216) by (apply (mul_bounds _ _ 536870904 536870904); lia).
  assert (P49 : 0 <= fd_n4 * b_n9 <= 18014393946079296) by (apply (mul_bounds _ _ 536870904 33554424); lia).
  assert (P50 : 0 <= fd_n5 * b_n0 <= 288230367561777216) by (apply (mul_bounds _ _ 536870904 536870904); lia).
  assert (P51 : 0 <= fd_n5 * b_n1 <= 288230367561777216) by (apply (mul_bounds _ _ 536870904 536870904); lia).
  assert (P52 : 0 <= fd_n5 * b_n2 <= 288230367561777216) by (apply (mul_bounds _ _ 536870904 536870904); lia).
  assert (P53 : 0 <= fd_n5 * b_n3 <= 288230367561777216) by (apply (mul_bounds _ _ 536870904 536870904); lia).
  assert (P54 : 0 <= fd_n5 * b_n4 <= 288230367561777216) by (apply (mul_bounds _ _ 536870904 536870904); lia).
  assert (P55 : 0 <= fd_n5 * b_n5 <= 288230367561777216) by (apply (mul_bounds _ _ 536870904 536870904); lia).
  assert (P56 : 0 <= fd_n5 * b_n6 <= 288230367561777216) by (apply (mul_bounds _ _ 536870904 536870904); lia).
  assert (P57 : 0 <= fd_n5 * b_n7 <= 288230367561777216) by (apply (mul_bounds _ _ 536870904 536870904); lia).
  assert (P58 : 0 <= fd_n5 * b_n8 <= 288230367561777216) by (apply (mul_bounds _ _ 536870904 536870904); lia).
  assert (P59 : 0 <= fd_n5 * b_n9 <= 18014393946079296) by (apply (mul_bounds _ _ 536870904 33554424); lia).
  assert (P60 : 0 <= fd_n6 * b_n0 <= 288230367561777216) by (apply (mul_bounds _ _ 536870904 536870904); lia).
  assert (P61 : 0 <= fd_n6 * b_n1 <= 288230367561777216) by (apply (mul_bounds _ _ 536870904 536870904); lia).
  assert (P62 : 0 <= fd_n6 * b_n2 <= 288230367561777216) by (apply (mul_bounds _ _ 536870904 536870904); lia).
  assert (P63 : 0 <= fd_n6 * b_n3 <= 288230367561777216) by (apply (mul_bounds _ _ 536870904 536870904); lia).
  assert (P64 : 0 <= fd_n6 * b_n4 <= 288230367561777216) by (apply (mul_bounds _ _ 536870904 536870904); lia).
  assert (P65 : 0 <= fd_n6 * b_n5 <= 288230367561777216) by (apply (mul_bounds _ _ 536870904 536870904); lia).
  assert (P66 : 0 <= fd_n6 * b_n6 <= 288230367561777216) by (apply (mul_bounds _ _ 536870904 536870904); lia).
  assert (P67 : 0 <= fd_n6 * b_n7 <= 288230367561777216) by (apply (mul_bounds _ _ 536870904 536870904); lia).
  assert (P68 : 0 <= fd_n6 * b_n8 <= 288230367561777216) by (apply (mul_bounds _ _ 536870904 536870904); lia).
  assert (P69 : 0 <= fd_n6 * b_n9 <= 18014393946079296) by (apply (mul_bounds _ _ 536870904 33554424); lia).
  assert (P70 : 0 <= fd_n7 * b_n0 <= 288230367561777216) by (apply (mul_bounds _ _ 536870904 536870904); lia).
  assert (P71 : 0 <= fd_n7 * b_n1 <= 288230367561777216) by (apply (mul_bounds _ _ 536870904 536870904); lia).
  assert (P72 : 0 <= fd_n7 * b_n2 <= 288230367561777216) by (apply (mul_bounds _ _ 536870904 536870904); lia).
  assert (P73 : 0 <= fd_n7 * b_n3 <= 288230367561777216) by (apply (mul_bounds _ _ 536870904 536870904); lia).
  assert (P74 : 0 <= fd_n7 * b_n4 <= 288230367561777216) by (apply (mul_bounds _ _ 536870904 536870904); lia).
  assert (P75 : 0 <= fd_n7 * b_n5 <= 288230367561777216) by (apply (mul_bounds _ _ 536870904 536870904); lia).
  assert (P76 : 0 <= fd_n7 * b_n6 <= 288230367561777216) by (apply (mul_bounds _ _ 536870904 536870904); lia).
  assert (P77 : 0 <= fd_n7 * b_n7 <= 288230367561777216) by (apply (mul_bounds _ _ 536870904 536870904); lia).
  assert (P78 : 0 <= fd_n7 * b_n8 <= 288230367561777216) by (apply (mul_bounds _ _ 536870904 536870904); lia).
  assert (P79 : 0 <= fd_n7 * b_n9 <= 18014393946079296) by (apply (mul_bounds _ _ 536870904 33554424); lia).
  assert (P80 : 0 <= fd_n8 * b_n0 <= 288230367561777216) by (apply (mul_bounds _ _ 536870904 536870904); lia).
  assert (P81 : 0 <= fd_n8 * b_n1 <= 288230367561777216) by (apply (mul_bounds _ _ 536870904 536870904); lia).
  assert (P82 : 0 <= fd_n8 * b_n2 <= 288230367561777216) by (apply (mul_bounds _ _ 536870904 536870904); lia).
  assert (P83 : 0 <= fd_n8 * b_n3 <= 288230367561777216) by (apply (mul_bounds _ _ 536870904 536870904); lia).
  assert (P84 : 0 <= fd_n8 * b_n4 <= 288230367561777216) by (apply (mul_bounds _ _ 536870904 536870904); lia).
  assert (P85 : 0 <= fd_n8 * b_n5 <= 288230367561777216) by (apply (mul_bounds _ _ 536870904 536870904); lia).
  assert (P86 : 0 <= fd_n8 * b_n6 <= 288230367561777216) by (apply (mul_bounds _ _ 536870904 536870904); lia).
  assert (P87 : 0 <= fd_n8 * b_n7 <= 288230367561777216) by (apply (mul_bounds _ _ 536870904 536870904); lia).
  assert (P88 : 0 <= fd_n8 * b_n8 <= 288230367561777216) by (apply (mul_bounds _ _ 536870904 536870904); lia).
  assert (P89 : 0 <= fd_n8 * b_n9 <= 18014393946079296) by (apply (mul_bounds _ _ 536870904 33554424); lia).
  assert (P90 : 0 <= fd_n9 * b_n0 <= 18014393946079296) by (apply (mul_bounds _ _ 33554424 536870904); lia).
  assert (P91 : 0 <= fd_n9 * b_n1 <= 18014393946079296) by (apply (mul_bounds _ _ 33554424 536870904); lia).
  assert (P92 : 0 <= fd_n9 * b_n2 <= 18014393946079296) by (apply (mul_bounds _ _ 33554424 536870904); lia).
  assert (P93 : 0 <= fd_n9 * b_n3 <= 18014393946079296) by (apply (mul_bounds _ _ 33554424 536870904); lia).
  assert (P94 : 0 <= fd_n9 * b_n4 <= 18014393946079296) by (apply (mul_bounds _ _ 33554424 536870904); lia).
  assert (P95 : 0 <= fd_n9 * b_n5 <= 18014393946079296) by (apply (mul_bounds _ _ 33554424 536870904); lia).
  assert (P96 : 0 <= fd_n9 * b_n6 <= 18014393946079296) by (apply (mul_bounds _ _ 33554424 536870904); lia).
  assert (P97 : 0 <= fd_n9 * b_n7 <= 18014393946079296) by (apply (mul_bounds _ _ 33554424 536870904); lia).
  assert (P98 : 0 <= fd_n9 * b_n8 <= 18014393946079296) by (apply (mul_bounds _ _ 33554424 536870904); lia).
  assert (P99 : 0 <= fd_n9 * b_n9 <= 1125899369971776) by (apply (mul_bounds _ _ 33554424 33554424); lia).
  set (p00 := fd_n0 * b_n0) in *.
  set (p01 := fd_n0 * b_n1) in *.
  set (p02 := fd_n0 * b_n2) in *.
  set (p03 := fd_n0 * b_n3) in *.
  set (p04 := fd_n0 * b_n4) in *.
  set (p05 := fd_n0 * b_n5) in *.
  set (p06 := fd_n0 * b_n6) in *.
  set (p07 := fd_n0 * b_n7) in *.
  set (p08 := fd_n0 * b_n8) in *.
  set (p09 := fd_n0 * b_n9) in *.
  set (p10 := fd_n1 * b_n0) in *.
  set (p11 := fd_n1 * b_n1) in *.
  set (p12 := fd_n1 * b_n2) in *.
  set (p13 := fd_n1 * b_n3) in *.
  set (p14 := fd_n1 * b_n4) in *.
  set (p15 := fd_n1 * b_n5) in *.
  set (p16 := fd_n1 * b_n6) in *.
  set (p17 := fd_n1 * b_n7) in *.
  set (p18 := fd_n1 * b_n8) in *.
  set (p19 := fd_n1 * b_n9) in *.
  set (p20 := fd_n2 * b_n0) in *.
  set (p21 := fd_n2 * b_n1) in *.
  set (p22 := fd_n2 * b_n2) in *.
  set (p23 := fd_n2 * b_n3) in *.
  set (p24 := fd_n2 * b_n4) in *.
  set (p25 := fd_n2 * b_n5) in *.
  set (p26 := fd_n2 * b_n6) in *.
  set (p27 := fd_n2 * b_n7) in *.
  set (p28 := fd_n2 * b_n8) in *.
  set (p29 := fd_n2 * b_n9) in *.
  set (p30 := fd_n3 * b_n0) in *.
  set (p31 := fd_n3 * b_n1) in *.
  set (p32 := fd_n3 * b_n2) in *.
  set (p33 := fd_n3 * b_n3) in *.
  set (p34 := fd_n3 * b_n4) in *.
  set (p35 := fd_n3 * b_n5) in *.
  set (p36 := fd_n3 * b_n6) in *.
  set (p37 := fd_n3 * b_n7) in *.
  set (p38 := fd_n3 * b_n8) in *.
  set (p39 := fd_n3 * b_n9) in *.
  set (p40 := fd_n4 * b_n0) in *.
  set (p41 := fd_n4 * b_n1) in *.
  set (p42 := fd_n4 * b_n2) in *.
  set (p43 := fd_n4 * b_n3) in *.
  set (p44 := fd_n4 * b_n4) in *.
  set (p45 := fd_n4 * b_n5) in *.
  set (p46 := fd_n4 * b_n6) in *.
  set (p47 := fd_n4 * b_n7) in *.
  set (p48 := fd_n4 * b_n8) in *.
  set (p49 := fd_n4 * b_n9) in *.
  set (p50 := fd_n5 * b_n0) in *.
  set (p51 := fd_n5 * b_n1) in *.
  set (p52 := fd_n5 * b_n2) in *.
  set (p53 := fd_n5 * b_n3) in *.
  set (p54 := fd_n5 * b_n4) in *.
  set (p55 := fd_n5 * b_n5) in *.
  set (p56 := fd_n5 * b_n6) in *.
  set (p57 := fd_n5 * b_n7) in *.
  set (p58 := fd_n5 * b_n8) in *.
  set (p59 := fd_n5 * b_n9) in *.
  set (p60 := fd_n6 * b_n0) in *.
  set (p61 := fd_n6 * b_n1) in *.
  set (p62 := fd_n6 * b_n2) in *.
  set (p63 := fd_n6 * b_n3) in *.
  set (p64 := fd_n6 * b_n4) in *.
  set (p65 := fd_n6 * b_n5) in *.
  set (p66 := fd_n6 * b_n6) in *.
  set (p67 := fd_n6 * b_n7) in *.
  set (p68 := fd_n6 * b_n8) in *.
  set (p69 := fd_n6 * b_n9) in *.
  set (p70 := fd_n7 * b_n0) in *.
  set (p71 := fd_n7 * b_n1) in *.
  set (p72 := fd_n7 * b_n2) in *.
  set (p73 := fd_n7 * b_n3) in *.
  set (p74 := fd_n7 * b_n4) in *.
  set (p75 := fd_n7 * b_n5) in *.
  set (p76 := fd_n7 * b_n6) in *.
  set (p77 := fd_n7 * b_n7) in *.
  set (p78 := fd_n7 * b_n8) in *.
  set (p79 := fd_n7 * b_n9) in *.
  set (p80 := fd_n8 * b_n0) in *.
  set (p81 := fd_n8 * b_n1) in *.
  set (p82 := fd_n8 * b_n2) in *.
  set (p83 := fd_n8 * b_n3) in *.
  set (p84 := fd_n8 * b_n4) in *.
  set (p85 := fd_n8 * b_n5) in *.
  set (p86 := fd_n8 * b_n6) in *.
  set (p87 := fd_n8 * b_n7) in *.
  set (p88 := fd_n8 * b_n8) in *.
  set (p89 := fd_n8 * b_n9) in *.
  set (p90 := fd_n9 * b_n0) in *.
  set (p91 := fd_n9 * b_n1) in *.
  set (p92 := fd_n9 * b_n2) in *.
  set (p93 := fd_n9 * b_n3) in *.
  set (p94 := fd_n9 * b_n4) in *.
  set (p95 := fd_n9 * b_n5) in *.
  set (p96 := fd_n9 * b_n6) in *.
  set (p97 := fd_n9 * b_n7) in *.
  set (p98 := fd_n9 * b_n8) in *.
  set (p99 := fd_n9 * b_n9) in *.
  clear Ha Hb.
  repeat mstep.
  eexists. split; [reflexivity|]. split.
  - exact (conj Br_n0 (conj Br_n1 (conj Br_n2 (conj Br_n3 (conj Br_n4 (conj Br_n5 (conj Br_n6 (conj Br_n7 (conj Br_n8 Br_n9))))))))).
  - exists (16 * (t30 + t31 * 2 ^ 26 + t32 * 2 ^ 52 + t33 * 2 ^ 78 + t34 * 2 ^ 104 + t35 * 2 ^ 130 + t36 * 2 ^ 156 + t37 * 2 ^ 182 + t38 * 2 ^ 208 + t39 * 2 ^ 234) + c57).
    split.
    + (clear -Bt30 Bt31 Bt32 Bt33 Bt34 Bt35 Bt36 Bt37 Bt38 Bt39 Bc57; lia).
    + repeat match goal with H : 0 <= _ <= _ |- _ => clear H end.
      rewrite p_eq. cbn [val]. clearbody p00 p01 p02 p03 p04 p05 p06 p07 p08 p09 p10 p11 p12 p13 p14 p15 p16 p17 p18 p19 p20 p21 p22 p23 p24 p25 p26 p27 p28 p29 p30 p31 p32 p33 p34 p35 p36 p37 p38 p39 p40 p41 p42 p43 p44 p45 p46 p47 p48 p49 p50 p51 p52 p53 p54 p55 p56 p57 p58 p59 p60 p61 p62 p63 p64 p65 p66 p67 p68 p69 p70 p71 p72 p73 p74 p75 p76 p77 p78 p79 p80 p81 p82 p83 p84 p85 p86 p87 p88 p89 p90 p91 p92 p93 p94 p95 p96 p97 p98 p99.
      lia.
Qed.

(* the product modulo p; the result may be fed to Normalize, SetAdd, Negate, Mul again (magnitude <= 2) *)
Corollary Mul_mod_p : forall f0 f1 f2 f3 f4 f5 f6 f7 f8 f9 b0 b1 b2 b3 b4 b5 b6 b7 b8 b9,
  mag 8 (f0, f1, f2, f3, f4, f5, f6, f7, f8, f9) -> mag 8 (b0, b1, b2, b3, b4, b5, b6, b7, b8, b9) ->
  returns (fun r => mag 2 r /\ mul_out r /\
                    val r mod p = (val (f0, f1, f2, f3, f4, f5, f6, f7, f8, f9) * val (b0, b1, b2, b3, b4, b5, b6, b7, b8, b9)) mod p)
    (Field_Mul f0 f1 f2 f3 f4 f5 f6 f7 f8 f9 b0 b1 b2 b3 b4 b5 b6 b7 b8 b9).
Proof.
  intros f0 f1 f2 f3 f4 f5 f6 f7 f8 f9 b0 b1 b2 b3 b4 b5 b6 b7 b8 b9 Ha Hb.
  destruct (Mul_correct _ _ _ _ _ _ _ _ _ _ _ _ _ _ _ _ _ _ _ _ Ha Hb) as (r & Er & Ho & k & Hk & Hv).
  exists r. split; [exact Er|]. split; [|split; [exact Ho|]].
  - destr_limbs r. unfold mul_out in Ho. unfold mag. lia.
  - rewrite <- Hv. rewrite Z.mul_comm. symmetry. apply Z_mod_plus_full.
Qed.

(* ---- Field.Sqr: the same reduction; the columns use a_i * a_i and (a_i * 2) * a_j for i < j *)
Lemma val_sqr_expand : forall fd_n0 fd_n1 fd_n2 fd_n3 fd_n4 fd_n5 fd_n6 fd_n7 fd_n8 fd_n9,
  val (fd_n0, fd_n1, fd_n2, fd_n3, fd_n4, fd_n5, fd_n6, fd_n7, fd_n8, fd_n9) * val (fd_n0, fd_n1, fd_n2, fd_n3, fd_n4, fd_n5, fd_n6, fd_n7, fd_n8, fd_n9) = fd_n0 * fd_n0 * 2 ^ 0 + fd_n0 * 2 * fd_n1 * 2 ^ 26 + fd_n0 * 2 * fd_n2 * 2 ^ 52 + fd_n0 * 2 * fd_n3 * 2 ^ 78 + fd_n0 * 2 * fd_n4 * 2 ^ 104 + fd_n0 * 2 * fd_n5 * 2 ^ 130 + fd_n0 * 2 * fd_n6 * 2 ^ 156 + fd_n0 * 2 * fd_n7 * 2 ^ 182 + fd_n0 * 2 * fd_n8 * 2 ^ 208 + fd_n0 * 2 * fd_n9 * 2 ^ 234 + fd_n1 * fd_n1 * 2 ^ 52 + fd_n1 * 2 * fd_n2 * 2 ^ 78 + fd_n1 * 2 * fd_n3 * 2 ^ 104 + fd_n1 * 2 * fd_n4 * 2 ^ 130 + fd_n1 * 2 * fd_n5 * 2 ^ 156 + fd_n1 * 2 * fd_n6 * 2 ^ 182 + fd_n1 * 2 * fd_n7 * 2 ^ 208 + fd_n1 * 2 * fd_n8 * 2 ^ 234 + fd_n1 * 2 * fd_n9 * 2 ^ 260 + fd_n2 * fd_n2 * 2 ^ 104 + fd_n2 * 2 * fd_n3 * 2 ^ 130 + fd_n2 * 2 * fd_n4 * 2 ^ 156 + fd_n2 * 2 * fd_n5 * 2 ^ 182 + fd_n2 * 2 * fd_n6 * 2 ^ 208 + fd_n2 * 2 * fd_n7 * 2 ^ 234 + fd_n2 * 2 * fd_n8 * 2 ^ 260 + fd_n2 * 2 * fd_n9 * 2 ^ 286 + fd_n3 * fd_n3 * 2 ^ 156 + fd_n3 * 2 * fd_n4 * 2 ^ 182 + fd_n3 * 2 * fd_n5 * 2 ^ 208 + fd_n3 * 2 * fd_n6 * 2 ^ 234 + fd_n3 * 2 * fd_n7 * 2 ^ 260 + fd_n3 * 2 * fd_n8 * 2 ^ 286 + fd_n3 * 2 * fd_n9 * 2 ^ 312 + fd_n4 * fd_n4 * 2 ^ 208 + fd_n4 * 2 * fd_n5 * 2 ^ 234 + fd_n4 * 2 * fd_n6 * 2 ^ 260 + fd_n4 * 2 * fd_n7 * 2 ^ 286 + fd_n4 * 2 * fd_n8 * 2 ^ 312 + fd_n4 * 2 * fd_n9 * 2 ^ 338 + fd_n5 * fd_n5 * 2 ^ 260 + fd_n5 * 2 * fd_n6 * 2 ^ 286 + fd_n5 * 2 * fd_n7 * 2 ^ 312 + fd_n5 * 2 * fd_n8 * 2 ^ 338 + fd_n5 * 2 * fd_n9 * 2 ^ 364 + fd_n6 * fd_n6 * 2 ^ 312 + fd_n6 * 2 * fd_n7 * 2 ^ 338 + fd_n6 * 2 * fd_n8 * 2 ^ 364 + fd_n6 * 2 * fd_n9 * 2 ^ 390 + fd_n7 * fd_n7 * 2 ^ 364 + fd_n7 * 2 * fd_n8 * 2 ^ 390 + fd_n7 * 2 * fd_n9 * 2 ^ 416 + fd_n8 * fd_n8 * 2 ^ 416 + fd_n8 * 2 * fd_n9 * 2 ^ 442 + fd_n9 * fd_n9 * 2 ^ 468.
Proof. intros. cbn [val]. ring. Qed.

Theorem Sqr_correct : forall fd_n0 fd_n1 fd_n2 fd_n3 fd_n4 fd_n5 fd_n6 fd_n7 fd_n8 fd_n9,
  mag 8 (fd_n0, fd_n1, fd_n2, fd_n3, fd_n4, fd_n5, fd_n6, fd_n7, fd_n8, fd_n9) ->
  returns (fun r => mul_out r /\ exists k, 0 <= k /\ val r + p * k = val (fd_n0, fd_n1, fd_n2, fd_n3, fd_n4, fd_n5, fd_n6, fd_n7, fd_n8, fd_n9) * val (fd_n0, fd_n1, fd_n2, fd_n3, fd_n4, fd_n5, fd_n6, fd_n7, fd_n8, fd_n9))
    (Field_Sqr fd_n0 fd_n1 fd_n2 fd_n3 fd_n4 fd_n5 fd_n6 fd_n7 fd_n8 fd_n9).
Proof.
  intros fd_n0 fd_n1 fd_n2 fd_n3 fd_n4 fd_n5 fd_n6 fd_n7 fd_n8 fd_n9 Ha. unfold mag in Ha.
  rewrite val_sqr_expand.
  assert (L0 : 0 <= fd_n0 <= 536870904) by lia.
  assert (L1 : 0 <= fd_n1 <= 536870904) by lia.
  assert (L2 : 0 <= fd_n2 <= 536870904) by lia.
  assert (L3 : 0 <= fd_n3 <= 536870904) by lia.
  assert (L4 : 0 <= fd_n4 <= 536870904) by lia.
  assert (L5 : 0 <= fd_n5 <= 536870904) by lia.
  assert (L6 : 0 <= fd_n6 <= 536870904) by lia.
  assert (L7 : 0 <= fd_n7 <= 536870904) by lia.
  assert (L8 : 0 <= fd_n8 <= 536870904) by lia.
  assert (L9 : 0 <= fd_n9 <= 33554424) by lia.
  clear Ha.
  cbv beta delta [Field_Sqr].
  rewrite (wrap_small 64 (fd_n0 * 2)) by (clear -L0; lia).
  rewrite (wrap_small 64 (fd_n1 * 2)) by (clear -L1; lia).
  rewrite (wrap_small 64 (fd_n2 * 2)) by (clear -L2; lia).
  rewrite (wrap_small 64 (fd_n3 * 2)) by (clear -L3; lia).
  rewrite (wrap_small 64 (fd_n4 * 2)) by (clear -L4; lia).
  rewrite (wrap_small 64 (fd_n5 * 2)) by (clear -L5; lia).
  rewrite (wrap_small 64 (fd_n6 * 2)) by (clear -L6; lia).
  rewrite (wrap_small 64 (fd_n7 * 2)) by (clear -L7; lia).
  rewrite (wrap_small 64 (fd_n8 * 2)) by (clear -L8; lia).
  pose proof (mul_bounds _ _ 536870904 536870904 L0 L0 : 0 <= fd_n0 * fd_n0 <= 288230367561777216) as S0.
  pose proof (mul_bounds _ _ 1073741808 536870904 (mulc_bounds _ 2 536870904 L0 eq_refl) L1 : 0 <= fd_n0 * 2 * fd_n1 <= 576460735123554432) as Q01.
  pose proof (mul_bounds _ _ 1073741808 536870904 (mulc_bounds _ 2 536870904 L0 eq_refl) L2 : 0 <= fd_n0 * 2 * fd_n2 <= 576460735123554432) as Q02.
  pose proof (mul_bounds _ _ 1073741808 536870904 (mulc_bounds _ 2 536870904 L0 eq_refl) L3 : 0 <= fd_n0 * 2 * fd_n3 <= 576460735123554432) as Q03.
  pose proof (mul_bounds _ _ 1073741808 536870904 (mulc_bounds _ 2 536870904 L0 eq_refl) L4 : 0 <= fd_n0 * 2 * fd_n4 <= 576460735123554432) as Q04.
  pose proof (mul_bounds _ _ 1073741808 536870904 (mulc_bounds _ 2 536870904 L0 eq_refl) L5 : 0 <= fd_n0 * 2 * fd_n5 <= 576460735123554432) as Q05.
  pose proof (mul_bounds _ _ 1073741808 536870904 (mulc_bounds _ 2 536870904 L0 eq_refl) L6 : 0 <= fd_n0 * 2 * fd_n6 <= 576460735123554432) as Q06.
  pose proof (mul_bounds _ _ 1073741808 536870904 (mulc_bounds _ 2 536870904 L0 eq_refl) L7 : 0 <= fd_n0 * 2 * fd_n7 <= 576460735123554432) as Q07.
  pose proof (mul_bounds _ _ 1073741808 536870904 (mulc_bounds _ 2 536870904 L0 eq_refl) L8 : 0 <= fd_n0 * 2 * fd_n8 <= 576460735123554432) as Q08.
  pose proof (mul_bounds _ _ 1073741808 33554424 (mulc_bounds _ 2 536870904 L0 eq_refl) L9 : 0 <= fd_n0 * 2 * fd_n9 <= 36028787892158592) as Q09.
  pose proof (mul_bounds _ _ 536870904 536870904 L1 L1 : 0 <= fd_n1 * fd_n1 <= 288230367561777216) as S1.
  pose proof (mul_bounds _ _ 1073741808 536870904 (mulc_bounds _ 2 536870904 L1 eq_refl) L2 : 0 <= fd_n1 * 2 * fd_n2 <= 576460735123554432) as Q12.
  pose proof (mul_bounds _ _ 1073741808 536870904 (mulc_bounds _ 2 536870904 L1 eq_refl) L3 : 0 <= fd_n1 * 2 * fd_n3 <= 576460735123554432) as Q13.
  pose proof (mul_bounds _ _ 1073741808 536870904 (mulc_bounds _ 2 536870904 L1 eq_refl) L4 : 0 <= fd_n1 * 2 * fd_n4 <= 576460735123554432) as Q14.
  pose proof (mul_bounds _ _ 1073741808 536870904 (mulc_bounds _ 2 536870904 L1 eq_refl) L5 : 0 <= fd_n1 * 2 * fd_n5 <= 576460735123554432) as Q15.
  pose proof (mul_bounds _ _ 1073741808 536870904 (mulc_bounds _ 2 536870904 L1 eq_refl) L6 : 0 <= fd_n1 * 2 * fd_n6 <= 576460735123554432) as Q16.
  pose proof (mul_bounds _ _ 1073741808 536870904 (mulc_bounds _ 2 536870904 L1 eq_refl) L7 : 0 <= fd_n1 * 2 * fd_n7 <= 576460735123554432) as Q17.
  pose proof (mul_bounds _ _ 1073741808 536870904 (mulc_bounds _ 2 536870904 L1 eq_refl) L8 : 0 <= fd_n1 * 2 * fd_n8 <= 576460735123554432) as Q18.
  pose proof (mul_bounds _ _ 1073741808 33554424 (mulc_bounds _ 2 536870904 L1 eq_refl) L9 : 0 <= fd_n1 * 2 * fd_n9 <= 36028787892158592) as Q19.
  pose proof (mul_bounds _ _ 536870904 536870904 L2 L2 : 0 <= fd_n2 * fd_n2 <= 288230367561777216) as S2.
  pose proof (mul_bounds _ _ 1073741808 536870904 (mulc_bounds _ 2 536870904 L2 eq_refl) L3 : 0 <= fd_n2 * 2 * fd_n3 <= 576460735123554432) as Q23.
  pose proof (mul_bounds _ _ 1073741808 536870904 (mulc_bounds _ 2 536870904 L2 eq_refl) L4 : 0 <= fd_n2 * 2 * fd_n4 <= 576460735123554432) as Q24.
  pose proof (mul_bounds _ _ 1073741808 536870904 (mulc_bounds _ 2 536870904 L2 eq_refl) L5 : 0 <= fd_n2 * 2 * fd_n5 <= 576460735123554432) as Q25.
  pose proof (mul_bounds _ _ 1073741808 536870904 (mulc_bounds _ 2 536870904 L2 eq_refl) L6 : 0 <= fd_n2 * 2 * fd_n6 <= 576460735123554432) as Q26.
  pose proof (mul_bounds _ _ 1073741808 536870904 (mulc_bounds _ 2 536870904 L2 eq_refl) L7 : 0 <= fd_n2 * 2 * fd_n7 <= 576460735123554432) as Q27.
  pose proof (mul_bounds _ _ 1073741808 536870904 (mulc_bounds _ 2 536870904 L2 eq_refl) L8 : 0 <= fd_n2 * 2 * fd_n8 <= 576460735123554432) as Q28.
  pose proof (mul_bounds _ _ 1073741808 33554424 (mulc_bounds _ 2 536870904 L2 eq_refl) L9 : 0 <= fd_n2 * 2 * fd_n9 <= 36028787892158592) as Q29.
  pose proof (mul_bounds _ _ 536870904 536870904 L3 L3 : 0 <= fd_n3 * fd_n3 <= 288230367561777216) as S3.
  pose proof (mul_bounds _ _ 1073741808 536870904 (mulc_bounds _ 2 536870904 L3 eq_refl) L4 : 0 <= fd_n3 * 2 * fd_n4 <= 576460735123554432) as Q34.
  pose proof (mul_bounds _ _ 1073741808 536870904 (mulc_bounds _ 2 536870904 L3 eq_refl) L5 : 0 <= fd_n3 * 2 * fd_n5 <= 576460735123554432) as Q35.
  pose proof (mul_bounds _ _ 1073741808 536870904 (mulc_bounds _ 2 536870904 L3 eq_refl) L6 : 0 <= fd_n3 * 2 * fd_n6 <= 576460735123554432) as Q36.
  pose proof (mul_bounds _ _ 1073741808 536870904 (mulc_bounds _ 2 536870904 L3 eq_refl) L7 : 0 <= fd_n3 * 2 * fd_n7 <= 576460735123554432) as Q37.
  pose proof (mul_bounds _ _ 1073741808 536870904 (mulc_bounds _ 2 536870904 L3 eq_refl) L8 : 0 <= fd_n3 * 2 * fd_n8 <= 576460735123554432) as Q38.
  pose proof (mul_bounds _ _ 1073741808 33554424 (mulc_bounds _ 2 536870904 L3 eq_refl) L9 : 0 <= fd_n3 * 2 * fd_n9 <= 36028787892158592) as Q39.
  pose proof (mul_bounds _ _ 536870904 536870904 L4 L4 : 0 <= fd_n4 * fd_n4 <= 288230367561777216) as S4.
  pose proof (mul_bounds _ _ 1073741808 536870904 (mulc_bounds _ 2 536870904 L4 eq_refl) L5 : 0 <= fd_n4 * 2 * fd_n5 <= 576460735123554432) as Q45.
  pose proof (mul_bounds _ _ 1073741808 536870904 (mulc_bounds _ 2 536870904 L4 eq_refl) L6 : 0 <= fd_n4 * 2 * fd_n6 <= 576460735123554432) as Q46.
  pose proof (mul_bounds _ _ 1073741808 536870904 (mulc_bounds _ 2 536870904 L4 eq_refl) L7 : 0 <= fd_n4 * 2 * fd_n7 <= 576460735123554432) as Q47.
  pose proof (mul_bounds _ _ 1073741808 536870904 (mulc_bounds _ 2 536870904 L4 eq_refl) L8 : 0 <= fd_n4 * 2 * fd_n8 <= 576460735123554432) as Q48.
  pose proof (mul_bounds _ _ 1073741808 33554424 (mulc_bounds _ 2 536870904 L4 eq_refl) L9 : 0 <= fd_n4 * 2 * fd_n9 <= 36028787892158592) as Q49.
  pose proof (mul_bounds _ _ 536870904 536870904 L5 L5 : 0 <= fd_n5 * fd_n5 <= 288230367561777216) as S5.
  pose proof (mul_bounds _ _ 1073741808 536870904 (mulc_bounds _ 2 536870904 L5 eq_refl) L6 : 0 <= fd_n5 * 2 * fd_n6 <= 576460735123554432) as Q56.
  pose proof (mul_bounds _ _ 1073741808 536870904 (mulc_bounds _ 2 536870904 L5 eq_refl) L7 : 0 <= fd_n5 * 2 * fd_n7 <= 576460735123554432) as Q57.
  pose proof (mul_bounds _ _ 1073741808 536870904 (mulc_bounds _ 2 536870904 L5 eq_refl) L8 : 0 <= fd_n5 * 2 * fd_n8 <= 576460735123554432) as Q58.
  pose proof (mul_bounds _ _ 1073741808 33554424 (mulc_bounds _ 2 536870904 L5 eq_refl) L9 : 0 <= fd_n5 * 2 * fd_n9 <= 36028787892158592) as Q59.
  pose proof (mul_bounds _ _ 536870904 536870904 L6 L6 : 0 <= fd_n6 * fd_n6 <= 288230367561777216) as S6.
  pose proof (mul_bounds _ _ 1073741808 536870904 (mulc_bounds _ 2 536870904 L6 eq_refl) L7 : 0 <= fd_n6 * 2 * fd_n7 <= 576460735123554432) as Q67.
  pose proof (mul_bounds _ _ 1073741808 536870904 (mulc_bounds _ 2 536870904 L6 eq_refl) L8 : 0 <= fd_n6 * 2 * fd_n8 <= 576460735123554432) as Q68.
  pose proof (mul_bounds _ _ 1073741808 33554424 (mulc_bounds _ 2 536870904 L6 eq_refl) L9 : 0 <= fd_n6 * 2 * fd_n9 <= 36028787892158592) as Q69.
  pose proof (mul_bounds _ _ 536870904 536870904 L7 L7 : 0 <= fd_n7 * fd_n7 <= 288230367561777216) as S7.
  pose proof (mul_bounds _ _ 1073741808 536870904 (mulc_bounds _ 2 536870904 L7 eq_refl) L8 : 0 <= fd_n7 * 2 * fd_n8 <= 576460735123554432) as Q78.
  pose proof (mul_bounds _ _ 1073741808 33554424 (mulc_bounds _ 2 536870904 L7 eq_refl) L9 : 0 <= fd_n7 * 2 * fd_n9 <= 36028787892158592) as Q79.
  pose proof (mul_bounds _ _ 536870904 536870904 L8 L8 : 0 <= fd_n8 * fd_n8 <= 288230367561777216) as S8.
  pose proof (mul_bounds _ _ 1073741808 33554424 (mulc_bounds _ 2 536870904 L8 eq_refl) L9 : 0 <= fd_n8 * 2 * fd_n9 <= 36028787892158592) as Q89.
  pose proof (mul_bounds _ _ 33554424 33554424 L9 L9 : 0 <= fd_n9 * fd_n9 <= 1125899369971776) as S9.
  set (s0 := fd_n0 * fd_n0) in *.
  set (q01 := fd_n0 * 2 * fd_n1) in *.
  set (q02 := fd_n0 * 2 * fd_n2) in *.
  set (q03 := fd_n0 * 2 * fd_n3) in *.
  set (q04 := fd_n0 * 2 * fd_n4) in *.
  set (q05 := fd_n0 * 2 * fd_n5) in *.
  set (q06 := fd_n0 * 2 * fd_n6) in *.
  set (q07 := fd_n0 * 2 * fd_n7) in *.
  set (q08 := fd_n0 * 2 * fd_n8) in *.
  set (q09 := fd_n0 * 2 * fd_n9) in *.
  set (s1 := fd_n1 * fd_n1) in *.
  set (q12 := fd_n1 * 2 * fd_n2) in *.
  set (q13 := fd_n1 * 2 * fd_n3) in *.
  set (q14 := fd_n1 * 2 * fd_n4) in *.
  set (q15 := fd_n1 * 2 * fd_n5) in *.
  set (q16 := fd_n1 * 2 * fd_n6) in *.
  set (q17 := fd_n1 * 2 * fd_n7) in *.
  set (q18 := fd_n1 * 2 * fd_n8) in *.
  set (q19 := fd_n1 * 2 * fd_n9) in *.
  set (s2 := fd_n2 * fd_n2) in *.
  set (q23 := fd_n2 * 2 * fd_n3) in *.
  set (q24 := fd_n2 * 2 * fd_n4) in *.
  set (q25 := fd_n2 * 2 * fd_n5) in *.
  set (q26 := fd_n2 * 2 * fd_n6) in *.
  set (q27 := fd_n2 * 2 * fd_n7) in *.
  set (q28 := fd_n2 * 2 * fd_n8) in *.
  set (q29 := fd_n2 * 2 * fd_n9) in *.
  set (s3 := fd_n3 * fd_n3) in *.
  set (q34 := fd_n3 * 2 * fd_n4) in *.
  set (q35 := fd_n3 * 2 * fd_n5) in *.
  set (q36 := fd_n3 * 2 * fd_n6) in *.
  set (q37 := fd_n3 * 2 * fd_n7) in *.
  set (q38 := fd_n3 * 2 * fd_n8) in *.
  set (q39 := fd_n3 * 2 * fd_n9) in *.
  set (s4 := fd_n4 * fd_n4) in *.
  set (q45 := fd_n4 * 2 * fd_n5) in *.
  set (q46 := fd_n4 * 2 * fd_n6) in *.
  set (q47 := fd_n4 * 2 * fd_n7) in *.
  set (q48 := fd_n4 * 2 * fd_n8) in *.
  set (q49 := fd_n4 * 2 * fd_n9) in *.
  set (s5 := fd_n5 * fd_n5) in *.
  set (q56 := fd_n5 * 2 * fd_n6) in *.
  set (q57 := fd_n5 * 2 * fd_n7) in *.
  set (q58 := fd_n5 * 2 * fd_n8) in *.
  set (q59 := fd_n5 * 2 * fd_n9) in *.
  set (s6 := fd_n6 * fd_n6) in *.
  set (q67 := fd_n6 * 2 * fd_n7) in *.
  set (q68 := fd_n6 * 2 * fd_n8) in *.
  set (q69 := fd_n6 * 2 * fd_n9) in *.
  set (s7 := fd_n7 * fd_n7) in *.
  set (q78 := fd_n7 * 2 * fd_n8) in *.
  set (q79 := fd_n7 * 2 * fd_n9) in *.
  set (s8 := fd_n8 * fd_n8) in *.
  set (q89 := fd_n8 * 2 * fd_n9) in *.
  set (s9 := fd_n9 * fd_n9) in *.
  clear L0 L1 L2 L3 L4 L5 L6 L7 L8 L9.
  repeat mstep.
  eexists. split; [reflexivity|]. split.
  - exact (conj Br_n0 (conj Br_n1 (conj Br_n2 (conj Br_n3 (conj Br_n4 (conj Br_n5 (conj Br_n6 (conj Br_n7 (conj Br_n8 Br_n9))))))))).
  - exists (16 * (t30 + t31 * 2 ^ 26 + t32 * 2 ^ 52 + t33 * 2 ^ 78 + t34 * 2 ^ 104 + t35 * 2 ^ 130 + t36 * 2 ^ 156 + t37 * 2 ^ 182 + t38 * 2 ^ 208 + t39 * 2 ^ 234) + c57).
    split.
    + (clear -Bt30 Bt31 Bt32 Bt33 Bt34 Bt35 Bt36 Bt37 Bt38 Bt39 Bc57; lia).
    + repeat match goal with H : 0 <= _ <= _ |- _ => clear H end.
      rewrite p_eq. cbn [val]. clearbody s0 q01 q02 q03 q04 q05 q06 q07 q08 q09 s1 q12 q13 q14 q15 q16 q17 q18 q19 s2 q23 q24 q25 q26 q27 q28 q29 s3 q34 q35 q36 q37 q38 q39 s4 q45 q46 q47 q48 q49 s5 q56 q57 q58 q59 s6 q67 q68 q69 s7 q78 q79 s8 q89 s9.
      lia.
Qed.

Corollary Sqr_mod_p : forall f0 f1 f2 f3 f4 f5 f6 f7 f8 f9,
  mag 8 (f0, f1, f2, f3, f4, f5, f6, f7, f8, f9) ->
  returns (fun r => mag 2 r /\ mul_out r /\
                    val r mod p = (val (f0, f1, f2, f3, f4, f5, f6, f7, f8, f9) * val (f0, f1, f2, f3, f4, f5, f6, f7, f8, f9)) mod p)
    (Field_Sqr f0 f1 f2 f3 f4 f5 f6 f7 f8 f9).
Proof.
  intros f0 f1 f2 f3 f4 f5 f6 f7 f8 f9 Ha.
  destruct (Sqr_correct _ _ _ _ _ _ _ _ _ _ Ha) as (r & Er & Ho & k & Hk & Hv).
  exists r. split; [exact Er|]. split; [|split; [exact Ho|]].
  - destr_limbs r. unfold mul_out in Ho. unfold mag. lia.
  - rewrite <- Hv. rewrite Z.mul_comm. symmetry. apply Z_mod_plus_full.
Qed.
