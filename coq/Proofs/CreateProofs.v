(* Proofs for C12 (Model/Create.v): distribution of hours, choice of spends,
   soundness of create. *)
From Sky Require Import Base.Uint Model.ArithSpec Gen.Mathutil Gen.Fee Model.TxVerify Model.Create
  Proofs.UintLemmas Proofs.MathutilProofs Proofs.FeeProofs Proofs.TxVerifyProofs.
From Coq Require Import Lia ZifyBool Permutation.
Open Scope Z_scope.

(* ------------------------------------------------------------------ monad *)
Lemma bindR_ok {A B} (r : R A) (f : A -> R B) v :
  bindR r f = Val (inr v) -> exists a, r = Val (inr a) /\ f a = Val (inr v).
Proof. destruct r as [|[e|a]]; cbn [bindR]; intros H; try discriminate. exists a. split; [reflexivity|exact H]. Qed.

Lemma lift_ok {A} (r : res A) a : lift r = Val (inr a) -> r = Val a.
Proof. destruct r; cbn [lift ok]; intros H; [discriminate|]. injection H as ->. reflexivity. Qed.

Lemma chk_add_ok a b v : in_u 64 a -> in_u 64 b ->
  chk (AddUint64 a b) = Val (inr v) -> v = a + b /\ a + b < 2 ^ 64.
Proof.
  intros Ha Hb. rewrite AddUint64_spec by assumption. unfold ret_or_err.
  destruct (a + b <? 2 ^ 64) eqn:E; cbn [chk ok fail]; intros H; [|discriminate].
  injection H as <-. split; [reflexivity|lia].
Qed.
Lemma chk_as_add_ok e a b v : in_u 64 a -> in_u 64 b ->
  chk_as e (AddUint64 a b) = Val (inr v) -> v = a + b /\ a + b < 2 ^ 64.
Proof.
  intros Ha Hb. rewrite AddUint64_spec by assumption. unfold ret_or_err.
  destruct (a + b <? 2 ^ 64) eqn:E; cbn [chk_as ok fail]; intros H; [|discriminate].
  injection H as <-. split; [reflexivity|lia].
Qed.
Lemma chk_u2i_ok a v : in_u 64 a -> chk (Uint64ToInt64 a) = Val (inr v) -> v = a /\ a < 2 ^ 63.
Proof.
  intros Ha. rewrite Uint64ToInt64_spec by assumption. unfold ret_or_err.
  destruct (a <? 2 ^ 63) eqn:E; cbn [chk ok fail]; intros H; [|discriminate].
  injection H as <-. split; [reflexivity|lia].
Qed.

(* ------------------------------------------------------------------- sums *)
Lemma zsum_cons a l : zsum (a :: l) = a + zsum l.
Proof. reflexivity. Qed.
Lemma zsum_app l1 l2 : zsum (l1 ++ l2) = zsum l1 + zsum l2.
Proof.
  induction l1 as [|a l IH]; [reflexivity|].
  change ((a :: l) ++ l2) with (a :: (l ++ l2)). rewrite !zsum_cons, IH. lia.
Qed.
Lemma zsum_nonneg l : Forall (fun x => 0 <= x) l -> 0 <= zsum l.
Proof. induction 1 as [|a l Ha _ IH]; [cbn; lia|]. rewrite zsum_cons. lia. Qed.
Lemma zsum_perm l1 l2 : Permutation l1 l2 -> zsum l1 = zsum l2.
Proof. induction 1; rewrite ?zsum_cons; lia. Qed.

Lemma sum_chk_ok : forall l acc v, Forall (in_u 64) l -> in_u 64 acc ->
  sum_chk l acc = Val (inr v) -> v = acc + zsum l /\ in_u 64 v.
Proof.
  induction l as [|x l IH]; intros acc v Hl Hacc H; cbn [sum_chk] in H.
  - injection H as <-. cbn. split; [lia|]. replace (acc + 0) with acc by lia. exact Hacc.
  - inversion Hl as [|? ? Hx Hl']; subst. apply bindR_ok in H. destruct H as (a & Ha & H).
    apply chk_add_ok in Ha; [|assumption|assumption]. destruct Ha as [-> Hlt].
    apply IH in H; [|assumption|unfold in_u in *; lia]. rewrite zsum_cons. destruct H as [-> Hr]. split; [lia|exact Hr].
Qed.
Lemma sum_chk_as_ok e : forall l acc v, Forall (in_u 64) l -> in_u 64 acc ->
  sum_chk_as e l acc = Val (inr v) -> v = acc + zsum l /\ in_u 64 v.
Proof.
  induction l as [|x l IH]; intros acc v Hl Hacc H; cbn [sum_chk_as] in H.
  - injection H as <-. cbn. split; [lia|]. replace (acc + 0) with acc by lia. exact Hacc.
  - inversion Hl as [|? ? Hx Hl']; subst. apply bindR_ok in H. destruct H as (a & Ha & H).
    apply chk_as_add_ok in Ha; [|assumption|assumption]. destruct Ha as [-> Hlt].
    apply IH in H; [|assumption|unfold in_u in *; lia]. rewrite zsum_cons. destruct H as [-> Hr]. split; [lia|exact Hr].
Qed.

(* ---------------------------------------- DistributeCoinHoursProportional *)
Lemma dist_frac_ok hours total : forall coins acc fr a, in_u 64 acc ->
  dist_frac coins hours total acc = Val (inr (fr, a)) ->
  a = acc + zsum fr /\ in_u 64 a /\ List.length fr = List.length coins /\ Forall (in_u 64) fr.
Proof.
  induction coins as [|c r IH]; intros acc fr a Hacc H; cbn [dist_frac] in H.
  - injection H as <- <-. cbn. split; [lia|]. split; [exact Hacc|]. split; [reflexivity|constructor].
  - destruct (total =? 0); [discriminate|].
    destruct (in_ub 64 (c * hours / total)) eqn:Ef; cbn [negb] in H; [|discriminate].
    assert (Hf : in_u 64 (c * hours / total)) by (unfold in_ub, in_u in *; lia).
    apply bindR_ok in H. destruct H as (a1 & Ha1 & H).
    apply chk_add_ok in Ha1; [|assumption|assumption]. destruct Ha1 as [-> Hlt].
    apply bindR_ok in H. destruct H as ([l a'] & Hrec & H). injection H as <- <-.
    apply IH in Hrec; [|unfold in_u in *; lia]. destruct Hrec as (-> & Hr & Hlen & Hall).
    rewrite zsum_cons. split; [lia|]. split; [exact Hr|]. split; [cbn; lia|constructor; assumption].
Qed.

Lemma dist_zeros_ok : forall l rem l' rem', 0 <= rem ->
  dist_zeros l rem = (l', rem') ->
  zsum l' + rem' = zsum l + rem /\ 0 <= rem' /\ List.length l' = List.length l /\
  (forall b, 1 <= b -> Forall (fun x => 0 <= x <= b) l -> Forall (fun x => 0 <= x <= b) l').
Proof.
  induction l as [|x l IH]; intros rem l' rem' Hrem H; cbn [dist_zeros] in H.
  - injection H as <- <-. split; [lia|]. split; [lia|]. split; [reflexivity|]. intros; constructor.
  - destruct (rem >? 0) eqn:Er.
    + destruct (x =? 0) eqn:Ex.
      * destruct (dist_zeros l (rem - 1)) as [l1 r1] eqn:Ed. injection H as <- <-.
        apply IH in Ed; [|lia]. destruct Ed as (Hs & Hr & Hl & Hb). rewrite !zsum_cons.
        split; [lia|]. split; [lia|]. split; [cbn; lia|].
        intros b Hb1 Hall. inversion Hall; subst. constructor; [lia|apply Hb; assumption].
      * destruct (dist_zeros l rem) as [l1 r1] eqn:Ed. injection H as <- <-.
        apply IH in Ed; [|lia]. destruct Ed as (Hs & Hr & Hl & Hb). rewrite !zsum_cons.
        split; [lia|]. split; [lia|]. split; [cbn; lia|].
        intros b Hb1 Hall. inversion Hall; subst. constructor; [lia|apply Hb; assumption].
    + injection H as <- <-. split; [lia|]. split; [lia|]. split; [reflexivity|]. intros b _ Hall. exact Hall.
Qed.

Lemma dist_extra_ok : forall l rem l', 0 <= rem ->
  Forall (fun x => 0 <= x <= 2 ^ 63) l ->
  dist_extra l rem = Val l' -> zsum l' = zsum l + rem /\ List.length l' = List.length l.
Proof.
  induction l as [|x l IH]; intros rem l' Hrem Hall H.
  - cbn [dist_extra] in H. destruct (rem >? 0) eqn:Er; [discriminate|]. injection H as <-. split; [lia|reflexivity].
  - cbn [dist_extra] in H. destruct (rem >? 0) eqn:Er.
    + inversion Hall as [|? ? Hx Hl]; subst.
      destruct (dist_extra l (rem - 1)) as [|r'] eqn:Ed; cbn [bind] in H; [discriminate|].
      injection H as <-. apply IH in Ed; [|lia|assumption]. destruct Ed as [Hs Hlen].
      rewrite wrap_small by (rewrite pow64; rewrite pow63 in Hx; lia). rewrite !zsum_cons.
      split; [lia|cbn; lia].
    + injection H as <-. split; [lia|reflexivity].
Qed.

(* the hours handed out sum exactly to the amount to distribute *)
Lemma distribute_sum coins hours hs :
  Forall (in_u 64) coins -> in_u 64 hours ->
  distribute coins hours = Val (inr hs) ->
  zsum hs = hours /\ List.length hs = List.length coins.
Proof.
  intros Hc Hh H. unfold distribute in H.
  destruct (len coins =? 0); [discriminate|].
  apply bindR_ok in H. destruct H as (total & Ht & H).
  apply bindR_ok in H. destruct H as (u1 & _ & H).
  apply bindR_ok in H. destruct H as (u2 & Hh63 & H).
  apply chk_u2i_ok in Hh63; [|assumption]. destruct Hh63 as [_ Hh63].
  apply bindR_ok in H. destruct H as ([fr assigned] & Hfr & H).
  apply dist_frac_ok in Hfr; [|unfold in_u; rewrite pow64; lia]. destruct Hfr as (Ha & Hau & Hlen & Hall).
  destruct (hours <? assigned) eqn:Elt; [discriminate|].
  assert (Hfr_nn : 0 <= zsum fr).
  { apply zsum_nonneg. eapply Forall_impl; [|exact Hall]. unfold in_u. intros; lia. }
  unfold in_u in Hh.
  rewrite wrap_small in H by lia.
  destruct (hours - assigned >? len coins); [discriminate|].
  destruct (dist_zeros fr (hours - assigned)) as [l1 rem1] eqn:Ez.
  apply dist_zeros_ok in Ez; [|lia]. destruct Ez as (Hs1 & Hr1 & Hl1 & Hb1).
  apply lift_ok in H.
  assert (Hbound : Forall (fun x => 0 <= x <= 2 ^ 63) fr).
  { (* every entry is at most the assigned total, which is at most hours < 2^63 *)
    clear - Hall Ha Elt Hh63 Hfr_nn.
    assert (Hsum : zsum fr <= 2 ^ 63) by lia. clear Ha Elt Hh63.
    induction Hall as [|x l Hx Hl IH]; [constructor|].
    rewrite zsum_cons in Hsum, Hfr_nn.
    assert (0 <= zsum l) by (apply zsum_nonneg; eapply Forall_impl; [|exact Hl]; unfold in_u; intros; lia).
    unfold in_u in Hx. constructor; [lia|apply IH; lia]. }
  apply dist_extra_ok in H; [|lia|apply Hb1; [rewrite pow63; lia|exact Hbound]].
  destruct H as [Hs2 Hl2]. split; [lia|congruence].
Qed.

(* ---------------------------------------------------------------- sorting *)
Lemma insert_perm less a l : Permutation (insert less a l) (a :: l).
Proof.
  induction l as [|b r IH]; cbn [insert]; [reflexivity|].
  destruct (less a b); [reflexivity|]. rewrite IH. apply perm_swap.
Qed.
Lemma isort_perm less l : Permutation (isort less l) l.
Proof.
  induction l as [|a r IH]; cbn [isort fold_right]; [reflexivity|].
  rewrite insert_perm. constructor. exact IH.
Qed.
Lemma sort_ux_perm less l l' : sort_ux less l = Val l' -> Permutation l' l.
Proof.
  unfold sort_ux. destruct (nodupb Z.eqb (map u_hash l)); [|discriminate]. intros H. injection H as <-. apply isort_perm.
Qed.

(* ----------------------------------------------------------- ChooseSpends *)
Definition ux_range (u : ux) : Prop := in_u 64 (u_coins u) /\ in_u 64 (u_hours u).
Definition csum (l : list ux) : Z := zsum (map u_coins l).
Definition hsum (l : list ux) : Z := zsum (map u_hours l).

Lemma csum_cons u l : csum (u :: l) = u_coins u + csum l. Proof. reflexivity. Qed.
Lemma hsum_cons u l : hsum (u :: l) = u_hours u + hsum l. Proof. reflexivity. Qed.
Lemma csum_app a b : csum (a ++ b) = csum a + csum b.
Proof. unfold csum. rewrite map_app, zsum_app. reflexivity. Qed.
Lemma hsum_app a b : hsum (a ++ b) = hsum a + hsum b.
Proof. unfold hsum. rewrite map_app, zsum_app. reflexivity. Qed.
Lemma csum_perm a b : Permutation a b -> csum a = csum b.
Proof. intros H. unfold csum. apply zsum_perm. apply Permutation_map. exact H. Qed.
Lemma hsum_perm a b : Permutation a b -> hsum a = hsum b.
Proof. intros H. unfold hsum. apply zsum_perm. apply Permutation_map. exact H. Qed.
Lemma csum_nonneg l : Forall ux_range l -> 0 <= csum l.
Proof. intros H. apply zsum_nonneg. rewrite Forall_map. eapply Forall_impl; [|exact H]. unfold ux_range, in_u. intros; lia. Qed.
Lemma hsum_nonneg l : Forall ux_range l -> 0 <= hsum l.
Proof. intros H. apply zsum_nonneg. rewrite Forall_map. eapply Forall_impl; [|exact H]. unfold ux_range, in_u. intros; lia. Qed.

Lemma range_perm a b : Permutation a b -> Forall ux_range a -> Forall ux_range b.
Proof. intros Hp H. rewrite Forall_forall in *. intros x Hx. apply H. eapply Permutation_in; [symmetry; exact Hp|exact Hx]. Qed.

Lemma filter_partition (f : ux -> bool) l :
  Permutation (filter f l ++ filter (fun u => negb (f u)) l) l.
Proof.
  induction l as [|a r IH]; cbn [filter]; [reflexivity|].
  destruct (f a); cbn [negb app].
  - constructor. exact IH.
  - rewrite <- Permutation_middle. constructor. exact IH.
Qed.

Lemma enough_spec burn coins hours c h : in_u 64 h -> 1 <= burn < 2 ^ 32 ->
  enough burn coins hours c h = Val ((coins <=? c) && (hours <=? remaining_of burn h)).
Proof.
  intros Hh Hb. unfold enough.
  destruct (c >=? coins) eqn:E.
  - destruct (RemainingHours_spec h burn Hh Hb) as [-> _]. cbn [bind].
    unfold remaining_of, ceil_div_z, ceil_div.
    replace (coins <=? c) with true by lia. cbn [andb]. f_equal. lia.
  - replace (coins <=? c) with false by lia. reflexivity.
Qed.

Lemma take_zero_ok coins : forall zs c h taken c2 h2,
  Forall ux_range zs -> 0 <= c -> 0 <= h -> c + csum zs < 2 ^ 64 -> h + hsum zs < 2 ^ 64 ->
  take_zero coins zs c h = (taken, c2, h2) ->
  exists rest, zs = taken ++ rest /\ c2 = c + csum taken /\ h2 = h + hsum taken /\
               (rest = [] \/ coins <= c2).
Proof.
  induction zs as [|u r IH]; intros c h taken c2 h2 Hr Hc Hh Hcs Hhs H; cbn [take_zero] in H.
  - injection H as <- <- <-. exists []. cbn. repeat split; try lia. left; reflexivity.
  - inversion Hr as [|? ? [Hu1 Hu2] Hr']; subst. rewrite csum_cons in Hcs. rewrite hsum_cons in Hhs.
    pose proof (csum_nonneg r Hr') as Hn1. pose proof (hsum_nonneg r Hr') as Hn2. unfold in_u in *.
    rewrite !wrap_small in H by lia.
    destruct (c + u_coins u >=? coins) eqn:E.
    + injection H as <- <- <-. exists r. rewrite csum_cons, hsum_cons. unfold csum, hsum. cbn.
      repeat split; try lia; try (right; lia).
    + destruct (take_zero coins r (c + u_coins u) (h + u_hours u)) as [[l c'] h'] eqn:Et.
      injection H as <- <- <-.
      apply IH in Et; try assumption; try lia. destruct Et as (rest & -> & -> & -> & Hor).
      exists rest. rewrite csum_cons, hsum_cons. repeat split; try lia. exact Hor.
Qed.

Lemma take_nonzero_ok burn coins hours : 1 <= burn < 2 ^ 32 ->
  forall rs acc c h res,
  Forall ux_range rs -> 0 <= c -> 0 <= h -> c + csum rs < 2 ^ 64 -> h + hsum rs < 2 ^ 64 ->
  take_nonzero burn coins hours rs acc c h = Val res ->
  match res with
  | inl sp => exists pre post, rs = pre ++ post /\ sp = acc ++ pre /\ pre <> [] /\
              coins <= c + csum pre /\ hours <= remaining_of burn (h + hsum pre)
  | inr (c', h') => c' = c + csum rs /\ h' = h + hsum rs /\
              (rs <> [] -> (coins <=? c') && (hours <=? remaining_of burn h') = false)
  end.
Proof.
  intros Hb. induction rs as [|u r IH]; intros acc c h res Hr Hc Hh Hcs Hhs H; cbn [take_nonzero] in H.
  - injection H as <-. unfold csum, hsum. cbn. repeat split; try lia. intros Hne. congruence.
  - inversion Hr as [|? ? [Hu1 Hu2] Hr']; subst. rewrite csum_cons in Hcs. rewrite hsum_cons in Hhs.
    pose proof (csum_nonneg r Hr') as Hn1. pose proof (hsum_nonneg r Hr') as Hn2. unfold in_u in *.
    rewrite !wrap_small in H by lia.
    rewrite enough_spec in H by (unfold in_u; lia). cbn [bind] in H.
    destruct ((coins <=? c + u_coins u) && (hours <=? remaining_of burn (h + u_hours u))) eqn:E.
    + injection H as <-. exists [u], r. rewrite csum_cons, hsum_cons. unfold csum, hsum. cbn [map zsum fold_right].
      replace (u_hours u + 0) with (u_hours u) by lia. replace (u_coins u + 0) with (u_coins u) by lia.
      apply Bool.andb_true_iff in E. destruct E as [E1 E2].
      repeat split; try lia; try discriminate.
    + apply IH in H; try assumption; try lia.
      destruct res as [sp|[c' h']].
      * destruct H as (pre & post & -> & -> & Hne & H1 & H2).
        exists (u :: pre), post. rewrite csum_cons, hsum_cons, <- app_assoc. cbn [app].
        repeat split; try lia; try discriminate.
        replace (h + (u_hours u + hsum pre)) with (h + u_hours u + hsum pre) by lia. exact H2.
      * destruct H as (-> & -> & Hlast). rewrite csum_cons, hsum_cons. repeat split; try lia.
        intros _. destruct r as [|v r'].
        -- unfold csum, hsum. cbn. replace (c + u_coins u + 0) with (c + u_coins u) by lia.
           replace (h + u_hours u + 0) with (h + u_hours u) by lia. exact E.
        -- apply Hlast. discriminate.
Qed.

Lemma hsum_zero l : Forall (fun u => u_hours u = 0) l -> hsum l = 0.
Proof. induction 1 as [|u l Hu _ IH]; [reflexivity|]. rewrite hsum_cons. lia. Qed.

Lemma choose_cases strat burn uxa coins hours :
  1 <= burn < 2 ^ 32 -> Forall ux_range uxa -> csum uxa < 2 ^ 64 -> hsum uxa < 2 ^ 64 ->
  match choose_spends strat burn uxa coins hours with
  | Val (inr sp) => sp <> [] /\ (exists rest, Permutation (sp ++ rest) uxa) /\
                    coins <= csum sp /\ hours <= remaining_of burn (hsum sp)
  | Val (inl e) => (e = ErrInsufficientBalance -> csum uxa < coins) /\
                   (e = ErrInsufficientHours -> coins <= csum uxa /\ remaining_of burn (hsum uxa) < hours)
  | Panic => True
  end.
Proof.
  intros Hb Hr Hcs Hhs. unfold choose_spends.
  destruct (coins =? 0); [cbn; split; intros He; cbv in He; discriminate|].
  destruct (len uxa =? 0); [cbn; split; intros He; cbv in He; discriminate|].
  destruct (existsb (fun u => u_coins u =? 0) uxa); [exact I|].
  set (nonzero := filter (fun u => negb (u_hours u =? 0)) uxa).
  set (zero := filter (fun u => u_hours u =? 0) uxa).
  assert (Hpart : Permutation (zero ++ nonzero) uxa) by apply filter_partition.
  assert (Hzero0 : hsum zero = 0).
  { apply hsum_zero. apply Forall_forall. intros u Hu. apply filter_In in Hu. lia. }
  destruct (len nonzero =? 0); [cbn; split; intros He; cbv in He; discriminate|].
  destruct (sort_ux high_to_low nonzero) as [|nz] eqn:Es; cbn [lift bindR ok]; [exact I|].
  apply sort_ux_perm in Es.
  destruct nz as [|first rest]; [exact I|].
  destruct (u_hours first =? 0); [exact I|].
  (* ranges and sums of the pieces *)
  pose proof (range_perm _ _ (Permutation_sym Hpart) Hr) as Hrzn.
  apply Forall_app in Hrzn. destruct Hrzn as [Hrz Hrn].
  pose proof (range_perm _ _ (Permutation_sym Es) Hrn) as Hrfr.
  inversion Hrfr as [|? ? [Hf1 Hf2] Hrr]; subst.
  pose proof (csum_perm _ _ Hpart) as Sc. pose proof (hsum_perm _ _ Hpart) as Sh.
  rewrite csum_app in Sc. rewrite hsum_app in Sh.
  pose proof (csum_perm _ _ Es) as Sc2. pose proof (hsum_perm _ _ Es) as Sh2.
  rewrite csum_cons in Sc2. rewrite hsum_cons in Sh2.
  pose proof (csum_nonneg _ Hrz) as Nz. pose proof (csum_nonneg _ Hrr) as Nr. pose proof (hsum_nonneg _ Hrr) as Nrh.
  unfold in_u in Hf1, Hf2.
  rewrite !Z.add_0_l, !wrap_small by lia.
  rewrite enough_spec by (unfold in_u; lia). cbn [lift bindR ok].
  assert (P1 : Permutation ([first] ++ rest ++ zero) uxa).
  { transitivity (nonzero ++ zero); [|rewrite Permutation_app_comm; exact Hpart].
    apply (Permutation_app_tail zero Es). }
  destruct ((coins <=? u_coins first) && (hours <=? remaining_of burn (u_hours first))) eqn:E1.
  { (* the first output with hours suffices *)
    apply Bool.andb_true_iff in E1. split; [discriminate|]. split.
    - exists (rest ++ zero). exact P1.
    - unfold csum, hsum. cbn. replace (u_coins first + 0) with (u_coins first) by lia.
      replace (u_hours first + 0) with (u_hours first) by lia. lia. }
  destruct (sort_ux strat zero) as [|zs] eqn:Ez; cbn [lift bindR ok]; [exact I|].
  apply sort_ux_perm in Ez.
  pose proof (range_perm _ _ (Permutation_sym Ez) Hrz) as Hrzs.
  pose proof (csum_perm _ _ Ez) as Sc3. pose proof (hsum_perm _ _ Ez) as Sh3.
  destruct (take_zero coins zs (u_coins first) (u_hours first)) as [[taken c2] h2] eqn:Et.
  apply take_zero_ok in Et; [|assumption|lia|lia|lia|lia].
  destruct Et as (zrest & Hzs & -> & -> & Hor).
  assert (Hrt : Forall ux_range taken /\ Forall ux_range zrest) by (rewrite Hzs in Hrzs; apply Forall_app in Hrzs; exact Hrzs).
  destruct Hrt as [Hrt Hrzr].
  rewrite Hzs, csum_app in Sc3. rewrite Hzs, hsum_app in Sh3.
  pose proof (csum_nonneg _ Hrt) as Nt. pose proof (hsum_nonneg _ Hrt) as Nth.
  pose proof (csum_nonneg _ Hrzr) as Nzr. pose proof (hsum_nonneg _ Hrzr) as Nzrh.
  rewrite enough_spec by (unfold in_u; lia). cbn [lift bindR ok].
  destruct ((coins <=? u_coins first + csum taken) && (hours <=? remaining_of burn (u_hours first + hsum taken))) eqn:E2.
  { apply Bool.andb_true_iff in E2. split; [discriminate|]. split.
    - exists (zrest ++ rest). rewrite <- P1. cbn [app]. constructor.
      rewrite app_assoc, <- Hzs. rewrite Permutation_app_comm. apply Permutation_app_head. exact Ez.
    - rewrite csum_cons, hsum_cons. lia. }
  destruct (sort_ux strat rest) as [|rs] eqn:Er; cbn [lift bindR ok]; [exact I|].
  apply sort_ux_perm in Er.
  pose proof (range_perm _ _ (Permutation_sym Er) Hrr) as Hrrs.
  pose proof (csum_perm _ _ Er) as Sc4. pose proof (hsum_perm _ _ Er) as Sh4.
  destruct (take_nonzero burn coins hours rs (first :: taken) (u_coins first + csum taken) (u_hours first + hsum taken)) as [|r3] eqn:E3;
    cbn [lift bindR ok]; [exact I|].
  apply (take_nonzero_ok burn coins hours Hb) in E3; [|assumption|lia|lia|lia|lia].
  destruct r3 as [sp|[c h]].
  - destruct E3 as (pre & post & Hrs & -> & Hne & H1 & H2). split; [discriminate|]. split.
    + exists (post ++ zrest). rewrite <- P1. cbn [app]. constructor.
      rewrite <- app_assoc.
      transitivity (taken ++ rs ++ zrest).
      * apply Permutation_app_head. rewrite app_assoc, <- Hrs. reflexivity.
      * rewrite Permutation_app_swap_app. apply Permutation_app; [exact Er|].
        rewrite <- Hzs. exact Ez.
    + rewrite csum_app, hsum_app, csum_cons, hsum_cons. split; [lia|exact H2].
  - destruct E3 as (-> & -> & Hlast).
    (* all nonzero outputs were added: hours reached = all hours *)
    assert (Hh_all : u_hours first + hsum taken + hsum rs = hsum uxa) by lia.
    destruct (u_coins first + csum taken + csum rs <? coins) eqn:Ec.
    + cbn. split; [intros _|intros He; cbv in He; discriminate].
      destruct Hor as [->|Hge]; [|lia]. unfold csum in Sc3 at 2. cbn in Sc3. lia.
    + cbn. split; [intros He; cbv in He; discriminate|intros _]. split; [lia|].
      destruct rs as [|r0 rs'].
      * (* no further nonzero output: the test after the zero loop already failed *)
        unfold csum, hsum in Ec, Hh_all |- *. cbn in Ec, Hh_all.
        apply Bool.andb_false_iff in E2. rewrite <- Hh_all. fold (hsum taken).
        replace (u_hours first + hsum taken + 0) with (u_hours first + hsum taken) by lia.
        destruct E2 as [E2|E2]; [fold (csum taken) in Ec; lia|lia].
      * specialize (Hlast ltac:(discriminate)). apply Bool.andb_false_iff in Hlast. rewrite <- Hh_all.
        destruct Hlast as [Hl|Hl]; lia.
Qed.

(* ------------------------------------------------------------ create: parts *)
Definition out_range (o : txout) : Prop := in_u 64 (o_coins o) /\ in_u 64 (o_hours o).
Definition ocsum (l : list txout) : Z := zsum (map o_coins l).
Definition ohsum (l : list txout) : Z := zsum (map o_hours l).

Lemma sum_to_ok : forall to c h c' h', Forall out_range to -> in_u 64 c -> in_u 64 h ->
  sum_to to c h = Val (inr (c', h')) ->
  c' = c + ocsum to /\ h' = h + ohsum to /\ in_u 64 c' /\ in_u 64 h'.
Proof.
  induction to as [|o r IH]; intros c h c' h' Hr Hc Hh H; cbn [sum_to] in H.
  - injection H as <- <-. unfold ocsum, ohsum. cbn. unfold in_u in *. repeat split; lia.
  - inversion Hr as [|? ? [Ho1 Ho2] Hr']; subst.
    apply bindR_ok in H. destruct H as (c1 & Hc1 & H). apply chk_as_add_ok in Hc1; [|assumption|assumption].
    apply bindR_ok in H. destruct H as (h1 & Hh1 & H). apply chk_as_add_ok in Hh1; [|assumption|assumption].
    destruct Hc1 as [-> Hc1]. destruct Hh1 as [-> Hh1].
    apply IH in H; [|assumption|unfold in_u in *; lia|unfold in_u in *; lia].
    destruct H as (-> & -> & H3 & H4). unfold ocsum, ohsum. cbn [map]. rewrite !zsum_cons.
    split; [lia|]. split; [lia|]. split; assumption.
Qed.

Lemma sum_spends_ok : forall sp n c h c' h', Forall ux_range sp -> in_u 64 c -> in_u 64 h ->
  sum_spends sp n c h = Val (inr (c', h')) ->
  c' = c + csum sp /\ h' = h + hsum sp /\ in_u 64 c' /\ in_u 64 h'.
Proof.
  induction sp as [|u r IH]; intros n c h c' h' Hr Hc Hh H; cbn [sum_spends] in H.
  - injection H as <- <-. unfold csum, hsum. cbn. unfold in_u in *. repeat split; lia.
  - inversion Hr as [|? ? [Ho1 Ho2] Hr']; subst.
    apply bindR_ok in H. destruct H as (c1 & Hc1 & H). apply chk_add_ok in Hc1; [|assumption|assumption].
    apply bindR_ok in H. destruct H as (h1 & Hh1 & H). apply chk_add_ok in Hh1; [|assumption|assumption].
    destruct Hc1 as [-> Hc1]. destruct Hh1 as [-> Hh1].
    destruct (n >=? MaxUint16); [discriminate|].
    apply IH in H; [|assumption|unfold in_u in *; lia|unfold in_u in *; lia].
    destruct H as (-> & -> & H3 & H4). rewrite csum_cons, hsum_cons.
    split; [lia|]. split; [lia|]. split; assumption.
Qed.

Lemma lookup_in : forall uxb u, NoDup (map u_hash uxb) -> In u uxb -> lookup uxb (u_hash u) = Some u.
Proof.
  induction uxb as [|v r IH]; intros u Hnd Hin; [contradiction|]. cbn [lookup].
  cbn [map] in Hnd. inversion Hnd as [|? ? Hnin Hnd']; subst.
  destruct Hin as [->|Hin]; [rewrite Z.eqb_refl; reflexivity|].
  destruct (u_hash v =? u_hash u) eqn:E; [|apply IH; assumption].
  exfalso. apply Hnin. apply Z.eqb_eq in E. rewrite E. apply in_map. exact Hin.
Qed.

Lemma lookup_all_incl : forall uxb sp, NoDup (map u_hash uxb) -> incl sp uxb ->
  lookup_all uxb (map u_hash sp) = Some sp.
Proof.
  induction sp as [|u r IH]; intros Hnd Hin; [reflexivity|]. cbn [map lookup_all].
  rewrite lookup_in by (try assumption; apply Hin; left; reflexivity).
  rewrite IH by (try assumption; intros x Hx; apply Hin; right; exact Hx). reflexivity.
Qed.

Lemma inv_inputs_nodup : forall ins seen, inv_inputs ins seen = None ->
  NoDup (map u_hash ins) /\ forall x, In x (map u_hash ins) -> ~ In x seen.
Proof.
  induction ins as [|i r IH]; intros seen H; cbn [inv_inputs] in H.
  - split; [constructor|intros x []].
  - destruct (u_hours i <? u_init i); [discriminate|].
    destruct ((u_bkseq i =? 0) && negb (u_src_null i)); [discriminate|].
    destruct (negb (u_bkseq i =? 0) && u_src_null i); [discriminate|].
    destruct (u_hash i =? 0); [discriminate|].
    destruct (existsb (Z.eqb (u_hash i)) seen) eqn:Ex; [discriminate|].
    apply IH in H. destruct H as [Hnd Hdis]. cbn [map]. split.
    + constructor; [|exact Hnd]. intros Hin. apply (Hdis _ Hin). left; reflexivity.
    + intros x [<-|Hx].
      * intros Hs. assert (existsb (Z.eqb (u_hash i)) seen = true) as Ht
          by (apply existsb_exists; exists (u_hash i); split; [exact Hs|apply Z.eqb_refl]). congruence.
      * intros Hs. apply (Hdis _ Hx). right; exact Hs.
Qed.

Lemma inv_outs_ok : forall outs, inv_outs outs = None -> Forall (fun o => o_coins o <> 0 /\ o_addr o <> 0) outs.
Proof.
  induction outs as [|o r IH]; intros H; cbn [inv_outs] in H; [constructor|].
  destruct (o_addr o =? 0) eqn:Ea; [discriminate|]. destruct (o_coins o =? 0) eqn:Ec; [discriminate|].
  constructor; [lia|apply IH; exact H].
Qed.

Lemma invariants_ok burn p ins outs :
  1 <= burn < 2 ^ 32 -> Forall ux_range ins -> Forall out_range outs ->
  invariants burn p ins outs = Val (inr tt) ->
  NoDup (map u_hash ins) /\ Forall (fun o => o_coins o <> 0 /\ o_addr o <> 0) outs /\
  ohsum outs + ceil_div_z (hsum ins) burn <= hsum ins.
Proof.
  intros Hb Hri Hro H. unfold invariants in H.
  destruct (inv_outs outs) eqn:Eo; [discriminate|].
  destruct (negb (len outs =? len (p_to p)) && negb (len outs =? len (p_to p) + 1)); [discriminate|].
  destruct (inv_match outs (p_to p)); [discriminate|].
  destruct (inv_inputs ins []) eqn:Ei; [discriminate|].
  apply bindR_ok in H. destruct H as (ih & Hih & H).
  apply sum_chk_ok in Hih; [| |unfold in_u; rewrite pow64; lia].
  2:{ rewrite Forall_map. eapply Forall_impl; [|exact Hri]. intros u [_ Hu]. exact Hu. }
  apply bindR_ok in H. destruct H as (oh & Hoh & H).
  apply sum_chk_ok in Hoh; [| |unfold in_u; rewrite pow64; lia].
  2:{ rewrite Forall_map. eapply Forall_impl; [|exact Hro]. intros u [_ Hu]. exact Hu. }
  destruct Hih as [-> Hihr]. destruct Hoh as [-> Hohr]. rewrite !Z.add_0_l in *.
  fold (hsum ins) in *. fold (ohsum outs) in *.
  destruct (hsum ins <? ohsum outs) eqn:Elt; [discriminate|].
  rewrite RequiredFee_ceil in H by assumption. cbn [lift bindR ok] in H.
  unfold in_u in *. rewrite wrap_small in H by lia.
  destruct (hsum ins - ohsum outs <? ceil_div (hsum ins) burn) eqn:Ef; [discriminate|].
  split; [apply (inv_inputs_nodup ins [] Ei)|]. split; [apply inv_outs_ok; exact Eo|].
  unfold ceil_div_z. unfold ceil_div in Ef. lia.
Qed.

Lemma dist_extra_range : forall l rem l', Forall (in_u 64) l -> dist_extra l rem = Val l' -> Forall (in_u 64) l'.
Proof.
  induction l as [|x l IH]; intros rem l' Hall H; cbn [dist_extra] in H.
  - destruct (rem >? 0); [discriminate|]. injection H as <-. constructor.
  - destruct (rem >? 0).
    + inversion Hall; subst. destruct (dist_extra l (rem - 1)) as [|r'] eqn:Ed; cbn [bind] in H; [discriminate|].
      injection H as <-. constructor; [apply wrap_range; lia|eapply IH; eassumption].
    + injection H as <-. exact Hall.
Qed.

Lemma distribute_range coins hours hs :
  Forall (in_u 64) coins -> in_u 64 hours ->
  distribute coins hours = Val (inr hs) -> Forall (in_u 64) hs.
Proof.
  intros Hc Hh H. unfold distribute in H.
  destruct (len coins =? 0); [discriminate|].
  apply bindR_ok in H. destruct H as (total & Ht & H).
  apply bindR_ok in H. destruct H as (u1 & _ & H).
  apply bindR_ok in H. destruct H as (u2 & Hh63 & H).
  apply chk_u2i_ok in Hh63; [|assumption]. destruct Hh63 as [_ Hh63].
  apply bindR_ok in H. destruct H as ([fr assigned] & Hfr & H).
  apply dist_frac_ok in Hfr; [|unfold in_u; rewrite pow64; lia]. destruct Hfr as (Ha & Hau & Hlen & Hall).
  destruct (hours <? assigned) eqn:Elt; [discriminate|].
  unfold in_u in Hh. rewrite wrap_small in H by (rewrite Z.add_0_l in Ha; assert (0 <= zsum fr) by
    (apply zsum_nonneg; eapply Forall_impl; [|exact Hall]; unfold in_u; intros; lia); lia).
  destruct (hours - assigned >? len coins); [discriminate|].
  destruct (dist_zeros fr (hours - assigned)) as [l1 rem1] eqn:Ez.
  assert (Hnn : 0 <= hours - assigned) by lia.
  apply dist_zeros_ok in Ez; [|lia]. destruct Ez as (_ & _ & _ & Hb1).
  apply lift_ok in H. eapply dist_extra_range; [|exact H].
  specialize (Hb1 (2 ^ 64 - 1) ltac:(rewrite pow64; lia)).
  assert (Hfr1 : Forall (fun x => 0 <= x <= 2 ^ 64 - 1) fr).
  { eapply Forall_impl; [|exact Hall]. unfold in_u. intros; lia. }
  specialize (Hb1 Hfr1). eapply Forall_impl; [|exact Hb1]. unfold in_u. intros; lia.
Qed.

Lemma nodupb_txout l : nodupb txout_eqb l = true <-> NoDup l.
Proof. apply nodupb_spec. apply txout_eqb_spec. Qed.

Lemma validate_to_ok : forall to, validate_to to = None -> Forall (fun o => o_coins o <> 0 /\ o_addr o <> 0) to.
Proof.
  induction to as [|o r IH]; intros H; cbn [validate_to] in H; [constructor|].
  destruct (o_coins o =? 0) eqn:E1; [discriminate|]. destruct (o_addr o =? 0) eqn:E2; [discriminate|].
  constructor; [lia|apply IH; exact H].
Qed.

Definition auto_share (p : params) : Prop :=
  p_type p = TAuto /\ p_mode p = MShare /\ Forall (fun o => o_hours o = 0) (p_to p) /\
  exists num den, p_share p = Some (num, den) /\ 0 <= num <= den.

Lemma validate_ok p : validate p = None ->
  p_change p <> Some 0 /\ p_to p <> [] /\ Forall (fun o => o_coins o <> 0 /\ o_addr o <> 0) (p_to p) /\
  NoDup (p_to p) /\ ((p_type p = TManual /\ p_mode p = MEmpty) \/ auto_share p).
Proof.
  unfold validate. intros H.
  destruct (match p_change p with Some a => a =? 0 | None => false end) eqn:Ec; [discriminate|].
  destruct (len (p_to p) =? 0) eqn:El; [discriminate|].
  destruct (validate_to (p_to p)) eqn:Ev; [discriminate|].
  destruct (nodupb txout_eqb (p_to p)) eqn:En; cbn [negb] in H; [|discriminate].
  split. { intros Hc. rewrite Hc in Ec. discriminate. }
  split. { intros Hc. rewrite Hc in El. discriminate. }
  split. { apply validate_to_ok. exact Ev. }
  split. { apply nodupb_txout. exact En. }
  destruct (p_type p) eqn:Et.
  - left. destruct (p_mode p); try discriminate. split; reflexivity.
  - right. unfold auto_share. rewrite Et.
    destruct (existsb (fun o => negb (o_hours o =? 0)) (p_to p)) eqn:Ex; [discriminate|].
    destruct (p_mode p) eqn:Em; try discriminate.
    destruct (p_share p) as [[num den]|] eqn:Es; [|discriminate].
    destruct ((num <? 0) || (den <? num)) eqn:Er; [discriminate|].
    split; [reflexivity|]. split; [reflexivity|]. split.
    + apply Forall_forall. intros o Ho.
      destruct (o_hours o =? 0) eqn:Eh; [lia|]. exfalso.
      assert (existsb (fun o => negb (o_hours o =? 0)) (p_to p) = true) as Ht
        by (apply existsb_exists; exists o; split; [exact Ho|rewrite Eh; reflexivity]). congruence.
    + exists num, den. split; [reflexivity|lia].
  - discriminate.
Qed.

(* what assign_hours gives the requested outputs *)
Definition pays (p : params) (o t : txout) : Prop :=
  o_addr o = o_addr t /\ o_coins o = o_coins t /\ (p_type p = TManual -> o_hours o = o_hours t).

Lemma Forall2_refl_pays p l : Forall2 (pays p) l l.
Proof. induction l; constructor; [unfold pays; tauto|assumption]. Qed.

Lemma combine_pays p : forall to hs, List.length hs = List.length to -> p_type p = TAuto ->
  Forall2 (pays p) (map (fun oh => mk_out (o_addr (fst oh)) (o_coins (fst oh)) (snd oh)) (combine to hs)) to /\
  map o_hours (map (fun oh => mk_out (o_addr (fst oh)) (o_coins (fst oh)) (snd oh)) (combine to hs)) = hs.
Proof.
  induction to as [|t r IH]; intros [|h hs] Hl Ht; cbn [List.length] in Hl; try discriminate.
  - split; [constructor|reflexivity].
  - injection Hl as Hl. destruct (IH hs Hl Ht) as [H1 H2]. cbn [combine map fst snd o_hours]. split.
    + constructor; [|exact H1]. unfold pays. cbn. rewrite Ht. repeat split; discriminate.
    + f_equal. exact H2.
Qed.

Lemma assign_hours_ok p remaining outs :
  validate p = None -> Forall out_range (p_to p) -> in_u 64 remaining ->
  assign_hours p remaining = Val (inr outs) ->
  Forall2 (pays p) outs (p_to p) /\ Forall out_range outs /\
  (p_type p = TAuto -> exists num den, p_share p = Some (num, den) /\ 0 < den /\ ohsum outs = num * remaining / den).
Proof.
  intros Hv Hto Hrem H. apply validate_ok in Hv. destruct Hv as (_ & _ & _ & _ & Hmode).
  unfold assign_hours in H. destruct Hmode as [[Ht Hm]|(Ht & Hm & Hz & num & den & Hs & Hnd)]; rewrite Ht in H.
  - injection H as <-. split; [apply Forall2_refl_pays|]. split; [exact Hto|]. intros Hc. congruence.
  - rewrite Hm, Hs in H.
    apply bindR_ok in H. destruct H as (hours & Hh & H). apply chk_u2i_ok in Hh; [|assumption]. destruct Hh as [-> Hlt].
    destruct (den <=? 0) eqn:Ed; [discriminate|].
    apply bindR_ok in H. destruct H as (allocated & Ha & H).
    assert (Hq : 0 <= num * remaining / den <= remaining).
    { unfold in_u in Hrem. split; [apply Z.div_pos; nia|]. apply Z.div_le_upper_bound; nia. }
    rewrite Int64ToUint64_spec in Ha by (unfold in_s; change (64 - 1) with 63; rewrite pow63 in *; lia).
    unfold ret_or_err in Ha. replace (0 <=? num * remaining / den) with true in Ha by lia.
    cbn [chk ok] in Ha. injection Ha as <-.
    apply bindR_ok in H. destruct H as (hs & Hd & H). injection H as <-.
    assert (Hcoins : Forall (in_u 64) (map o_coins (p_to p))).
    { rewrite Forall_map. eapply Forall_impl; [|exact Hto]. intros o [Ho _]. exact Ho. }
    assert (Hall : in_u 64 (num * remaining / den)) by (unfold in_u in *; lia).
    pose proof (distribute_sum _ _ _ Hcoins Hall Hd) as [Hsum Hlen].
    pose proof (distribute_range _ _ _ Hcoins Hall Hd) as Hrange.
    rewrite map_length in Hlen.
    destruct (combine_pays p (p_to p) hs Hlen Ht) as [Hp Hh].
    split; [exact Hp|]. split.
    + (* ranges of the outputs *)
      clear - Hto Hrange Hlen. revert hs Hrange Hlen. induction (p_to p) as [|t r IH]; intros [|h hs] Hr Hl; cbn [List.length] in Hl; try discriminate; cbn [combine map]; [constructor|].
      inversion Hto as [|? ? [Ht1 Ht2] Hto']; subst. inversion Hr; subst. injection Hl as Hl.
      constructor; [split; cbn; assumption|apply IH; assumption].
    + intros _. exists num, den. split; [exact Hs|]. split; [lia|]. unfold ohsum. rewrite Hh. exact Hsum.
Qed.

(* ------------------------------------------------------------ create: sound *)
Definition sound_P (burn : Z) (p : params) (uxb : list ux) (c : created) : Prop :=
  let ins := c_ins c in
  let outs := c_outs c in
  incl ins uxb /\ NoDup (map u_hash ins) /\ ins <> [] /\
  exists req change,
    outs = req ++ change /\
    Forall2 (pays p) req (p_to p) /\
    (change = [] \/ exists ch, change = [ch] /\ 0 < o_coins ch /\
        Some (o_addr ch) = match p_change p with Some a => Some a | None => min_addr ins end) /\
    ocsum outs = csum ins /\
    (p_type p = TAuto -> In (ohsum req) (allotted_candidates burn p ins)) /\
    ohsum outs + ceil_div_z (hsum ins) burn <= hsum ins /\
    NoDup outs /\ Forall (fun o => o_coins o <> 0) outs.

Lemma incl_sum_le (f : ux -> Z) : forall l m,
  NoDup l -> incl l m -> (forall x, In x m -> 0 <= f x) -> zsum (map f l) <= zsum (map f m).
Proof.
  induction l as [|a l IH]; intros m Hnd Hin Hf.
  - cbn. apply zsum_nonneg. rewrite Forall_map. apply Forall_forall. exact Hf.
  - inversion Hnd as [|? ? Hna Hnd']; subst.
    assert (Ha : In a m) by (apply Hin; left; reflexivity).
    apply in_split in Ha. destruct Ha as (m1 & m2 & ->).
    cbn [map]. rewrite zsum_cons, map_app, zsum_app. cbn [map]. rewrite zsum_cons.
    specialize (IH (m1 ++ m2) Hnd').
    rewrite map_app, zsum_app in IH.
    assert (zsum (map f l) <= zsum (map f m1) + zsum (map f m2)); [|lia].
    apply IH.
    + intros x Hx. assert (Hxm : In x (m1 ++ a :: m2)) by (apply Hin; right; exact Hx).
      apply in_app_iff in Hxm. apply in_app_iff. destruct Hxm as [H1|[H1|H1]]; [left; exact H1| |right; exact H1].
      subst x. contradiction.
    + intros x Hx. apply Hf. apply in_app_iff in Hx. apply in_app_iff. destruct Hx; [left|right; right]; assumption.
Qed.

Lemma NoDup_map_hash l : NoDup (map u_hash l) -> NoDup l.
Proof. apply NoDup_map_inv. Qed.

(* requested outputs stay pairwise different after the hours are assigned *)
Lemma pays_nodup p : forall outs to,
  Forall2 (pays p) outs to -> NoDup to ->
  (p_type p = TManual \/ Forall (fun o => o_hours o = 0) to) -> NoDup outs.
Proof.
  intros outs to HF. induction HF as [|o t outs to Hot HF IH]; intros Hnd Hmode; [constructor|].
  inversion Hnd as [|? ? Hnin Hnd']; subst. constructor.
  - intros Hin.
    (* some t' in `to` is paid by the same o: then t' = t *)
    assert (Hex : exists t', In t' to /\ pays p o t').
    { clear - HF Hin. induction HF as [|o' t' outs to Ho' HF IH]; [contradiction|].
      destruct Hin as [->|Hin]; [exists t'; split; [left; reflexivity|exact Ho']|].
      destruct (IH Hin) as (t'' & Ht'' & Hp). exists t''. split; [right; exact Ht''|exact Hp]. }
    destruct Hex as (t' & Ht' & (Ha & Hc & Hh)). destruct Hot as (Ha0 & Hc0 & Hh0).
    apply Hnin. replace t with t'; [exact Ht'|].
    destruct t as [ta tc th], t' as [ta' tc' th']. cbn [o_addr o_coins o_hours] in *.
    destruct Hmode as [Hm|Hz].
    + specialize (Hh Hm). specialize (Hh0 Hm). f_equal; congruence.
    + inversion Hz as [|? ? Hz0 Hz']; subst. cbn in Hz0.
      rewrite Forall_forall in Hz'. specialize (Hz' _ Ht'). cbn in Hz'. f_equal; congruence.
  - apply IH; [exact Hnd'|]. destruct Hmode as [Hm|Hz]; [left; exact Hm|right]. inversion Hz; assumption.
Qed.

Lemma Forall2_length_eq {A B} (R : A -> B -> Prop) l m : Forall2 R l m -> List.length l = List.length m.
Proof. induction 1; cbn; congruence. Qed.

Lemma ocsum_pays p outs to : Forall2 (pays p) outs to -> ocsum outs = ocsum to.
Proof.
  induction 1 as [|o t outs to (Ha & Hc & Hh) HF IH]; [reflexivity|].
  unfold ocsum in *. cbn [map]. rewrite !zsum_cons. lia.
Qed.

Lemma NoDup_app_single {A} (l : list A) a : NoDup l /\ ~ In a l -> NoDup (l ++ [a]).
Proof.
  intros [Hnd Hnin]. induction l as [|b r IH]; cbn [app]; [constructor; [intros []|constructor]|].
  inversion Hnd as [|? ? Hb Hr]; subst. constructor.
  - intros Hin. apply in_app_iff in Hin. destruct Hin as [Hin|[<-|[]]]; [contradiction|]. apply Hnin. left; reflexivity.
  - apply IH; [exact Hr|]. intros Hin. apply Hnin. right; exact Hin.
Qed.

Lemma create_step_sound burn again p uxb c :
  1 <= burn < 2 ^ 32 -> Forall ux_range uxb -> csum uxb < 2 ^ 64 -> hsum uxb < 2 ^ 64 ->
  Forall out_range (p_to p) ->
  create_step burn again p uxb = Val (inr (inl c)) -> sound_P burn p uxb c.
Proof.
  intros Hb Hux Hcs Hhs Hto H. unfold create_step in H.
  destruct (validate p) eqn:Ev; [discriminate|].
  destruct (nodupb Z.eqb (map u_hash uxb)) eqn:End; cbn [negb] in H; [|discriminate].
  apply (nodupb_spec Z.eqb _ Z.eqb_eq) in End.
  apply bindR_ok in H. destruct H as ([toc rh] & Hsum_to & H).
  apply sum_to_ok in Hsum_to; [|assumption|unfold in_u; rewrite pow64; lia|unfold in_u; rewrite pow64; lia].
  destruct Hsum_to as (-> & -> & Htoc & Hrh). rewrite !Z.add_0_l in *.
  apply bindR_ok in H. destruct H as (spends & Hch & H).
  pose proof (choose_cases high_to_low burn uxb (ocsum (p_to p)) (ohsum (p_to p)) Hb Hux Hcs Hhs) as Hcc.
  rewrite Hch in Hcc. destruct Hcc as (Hsp_ne & (sprest & Hperm) & Hsp_c & Hsp_h).
  assert (Hsp_in : incl spends uxb).
  { intros x Hx. eapply Permutation_in; [exact Hperm|]. apply in_app_iff. left; exact Hx. }
  assert (Hsp_r : Forall ux_range spends).
  { apply Forall_forall. intros x Hx. rewrite Forall_forall in Hux. apply Hux. apply Hsp_in. exact Hx. }
  apply bindR_ok in H. destruct H as ([tic tih] & Hss & H).
  apply sum_spends_ok in Hss; [|assumption|unfold in_u; rewrite pow64; lia|unfold in_u; rewrite pow64; lia].
  destruct Hss as (-> & -> & Htic & Htih). rewrite !Z.add_0_l in *.
  rewrite RequiredFee_ceil in H by assumption. cbn [lift bindR ok] in H.
  destruct (ceil_div (hsum spends) burn =? 0) eqn:Efee; [discriminate|].
  pose proof (ceil_div_le (hsum spends) burn ltac:(unfold in_u in Htih; lia) ltac:(lia)) as Hfee_le.
  assert (Hfee_nn : 0 <= ceil_div (hsum spends) burn).
  { unfold ceil_div. apply Z.div_pos; unfold in_u in Htih; lia. }
  unfold in_u in Htih, Htic.
  rewrite (wrap_small 64 (hsum spends - ceil_div (hsum spends) burn)) in H by lia.
  set (remaining := hsum spends - ceil_div (hsum spends) burn) in *.
  apply bindR_ok in H. destruct H as (outs & Hassign & H).
  apply assign_hours_ok in Hassign; [|assumption|assumption|unfold in_u; lia].
  destruct Hassign as (Hpays & Hout_r & Hauto).
  destruct (len outs >? MaxUint16) eqn:Elen; [discriminate|].
  apply bindR_ok in H. destruct H as (toh & Htoh & H).
  apply sum_chk_as_ok in Htoh; [| |unfold in_u; rewrite pow64; lia].
  2:{ rewrite Forall_map. eapply Forall_impl; [|exact Hout_r]. intros o [_ Ho]. exact Ho. }
  destruct Htoh as [-> Htoh]. rewrite Z.add_0_l in *. fold (ohsum outs) in *.
  destruct (ocsum (p_to p) >? csum spends) eqn:Ecoins; [discriminate|].
  destruct (ohsum outs >? remaining) eqn:Ehours; [discriminate|].
  unfold in_u in Htoc, Htoh.
  rewrite (wrap_small 64 (csum spends - ocsum (p_to p))) in H by lia.
  rewrite (wrap_small 64 (remaining - ohsum outs)) in H by lia.
  apply bindR_ok in H. destruct H as ([[spends2 cc2] ch2] & Hextra & H).
  (* the extra input that carries the change hours *)
  assert (HE : incl spends2 uxb /\ spends2 <> [] /\ cc2 = csum spends2 - ocsum (p_to p) /\ in_u 64 cc2 /\ in_u 64 ch2 /\
               (spends2 = spends \/ removelast spends2 = spends)).
  { destruct ((csum spends - ocsum (p_to p) =? 0) && (remaining - ohsum outs >? 0)) eqn:Econd.
    2:{ injection Hextra as <- <- <-. unfold in_u. repeat split; try assumption; try lia. left; reflexivity. }
    apply Bool.andb_true_iff in Econd. destruct Econd as [Ecc Ech].
    apply bindR_ok in Hextra. destruct Hextra as (zs & Hzs & Hextra). apply lift_ok in Hzs. apply sort_ux_perm in Hzs.
    destruct zs as [|extra zs'].
    { injection Hextra as <- <- <-. unfold in_u. repeat split; try assumption; try lia. left; reflexivity. }
    assert (Hex_in : In extra uxb).
    { assert (Hf : In extra (filter (fun u => negb (existsb (fun s => u_hash s =? u_hash u) spends)) uxb))
        by (eapply Permutation_in; [exact Hzs|left; reflexivity]).
      apply filter_In in Hf. tauto. }
    assert (Hex_r : ux_range extra) by (rewrite Forall_forall in Hux; apply Hux; exact Hex_in).
    destruct Hex_r as [Hex_c Hex_h].
    apply bindR_ok in Hextra. destruct Hextra as (new_total & Hnt & Hextra).
    apply chk_add_ok in Hnt; [|unfold in_u; lia|assumption]. destruct Hnt as [-> Hnt].
    rewrite RequiredFee_ceil in Hextra by (try assumption; unfold in_u in *; lia). cbn [lift bindR ok] in Hextra.
    destruct (ceil_div (hsum spends + u_hours extra) burn <? ceil_div (hsum spends) burn); [discriminate|].
    destruct (wrap 64 (ceil_div (hsum spends + u_hours extra) burn - ceil_div (hsum spends) burn) <? remaining - ohsum outs).
    2:{ injection Hextra as <- <- <-. unfold in_u. repeat split; try assumption; try lia. left; reflexivity. }
    destruct (u_hours extra <? wrap 64 (ceil_div (hsum spends + u_hours extra) burn - ceil_div (hsum spends) burn)); [discriminate|].
    apply bindR_ok in Hextra. destruct Hextra as (chh & Hchh & Hextra).
    apply chk_add_ok in Hchh; [|unfold in_u; lia|apply wrap_range; lia]. destruct Hchh as [-> Hchh].
    destruct (len spends >=? MaxUint16); [discriminate|].
    injection Hextra as <- <- <-.
    split. { intros x Hx. apply in_app_iff in Hx. destruct Hx as [Hx|[<-|[]]]; [apply Hsp_in; exact Hx|exact Hex_in]. }
    split. { intros Hc. apply app_eq_nil in Hc. destruct Hc; discriminate. }
    rewrite csum_app. unfold csum at 2. cbn [map]. rewrite zsum_cons. cbn [zsum fold_right].
    split; [lia|]. split; [exact Hex_c|]. split.
    { pose proof (wrap_range 64 (u_hours extra - wrap 64 (ceil_div (hsum spends + u_hours extra) burn - ceil_div (hsum spends) burn)) ltac:(lia)).
      unfold in_u. lia. }
    right. apply removelast_last. }
  destruct HE as (Hin2 & Hne2 & Hcc2 & Hcc2r & Hch2r & Hrl).
  assert (Hsp2_r : Forall ux_range spends2).
  { apply Forall_forall. intros x Hx. rewrite Forall_forall in Hux. apply Hux. apply Hin2. exact Hx. }
  destruct ((cc2 =? 0) && (ch2 >? 0) && is_auto_share p) eqn:Efb.
  { destruct (p_share p) as [[num den]|]; [|discriminate].
    destruct (num =? den); [discriminate|]. destruct again; discriminate. }
  apply bindR_ok in H. destruct H as (outs2 & Houts2 & H).
  rewrite (lookup_all_incl uxb spends2 End Hin2) in H.
  destruct (invariants burn p spends2 outs2) as [|[e|[]]] eqn:Einv; try discriminate.
  injection H as <-.
  (* shape of the outputs *)
  assert (HO : exists change, outs2 = outs ++ change /\ Forall out_range outs2 /\ NoDup outs2 /\ ocsum outs2 = csum spends2 /\
     (change = [] \/ exists ch, change = [ch] /\ 0 < o_coins ch /\
        Some (o_addr ch) = match p_change p with Some a => Some a | None => min_addr spends2 end)).
  { assert (Hnd_outs : NoDup outs).
    { pose proof (validate_ok p Ev) as (_ & _ & _ & Hnd_to & Hmode).
      eapply pays_nodup; [exact Hpays|exact Hnd_to|].
      destruct Hmode as [[Hm _]|(_ & _ & Hz & _)]; [left; exact Hm|right; exact Hz]. }
    pose proof (ocsum_pays p outs (p_to p) Hpays) as Hoc.
    destruct (cc2 >? 0) eqn:Ecc.
    - apply bindR_ok in Houts2. destruct Houts2 as (addr & Haddr & Houts2).
      destruct (existsb (txout_eqb (mk_out addr cc2 ch2)) outs) eqn:Edup; [discriminate|].
      destruct (len outs >=? MaxUint16); [discriminate|]. injection Houts2 as <-.
      exists [mk_out addr cc2 ch2]. split; [reflexivity|]. split.
      { apply Forall_app. split; [exact Hout_r|]. constructor; [split; cbn; assumption|constructor]. }
      split.
      { apply NoDup_app_single. split; [exact Hnd_outs|]. intros Hin.
        assert (existsb (txout_eqb (mk_out addr cc2 ch2)) outs = true) as Ht
          by (apply existsb_exists; exists (mk_out addr cc2 ch2); split; [exact Hin|apply txout_eqb_spec; reflexivity]).
        congruence. }
      split.
      { unfold ocsum. rewrite map_app, zsum_app. cbn [map o_coins]. rewrite zsum_cons. cbn [zsum fold_right].
        fold (ocsum outs). lia. }
      right. exists (mk_out addr cc2 ch2). split; [reflexivity|]. split; [cbn; lia|]. cbn [o_addr].
      destruct (p_change p) as [a|].
      + injection Haddr as ->. reflexivity.
      + destruct (min_addr spends2) as [a|]; [|discriminate]. injection Haddr as ->. reflexivity.
    - injection Houts2 as <-. exists []. rewrite app_nil_r. split; [reflexivity|]. split; [exact Hout_r|].
      split; [exact Hnd_outs|]. split; [unfold in_u in Hcc2r; lia|]. left; reflexivity. }
  destruct HO as (change & -> & Hout2_r & Hnd2 & Hoc2 & Hchange).
  apply invariants_ok in Einv; [|assumption|assumption|assumption].
  destruct Einv as (Hnd_in & Hnz & Hfee).
  unfold sound_P. cbn [c_ins c_outs].
  split; [exact Hin2|]. split; [exact Hnd_in|]. split; [exact Hne2|].
  exists outs, change. split; [reflexivity|]. split; [exact Hpays|]. split; [exact Hchange|].
  split; [exact Hoc2|]. split.
  { intros Hta. destruct (Hauto Hta) as (num & den & Hs & Hden & Hsum).
    unfold allotted_candidates. rewrite Hs. rewrite Hsum.
    fold (hsum spends2). fold (hsum (removelast spends2)).
    unfold remaining, remaining_of, ceil_div_z, ceil_div.
    destruct Hrl as [->| ->]; [left; reflexivity|right; left; reflexivity]. }
  split; [exact Hfee|]. split; [exact Hnd2|].
  eapply Forall_impl; [|exact Hnz]. intros o [Ho _]. exact Ho.
Qed.

Lemma sound_share_one burn p uxb c :
  p_share p <> None -> sound_P burn (with_share_one p) uxb c -> sound_P burn p uxb c.
Proof.
  intros Hs (H1 & H2 & H3 & req & change & H4 & H5 & H6 & H7 & H8 & H9).
  split; [exact H1|]. split; [exact H2|]. split; [exact H3|].
  exists req, change. split; [exact H4|]. split; [exact H5|]. split; [exact H6|]. split; [exact H7|].
  split; [|exact H9].
  intros Ht. specialize (H8 Ht). unfold allotted_candidates in *. cbn [with_share_one p_share] in H8.
  destruct (p_share p) as [[num den]|]; [|congruence].
  rewrite !Z.mul_1_l, !Z.div_1_r in H8. cbn [In] in *. tauto.
Qed.

Lemma create_sound burn p uxb c :
  1 <= burn < 2 ^ 32 -> Forall ux_range uxb -> csum uxb < 2 ^ 64 -> hsum uxb < 2 ^ 64 ->
  Forall out_range (p_to p) ->
  create burn p uxb = Val (inr c) -> sound_P burn p uxb c.
Proof.
  intros Hb Hux Hcs Hhs Hto H. unfold create in H.
  apply bindR_ok in H. destruct H as ([c1|[]] & H1 & H).
  - injection H as <-. eapply create_step_sound; eassumption.
  - (* fallback with share factor 1.0 *)
    apply bindR_ok in H. destruct H as ([c2|[]] & H2 & H); [|discriminate].
    injection H as <-. apply sound_share_one.
    + (* the first activation asked for the fallback: a share factor is set *)
      intros Hn. unfold create_step in H1. rewrite Hn in H1.
      destruct (validate p) eqn:Ev; [discriminate|].
      apply validate_ok in Ev. destruct Ev as (_ & _ & _ & _ & [[Ht Hm]|(_ & _ & _ & num & den & Hs & _)]); [|congruence].
      (* manual mode never asks for the fallback *)
      unfold is_auto_share in H1. rewrite Ht in H1.
      destruct (nodupb Z.eqb (map u_hash uxb)); cbn [negb] in H1; [|discriminate].
      repeat (apply bindR_ok in H1; destruct H1 as (? & _ & H1);
              repeat match type of H1 with
                     | (let '(_, _) := ?x in _) = _ => destruct x
                     | (if ?c then _ else _) = _ => destruct c; try discriminate
                     end).
      all: try discriminate.
      all: rewrite ?Bool.andb_false_r in H1.
      all: repeat (apply bindR_ok in H1; destruct H1 as (? & _ & H1)).
      all: repeat match type of H1 with
                  | match ?x with _ => _ end = _ => destruct x; try discriminate
                  end.
    + eapply create_step_sound; try eassumption.
Qed.

Lemma sum_coins_ocsum outs : sum_coins outs = ocsum outs.
Proof. induction outs as [|o r IH]; [reflexivity|]. unfold ocsum in *. cbn [sum_coins fold_right map]. rewrite zsum_cons. unfold sum_coins in IH. rewrite IH. reflexivity. Qed.

(* a soundly created transaction is well formed as an unsigned transaction
   (the verifier's rule set of C09), whatever its inner hash is *)
Lemma sound_wf burn p uxb c h :
  Forall ux_range uxb -> csum uxb < 2 ^ 64 -> p_to p <> [] ->
  sound_P burn p uxb c -> well_formed false (as_txn h c).
Proof.
  intros Hux Hcs Hto (Hin & Hnd & Hne & req & change & Houts & Hpays & _ & Hoc & _ & _ & Hnd_o & Hnz).
  unfold well_formed, as_txn. cbn [t_ins t_outs t_sigs t_typ t_size t_len t_inner t_inner_actual].
  split. { intros Hc. apply map_eq_nil in Hc. contradiction. }
  split. { intros Hc. rewrite Houts in Hc. apply app_eq_nil in Hc. destruct Hc as [Hc _]. subst req.
           inversion Hpays; subst. congruence. }
  split. { rewrite !map_length. reflexivity. }
  split; [exact Hnd|]. split; [exact Hnd_o|]. split; [reflexivity|]. split; [exact Hnz|].
  split.
  { rewrite sum_coins_ocsum, Hoc. unfold csum.
    assert (zsum (map u_coins (c_ins c)) <= zsum (map u_coins uxb)); [|unfold csum in Hcs; lia].
    apply incl_sum_le; [apply NoDup_map_hash; exact Hnd|exact Hin|].
    intros x Hx. rewrite Forall_forall in Hux. destruct (Hux x Hx) as [Hc _]. unfold in_u in Hc. lia. }
  split; [reflexivity|]. split; [reflexivity|]. split.
  - apply Forall_forall. intros s Hs. apply in_map_iff in Hs. destruct Hs as (u & <- & _). left; reflexivity.
  - destruct (c_ins c) as [|u r]; [congruence|]. cbn [map]. apply Exists_cons_hd. reflexivity.
Qed.

Lemma create_wf burn p uxb c h :
  1 <= burn < 2 ^ 32 -> Forall ux_range uxb -> csum uxb < 2 ^ 64 -> hsum uxb < 2 ^ 64 ->
  Forall out_range (p_to p) ->
  create burn p uxb = Val (inr c) -> well_formed false (as_txn h c).
Proof.
  intros Hb Hux Hcs Hhs Hto H.
  pose proof (create_sound _ _ _ _ Hb Hux Hcs Hhs Hto H) as Hs.
  eapply sound_wf; try eassumption.
  destruct Hs as (_ & _ & _ & req & change & _ & Hpays & _).
  intros Hc. rewrite Hc in Hpays. inversion Hpays; subst.
  (* no requested output: then validate would have refused *)
  unfold create, create_step in H. unfold validate in H. rewrite Hc in H. cbn [len List.length Z.of_nat Z.eqb] in H.
  destruct (match p_change p with Some a => a =? 0 | None => false end); cbn in H; discriminate.
Qed.

(* ChooseSpends fails for lack of funds only when the offered outputs cannot
   cover the request; on success the spends are offered outputs, each once,
   covering coins and (after the fee) hours *)
Lemma choose_complete strat burn uxa coins hours e :
  1 <= burn < 2 ^ 32 -> Forall ux_range uxa -> csum uxa < 2 ^ 64 -> hsum uxa < 2 ^ 64 ->
  choose_spends strat burn uxa coins hours = Val (inl e) ->
  (e = ErrInsufficientBalance -> csum uxa < coins) /\
  (e = ErrInsufficientHours -> coins <= csum uxa /\ remaining_of burn (hsum uxa) < hours).
Proof.
  intros Hb Hr Hcs Hhs H. pose proof (choose_cases strat burn uxa coins hours Hb Hr Hcs Hhs) as Hc.
  rewrite H in Hc. exact Hc.
Qed.

Lemma choose_sound strat burn uxa coins hours sp :
  1 <= burn < 2 ^ 32 -> Forall ux_range uxa -> csum uxa < 2 ^ 64 -> hsum uxa < 2 ^ 64 ->
  choose_spends strat burn uxa coins hours = Val (inr sp) ->
  sp <> [] /\ (exists rest, Permutation (sp ++ rest) uxa) /\
  coins <= csum sp /\ hours <= remaining_of burn (hsum sp).
Proof.
  intros Hb Hr Hcs Hhs H. pose proof (choose_cases strat burn uxa coins hours Hb Hr Hcs Hhs) as Hc.
  rewrite H in Hc. exact Hc.
Qed.

(* ------------------------------------------------- create: completeness *)
Definition nf (e : string) : Prop := e <> ErrInsufficientBalance /\ e <> ErrInsufficientHours.
Definition funds_ok (burn : Z) (p : params) (uxb : list ux) (e : string) : Prop :=
  (e = ErrInsufficientBalance -> csum uxb < ocsum (p_to p)) /\
  (e = ErrInsufficientHours -> ocsum (p_to p) <= csum uxb /\ remaining_of burn (hsum uxb) < ohsum (p_to p)).

Lemma nf_funds burn p uxb e : nf e -> funds_ok burn p uxb e.
Proof. intros [H1 H2]. split; intros Hc; contradiction. Qed.

Ltac nf_const := split; intros Hc; cbv in Hc; discriminate Hc.

Lemma bindR_err {A B} (r : R A) (f : A -> R B) e :
  bindR r f = Val (inl e) -> r = Val (inl e) \/ exists a, r = Val (inr a) /\ f a = Val (inl e).
Proof. destruct r as [|[e'|a]]; cbn [bindR]; intros H; try discriminate; [left; injection H as ->; reflexivity|right; exists a; split; [reflexivity|exact H]]. Qed.

Lemma lift_err {A} (r : res A) e : lift r = Val (inl e) -> False.
Proof. destruct r; cbn [lift ok]; discriminate. Qed.

Lemma chk_add_err a b e : chk (AddUint64 a b) = Val (inl e) -> nf e.
Proof. unfold AddUint64. destruct (_ || _); cbn [chk ok fail]; intros H; [|discriminate]. injection H as <-. nf_const. Qed.
Lemma chk_u2i_err a e : chk (Uint64ToInt64 a) = Val (inl e) -> nf e.
Proof. unfold Uint64ToInt64. destruct (_ <? _); cbn [chk ok fail]; intros H; [|discriminate]. injection H as <-. nf_const. Qed.
Lemma chk_i2u_err a e : chk (Int64ToUint64 a) = Val (inl e) -> nf e.
Proof. unfold Int64ToUint64. destruct (_ <? _); cbn [chk ok fail]; intros H; [|discriminate]. injection H as <-. nf_const. Qed.
Lemma chk_as_err e0 r e : chk_as e0 r = Val (inl e) -> e = e0.
Proof. destruct r as [|[v [e1|]]]; cbn [chk_as ok fail]; intros H; try discriminate. injection H as <-. reflexivity. Qed.

Lemma validate_to_nf : forall to e, validate_to to = Some e -> nf e.
Proof.
  induction to as [|o r IH]; intros e H; cbn [validate_to] in H; [discriminate|].
  destruct (o_coins o =? 0); [injection H as <-; nf_const|].
  destruct (o_addr o =? 0); [injection H as <-; nf_const|]. apply IH. exact H.
Qed.

Lemma validate_nf p e : validate p = Some e -> nf e.
Proof.
  unfold validate. intros H.
  destruct (match p_change p with Some a => a =? 0 | None => false end); [injection H as <-; nf_const|].
  destruct (len (p_to p) =? 0); [injection H as <-; nf_const|].
  destruct (validate_to (p_to p)) eqn:Ev; [injection H as <-; eapply validate_to_nf; exact Ev|].
  destruct (negb (nodupb txout_eqb (p_to p))); [injection H as <-; nf_const|].
  destruct (p_type p); destruct (existsb (fun o => negb (o_hours o =? 0)) (p_to p)); destruct (p_mode p);
    destruct (p_share p) as [[num den]|]; try destruct ((num <? 0) || (den <? num));
    try discriminate; injection H as <-; nf_const.
Qed.

Lemma sum_to_nf : forall to c h e, sum_to to c h = Val (inl e) -> nf e.
Proof.
  induction to as [|o r IH]; intros c h e H; cbn [sum_to] in H; [discriminate|].
  apply bindR_err in H. destruct H as [H|(c1 & _ & H)]; [apply chk_as_err in H; subst e; nf_const|].
  apply bindR_err in H. destruct H as [H|(h1 & _ & H)]; [apply chk_as_err in H; subst e; nf_const|].
  eapply IH. exact H.
Qed.

Lemma sum_spends_nf : forall sp n c h e, sum_spends sp n c h = Val (inl e) -> nf e.
Proof.
  induction sp as [|u r IH]; intros n c h e H; cbn [sum_spends] in H; [discriminate|].
  apply bindR_err in H. destruct H as [H|(c1 & _ & H)]; [eapply chk_add_err; exact H|].
  apply bindR_err in H. destruct H as [H|(h1 & _ & H)]; [eapply chk_add_err; exact H|].
  destruct (n >=? MaxUint16); [injection H as <-; nf_const|]. eapply IH. exact H.
Qed.

Lemma sum_chk_as_nf e0 : nf e0 -> forall l acc e, sum_chk_as e0 l acc = Val (inl e) -> nf e.
Proof.
  intros H0. induction l as [|x r IH]; intros acc e H; cbn [sum_chk_as] in H; [discriminate|].
  apply bindR_err in H. destruct H as [H|(a & _ & H)]; [apply chk_as_err in H; subst e; exact H0|]. eapply IH. exact H.
Qed.

Lemma dist_prepare_nf : forall coins total e, dist_prepare coins total = Val (inl e) -> nf e.
Proof.
  induction coins as [|c r IH]; intros total e H; cbn [dist_prepare] in H; [discriminate|].
  destruct (c =? 0); [injection H as <-; nf_const|].
  apply bindR_err in H. destruct H as [H|(t & _ & H)]; [eapply chk_add_err; exact H|].
  apply bindR_err in H. destruct H as [H|(u & _ & H)]; [eapply chk_u2i_err; exact H|]. eapply IH. exact H.
Qed.

Lemma dist_frac_nf hours total : forall coins acc e, dist_frac coins hours total acc = Val (inl e) -> nf e.
Proof.
  induction coins as [|c r IH]; intros acc e H; cbn [dist_frac] in H; [discriminate|].
  destruct (total =? 0); [discriminate|].
  destruct (negb (in_ub 64 (c * hours / total))); [injection H as <-; nf_const|].
  apply bindR_err in H. destruct H as [H|(a & _ & H)]; [eapply chk_add_err; exact H|].
  apply bindR_err in H. destruct H as [H|([l a'] & _ & H)]; [eapply IH; exact H|discriminate].
Qed.

Lemma distribute_nf coins hours e : distribute coins hours = Val (inl e) -> nf e.
Proof.
  unfold distribute. intros H.
  destruct (len coins =? 0); [injection H as <-; nf_const|].
  apply bindR_err in H. destruct H as [H|(total & _ & H)]; [eapply dist_prepare_nf; exact H|].
  apply bindR_err in H. destruct H as [H|(u1 & _ & H)]; [eapply chk_u2i_err; exact H|].
  apply bindR_err in H. destruct H as [H|(u2 & _ & H)]; [eapply chk_u2i_err; exact H|].
  apply bindR_err in H. destruct H as [H|([fr assigned] & _ & H)]; [eapply dist_frac_nf; exact H|].
  destruct (hours <? assigned); [injection H as <-; nf_const|].
  destruct (wrap 64 (hours - assigned) >? len coins); [injection H as <-; nf_const|].
  destruct (dist_zeros fr (wrap 64 (hours - assigned))) as [l1 rem1]. exfalso. eapply lift_err. exact H.
Qed.

Lemma assign_hours_nf p remaining e : assign_hours p remaining = Val (inl e) -> nf e.
Proof.
  unfold assign_hours. intros H. destruct (p_type p); try discriminate.
  destruct (p_mode p); try discriminate. destruct (p_share p) as [[num den]|]; try discriminate.
  apply bindR_err in H. destruct H as [H|(hours & _ & H)]; [eapply chk_u2i_err; exact H|].
  destruct (den <=? 0); [discriminate|].
  apply bindR_err in H. destruct H as [H|(al & _ & H)]; [eapply chk_i2u_err; exact H|].
  apply bindR_err in H. destruct H as [H|(hs & _ & H)]; [eapply distribute_nf; exact H|discriminate].
Qed.

Lemma create_step_complete burn again p uxb e :
  1 <= burn < 2 ^ 32 -> Forall ux_range uxb -> csum uxb < 2 ^ 64 -> hsum uxb < 2 ^ 64 ->
  Forall out_range (p_to p) ->
  create_step burn again p uxb = Val (inl e) -> funds_ok burn p uxb e.
Proof.
  intros Hb Hux Hcs Hhs Hto H. unfold create_step in H.
  destruct (validate p) eqn:Ev; [injection H as <-; apply nf_funds; eapply validate_nf; exact Ev|].
  destruct (nodupb Z.eqb (map u_hash uxb)) eqn:End; cbn [negb] in H; [|injection H as <-; apply nf_funds; nf_const].
  apply bindR_err in H. destruct H as [H|([toc rh] & Hsum_to & H)]; [apply nf_funds; eapply sum_to_nf; exact H|].
  apply sum_to_ok in Hsum_to; [|assumption|unfold in_u; rewrite pow64; lia|unfold in_u; rewrite pow64; lia].
  destruct Hsum_to as (-> & -> & Htoc & Hrh). rewrite !Z.add_0_l in *.
  apply bindR_err in H. destruct H as [H|(spends & Hch & H)].
  { (* the only real source of the two errors *)
    destruct (choose_complete _ _ _ _ _ _ Hb Hux Hcs Hhs H) as [H1 H2]. split; assumption. }
  destruct (choose_sound _ _ _ _ _ _ Hb Hux Hcs Hhs Hch) as (Hsp_ne & (sprest & Hperm) & Hsp_c & Hsp_h).
  assert (Hsp_in : incl spends uxb).
  { intros x Hx. eapply Permutation_in; [exact Hperm|]. apply in_app_iff. left; exact Hx. }
  assert (Hsp_r : Forall ux_range spends).
  { apply Forall_forall. intros x Hx. rewrite Forall_forall in Hux. apply Hux. apply Hsp_in. exact Hx. }
  apply bindR_err in H. destruct H as [H|([tic tih] & Hss & H)]; [apply nf_funds; eapply sum_spends_nf; exact H|].
  apply sum_spends_ok in Hss; [|assumption|unfold in_u; rewrite pow64; lia|unfold in_u; rewrite pow64; lia].
  destruct Hss as (-> & -> & Htic & Htih). rewrite !Z.add_0_l in *.
  rewrite RequiredFee_ceil in H by assumption. cbn [lift bindR ok] in H.
  destruct (ceil_div (hsum spends) burn =? 0); [injection H as <-; apply nf_funds; nf_const|].
  apply bindR_err in H. destruct H as [H|(outs & _ & H)]; [apply nf_funds; eapply assign_hours_nf; exact H|].
  destruct (len outs >? MaxUint16); [injection H as <-; apply nf_funds; nf_const|].
  apply bindR_err in H. destruct H as [H|(toh & _ & H)]; [apply nf_funds; eapply sum_chk_as_nf; [|exact H]; nf_const|].
  destruct (ocsum (p_to p) >? csum spends) eqn:Ecoins; [lia|].
  destruct (toh >? wrap 64 (hsum spends - ceil_div (hsum spends) burn)); [injection H as <-; apply nf_funds; nf_const|].
  apply bindR_err in H. destruct H as [H|([[spends2 cc2] ch2] & _ & H)].
  { (* errors of the extra-input step *)
    apply nf_funds.
    destruct ((wrap 64 (csum spends - ocsum (p_to p)) =? 0) && (wrap 64 (wrap 64 (hsum spends - ceil_div (hsum spends) burn) - toh) >? 0)); [|discriminate].
    apply bindR_err in H. destruct H as [H|(zs & _ & H)]; [exfalso; eapply lift_err; exact H|].
    destruct zs as [|extra zs']; [discriminate|].
    apply bindR_err in H. destruct H as [H|(nt & _ & H)]; [eapply chk_add_err; exact H|].
    apply bindR_err in H. destruct H as [H|(nfee & _ & H)]; [exfalso; eapply lift_err; exact H|].
    destruct (nfee <? ceil_div (hsum spends) burn); [injection H as <-; nf_const|].
    destruct (wrap 64 (nfee - ceil_div (hsum spends) burn) <? wrap 64 (wrap 64 (hsum spends - ceil_div (hsum spends) burn) - toh)); [|discriminate].
    destruct (u_hours extra <? wrap 64 (nfee - ceil_div (hsum spends) burn)); [injection H as <-; nf_const|].
    apply bindR_err in H. destruct H as [H|(chh & _ & H)]; [eapply chk_add_err; exact H|].
    destruct (len spends >=? MaxUint16); [injection H as <-; nf_const|discriminate]. }
  destruct ((cc2 =? 0) && (ch2 >? 0) && is_auto_share p).
  { apply nf_funds. destruct (p_share p) as [[num den]|]; [|discriminate].
    destruct (num =? den); [injection H as <-; nf_const|]. destruct again; [injection H as <-; nf_const|discriminate]. }
  apply bindR_err in H. destruct H as [H|(outs2 & _ & H)].
  { apply nf_funds. destruct (cc2 >? 0); [|discriminate].
    apply bindR_err in H. destruct H as [H|(addr & _ & H)].
    - destruct (p_change p); [discriminate|]. destruct (min_addr spends2); [discriminate|]. injection H as <-. nf_const.
    - destruct (existsb (txout_eqb (mk_out addr cc2 ch2)) outs); [injection H as <-; nf_const|].
      destruct (len outs >=? MaxUint16); [injection H as <-; nf_const|discriminate]. }
  apply nf_funds.
  destruct (lookup_all uxb (map u_hash spends2)); [|injection H as <-; nf_const].
  destruct (invariants burn p l outs2) as [|[e1|[]]]; try discriminate. injection H as <-. nf_const.
Qed.

(* construction fails for lack of funds only when the offered outputs really
   cannot cover the requested coins / hours *)
Lemma create_complete burn p uxb e :
  1 <= burn < 2 ^ 32 -> Forall ux_range uxb -> csum uxb < 2 ^ 64 -> hsum uxb < 2 ^ 64 ->
  Forall out_range (p_to p) ->
  create burn p uxb = Val (inl e) ->
  (e = ErrInsufficientBalance -> csum uxb < ocsum (p_to p)) /\
  (e = ErrInsufficientHours -> ocsum (p_to p) <= csum uxb /\ remaining_of burn (hsum uxb) < ohsum (p_to p)).
Proof.
  intros Hb Hux Hcs Hhs Hto H. unfold create in H.
  apply bindR_err in H. destruct H as [H|([c1|[]] & _ & H)].
  - eapply create_step_complete; eassumption.
  - discriminate.
  - apply bindR_err in H. destruct H as [H|([c2|[]] & _ & H)]; try discriminate.
    change (p_to p) with (p_to (with_share_one p)).
    eapply (create_step_complete burn true (with_share_one p)); eassumption.
Qed.
