(* Proofs/PexProofs.v — validateAddress accepts exactly the declarative address
   form; the peer list only holds such addresses, respects Max and keeps trusted
   peers (C26). *)
From Coq Require Import Lia ZifyBool.
From Sky Require Import Base.Uint Model.Pex.
From Sky Require Model.Conns Proofs.ConnsProofs.
Open Scope Z_scope.

(* ------------------------------------------------------------------ *)
(* strings.Split *)
Fixpoint join (sep : Z) (parts : list str) : str :=
  match parts with
  | [] => []
  | [x] => x
  | x :: r => x ++ sep :: join sep r
  end.

Lemma split_aux_nonempty : forall sep s cur, split_aux sep cur s <> [].
Proof. induction s as [|c r IH]; intros cur; cbn [split_aux]; [discriminate|]. destruct (c =? sep); [discriminate|apply IH]. Qed.

Lemma join_split_aux : forall sep s cur, join sep (split_aux sep cur s) = rev cur ++ s.
Proof.
  induction s as [|c r IH]; intros cur; cbn [split_aux].
  - cbn [join]. rewrite app_nil_r. reflexivity.
  - destruct (c =? sep) eqn:E.
    + apply Z.eqb_eq in E. subst c.
      destruct (split_aux sep [] r) as [|y ys] eqn:Es; [exfalso; exact (split_aux_nonempty _ _ _ Es)|].
      change (join sep (rev cur :: y :: ys)) with (rev cur ++ sep :: join sep (y :: ys)).
      rewrite <- Es, IH. reflexivity.
    + rewrite IH. cbn [rev]. rewrite <- app_assoc. reflexivity.
Qed.

Lemma join_split : forall sep s, join sep (split_on sep s) = s.
Proof. intros. unfold split_on. rewrite join_split_aux. reflexivity. Qed.

Lemma split_aux_nosep : forall sep a cur, ~ In sep a -> split_aux sep cur a = [rev cur ++ a].
Proof.
  induction a as [|c r IH]; intros cur H; cbn [split_aux].
  - rewrite app_nil_r. reflexivity.
  - destruct (c =? sep) eqn:E; [apply Z.eqb_eq in E; subst; exfalso; apply H; left; reflexivity|].
    rewrite IH by (intros H1; apply H; right; exact H1). cbn [rev]. rewrite <- app_assoc. reflexivity.
Qed.

Lemma split_aux_app : forall sep a b cur, ~ In sep a ->
  split_aux sep cur (a ++ sep :: b) = (rev cur ++ a) :: split_aux sep [] b.
Proof.
  induction a as [|c r IH]; intros b cur H; cbn [app split_aux].
  - rewrite Z.eqb_refl, app_nil_r. reflexivity.
  - destruct (c =? sep) eqn:E; [apply Z.eqb_eq in E; subst; exfalso; apply H; left; reflexivity|].
    rewrite IH by (intros H1; apply H; right; exact H1). cbn [rev]. rewrite <- app_assoc. reflexivity.
Qed.

Lemma split_on_app : forall sep a b, ~ In sep a -> split_on sep (a ++ sep :: b) = a :: split_on sep b.
Proof. intros. unfold split_on. rewrite split_aux_app by assumption. reflexivity. Qed.
Lemma split_on_nosep : forall sep a, ~ In sep a -> split_on sep a = [a].
Proof. intros. unfold split_on. rewrite split_aux_nosep by assumption. reflexivity. Qed.

(* ------------------------------------------------------------------ *)
(* digit strings *)
Lemma num_acc_app : forall a b n, num_acc n (a ++ b) = num_acc (num_acc n a) b.
Proof. intros. unfold num_acc. apply fold_left_app. Qed.
Lemma num_snoc : forall p c, num (p ++ [c]) = num p * 10 + (c - 48).
Proof. intros. unfold num. rewrite num_acc_app. reflexivity. Qed.

Lemma is_digit_range : forall c, is_digit c = true <-> 48 <= c <= 57.
Proof. intros. unfold is_digit. lia. Qed.

Lemma num_acc_mono : forall s n, digits s -> 0 <= n -> n <= num_acc n s.
Proof.
  induction s as [|c r IH]; intros n Hd Hn; [cbn; lia|].
  inversion Hd as [|? ? Hc Hr]; subst. apply is_digit_range in Hc.
  change (num_acc n (c :: r)) with (num_acc (n * 10 + (c - 48)) r).
  specialize (IH (n * 10 + (c - 48)) Hr). lia.
Qed.
Lemma num_nonneg : forall s, digits s -> 0 <= num s.
Proof. intros. unfold num. apply (num_acc_mono s 0); [assumption|lia]. Qed.
Lemma num_app_ge : forall p s, digits p -> digits s -> num p <= num (p ++ s).
Proof. intros. unfold num. rewrite num_acc_app. apply num_acc_mono; [assumption|apply num_nonneg; assumption]. Qed.

Lemma digits_app : forall a b, digits (a ++ b) <-> digits a /\ digits b.
Proof. intros. unfold digits. apply Forall_app. Qed.

Lemma digits_not_in : forall s c, digits s -> is_digit c = false -> ~ In c s.
Proof.
  intros s c Hd Hc Hin. unfold digits in Hd. rewrite Forall_forall in Hd. specialize (Hd c Hin). congruence.
Qed.

(* ------------------------------------------------------------------ *)
(* one IPv4 field *)
Definition octet_pre (p : str) : Prop := digits p /\ (forall r, p = 48 :: r -> r = []) /\ num p <= 255.

Lemma len1_num0 : forall p, digits p -> Z.of_nat (List.length p) = 1 -> num p = 0 -> p = [48].
Proof.
  intros [|c [|d r]] Hd Hl Hn; cbn [List.length] in Hl; try lia.
  inversion Hd as [|? ? Hc _]; subst. apply is_digit_range in Hc. unfold num, num_acc in Hn. cbn in Hn.
  f_equal. lia.
Qed.

Lemma octet_loop_spec : forall s p v, octet_pre p ->
  (octet_loop s (num p) (Z.of_nat (List.length p)) = Some v <-> octet (p ++ s) /\ v = num (p ++ s)).
Proof.
  induction s as [|c r IH]; intros p v [Hd [Hz Hn]].
  - cbn [octet_loop]. rewrite app_nil_r. destruct p as [|x p'].
    + cbn. split; [discriminate|]. intros [[H _] _]. congruence.
    + cbn [List.length]. replace (Z.of_nat (S (List.length p')) =? 0) with false by lia.
      unfold octet. split.
      * intros H. injection H as <-. repeat split; try assumption. discriminate.
      * intros [_ ->]. reflexivity.
  - cbn [octet_loop]. destruct (is_digit c) eqn:Ec; cbn [negb].
    + destruct ((Z.of_nat (List.length p) =? 1) && (num p =? 0)) eqn:Ez.
      * apply andb_true_iff in Ez as [E1 E2]. apply Z.eqb_eq in E1, E2.
        pose proof (len1_num0 p Hd E1 E2) as ->. split; [discriminate|].
        intros [[_ [_ [H _]]] _]. specialize (H (c :: r) eq_refl). discriminate.
      * assert (Hp' : digits (p ++ [c])) by (apply digits_app; split; [assumption|constructor; [assumption|constructor]]).
        assert (Hz' : forall r', p ++ [c] = 48 :: r' -> r' = []).
        { intros r' Hr'. destruct p as [|x p']; [cbn in Hr'; congruence|].
          cbn [app] in Hr'. injection Hr' as -> Hr'. specialize (Hz p' eq_refl). subst p'.
          cbn in Ez. unfold num, num_acc in Ez. cbn in Ez. discriminate. }
        destruct (255 <? num p * 10 + (c - 48)) eqn:Ev.
        -- split; [discriminate|]. intros [[_ [Hds [_ Hle]]] _]. exfalso.
           replace (p ++ c :: r) with ((p ++ [c]) ++ r) in * by (rewrite <- app_assoc; reflexivity).
           apply digits_app in Hds as [_ Hdr].
           pose proof (num_app_ge (p ++ [c]) r Hp' Hdr) as Hge. rewrite num_snoc in Hge. lia.
        -- specialize (IH (p ++ [c]) v). rewrite num_snoc in IH.
           replace (Z.of_nat (List.length (p ++ [c]))) with (Z.of_nat (List.length p) + 1) in IH
             by (rewrite app_length; cbn [List.length]; lia).
           rewrite <- app_assoc in IH. cbn [app] in IH. apply IH.
           repeat split; try assumption. rewrite num_snoc. lia.
    + split; [discriminate|]. intros [[_ [Hds _]] _]. exfalso.
      apply digits_app in Hds as [_ Hds]. inversion Hds; subst. congruence.
Qed.

Lemma parse_octet_spec : forall o v, parse_octet o = Some v <-> octet o /\ v = num o.
Proof.
  intros o v. unfold parse_octet. apply (octet_loop_spec o [] v).
  repeat split; [constructor|intros; discriminate|cbn; lia].
Qed.

(* ------------------------------------------------------------------ *)
(* strconv.ParseUint(s, 10, 16) *)
Lemma uint16_loop_spec : forall s p v, digits p -> num p <= 65535 ->
  (uint16_loop s (num p) = Some v <-> digits (p ++ s) /\ num (p ++ s) <= 65535 /\ v = num (p ++ s)).
Proof.
  induction s as [|c r IH]; intros p v Hd Hn.
  - cbn [uint16_loop]. rewrite app_nil_r. split.
    + intros H. injection H as <-. tauto.
    + intros [_ [_ ->]]. reflexivity.
  - cbn [uint16_loop]. destruct (is_digit c) eqn:Ec; cbn [negb].
    + assert (Hp' : digits (p ++ [c])) by (apply digits_app; split; [assumption|constructor; [assumption|constructor]]).
      replace (p ++ c :: r) with ((p ++ [c]) ++ r) by (rewrite <- app_assoc; reflexivity).
      destruct (65535 <? num p * 10 + (c - 48)) eqn:Ev.
      * split; [discriminate|]. intros [Hds [Hle _]]. exfalso. apply digits_app in Hds as [_ Hdr].
        pose proof (num_app_ge (p ++ [c]) r Hp' Hdr) as Hge. rewrite num_snoc in Hge. lia.
      * specialize (IH (p ++ [c]) v Hp'). rewrite num_snoc in IH. apply IH. lia.
    + split; [discriminate|]. intros [Hds _]. exfalso.
      apply digits_app in Hds as [_ Hds]. inversion Hds; subst. congruence.
Qed.

Lemma parse_uint16_spec : forall s v,
  parse_uint16 s = Some v <-> s <> [] /\ digits s /\ num s <= 65535 /\ v = num s.
Proof.
  intros s v. unfold parse_uint16. destruct s as [|c r].
  - split; [discriminate|]. intros [H _]. congruence.
  - rewrite (uint16_loop_spec (c :: r) [] v); [|constructor|cbn; lia]. cbn [app].
    split; [intros H; split; [discriminate|exact H]|intros [_ H]; exact H].
Qed.

(* ------------------------------------------------------------------ *)
(* classification *)
Lemma ip_class_spec : forall allow a b c d,
  (is_loopback (a, b, c, d) && negb allow = false /\
   negb (is_loopback (a, b, c, d)) && negb (is_global_unicast (a, b, c, d)) = false)
  <-> ip_ok allow a b c d.
Proof.
  intros allow a b c d. unfold is_loopback, is_global_unicast, ip_ok.
  destruct (a =? 127) eqn:E; cbn [negb andb].
  - destruct allow; cbn; split; intros; try tauto; try congruence. destruct H; discriminate.
  - split.
    + intros [_ H]. apply negb_false_iff in H. repeat (apply andb_true_iff in H as [H ?]). lia.
    + intros H. split; [reflexivity|]. apply negb_false_iff. repeat (apply andb_true_iff; split); lia.
Qed.

Lemma octet_no_sep : forall o c, octet o -> is_digit c = false -> ~ In c o.
Proof. intros o c [_ [Hd _]] Hc. apply digits_not_in; assumption. Qed.

Lemma not_in_app : forall (c : Z) a b, ~ In c a -> ~ In c b -> ~ In c (a ++ b).
Proof. intros c a b Ha Hb H. apply in_app_or in H. tauto. Qed.
Lemma not_in_cons : forall (c x : Z) b, c <> x -> ~ In c b -> ~ In c (x :: b).
Proof. intros c x b Hx Hb [H|H]; [congruence|tauto]. Qed.

(* parse_ipv4 accepts exactly four dot-separated octets *)
Lemma parse_ipv4_spec : forall s a b c d,
  parse_ipv4 s = Some (a, b, c, d) <->
  exists o1 o2 o3 o4, s = o1 ++ [46] ++ o2 ++ [46] ++ o3 ++ [46] ++ o4 /\
    octet o1 /\ octet o2 /\ octet o3 /\ octet o4 /\
    a = num o1 /\ b = num o2 /\ c = num o3 /\ d = num o4.
Proof.
  intros s a b c d. unfold parse_ipv4. split.
  - intros H. pose proof (join_split 46 s) as Hj.
    destruct (split_on 46 s) as [|o1 [|o2 [|o3 [|o4 [|x r]]]]]; try discriminate.
    destruct (parse_octet o1) as [a'|] eqn:E1; [|discriminate].
    destruct (parse_octet o2) as [b'|] eqn:E2; [|discriminate].
    destruct (parse_octet o3) as [c'|] eqn:E3; [|discriminate].
    destruct (parse_octet o4) as [d'|] eqn:E4; [|discriminate].
    injection H as <- <- <- <-.
    apply parse_octet_spec in E1 as [H1 ->], E2 as [H2 ->], E3 as [H3 ->], E4 as [H4 ->].
    exists o1, o2, o3, o4. cbn [join] in Hj. cbn [app]. rewrite <- Hj. tauto.
  - intros [o1 [o2 [o3 [o4 [-> [H1 [H2 [H3 [H4 [-> [-> [-> ->]]]]]]]]]]]].
    cbn [app]. rewrite split_on_app by (apply octet_no_sep; [assumption|reflexivity]).
    rewrite split_on_app by (apply octet_no_sep; [assumption|reflexivity]).
    rewrite split_on_app by (apply octet_no_sep; [assumption|reflexivity]).
    rewrite split_on_nosep by (apply octet_no_sep; [assumption|reflexivity]).
    rewrite (proj2 (parse_octet_spec o1 (num o1))) by tauto.
    rewrite (proj2 (parse_octet_spec o2 (num o2))) by tauto.
    rewrite (proj2 (parse_octet_spec o3 (num o3))) by tauto.
    rewrite (proj2 (parse_octet_spec o4 (num o4))) by tauto. reflexivity.
Qed.

Lemma validate_accept_clean : forall s allow c, validate_address s allow = VAccept c -> c = strip s.
Proof.
  intros s allow c H. unfold validate_address in H.
  destruct (split_on 58 (strip s)) as [|ips [|ports [|x r]]]; try discriminate.
  destruct (parse_ipv4 ips) as [ip|]; [|discriminate].
  destruct (is_loopback ip && negb allow); [discriminate|].
  destruct (negb (is_loopback ip) && negb (is_global_unicast ip)); [discriminate|].
  destruct (parse_uint16 ports) as [port|]; [|discriminate].
  destruct (port <? 1024); [discriminate|]. injection H as <-. reflexivity.
Qed.

Lemma validate_iff : forall s allow,
  (exists c, validate_address s allow = VAccept c) <-> valid_form allow (strip s).
Proof.
  intros s allow. unfold validate_address. set (t := strip s). clearbody t. split.
  - intros [cl H]. pose proof (join_split 58 t) as Hj.
    destruct (split_on 58 t) as [|ips [|ports [|x r]]]; try discriminate.
    destruct (parse_ipv4 ips) as [[[[a b] c] d]|] eqn:Eip; [|discriminate].
    destruct (is_loopback (a, b, c, d) && negb allow) eqn:El; [discriminate|].
    destruct (negb (is_loopback (a, b, c, d)) && negb (is_global_unicast (a, b, c, d))) eqn:Eg; [discriminate|].
    destruct (parse_uint16 ports) as [port|] eqn:Ep; [|discriminate].
    destruct (port <? 1024) eqn:Elow; [discriminate|].
    apply parse_ipv4_spec in Eip as [o1 [o2 [o3 [o4 [-> [H1 [H2 [H3 [H4 [-> [-> [-> ->]]]]]]]]]]]].
    apply parse_uint16_spec in Ep as [Hne [Hd [Hle ->]]].
    exists o1, o2, o3, o4, ports. cbn [join] in Hj. rewrite <- Hj.
    refine (conj _ (conj H1 (conj H2 (conj H3 (conj H4 (conj Hne (conj Hd (conj _ _)))))))).
    + rewrite <- !app_assoc. reflexivity.
    + lia.
    + apply ip_class_spec. split; assumption.
  - intros [o1 [o2 [o3 [o4 [p [-> [H1 [H2 [H3 [H4 [Hne [Hd [Hr Hok]]]]]]]]]]]]].
    replace (o1 ++ [46] ++ o2 ++ [46] ++ o3 ++ [46] ++ o4 ++ [58] ++ p)
      with ((o1 ++ [46] ++ o2 ++ [46] ++ o3 ++ [46] ++ o4) ++ 58 :: p)
      by (rewrite <- !app_assoc; reflexivity).
    rewrite split_on_app.
    2:{ repeat (first [apply not_in_app | apply not_in_cons; [discriminate|]]);
        try (apply octet_no_sep; [assumption|reflexivity]); intros []. }
    rewrite split_on_nosep by (apply digits_not_in; [assumption|reflexivity]).
    rewrite (proj2 (parse_ipv4_spec _ (num o1) (num o2) (num o3) (num o4)))
      by (exists o1, o2, o3, o4; tauto).
    apply ip_class_spec in Hok as [-> ->].
    rewrite (proj2 (parse_uint16_spec p (num p))) by (repeat split; try assumption; lia).
    replace (num p <? 1024) with false by lia. eexists. reflexivity.
Qed.

Lemma validate_accept_valid : forall s allow c, validate_address s allow = VAccept c -> valid_form allow c.
Proof.
  intros s allow c H. rewrite (validate_accept_clean s allow c H).
  apply validate_iff. exists c. exact H.
Qed.

(* ------------------------------------------------------------------ *)
(* the peer list *)
Lemma str_eqb_spec : forall a b, str_eqb a b = true <-> a = b.
Proof.
  induction a as [|x a IH]; intros [|y b]; cbn [str_eqb]; split; intros H; try discriminate; try reflexivity.
  - apply andb_true_iff in H as [H1 H2]. apply Z.eqb_eq in H1. apply IH in H2. congruence.
  - injection H as -> ->. rewrite Z.eqb_refl. apply IH. reflexivity.
Qed.

Definition all_valid (allow : bool) (l : pl) : Prop := forall k, In k (keys l) -> valid_form allow k.

Lemma pget_pset : forall l a p k, pget k (pset a p l) = if str_eqb k a then Some p else pget k l.
Proof. intros. apply (ConnsProofs.aget_aset str_eqb str_eqb_spec). Qed.
Lemma pget_pdel : forall l a k, pget k (pdel a l) = if str_eqb k a then None else pget k l.
Proof. intros. apply (ConnsProofs.aget_adel str_eqb str_eqb_spec). Qed.
Lemma keys_pset : forall l a p k, In k (keys (pset a p l)) <-> k = a \/ In k (keys l).
Proof. intros. apply (ConnsProofs.keys_aset str_eqb str_eqb_spec). Qed.
Lemma keys_pdel : forall l a k, In k (keys (pdel a l)) -> In k (keys l).
Proof. intros l a k. apply (ConnsProofs.keys_adel str_eqb). Qed.
Lemma pget_keys : forall l a p, pget a l = Some p -> In a (keys l).
Proof. intros l a p H. apply (ConnsProofs.aget_In str_eqb str_eqb_spec) in H. apply (in_map fst) in H. exact H. Qed.

Lemma len_pset : forall l a p,
  List.length (pset a p l) = match pget a l with Some _ => List.length l | None => S (List.length l) end.
Proof.
  induction l as [|[k q] r IH]; intros a p; cbn [pset pget Conns.aset Conns.aget]; [reflexivity|].
  unfold pset, pget in *. destruct (str_eqb a k); cbn [List.length]; [reflexivity|].
  rewrite IH. destruct (Conns.aget str_eqb a r); reflexivity.
Qed.
Lemma len_pdel_le : forall l a, (List.length (pdel a l) <= List.length l)%nat.
Proof.
  induction l as [|[k q] r IH]; intros a; unfold pdel in *; cbn [Conns.adel List.length]; [lia|].
  destruct (str_eqb a k); cbn [List.length]; specialize (IH a); lia.
Qed.
Lemma len_pdel_lt : forall l a p, pget a l = Some p -> (List.length (pdel a l) < List.length l)%nat.
Proof.
  induction l as [|[k q] r IH]; intros a p H; unfold pdel, pget in *; cbn [Conns.adel Conns.aget List.length] in *; [discriminate|].
  destruct (str_eqb a k).
  - pose proof (len_pdel_le r a) as Hle. unfold pdel in Hle. lia.
  - cbn [List.length]. specialize (IH a p H). lia.
Qed.

(* add_peer *)
Lemma keys_add_peer : forall now l a k, In k (keys (add_peer now l a)) <-> k = a \/ In k (keys l).
Proof. intros. unfold add_peer. destruct (pget a l); apply keys_pset. Qed.
Lemma len_add_peer : forall now l a, (List.length (add_peer now l a) <= S (List.length l))%nat.
Proof. intros. unfold add_peer. destruct (pget a l) eqn:E; rewrite len_pset, E; lia. Qed.


Lemma trusted_pset_other : forall l a b p, trusted_at l a -> a <> b -> trusted_at (pset b p l) a.
Proof.
  intros l a b p [q [H1 H2]] Hne. exists q. rewrite pget_pset.
  destruct (str_eqb a b) eqn:E; [apply str_eqb_spec in E; contradiction|tauto].
Qed.
Lemma trusted_pset_same : forall l a p, p_trusted p = true -> trusted_at (pset a p l) a.
Proof.
  intros l a p H. exists p. rewrite pget_pset. rewrite (proj2 (str_eqb_spec a a) eq_refl). tauto.
Qed.
(* rewriting the slot of b with a peer that is trusted whenever b's old peer was *)
Lemma trusted_pset_keep : forall l a b q p,
  trusted_at l a -> pget b l = Some q -> (p_trusted q = true -> p_trusted p = true) -> trusted_at (pset b p l) a.
Proof.
  intros l a b q p Ht Hq Hk. destruct (str_eqb a b) eqn:E.
  - apply str_eqb_spec in E. subst b. apply trusted_pset_same. apply Hk.
    destruct Ht as [q' [H1 H2]]. congruence.
  - apply trusted_pset_other; [exact Ht|]. intros ->. rewrite (proj2 (str_eqb_spec b b) eq_refl) in E. discriminate.
Qed.
Lemma trusted_pdel : forall l a b, trusted_at l a -> a <> b -> trusted_at (pdel b l) a.
Proof.
  intros l a b [q [H1 H2]] Hne. exists q. rewrite pget_pdel.
  destruct (str_eqb a b) eqn:E; [apply str_eqb_spec in E; contradiction|tauto].
Qed.
Lemma trusted_add_peer : forall now l a c, trusted_at l a -> trusted_at (add_peer now l c) a.
Proof.
  intros now l a c Ht. unfold add_peer. destruct (pget c l) as [q|] eqn:E.
  - eapply trusted_pset_keep; [exact Ht|exact E|]. cbn. tauto.
  - apply trusted_pset_other; [exact Ht|]. intros ->. destruct Ht as [q [H1 _]]. congruence.
Qed.
Lemma trusted_pupd : forall l a b f,
  (forall p, p_trusted p = true -> p_trusted (f p) = true) -> trusted_at l a -> trusted_at (pupd b f l) a.
Proof.
  intros l a b f Hf Ht. unfold pupd. destruct (pget b l) as [q|] eqn:E; [|exact Ht].
  eapply trusted_pset_keep; [exact Ht|exact E|apply Hf].
Qed.

Lemma pget_map : forall (f : peer -> peer) l a,
  pget a (map (fun e : str * peer => (fst e, f (snd e))) l) = option_map f (pget a l).
Proof.
  induction l as [|[k q] r IH]; intros a; unfold pget in *; cbn [map Conns.aget fst snd]; [reflexivity|].
  destruct (str_eqb a k); [reflexivity|apply IH].
Qed.
Lemma pget_filter : forall (P : str * peer -> bool) l a p,
  pget a l = Some p -> P (a, p) = true -> pget a (filter P l) = Some p.
Proof.
  induction l as [|[k q] r IH]; intros a p H HP; unfold pget in *; cbn [Conns.aget filter] in *; [discriminate|].
  destruct (str_eqb a k) eqn:E.
  - apply str_eqb_spec in E. subst k. injection H as ->. rewrite HP. cbn [Conns.aget].
    rewrite (proj2 (str_eqb_spec a a) eq_refl). reflexivity.
  - destruct (P (k, q)); [cbn [Conns.aget]; rewrite E|]; apply IH; assumption.
Qed.

(* fold of add_peer *)
Lemma keys_fold_add : forall now sh l k,
  In k (keys (fold_left (add_peer now) sh l)) -> In k sh \/ In k (keys l).
Proof.
  induction sh as [|c r IH]; intros l k H; cbn [fold_left] in H; [right; exact H|].
  apply IH in H as [H|H]; [left; right; exact H|].
  apply keys_add_peer in H as [H|H]; [left; left; congruence|right; exact H].
Qed.
Lemma len_fold_add : forall now sh l,
  (List.length (fold_left (add_peer now) sh l) <= List.length l + List.length sh)%nat.
Proof.
  induction sh as [|c r IH]; intros l; cbn [fold_left List.length]; [lia|].
  specialize (IH (add_peer now l c)). pose proof (len_add_peer now l c). lia.
Qed.
Lemma trusted_fold_add : forall now sh l a, trusted_at l a -> trusted_at (fold_left (add_peer now) sh l) a.
Proof.
  induction sh as [|c r IH]; intros l a H; cbn [fold_left]; [exact H|].
  apply IH. apply trusted_add_peer. exact H.
Qed.

(* the shuffled list only holds validated addresses *)
Lemma valid_addrs_valid : forall allow addrs c, In c (valid_addrs allow addrs) -> valid_form allow c.
Proof.
  induction addrs as [|a r IH]; intros c H; cbn [valid_addrs] in H; [destruct H|].
  destruct (validate_address a allow) as [cl|e] eqn:E; [|apply IH; exact H].
  destruct H as [H|H]; [subst; eapply validate_accept_valid; exact E|apply IH; exact H].
Qed.
Lemma pick_all_In : forall (A : Type) (l : list A) perm xs x, pick_all l perm = Some xs -> In x xs -> In x l.
Proof.
  induction perm as [|i r IH]; intros xs x H Hin; cbn [pick_all] in H.
  - injection H as <-. destruct Hin.
  - destruct (nth_error l i) as [y|] eqn:En; [|discriminate].
    destruct (pick_all l r) as [ys|] eqn:Ep; [|discriminate]. injection H as <-.
    destruct Hin as [Hin|Hin]; [subst; eapply nth_error_In; exact En|eapply IH; [reflexivity|exact Hin]].
Qed.
Lemma apply_perm_In : forall (A : Type) (l : list A) perm xs x, apply_perm l perm = Some xs -> In x xs -> In x l.
Proof.
  intros A l perm xs x H Hin. unfold apply_perm in H.
  destruct (Nat.eqb (List.length perm) (List.length l) && nat_nodup perm); [|discriminate].
  eapply pick_all_In; eassumption.
Qed.
Lemma firstn_In : forall (A : Type) n (l : list A) x, In x (firstn n l) -> In x l.
Proof.
  induction n as [|n IH]; intros l x H; [destruct H|]. destruct l as [|y r]; [destruct H|].
  cbn [firstn] in H. destruct H as [H|H]; [left; exact H|right; apply IH; exact H].
Qed.

(* ---- every address in the list is valid, after every operation *)
Lemma step_all_valid : forall max allow l o, all_valid allow l -> all_valid allow (fst (step max allow l o)).
Proof.
  intros max allow l o V. unfold all_valid in *.
  assert (Hpset : forall c p, valid_form allow c -> forall k, In k (keys (pset c p l)) -> valid_form allow k).
  { intros c p Hc k Hk. apply keys_pset in Hk as [->|Hk]; [exact Hc|apply V; exact Hk]. }
  assert (Hpupd : forall a f k, In k (keys (pupd a f l)) -> valid_form allow k).
  { intros a f k Hk. unfold pupd in Hk. destruct (pget a l) as [q|] eqn:E; [|apply V; exact Hk].
    apply keys_pset in Hk as [->|Hk]; [apply V; eapply pget_keys; exact E|apply V; exact Hk]. }
  destruct o as [a now v|addrs perm now|a| |a|a now|a now| |a b now|exp now|a t]; cbn [step].
  - unfold add_peer_op. destruct (validate_address a allow) as [c|e] eqn:Ev; [|exact V].
    pose proof (validate_accept_valid a allow c Ev) as Hc.
    destruct (pget c l) as [p|]; [cbn [fst]; apply Hpset; exact Hc|].
    assert (Hadd : forall k, In k (keys (add_peer now l c)) -> valid_form allow k).
    { intros k Hk. apply keys_add_peer in Hk as [->|Hk]; [exact Hc|apply V; exact Hk]. }
    destruct (is_full max l); [|exact Hadd].
    destruct (oldest_untrusted l) as [m|]; [|exact V].
    destruct (now - m <? 86400); [exact V|]. destruct v as [v|]; [|exact V].
    destruct (pget v l) as [q|]; [|exact V].
    destruct (negb (p_trusted q) && (p_seen q =? m)); [|exact V]. cbn [fst].
    intros k Hk. apply keys_add_peer in Hk as [->|Hk]; [exact Hc|apply V; eapply keys_pdel; exact Hk].
  - unfold add_peers_op. destruct (is_full max l); [exact V|].
    destruct (apply_perm (valid_addrs allow addrs) perm) as [sh|] eqn:Ep; [|exact V]. cbn [fst].
    intros k Hk. apply keys_fold_add in Hk as [Hk|Hk]; [|apply V; exact Hk].
    eapply valid_addrs_valid. eapply apply_perm_In; [exact Ep|].
    destruct (0 <? max); [eapply firstn_In; exact Hk|exact Hk].
  - destruct (validate_address a allow) as [c|e] eqn:Ev; [|exact V].
    destruct (pget c l) as [p|] eqn:E; [|exact V]. cbn [fst]. apply Hpset. eapply validate_accept_valid; exact Ev.
  - cbn [fst]. intros k Hk. apply V. unfold keys in *. rewrite map_map in Hk. cbn [fst] in Hk. exact Hk.
  - cbn [fst]. intros k Hk. apply V. eapply keys_pdel; exact Hk.
  - cbn [fst]. apply Hpupd.
  - cbn [fst]. apply Hpupd.
  - cbn [fst]. intros k Hk. apply V. unfold keys in *. rewrite map_map in Hk. cbn [fst] in Hk. exact Hk.
  - destruct (validate_address a allow) as [c|e] eqn:Ev; [|exact V].
    destruct (pget c l) as [p|] eqn:E; [|exact V]. cbn [fst]. apply Hpset. eapply validate_accept_valid; exact Ev.
  - cbn [fst]. intros k Hk. apply V. unfold keys in *. apply in_map_iff in Hk as [e [He Hin]].
    apply filter_In in Hin as [Hin _]. subst k. apply in_map. exact Hin.
  - cbn [fst]. apply Hpupd.
Qed.

Lemma run_all_valid : forall max allow ops l, all_valid allow l -> all_valid allow (run max allow l ops).
Proof.
  induction ops as [|o r IH]; intros l V; cbn [run]; [exact V|]. apply IH. apply step_all_valid. exact V.
Qed.

Lemma all_valid_from_empty : forall max allow ops k,
  In k (keys (run max allow [] ops)) -> valid_form allow k.
Proof. intros max allow ops. apply run_all_valid. intros k []. Qed.

(* ---- the bound *)
Lemma filter_len_le : forall (A : Type) (P : A -> bool) (l : list A), (List.length (filter P l) <= List.length l)%nat.
Proof. induction l as [|x r IH]; cbn [filter List.length]; [lia|]. destruct (P x); cbn [List.length]; lia. Qed.

Lemma plen_pset_existing : forall l a p q, pget a l = Some q -> plen (pset a p l) = plen l.
Proof. intros. unfold plen. rewrite len_pset, H. reflexivity. Qed.

Lemma pupd_len : forall l a f, plen (pupd a f l) = plen l.
Proof. intros. unfold pupd. destruct (pget a l) eqn:E; [eapply plen_pset_existing; exact E|reflexivity]. Qed.

Lemma step_bound : forall max allow l o, 0 < max -> plen l <= max -> plen (fst (step max allow l o)) <= max.
Proof.
  intros max allow l o Hm Hl.
  destruct o as [a now v|addrs perm now|a| |a|a now|a now| |a b now|exp now|a t]; cbn [step].
  - unfold add_peer_op. destruct (validate_address a allow) as [c|e]; [|exact Hl].
    destruct (pget c l) as [p|] eqn:E; [cbn [fst]; rewrite (plen_pset_existing _ _ _ _ E); exact Hl|].
    unfold is_full. destruct ((0 <? max) && (max <=? plen l)) eqn:Ef.
    + destruct (oldest_untrusted l) as [m|]; [|exact Hl].
      destruct (now - m <? 86400); [exact Hl|]. destruct v as [v|]; [|exact Hl].
      destruct (pget v l) as [q|] eqn:Ev; [|exact Hl].
      destruct (negb (p_trusted q) && (p_seen q =? m)); [|exact Hl]. cbn [fst].
      pose proof (len_pdel_lt l v q Ev). pose proof (len_add_peer now (pdel v l) c). unfold plen in *. lia.
    + cbn [fst]. pose proof (len_add_peer now l c). unfold plen in *. lia.
  - unfold add_peers_op, is_full. destruct ((0 <? max) && (max <=? plen l)) eqn:Ef; [exact Hl|].
    destruct (apply_perm (valid_addrs allow addrs) perm) as [sh|]; [|exact Hl]. cbn [fst].
    replace (0 <? max) with true by lia.
    pose proof (len_fold_add now (firstn (Z.to_nat (max - plen l)) sh) l) as Hf.
    pose proof (firstn_le_length (Z.to_nat (max - plen l)) sh) as Hn. unfold plen in *. lia.
  - destruct (validate_address a allow) as [c|e]; [|exact Hl].
    destruct (pget c l) as [p|] eqn:E; [|exact Hl]. cbn [fst]. rewrite (plen_pset_existing _ _ _ _ E). exact Hl.
  - cbn [fst]. unfold plen in *. rewrite map_length. exact Hl.
  - cbn [fst]. pose proof (len_pdel_le l a). unfold plen in *. lia.
  - cbn [fst]. rewrite pupd_len. exact Hl.
  - cbn [fst]. rewrite pupd_len. exact Hl.
  - cbn [fst]. unfold plen in *. rewrite map_length. exact Hl.
  - destruct (validate_address a allow) as [c|e]; [|exact Hl].
    destruct (pget c l) as [p|] eqn:E; [|exact Hl]. cbn [fst]. rewrite (plen_pset_existing _ _ _ _ E). exact Hl.
  - cbn [fst]. unfold plen in *.
    pose proof (filter_len_le _ (fun e : str * peer => negb (negb (p_trusted (snd e)) && (exp <? now - p_seen (snd e)))) l). lia.
  - cbn [fst]. rewrite pupd_len. exact Hl.
Qed.

Lemma bulk_bound : forall max allow l addrs perm now, 0 < max -> plen l <= max ->
  plen (fst (add_peers_op max allow l addrs perm now)) <= max.
Proof. intros max allow l addrs perm now. exact (step_bound max allow l (AddPeers addrs perm now)). Qed.

Lemma run_bound : forall max allow ops l, 0 < max -> plen l <= max -> plen (run max allow l ops) <= max.
Proof.
  induction ops as [|o r IH]; intros l Hm Hl; cbn [run]; [exact Hl|]. apply IH; [exact Hm|]. apply step_bound; assumption.
Qed.

(* ---- trusted peers stay *)
Lemma trusted_kept : forall max allow l o a,
  trusted_at l a -> o <> RemovePeer a -> o <> SetAllUntrusted -> trusted_at (fst (step max allow l o)) a.
Proof.
  intros max allow l o a Ht Hr Hs.
  destruct o as [b now v|addrs perm now|b| |b|b now|b now| |b x now|exp now|b t]; cbn [step].
  - unfold add_peer_op. destruct (validate_address b allow) as [c|e]; [|exact Ht].
    destruct (pget c l) as [p|] eqn:E; [cbn [fst]; eapply trusted_pset_keep; [exact Ht|exact E|cbn; tauto]|].
    destruct (is_full max l); [|cbn [fst]; apply trusted_add_peer; exact Ht].
    destruct (oldest_untrusted l) as [m|]; [|exact Ht].
    destruct (now - m <? 86400); [exact Ht|]. destruct v as [v|]; [|exact Ht].
    destruct (pget v l) as [q|] eqn:Ev; [|exact Ht].
    destruct (negb (p_trusted q) && (p_seen q =? m)) eqn:Eq; [|exact Ht]. cbn [fst].
    apply trusted_add_peer. apply trusted_pdel; [exact Ht|].
    intros ->. destruct Ht as [q' [H1 H2]]. rewrite Ev in H1. injection H1 as <-.
    rewrite H2 in Eq. discriminate.
  - unfold add_peers_op. destruct (is_full max l); [exact Ht|].
    destruct (apply_perm (valid_addrs allow addrs) perm) as [sh|]; [|exact Ht]. cbn [fst].
    apply trusted_fold_add. exact Ht.
  - destruct (validate_address b allow) as [c|e]; [|exact Ht].
    destruct (pget c l) as [p|] eqn:E; [|exact Ht]. cbn [fst].
    eapply trusted_pset_keep; [exact Ht|exact E|reflexivity].
  - congruence.
  - cbn [fst]. apply trusted_pdel; [exact Ht|]. intros ->. apply Hr. reflexivity.
  - cbn [fst]. apply trusted_pupd; [cbn; tauto|exact Ht].
  - cbn [fst]. apply trusted_pupd; [cbn; tauto|exact Ht].
  - cbn [fst]. destruct Ht as [q [H1 H2]].
    exists (mkPeer (p_seen q) (p_trusted q) (p_incoming q) 0).
    rewrite (pget_map (fun p => mkPeer (p_seen p) (p_trusted p) (p_incoming p) 0)), H1. cbn. tauto.
  - destruct (validate_address b allow) as [c|e]; [|exact Ht].
    destruct (pget c l) as [p|] eqn:E; [|exact Ht]. cbn [fst].
    eapply trusted_pset_keep; [exact Ht|exact E|cbn; tauto].
  - cbn [fst]. destruct Ht as [q [H1 H2]]. exists q. split; [|exact H2].
    apply pget_filter; [exact H1|]. cbn [snd]. rewrite H2. reflexivity.
  - cbn [fst]. apply trusted_pupd; [cbn; tauto|exact Ht].
Qed.

(* ------------------------------------------------------------------ *)
(* starting from the cache file, restart *)
Lemma strip_idem : forall s, strip (strip s) = strip s.
Proof.
  induction s as [|c r IH]; [reflexivity|]. unfold strip in *. cbn [filter].
  destruct (negb (is_ws c)) eqn:E; [cbn [filter]; rewrite E, IH; reflexivity|exact IH].
Qed.

Definition stripped (k : str) : Prop := exists raw, k = strip raw.

Lemma load_file_stripped : forall es k, In k (keys (load_file es)) -> stripped k.
Proof.
  intros es. unfold load_file. generalize (json_members es). intros kes.
  assert (G : forall acc, (forall k, In k (keys acc) -> stripped k) ->
              forall k, In k (keys (fold_left (fun acc ke => match load_entry (snd ke) with Some (a, p) => pset a p acc | None => acc end) kes acc)) -> stripped k).
  { induction kes as [|ke r IH]; intros acc Hacc k Hk; cbn [fold_left] in Hk; [apply Hacc; exact Hk|].
    apply (IH _) in Hk; [exact Hk|]. intros k' Hk'.
    destruct (load_entry (snd ke)) as [[a p]|] eqn:El; [|apply Hacc; exact Hk'].
    apply keys_pset in Hk' as [->|Hk']; [|apply Hacc; exact Hk'].
    unfold load_entry in El. destruct (validate_address (f_key (snd ke)) true) as [c|] eqn:Ev; [|discriminate].
    destruct (f_seen (snd ke)); [|discriminate].
    destruct (validate_address (f_addr (snd ke)) true) as [c'|]; [|discriminate].
    destruct (str_eqb c c'); [|discriminate]. injection El as <- _.
    exists (f_key (snd ke)). eapply validate_accept_clean. exact Ev. }
  apply G. intros k [].
Qed.

Lemma keys_filter : forall (P : str * peer -> bool) l k, In k (keys (filter P l)) -> exists p, In (k, p) l /\ P (k, p) = true.
Proof.
  intros P l k H. unfold keys in H. apply in_map_iff in H as [[k' p] [Hk Hin]]. cbn [fst] in Hk. subst k'.
  apply filter_In in Hin as [Hin HP]. exists p. tauto.
Qed.
Lemma in_keys : forall (l : pl) k p, In (k, p) l -> In k (keys l).
Proof. intros l k p H. unfold keys. apply (in_map fst) in H. exact H. Qed.

Lemma cache_filter_valid : forall allow l, (forall k, In k (keys l) -> stripped k) -> all_valid allow (cache_filter allow l).
Proof.
  intros allow l Hs k Hk. unfold cache_filter in Hk. apply keys_filter in Hk as [p [Hin HP]]. cbn [fst] in HP.
  destruct (validate_address k allow) as [c|] eqn:Ev; [|discriminate].
  destruct (Hs k (in_keys _ _ _ Hin)) as [raw ->].
  pose proof (validate_accept_valid _ _ _ Ev) as Hv. rewrite (validate_accept_clean _ _ _ Ev), strip_idem in Hv. exact Hv.
Qed.

Lemma cache_cut_valid : forall allow max l kept r, all_valid allow l -> cache_cut max l kept = Some r -> all_valid allow r.
Proof.
  intros allow max l kept r V H. unfold cache_cut in H. destruct ((0 <? max) && (max <? plen l)).
  - destruct (plen (filter (fun e : str * peer => str_mem (fst e) kept) l) =? max); [|discriminate]. injection H as <-.
    intros k Hk. apply keys_filter in Hk as [p [Hin _]]. apply V. eapply in_keys. exact Hin.
  - injection H as <-. exact V.
Qed.
Lemma cache_cut_bound : forall max l kept r, 0 < max -> cache_cut max l kept = Some r -> plen r <= max.
Proof.
  intros max l kept r Hm H. unfold cache_cut in H. destruct ((0 <? max) && (max <? plen l)) eqn:E.
  - destruct (plen (filter (fun e : str * peer => str_mem (fst e) kept) l) =? max) eqn:E2; [|discriminate]. injection H as <-. lia.
  - injection H as <-. lia.
Qed.

Lemma untrust_all_valid : forall allow l, all_valid allow l -> all_valid allow (untrust_all l).
Proof. intros allow l V k Hk. apply V. unfold keys, untrust_all in *. rewrite map_map in Hk. cbn [fst] in Hk. exact Hk. Qed.
Lemma untrust_all_len : forall l, plen (untrust_all l) = plen l.
Proof. intros. unfold plen, untrust_all. rewrite map_length. reflexivity. Qed.

Lemma add_defaults_valid : forall max allow defaults l now r,
  all_valid allow l -> add_defaults max allow l defaults now = Some r -> all_valid allow r.
Proof.
  induction defaults as [|d ds IH]; intros l now r V H; cbn [add_defaults] in H; [injection H as <-; exact V|].
  pose proof (step_all_valid max allow l (AddPeer d now (auto_victim l)) V) as V1.
  destruct (step max allow l (AddPeer d now (auto_victim l))) as [l1 o1]. destruct o1; try discriminate. cbn [fst] in V1.
  pose proof (step_all_valid max allow l1 (SetTrusted d) V1) as V2.
  destruct (step max allow l1 (SetTrusted d)) as [l2 o2]. destruct o2; try discriminate. cbn [fst] in V2.
  eapply IH; eassumption.
Qed.
Lemma add_defaults_bound : forall max allow defaults l now r,
  0 < max -> plen l <= max -> add_defaults max allow l defaults now = Some r -> plen r <= max.
Proof.
  induction defaults as [|d ds IH]; intros l now r Hm Hl H; cbn [add_defaults] in H; [injection H as <-; exact Hl|].
  pose proof (step_bound max allow l (AddPeer d now (auto_victim l)) Hm Hl) as B1.
  destruct (step max allow l (AddPeer d now (auto_victim l))) as [l1 o1]. destruct o1; try discriminate. cbn [fst] in B1.
  pose proof (step_bound max allow l1 (SetTrusted d) Hm B1) as B2.
  destruct (step max allow l1 (SetTrusted d)) as [l2 o2]. destruct o2; try discriminate. cbn [fst] in B2.
  eapply IH; eassumption.
Qed.

Lemma parse_local_valid : forall allow ls peers c, parse_local allow ls = Some peers -> In c peers -> valid_form allow c.
Proof.
  induction ls as [|a r IH]; intros peers c H Hin; cbn [parse_local] in H; [injection H as <-; destruct Hin|].
  destruct a as [|x a']; [eapply IH; eassumption|].
  destruct (x =? 35); [eapply IH; eassumption|].
  destruct (validate_address (x :: a') allow) as [cl|] eqn:Ev; [|discriminate].
  destruct (parse_local allow r) as [xs|] eqn:Ep; [|discriminate]. injection H as <-.
  destruct Hin as [<-|Hin]; [eapply validate_accept_valid; exact Ev|eapply IH; [reflexivity|exact Hin]].
Qed.

Lemma load_custom_valid : forall max allow l custom now r,
  all_valid allow l -> load_custom max allow l custom now = Some r -> all_valid allow r.
Proof.
  intros max allow l custom now r V H. unfold load_custom in H. destruct custom as [body|]; [|injection H as <-; exact V].
  destruct (parse_local allow (body_lines body)) as [peers|] eqn:Ep; [|discriminate]. injection H as <-.
  intros k Hk. apply keys_fold_add in Hk as [Hk|Hk]; [|apply V; exact Hk].
  eapply parse_local_valid; [exact Ep|]. destruct (0 <? max); [eapply firstn_In; exact Hk|exact Hk].
Qed.
Lemma load_custom_bound : forall max allow l custom now r,
  0 < max -> plen l <= max -> load_custom max allow l custom now = Some r -> plen r <= max.
Proof.
  intros max allow l custom now r Hm Hl H. unfold load_custom in H. destruct custom as [body|]; [|injection H as <-; exact Hl].
  destruct (parse_local allow (body_lines body)) as [peers|]; [|discriminate]. injection H as <-.
  replace (0 <? max) with true by lia.
  pose proof (len_fold_add now (firstn (Z.to_nat (max - plen l)) peers) l) as Hf.
  pose proof (firstn_le_length (Z.to_nat (max - plen l)) peers) as Hn. unfold plen in *. lia.
Qed.

(* the initial-state lemma: whatever the cache file holds, the list pex.New starts
   with only holds addresses valid under the CONFIGURED localhost policy *)
Lemma start_all_valid : forall max allow disable es kept defaults custom now l,
  start max allow disable es kept defaults custom now = Some l -> all_valid allow l.
Proof.
  intros max allow disable es kept defaults custom now l H. unfold start in H.
  destruct (cache_cut max (cache_filter allow (load_file es)) kept) as [l0|] eqn:Ec; [|discriminate].
  destruct (add_defaults max allow (untrust_all l0) defaults now) as [l1|] eqn:Ed; [|discriminate].
  assert (V1 : all_valid allow l1).
  { eapply add_defaults_valid; [|exact Ed]. apply untrust_all_valid.
    eapply cache_cut_valid; [|exact Ec]. apply cache_filter_valid. apply load_file_stripped. }
  eapply load_custom_valid; [|exact H]. destruct disable; [apply untrust_all_valid|]; exact V1.
Qed.
Lemma start_bound : forall max allow disable es kept defaults custom now l,
  0 < max -> start max allow disable es kept defaults custom now = Some l -> plen l <= max.
Proof.
  intros max allow disable es kept defaults custom now l Hm H. unfold start in H.
  destruct (cache_cut max (cache_filter allow (load_file es)) kept) as [l0|] eqn:Ec; [|discriminate].
  destruct (add_defaults max allow (untrust_all l0) defaults now) as [l1|] eqn:Ed; [|discriminate].
  assert (B1 : plen l1 <= max).
  { eapply add_defaults_bound; [exact Hm| |exact Ed]. rewrite untrust_all_len. eapply cache_cut_bound; eassumption. }
  eapply load_custom_bound; [exact Hm| |exact H]. destruct disable; [rewrite untrust_all_len|]; exact B1.
Qed.

Lemma xstep_all_valid : forall max allow l x, all_valid allow l -> all_valid allow (fst (xstep max allow l x)).
Proof.
  intros max allow l [o|kept defaults disable custom now|body perm now] V; cbn [xstep]; try (apply step_all_valid; exact V).
  destruct (start max allow disable (saved_entries l) kept defaults custom now) as [l'|] eqn:E; [|exact V].
  cbn [fst]. eapply start_all_valid. exact E.
Qed.
Lemma xstep_bound : forall max allow l x, 0 < max -> plen l <= max -> plen (fst (xstep max allow l x)) <= max.
Proof.
  intros max allow l [o|kept defaults disable custom now|body perm now] Hm Hl; cbn [xstep]; try (apply step_bound; assumption).
  destruct (start max allow disable (saved_entries l) kept defaults custom now) as [l'|] eqn:E; [|exact Hl].
  cbn [fst]. eapply start_bound; eassumption.
Qed.
Lemma xrun_all_valid : forall max allow xs l, all_valid allow l -> all_valid allow (xrun max allow l xs).
Proof. induction xs as [|x r IH]; intros l V; cbn [xrun]; [exact V|]. apply IH. apply xstep_all_valid. exact V. Qed.
Lemma xrun_bound : forall max allow xs l, 0 < max -> plen l <= max -> plen (xrun max allow l xs) <= max.
Proof. induction xs as [|x r IH]; intros l Hm Hl; cbn [xrun]; [exact Hl|]. apply IH; [exact Hm|]. apply xstep_bound; assumption. Qed.

Lemma all_valid_from_cache : forall max allow disable es kept defaults custom now l0 xs k,
  start max allow disable es kept defaults custom now = Some l0 ->
  In k (keys (xrun max allow l0 xs)) -> valid_form allow k.
Proof. intros max allow disable es kept defaults custom now l0 xs k H. apply xrun_all_valid. eapply start_all_valid. exact H. Qed.
Lemma bound_from_cache : forall max allow disable es kept defaults custom now l0 xs,
  0 < max -> start max allow disable es kept defaults custom now = Some l0 -> plen (xrun max allow l0 xs) <= max.
Proof. intros. apply xrun_bound; [assumption|]. eapply start_bound; eassumption. Qed.
