(* Proofs/Bip39Proofs.v — BIP39 (Model/Bip.v): entropy <-> word indices.
   The base-2048 digit conversion is a bijection on its range; encoding an entropy
   and decoding the indices gives the entropy back; a list of indices validates
   exactly when it is the encoding entropy||checksum of some entropy.
   SHA-256 is an oracle: only "it returns bytes" is assumed. *)
From Coq Require Import ZArith List Bool Lia ZifyBool.
From Sky Require Import Model.Secp Model.Bip Proofs.SecpProofs.
Import ListNotations.
Open Scope Z_scope.

Section Bip39Proofs.
  Variable sha256 : list Z -> list Z.
  Hypothesis sha_bytes : forall x, all_bytes (sha256 x) = true.   (* the oracle returns bytes *)

  (* ---------------------------------------------------------------- base-2048 digits *)

  Lemma digits2048_length : forall k v acc,
    List.length (digits2048 k v acc) = (k + List.length acc)%nat.
  Proof.
    induction k as [|k IH]; intros v acc; cbn [digits2048].
    - reflexivity.
    - rewrite IH. cbn [List.length]. lia.
  Qed.

  Lemma digits2048_app : forall k v acc, digits2048 k v acc = digits2048 k v [] ++ acc.
  Proof.
    induction k as [|k IH]; intros v acc; cbn [digits2048].
    - reflexivity.
    - rewrite IH. rewrite (IH _ [v mod 2048]). rewrite <- app_assoc. reflexivity.
  Qed.

  Lemma undigits2048_app : forall l m a,
    undigits2048 a (l ++ m) = undigits2048 (undigits2048 a l) m.
  Proof.
    induction l as [|d l IH]; intros m a; cbn [undigits2048 app].
    - reflexivity.
    - apply IH.
  Qed.

  Lemma undigits_digits : forall k v,
    0 <= v < 2048 ^ Z.of_nat k -> undigits2048 0 (digits2048 k v []) = v.
  Proof.
    induction k as [|k IH]; intros v Hv.
    - change (2048 ^ Z.of_nat 0) with 1 in Hv. cbn [digits2048 undigits2048]. lia.
    - rewrite Nat2Z.inj_succ, Z.pow_succ_r in Hv by lia.
      cbn [digits2048]. rewrite digits2048_app, undigits2048_app.
      rewrite IH.
      + cbn [undigits2048]. pose proof (Z.div_mod v 2048) as Hdm. lia.
      + split.
        * apply Z.div_pos; lia.
        * apply Z.div_lt_upper_bound; lia.
  Qed.

  Lemma undigits_range : forall ds,
    Forall (fun d => 0 <= d < 2048) ds ->
    0 <= undigits2048 0 ds < 2048 ^ Z.of_nat (List.length ds).
  Proof.
    induction ds as [|d l IH] using rev_ind; intros HF.
    - cbn [undigits2048 List.length]. change (2048 ^ Z.of_nat 0) with 1. lia.
    - apply Forall_app in HF. destruct HF as [HFl HFd].
      inversion HFd as [|d' l' Hd _]; subst.
      specialize (IH HFl).
      rewrite undigits2048_app. cbn [undigits2048].
      rewrite app_length. cbn [List.length]. rewrite Nat.add_1_r.
      rewrite Nat2Z.inj_succ, Z.pow_succ_r by lia.
      set (u := undigits2048 0 l) in *. set (P := 2048 ^ Z.of_nat (List.length l)) in *.
      lia.
  Qed.

  Lemma digits_undigits : forall ds,
    Forall (fun d => 0 <= d < 2048) ds ->
    digits2048 (List.length ds) (undigits2048 0 ds) [] = ds.
  Proof.
    induction ds as [|d l IH] using rev_ind; intros HF.
    - reflexivity.
    - apply Forall_app in HF. destruct HF as [HFl HFd].
      inversion HFd as [|d' l' Hd _]; subst.
      specialize (IH HFl).
      rewrite undigits2048_app. cbn [undigits2048].
      rewrite app_length. cbn [List.length]. rewrite Nat.add_1_r.
      cbn [digits2048].
      set (u := undigits2048 0 l) in *.
      assert (Hq : (u * 2048 + d) / 2048 = u).
      { rewrite Z.div_add_l by lia. rewrite Z.div_small by lia. lia. }
      assert (Hr : (u * 2048 + d) mod 2048 = d).
      { rewrite Z.add_comm, Z.mod_add by lia. apply Z.mod_small; lia. }
      rewrite Hq, Hr. rewrite digits2048_app. rewrite IH. reflexivity.
  Qed.

  Lemma digits_in_range : forall k v acc,
    Forall (fun d => 0 <= d < 2048) acc ->
    Forall (fun d => 0 <= d < 2048) (digits2048 k v acc).
  Proof.
    induction k as [|k IH]; intros v acc HF; cbn [digits2048].
    - exact HF.
    - apply IH. constructor.
      + apply Z.mod_pos_bound; lia.
      + exact HF.
  Qed.

  (* ---------------------------------------------------------------- arithmetic side facts *)

  (* entropy of 4m bytes, 4 <= m <= 8: m checksum bits, 3m words *)
  Lemma entropy_len_ok_inv : forall n,
    entropy_len_ok n = true -> exists m, 4 <= m <= 8 /\ n = 4 * m.
  Proof.
    intros n H. unfold entropy_len_ok in H.
    exists (n / 4).
    pose proof (Z.div_mod n 4) as Hdm.
    pose proof (Z.mod_pos_bound n 4) as Hmb.
    lia.
  Qed.

  Lemma entropy_len_ok_4m : forall m, 4 <= m <= 8 -> entropy_len_ok (4 * m) = true.
  Proof.
    intros m Hm. unfold entropy_len_ok.
    assert (E : (4 * m) mod 4 = 0) by (rewrite Z.mul_comm; apply Z.mod_mul; lia).
    rewrite E. lia.
  Qed.

  Lemma count_ok_inv : forall w, count_ok w = true -> exists m, 4 <= m <= 8 /\ w = 3 * m.
  Proof.
    intros w H. unfold count_ok in H.
    exists (w / 3).
    pose proof (Z.div_mod w 3) as Hdm.
    pose proof (Z.mod_pos_bound w 3) as Hmb.
    lia.
  Qed.

  Lemma count_ok_3m : forall m, 4 <= m <= 8 -> count_ok (3 * m) = true.
  Proof.
    intros m Hm. unfold count_ok.
    assert (E : (3 * m) mod 3 = 0) by (rewrite Z.mul_comm; apply Z.mod_mul; lia).
    rewrite E. lia.
  Qed.

  Lemma div_4m_4 : forall m, 4 * m / 4 = m.
  Proof. intros m. rewrite Z.mul_comm. apply Z.div_mul. lia. Qed.

  Lemma div_3m_3 : forall m, 3 * m / 3 = m.
  Proof. intros m. rewrite Z.mul_comm. apply Z.div_mul. lia. Qed.

  Lemma words_of_4m : forall m, (4 * m * 8 + 4 * m / 4) / 11 = 3 * m.
  Proof.
    intros m. rewrite div_4m_4.
    replace (4 * m * 8 + m) with (3 * m * 11) by lia.
    apply Z.div_mul. lia.
  Qed.

  (* 11 bits per word: 33m bits = 32m entropy bits + m checksum bits *)
  Lemma pow_words : forall m, 0 <= m -> 2048 ^ (3 * m) = 256 ^ (4 * m) * 2 ^ m.
  Proof.
    intros m Hm.
    change 2048 with (2 ^ 11). change 256 with (2 ^ 8).
    rewrite <- !Z.pow_mul_r by lia. rewrite <- Z.pow_add_r by lia.
    f_equal. lia.
  Qed.

  (* ---------------------------------------------------------------- the checksum *)

  Lemma checksum_range : forall e m,
    4 <= m <= 8 -> Z.of_nat (List.length e) = 4 * m ->
    0 <= checksum_bits sha256 e < 2 ^ m.
  Proof.
    intros e m Hm Hlen. unfold checksum_bits. rewrite Hlen, div_4m_4.
    pose proof (sha_bytes e) as Hb.
    assert (Hp : 0 < 2 ^ m) by (apply Z.pow_pos_nonneg; lia).
    destruct (sha256 e) as [|h0 t].
    - lia.
    - unfold all_bytes in Hb. cbn [forallb] in Hb. unfold is_byte in Hb.
      assert (Hh : 0 <= h0 < 256) by lia.
      assert (Hq : 0 < 2 ^ (8 - m)) by (apply Z.pow_pos_nonneg; lia).
      split.
      + apply Z.div_pos; lia.
      + apply Z.div_lt_upper_bound; [exact Hq|].
        rewrite <- Z.pow_add_r by lia.
        replace (8 - m + m) with 8 by lia. change (2 ^ 8) with 256. lia.
  Qed.

  (* ---------------------------------------------------------------- entropy -> indices -> entropy *)

  Lemma roundtrip_core : forall m e,
    4 <= m <= 8 -> Z.of_nat (List.length e) = 4 * m -> all_bytes e = true ->
    entropy_of_indices sha256
      (digits2048 (Z.to_nat (3 * m)) (be_val e * 2 ^ m + checksum_bits sha256 e) []) = inr e.
  Proof.
    intros m e Hm Hlen Hb.
    pose proof (checksum_range e m Hm Hlen) as Hc.
    pose proof (be_val_range e Hb) as Hv. rewrite Hlen in Hv.
    assert (Hp : 0 < 2 ^ m) by (apply Z.pow_pos_nonneg; lia).
    set (c := checksum_bits sha256 e) in *.
    set (b := be_val e) in *.
    assert (Hrange : 0 <= b * 2 ^ m + c < 2048 ^ Z.of_nat (Z.to_nat (3 * m))).
    { rewrite Z2Nat.id by lia. rewrite pow_words by lia.
      set (P := 2 ^ m) in *. set (Q := 256 ^ (4 * m)) in *. nia. }
    assert (Hq : (b * 2 ^ m + c) / 2 ^ m = b).
    { rewrite Z.div_add_l by lia. rewrite Z.div_small by lia. lia. }
    assert (Hr : (b * 2 ^ m + c) mod 2 ^ m = c).
    { rewrite Z.add_comm, Z.mod_add by lia. apply Z.mod_small; lia. }
    assert (HL : Z.of_nat (List.length (digits2048 (Z.to_nat (3 * m)) (b * 2 ^ m + c) [])) = 3 * m).
    { rewrite digits2048_length. cbn [List.length]. lia. }
    unfold entropy_of_indices. cbv zeta.
    rewrite HL. rewrite count_ok_3m by exact Hm. cbn [negb].
    rewrite div_3m_3. rewrite undigits_digits by exact Hrange.
    rewrite Hq, Hr.
    replace (Z.to_nat (m * 4)) with (List.length e) by lia.
    unfold b. rewrite be_bytes_be_val by exact Hb.
    fold c. rewrite Z.eqb_refl. reflexivity.
  Qed.

  Lemma indices_of_entropy_inv : forall e idx,
    indices_of_entropy sha256 e = inr idx ->
    exists m, 4 <= m <= 8 /\ Z.of_nat (List.length e) = 4 * m /\
      idx = digits2048 (Z.to_nat (3 * m)) (be_val e * 2 ^ m + checksum_bits sha256 e) [].
  Proof.
    intros e idx H. unfold indices_of_entropy in H. cbv zeta in H.
    destruct (entropy_len_ok (Z.of_nat (List.length e))) eqn:Hok; cbn [negb] in H; [|discriminate H].
    destruct (entropy_len_ok_inv _ Hok) as [m [Hm Hlen]].
    exists m. split; [exact Hm|]. split; [exact Hlen|].
    rewrite Hlen in H. rewrite words_of_4m, div_4m_4 in H.
    injection H as H. symmetry. exact H.
  Qed.

  Lemma indices_of_entropy_4m : forall e m,
    4 <= m <= 8 -> Z.of_nat (List.length e) = 4 * m ->
    indices_of_entropy sha256 e =
    inr (digits2048 (Z.to_nat (3 * m)) (be_val e * 2 ^ m + checksum_bits sha256 e) []).
  Proof.
    intros e m Hm Hlen. unfold indices_of_entropy. cbv zeta.
    rewrite Hlen. rewrite entropy_len_ok_4m by exact Hm. cbn [negb].
    rewrite words_of_4m, div_4m_4. reflexivity.
  Qed.

  Theorem mnemonic_indices_roundtrip : forall e idx,
    all_bytes e = true ->
    indices_of_entropy sha256 e = inr idx ->
    entropy_of_indices sha256 idx = inr e.
  Proof.
    intros e idx Hb H.
    destruct (indices_of_entropy_inv e idx H) as [m [Hm [Hlen Hidx]]].
    subst idx. apply roundtrip_core; assumption.
  Qed.

  (* ---------------------------------------------------------------- valid indices = encodings *)

  Lemma entropy_of_indices_sound : forall idx e,
    Forall (fun d => 0 <= d < 2048) idx ->
    entropy_of_indices sha256 idx = inr e ->
    all_bytes e = true /\ indices_of_entropy sha256 e = inr idx.
  Proof.
    intros idx e HF H. unfold entropy_of_indices in H. cbv zeta in H.
    destruct (count_ok (Z.of_nat (List.length idx))) eqn:Hok; cbn [negb] in H; [|discriminate H].
    destruct (count_ok_inv _ Hok) as [m [Hm Hlen]].
    rewrite Hlen in H. rewrite div_3m_3 in H.
    pose proof (undigits_range idx HF) as Hv. rewrite Hlen in Hv.
    rewrite pow_words in Hv by lia.
    set (v := undigits2048 0 idx) in *.
    assert (Hp : 0 < 2 ^ m) by (apply Z.pow_pos_nonneg; lia).
    set (e' := be_bytes (Z.to_nat (m * 4)) (v / 2 ^ m)) in *.
    destruct (v mod 2 ^ m =? checksum_bits sha256 e') eqn:Hck; [|discriminate H].
    injection H as H. subst e.
    apply Z.eqb_eq in Hck.
    split; [apply be_bytes_all|].
    assert (Hlen' : Z.of_nat (List.length e') = 4 * m).
    { unfold e'. rewrite be_bytes_length. lia. }
    rewrite (indices_of_entropy_4m e' m Hm Hlen').
    f_equal.
    assert (Hq : 0 <= v / 2 ^ m < 256 ^ Z.of_nat (Z.to_nat (m * 4))).
    { rewrite Z2Nat.id by lia. replace (m * 4) with (4 * m) by lia. split.
      - apply Z.div_pos; lia.
      - apply Z.div_lt_upper_bound; [exact Hp|]. rewrite Z.mul_comm. lia. }
    assert (Hbv : be_val e' = v / 2 ^ m).
    { unfold e'. apply be_val_be_bytes. exact Hq. }
    rewrite Hbv, <- Hck.
    assert (Hvv : v / 2 ^ m * 2 ^ m + v mod 2 ^ m = v).
    { pose proof (Z.div_mod v (2 ^ m)) as Hdm. lia. }
    rewrite Hvv.
    replace (Z.to_nat (3 * m)) with (List.length idx) by lia.
    unfold v. apply digits_undigits. exact HF.
  Qed.

  Theorem indices_valid_iff_checksum : forall idx e,
    Forall (fun d => 0 <= d < 2048) idx ->
    (entropy_of_indices sha256 idx = inr e <->
     (all_bytes e = true /\ indices_of_entropy sha256 e = inr idx)).
  Proof.
    intros idx e HF. split.
    - apply entropy_of_indices_sound. exact HF.
    - intros [Hb H]. apply mnemonic_indices_roundtrip; assumption.
  Qed.

  Theorem indices_of_entropy_count : forall e idx,
    indices_of_entropy sha256 e = inr idx ->
    count_ok (Z.of_nat (List.length idx)) = true /\ Forall (fun d => 0 <= d < 2048) idx.
  Proof.
    intros e idx H.
    destruct (indices_of_entropy_inv e idx H) as [m [Hm [Hlen Hidx]]].
    subst idx. split.
    - rewrite digits2048_length. cbn [List.length].
      replace (Z.of_nat (Z.to_nat (3 * m) + 0)) with (3 * m) by lia.
      apply count_ok_3m. exact Hm.
    - apply digits_in_range. constructor.
  Qed.

End Bip39Proofs.
