(* C07 proofs, part 3: every reachable node state agrees with the first-principles
   views (views_agree), rebuilding gives the same (rebuild_same), and the query
   functions answer what the first-principles views say. *)
From Sky Require Import Base.Uint Model.Views Proofs.ViewsBase Proofs.ViewsUnspent Proofs.ViewsHistory.
From Coq Require Import Lia ZifyBool ZArith Bool List Permutation.
Import ListNotations.
Open Scope Z_scope.

Lemma wf_from_snoc r : forall p b, wf_from_b p (r ++ [b]) = wf_from_b p r && wf_block_b (p ++ r) b.
Proof.
  induction r as [|x r IH]; intros p b; cbn [wf_from_b app].
  - rewrite app_nil_r, andb_true_r. reflexivity.
  - rewrite IH, <- app_assoc, andb_assoc. reflexivity.
Qed.

Lemma wf_chain_snoc c b : wf_chain c -> wf_block c b -> wf_chain (c ++ [b]).
Proof. unfold wf_chain, wf_chain_b, wf_block. intros H1 H2. rewrite wf_from_snoc. cbn [app]. now rewrite H1, H2. Qed.

Lemma wf_chain_cinv_gen rest : forall p, cinv p -> wf_from_b p rest = true -> cinv (p ++ rest).
Proof.
  induction rest as [|b r IH]; intros p Hc Hw; cbn [wf_from_b] in Hw.
  - now rewrite app_nil_r.
  - apply andb_true_iff in Hw as [Hb Hr]. replace (p ++ b :: r) with ((p ++ [b]) ++ r) by (now rewrite <- app_assoc).
    apply IH; [|exact Hr]. apply cinv_snoc; [exact Hc | now apply wf_block_wfb].
Qed.

Lemma wf_chain_cinv c : wf_chain c -> cinv c.
Proof. intros H. apply (wf_chain_cinv_gen c [] cinv_nil H). Qed.

(* ---------- history re-parse *)

Lemma reparse_gen rest : forall p h, cinv p -> hagree h p -> wf_from_b p rest = true ->
  exists h', ofold parse_block rest h = Some h' /\ hagree h' (p ++ rest).
Proof.
  induction rest as [|b r IH]; intros p h Hc Hag Hw; cbn [wf_from_b] in Hw.
  - exists h. cbn. now rewrite app_nil_r.
  - apply andb_true_iff in Hw as [Hb Hr]. apply wf_block_wfb in Hb.
    destruct (parse_block_agree h p b Hc Hb Hag) as (h1 & E1 & Hag1).
    destruct (IH (p ++ [b]) h1 (cinv_snoc p b Hc Hb) Hag1 Hr) as (h' & E' & Hag').
    exists h'. cbn [ofold]. rewrite E1. split; [exact E'|]. now rewrite <- app_assoc in Hag'.
Qed.

Lemma reparse_agree c : wf_chain c -> exists h, reparse c = Some h /\ hagree h c.
Proof. intros H. apply (reparse_gen c [] hs_empty cinv_nil hagree_empty H). Qed.

(* ---------- the node *)

Lemma nagree_empty : nagree node_empty [].
Proof.
  split; [reflexivity|]. split; [|exact hagree_empty].
  unfold uagree, us_empty. cbn. repeat split; auto; try constructor. intros a. discriminate.
Qed.

Lemma exec_block_agree n c b :
  wf_chain c -> wf_block c b -> nagree n c ->
  exists n', exec_block n b = Some n' /\ nagree n' (c ++ [b]).
Proof.
  intros Hw Hb (Hch & Hu & Hh). pose proof (wf_chain_cinv c Hw) as Hc. apply wf_block_wfb in Hb.
  destruct (process_block_agree _ c b Hc Hb Hu) as (us & Eu & Hu').
  destruct (parse_block_agree _ c b Hc Hb Hh) as (hs & Eh & Hh').
  unfold exec_block. rewrite Eu, Eh. eexists. split; [reflexivity|].
  split; [cbn; now rewrite Hch | split; assumption].
Qed.

Lemma needs_reset_wipe h hw : hw <> HistKeep -> needs_reset (wipe_hist hw h) = true.
Proof.
  intros Hk. destruct h as [o t au atx p].
  destruct hw; [exfalso; now apply Hk | | | | |]; unfold needs_reset;
    cbn [wipe_hist h_parsed h_addr_txns h_addr_ux h_txns h_outs];
    try reflexivity; destruct p; try reflexivity; destruct o, t, au, atx; reflexivity.
Qed.

(* rebuild_same: whatever was done to the index bucket / its marker and to the history
   buckets, after reopening the node the state again agrees with the chain *)
Lemma reopen_agree n c iw hw order :
  wf_chain c -> c <> [] -> nagree n c ->
  Permutation order (map ux_id (utxo_of c)) ->
  match iw with IdxKeep => True | IdxSet _ h => h <> Some (head_seq c) end ->
  (hw <> HistKeep -> needs_reset (wipe_hist hw (n_hs n)) = true) /\
  exists n', reopen n iw hw order = Some n' /\ nagree n' c.
Proof.
  intros Hw Hne (Hch & Hu & Hh) Hperm Hiw. pose proof (wf_chain_cinv c Hw) as Hc. split.
  - intros Hk. now apply needs_reset_wipe.
  - unfold reopen. rewrite Hch.
    pose proof (maybe_build_agree (n_us n) c iw order Hc Hne Hu Hperm Hiw) as Hu'.
    destruct (needs_reset (wipe_hist hw (n_hs n))) eqn:En.
    + destruct (reparse_agree c Hw) as (hs & Er & Hh'). rewrite Er. eexists. split; [reflexivity|].
      split; [reflexivity | split; assumption].
    + (* no reset: only possible when nothing was wiped *)
      assert (hw = HistKeep).
      { destruct hw; try reflexivity; rewrite needs_reset_wipe in En; discriminate. }
      subst hw. cbn [wipe_hist]. eexists. split; [reflexivity|]. split; [reflexivity | split; assumption].
Qed.

(* views_agree: for every operation sequence a node can go through *)
Lemma run_agree ops : forall c n,
  wf_chain c -> nagree n c -> wf_ops_from c ops ->
  exists n', ofold step ops n = Some n' /\ nagree n' (c ++ chain_of ops) /\ wf_chain (c ++ chain_of ops).
Proof.
  induction ops as [|o r IH]; intros c n Hw Hag Hops.
  - exists n. cbn. rewrite app_nil_r. auto.
  - destruct o as [b | iw hw order]; cbn [wf_ops_from] in Hops.
    + destruct Hops as [Hb Hr].
      destruct (exec_block_agree n c b Hw Hb Hag) as (n1 & E1 & Hag1).
      destruct (IH (c ++ [b]) n1 (wf_chain_snoc c b Hw Hb) Hag1 Hr) as (n' & E' & Hag' & Hw').
      exists n'. cbn [ofold step chain_of]. rewrite E1. split; [exact E'|].
      replace (c ++ b :: chain_of r) with ((c ++ [b]) ++ chain_of r) by (now rewrite <- app_assoc). auto.
    + destruct Hops as (Hne & Hperm & Hiw & Hr).
      destruct (reopen_agree n c iw hw order Hw Hne Hag Hperm Hiw) as (_ & n1 & E1 & Hag1).
      destruct (IH c n1 Hw Hag1 Hr) as (n' & E' & Hag' & Hw').
      exists n'. cbn [ofold step chain_of]. rewrite E1. auto.
Qed.

Theorem views_agree ops :
  wf_ops_from [] ops -> exists n, run_ops ops = Some n /\ nagree n (chain_of ops).
Proof.
  intros H. destruct (run_agree ops [] node_empty eq_refl nagree_empty H) as (n & E & Hag & _).
  exists n. split; [exact E | exact Hag].
Qed.

(* ---------- what the queries answer on an agreeing state *)

Section Queries.
  Variable n : node.
  Variable c : chain.
  Hypothesis Hw : wf_chain c.
  Hypothesis Hag : nagree n c.

  Let Hc : cinv c := wf_chain_cinv c Hw.

  Lemma q_unspents_spec a :
    exists l, q_unspents n a = Some l /\ Permutation l (addr_index_of c a).
  Proof.
    destruct Hag as (_ & (Hpool & Hidx & _) & _). unfold q_unspents. rewrite Hpool.
    pose proof (utxo_ids_nodup c Hc) as Hnd.
    destruct (get_array_spec (utxo_of c) (aget_list a (u_idx (n_us n))) Hnd) as (uxs & E & Hids & _).
    - intros i Hi. apply (Permutation_in _ (Hidx a)) in Hi. unfold addr_index_of in Hi.
      apply in_map_iff in Hi as (u & <- & Hu). apply filter_In in Hu as [Hu _]. now apply in_map.
    - rewrite E. eexists. split; [reflexivity|]. rewrite Hids. apply Hidx.
  Qed.

  Lemma q_addr_count_spec : q_addr_count n = addr_count_of c.
  Proof.
    destruct Hag as (_ & (Hpool & Hidx & Hk & He & _) & _). unfold q_addr_count, addr_count_of. f_equal.
    rewrite <- (map_length fst). apply same_length_NoDup; [exact Hk | apply dedup_NoDup |].
    intros a. rewrite dedup_In. fold (akeys (u_idx (n_us n))). rewrite aget_In_keys. split.
    - intros Hn0. destruct (aget a (u_idx (n_us n))) as [l|] eqn:E; [|contradiction].
      destruct l as [|h r]; [exfalso; exact (He a E)|].
      assert (Hin : In h (addr_index_of c a)).
      { apply (Permutation_in _ (Hidx a)). unfold aget_list. rewrite E. now left. }
      unfold addr_index_of in Hin. apply in_map_iff in Hin as (u & _ & Hu). apply filter_In in Hu as [Hu Ha].
      apply in_map_iff. exists u. split; [lia | exact Hu].
    - intros Hin. apply in_map_iff in Hin as (u & Ea & Hu).
      assert (Hin : In (ux_id u) (aget_list a (u_idx (n_us n)))).
      { apply (Permutation_in _ (Permutation_sym (Hidx a))). unfold addr_index_of. apply in_map.
        apply filter_In. split; [exact Hu | lia]. }
      unfold aget_list in Hin. destruct (aget a (u_idx (n_us n))); [discriminate | contradiction].
  Qed.

  Lemma q_uxhash_spec : q_uxhash n = xor_of c.
  Proof. destruct Hag as (_ & (_ & _ & _ & _ & Hx & _) & _). exact Hx. Qed.

  Lemma q_uxout_spec id :
    q_uxout n id = match hist_of c id with Some (u, (t, q)) => Some (mk_hout u t q) | None => None end.
  Proof. destruct Hag as (_ & _ & (H1 & _)). apply H1. Qed.

  Lemma q_addr_outs_spec a : q_addr_outs n a = addr_uxs_of c a.
  Proof. destruct Hag as (_ & _ & (_ & _ & H3 & _)). apply H3. Qed.

  Lemma q_txn_spec tid : q_txn n tid = txn_of c tid.
  Proof. destruct Hag as (_ & _ & (_ & H2 & _)). apply H2. Qed.

  (* confirmed transactions of one address: the address's transactions in chain order, with their block *)
  Lemma q_addr_txns_spec a :
    q_addr_txns n a =
    flat_map (fun tid => match txn_of c tid with Some (_, q) => [(tid, q)] | None => [] end) (addr_txns_of c a).
  Proof.
    destruct Hag as (_ & _ & (_ & H2 & _ & H4 & _)). unfold q_addr_txns. rewrite H4.
    apply flat_map_ext'. intros tid _. now rewrite H2.
  Qed.

  Lemma head_spec : head_seq (n_chain n) = head_seq c.
  Proof. destruct Hag as (-> & _). reflexivity. Qed.
End Queries.
