(* Proofs/StrandPoolProofs.v — invariants of the strand protocol (property C32) *)
From Sky Require Import Base.Uint Model.StrandPool.
From Coq Require Import ZArith Lia Bool Arith List.
Import ListNotations.

(* ---------- upd / nth_error ---------- *)

Lemma nth_error_upd_same {A} (f : A -> A) : forall (l : list A) i c,
  nth_error l i = Some c -> nth_error (upd i f l) i = Some (f c).
Proof.
  induction l as [|x r IH]; intros i c H; destruct i; cbn in *; try discriminate.
  - injection H as <-. reflexivity.
  - apply IH. exact H.
Qed.

Lemma nth_error_upd_other {A} (f : A -> A) : forall (l : list A) i j,
  i <> j -> nth_error (upd i f l) j = nth_error l j.
Proof.
  induction l as [|x r IH]; intros i j H; destruct i, j; cbn; try reflexivity; try congruence.
  apply IH. congruence.
Qed.

Lemma nth_error_upd {A} (f : A -> A) (l : list A) i j c' :
  nth_error (upd i f l) j = Some c' ->
  (i = j /\ exists c, nth_error l j = Some c /\ c' = f c) \/ (i <> j /\ nth_error l j = Some c').
Proof.
  intros H. destruct (Nat.eq_dec i j) as [->|Hne].
  - left. split; [reflexivity|]. destruct (nth_error l j) as [c|] eqn:E.
    + rewrite (nth_error_upd_same f l j c E) in H. injection H as <-. exists c. split; reflexivity.
    + exfalso. revert j H E. induction l as [|x r IH]; intros j H E; destruct j; cbn in *; try discriminate.
      eapply IH; eassumption.
  - right. split; [exact Hne|]. rewrite nth_error_upd_other in H by exact Hne. exact H.
Qed.

(* ---------- the invariant ---------- *)

Definition past_strand (x : sstate) : bool :=
  match x with SListener | SDisconnect | SWaitDone | SFinished => true | _ => false end.
Definition past_disconnect (x : sstate) : bool :=
  match x with SWaitDone | SFinished => true | _ => false end.

Record inv (s : state) : Prop := {
  inv_exited_quit : worker s = WExited -> quit s = true;
  inv_quit_shut : quit s = true <-> shut s <> SNot;
  inv_past_strand : past_strand (shut s) = true -> worker s = WExited;
  inv_empty : past_disconnect (shut s) = true -> conns s = [];
  inv_waiting : forall i c, nth_error (callers s) i = Some c -> cst c = CWait -> reqdone c = false ->
                exists o, worker s = WRun i (reqno c) o;
  inv_run_done : run_done s = true -> worker s <> WNotStarted
}.

Lemma inv_init progs : inv (init progs).
Proof.
  split; cbn; try discriminate; try tauto.
  - split; [discriminate|congruence].
  - intros i c H Hc. unfold init in H. cbn in H. rewrite nth_error_map in H.
    destruct (nth_error progs i); cbn in H; [|discriminate]. injection H as <-. cbn in Hc. discriminate.
Qed.

Ltac inv_some H := match type of H with Some _ = Some _ => injection H as <- | _ => discriminate end.

Ltac crush_step H :=
  repeat match type of H with
         | match ?x with _ => _ end = Some _ => destruct x eqn:?; try discriminate
         | (if ?x then _ else _) = Some _ => destruct x eqn:?; try discriminate
         end.

(* the fields that do not talk about individual callers *)
Lemma inv_step_global s l s' : inv s -> step s l = Some s' ->
  (worker s' = WExited -> quit s' = true) /\ (quit s' = true <-> shut s' <> SNot) /\ (past_strand (shut s') = true -> worker s' = WExited) /\ (past_disconnect (shut s') = true -> conns s' = []) /\ (run_done s' = true -> worker s' <> WNotStarted).
Proof.
  intros [I1 I2 I3 I4 _ I6] H.
  destruct (shut s) eqn:Es; destruct (worker s) eqn:Ew; destruct (quit s) eqn:Eq; destruct (run_done s) eqn:Er;
    cbn in I1, I2, I3, I4, I6;
    try (specialize (I1 eq_refl)); try (specialize (I3 eq_refl)); try (specialize (I6 eq_refl)); try discriminate;
    try (destruct I2 as [I2a I2b]; first [specialize (I2a eq_refl); congruence | specialize (I2b ltac:(discriminate)); discriminate]);
    destruct l; cbn [step] in H; rewrite ?Es, ?Ew, ?Eq, ?Er in H; cbn in H; crush_step H;
    inv_some H; cbn; rewrite ?Es, ?Ew, ?Eq, ?Er; cbn;
    (repeat split; intros; try discriminate; try reflexivity; try congruence; try (apply I4; reflexivity)).
Qed.

Lemma inv_step s l s' : inv s -> step s l = Some s' -> inv s'.
Proof.
  intros Hinv H. pose proof (inv_step_global s l s' Hinv H) as (G1 & G2 & G3 & G4 & G6).
  destruct Hinv as [I1 I2 I3 I4 I5 I6].
  split; try assumption. clear G1 G2 G3 G4 G6.
  destruct l as [i|i|i|i|i| | | | | | | | | | ]; cbn [step] in H.
  - (* LStart *)
    destruct (nth_error (callers s) i) as [c|] eqn:Ec; [|discriminate].
    destruct (cst c) eqn:Est; try discriminate. destruct (prog c) as [|o rest] eqn:Ep; [discriminate|].
    inv_some H. cbn.
    intros j c' Hj Hw Hd. apply nth_error_upd in Hj as [(<- & c0 & Hc0 & ->)|(Hne & Hj)].
    + cbn in Hw. discriminate.
    + exact (I5 j c' Hj Hw Hd).
  - (* LAccept *)
    destruct (nth_error (callers s) i) as [c|] eqn:Ec; [|discriminate].
    destruct (worker s) eqn:Ew; try discriminate.
    destruct (cst c) eqn:Est; try discriminate.
    inv_some H. cbn.
    intros j c' Hj Hw Hd. apply nth_error_upd in Hj as [(<- & c0 & Hc0 & ->)|(Hne & Hj)].
    + cbn. rewrite Ec in Hc0. injection Hc0 as <-. exists (cur c). reflexivity.
    + destruct (I5 j c' Hj Hw Hd) as [o Ho]. discriminate.
  - (* LSendQuit *)
    destruct (nth_error (callers s) i) as [c|] eqn:Ec; [|discriminate].
    destruct (cst c) eqn:Est; try discriminate. destruct (quit s) eqn:Eq; [|discriminate].
    inv_some H. cbn.
    intros j c' Hj Hw Hd. apply nth_error_upd in Hj as [(<- & c0 & Hc0 & ->)|(Hne & Hj)].
    + cbn in Hw. discriminate.
    + exact (I5 j c' Hj Hw Hd).
  - (* LWaitDone *)
    destruct (nth_error (callers s) i) as [c|] eqn:Ec; [|discriminate].
    destruct (cst c) eqn:Est; try discriminate. destruct (reqdone c) eqn:Ed; [|discriminate].
    inv_some H. cbn.
    intros j c' Hj Hw Hd. apply nth_error_upd in Hj as [(<- & c0 & Hc0 & ->)|(Hne & Hj)].
    + cbn in Hw. discriminate.
    + exact (I5 j c' Hj Hw Hd).
  - (* LWaitQuit *)
    destruct (nth_error (callers s) i) as [c|] eqn:Ec; [|discriminate].
    destruct (cst c) eqn:Est; try discriminate. destruct (quit s) eqn:Eq; [|discriminate].
    inv_some H. cbn.
    intros j c' Hj Hw Hd. apply nth_error_upd in Hj as [(<- & c0 & Hc0 & ->)|(Hne & Hj)].
    + cbn in Hw. discriminate.
    + exact (I5 j c' Hj Hw Hd).
  - (* LExec *)
    destruct (worker s) as [| |i n o|] eqn:Ew; try discriminate.
    inv_some H. cbn.
    intros j c' Hj Hw Hd. exfalso.
    apply nth_error_upd in Hj as [(<- & c0 & Hc0 & ->)|(Hne & Hj)].
    + destruct (cst c0) eqn:Ec0; cbn in Hw; try (rewrite Ec0 in Hw; discriminate).
      destruct (Nat.eqb (reqno c0) n) eqn:En; cbn in Hd; [discriminate|].
      destruct (I5 i c0 Hc0 Ec0 Hd) as [o' Ho']. injection Ho' as Hn _. apply Nat.eqb_neq in En. congruence.
    + destruct (I5 j c' Hj Hw Hd) as [o' Ho']. injection Ho' as Hi _ _. congruence.
  - (* LWorkerQuit *)
    destruct (worker s) eqn:Ew; try discriminate. destruct (quit s) eqn:Eq; [|discriminate].
    inv_some H. cbn.
    intros j c' Hj Hw Hd. destruct (I5 j c' Hj Hw Hd) as [o Ho]. discriminate.
  - destruct (shut s) eqn:Es; try discriminate. inv_some H. cbn. exact I5.
  - destruct (shut s) eqn:Es; try discriminate. destruct (worker s) eqn:Ew; try discriminate. inv_some H. cbn.
    intros j c' Hj Hw Hd. destruct (I5 j c' Hj Hw Hd) as [o Ho]. discriminate.
  - destruct (shut s) eqn:Es; try discriminate. inv_some H. cbn. exact I5.
  - destruct (shut s) eqn:Es; try discriminate. inv_some H. cbn. exact I5.
  - (* LRunStart *)
    destruct (worker s) eqn:Ew; try discriminate. inv_some H. cbn.
    intros j c' Hj Hw Hd. destruct (I5 j c' Hj Hw Hd) as [o Ho]. discriminate.
  - (* LRunFail *)
    destruct (worker s) eqn:Ew; try discriminate; destruct (run_done s); try discriminate; inv_some H; cbn;
      rewrite ?Ew; exact I5.
  - destruct (worker s) eqn:Ew; try discriminate.
    destruct (quit s && negb (run_done s) && forallb (fun c => negb (handler c) || finished c) (callers s)); [|discriminate].
    inv_some H. cbn. intros j c' Hj Hw Hd. destruct (I5 j c' Hj Hw Hd) as [o Ho]. discriminate.
  - destruct (shut s) eqn:Es; try discriminate. destruct (run_done s) eqn:Er; [|discriminate].
    inv_some H. cbn. exact I5.
Qed.

Lemma inv_exec : forall ls s s', inv s -> exec s ls = Some s' -> inv s'.
Proof.
  induction ls as [|l r IH]; intros s s' Hi H; cbn [exec] in H.
  - injection H as <-. exact Hi.
  - destruct (step s l) as [s1|] eqn:E; [|discriminate]. eapply IH; [|exact H]. eapply inv_step; eassumption.
Qed.

Lemma reachable_inv s : reachable s -> inv s.
Proof. intros (progs & ls & H). eapply inv_exec; [apply inv_init|exact H]. Qed.

(* ---------- mutual exclusion ---------- *)

Theorem mutual_exclusion s : reachable s -> (in_section_count s <= 1)%nat.
Proof.
  intros Hr. destruct (reachable_inv s Hr) as [_ _ I3 _ _ _].
  unfold in_section_count, worker_in_section, shutdown_in_section.
  destruct (shut s) eqn:Es; cbn; try (destruct (worker s); cbn; lia).
  rewrite (I3 eq_refl). cbn. lia.
Qed.

(* the pool state is only changed by a step taken inside a section *)
Theorem state_changes_in_section s l s' :
  step s l = Some s' -> conns s' <> conns s -> worker_in_section s = true \/ shutdown_in_section s = true.
Proof.
  intros H Hc. unfold worker_in_section, shutdown_in_section.
  destruct l as [i|i|i|i|i| | | | | | | | | | ]; cbn [step] in H;
    repeat match type of H with
           | match ?x with _ => _ end = Some _ => destruct x eqn:?; try discriminate
           | (if ?x then _ else _) = Some _ => destruct x eqn:?; try discriminate
           end; try (injection H as <-; cbn in Hc; try congruence); auto.
Qed.

(* ---------- shutdown leaves no connection ---------- *)

Theorem shutdown_empties s : reachable s ->
  (shut s = SWaitDone \/ shut s = SFinished) -> conns s = [] /\ worker s = WExited.
Proof.
  intros Hr Hs. destruct (reachable_inv s Hr) as [_ _ I3 I4 _ _].
  split; [apply I4|apply I3]; destruct Hs as [-> | ->]; reflexivity.
Qed.

(* once the strand worker has exited no request is accepted any more: a call
   started afterwards can only return ErrConnectionPoolClosed *)
Theorem no_accept_after_strand_done s i : worker s = WExited -> step s (LAccept i) = None.
Proof.
  intros H. cbn [step]. rewrite H. destruct (nth_error (callers s) i); reflexivity.
Qed.

Theorem closed_only_after_quit s i s' :
  quit s = false -> step s (LSendQuit i) = Some s' \/ step s (LWaitQuit i) = Some s' -> False.
Proof.
  intros Hq [H|H]; cbn [step] in H; rewrite Hq in H;
    destruct (nth_error (callers s) i) as [c|]; try discriminate; destruct (cst c); discriminate.
Qed.

(* ---------- progress ---------- *)

Definition mid_call (c : caller) : bool := match cst c with CIdle => false | _ => true end.

(* after quit is closed a caller inside Strand() is never blocked: one own step
   finishes the call, with the value (request done) or with pool-closed *)
Theorem caller_finishes_after_quit s i c :
  nth_error (callers s) i = Some c -> quit s = true -> mid_call c = true ->
  exists l s' c' r, (l = LSendQuit i \/ l = LWaitQuit i) /\ step s l = Some s' /\
    nth_error (callers s') i = Some c' /\ cst c' = CIdle /\ results c' = r :: results c.
Proof.
  intros Hc Hq Hm. unfold mid_call in Hm. destruct (cst c) eqn:Est; [discriminate| |].
  - exists (LSendQuit i). eexists. exists (finish_call RClosed c), RClosed.
    split; [left; reflexivity|]. cbn [step]. rewrite Hc, Est, Hq. split; [reflexivity|].
    cbn. rewrite (nth_error_upd_same _ _ _ _ Hc). repeat split.
  - exists (LWaitQuit i). eexists. exists (finish_call RClosed c), RClosed.
    split; [right; reflexivity|]. cbn [step]. rewrite Hc, Est, Hq. split; [reflexivity|].
    cbn. rewrite (nth_error_upd_same _ _ _ _ Hc). repeat split.
Qed.

(* first caller that is not finished *)
Fixpoint first_unfinished (k : nat) (l : list caller) : option (nat * caller) :=
  match l with
  | [] => None
  | c :: r => if finished c then first_unfinished (S k) r else Some (k, c)
  end.

Lemma first_unfinished_none : forall l k, first_unfinished k l = None -> forallb finished l = true.
Proof.
  induction l as [|c r IH]; intros k H; cbn in *; [reflexivity|].
  destruct (finished c); [|discriminate]. cbn. eapply IH. exact H.
Qed.

Lemma first_unfinished_some : forall l k i c, first_unfinished k l = Some (i, c) ->
  (k <= i)%nat /\ nth_error l (i - k) = Some c /\ finished c = false.
Proof.
  induction l as [|x r IH]; intros k i c H; cbn in H; [discriminate|].
  destruct (finished x) eqn:Ef.
  - apply IH in H as (Hk & Hn & Hf). split; [lia|]. split; [|exact Hf].
    replace (i - k)%nat with (S (i - S k)) by lia. exact Hn.
  - injection H as <- <-. split; [lia|]. rewrite Nat.sub_diag. split; [reflexivity|exact Ef].
Qed.

Lemma forallb_impl {A} (p q : A -> bool) l : (forall x, p x = true -> q x = true) -> forallb p l = true -> forallb q l = true.
Proof. intros H. induction l as [|x r IH]; cbn; [reflexivity|]. intros Hp. apply andb_true_iff in Hp as [H1 H2]. rewrite (H x H1), (IH H2). reflexivity. Qed.

(* Every reachable state is either quiescent (all callers finished, Shutdown not
   called or returned) or has an enabled step other than "somebody calls Shutdown". *)
Theorem no_deadlock s : reachable s ->
  quiescent s = true \/ exists l s', l <> LShutStart /\ step s l = Some s'.
Proof.
  intros Hr. destruct (reachable_inv s Hr) as [I1 I2 I3 I4 I5 I6].
  destruct (worker s) as [| |wi wn wo|] eqn:Ew.
  - (* Run has not started the strand goroutine yet: starting it is enabled *)
    right. exists LRunStart. eexists. split; [discriminate|]. cbn [step]. rewrite Ew. reflexivity.
  - (* worker idle *)
    destruct (first_unfinished 0 (callers s)) as [[i c]|] eqn:Ef.
    + apply first_unfinished_some in Ef as (_ & Hn & Hf). rewrite Nat.sub_0_r in Hn.
      right. unfold finished in Hf. destruct (cst c) eqn:Est.
      * destruct (prog c) as [|o rest] eqn:Ep; [discriminate|].
        exists (LStart i). eexists. split; [discriminate|]. cbn [step]. rewrite Hn, Est, Ep. reflexivity.
      * exists (LAccept i). eexists. split; [discriminate|]. cbn [step]. rewrite Hn, Ew, Est. reflexivity.
      * destruct (reqdone c) eqn:Ed.
        -- exists (LWaitDone i). eexists. split; [discriminate|]. cbn [step]. rewrite Hn, Est, Ed. reflexivity.
        -- destruct (I5 i c Hn Est Ed) as [o Ho]. discriminate.
    + apply first_unfinished_none in Ef.
      destruct (quit s) eqn:Eq.
      * right. exists LWorkerQuit. eexists. split; [discriminate|]. cbn [step]. rewrite Ew, Eq. reflexivity.
      * left. unfold quiescent. rewrite Ef. cbn. destruct (shut s) eqn:Es; try reflexivity;
          exfalso; destruct I2 as [_ I2b]; specialize (I2b ltac:(discriminate)); discriminate.
  - (* worker running a request *)
    right. exists LExec. eexists. split; [discriminate|]. cbn [step]. rewrite Ew. reflexivity.
  - (* worker exited: quit is closed *)
    pose proof (I1 eq_refl) as Eq.
    destruct (first_unfinished 0 (callers s)) as [[i c]|] eqn:Ef.
    + apply first_unfinished_some in Ef as (_ & Hn & Hf). rewrite Nat.sub_0_r in Hn.
      right. unfold finished in Hf. destruct (cst c) eqn:Est.
      * destruct (prog c) as [|o rest] eqn:Ep; [discriminate|].
        exists (LStart i). eexists. split; [discriminate|]. cbn [step]. rewrite Hn, Est, Ep. reflexivity.
      * exists (LSendQuit i). eexists. split; [discriminate|]. cbn [step]. rewrite Hn, Est, Eq. reflexivity.
      * exists (LWaitQuit i). eexists. split; [discriminate|]. cbn [step]. rewrite Hn, Est, Eq. reflexivity.
    + apply first_unfinished_none in Ef.
      destruct (shut s) eqn:Es.
      * exfalso. destruct I2 as [I2a _]. apply (I2a Eq). reflexivity.
      * right. exists LShutStrandDone. eexists. split; [discriminate|]. cbn [step]. rewrite Es, Ew. reflexivity.
      * right. exists LShutListener. eexists. split; [discriminate|]. cbn [step]. rewrite Es. reflexivity.
      * right. exists LShutDisconnect. eexists. split; [discriminate|]. cbn [step]. rewrite Es. reflexivity.
      * right. destruct (run_done s) eqn:Er.
        -- exists LShutFinish. eexists. split; [discriminate|]. cbn [step]. rewrite Es, Er. reflexivity.
        -- exists LRunDone. eexists. split; [discriminate|]. cbn [step]. rewrite Ew, Eq, Er.
           rewrite (forallb_impl finished (fun c => negb (handler c) || finished c) _ ltac:(intros x Hx; cbn beta; rewrite Hx; apply orb_true_r) Ef).
           reflexivity.
      * left. unfold quiescent. rewrite Ef, Es. reflexivity.
Qed.

(* ---------- termination: every step decreases a measure ---------- *)

Definition caller_measure (c : caller) : nat :=
  4 * length (prog c) + match cst c with CIdle => 0 | CSend => 3 | CWait => 1 end.
Fixpoint callers_measure (l : list caller) : nat :=
  match l with [] => 0 | c :: r => caller_measure c + callers_measure r end.
Definition measure (s : state) : nat :=
  callers_measure (callers s)
  + match worker s with WNotStarted => 3 | WIdle => 1 | WRun _ _ _ => 2 | WExited => 0 end
  + match shut s with SNot => 5 | SQuitClosed => 4 | SListener => 3 | SDisconnect => 2 | SWaitDone => 1 | SFinished => 0 end
  + (if run_done s then 0 else 1).

Lemma callers_measure_upd f : forall l i c, nth_error l i = Some c ->
  (callers_measure (upd i f l) + caller_measure c = callers_measure l + caller_measure (f c))%nat.
Proof.
  induction l as [|x r IH]; intros i c H; destruct i; cbn [upd callers_measure nth_error] in *; try discriminate.
  - injection H as <-. lia.
  - specialize (IH i c H). lia.
Qed.

Lemma callers_measure_upd_same f : forall l i,
  (forall c, caller_measure (f c) = caller_measure c) -> callers_measure (upd i f l) = callers_measure l.
Proof.
  induction l as [|x r IH]; intros i H; destruct i; cbn [upd callers_measure]; try reflexivity.
  - rewrite H. reflexivity.
  - rewrite IH by exact H. reflexivity.
Qed.

Theorem step_decreases s l s' : step s l = Some s' -> (measure s' < measure s)%nat.
Proof.
  intros H. unfold measure.
  destruct l as [i|i|i|i|i| | | | | | | | | | ]; cbn [step] in H.
  - destruct (nth_error (callers s) i) as [c|] eqn:Ec; [|discriminate].
    destruct (cst c) eqn:Est; try discriminate. destruct (prog c) as [|o rest] eqn:Ep; [discriminate|].
    inv_some H. cbn.
    pose proof (callers_measure_upd (fun c => mkCaller (handler c) rest CSend o (S (reqno c)) false (results c)) _ _ _ Ec) as Hm.
    unfold caller_measure in Hm at 1 2. cbn in Hm. rewrite Est, Ep in Hm. cbn [length] in Hm. lia.
  - destruct (nth_error (callers s) i) as [c|] eqn:Ec; [|discriminate].
    destruct (worker s) eqn:Ew; try discriminate. destruct (cst c) eqn:Est; try discriminate.
    inv_some H. cbn.
    pose proof (callers_measure_upd (fun c => mkCaller (handler c) (prog c) CWait (cur c) (reqno c) false (results c)) _ _ _ Ec) as Hm.
    unfold caller_measure in Hm at 1 2. cbn in Hm. rewrite Est in Hm. lia.
  - destruct (nth_error (callers s) i) as [c|] eqn:Ec; [|discriminate].
    destruct (cst c) eqn:Est; try discriminate. destruct (quit s); [|discriminate].
    inv_some H. cbn.
    pose proof (callers_measure_upd (finish_call RClosed) _ _ _ Ec) as Hm.
    unfold caller_measure in Hm at 1 2. cbn in Hm. rewrite Est in Hm. lia.
  - destruct (nth_error (callers s) i) as [c|] eqn:Ec; [|discriminate].
    destruct (cst c) eqn:Est; try discriminate. destruct (reqdone c); [|discriminate].
    inv_some H. cbn.
    pose proof (callers_measure_upd (finish_call ROk) _ _ _ Ec) as Hm.
    unfold caller_measure in Hm at 1 2. cbn in Hm. rewrite Est in Hm. lia.
  - destruct (nth_error (callers s) i) as [c|] eqn:Ec; [|discriminate].
    destruct (cst c) eqn:Est; try discriminate. destruct (quit s); [|discriminate].
    inv_some H. cbn.
    pose proof (callers_measure_upd (finish_call RClosed) _ _ _ Ec) as Hm.
    unfold caller_measure in Hm at 1 2. cbn in Hm. rewrite Est in Hm. lia.
  - destruct (worker s) as [| |i n o|] eqn:Ew; try discriminate.
    inv_some H. cbn. rewrite callers_measure_upd_same; [lia|].
    intros c. unfold caller_measure. destruct (cst c) eqn:Est; rewrite ?Est; try reflexivity.
    destruct (Nat.eqb (reqno c) n); cbn [prog cst]; rewrite ?Est; reflexivity.
  - destruct (worker s) eqn:Ew; try discriminate. destruct (quit s); [|discriminate].
    inv_some H. cbn. lia.
  - destruct (shut s) eqn:Es; try discriminate. inv_some H. cbn. lia.
  - destruct (shut s) eqn:Es; try discriminate. destruct (worker s) eqn:Ew; try discriminate. inv_some H. cbn. rewrite ?Ew. lia.
  - destruct (shut s) eqn:Es; try discriminate. inv_some H. cbn. lia.
  - destruct (shut s) eqn:Es; try discriminate. inv_some H. cbn. lia.
  - (* LRunStart *) destruct (worker s) eqn:Ew; try discriminate. inv_some H. cbn. lia.
  - (* LRunFail *) destruct (worker s) eqn:Ew; try discriminate; destruct (run_done s) eqn:Er; try discriminate;
      inv_some H; cbn; rewrite ?Ew; lia.
  - destruct (worker s) eqn:Ew; try discriminate.
    destruct (quit s); cbn in H; [|discriminate]. destruct (run_done s) eqn:Er; cbn in H; [discriminate|].
    destruct (forallb (fun c => negb (handler c) || finished c) (callers s)); [|discriminate].
    inv_some H. cbn. rewrite ?Ew. lia.
  - destruct (shut s) eqn:Es; try discriminate. destruct (run_done s) eqn:Er; [|discriminate].
    inv_some H. cbn. rewrite ?Er. lia.
Qed.

(* every schedule is finite: no execution is longer than the initial measure *)
Theorem schedules_are_finite : forall ls s s', exec s ls = Some s' -> (length ls + measure s' <= measure s)%nat.
Proof.
  induction ls as [|l r IH]; intros s s' H; cbn [exec] in H.
  - injection H as <-. cbn. lia.
  - destruct (step s l) as [s1|] eqn:E; [|discriminate].
    apply step_decreases in E. specialize (IH s1 s' H). cbn [length]. lia.
Qed.

(* Run cannot return its listen error before the strand goroutine exists: whatever
   happens to Run, the goroutine that closes strandDone has been started *)
Theorem run_return_implies_strand_started s : reachable s -> run_done s = true -> worker s <> WNotStarted.
Proof. intros Hr. exact (inv_run_done s (reachable_inv s Hr)). Qed.
