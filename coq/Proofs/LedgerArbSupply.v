(* Proofs/LedgerArbSupply.v — C01 for histories executed by an arbitrating node. *)
From Sky Require Import Base.Uint Model.ArithSpec Gen.Mathutil Model.Ledger Model.LedgerSpec
  Proofs.UintLemmas Proofs.MathutilProofs Proofs.LedgerBasics Proofs.LedgerProofs Proofs.LedgerSupply
  Proofs.LedgerArb.
From Coq Require Import Lia ZifyBool Permutation.
Open Scope Z_scope.

Lemma set_txns_in_range b kept : block_in_range b -> incl kept (b_txns b) -> block_in_range (set_txns b kept).
Proof.
  unfold block_in_range. cbn [set_txns b_txns]. intros H Hi. rewrite Forall_forall in *. intros t Ht. apply H. apply Hi. assumption.
Qed.

(* ---- C01 on an arbitrating node *)
Lemma reachable_supply_arb g ops : genesis_wf g -> ops_in_range ops ->
  inv_supply (genesis_volume g) (run_arb (init_state g) ops).
Proof.
  intros Hg Ho. apply (run_arb_invariant (inv_supply (genesis_volume g)) block_in_range).
  - intros s b s' He Hq Hs.
    destruct (exec_arb_accept_inv _ _ _ He) as [head [rest [kept [spent [_ [_ [_ [_ [Hp [_ [_ [Hga [Hi Es]]]]]]]]]]]]].
    destruct (process_txns_arb_ok _ _ _ _ Hp) as [Hok Hinc]. subst s'.
    apply (apply_preserves_supply_ok _ _ _ head); try assumption.
    apply set_txns_in_range; assumption.
  - apply init_supply. assumption.
  - exact Ho.
Qed.
Lemma supply_conserved_arb g ops : genesis_wf g -> ops_in_range ops ->
  sumZ (map u_coins (utxo (run_arb (init_state g) ops))) = genesis_volume g.
Proof. intros Hg Ho. destruct (reachable_supply_arb g ops Hg Ho) as [_ [_ H]]. exact H. Qed.

(* the transactions an arbitrating node keeps are balanced and among the offered ones *)
Lemma kept_balanced_arb g ops b s' : genesis_wf g -> ops_in_range ops -> block_in_range b ->
  step_arb (run_arb (init_state g) ops) (ExecBlock b) = (s', Accepted) ->
  exists stored, chain s' = stored :: chain (run_arb (init_state g) ops) /\
    b_head stored = b_head b /\ b_hash stored = b_hash b /\ incl (b_txns stored) (b_txns b) /\
    Forall (fun t => exists uxin,
              get_array (t_ins t) (utxo (run_arb (init_state g) ops)) = Some uxin /\
              sumZ (map u_coins uxin) = sumZ (map o_coins (t_outs t)) /\
              0 <= sumZ (map u_coins uxin) < 2 ^ 64) (b_txns stored).
Proof.
  intros Hg Ho Hb He. cbn [step_arb] in He.
  destruct (reachable_supply_arb g ops Hg Ho) as [I1 [I2 I3]].
  destruct (exec_arb_accept_inv _ _ _ He) as [head [rest [kept [spent [_ [_ [_ [_ [Hp [_ [_ [_ [_ Es]]]]]]]]]]]]].
  destruct (process_txns_arb_ok _ _ _ _ Hp) as [[P1 _] Hinc].
  exists (set_txns b kept). subst s'. cbn [apply_block chain set_txns b_head b_hash b_txns].
  repeat split; try assumption.
  unfold block_in_range in Hb. rewrite Forall_forall in *. intros t Ht.
  destruct (block_txn_inv _ _ _ (P1 t Ht) (proj2 (Forall_forall _ _) I2) (Hb t (Hinc t Ht))) as [uxin [G1 [_ [_ [_ [C1 C2]]]]]].
  exists uxin. split; [assumption|]. split; [exact C1|exact C2].
Qed.

