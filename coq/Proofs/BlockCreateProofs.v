(* Proofs about Model/BlockCreate.v (property C05). *)
From Coq Require Import Lia ZifyBool Sorting.Permutation Sorting.Sorted.
From Sky Require Import Base.Uint Model.ArithSpec Gen.Mathutil Proofs.UintLemmas
  Proofs.MathutilProofs Model.BlockCreate.
Open Scope Z_scope.

(* ------------------------------------------------------------------ *)
(* 1. the order: (fee per kB descending, hash ascending) is a strict   *)
(*    total order on transactions with distinct hashes                 *)
(* ------------------------------------------------------------------ *)

Lemma txn_ltb_irrefl a : txn_ltb a a = false.
Proof. unfold txn_ltb. rewrite Z.eqb_refl. apply Z.ltb_irrefl. Qed.

Lemma txn_ltb_trans a b c : txn_ltb a b = true -> txn_ltb b c = true -> txn_ltb a c = true.
Proof.
  unfold txn_ltb. intros H1 H2.
  destruct (prio a =? prio b) eqn:E1; destruct (prio b =? prio c) eqn:E2;
    destruct (prio a =? prio c) eqn:E3; lia.
Qed.

Lemma txn_ltb_asym a b : txn_ltb a b = true -> txn_ltb b a = false.
Proof.
  unfold txn_ltb. intros H1.
  destruct (prio a =? prio b) eqn:E1; destruct (prio b =? prio a) eqn:E2; lia.
Qed.

Lemma txn_ltb_total a b : ph a <> ph b -> txn_ltb a b = true \/ txn_ltb b a = true.
Proof.
  unfold txn_ltb. intros H.
  destruct (prio a =? prio b) eqn:E1; destruct (prio b =? prio a) eqn:E2; lia.
Qed.

(* insertion sort on transactions by txn_ltb; the model sorts (priority, txn)
   entries by `less`, which is the same thing (isort_key) *)
Fixpoint tinsert (x : ptxn) (l : list ptxn) : list ptxn :=
  match l with
  | [] => [x]
  | y :: r => if txn_ltb y x then y :: tinsert x r else x :: y :: r
  end.
Definition tisort (l : list ptxn) : list ptxn := fold_right tinsert [] l.

Definition key (t : ptxn) : Z * ptxn := (prio t, t).

Lemma insert_key x l : insert (key x) (map key l) = map key (tinsert x l).
Proof.
  induction l as [|y r IH]; [reflexivity|].
  cbn [map insert tinsert]. change (less (key y) (key x)) with (txn_ltb y x).
  destruct (txn_ltb y x); cbn [map]; [rewrite IH|]; reflexivity.
Qed.

Lemma isort_key l : isort (map key l) = map key (tisort l).
Proof.
  induction l as [|x r IH]; [reflexivity|].
  cbn [map isort fold_right]. fold (isort (map key r)). rewrite IH.
  rewrite insert_key. reflexivity.
Qed.

Lemma map_snd_key l : map snd (map key l) = l.
Proof. induction l as [|x r IH]; [reflexivity|]. cbn [map key snd]. now rewrite IH. Qed.

Lemma tinsert_perm x l : Permutation (tinsert x l) (x :: l).
Proof.
  induction l as [|y r IH]; [apply Permutation_refl|].
  cbn [tinsert]. destruct (txn_ltb y x).
  - eapply perm_trans; [apply perm_skip, IH|apply perm_swap].
  - apply Permutation_refl.
Qed.

Lemma tisort_perm l : Permutation (tisort l) l.
Proof.
  induction l as [|x r IH]; [apply Permutation_refl|].
  cbn [tisort fold_right]. fold (tisort r).
  eapply perm_trans; [apply tinsert_perm|apply perm_skip, IH].
Qed.

Lemma tinsert_sorted x l :
  StronglySorted txn_lt l -> (forall y, In y l -> ph y <> ph x) ->
  StronglySorted txn_lt (tinsert x l).
Proof.
  induction l as [|y r IH]; intros Hs Hd.
  - cbn. constructor; constructor.
  - apply StronglySorted_inv in Hs. destruct Hs as [Hr Hy].
    cbn [tinsert]. destruct (txn_ltb y x) eqn:E.
    + constructor.
      * apply IH; [exact Hr|]. intros z Hz. apply Hd. now right.
      * rewrite Forall_forall. intros z Hz.
        apply (Permutation_in _ (tinsert_perm x r)) in Hz. destruct Hz as [<-|Hz]; [exact E|].
        rewrite Forall_forall in Hy. now apply Hy.
    + assert (Hxy : txn_ltb x y = true).
      { destruct (txn_ltb_total y x) as [H|H]; [apply Hd; now left|congruence|exact H]. }
      constructor; [constructor; assumption|].
      constructor; [exact Hxy|].
      rewrite Forall_forall in Hy |- *. intros z Hz.
      eapply txn_ltb_trans; [exact Hxy|]. now apply Hy.
Qed.

Lemma tisort_sorted l : NoDup (map ph l) -> StronglySorted txn_lt (tisort l).
Proof.
  induction l as [|x r IH]; intros Hnd; [constructor|].
  cbn [map] in Hnd. apply NoDup_cons_iff in Hnd. destruct Hnd as [Hx Hr].
  cbn [tisort fold_right]. fold (tisort r). apply tinsert_sorted; [now apply IH|].
  intros y Hy E. apply Hx. rewrite <- E. apply in_map.
  now apply (Permutation_in _ (tisort_perm r)).
Qed.

(* whatever (correct) sorting algorithm is used, the result is the same list *)
Lemma sorted_unique l1 : forall l2,
  StronglySorted txn_lt l1 -> StronglySorted txn_lt l2 -> Permutation l1 l2 -> l1 = l2.
Proof.
  induction l1 as [|a l1 IH]; intros l2 H1 H2 HP.
  - apply Permutation_nil in HP. now subst.
  - destruct l2 as [|b l2]; [apply Permutation_sym, Permutation_nil in HP; discriminate|].
    apply StronglySorted_inv in H1. destruct H1 as [H1 Ha].
    apply StronglySorted_inv in H2. destruct H2 as [H2 Hb].
    rewrite Forall_forall in Ha, Hb.
    assert (E : a = b).
    { assert (Ia : In a (b :: l2)) by (apply (Permutation_in _ HP); now left).
      assert (Ib : In b (a :: l1)) by (apply (Permutation_in _ (Permutation_sym HP)); now left).
      destruct Ia as [->|Ia]; [reflexivity|].
      destruct Ib as [->|Ib]; [reflexivity|].
      specialize (Ha _ Ib). specialize (Hb _ Ia). unfold txn_lt in *.
      apply txn_ltb_asym in Ha. congruence. }
    subst b. f_equal. apply IH; [assumption|assumption|].
    now apply Permutation_cons_inv in HP.
Qed.

Lemma tisort_unique l l' :
  NoDup (map ph l) -> Permutation l l' -> StronglySorted txn_lt l' -> tisort l = l'.
Proof.
  intros Hnd HP Hs. apply sorted_unique; [now apply tisort_sorted|exact Hs|].
  eapply perm_trans; [apply tisort_perm|exact HP].
Qed.

Lemma sorted_nodup_ph l : StronglySorted txn_lt l -> NoDup l.
Proof.
  induction 1 as [|a l Hs IH Ha]; constructor; [|exact IH].
  intros Hin. rewrite Forall_forall in Ha. specialize (Ha _ Hin).
  unfold txn_lt in Ha. now rewrite txn_ltb_irrefl in Ha.
Qed.

Lemma tisort_id l : StronglySorted txn_lt l -> tisort l = l.
Proof.
  induction 1 as [|a l Hs IH Ha]; [reflexivity|].
  cbn [tisort fold_right]. fold (tisort l). rewrite IH.
  destruct l as [|y r]; [reflexivity|].
  cbn [tinsert]. apply Forall_inv in Ha. unfold txn_lt in Ha.
  now rewrite (txn_ltb_asym _ _ Ha).
Qed.

(* ------------------------------------------------------------------ *)
(* 2. the stages of the model in closed form                           *)
(* ------------------------------------------------------------------ *)

Definition wf_txn (t : ptxn) : Prop :=
  0 < psize t < 2 ^ 32 /\ (forall f, pfee t = Some f -> in_u 64 f).
Definition wf_pool (pool : list ptxn) : Prop :=
  Forall wf_txn pool /\ NoDup (map ph pool).

Definition has_fee (t : ptxn) : bool := match pfee t with Some _ => true | None => false end.

Lemma nodup_z_spec l : nodup_z l = true <-> NoDup l.
Proof.
  induction l as [|x r IH]; cbn [nodup_z].
  - split; [constructor|reflexivity].
  - rewrite Bool.andb_true_iff, Bool.negb_true_iff, IH, NoDup_cons_iff.
    assert (H : existsb (Z.eqb x) r = false <-> ~ In x r).
    { split.
      - intros H Hin. assert (existsb (Z.eqb x) r = true); [|congruence].
        apply existsb_exists. exists x. split; [exact Hin|apply Z.eqb_refl].
      - intros H. destruct (existsb (Z.eqb x) r) eqn:E; [|reflexivity].
        apply existsb_exists in E. destruct E as [y [Hy E]]. apply Z.eqb_eq in E. now subst. }
    now rewrite H.
Qed.

Lemma wf_txn_b_spec t : wf_txn_b t = true <-> wf_txn t.
Proof.
  unfold wf_txn_b, wf_txn, in_ub, in_u. destruct (pfee t) as [f|].
  - split.
    + intros H. split; [lia|]. intros f' E. injection E as <-. lia.
    + intros [H1 H2]. specialize (H2 f eq_refl). lia.
  - split; [intros H; split; [lia|discriminate]|intros [H1 _]; lia].
Qed.

Lemma wf_pool_b_spec pool : wf_pool_b pool = true <-> wf_pool pool.
Proof.
  unfold wf_pool_b, wf_pool. rewrite Bool.andb_true_iff, nodup_z_spec, forallb_forall, Forall_forall.
  split; intros [H1 H2]; (split; [|exact H2]); intros t Ht; apply wf_txn_b_spec; now apply H1.
Qed.

Lemma fee_per_kb_spec f size : in_u 64 f -> 0 < size ->
  fee_per_kb f size = Val (Z.min (f * 1024) MaxUint64 / size).
Proof.
  intros Hf Hs. unfold fee_per_kb, fee_kb.
  rewrite MultUint64_spec by (unfold in_u in *; lia). unfold ret_or_err, MaxUint64.
  destruct (f * 1024 <? 2 ^ 64) eqn:E; rewrite !bind_val; cbn [snd fst is_err];
    rewrite udiv_nz by lia; f_equal; f_equal; lia.
Qed.

Lemma sortable_spec l : Forall wf_txn l ->
  sortable l = Val (map key (filter has_fee l)).
Proof.
  induction 1 as [|t r [Hs Hf] Hr IH]; [reflexivity|].
  cbn [sortable filter]. unfold has_fee at 1. destruct (pfee t) as [f|] eqn:E.
  - rewrite fee_per_kb_spec by (try apply Hf; auto; lia). rewrite bind_val, IH, bind_val.
    cbn [map]. unfold key at 2, prio. rewrite E. reflexivity.
  - exact IH.
Qed.

Lemma sort_txns_spec l : Forall wf_txn l -> sort_txns l = Val (tisort (filter has_fee l)).
Proof.
  intros H. unfold sort_txns. rewrite sortable_spec by exact H. rewrite bind_val.
  now rewrite isort_key, map_snd_key.
Qed.

(* TruncateBytesTo in closed form *)
Fixpoint cut (lim total : Z) (l : list ptxn) : list ptxn :=
  match l with
  | [] => []
  | t :: r =>
      if (total + psize t <? 2 ^ 32) && (total + psize t <=? lim)
      then t :: cut lim (total + psize t) r else []
  end.

Lemma truncate_spec lim l : forall total, Forall wf_txn l -> in_u 32 total ->
  truncate_bytes lim total l = Val (cut lim total l).
Proof.
  induction l as [|t r IH]; intros total Hwf Ht; [reflexivity|].
  apply Forall_cons_iff in Hwf. destruct Hwf as [[Hs _] Hr].
  cbn [truncate_bytes cut]. rewrite AddUint32_spec by (unfold in_u in *; lia).
  unfold ret_or_err. destruct (total + psize t <? 2 ^ 32) eqn:E1; rewrite bind_val; cbn [snd fst is_err andb].
  - destruct (total + psize t <=? lim) eqn:E2.
    + replace (total + psize t >? lim) with false by lia.
      rewrite IH by (auto; unfold in_u in *; lia). now rewrite bind_val.
    + now replace (total + psize t >? lim) with true by lia.
  - reflexivity.
Qed.

Lemma cut_prefix lim l : forall total, exists rest, l = cut lim total l ++ rest.
Proof.
  induction l as [|t r IH]; intros total; [now exists []|].
  cbn [cut]. destruct ((total + psize t <? 2 ^ 32) && (total + psize t <=? lim)).
  - destruct (IH (total + psize t)) as [rest E]. exists rest. cbn [app]. now rewrite <- E.
  - now exists (t :: r).
Qed.

Lemma cut_sum lim l : forall total, total <= lim -> total + sum_sizes (cut lim total l) <= lim.
Proof.
  induction l as [|t r IH]; intros total Ht; cbn [cut sum_sizes fold_right]; [lia|].
  destruct ((total + psize t <? 2 ^ 32) && (total + psize t <=? lim)) eqn:E.
  - cbn [sum_sizes fold_right]. fold (sum_sizes (cut lim (total + psize t) r)).
    specialize (IH (total + psize t)). lia.
  - cbn. lia.
Qed.

(* maximality: the first transaction left out does not fit *)
Lemma cut_maximal lim l : forall total u rest, lim < 2 ^ 32 ->
  l = cut lim total l ++ u :: rest ->
  lim < total + sum_sizes (cut lim total l) + psize u.
Proof.
  induction l as [|t r IH]; intros total u rest Hl E.
  - cbn in E. destruct (cut lim total []); discriminate.
  - cbn [cut] in *. destruct ((total + psize t <? 2 ^ 32) && (total + psize t <=? lim)) eqn:E1.
    + cbn [app] in E. injection E as E. cbn [sum_sizes fold_right].
      fold (sum_sizes (cut lim (total + psize t) r)).
      specialize (IH (total + psize t) u rest Hl E). lia.
    + cbn [app] in E. injection E as <- _. cbn [sum_sizes fold_right]. lia.
Qed.

Lemma take_z_prefix {A} (l : list A) : forall n, exists rest, l = take_z n l ++ rest.
Proof.
  induction l as [|x r IH]; intros n; [now exists []|].
  cbn [take_z]. destruct (n <=? 0).
  - now exists (x :: r).
  - destruct (IH (n - 1)) as [rest E]. exists rest. cbn [app]. now rewrite <- E.
Qed.

Lemma take_z_length {A} (l : list A) : forall n, 0 <= n -> Z.of_nat (List.length (take_z n l)) <= n.
Proof.
  induction l as [|x r IH]; intros n Hn; cbn [take_z]; [cbn; lia|].
  destruct (n <=? 0) eqn:E; [cbn; lia|].
  cbn [List.length]. specialize (IH (n - 1)). lia.
Qed.

(* what take_z leaves out lies beyond position n *)
Lemma take_z_full {A} (l : list A) : forall n x rest, 0 <= n ->
  l = take_z n l ++ x :: rest -> Z.of_nat (List.length (take_z n l)) = n.
Proof.
  induction l as [|y r IH]; intros n x rest Hn E.
  - cbn in E. discriminate.
  - cbn [take_z] in *. destruct (n <=? 0) eqn:E1.
    + cbn. lia.
    + cbn [app] in E. injection E as E. cbn [List.length].
      specialize (IH (n - 1) x rest ltac:(lia) E). lia.
Qed.

(* ------------------------------------------------------------------ *)
(* 3. list facts: sortedness / distinctness survive the stages         *)
(* ------------------------------------------------------------------ *)

Lemma sorted_filter f l : StronglySorted txn_lt l -> StronglySorted txn_lt (filter f l).
Proof.
  induction 1 as [|a l Hs IH Ha]; [constructor|].
  cbn [filter]. destruct (f a); [|exact IH].
  constructor; [exact IH|]. rewrite Forall_forall in *. intros x Hx.
  apply filter_In in Hx. now apply Ha.
Qed.

Lemma sorted_app_l l1 l2 : StronglySorted txn_lt (l1 ++ l2) -> StronglySorted txn_lt l1.
Proof.
  induction l1 as [|a l1 IH]; intros H; [constructor|].
  cbn [app] in H. apply StronglySorted_inv in H. destruct H as [H Ha].
  constructor; [now apply IH|]. rewrite Forall_forall in *. intros x Hx. apply Ha.
  apply in_or_app. now left.
Qed.

Lemma sorted_app_lt l1 l2 x y :
  StronglySorted txn_lt (l1 ++ l2) -> In x l1 -> In y l2 -> txn_ltb x y = true.
Proof.
  induction l1 as [|a l1 IH]; intros H Hx Hy; [destruct Hx|].
  cbn [app] in H. apply StronglySorted_inv in H. destruct H as [H Ha].
  destruct Hx as [->|Hx].
  - rewrite Forall_forall in Ha. apply Ha. apply in_or_app. now right.
  - now apply IH.
Qed.

Lemma nodup_map_filter f (l : list ptxn) : NoDup (map ph l) -> NoDup (map ph (filter f l)).
Proof.
  induction l as [|a l IH]; intros H; [constructor|].
  cbn [map] in H. apply NoDup_cons_iff in H. destruct H as [Ha Hl].
  cbn [filter]. destruct (f a); [|now apply IH].
  cbn [map]. constructor; [|now apply IH].
  intros Hin. apply Ha. apply in_map_iff in Hin. destruct Hin as [x [E Hx]].
  apply filter_In in Hx. apply in_map_iff. exists x. tauto.
Qed.

Lemma perm_filter f (l l' : list ptxn) : Permutation l l' -> Permutation (filter f l) (filter f l').
Proof.
  induction 1 as [|x l l' HP IH|x y l|l l' l'' H1 IH1 H2 IH2]; cbn [filter].
  - constructor.
  - destruct (f x); [now constructor|exact IH].
  - destruct (f x), (f y); try apply Permutation_refl. apply perm_swap.
  - eapply perm_trans; eassumption.
Qed.

Lemma perm_sum_sizes l l' : Permutation l l' -> sum_sizes l = sum_sizes l'.
Proof.
  unfold sum_sizes.
  induction 1 as [|x l l' HP IH|x y l|l l' l'' H1 IH1 H2 IH2]; cbn [fold_right]; lia.
Qed.

Lemma sum_sizes_cons a l : sum_sizes (a :: l) = psize a + sum_sizes l.
Proof. reflexivity. Qed.

Lemma sum_sizes_app l1 l2 : sum_sizes (l1 ++ l2) = sum_sizes l1 + sum_sizes l2.
Proof.
  induction l1 as [|a l1 IH]; [reflexivity|].
  cbn [app]. rewrite !sum_sizes_cons, IH. lia.
Qed.

Lemma sum_sizes_nonneg l : Forall wf_txn l -> 0 <= sum_sizes l.
Proof.
  induction 1 as [|a l [Ha _] Hl IH]; cbn [sum_sizes fold_right]; [lia|].
  fold (sum_sizes l). lia.
Qed.

Lemma sum_sizes_filter_le f l : Forall wf_txn l -> sum_sizes (filter f l) <= sum_sizes l.
Proof.
  induction 1 as [|a l [Ha _] Hl IH]; cbn [filter sum_sizes fold_right]; [lia|].
  fold (sum_sizes l). destruct (f a); cbn [sum_sizes fold_right]; fold (sum_sizes (filter f l)); lia.
Qed.

Lemma Forall_filter {A} (P : A -> Prop) f l : Forall P l -> Forall P (filter f l).
Proof.
  rewrite !Forall_forall. intros H x Hx. apply filter_In in Hx. now apply H.
Qed.

Lemma Forall_app_l {A} (P : A -> Prop) l1 l2 : Forall P (l1 ++ l2) -> Forall P l1.
Proof. rewrite !Forall_forall. intros H x Hx. apply H, in_or_app. now left. Qed.

Lemma nodup_app_l {A} (l1 l2 : list A) : NoDup (l1 ++ l2) -> NoDup l1.
Proof.
  induction l1 as [|a l1 IH]; intros H; [constructor|].
  cbn [app] in H. apply NoDup_cons_iff in H. destruct H as [Ha H].
  constructor; [|now apply IH]. intros Hin. apply Ha, in_or_app. now left.
Qed.

Lemma nodup_map_app_l (l1 l2 : list ptxn) : NoDup (map ph (l1 ++ l2)) -> NoDup (map ph l1).
Proof. rewrite map_app. apply nodup_app_l. Qed.

Lemma filter_filter {A} (f g : A -> bool) l :
  filter g (filter f l) = filter (fun x => f x && g x) l.
Proof.
  induction l as [|a l IH]; [reflexivity|]. cbn [filter].
  destruct (f a); cbn [filter andb]; [destruct (g a)|]; now rewrite IH.
Qed.

Lemma filter_id {A} (f : A -> bool) l : (forall x, In x l -> f x = true) -> filter f l = l.
Proof.
  induction l as [|a l IH]; intros H; [reflexivity|]. cbn [filter].
  rewrite (H a) by now left. f_equal. apply IH. intros x Hx. apply H. now right.
Qed.

(* ------------------------------------------------------------------ *)
(* 4. arbitration between conflicting transactions                     *)
(* ------------------------------------------------------------------ *)

Lemma shares_sym s t : shares s t = shares t s.
Proof.
  unfold shares. apply Bool.eq_true_iff_eq. rewrite !existsb_exists. split.
  - intros [a [Ha H]]. apply existsb_exists in H. destruct H as [b [Hb E]]. apply Z.eqb_eq in E. subst b.
    exists a. split; [exact Hb|]. apply existsb_exists. exists a. split; [exact Ha|apply Z.eqb_refl].
  - intros [a [Ha H]]. apply existsb_exists in H. destruct H as [b [Hb E]]. apply Z.eqb_eq in E. subst b.
    exists a. split; [exact Hb|]. apply existsb_exists. exists a. split; [exact Ha|apply Z.eqb_refl].
Qed.

Lemma existsb_false {A} (f : A -> bool) l : existsb f l = false <-> forall x, In x l -> f x = false.
Proof.
  split.
  - intros H x Hx. destruct (f x) eqn:E; [|reflexivity].
    assert (existsb f l = true) by (apply existsb_exists; eauto). congruence.
  - intros H. destruct (existsb f l) eqn:E; [|reflexivity].
    apply existsb_exists in E. destruct E as [x [Hx E]]. rewrite (H x Hx) in E. discriminate.
Qed.

Lemma arbitrate_in kept l t : In t (arbitrate kept l) -> In t l.
Proof.
  revert kept. induction l as [|a r IH]; intros kept H; [exact H|].
  cbn [arbitrate] in H. destruct (existsb (fun s => shares s a) kept).
  - right. eapply IH; eassumption.
  - destruct H as [->|H]; [now left|right; eapply IH; eassumption].
Qed.

Lemma arbitrate_sorted l : forall kept,
  StronglySorted txn_lt l -> StronglySorted txn_lt (arbitrate kept l).
Proof.
  induction l as [|a r IH]; intros kept H; [constructor|].
  apply StronglySorted_inv in H. destruct H as [Hr Ha].
  cbn [arbitrate]. destruct (existsb (fun s => shares s a) kept); [now apply IH|].
  constructor; [now apply IH|]. rewrite Forall_forall in *. intros x Hx.
  apply Ha. eapply arbitrate_in; eassumption.
Qed.

Lemma arbitrate_length l : forall kept, (List.length (arbitrate kept l) <= List.length l)%nat.
Proof.
  induction l as [|a r IH]; intros kept; cbn [arbitrate List.length]; [lia|].
  destruct (existsb (fun s => shares s a) kept); cbn [List.length].
  - specialize (IH kept). lia.
  - specialize (IH (a :: kept)). lia.
Qed.

Lemma arbitrate_sum l : forall kept, Forall wf_txn l -> sum_sizes (arbitrate kept l) <= sum_sizes l.
Proof.
  induction l as [|a r IH]; intros kept H; [cbn; lia|].
  apply Forall_cons_iff in H. destruct H as [[Ha _] Hr].
  cbn [arbitrate]. destruct (existsb (fun s => shares s a) kept); rewrite !sum_sizes_cons.
  - specialize (IH kept Hr). lia.
  - specialize (IH (a :: kept) Hr). lia.
Qed.

(* the result never conflicts with `kept` nor within itself *)
Lemma arbitrate_disjoint l : forall kept,
  (forall t s, In t (arbitrate kept l) -> In s kept -> shares s t = false) /\
  pairwise_disjoint (arbitrate kept l) = true.
Proof.
  induction l as [|a r IH]; intros kept; [split; [intros t s []|reflexivity]|].
  cbn [arbitrate]. destruct (existsb (fun s => shares s a) kept) eqn:E; [apply IH|].
  destruct (IH (a :: kept)) as [IH1 IH2]. split.
  - intros t s [<-|Ht] Hs.
    + rewrite existsb_false in E. now apply E.
    + apply IH1; [exact Ht|now right].
  - cbn [pairwise_disjoint]. rewrite IH2, Bool.andb_true_r.
    assert (H : forall l', (forall t, In t l' -> shares a t = false) -> disjoint_from a l' = true).
    { induction l' as [|b l' IHl]; intros H; [reflexivity|]. cbn [disjoint_from].
      rewrite (H b) by now left. cbn [negb andb]. apply IHl. intros t Ht. apply H. now right. }
    apply H. intros t Ht. apply IH1; [exact Ht|now left].
Qed.

(* the greedy choice, characterised: a candidate is included exactly when no
   included transaction that comes before it in the order conflicts with it *)
Lemma arbitrate_char l : forall kept t,
  StronglySorted txn_lt l -> In t l ->
  (In t (arbitrate kept l) <->
   (forall s, In s kept -> shares s t = false) /\
   (forall s, In s (arbitrate kept l) -> txn_ltb s t = true -> shares s t = false)).
Proof.
  induction l as [|a r IH]; intros kept t Hs Ht; [destruct Ht|].
  apply StronglySorted_inv in Hs. destruct Hs as [Hr Ha]. rewrite Forall_forall in Ha.
  assert (Hnotin : ~ In a r).
  { intros Hin. specialize (Ha _ Hin). unfold txn_lt in Ha. now rewrite txn_ltb_irrefl in Ha. }
  cbn [arbitrate]. destruct (existsb (fun s => shares s a) kept) eqn:E.
  - destruct Ht as [<-|Ht].
    + split.
      * intros Hin. apply arbitrate_in in Hin. contradiction.
      * intros [H1 _]. apply existsb_exists in E. destruct E as [s [Hs E]].
        rewrite (H1 s Hs) in E. discriminate.
    + now apply IH.
  - rewrite existsb_false in E. destruct Ht as [<-|Ht].
    + split; [intros _|intros _; now left]. split; [exact E|].
      intros s [<-|Hin] Hlt; [now rewrite txn_ltb_irrefl in Hlt|].
      apply arbitrate_in in Hin. specialize (Ha _ Hin). unfold txn_lt in Ha.
      apply txn_ltb_asym in Ha. congruence.
    + assert (Hat : txn_ltb a t = true) by (now apply Ha).
      assert (Hne : a <> t) by (intros ->; contradiction).
      specialize (IH (a :: kept) t Hr Ht). split.
      * intros [Hin|Hin]; [contradiction|]. apply IH in Hin. destruct Hin as [H1 H2]. split.
        -- intros s Hs. apply H1. now right.
        -- intros s [<-|Hs] Hlt; [apply H1; now left|now apply H2].
      * intros [H1 H2]. right. apply IH. split.
        -- intros s [<-|Hs]; [apply H2; [now left|exact Hat]|now apply H1].
        -- intros s Hs Hlt. apply H2; [now right|exact Hlt].
Qed.

Lemma disjoint_from_spec a l : disjoint_from a l = true <-> forall t, In t l -> shares a t = false.
Proof.
  induction l as [|b l IH]; cbn [disjoint_from].
  - split; [intros _ t []|reflexivity].
  - rewrite Bool.andb_true_iff, Bool.negb_true_iff, IH. split.
    + intros [H1 H2] t [<-|Ht]; auto.
    + intros H. split; [apply H; now left|intros t Ht; apply H; now right].
Qed.

(* arbitration leaves a conflict-free list alone (second processTransactions pass) *)
Lemma arbitrate_fix l : forall kept,
  (forall t s, In t l -> In s kept -> shares s t = false) ->
  pairwise_disjoint l = true -> arbitrate kept l = l.
Proof.
  induction l as [|a r IH]; intros kept Hk Hp; [reflexivity|].
  cbn [pairwise_disjoint] in Hp. apply Bool.andb_true_iff in Hp. destruct Hp as [Ha Hp].
  rewrite disjoint_from_spec in Ha.
  cbn [arbitrate]. replace (existsb (fun s => shares s a) kept) with false.
  - f_equal. apply IH; [|exact Hp]. intros t s Ht [<-|Hs]; [now apply Ha|].
    apply Hk; [now right|exact Hs].
  - symmetry. apply existsb_false. intros s Hs. apply Hk; [now left|exact Hs].
Qed.

Lemma pairwise_disjoint_spec l : pairwise_disjoint l = true ->
  forall l1 s l2 t l3, l = l1 ++ s :: l2 ++ t :: l3 -> shares s t = false.
Proof.
  induction l as [|a r IH]; intros Hp l1 s l2 t l3 E.
  - destruct l1; discriminate.
  - cbn [pairwise_disjoint] in Hp. apply Bool.andb_true_iff in Hp. destruct Hp as [Ha Hp].
    destruct l1 as [|b l1]; cbn [app] in E; injection E as -> E.
    + rewrite disjoint_from_spec in Ha. apply Ha. subst r. apply in_or_app. right. now left.
    + eapply IH; eassumption.
Qed.

(* ------------------------------------------------------------------ *)
(* 5. create_block in closed form                                      *)
(* ------------------------------------------------------------------ *)

Definition stageF (pool : list ptxn) := filter pok_create pool.
Definition stageS (pool : list ptxn) := tisort (filter has_fee (stageF pool)).
Definition stageT (mb : Z) (pool : list ptxn) := take_z MaxBlockTransactions (cut mb 0 (stageS pool)).
Definition stageC (mb : Z) (pool : list ptxn) := filter pok_block (stageT mb pool).
Definition stageB (mb : Z) (pool : list ptxn) := arbitrate [] (stageC mb pool).

Lemma Forall_perm {A} (P : A -> Prop) l l' : Permutation l l' -> Forall P l -> Forall P l'.
Proof.
  rewrite !Forall_forall. intros HP H x Hx. apply H.
  now apply (Permutation_in _ (Permutation_sym HP)).
Qed.

Lemma stageS_props pool : wf_pool pool ->
  StronglySorted txn_lt (stageS pool) /\ Forall wf_txn (stageS pool) /\
  NoDup (map ph (stageS pool)) /\
  (forall t, In t (stageS pool) <-> In t pool /\ pok_create t = true /\ has_fee t = true).
Proof.
  intros [Hwf Hnd]. unfold stageS, stageF.
  assert (Hnd' : NoDup (map ph (filter has_fee (filter pok_create pool))))
    by (now apply nodup_map_filter, nodup_map_filter).
  pose proof (tisort_perm (filter has_fee (filter pok_create pool))) as HP.
  split; [now apply tisort_sorted|]. split; [|split].
  - eapply Forall_perm; [apply Permutation_sym, HP|]. now apply Forall_filter, Forall_filter.
  - eapply Permutation_NoDup; [apply Permutation_map, Permutation_sym, HP|exact Hnd'].
  - intros t. split.
    + intros Ht. apply (Permutation_in _ HP) in Ht. apply filter_In in Ht. destruct Ht as [Ht Hf].
      apply filter_In in Ht. tauto.
    + intros [H1 [H2 H3]]. apply (Permutation_in _ (Permutation_sym HP)).
      apply filter_In. split; [|exact H3]. apply filter_In. tauto.
Qed.

Lemma stageT_prefix mb pool : exists rest, stageS pool = stageT mb pool ++ rest.
Proof.
  unfold stageT. destruct (cut_prefix mb (stageS pool) 0) as [r1 E1].
  destruct (take_z_prefix (cut mb 0 (stageS pool)) MaxBlockTransactions) as [r2 E2].
  exists (r2 ++ r1). rewrite app_assoc, <- E2. exact E1.
Qed.

Lemma stageT_props mb pool : wf_pool pool ->
  StronglySorted txn_lt (stageT mb pool) /\ Forall wf_txn (stageT mb pool) /\
  NoDup (map ph (stageT mb pool)) /\
  (forall t, In t (stageT mb pool) -> In t pool /\ pok_create t = true /\ has_fee t = true).
Proof.
  intros Hwf. destruct (stageS_props pool Hwf) as [Hs [Hw [Hn Hi]]].
  destruct (stageT_prefix mb pool) as [rest E]. rewrite E in Hs, Hw, Hn.
  split; [eapply sorted_app_l; eassumption|]. split; [eapply Forall_app_l; eassumption|].
  split; [eapply nodup_map_app_l; eassumption|].
  intros t Ht. apply Hi. rewrite E. apply in_or_app. now left.
Qed.

Lemma sort_txns_nice l : Forall wf_txn l -> StronglySorted txn_lt l ->
  (forall t, In t l -> has_fee t = true) -> sort_txns l = Val l.
Proof.
  intros Hw Hs Hf. rewrite sort_txns_spec by exact Hw.
  rewrite filter_id by exact Hf. now rewrite tisort_id.
Qed.

Lemma process_arb_nice l : Forall wf_txn l -> StronglySorted txn_lt l ->
  (forall t, In t l -> has_fee t = true) ->
  process_arb arbitrate l = Val (arbitrate [] (filter pok_block l)).
Proof.
  intros Hw Hs Hf. unfold process_arb. rewrite sort_txns_nice by assumption. now rewrite bind_val.
Qed.

Lemma stageB_props mb pool : wf_pool pool ->
  StronglySorted txn_lt (stageB mb pool) /\ Forall wf_txn (stageB mb pool) /\
  pairwise_disjoint (stageB mb pool) = true /\
  (forall t, In t (stageB mb pool) -> In t (stageC mb pool)) /\
  (forall t, In t (stageC mb pool) -> In t (stageT mb pool) /\ pok_block t = true).
Proof.
  intros Hwf. destruct (stageT_props mb pool Hwf) as [Hs [Hw [Hn Hi]]].
  unfold stageB, stageC. split; [now apply arbitrate_sorted, sorted_filter|].
  split.
  - rewrite Forall_forall in *. intros t Ht. apply arbitrate_in, filter_In in Ht. now apply Hw.
  - split; [apply arbitrate_disjoint|]. split.
    + intros t. apply arbitrate_in.
    + intros t Ht. now apply filter_In in Ht.
Qed.

(* the second processTransactions pass (DebugLevel2) changes nothing *)
Lemma process_arb_idem mb pool : wf_pool pool ->
  process_arb arbitrate (stageB mb pool) = Val (stageB mb pool).
Proof.
  intros Hwf. destruct (stageB_props mb pool Hwf) as [Hs [Hw [Hd [Hc Hc']]]].
  destruct (stageT_props mb pool Hwf) as [_ [_ [_ Hi]]].
  rewrite process_arb_nice; [|exact Hw|exact Hs|].
  - rewrite filter_id by (intros t Ht; now apply Hc' , Hc).
    f_equal. apply arbitrate_fix; [intros t s _ []|exact Hd].
  - intros t Ht. now apply Hi, Hc', Hc.
Qed.

Lemma candidates_spec mb pool : wf_pool pool -> candidates mb pool = Val (stageC mb pool).
Proof.
  intros Hwf. destruct (stageS_props pool Hwf) as [_ [Hw _]].
  unfold candidates. rewrite sort_txns_spec by (apply Forall_filter, Hwf).
  rewrite bind_val. fold (stageF pool). fold (stageS pool).
  rewrite truncate_spec by (auto; unfold in_u; lia). now rewrite bind_val.
Qed.

Lemma new_block_unfold arb l : l <> [] ->
  new_block arb l =
  bind (process_arb arb l) (fun ptx =>
  match ptx with
  | [] => Val (inr EmptyBlock)
  | _ => bind (fees_total 0 ptx) (fun ft =>
         match ft with
         | None => Val (inr FeesInvalid)
         | Some _ => bind (process_arb arb ptx) (fun ptx2 => Val (inl ptx2))
         end)
  end).
Proof. destruct l; [congruence|reflexivity]. Qed.

Lemma create_unfold arb mb pool : pool <> [] -> filter pok_create pool <> [] ->
  create arb mb pool =
  bind (sort_txns (filter pok_create pool)) (fun sorted =>
  bind (truncate_bytes mb 0 sorted) (fun tr =>
  match take_z MaxBlockTransactions tr with
  | [] => Panic
  | _ => new_block arb (take_z MaxBlockTransactions tr)
  end)).
Proof.
  destruct pool as [|p0 pool']; [congruence|]. intros _ H. unfold create.
  destruct (filter pok_create (p0 :: pool')) eqn:E; [congruence|].
  destruct (sort_txns (p :: l)) as [|sorted]; [reflexivity|]. cbn [bind].
  destruct (truncate_bytes mb 0 sorted) as [|tr]; [reflexivity|]. cbn [bind].
  destruct (take_z MaxBlockTransactions tr); reflexivity.
Qed.

Definition is_nil {A} (l : list A) : bool := match l with [] => true | _ => false end.

Lemma fees_total_nopanic l : forall total, Forall wf_txn l -> in_u 64 total ->
  fees_total total l <> Panic.
Proof.
  induction l as [|t r IH]; intros total Hw Ht; [discriminate|].
  apply Forall_cons_iff in Hw. destruct Hw as [[_ Hf] Hr].
  cbn [fees_total]. destruct (pfee t) as [f|] eqn:E; [|discriminate].
  rewrite AddUint64_spec by (auto; apply Hf; reflexivity). unfold ret_or_err.
  destruct (total + f <? 2 ^ 64) eqn:E1; rewrite bind_val; cbn [snd fst is_err]; [|discriminate].
  apply IH; [exact Hr|]. specialize (Hf f eq_refl). unfold in_u in *. lia.
Qed.

(* every outcome of create_block, in closed form *)
Lemma create_block_closed mb pool : wf_pool pool ->
  create_block mb pool =
  if is_nil pool then Val (inr NoTxns)
  else if is_nil (stageF pool) then Val (inr NoTxnsAfterFilter)
  else if is_nil (stageT mb pool) then Panic
  else if is_nil (stageB mb pool) then Val (inr EmptyBlock)
  else match fees_total 0 (stageB mb pool) with
       | Panic => Panic
       | Val None => Val (inr FeesInvalid)
       | Val (Some _) => Val (inl (stageB mb pool))
       end.
Proof.
  intros Hwf. destruct (stageS_props pool Hwf) as [_ [HwS _]].
  destruct (stageT_props mb pool Hwf) as [HsT [HwT [_ HiT]]].
  unfold create_block.
  destruct (is_nil pool) eqn:Ep; [destruct pool; [reflexivity|discriminate]|].
  assert (Hp : pool <> []) by (intros ->; discriminate).
  destruct (is_nil (stageF pool)) eqn:EF.
  { unfold stageF in EF. destruct pool; [congruence|]. unfold create.
    destruct (filter pok_create (p :: pool)); [reflexivity|discriminate]. }
  assert (HF : filter pok_create pool <> []) by (intros E; unfold stageF in EF; rewrite E in EF; discriminate).
  rewrite create_unfold by assumption.
  rewrite sort_txns_spec by (apply Forall_filter, Hwf).
  rewrite bind_val. fold (stageF pool). fold (stageS pool).
  rewrite truncate_spec by (auto; unfold in_u; lia). rewrite bind_val.
  fold (stageT mb pool).
  destruct (is_nil (stageT mb pool)) eqn:ET; [destruct (stageT mb pool); [reflexivity|discriminate]|].
  assert (HT : stageT mb pool <> []) by (intros E; rewrite E in ET; discriminate).
  replace (match stageT mb pool with [] => Panic | _ => new_block arbitrate (stageT mb pool) end)
    with (new_block arbitrate (stageT mb pool)) by (destruct (stageT mb pool); congruence).
  rewrite new_block_unfold by exact HT.
  rewrite process_arb_nice; [|exact HwT|exact HsT|intros t Ht; now apply HiT].
  rewrite bind_val. fold (stageC mb pool). fold (stageB mb pool).
  pose proof (process_arb_idem mb pool Hwf) as Hidem.
  destruct (is_nil (stageB mb pool)) eqn:EB; [destruct (stageB mb pool); [reflexivity|discriminate]|].
  replace (match stageB mb pool with
           | [] => Val (inr EmptyBlock)
           | _ => bind (fees_total 0 (stageB mb pool)) (fun ft =>
                  match ft with
                  | None => Val (inr FeesInvalid)
                  | Some _ => bind (process_arb arbitrate (stageB mb pool)) (fun ptx2 => Val (inl ptx2))
                  end)
           end)
    with (bind (fees_total 0 (stageB mb pool)) (fun ft =>
                  match ft with
                  | None => Val (inr FeesInvalid)
                  | Some _ => bind (process_arb arbitrate (stageB mb pool)) (fun ptx2 => Val (inl ptx2))
                  end)) by (destruct (stageB mb pool); [discriminate|reflexivity]).
  destruct (fees_total 0 (stageB mb pool)) as [|[tot|]]; cbn [bind]; try reflexivity.
  rewrite Hidem. reflexivity.
Qed.

Lemma create_block_ret mb pool b : wf_pool pool ->
  create_block mb pool = Val (inl b) -> b = stageB mb pool /\ b <> [].
Proof.
  intros Hwf H. rewrite create_block_closed in H by exact Hwf.
  destruct (is_nil pool); [discriminate|]. destruct (is_nil (stageF pool)); [discriminate|].
  destruct (is_nil (stageT mb pool)); [discriminate|].
  destruct (stageB mb pool) as [|b0 B'] eqn:EB; cbn [is_nil] in H; [discriminate|].
  destruct (fees_total 0 (b0 :: B')) as [|[tot|]]; try discriminate.
  injection H as <-. split; [reflexivity|discriminate].
Qed.

(* ------------------------------------------------------------------ *)
(* 6. the property                                                     *)
(* ------------------------------------------------------------------ *)

Lemma in_stageB mb pool t : wf_pool pool -> In t (stageB mb pool) ->
  In t pool /\ pok_create t = true /\ pok_block t = true /\ has_fee t = true /\ In t (stageT mb pool).
Proof.
  intros Hwf Ht. destruct (stageB_props mb pool Hwf) as [_ [_ [_ [H1 H2]]]].
  destruct (stageT_props mb pool Hwf) as [_ [_ [_ H3]]].
  apply H1, H2 in Ht. destruct Ht as [Ht Hb]. destruct (H3 _ Ht) as [? [? ?]]. tauto.
Qed.

Lemma created_from_pool_l mb pool b : wf_pool pool -> create_block mb pool = Val (inl b) ->
  forall t, In t b -> In t pool.
Proof.
  intros Hwf H t Ht. apply create_block_ret in H; [|exact Hwf]. destruct H as [-> _].
  now apply (in_stageB mb pool t Hwf).
Qed.

Lemma created_all_valid_l mb pool b : wf_pool pool -> create_block mb pool = Val (inl b) ->
  forall t, In t b -> pok_create t = true /\ pok_block t = true /\ pfee t <> None.
Proof.
  intros Hwf H t Ht. apply create_block_ret in H; [|exact Hwf]. destruct H as [-> _].
  destruct (in_stageB mb pool t Hwf Ht) as [_ [H1 [H2 [H3 _]]]]. repeat split; try assumption.
  unfold has_fee in H3. destruct (pfee t); [discriminate|discriminate H3].
Qed.

Lemma created_sorted_l mb pool b : wf_pool pool -> create_block mb pool = Val (inl b) ->
  StronglySorted txn_lt b.
Proof.
  intros Hwf H. apply create_block_ret in H; [|exact Hwf]. destruct H as [-> _].
  apply (stageB_props mb pool Hwf).
Qed.

Lemma cut_neg lim total l : lim < total -> Forall wf_txn l -> cut lim total l = [].
Proof.
  intros H Hw. destruct l as [|t r]; [reflexivity|]. apply Forall_inv in Hw. destruct Hw as [Hs _].
  cbn [cut]. replace (total + psize t <=? lim) with false by lia. now rewrite Bool.andb_false_r.
Qed.

Lemma filter_length_le' {A} (f : A -> bool) l : (List.length (filter f l) <= List.length l)%nat.
Proof.
  induction l as [|a l IH]; cbn [filter List.length]; [lia|]. destruct (f a); cbn [List.length]; lia.
Qed.

Lemma stageT_size mb pool : wf_pool pool ->
  sum_sizes (stageT mb pool) <= Z.max mb 0 /\
  Z.of_nat (List.length (stageT mb pool)) <= MaxBlockTransactions.
Proof.
  intros Hwf. destruct (stageS_props pool Hwf) as [_ [HwS _]]. split.
  - unfold stageT. destruct (Z_lt_le_dec mb 0) as [Hneg|Hpos].
    + rewrite cut_neg by (auto; lia). cbn. lia.
    + pose proof (cut_sum mb (stageS pool) 0 Hpos) as Hc.
      destruct (take_z_prefix (cut mb 0 (stageS pool)) MaxBlockTransactions) as [r2 E2].
      destruct (cut_prefix mb (stageS pool) 0) as [r1 E1].
      assert (Hw2 : Forall wf_txn r2).
      { rewrite E1 in HwS. apply Forall_app_l in HwS. rewrite E2 in HwS.
        rewrite Forall_forall in *. intros x Hx. apply HwS, in_or_app. now right. }
      rewrite E2, sum_sizes_app in Hc. pose proof (sum_sizes_nonneg _ Hw2). lia.
  - apply take_z_length. unfold MaxBlockTransactions. lia.
Qed.

Lemma created_size_l mb pool b : wf_pool pool -> create_block mb pool = Val (inl b) ->
  sum_sizes b <= mb /\ Z.of_nat (List.length b) <= MaxBlockTransactions.
Proof.
  intros Hwf H. apply create_block_ret in H; [|exact Hwf]. destruct H as [-> Hne].
  destruct (stageT_props mb pool Hwf) as [_ [HwT _]].
  destruct (stageT_size mb pool Hwf) as [H1 H2].
  assert (Hsum : sum_sizes (stageB mb pool) <= sum_sizes (stageT mb pool)).
  { unfold stageB, stageC. etransitivity; [apply arbitrate_sum; now apply Forall_filter|].
    now apply sum_sizes_filter_le. }
  assert (Hlen : (List.length (stageB mb pool) <= List.length (stageT mb pool))%nat).
  { unfold stageB, stageC. etransitivity; [apply arbitrate_length|apply filter_length_le']. }
  split; [|lia].
  destruct (Z_lt_le_dec mb 0) as [Hneg|Hpos]; [|lia].
  (* a negative limit cuts everything: no block *)
  exfalso. apply Hne. unfold stageB, stageC, stageT.
  destruct (stageS_props pool Hwf) as [_ [HwS _]].
  rewrite cut_neg by (auto; lia). reflexivity.
Qed.

Lemma nodup_ph_inj pool : NoDup (map ph pool) ->
  forall s t, In s pool -> In t pool -> ph s = ph t -> s = t.
Proof.
  induction pool as [|a l IH]; intros Hnd s t Hs Ht E; [destruct Hs|].
  cbn [map] in Hnd. apply NoDup_cons_iff in Hnd. destruct Hnd as [Ha Hl].
  destruct Hs as [<-|Hs], Ht as [<-|Ht]; [reflexivity| | |now apply IH].
  - exfalso. apply Ha. rewrite E. now apply in_map.
  - exfalso. apply Ha. rewrite <- E. now apply in_map.
Qed.

Lemma nodup_map_on {A B} (f : A -> B) l : NoDup l ->
  (forall s t, In s l -> In t l -> f s = f t -> s = t) -> NoDup (map f l).
Proof.
  induction 1 as [|a l Ha Hl IH]; intros Hinj; [constructor|].
  cbn [map]. constructor.
  - intros Hin. apply in_map_iff in Hin. destruct Hin as [x [E Hx]].
    assert (x = a) by (apply Hinj; [now right|now left|exact E]). subst x. contradiction.
  - apply IH. intros s t Hs Ht. apply Hinj; now right.
Qed.

(* the independent follower's transaction checks (strict processTransactions) pass *)
Lemma created_accepted_l mb pool b : wf_pool pool -> create_block mb pool = Val (inl b) ->
  follower_accepts b = true.
Proof.
  intros Hwf H. apply create_block_ret in H; [|exact Hwf]. destruct H as [-> Hne].
  destruct (stageB_props mb pool Hwf) as [Hs [_ [Hd _]]].
  unfold follower_accepts. destruct (stageB mb pool) as [|b0 B'] eqn:EB; [congruence|]. rewrite <- EB in *.
  rewrite Hd, Bool.andb_true_r. apply Bool.andb_true_iff. split.
  - apply forallb_forall. intros t Ht. now apply (in_stageB mb pool t Hwf).
  - apply nodup_z_spec. apply nodup_map_on; [now apply sorted_nodup_ph|].
    intros s t Hs' Ht'. apply (nodup_ph_inj pool (proj2 Hwf)); now apply (in_stageB mb pool _ Hwf).
Qed.

(* conflict choice: among the candidates (valid, inside the cut), a transaction
   is in the block exactly when no transaction of the block that comes before
   it in the order spends one of its inputs *)
Lemma conflict_choice_l mb pool b : wf_pool pool -> create_block mb pool = Val (inl b) ->
  exists c, candidates mb pool = Val c /\
    (forall t, In t b -> In t c) /\
    (forall t, In t c ->
       (In t b <-> forall s, In s b -> txn_lt s t -> shares s t = false)).
Proof.
  intros Hwf H. apply create_block_ret in H; [|exact Hwf]. destruct H as [-> _].
  exists (stageC mb pool). split; [now apply candidates_spec|].
  destruct (stageB_props mb pool Hwf) as [_ [_ [_ [H1 _]]]]. split; [exact H1|].
  intros t Ht. destruct (stageT_props mb pool Hwf) as [HsT _].
  pose proof (arbitrate_char (stageC mb pool) [] t (sorted_filter _ _ HsT) Ht) as Hc.
  fold (stageB mb pool) in Hc. rewrite Hc. split.
  - intros [_ H2]. exact H2.
  - intros H2. split; [intros s []|exact H2].
Qed.

(* a candidate that is left out lost to an included transaction that comes first *)
Lemma conflict_loser_l mb pool b c t : wf_pool pool -> create_block mb pool = Val (inl b) ->
  candidates mb pool = Val c -> In t c -> ~ In t b ->
  exists s, In s b /\ txn_lt s t /\ shares s t = true.
Proof.
  intros Hwf H Hc Ht Hn. destruct (conflict_choice_l mb pool b Hwf H) as [c' [Hc' [_ Hch]]].
  rewrite Hc in Hc'. injection Hc' as <-.
  destruct (existsb (fun s => txn_ltb s t && shares s t) b) eqn:E.
  - apply existsb_exists in E. destruct E as [s [Hs E]]. apply Bool.andb_true_iff in E.
    exists s. unfold txn_lt. tauto.
  - exfalso. apply Hn. apply Hch; [exact Ht|]. intros s Hs Hlt.
    rewrite existsb_false in E. specialize (E s Hs). unfold txn_lt in Hlt. rewrite Hlt in E. exact E.
Qed.

(* of two conflicting candidates the later one is never included together with the earlier *)
Lemma conflict_first_wins_l mb pool b c s t : wf_pool pool -> create_block mb pool = Val (inl b) ->
  candidates mb pool = Val c -> In t c -> In s b -> txn_lt s t -> shares s t = true -> ~ In t b.
Proof.
  intros Hwf H Hc Ht Hs Hlt Hsh Hin. destruct (conflict_choice_l mb pool b Hwf H) as [c' [Hc' [_ Hch]]].
  rewrite Hc in Hc'. injection Hc' as <-.
  pose proof (proj1 (Hch t Ht) Hin) as Hall. rewrite (Hall s Hs Hlt) in Hsh. discriminate.
Qed.

Lemma conflict_at_most_one_l mb pool b s t : wf_pool pool -> create_block mb pool = Val (inl b) ->
  s <> t -> shares s t = true -> ~ (In s b /\ In t b).
Proof.
  intros Hwf H Hne Hsh [Hs Ht].
  destruct (conflict_choice_l mb pool b Hwf H) as [c [Hc [Hbc Hch]]].
  assert (Hph : ph s <> ph t).
  { intros E. apply Hne. apply (nodup_ph_inj pool (proj2 Hwf)); [| |exact E];
      eapply created_from_pool_l; eassumption. }
  destruct (txn_ltb_total s t Hph) as [Hlt|Hlt].
  - eapply (conflict_first_wins_l mb pool b c s t); eauto.
  - rewrite shares_sym in Hsh. eapply (conflict_first_wins_l mb pool b c t s); eauto.
Qed.

(* "exactly one of them is included and it is the one that comes first": for two
   conflicting candidates s before t, where s itself is not beaten by an earlier
   candidate, s is in the block and t is not *)
Lemma conflict_exactly_first_l mb pool b c s t : wf_pool pool -> create_block mb pool = Val (inl b) ->
  candidates mb pool = Val c -> In s c -> In t c -> txn_lt s t -> shares s t = true ->
  (forall u, In u c -> txn_lt u s -> shares u s = false) ->
  In s b /\ ~ In t b.
Proof.
  intros Hwf H Hc Hs Ht Hlt Hsh Hfree.
  destruct (conflict_choice_l mb pool b Hwf H) as [c' [Hc' [Hbc Hch]]].
  rewrite Hc in Hc'. injection Hc' as <-.
  assert (Hin : In s b).
  { apply Hch; [exact Hs|]. intros u Hu Hlu. apply Hfree; [now apply Hbc|exact Hlu]. }
  split; [exact Hin|]. eapply conflict_first_wins_l; eauto.
Qed.

(* ------------------------------------------------------------------ *)
(* 7. what was wrong before the fix of F19                             *)
(* ------------------------------------------------------------------ *)

Definition f19_A := mkP 1 (Some 300) 100 [1; 2] true true.
Definition f19_B := mkP 2 (Some 200) 100 [2; 3] true true.
Definition f19_C := mkP 3 (Some 100) 100 [3; 4] true true.

(* with the pairwise loop as it was, the conflict chain A-B-C gives the block
   [A]: C is a candidate, is left out, and conflicts with nothing in the block *)
Lemma conflict_choice_f19_refuted_l :
  exists mb pool b c t,
    wf_pool_b pool = true /\ create_block_f19 mb pool = Val (inl b) /\
    candidates mb pool = Val c /\ In t c /\ ~ In t b /\
    (forall s, In s b -> shares s t = false).
Proof.
  exists 1000, [f19_A; f19_B; f19_C], [f19_A], [f19_A; f19_B; f19_C], f19_C.
  split; [vm_compute; reflexivity|]. split; [vm_compute; reflexivity|].
  split; [vm_compute; reflexivity|]. split; [cbn; tauto|]. split.
  - intros [H|[]]. discriminate H.
  - intros s [<-|[]]. vm_compute. reflexivity.
Qed.

(* the same pool with the loop as it is now *)
Lemma f19_fixed_example :
  create_block 1000 [f19_A; f19_B; f19_C] = Val (inl [f19_A; f19_C]).
Proof. vm_compute. reflexivity. Qed.

(* ------------------------------------------------------------------ *)
(* 8. determinism and totality                                         *)
(* ------------------------------------------------------------------ *)

Lemma is_nil_perm {A} (l l' : list A) : Permutation l l' -> is_nil l = is_nil l'.
Proof.
  intros HP. destruct l, l'; try reflexivity.
  - apply Permutation_nil in HP. discriminate.
  - apply Permutation_sym, Permutation_nil in HP. discriminate.
Qed.

Lemma wf_pool_perm pool pool' : Permutation pool pool' -> wf_pool pool -> wf_pool pool'.
Proof.
  intros HP [H1 H2]. split; [eapply Forall_perm; eassumption|].
  eapply Permutation_NoDup; [apply Permutation_map, HP|exact H2].
Qed.

Lemma stageS_perm pool pool' : Permutation pool pool' -> wf_pool pool -> stageS pool = stageS pool'.
Proof.
  intros HP Hwf. pose proof (wf_pool_perm _ _ HP Hwf) as Hwf'.
  destruct (stageS_props pool' Hwf') as [Hs' _].
  unfold stageS at 1. apply tisort_unique.
  - apply nodup_map_filter, nodup_map_filter, Hwf.
  - unfold stageS, stageF. eapply perm_trans; [|apply Permutation_sym, tisort_perm].
    now apply perm_filter, perm_filter.
  - exact Hs'.
Qed.

(* the block depends only on the SET of pooled transactions, not on the order
   in which the pool lists them nor on the sorting algorithm *)
Lemma create_deterministic_l mb pool pool' : Permutation pool pool' -> wf_pool pool ->
  create_block mb pool = create_block mb pool'.
Proof.
  intros HP Hwf. pose proof (wf_pool_perm _ _ HP Hwf) as Hwf'.
  rewrite !create_block_closed by assumption.
  rewrite (is_nil_perm _ _ HP).
  rewrite (is_nil_perm (stageF pool) (stageF pool')) by (now apply perm_filter).
  unfold stageB, stageC, stageT. now rewrite (stageS_perm _ _ HP Hwf).
Qed.

(* under the configuration invariant checked by visor.Config.Verify
   (MaxBlockTransactionsSize >= CreateBlockVerifyTxn.MaxTransactionSize, so every
   creation-valid transaction fits a block) block creation never panics *)
Lemma create_no_panic_l mb pool : wf_pool pool ->
  (forall t, In t pool -> pok_create t = true -> has_fee t = true /\ psize t <= mb) ->
  create_block mb pool <> Panic.
Proof.
  intros Hwf Hfit. rewrite create_block_closed by exact Hwf.
  destruct (is_nil pool); [discriminate|].
  destruct (is_nil (stageF pool)) eqn:EF; [discriminate|].
  destruct (stageS_props pool Hwf) as [_ [HwS [_ HiS]]].
  assert (HT : is_nil (stageT mb pool) = false).
  { destruct (stageF pool) as [|f0 F'] eqn:EF'; [discriminate|].
    assert (Hin : In f0 (stageS pool)).
    { apply HiS. assert (Hf : In f0 (stageF pool)) by (rewrite EF'; now left).
      unfold stageF in Hf. apply filter_In in Hf. destruct Hf as [Hf Hc].
      split; [exact Hf|]. split; [exact Hc|]. now apply Hfit. }
    unfold stageT. destruct (stageS pool) as [|t0 S']; [destruct Hin|].
    destruct (proj1 (HiS t0) (or_introl eq_refl)) as [Hp [Hc _]].
    destruct (Hfit t0 Hp Hc) as [_ Hsz].
    apply Forall_inv in HwS. destruct HwS as [Hs0 _].
    cbn [cut]. replace ((0 + psize t0 <? 2 ^ 32) && (0 + psize t0 <=? mb)) with true by lia.
    reflexivity. }
  rewrite HT. destruct (is_nil (stageB mb pool)); [discriminate|].
  destruct (stageB_props mb pool Hwf) as [_ [HwB _]].
  pose proof (fees_total_nopanic (stageB mb pool) 0 HwB) as Hnp.
  destruct (fees_total 0 (stageB mb pool)) as [|[tot|]]; try discriminate.
  exfalso. apply Hnp; [unfold in_u; lia|reflexivity].
Qed.

(* ------------------------------------------------------------------ *)
(* 9. the model's block satisfies the decidable specification that the *)
(*    check evaluates on the implementation's block (block_spec_b)     *)
(* ------------------------------------------------------------------ *)

Lemma split_pos {A} (a1 : list A) : forall l t a2 b1 b2,
  l = a1 ++ t :: a2 -> l = b1 ++ b2 ->
  (exists m, b1 = a1 ++ t :: m /\ a2 = m ++ b2) \/
  (exists m, a1 = b1 ++ m /\ b2 = m ++ t :: a2).
Proof.
  induction a1 as [|x a1 IH]; intros l t a2 b1 b2 E1 E2.
  - cbn [app] in E1. destruct b1 as [|y b1]; cbn [app] in E2.
    + right. exists []. split; [reflexivity|]. cbn [app]. congruence.
    + left. subst l. injection E2 as <- ->. exists b1. split; reflexivity.
  - cbn [app] in E1. destruct b1 as [|y b1]; cbn [app] in E2.
    + right. exists (x :: a1). split; [reflexivity|]. cbn [app]. congruence.
    + subst l. injection E2 as <- E2.
      destruct (IH _ t a2 b1 b2 eq_refl E2) as [[m [H1 H2]]|[m [H1 H2]]].
      * left. exists m. split; [cbn [app]; now rewrite H1|exact H2].
      * right. exists m. split; [cbn [app]; now rewrite H1|exact H2].
Qed.

Lemma sorted_b_spec l : StronglySorted txn_lt l -> sorted_b l = true.
Proof.
  induction 1 as [|a l Hs IH Ha]; [reflexivity|]. cbn [sorted_b]. rewrite IH, Bool.andb_true_r.
  apply forallb_forall. rewrite Forall_forall in Ha. exact Ha.
Qed.

Lemma follower_accepts_inv b : follower_accepts b = true ->
  b <> [] /\ forallb pok_block b = true /\ nodup_z (map ph b) = true /\ pairwise_disjoint b = true.
Proof.
  unfold follower_accepts. destruct b as [|b0 b']; [discriminate|]. intros H.
  apply Bool.andb_true_iff in H. destruct H as [H H3].
  apply Bool.andb_true_iff in H. destruct H as [H1 H2].
  repeat split; try assumption. discriminate.
Qed.

Section Spec.
  Variable mb : Z.
  Variable pool : list ptxn.
  Hypothesis Hwf : wf_pool pool.
  (* a transaction that passes the creation filter has a computable fee: the
     filter's soft check computes the fee with the same function *)
  Hypothesis Hfee : forall t, In t pool -> pok_create t = true -> has_fee t = true.
  Hypothesis Hmb : mb < 2 ^ 32.

  Lemma stageS_perm_F : Permutation (stageS pool) (stageF pool).
  Proof.
    unfold stageS. rewrite filter_id; [apply tisort_perm|].
    intros t Ht. unfold stageF in Ht. apply filter_In in Ht. now apply Hfee.
  Qed.

  Lemma prefix_of_split t S1 S2 : stageS pool = S1 ++ t :: S2 ->
    sum_sizes (prefix_of pool t) = sum_sizes S1 + psize t /\
    List.length (prefix_of pool t) = S (List.length S1).
  Proof.
    intros E. destruct (stageS_props pool Hwf) as [Hs [_ [Hnd _]]].
    assert (HP : Permutation (prefix_of pool t) (S1 ++ [t])).
    { unfold prefix_of. rewrite <- filter_filter. fold (stageF pool).
      eapply perm_trans; [apply perm_filter, Permutation_sym, stageS_perm_F|].
      rewrite E, filter_app. cbn [filter]. unfold upto at 2. rewrite Z.eqb_refl. cbn [orb].
      rewrite E in Hs, Hnd.
      rewrite filter_id.
      - replace (filter (upto t) S2) with (@nil ptxn); [apply Permutation_refl|].
        symmetry.
        assert (H2 : forall u, In u S2 -> upto t u = false).
        { intros u Hu. unfold upto.
          assert (Hlt : txn_ltb t u = true).
          { apply (sorted_app_lt (S1 ++ [t]) S2); [now rewrite <- app_assoc|apply in_or_app; right; now left|exact Hu]. }
          rewrite (txn_ltb_asym _ _ Hlt), Bool.orb_false_r.
          apply Z.eqb_neq. intros Eph. rewrite map_app in Hnd. cbn [map] in Hnd.
          apply NoDup_remove_2 in Hnd. apply Hnd. apply in_or_app. right. rewrite <- Eph. now apply in_map. }
        clear - H2. induction S2 as [|u S2 IH]; [reflexivity|]. cbn [filter].
        rewrite (H2 u) by now left. apply IH. intros v Hv. apply H2. now right.
      - intros u Hu. unfold upto.
        rewrite (sorted_app_lt S1 (t :: S2) u t Hs Hu) by now left. apply Bool.orb_true_r. }
    split.
    - rewrite (perm_sum_sizes _ _ HP), sum_sizes_app. cbn. lia.
    - rewrite (Permutation_length HP), app_length. cbn. lia.
  Qed.

  Lemma stageT_nonneg : stageT mb pool <> [] -> 0 <= mb.
  Proof.
    intros H. destruct (Z_lt_le_dec mb 0) as [Hneg|]; [|assumption]. exfalso. apply H.
    unfold stageT. destruct (stageS_props pool Hwf) as [_ [HwS _]].
    rewrite cut_neg by (auto; lia). reflexivity.
  Qed.

  Lemma in_cut_iff t : In t (stageS pool) -> (in_cut mb pool t = true <-> In t (stageT mb pool)).
  Proof.
    intros Ht. destruct (stageS_props pool Hwf) as [Hs [HwS _]].
    destruct (stageT_prefix mb pool) as [R ER]. split.
    - intros Hc. apply in_split in Ht. destruct Ht as [S1 [S2 E]].
      destruct (prefix_of_split t S1 S2 E) as [Hsum Hlen].
      unfold in_cut in Hc. rewrite Hsum, Hlen in Hc.
      destruct (split_pos S1 _ t S2 (stageT mb pool) R E ER) as [[m [H1 _]]|[m [H1 H2]]].
      { rewrite H1. apply in_or_app. right. now left. }
      exfalso.
      (* t lies after the cut *)
      unfold stageT in *.
      destruct (cut_prefix mb (stageS pool) 0) as [r1 E1].
      destruct (take_z_prefix (cut mb 0 (stageS pool)) MaxBlockTransactions) as [r2 E2].
      set (T := take_z MaxBlockTransactions (cut mb 0 (stageS pool))) in *.
      assert (HwS1 : Forall wf_txn S1) by (rewrite E in HwS; eapply Forall_app_l; eassumption).
      assert (Hwm : Forall wf_txn m).
      { rewrite H1 in HwS1. rewrite Forall_forall in *. intros x Hx. apply HwS1, in_or_app. now right. }
      destruct r2 as [|x r2].
      + (* the size cut: the first transaction after T does not fit *)
        rewrite app_nil_r in E2.
        assert (ER' : R = r1).
        { rewrite E2 in E1. rewrite ER in E1 at 1. now apply app_inv_head in E1. }
        rewrite H1, sum_sizes_app in Hc.
        pose proof (sum_sizes_nonneg _ Hwm) as Hm0.
        destruct m as [|u m'].
        * cbn [app] in H2. rewrite ER' in H2. rewrite H2 in E1.
          pose proof (cut_maximal mb (stageS pool) 0 t S2 Hmb E1) as Hmax.
          rewrite E2 in Hmax. cbn [sum_sizes fold_right] in Hc. lia.
        * cbn [app] in H2. rewrite ER' in H2. rewrite H2 in E1.
          pose proof (cut_maximal mb (stageS pool) 0 u (m' ++ t :: S2) Hmb E1) as Hmax.
          rewrite E2 in Hmax. rewrite sum_sizes_cons in Hc, Hm0.
          apply Forall_inv_tail in Hwm. pose proof (sum_sizes_nonneg _ Hwm).
          assert (0 < psize t) by (rewrite E in HwS; apply Forall_app in HwS; destruct HwS as [_ HwS];
                                   apply Forall_inv in HwS; apply HwS).
          lia.
      + (* the count cut *)
        pose proof (take_z_full (cut mb 0 (stageS pool)) MaxBlockTransactions x r2) as Hfull.
        fold T in Hfull. specialize (Hfull ltac:(unfold MaxBlockTransactions; lia) E2).
        rewrite H1, app_length in Hc. lia.
    - intros HT. apply in_split in HT. destruct HT as [T1 [T2 ET]].
      assert (E : stageS pool = T1 ++ t :: (T2 ++ R)).
      { rewrite ER, ET, <- app_assoc. reflexivity. }
      destruct (prefix_of_split t T1 (T2 ++ R) E) as [Hsum Hlen].
      destruct (stageT_size mb pool Hwf) as [Hsz Hln].
      assert (Hne : stageT mb pool <> []) by (rewrite ET; destruct T1; discriminate).
      pose proof (stageT_nonneg Hne) as Hmb0.
      destruct (stageT_props mb pool Hwf) as [_ [HwT _]].
      rewrite ET in Hsz, Hln, HwT. rewrite sum_sizes_app, sum_sizes_cons in Hsz.
      rewrite app_length in Hln. cbn [List.length] in Hln.
      assert (HwT2 : Forall wf_txn T2).
      { rewrite Forall_forall in *. intros x Hx. apply HwT, in_or_app. right. now right. }
      pose proof (sum_sizes_nonneg _ HwT2).
      unfold in_cut. rewrite Hsum, Hlen. lia.
  Qed.

  Lemma create_meets_spec_l b : create_block mb pool = Val (inl b) ->
    block_spec_b mb pool b = true.
  Proof.
    intros H. pose proof (created_size_l _ _ _ Hwf H) as [Hsz Hln].
    pose proof (created_accepted_l _ _ _ Hwf H) as Hacc.
    pose proof (created_sorted_l _ _ _ Hwf H) as Hsorted.
    destruct (conflict_choice_l _ _ _ Hwf H) as [c [Hc [Hbc Hch]]].
    pose proof (create_block_ret _ _ _ Hwf H) as [Eb Hne].
    destruct (stageS_props pool Hwf) as [_ [_ [_ HiS]]].
    destruct (stageT_props mb pool Hwf) as [_ [_ [_ HiT]]].
    assert (Hcs : c = stageC mb pool).
    { rewrite candidates_spec in Hc by exact Hwf. now injection Hc. }
    apply follower_accepts_inv in Hacc. destruct Hacc as [_ [Hokb [Hnd Hdis]]].
    assert (A1 : forallb (fun t => pok_create t && pok_block t) b = true).
    { apply forallb_forall. intros t Ht.
      destruct (created_all_valid_l _ _ _ Hwf H t Ht) as [H1 [H2 _]]. now rewrite H1, H2. }
    assert (A3 : sorted_b b = true) by now apply sorted_b_spec.
    assert (A4 : (sum_sizes b <=? mb) = true) by lia.
    assert (A5 : (Z.of_nat (List.length b) <=? MaxBlockTransactions) = true) by lia.
    assert (A7 : forallb (in_cut mb pool) b = true).
    { apply forallb_forall. intros t Ht. rewrite Eb in Ht.
      destruct (in_stageB mb pool t Hwf Ht) as [Hp [Hc1 [_ [Hf HT]]]].
      apply in_cut_iff; [|exact HT]. apply HiS. tauto. }
    assert (A8 : forallb (fun t =>
       negb (pok_create t && pok_block t)
       || existsb (fun b1 => ph b1 =? ph t) b
       || negb (in_cut mb pool t)
       || existsb (fun s => txn_ltb s t && shares s t) b) pool = true).
    { apply forallb_forall. intros t Ht.
      destruct (pok_create t && pok_block t) eqn:Ev; [|reflexivity]. cbn [negb orb].
      apply Bool.andb_true_iff in Ev. destruct Ev as [Ev1 Ev2].
      destruct (existsb (fun b1 => ph b1 =? ph t) b) eqn:Ein; [reflexivity|]. cbn [orb].
      destruct (in_cut mb pool t) eqn:Ecut; [|reflexivity]. cbn [negb orb].
      assert (HtS : In t (stageS pool)) by (apply HiS; split; [exact Ht|split; [exact Ev1|now apply Hfee]]).
      apply in_cut_iff in Ecut; [|exact HtS].
      assert (Htc : In t c) by (rewrite Hcs; apply filter_In; tauto).
      assert (Hnb : ~ In t b).
      { intros Hin. rewrite existsb_false in Ein. specialize (Ein t Hin). lia. }
      destruct (conflict_loser_l mb pool b c t Hwf H Hc Htc Hnb) as [s [Hs [Hlt Hsh]]].
      apply existsb_exists. exists s. split; [exact Hs|]. unfold txn_lt in Hlt. now rewrite Hlt, Hsh. }
    unfold block_spec_b. rewrite A1, Hnd, A3, A4, A5, Hdis, A7, A8. reflexivity.
  Qed.
End Spec.

(* ------------------------------------------------------------------ *)
(* 10. the statements of Properties/C05.v (hypotheses in the boolean   *)
(*     form that the check evaluates on every generated pool)          *)
(* ------------------------------------------------------------------ *)

Lemma has_fee_iff t : has_fee t = true <-> pfee t <> None.
Proof. unfold has_fee. destruct (pfee t); split; congruence. Qed.

Section Final.
  Variables (mb : Z) (pool b : list ptxn).
  Hypothesis Hwf : wf_pool_b pool = true.
  Hypothesis Hcreate : create_block mb pool = Val (inl b).
  Let Hwf' : wf_pool pool := proj1 (wf_pool_b_spec pool) Hwf.

  Lemma created_from_pool : forall t, In t b -> In t pool.
  Proof. exact (created_from_pool_l mb pool b Hwf' Hcreate). Qed.
  Lemma created_all_valid : forall t, In t b ->
    pok_create t = true /\ pok_block t = true /\ pfee t <> None.
  Proof. exact (created_all_valid_l mb pool b Hwf' Hcreate). Qed.
  Lemma created_sorted : StronglySorted txn_lt b.
  Proof. exact (created_sorted_l mb pool b Hwf' Hcreate). Qed.
  Lemma created_size : sum_sizes b <= mb /\ Z.of_nat (List.length b) <= MaxBlockTransactions.
  Proof. exact (created_size_l mb pool b Hwf' Hcreate). Qed.
  Lemma created_accepted : follower_accepts b = true.
  Proof. exact (created_accepted_l mb pool b Hwf' Hcreate). Qed.
  Lemma conflict_choice : exists c, candidates mb pool = Val c /\
    (forall t, In t b -> In t c) /\
    (forall t, In t c -> (In t b <-> forall s, In s b -> txn_lt s t -> shares s t = false)).
  Proof. exact (conflict_choice_l mb pool b Hwf' Hcreate). Qed.
  Lemma conflict_loser : forall c t, candidates mb pool = Val c -> In t c -> ~ In t b ->
    exists s, In s b /\ txn_lt s t /\ shares s t = true.
  Proof. intros c t. exact (conflict_loser_l mb pool b c t Hwf' Hcreate). Qed.
  Lemma conflict_first_wins : forall c s t, candidates mb pool = Val c -> In t c -> In s b ->
    txn_lt s t -> shares s t = true -> ~ In t b.
  Proof. intros c s t. exact (conflict_first_wins_l mb pool b c s t Hwf' Hcreate). Qed.
  Lemma conflict_at_most_one : forall s t, s <> t -> shares s t = true -> ~ (In s b /\ In t b).
  Proof. intros s t. exact (conflict_at_most_one_l mb pool b s t Hwf' Hcreate). Qed.
  Lemma conflict_exactly_first : forall c s t, candidates mb pool = Val c -> In s c -> In t c ->
    txn_lt s t -> shares s t = true ->
    (forall u, In u c -> txn_lt u s -> shares u s = false) ->
    In s b /\ ~ In t b.
  Proof. intros c s t. exact (conflict_exactly_first_l mb pool b c s t Hwf' Hcreate). Qed.
  Lemma create_meets_spec :
    (forall t, In t pool -> pok_create t = true -> pfee t <> None) -> mb < 2 ^ 32 ->
    block_spec_b mb pool b = true.
  Proof.
    intros Hfee Hmb. apply create_meets_spec_l; try assumption.
    intros t Ht Hc. apply has_fee_iff. now apply Hfee.
  Qed.
End Final.

Lemma create_deterministic mb pool pool' : wf_pool_b pool = true -> Permutation pool pool' ->
  create_block mb pool = create_block mb pool'.
Proof. intros Hwf HP. apply create_deterministic_l; [exact HP|now apply wf_pool_b_spec]. Qed.

Lemma create_no_panic mb pool : wf_pool_b pool = true ->
  (forall t, In t pool -> pok_create t = true -> pfee t <> None /\ psize t <= mb) ->
  create_block mb pool <> Panic.
Proof.
  intros Hwf H. apply create_no_panic_l; [now apply wf_pool_b_spec|].
  intros t Ht Hc. destruct (H t Ht Hc). split; [now apply has_fee_iff|assumption].
Qed.

Lemma order_strict_total :
  (forall a, ~ txn_lt a a) /\
  (forall a b c, txn_lt a b -> txn_lt b c -> txn_lt a c) /\
  (forall a b, ph a <> ph b -> txn_lt a b \/ txn_lt b a).
Proof.
  unfold txn_lt. split; [|split].
  - intros a. rewrite txn_ltb_irrefl. discriminate.
  - exact txn_ltb_trans.
  - exact txn_ltb_total.
Qed.

(* the model's sort (insertion sort on (fee/kB, txn) entries, fee/kB computed by
   the regenerated MultUint64 with saturation) returns THE sorted permutation *)
Lemma sort_txns_correct l l' : wf_pool_b l = true -> (forall t, In t l -> pfee t <> None) ->
  Permutation l l' -> StronglySorted txn_lt l' -> sort_txns l = Val l'.
Proof.
  intros Hwf Hf HP Hs. apply wf_pool_b_spec in Hwf. destruct Hwf as [Hw Hnd].
  rewrite sort_txns_spec by exact Hw. rewrite filter_id by (intros t Ht; apply has_fee_iff; now apply Hf).
  f_equal. now apply tisort_unique.
Qed.
