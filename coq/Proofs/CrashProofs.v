(* Proofs about Model/Crash.v (property C08). *)
From Coq Require Import ZArith List Bool Lia Arith.
From Sky Require Import Model.Crash.
Import ListNotations.
Open Scope Z_scope.

(* ------------------------------------------------------------------ A. commit atomicity *)

Lemma memZ_false_in x l : memZ x l = false -> ~ In x l.
Proof.
  unfold memZ. intros H Hin. assert (existsb (Z.eqb x) l = true).
  { apply existsb_exists. exists x. split; [exact Hin|apply Z.eqb_refl]. }
  congruence.
Qed.

Lemma lookup_write_other st pc p : p <> fst pc -> lookup p (pages (write_page st pc)) = lookup p (pages st).
Proof.
  intros H. destruct pc as [q c]. cbn [write_page pages lookup fst] in *.
  destruct (p =? q) eqn:E; [apply Z.eqb_eq in E; contradiction|reflexivity].
Qed.

Lemma lookup_fold_other ws : forall st p, ~ In p (ids ws) ->
  lookup p (pages (fold_left write_page ws st)) = lookup p (pages st).
Proof.
  induction ws as [|w ws IH]; intros st p Hn; [reflexivity|].
  cbn [fold_left]. rewrite IH.
  - apply lookup_write_other. intros E. apply Hn. left. symmetry. exact E.
  - intros Hin. apply Hn. right. exact Hin.
Qed.

Lemma metas_fold ws : forall st,
  meta0 (fold_left write_page ws st) = meta0 st /\ meta1 (fold_left write_page ws st) = meta1 st.
Proof.
  induction ws as [|w ws IH]; intros st; [split; reflexivity|]. cbn [fold_left].
  destruct (IH (write_page st w)) as [A B]. rewrite A, B. split; reflexivity.
Qed.

Lemma active_fold ws st : active (fold_left write_page ws st) = active st.
Proof. unfold active. destruct (metas_fold ws st) as [-> ->]. reflexivity. Qed.

Lemma In_ids_firstn j (l : list (Z * Z)) p : In p (ids (firstn j l)) -> In p (ids l).
Proof.
  unfold ids. revert l; induction j as [|j IH]; intros l H; [contradiction|].
  destruct l as [|x l]; [contradiction|]. cbn in *. destruct H as [H|H]; [left; exact H|right; apply IH; exact H].
Qed.

(* page writes of a copy-on-write commit never damage the old snapshot *)
Lemma intact_old_preserved st c j :
  cow c = true -> intact st (c_old_reach c) = true ->
  intact (fold_left write_page (firstn j (c_dirty c)) st) (c_old_reach c) = true.
Proof.
  unfold cow, intact. intros Hc Hi. apply andb_true_iff in Hc as [Hd _].
  rewrite forallb_forall in *. intros pc Hin.
  rewrite lookup_fold_other; [apply Hi; exact Hin|].
  intros Hj. apply In_ids_firstn in Hj.
  specialize (Hd (fst pc) Hj). apply negb_true_iff in Hd. apply memZ_false_in in Hd.
  apply Hd. unfold ids. apply in_map. exact Hin.
Qed.

Lemma lookup_fold_all ws : forall st p,
  lookup p (pages (fold_left write_page ws st)) =
  match lookup p (rev ws) with Some c => Some c | None => lookup p (pages st) end.
Proof.
  induction ws as [|w ws IH]; intros st p; [reflexivity|].
  cbn [fold_left rev]. rewrite IH.
  destruct w as [q c].
  assert (L : forall l, lookup p (l ++ [(q, c)]) = match lookup p l with Some d => Some d | None => if p =? q then Some c else None end).
  { induction l as [|[q' c'] l IHl]; cbn [app lookup]; [reflexivity|]. destruct (p =? q'); [reflexivity|exact IHl]. }
  rewrite L. destruct (lookup p (rev ws)); [reflexivity|].
  cbn [write_page pages lookup]. destruct (p =? q); reflexivity.
Qed.

(* after all page writes the new snapshot is intact *)
Lemma intact_new_after_all st c :
  cow c = true -> intact st (c_old_reach c) = true ->
  intact (fold_left write_page (c_dirty c) st) (c_new_reach c) = true.
Proof.
  unfold cow, intact. intros Hc Hi. apply andb_true_iff in Hc as [_ Hn].
  rewrite forallb_forall in *. intros pc Hin. specialize (Hn pc Hin).
  rewrite lookup_fold_all.
  destruct (lookup (fst pc) (rev (c_dirty c))) as [d|]; [exact Hn|].
  destruct (lookup (fst pc) (c_old_reach c)) as [d|] eqn:El; [|discriminate].
  (* the page is an untouched old one: find it in the old reach list *)
  assert (Hex : exists pc', In pc' (c_old_reach c) /\ fst pc' = fst pc /\ snd pc' = d).
  { clear -El. induction (c_old_reach c) as [|[q e] l IH]; [discriminate|].
    cbn [lookup] in El. destruct (fst pc =? q) eqn:E.
    - inversion El; subst. exists (q, d). split; [left; reflexivity|]. apply Z.eqb_eq in E. split; [symmetry; exact E|reflexivity].
    - destruct (IH El) as [pc' [H1 H2]]. exists pc'. split; [right; exact H1|exact H2]. }
  destruct Hex as [pc' [Hin' [Hf Hs]]]. specialize (Hi pc' Hin'). rewrite Hf in Hi.
  destruct (lookup (fst pc) (pages st)) as [e|]; [|discriminate].
  apply Z.eqb_eq in Hi. apply Z.eqb_eq in Hn. apply Z.eqb_eq. congruence.
Qed.

Lemma slot_fold ws st b : slot (fold_left write_page ws st) b = slot st b.
Proof. unfold slot. destruct (metas_fold ws st) as [-> ->]. reflexivity. Qed.

Lemma pages_write_meta st m : pages (write_meta st m) = pages st.
Proof. unfold write_meta. destruct (slot_of (m_txid m)); reflexivity. Qed.

Lemma intact_write_meta st m r : intact (write_meta st m) r = intact st r.
Proof. unfold intact. rewrite pages_write_meta. reflexivity. Qed.

Lemma slot_write_meta_same st m : slot (write_meta st m) (slot_of (m_txid m)) = m.
Proof. unfold write_meta, slot. destruct (slot_of (m_txid m)); reflexivity. Qed.

Lemma slot_write_meta_other st m : slot (write_meta st m) (negb (slot_of (m_txid m))) = slot st (negb (slot_of (m_txid m))).
Proof. unfold write_meta, slot. destruct (slot_of (m_txid m)); reflexivity. Qed.

Lemma active_pre st a o b : slot st (negb b) = a -> slot st b = o ->
  m_ok a = true -> (m_ok o = false \/ m_txid o < m_txid a) -> active st = Some a.
Proof.
  intros Ha Ho Hok Hold. unfold active. unfold slot in Ha, Ho.
  destruct b; cbn [negb] in Ha; subst a o.
  - rewrite Hok. destruct (m_ok (meta1 st)) eqn:Eo; [|reflexivity].
    destruct Hold as [Hc|Hlt]; [discriminate|].
    replace (m_txid (meta0 st) <? m_txid (meta1 st)) with false by (symmetry; apply Z.ltb_ge; lia). reflexivity.
  - rewrite Hok. destruct (m_ok (meta0 st)) eqn:Eo; [|reflexivity].
    destruct Hold as [Hc|Hlt]; [discriminate|].
    replace (m_txid (meta0 st) <? m_txid (meta1 st)) with true by (symmetry; apply Z.ltb_lt; lia). reflexivity.
Qed.

(* THE commit-atomicity theorem: whatever prefix of the page writes reached the
   disk, and whether the meta page was not written, torn, or written, recovery
   yields the old snapshot (intact) or — only after everything was written —
   the new one (intact). *)
Theorem commit_atomic st c j mw :
  cow c = true -> pre_ok st c = true -> (j <= length (c_dirty c))%nat ->
  let st' := crash_state st c j mw in
  match mw with
  | MetaFull =>
      j = length (c_dirty c) ->
      recover st' = Some (c_new c) /\ intact st' (c_new_reach c) = true
  | _ => recover st' = Some (c_old c) /\ intact st' (c_old_reach c) = true
  end.
Proof.
  intros Hcow Hpre Hj. unfold pre_ok in Hpre. cbn zeta in Hpre.
  apply andb_true_iff in Hpre as [Hpre Hother].
  apply andb_true_iff in Hpre as [Hpre Htx]. apply Z.eqb_eq in Htx.
  apply andb_true_iff in Hpre as [Hpre Hsn]. apply Z.eqb_eq in Hsn.
  apply andb_true_iff in Hpre as [Hint Hok].
  set (b := slot_of (c_txid c)) in *.
  set (st1 := fold_left write_page (firstn j (c_dirty c)) st).
  assert (Hs1 : forall x, slot st1 x = slot st x) by (intros x; apply slot_fold).
  assert (Hold' : m_ok (slot st b) = false \/ m_txid (slot st b) < m_txid (slot st (negb b))).
  { apply orb_true_iff in Hother as [H|H]; [left; apply negb_true_iff; exact H|right; apply Z.ltb_lt in H; lia]. }
  destruct mw; cbn [crash_state]; fold st1.
  - split; [|apply intact_old_preserved; assumption].
    unfold recover. rewrite (active_pre st1 (slot st (negb b)) (slot st b) b); rewrite ?Hs1; auto.
    cbn [option_map]. rewrite Hsn. reflexivity.
  - set (m := {| m_txid := c_txid c; m_snap := c_new c; m_ok := false |}).
    split; [|rewrite intact_write_meta; apply intact_old_preserved; assumption].
    unfold recover.
    rewrite (active_pre (write_meta st1 m) (slot st (negb b)) m b).
    + cbn [option_map]. rewrite Hsn. reflexivity.
    + change b with (slot_of (m_txid m)). rewrite slot_write_meta_other. apply Hs1.
    + change b with (slot_of (m_txid m)). apply slot_write_meta_same.
    + exact Hok.
    + left. reflexivity.
  - intros Hall. set (m := {| m_txid := c_txid c; m_snap := c_new c; m_ok := true |}).
    split.
    + unfold recover.
      (* the new meta sits in slot b, the old one in slot (negb b): swap roles *)
      rewrite (active_pre (write_meta st1 m) m (slot st (negb b)) (negb b)).
      * reflexivity.
      * rewrite negb_involutive. change b with (slot_of (m_txid m)). apply slot_write_meta_same.
      * change b with (slot_of (m_txid m)). rewrite slot_write_meta_other. apply Hs1.
      * reflexivity.
      * right. cbn [m_txid m]. lia.
    + rewrite intact_write_meta. unfold st1. rewrite Hall, firstn_all.
      apply intact_new_after_all; assumption.
Qed.

(* ------------------------------------------------------------------ B. life cycle *)

Lemma run_app s a b : run s (a ++ b) = run (run s a) b.
Proof. unfold run. apply fold_left_app. Qed.

Lemma memZ_app t a b : memZ t (a ++ b) = memZ t a || memZ t b.
Proof. unfold memZ. apply existsb_app. Qed.

Lemma memZ_filter t f l : memZ t (filter f l) = f t && memZ t l.
Proof.
  unfold memZ. induction l as [|x l IH]; cbn [filter existsb].
  - rewrite andb_false_r. reflexivity.
  - destruct (f x) eqn:F; cbn [existsb]; rewrite IH.
    + destruct (Z.eqb_spec t x) as [E|E].
      * subst. rewrite F. reflexivity.
      * reflexivity.
    + destruct (Z.eqb_spec t x) as [E|E].
      * subst. rewrite F. reflexivity.
      * reflexivity.
Qed.

Lemma memZ_remove_all t xs l : memZ t (remove_all xs l) = negb (memZ t xs) && memZ t l.
Proof. unfold remove_all. apply memZ_filter. Qed.

Lemma filter_filter (A : Type) (f g : A -> bool) l :
  filter g (filter f l) = filter (fun x => f x && g x) l.
Proof.
  induction l as [|x l IH]; [reflexivity|]. cbn [filter].
  destruct (f x); cbn [filter andb]; [destruct (g x)|]; rewrite IH; reflexivity.
Qed.

Lemma remove_all_comm xs ys l : remove_all xs (remove_all ys l) = remove_all ys (remove_all xs l).
Proof.
  unfold remove_all. rewrite !filter_filter. apply filter_ext. intros t. apply andb_comm.
Qed.

Lemma remove_all_app xs ys l : remove_all (xs ++ ys) l = remove_all ys (remove_all xs l).
Proof.
  unfold remove_all. rewrite filter_filter. apply filter_ext. intros t.
  rewrite memZ_app, negb_orb. reflexivity.
Qed.

Lemma remove_all_idem xs l : remove_all xs (remove_all xs l) = remove_all xs l.
Proof.
  unfold remove_all. rewrite filter_filter. apply filter_ext. intros t. apply andb_diag.
Qed.

Lemma remove_all_snoc xs l t : memZ t xs = false -> remove_all xs (l ++ [t]) = remove_all xs l ++ [t].
Proof. intros H. unfold remove_all. rewrite filter_app. cbn [filter]. rewrite H. reflexivity. Qed.

Definition live (s : dbstate) : Prop := buckets s = true /\ chain s <> [].

Lemma live_len s : live s -> (0 <? Z.of_nat (length (chain s))) = true.
Proof. intros [_ Hc]. destruct (chain s); [contradiction|]. apply Z.ltb_lt. cbn [length]. lia. Qed.

Lemma apply_live s o : live s -> live (apply_op s o).
Proof.
  intros [Hb Hc]. destruct o as [|g|seq cf kl|t|]; cbn [apply_op].
  - split; [reflexivity|exact Hc].
  - destruct (buckets s && _); [split; [reflexivity|discriminate]|split; assumption].
  - destruct (buckets s && _ && _); [|split; assumption].
    split; [reflexivity|]. cbn [chain]. intros E. apply app_eq_nil in E as [_ E]. discriminate.
  - destruct (buckets s && _ && _ && _); [|split; assumption]. split; [reflexivity|exact Hc].
  - split; assumption.
Qed.

Lemma run_live ops : forall s, live s -> live (run s ops).
Proof. induction ops as [|o ops IH]; intros s H; [exact H|]. apply IH. apply apply_live. exact H. Qed.

Lemma settle_idem s : settle (settle s) = settle s.
Proof. unfold settle. cbn [apply_op buckets chain pool dead]. rewrite remove_all_idem. reflexivity. Qed.

Lemma settle_live s : live s -> live (settle s).
Proof. apply apply_live. Qed.

(* on a database that already holds the genesis block, restart = clean-up *)
Lemma restart_live g s : live s -> restart g s = settle s.
Proof.
  intros [Hb Hc]. unfold restart, run, settle. cbn [fold_left].
  destruct s as [b c p d]. cbn in *. subst b.
  destruct c as [|x c]; [contradiction|]. cbn [length].
  replace (Z.of_nat (S (length c)) =? 0) with false by (symmetry; apply Z.eqb_neq; lia). reflexivity.
Qed.

Lemma restart_makes_live g s : live (restart g s).
Proof.
  unfold restart, run. cbn [fold_left]. apply apply_live.
  cbn [apply_op buckets chain]. destruct (chain s) as [|x c] eqn:E.
  - cbn. split; [reflexivity|discriminate].
  - cbn [length andb]. replace (Z.of_nat (S (length c)) =? 0) with false by (symmetry; apply Z.eqb_neq; lia).
    split; [reflexivity|]. cbn. try rewrite E. discriminate.
Qed.

(* restart is idempotent *)
Lemma restart_idempotent g s : restart g (restart g s) = restart g s.
Proof.
  rewrite (restart_live g (restart g s)) by apply restart_makes_live.
  unfold restart, run. cbn [fold_left]. apply settle_idem.
Qed.

(* two states that differ only in pool entries a clean-up would drop *)
Definition R (s1 s2 : dbstate) : Prop :=
  buckets s1 = buckets s2 /\ chain s1 = chain s2 /\ dead s1 = dead s2 /\
  remove_all (dead s1) (pool s1) = remove_all (dead s2) (pool s2).

Lemma R_settle_l s : R (settle s) s.
Proof. unfold R, settle. cbn [apply_op buckets chain pool dead]. rewrite remove_all_idem. repeat split. Qed.

Lemma R_settle s1 s2 : R s1 s2 -> settle s1 = settle s2.
Proof.
  intros (Hb & Hc & Hd & Hp). unfold settle. cbn [apply_op]. rewrite Hb, Hc, Hp, Hd. reflexivity.
Qed.

Lemma R_apply s1 s2 o : R s1 s2 -> R (apply_op s1 o) (apply_op s2 o).
Proof.
  intros (Hb & Hc & Hd & Hp). pose proof Hp as Hp0. rewrite Hd in Hp.
  destruct o as [|g|seq cf kl|t|]; cbn [apply_op].
  - repeat split; assumption.
  - rewrite Hb, Hc. destruct (buckets s2 && _); repeat split; assumption.
  - rewrite Hb, Hc. destruct (buckets s2 && _ && _); [|repeat split; assumption].
    unfold R. cbn [buckets chain pool dead]. rewrite Hd. repeat split.
    rewrite !remove_all_app. rewrite (remove_all_comm (dead s2) cf (pool s1)), (remove_all_comm (dead s2) cf (pool s2)).
    rewrite Hp. reflexivity.
  - rewrite Hb, Hc, Hd. destruct (memZ t (dead s2)) eqn:D.
    + rewrite !andb_false_r. repeat split; assumption.
    + assert (M : memZ t (pool s1) = memZ t (pool s2)).
      { assert (A : forall p, memZ t p = memZ t (remove_all (dead s2) p)).
        { intros p. rewrite memZ_remove_all, D. reflexivity. }
        rewrite (A (pool s1)), (A (pool s2)). rewrite Hp. reflexivity. }
      rewrite M. destruct (buckets s2 && _ && _ && _); [|repeat split; assumption].
      unfold R. cbn [buckets chain pool dead]. repeat split; try assumption.
      rewrite ?Hd. rewrite !remove_all_snoc by exact D. rewrite Hp. reflexivity.
  - unfold R. cbn [buckets chain pool dead]. repeat split; try assumption.
    rewrite Hd. rewrite Hp. reflexivity.
Qed.

Lemma R_run ops : forall s1 s2, R s1 s2 -> R (run s1 ops) (run s2 ops).
Proof. induction ops as [|o ops IH]; intros s1 s2 H; [exact H|]. apply IH. apply R_apply. exact H. Qed.

(* an operation the database has already seen: applying it again is a no-op *)
Definition seen (s : dbstate) (o : cop) : Prop :=
  match o with
  | Inject t => memZ t (pool s) = true \/ memZ t (dead s) = true
  | ExecBlock seq _ _ => seq < Z.of_nat (length (chain s))
  | _ => True
  end.

Lemma noop_on_settled s o : live s -> seen s o -> apply_op (settle s) o = settle s.
Proof.
  intros L H. pose proof (live_len s L) as Hl. destruct L as [Hb Hc].
  destruct o as [|g|seq cf kl|t|]; cbn [seen] in H.
  - unfold settle. cbn [apply_op buckets chain pool dead]. rewrite Hb. reflexivity.
  - unfold settle. cbn [apply_op buckets chain pool dead].
    replace (Z.of_nat (length (chain s)) =? 0) with false by (symmetry; apply Z.eqb_neq; apply Z.ltb_lt in Hl; lia).
    rewrite andb_false_r. reflexivity.
  - unfold settle. cbn [apply_op buckets chain pool dead].
    replace (seq =? Z.of_nat (length (chain s))) with false by (symmetry; apply Z.eqb_neq; lia).
    rewrite andb_false_r. reflexivity.
  - unfold settle. cbn [apply_op buckets chain pool dead].
    rewrite memZ_remove_all. destruct (memZ t (dead s)) eqn:D.
    + rewrite !andb_false_r. reflexivity.
    + destruct H as [H|H]; [|discriminate]. rewrite H. cbn [negb andb]. rewrite !andb_false_r. reflexivity.
  - apply settle_idem.
Qed.

Lemma noop_all ops : forall s, live s -> Forall (seen s) ops -> run (settle s) ops = settle s.
Proof.
  induction ops as [|o ops IH]; intros s L H; [reflexivity|].
  inversion H as [|? ? Ho Hr]; subst. unfold run. cbn [fold_left]. fold (run (apply_op (settle s) o) ops).
  rewrite noop_on_settled by assumption. apply IH; assumption.
Qed.

Lemma seen_mono s o o' : live s -> seen s o -> seen (apply_op s o') o.
Proof.
  intros L H. pose proof (live_len s L) as Hl. destruct L as [Hb Hc].
  destruct o as [|g|seq cf kl|t|]; cbn [seen] in *; try exact I.
  - (* a block stays below the head *)
    destruct o' as [|g'|seq' cf' kl'|t'|]; cbn [apply_op]; try exact H.
    + destruct (buckets s && (Z.of_nat (length (chain s)) =? 0)) eqn:C; [|exact H].
      apply andb_true_iff in C as [_ C]. apply Z.eqb_eq in C. apply Z.ltb_lt in Hl. lia.
    + destruct (buckets s && _ && _); [|exact H]. cbn [chain]. rewrite app_length. cbn [length]. lia.
    + destruct (buckets s && _ && _ && _); exact H.
  - (* an injected transaction stays in the pool or is dead *)
    destruct o' as [|g'|seq' cf' kl'|t'|]; cbn [apply_op]; try exact H.
    + destruct (buckets s && _); exact H.
    + destruct (buckets s && _ && _); [|exact H]. cbn [pool dead].
      rewrite memZ_remove_all, !memZ_app. destruct H as [H|H].
      * rewrite H. destruct (memZ t cf'); [right; rewrite orb_true_r; reflexivity|left; reflexivity].
      * right. rewrite H. reflexivity.
    + destruct (buckets s && _ && _ && _); [|exact H]. cbn [pool dead]. rewrite memZ_app.
      destruct H as [H|H]; [left; rewrite H; reflexivity|right; exact H].
    + cbn [pool dead]. rewrite memZ_remove_all. destruct (memZ t (dead s)) eqn:D; [right; reflexivity|].
      destruct H as [H|H]; [left; rewrite H; reflexivity|discriminate].
Qed.

Lemma seen_run_mono ops : forall s o, live s -> seen s o -> seen (run s ops) o.
Proof.
  induction ops as [|o' ops IH]; intros s o L H; [exact H|].
  apply IH; [apply apply_live; exact L|apply seen_mono; assumption].
Qed.

(* after a well-formed work list has run, every one of its operations is `seen` *)
Lemma run_seen work : forall n s, live s -> n = Z.of_nat (length (chain s)) -> wf_work n work = true ->
  Forall (seen (run s work)) work.
Proof.
  induction work as [|o r IH]; intros n s L Hn W; [constructor|].
  pose proof (live_len s L) as Hl. pose proof L as [Hb Hc].
  assert (L' : live (apply_op s o)) by (apply apply_live; exact L).
  destruct o as [|g|seq cf kl|t|]; cbn [wf_work] in W; try discriminate.
  - apply andb_true_iff in W as [E W]. apply Z.eqb_eq in E.
    assert (A : apply_op s (ExecBlock seq cf kl) =
                {| buckets := true; chain := chain s ++ [seq]; pool := remove_all cf (pool s); dead := dead s ++ cf ++ kl |}).
    { cbn [apply_op]. rewrite Hb, Hl. replace (seq =? Z.of_nat (length (chain s))) with true by (symmetry; apply Z.eqb_eq; lia). reflexivity. }
    constructor.
    + change (run s (ExecBlock seq cf kl :: r)) with (run (apply_op s (ExecBlock seq cf kl)) r).
      apply seen_run_mono; [exact L'|]. rewrite A. cbn [seen chain]. rewrite app_length. cbn [length]. lia.
    + change (run s (ExecBlock seq cf kl :: r)) with (run (apply_op s (ExecBlock seq cf kl)) r).
      apply (IH (n + 1)); [exact L'| |exact W]. rewrite A. cbn [chain]. rewrite app_length. cbn [length]. lia.
  - constructor.
    + change (run s (Inject t :: r)) with (run (apply_op s (Inject t)) r).
      apply seen_run_mono; [exact L'|]. cbn [apply_op seen]. rewrite Hb, Hl. cbn [andb].
      destruct (memZ t (pool s)) eqn:P; cbn [negb andb]; [left; exact P|].
      destruct (memZ t (dead s)) eqn:D; cbn [negb]; [right; exact D|].
      left. cbn [pool]. rewrite memZ_app. cbn [memZ existsb]. rewrite Z.eqb_refl, orb_true_r. reflexivity.
    + change (run s (Inject t :: r)) with (run (apply_op s (Inject t)) r).
      apply (IH n); [exact L'| |exact W]. cbn [apply_op]. destruct (buckets s && _ && _ && _); exact Hn.
  - constructor; [exact I|].
    change (run s (Cleanup :: r)) with (run (apply_op s Cleanup) r).
    apply (IH n); [exact L'|exact Hn|exact W].
Qed.

Lemma wf_firstn k : forall n w, wf_work n w = true -> wf_work n (firstn k w) = true.
Proof.
  induction k as [|k IH]; intros n w W; [reflexivity|].
  destruct w as [|o r]; [reflexivity|]. cbn [firstn].
  destruct o as [|g|seq cf kl|t|]; cbn [wf_work] in *; try discriminate.
  - apply andb_true_iff in W as [E W]. rewrite E. cbn [andb]. apply IH. exact W.
  - apply IH. exact W.
  - apply IH. exact W.
Qed.

Definition s0 (g : Z) : dbstate := {| buckets := true; chain := [g]; pool := []; dead := [] |}.

Lemma s0_live g : live (s0 g).
Proof. split; [reflexivity|discriminate]. Qed.

(* a crash between ANY two commits of the scripted life-cycle; restart (which
   cleans the pool); EVERYTHING is delivered again from the start (the
   operations already committed are refused or no-ops): after the periodic pool
   clean-up the state equals that of the node that never crashed *)
Theorem crash_between_commits g work k : wf_work 1 work = true ->
  settle (run (restart g (run empty_db (firstn k (script g work)))) work)
  = settle (run empty_db (script g work)).
Proof.
  intros W.
  assert (RHS : run empty_db (script g work) = run (s0 g) work) by reflexivity.
  rewrite RHS. destruct k as [|[|k]].
  - reflexivity.
  - reflexivity.
  - unfold script. cbn [firstn].
    change (run empty_db (CreateBuckets :: AddGenesis g :: firstn k work)) with (run (s0 g) (firstn k work)).
    set (sk := run (s0 g) (firstn k work)).
    assert (L : live sk) by (apply run_live, s0_live).
    rewrite restart_live by exact L.
    rewrite <- (firstn_skipn k work) at 1. rewrite run_app.
    rewrite noop_all; [|exact L|].
    2:{ apply (run_seen (firstn k work) 1 (s0 g)); [apply s0_live|reflexivity|apply wf_firstn; exact W]. }
    apply R_settle.
    replace (run (s0 g) work) with (run sk (skipn k work)).
    2:{ unfold sk. rewrite <- run_app, firstn_skipn. reflexivity. }
    apply R_run. apply R_settle_l.
Qed.

(* the same when only the remaining operations are delivered *)
Theorem crash_then_remaining g work k :
  settle (run (restart g (run empty_db (firstn k (script g work)))) (skipn k (script g work)))
  = settle (run empty_db (script g work)).
Proof.
  assert (RHS : run empty_db (script g work) = run (s0 g) work) by reflexivity.
  rewrite RHS. destruct k as [|[|k]].
  - reflexivity.
  - reflexivity.
  - unfold script. cbn [firstn skipn].
    change (run empty_db (CreateBuckets :: AddGenesis g :: firstn k work)) with (run (s0 g) (firstn k work)).
    set (sk := run (s0 g) (firstn k work)).
    assert (L : live sk) by (apply run_live, s0_live).
    rewrite restart_live by exact L.
    apply R_settle.
    replace (run (s0 g) work) with (run sk (skipn k work)).
    2:{ unfold sk. rewrite <- run_app, firstn_skipn. reflexivity. }
    apply R_run. apply R_settle_l.
Qed.

(* without the clean-up in Init the two nodes' pools are NOT equal before the
   next periodic clean-up: the statement without `settle` is false *)
Lemma crash_without_settle_refuted :
  exists g work k, wf_work 1 work = true /\
    run (restart g (run empty_db (firstn k (script g work)))) work <> run empty_db (script g work).
Proof.
  exists 0, [Inject 7; ExecBlock 1 [5] [7]], 4%nat. split; [reflexivity|]. vm_compute. discriminate.
Qed.

(* ------------------------------------------------------------------ C. WalkChain *)

Lemma wstep_measure fixed failing s s' : wstep fixed failing s s' -> (wmeasure s' < wmeasure s)%nat.
Proof.
  intros H. destruct H; unfold wmeasure; cbn [w_prod w_remaining w_queue w_workers w_vdone w_main];
    repeat match goal with H : _ = _ |- _ => rewrite H end; cbn [b2n negb]; lia.
Qed.

(* every execution from s has at most wmeasure s steps: termination under ANY schedule *)
Inductive wsteps (fixed failing : bool) : nat -> wstate -> wstate -> Prop :=
| WS_0 : forall s, wsteps fixed failing 0 s s
| WS_S : forall n s s' s'', wstep fixed failing s s' -> wsteps fixed failing n s' s'' -> wsteps fixed failing (S n) s s''.

Theorem walk_bounded fixed failing n s s' : wsteps fixed failing n s s' -> (n + wmeasure s' <= wmeasure s)%nat.
Proof.
  induction 1 as [|n s s1 s2 Hst _ IH]; [lia|].
  apply wstep_measure in Hst. lia.
Qed.

Lemma wstep_failing_mono fixed s s' : wstep fixed false s s' -> wstep fixed true s s'.
Proof.
  intros H. destruct H.
  - apply S_prod_check_empty; assumption.
  - eapply S_prod_check; eassumption.
  - eapply S_prod_send; eassumption.
  - discriminate.
  - apply S_prod_interrupted; assumption.
  - apply S_prod_finish; assumption.
  - eapply S_worker_recv; try eassumption. intros; reflexivity.
  - eapply S_worker_exit; eassumption.
  - apply S_waiter; assumption.
  - apply S_main_select; assumption.
  - apply S_main_return; assumption.
Qed.

(* invariant of the repaired code (fixed = true) *)
Definition winv (w0 : nat) (s : wstate) : Prop :=
  (w_prod s = PDone -> w_closed s = true /\ w_prod_joined s = true) /\
  (w_closed s = true -> w_prod s = PDone) /\
  (w_workers s = w0 \/ (w_queue s = O /\ w_closed s = true)) /\
  (w_vdone s = true -> w_workers s = O) /\
  (w_main s = MWait -> w_interrupt s = false).

Lemma winv_init n w0 : winv w0 (winit n w0).
Proof.
  unfold winv, winit; cbn. repeat split; try discriminate; auto.
Qed.

Lemma winv_step failing w0 s s' : winv w0 s -> wstep true failing s s' -> winv w0 s'.
Proof.
  intros I H. unfold winv in *.
  destruct H; cbn [w_prod w_closed w_prod_joined w_workers w_queue w_vdone w_main w_interrupt] in *;
    intuition (try congruence; try discriminate; try lia).
Qed.

Lemma winv_reach failing n w0 s : wreach true failing (winit n w0) s -> winv w0 s.
Proof. induction 1 as [|s s' _ IH Hst]; [apply winv_init|eapply winv_step; eassumption]. Qed.

Definition mk (s : wstate) r p c q w v e i m j res : wstate :=
  {| w_remaining := r; w_prod := p; w_closed := c; w_queue := q; w_workers := w; w_vdone := v;
     w_err := e; w_interrupt := i; w_main := m; w_prod_joined := j; w_result := res |}.

(* no deadlock: with the repaired producer, every reachable state in which
   WalkChain has not returned can take a step — even when no block read and no
   signature check fails (failing = false) *)
Theorem walk_progress n w0 s : (1 <= w0)%nat ->
  wreach true false (winit n w0) s -> w_main s <> MRet -> exists s', wstep true false s s'.
Proof.
  intros Hw Hr Hm. pose proof (winv_reach false n w0 s Hr) as (I1 & I2 & I3 & I4 & I5).
  destruct (w_prod s) eqn:Ep.
  - (* before the length check *)
    destruct (w_remaining s) as [|r] eqn:Er.
    + eexists. apply S_prod_check_empty; assumption.
    + eexists. eapply S_prod_check; eassumption.
  - (* producing *)
    assert (Hnc : w_closed s = false).
    { destruct (w_closed s) eqn:Ec; [specialize (I2 eq_refl); congruence|reflexivity]. }
    destruct (w_remaining s) as [|r] eqn:Er.
    + eexists. apply S_prod_finish; assumption.
    + destruct (Nat.lt_ge_cases (w_queue s) cap) as [Hq|Hq].
      * eexists. eapply S_prod_send; eassumption.
      * (* queue full: a worker is still there to drain it *)
        destruct I3 as [I3|[_ I3]]; [|congruence].
        destruct (w_queue s) as [|q] eqn:Eq; [unfold cap in Hq; lia|].
        eexists. eapply (S_worker_recv true false s q false); [discriminate|exact Eq|lia].
  - (* producer finished: channel closed, wg.Done called *)
    destruct (I1 eq_refl) as [Hc Hj].
    destruct (w_workers s) as [|k] eqn:Ew.
    + destruct (w_vdone s) eqn:Ev.
      * destruct (w_main s) eqn:Em; [| |contradiction].
        -- eexists. apply S_main_select; [exact Em|right; exact Ev].
        -- eexists. apply S_main_return; assumption.
      * eexists. apply S_waiter; assumption.
    + destruct (w_queue s) as [|q] eqn:Eq.
      * eexists. eapply S_worker_exit; eassumption.
      * eexists. eapply (S_worker_recv true false s q false); [discriminate|exact Eq|lia].
Qed.

(* without failures no error is ever pending, so WalkChain returns nil *)
Lemma noerr_reach fixed n w0 s : wreach fixed false (winit n w0) s ->
  w_err s = false /\ (w_result s = None \/ w_result s = Some true).
Proof.
  induction 1 as [|s s' _ [IH1 IH2] Hst]; [split; [reflexivity|left; reflexivity]|].
  destruct Hst; cbn [w_err w_result]; try (split; assumption).
  - discriminate.
  - split; [|assumption]. destruct bad; [|rewrite IH1; reflexivity].
    match goal with H : true = true -> false = true |- _ => specialize (H eq_refl); discriminate end.
  - split; [assumption|]. right. rewrite IH1. reflexivity.
Qed.

Theorem walk_result_ok fixed n w0 s : wreach fixed false (winit n w0) s -> w_main s = MRet ->
  w_result s = Some true.
Proof.
  intros Hr Hm. destruct (noerr_reach fixed n w0 s Hr) as [He [Hn|Hs]]; [|exact Hs].
  exfalso. clear He. revert Hm Hn. induction Hr as [|s s' Hr IH Hst]; [discriminate|].
  destruct Hst; cbn [w_main w_result]; intros; try (apply IH; assumption); try discriminate.
Qed.

(* the unrepaired producer (fixed = false) deadlocks on an empty chain: finding F2 *)
Theorem walk_deadlock_refuted :
  exists s, wreach false true (winit 0 4) s /\ w_main s <> MRet /\ forall s', ~ wstep false true s s'.
Proof.
  eexists. split.
  - eapply R_step; [apply R_refl|]. apply S_prod_check_empty; reflexivity.
  - split; [cbn; discriminate|].
    intros s' H. inversion H; subst; cbn in *; try discriminate; try lia;
      try (match goal with H : _ \/ _ |- _ => destruct H; discriminate end).
Qed.
