(* Proofs/HeaderRefine.v — C04: the header checks of the ledger model
   (Model/Ledger.v: verify_header, the part of exec_block that append_sound /
   append_complete rest on for seq / time / parent hash / body hash) are EQUAL,
   for all inputs, to the Gallina regenerated from Blockchain.verifyBlockHeader
   (src/visor/blockchain.go) on every run (Gen/HeaderChecks.v; translator/stage3.go),
   with the translated function's error message classified into the model's enum.
   Inputs of the regenerated function that are not Go parameters:
     head_err  the error of bc.Head(tx)  — None here: the model has a head (the
               chain is not empty; a failing db read is not modelled)
     eq_b_Head_PrevHash__head_HashHeader   (b.Head.PrevHash == head.HashHeader())
     eq_b_Body_Hash__b_Head_BodyHash       (b.Body.Hash() == b.Head.BodyHash)
               hashes are data (ids) in the model: the comparisons are the
               model's `=?` on the ids. *)
From Sky Require Gen.HeaderChecks.
From Sky Require Import Base.Uint Model.Ledger Proofs.LedgerRefine.
Open Scope Z_scope.

Definition header_err_class (s : string) : err :=
  if String.eqb s "BkSeq invalid"%string then EBkSeq
  else if String.eqb s "Block time must be > head time"%string then ETime
  else if String.eqb s "PrevHash does not match current head"%string then EPrevHash
  else if String.eqb s "Computed body hash does not match"%string then EBodyHash
  else EOther.

Definition translated_header_checks (head b : block) : res error :=
  HeaderChecks.Blockchain_verifyBlockHeader None
    (h_prev (b_head b) =? b_hash head) (b_body_actual b =? h_body (b_head b))
    (h_seq (b_head b)) (h_seq (b_head head)) (h_time (b_head b)) (h_time (b_head head)).

Lemma verify_header_refines : forall head b,
  verify_header head b = chk_of header_err_class (translated_header_checks head b).
Proof.
  intros head b. unfold verify_header, translated_header_checks, HeaderChecks.Blockchain_verifyBlockHeader.
  cbv zeta. cbn [is_err].
  destruct (h_seq (b_head b) =? wrap 64 (h_seq (b_head head) + 1)); cbn [negb guard andthen]; [|reflexivity].
  destruct (h_time (b_head b) <=? h_time (b_head head)); cbn [negb guard andthen]; [reflexivity|].
  destruct (h_prev (b_head b) =? b_hash head); cbn [negb guard andthen]; [|reflexivity].
  destruct (b_body_actual b =? h_body (b_head b)); reflexivity.
Qed.

(* a db error of bc.Head is returned unchanged, before any check *)
Lemma header_checks_head_error : forall e p q a c d f,
  HeaderChecks.Blockchain_verifyBlockHeader (Some e) p q a c d f = Val (Some e).
Proof. reflexivity. Qed.
