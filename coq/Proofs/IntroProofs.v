(* Proofs/IntroProofs.v — IntroductionMessage.Verify never panics and accepts
   exactly the declarative condition; the gate of onMessageEvent (C25). *)
From Coq Require Import Lia ZifyBool.
From Sky Require Import Base.Uint Model.Intro.
Open Scope Z_scope.


Lemma blen_nonneg : forall b, 0 <= blen b.
Proof. intros. unfold blen. lia. Qed.

Lemma slice_ok : forall b lo hi, 0 <= lo -> lo <= hi -> hi <= blen b -> slice b lo hi = Val (sub b lo (hi - lo)).
Proof.
  intros b lo hi H1 H2 H3. unfold slice, sub.
  replace ((0 <=? lo) && (lo <=? hi) && (hi <=? blen b)) with true by lia. reflexivity.
Qed.

Lemma blen_sub : forall b lo n, 0 <= lo -> 0 <= n -> lo + n <= blen b -> blen (sub b lo n) = n.
Proof.
  intros b lo n H1 H2 H3. unfold sub, blen in *. rewrite firstn_length, skipn_length. lia.
Qed.

Lemma skipn_add : forall (A : Type) (x y : nat) (l : list A), skipn x (skipn y l) = skipn (x + y) l.
Proof.
  intros A x y. revert x. induction y as [|y IH]; intros x l.
  - cbn [skipn]. f_equal. lia.
  - destruct l as [|a r]; [rewrite !skipn_nil; reflexivity|].
    replace (x + S y)%nat with (S (x + y)) by lia. cbn [skipn]. apply IH.
Qed.

Lemma sub_sub : forall b lo m a n, 0 <= lo -> 0 <= a -> 0 <= n -> a + n <= m ->
  sub (sub b lo m) a n = sub b (lo + a) n.
Proof.
  intros b lo m a n H1 H2 H3 H4. unfold sub.
  rewrite skipn_firstn_comm, firstn_firstn, skipn_add.
  replace (Z.to_nat a + Z.to_nat lo)%nat with (Z.to_nat (lo + a)) by lia.
  replace (Init.Nat.min (Z.to_nat n) (Z.to_nat m - Z.to_nat a)) with (Z.to_nat n) by lia.
  reflexivity.
Qed.

Lemma sub_all : forall b lo, 0 <= lo -> lo <= blen b -> sub b lo (blen b - lo) = skipn (Z.to_nat lo) b.
Proof.
  intros b lo H1 H2. unfold sub. apply firstn_all2. rewrite skipn_length. unfold blen in *. lia.
Qed.

Lemma sub_skipn : forall b lo a n, 0 <= lo -> 0 <= a ->
  firstn (Z.to_nat n) (skipn (Z.to_nat a) (skipn (Z.to_nat lo) b)) = sub b (lo + a) n.
Proof.
  intros. unfold sub. rewrite skipn_add. replace (Z.to_nat a + Z.to_nat lo)%nat with (Z.to_nat (lo + a)) by lia. reflexivity.
Qed.

Lemma firstn_incl : forall (A : Type) n (l : list A) x, In x (firstn n l) -> In x l.
Proof.
  induction n as [|n IH]; intros l x H; [destruct H|]. destruct l as [|y r]; [destruct H|].
  cbn [firstn] in H. destruct H as [H|H]; [left; exact H|right; apply IH; exact H].
Qed.

Lemma is_bytes_firstn : forall b n, is_bytes b -> is_bytes (firstn n b).
Proof. intros b n H. unfold is_bytes in *. apply Forall_forall. intros x Hx. rewrite Forall_forall in H. apply H. eapply firstn_incl. exact Hx. Qed.
Lemma is_bytes_skipn : forall b n, is_bytes b -> is_bytes (skipn n b).
Proof.
  intros b n H. unfold is_bytes in *. apply Forall_forall. intros x Hx. rewrite Forall_forall in H. apply H.
  rewrite <- (firstn_skipn n b). apply in_or_app. right. exact Hx.
Qed.
Lemma is_bytes_sub : forall b lo n, is_bytes b -> is_bytes (sub b lo n).
Proof. intros. unfold sub. apply is_bytes_firstn. apply is_bytes_skipn. assumption. Qed.

Lemma le_val_nonneg : forall b, is_bytes b -> 0 <= le_val b.
Proof.
  induction b as [|x r IH]; intros H; cbn [le_val]; [lia|]. inversion H; subst. specialize (IH H3). lia.
Qed.

Lemma bytes_eqb_spec : forall a b, bytes_eqb a b = true <-> a = b.
Proof.
  induction a as [|x a IH]; intros [|y b]; cbn [bytes_eqb]; split; intros H; try discriminate; try reflexivity.
  - apply andb_true_iff in H as [H1 H2]. apply Z.eqb_eq in H1. apply IH in H2. congruence.
  - injection H as -> ->. rewrite Z.eqb_refl. apply IH. reflexivity.
Qed.

(* Verify without slices: the same decisions on sub-strings *)
Definition intro_spec (ua_valid : bytes -> bool) (dc : config) (m : intro_msg) : verdict :=
  let e := im_extra m in
  let L := blen e in
  if im_mirror m =? cfg_mirror dc then Reject RSelf else
  if im_version m <? cfg_min_version dc then Reject RVersionNotSupported else
  if L =? 0 then Reject RPubkeyNotProvided else
  if L <? 33 then Reject RInvalidExtraData else
  if negb (bytes_eqb (sub e 0 33) (cfg_pubkey dc)) then Reject RPubkeyNotMatched else
  if L <? 42 then Reject RInvalidExtraData else
  let bf := le_val (sub e 33 4) in let mts := le_val (sub e 37 4) in let mdp := le_val (sub e 41 1) in
  if bf <? 2 then Reject RInvalidBurnFactor else
  if mts <? 1024 then Reject RInvalidMaxTransactionSize else
  if 6 <? mdp then Reject RInvalidMaxDropletPrecision else
  if L <? 46 then Reject RInvalidExtraData else
  let n := le_val (sub e 42 4) in
  if L - 46 <? n then Reject RInvalidExtraData else
  if 256 <? n then Reject RInvalidExtraData else
  if negb (ua_valid (sub e 46 n)) then Reject RInvalidUserAgent else
  let rem := L - (46 + n) in
  if (0 <? rem) && (rem <? 32) then Reject RInvalidExtraData else
  Accept (mkAccepted bf mts mdp (sub e 46 n) (copy_hash (skipn (Z.to_nat (46 + n)) e))).

Lemma deserialize_string_spec : forall u, is_bytes u ->
  deserialize_string u 256 =
  Val (if blen u <? 4 then None
       else let n := le_val (sub u 0 4) in
            if blen u - 4 <? n then None else if 256 <? n then None else Some (sub u 4 n, 4 + n)).
Proof.
  intros u Hb. unfold deserialize_string. pose proof (blen_nonneg u) as Hl.
  destruct (blen u <? 4) eqn:E4; [reflexivity|].
  rewrite slice_ok by lia. cbn [bind]. replace (4 - 0) with 4 by lia.
  unfold slice_from. rewrite slice_ok by lia. cbn [bind].
  rewrite sub_all by lia.
  assert (Hrest : blen (skipn (Z.to_nat 4) u) = blen u - 4).
  { unfold blen. rewrite skipn_length. unfold blen in *. lia. }
  rewrite Hrest.
  pose proof (le_val_nonneg (sub u 0 4) (is_bytes_sub u 0 4 Hb)) as Hn.
  destruct (blen u - 4 <? le_val (sub u 0 4)) eqn:En; [reflexivity|].
  replace (0 <? 256) with true by reflexivity. cbn [andb].
  destruct (256 <? le_val (sub u 0 4)) eqn:Em; [reflexivity|].
  rewrite slice_ok by lia. cbn [bind]. replace (le_val (sub u 0 4) - 0) with (le_val (sub u 0 4)) by lia.
  unfold sub at 1. cbn [Z.to_nat skipn]. fold (sub u 4 (le_val (sub u 0 4))).
  unfold sub at 2. reflexivity.
Qed.

Lemma intro_verify_spec : forall ua_valid dc m, is_bytes (im_extra m) ->
  intro_verify ua_valid dc m = Val (intro_spec ua_valid dc m).
Proof.
  intros ua_valid dc m Hb. unfold intro_verify, intro_spec.
  set (e := im_extra m) in *. pose proof (blen_nonneg e) as HL.
  destruct (im_mirror m =? cfg_mirror dc); [reflexivity|].
  destruct (im_version m <? cfg_min_version dc); [reflexivity|].
  destruct (blen e =? 0); [reflexivity|].
  unfold PUBKEY_LEN, PARAMS_LEN, UA_MAXLEN, HASH_LEN, MIN_BURN_FACTOR, MIN_TXN_SIZE, MAX_DECIMALS.
  destruct (blen e <? 33) eqn:E33; [reflexivity|].
  rewrite slice_ok by lia. cbn [bind]. replace (33 - 0) with 33 by lia.
  destruct (negb (bytes_eqb (sub e 0 33) (cfg_pubkey dc))); [reflexivity|].
  replace (33 + 9) with 42 by lia.
  destruct (blen e <? 42) eqn:E42; [reflexivity|].
  rewrite slice_ok by lia. cbn [bind]. replace (42 - 33) with 9 by lia.
  assert (H9 : blen (sub e 33 9) = 9) by (apply blen_sub; lia).
  rewrite !slice_ok by lia. cbn [bind].
  replace (4 - 0) with 4 by lia. replace (8 - 4) with 4 by lia. replace (9 - 8) with 1 by lia.
  rewrite !sub_sub by lia. replace (33 + 0) with 33 by lia. replace (33 + 4) with 37 by lia. replace (33 + 8) with 41 by lia.
  destruct (le_val (sub e 33 4) <? 2); [reflexivity|].
  destruct (le_val (sub e 37 4) <? 1024); [reflexivity|].
  destruct (6 <? le_val (sub e 41 1)); [reflexivity|].
  unfold slice_from at 1. rewrite slice_ok by lia. cbn [bind]. rewrite sub_all by lia.
  set (u := skipn (Z.to_nat 42) e).
  assert (Hu : is_bytes u) by (apply is_bytes_skipn; exact Hb).
  assert (Hul : blen u = blen e - 42) by (unfold u, blen; rewrite skipn_length; unfold blen in *; lia).
  rewrite (deserialize_string_spec u Hu). cbn [bind]. rewrite Hul.
  replace (blen e - 42 <? 4) with (blen e <? 46) by lia.
  destruct (blen e <? 46) eqn:E46; [reflexivity|].
  assert (Hs4 : sub u 0 4 = sub e 42 4).
  { unfold sub, u. reflexivity. }
  cbv zeta. rewrite Hs4.
  pose proof (le_val_nonneg (sub e 42 4) (is_bytes_sub e 42 4 Hb)) as Hn.
  set (n := le_val (sub e 42 4)) in *.
  replace (blen e - 42 - 4 <? n) with (blen e - 46 <? n) by lia.
  destruct (blen e - 46 <? n) eqn:En; [reflexivity|].
  destruct (256 <? n) eqn:Em; [reflexivity|].
  assert (Hsn : sub u 4 n = sub e 46 n).
  { unfold sub, u. rewrite skipn_add. reflexivity. }
  rewrite Hsn.
  destruct (negb (ua_valid (sub e 46 n))); [reflexivity|].
  replace (42 + (4 + n)) with (46 + n) by lia.
  destruct ((0 <? blen e - (46 + n)) && (blen e - (46 + n) <? 32)); [reflexivity|].
  unfold slice_from. rewrite slice_ok by lia. cbn [bind]. rewrite sub_all by lia. reflexivity.
Qed.

Theorem intro_total : forall ua_valid dc m, is_bytes (im_extra m) -> intro_verify ua_valid dc m <> Panic.
Proof. intros ua_valid dc m Hb. rewrite (intro_verify_spec ua_valid dc m Hb). discriminate. Qed.

Lemma intro_spec_iff : forall ua_valid dc m,
  (exists a, intro_spec ua_valid dc m = Accept a) <-> intro_ok ua_valid dc m.
Proof.
  intros ua_valid dc m. unfold intro_spec, intro_ok. set (e := im_extra m). pose proof (blen_nonneg e) as HL.
  cbv zeta. split.
  - intros [a H].
    destruct (im_mirror m =? cfg_mirror dc) eqn:E1; [discriminate|].
    destruct (im_version m <? cfg_min_version dc) eqn:E2; [discriminate|].
    destruct (blen e =? 0) eqn:E3; [discriminate|].
    destruct (blen e <? 33) eqn:E4; [discriminate|].
    destruct (negb (bytes_eqb (sub e 0 33) (cfg_pubkey dc))) eqn:E5; [discriminate|].
    destruct (blen e <? 42) eqn:E6; [discriminate|].
    destruct (le_val (sub e 33 4) <? 2) eqn:E7; [discriminate|].
    destruct (le_val (sub e 37 4) <? 1024) eqn:E8; [discriminate|].
    destruct (6 <? le_val (sub e 41 1)) eqn:E9; [discriminate|].
    destruct (blen e <? 46) eqn:E10; [discriminate|].
    destruct (blen e - 46 <? le_val (sub e 42 4)) eqn:E11; [discriminate|].
    destruct (256 <? le_val (sub e 42 4)) eqn:E12; [discriminate|].
    destruct (negb (ua_valid (sub e 46 (le_val (sub e 42 4))))) eqn:E13; [discriminate|].
    destruct ((0 <? blen e - (46 + le_val (sub e 42 4))) && (blen e - (46 + le_val (sub e 42 4)) <? 32)) eqn:E14; [discriminate|].
    apply negb_false_iff in E5, E13. apply bytes_eqb_spec in E5.
    repeat split; try lia; try assumption.
  - intros [H1 [H2 [H3 [H4 [H5 [H6 [H7 [H8 [H9 [H10 [H11 H12]]]]]]]]]]].
    replace (im_mirror m =? cfg_mirror dc) with false by lia.
    replace (im_version m <? cfg_min_version dc) with false by lia.
    replace (blen e =? 0) with false by lia. replace (blen e <? 33) with false by lia.
    rewrite (proj2 (bytes_eqb_spec _ _) H4). cbn [negb].
    replace (blen e <? 42) with false by lia.
    replace (le_val (sub e 33 4) <? 2) with false by lia.
    replace (le_val (sub e 37 4) <? 1024) with false by lia.
    replace (6 <? le_val (sub e 41 1)) with false by lia.
    replace (blen e <? 46) with false by lia.
    replace (blen e - 46 <? le_val (sub e 42 4)) with false by lia.
    replace (256 <? le_val (sub e 42 4)) with false by lia.
    rewrite H11. cbn [negb].
    replace ((0 <? blen e - (46 + le_val (sub e 42 4))) && (blen e - (46 + le_val (sub e 42 4)) <? 32)) with false by lia.
    eexists. reflexivity.
Qed.

Theorem intro_iff : forall ua_valid dc m, is_bytes (im_extra m) ->
  ((exists a, intro_verify ua_valid dc m = Val (Accept a)) <-> intro_ok ua_valid dc m).
Proof.
  intros ua_valid dc m Hb. rewrite (intro_verify_spec ua_valid dc m Hb). rewrite <- intro_spec_iff.
  split; intros [a H]; exists a; congruence.
Qed.

(* what an accepted introduction records *)
Theorem intro_accept_records : forall ua_valid dc m a, is_bytes (im_extra m) ->
  intro_verify ua_valid dc m = Val (Accept a) ->
  let e := im_extra m in let n := le_val (sub e 42 4) in
  ac_burn a = le_val (sub e 33 4) /\ ac_max_txn_size a = le_val (sub e 37 4) /\ ac_max_decimals a = le_val (sub e 41 1) /\
  ac_user_agent a = sub e 46 n /\ ua_valid (ac_user_agent a) = true /\
  ac_genesis a = copy_hash (skipn (Z.to_nat (46 + n)) e).
Proof.
  intros ua_valid dc m a Hb H. rewrite (intro_verify_spec ua_valid dc m Hb) in H. injection H as H.
  unfold intro_spec in H. cbv zeta in *.
  repeat match type of H with (if ?c then _ else _) = _ => destruct c eqn:?; [discriminate|] end.
  injection H as <-. cbn [ac_burn ac_max_txn_size ac_max_decimals ac_user_agent ac_genesis].
  repeat split. apply negb_false_iff. assumption.
Qed.

Lemma intro_ok_b_spec : forall ua_valid dc m, intro_ok_b ua_valid dc m = true <-> intro_ok ua_valid dc m.
Proof.
  intros ua_valid dc m. unfold intro_ok_b, intro_ok. cbv zeta. set (e := im_extra m). split.
  - intros H.
    destruct (negb (im_mirror m =? cfg_mirror dc) && (cfg_min_version dc <=? im_version m) && (42 <=? blen e) && (46 <=? blen e)) eqn:E1; [|discriminate].
    destruct (bytes_eqb (sub e 0 33) (cfg_pubkey dc) && (2 <=? le_val (sub e 33 4)) && (1024 <=? le_val (sub e 37 4)) && (le_val (sub e 41 1) <=? 6)) eqn:E2; [|discriminate].
    destruct ((le_val (sub e 42 4) <=? 256) && (46 + le_val (sub e 42 4) <=? blen e)) eqn:E3; [|discriminate].
    apply andb_true_iff in H as [H1 H2].
    repeat (apply andb_true_iff in E2 as [E2 ?]). apply bytes_eqb_spec in E2.
    repeat split; try lia; try assumption.
  - intros [H1 [H2 [H3 [H4 [H5 [H6 [H7 [H8 [H9 [H10 [H11 H12]]]]]]]]]]].
    replace (negb (im_mirror m =? cfg_mirror dc) && (cfg_min_version dc <=? im_version m) && (42 <=? blen e) && (46 <=? blen e)) with true by lia.
    rewrite (proj2 (bytes_eqb_spec _ _) H4).
    replace (true && (2 <=? le_val (sub e 33 4)) && (1024 <=? le_val (sub e 37 4)) && (le_val (sub e 41 1) <=? 6)) with true by lia.
    replace ((le_val (sub e 42 4) <=? 256) && (46 + le_val (sub e 42 4) <=? blen e)) with true by lia.
    rewrite H11. cbn [andb]. lia.
Qed.

(* ------------------------------------------------------------------ *)
(* the gate *)
Theorem gate : forall c k, alive c = true -> introduced c = false -> passes_gate k = false ->
  gate_step c k = (c, [SDisconnect RNoIntroduction]).
Proof. intros c k Ha Hi Hp. unfold gate_step. rewrite Ha, Hi, Hp. reflexivity. Qed.

Theorem passes_gate_iff : forall k, passes_gate k = true <-> (exists v, k = KIntro v) \/ k = KDisc \/ k = KGivePeers.
Proof.
  intros k. destruct k; cbn [passes_gate]; split; intros H; try discriminate; try reflexivity;
    try (left; eexists; reflexivity); try (right; left; reflexivity); try (right; right; reflexivity);
    destruct H as [[v H]|[H|H]]; discriminate.
Qed.

Theorem introduced_only_by_accepted_intro : forall c k,
  introduced (fst (gate_step c k)) = true -> introduced c = true \/ exists a, k = KIntro (Accept a).
Proof.
  intros c k H. unfold gate_step in H. destruct (negb (alive c)); [left; exact H|].
  destruct (negb (introduced c) && negb (passes_gate k)); [left; exact H|].
  destruct k as [[a|r]| | | | | | | | | | |]; cbn [process fst introduced] in H; try (left; exact H).
  right. exists a. reflexivity.
Qed.
