(* Specification of the translated UxOut.CoinHours (src/coin/outputs.go). *)
From Sky Require Import Base.Uint Model.ArithSpec Gen.Mathutil Gen.CoinHours Proofs.UintLemmas Proofs.MathutilProofs.
From Coq Require Import Lia ZifyBool.
Open Scope Z_scope.

Lemma coinsec_split coins d : 0 <= coins -> 0 <= d ->
  (coins / 1000000) * d + ((coins mod 1000000) * d) / 1000000 = coins * d / 1000000.
Proof.
  intros Hc Hd.
  rewrite (Z.div_mod coins 1000000) at 3 by lia.
  replace ((1000000 * (coins / 1000000) + coins mod 1000000) * d)
    with ((coins mod 1000000) * d + (coins / 1000000 * d) * 1000000) by ring.
  rewrite Z.div_add by lia. ring.
Qed.

Lemma CoinHours_spec time coins hours t :
  in_u 64 time -> in_u 64 coins -> in_u 64 hours -> in_u 64 t ->
  UxOut_CoinHours time coins hours t = coinhours_spec time coins hours t.
Proof.
  unfold in_u. intros Ht Hc Hh Htt. unfold UxOut_CoinHours, coinhours_spec.
  destruct (t <? time) eqn:E0; [reflexivity|].
  rewrite (wrap_small 64 (t - time)) by lia.
  set (d := t - time). assert (Hd : 0 <= d < 2 ^ 64) by lia.
  assert (Hw : 0 <= coins / 1000000 < 2 ^ 64).
  { split; [apply Z.div_pos; lia|]. apply Z.div_lt_upper_bound; lia. }
  assert (Hr : 0 <= coins mod 1000000 < 1000000) by (apply Z.mod_pos_bound; lia).
  rewrite MultUint64_spec by (unfold in_u; lia). unfold ret_or_err.
  rewrite (Z.mul_comm d (coins / 1000000)).
  destruct (coins / 1000000 * d <? 2 ^ 64) eqn:E1.
  2:{ replace (2 ^ 64 <=? coins / 1000000 * d) with true by lia. reflexivity. }
  replace (2 ^ 64 <=? coins / 1000000 * d) with false by lia.
  rewrite bind_val. cbn [is_err].
  rewrite MultUint64_spec by (unfold in_u; rewrite pow64 in *; lia). unfold ret_or_err.
  rewrite (Z.mul_comm d (coins mod 1000000)).
  destruct (coins mod 1000000 * d <? 2 ^ 64) eqn:E2.
  2:{ replace (2 ^ 64 <=? coins mod 1000000 * d) with true by lia. reflexivity. }
  replace (2 ^ 64 <=? coins mod 1000000 * d) with false by lia.
  rewrite bind_val. cbn [is_err].
  assert (Hq : 0 <= coins mod 1000000 * d / 1000000 < 2 ^ 64).
  { split; [apply Z.div_pos; nia|]. apply Z.div_lt_upper_bound; nia. }
  rewrite AddUint64_spec by (unfold in_u; nia). unfold ret_or_err.
  rewrite coinsec_split by lia.
  destruct (coins * d / 1000000 <? 2 ^ 64) eqn:E3.
  2:{ replace (2 ^ 64 <=? coins * d / 1000000) with true by lia. reflexivity. }
  replace (2 ^ 64 <=? coins * d / 1000000) with false by lia.
  rewrite bind_val. cbn [is_err].
  assert (Hs : 0 <= coins * d / 1000000) by (apply Z.div_pos; nia).
  assert (He : coins * d / 1000000 / 3600 = earned coins d).
  { unfold earned. rewrite Z.div_div by lia. reflexivity. }
  rewrite He.
  assert (Hee : 0 <= earned coins d < 2 ^ 64).
  { rewrite <- He. split; [apply Z.div_pos; lia|]. apply Z.div_lt_upper_bound; lia. }
  rewrite AddUint64_spec by (unfold in_u; lia). unfold ret_or_err.
  destruct (hours + earned coins d <? 2 ^ 64) eqn:E4.
  - replace (2 ^ 64 <=? hours + earned coins d) with false by lia. reflexivity.
  - replace (2 ^ 64 <=? hours + earned coins d) with true by lia. reflexivity.
Qed.

(* error exactly when an intermediate or the final sum does not fit *)
Lemma CoinHours_ok_iff time coins hours t :
  in_u 64 time -> in_u 64 coins -> in_u 64 hours -> in_u 64 t -> time <= t ->
  let d := t - time in
  (exists h, UxOut_CoinHours time coins hours t = Val (h, None)) <->
  ((coins / 1000000) * d < 2 ^ 64 /\ (coins mod 1000000) * d < 2 ^ 64 /\
   coins * d / 1000000 < 2 ^ 64 /\ hours + earned coins d < 2 ^ 64).
Proof.
  intros Ht Hc Hh Htt Hle d. rewrite CoinHours_spec by assumption.
  unfold coinhours_spec. fold d.
  replace (t <? time) with false by lia.
  destruct (2 ^ 64 <=? coins / 1000000 * d) eqn:E1.
  { split; [intros [h H]; discriminate | lia]. }
  destruct (2 ^ 64 <=? coins mod 1000000 * d) eqn:E2.
  { split; [intros [h H]; discriminate | lia]. }
  destruct (2 ^ 64 <=? coins * d / 1000000) eqn:E3.
  { split; [intros [h H]; discriminate | lia]. }
  destruct (2 ^ 64 <=? hours + earned coins d) eqn:E4.
  { split; [intros [h H]; discriminate | lia]. }
  split; [lia | intros _; eexists; reflexivity].
Qed.

Lemma CoinHours_value time coins hours t h :
  in_u 64 time -> in_u 64 coins -> in_u 64 hours -> in_u 64 t -> time <= t ->
  UxOut_CoinHours time coins hours t = Val (h, None) ->
  h = hours + coins * (t - time) / 3600000000 /\ h < 2 ^ 64.
Proof.
  intros Ht Hc Hh Htt Hle. rewrite CoinHours_spec by assumption.
  unfold coinhours_spec. replace (t <? time) with false by lia.
  repeat match goal with |- context [if ?c then _ else _] => destruct c eqn:? end;
    intros H; inversion H; subst. unfold earned in *. split; [reflexivity|lia].
Qed.

(* monotone in t, and errors are upward closed in t (used by C03) *)
Lemma earned_mono coins d d' : 0 <= coins -> 0 <= d <= d' -> earned coins d <= earned coins d'.
Proof. intros. unfold earned. apply Z.div_le_mono; nia. Qed.

Lemma CoinHours_mono time coins hours t t' h h' :
  in_u 64 time -> in_u 64 coins -> in_u 64 hours -> in_u 64 t -> in_u 64 t' -> t <= t' ->
  UxOut_CoinHours time coins hours t = Val (h, None) ->
  UxOut_CoinHours time coins hours t' = Val (h', None) -> h <= h'.
Proof.
  intros Ht Hc Hh Htt Htt' Hle. rewrite !CoinHours_spec by assumption.
  unfold coinhours_spec, in_u in *.
  destruct (t <? time) eqn:E0; destruct (t' <? time) eqn:E0'; try lia.
  - intros H H'. inversion H; inversion H'; lia.
  - intros H. inversion H; subst h.
    repeat match goal with |- context [if ?c then _ else _] => destruct c eqn:? end;
      intros H'; inversion H'; subst.
    assert (0 <= earned coins (t' - time)) by (unfold earned; apply Z.div_pos; nia). lia.
  - repeat match goal with |- context [if ?c then _ else _] => destruct c eqn:? end;
      intros H H'; inversion H; inversion H'; subst.
    pose proof (earned_mono coins (t - time) (t' - time)). lia.
Qed.
