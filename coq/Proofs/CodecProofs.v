(* Proofs about the generic codec model (Model/Codec.v): round trip, size,
   canonical decoding, maxlen enforcement — by induction on the schema. *)
From Coq Require Import ZArith List Bool Lia Arith.
From Sky Require Import Model.Codec.
Import ListNotations.
Open Scope Z_scope.

Section SchemaInd.
  Variable P : schema -> Prop.
  Hypothesis HU : forall w, P (SUInt w).
  Hypothesis HS : forall w, P (SSInt w).
  Hypothesis HB : P SBool.
  Hypothesis HA : forall n s, P s -> P (SArray n s).
  Hypothesis HSl : forall m s, P s -> P (SSlice m s).
  Hypothesis HSt : forall l, Forall P l -> P (SStruct l).
  Fixpoint schema_ind' (s : schema) : P s :=
    match s with
    | SUInt w => HU w
    | SSInt w => HS w
    | SBool => HB
    | SArray n s => HA n s (schema_ind' s)
    | SSlice m s => HSl m s (schema_ind' s)
    | SStruct l => HSt l ((fix go l := match l return Forall P l with
                                       | [] => Forall_nil _
                                       | x :: r => Forall_cons _ (schema_ind' x) (go r)
                                       end) l)
    end.
End SchemaInd.

(* ---------------------------------------------------------------- bytes *)

Lemma pow256_pos w : 0 < pow256 w.
Proof. unfold pow256. apply Z.pow_pos_nonneg; lia. Qed.

Lemma pow256_S w : pow256 (S w) = 256 * pow256 w.
Proof. unfold pow256. rewrite Nat2Z.inj_succ, Z.pow_succ_r by lia. reflexivity. Qed.

Lemma le_bytes_length w z : length (le_bytes w z) = w.
Proof. revert z; induction w as [|w IH]; intros z; cbn [le_bytes length]; [reflexivity|now rewrite IH]. Qed.

Lemma take_bytes_app l rest : take_bytes (length l) (l ++ rest) = Some (l, rest).
Proof. induction l as [|b l IH]; cbn [length take_bytes app]; [reflexivity|]. rewrite IH. reflexivity. Qed.

Lemma take_bytes_spec w bs x y : take_bytes w bs = Some (x, y) -> bs = x ++ y /\ length x = w.
Proof.
  revert bs x y; induction w as [|w IH]; intros bs x y H; cbn [take_bytes] in H.
  - inversion H; subst. split; reflexivity.
  - destruct bs as [|b r]; [discriminate|].
    destruct (take_bytes w r) as [[x' y']|] eqn:E; [|discriminate].
    inversion H; subst. apply IH in E as [E1 E2]. subst r. split; [reflexivity|cbn; lia].
Qed.

Lemma le_val_le_bytes w z : 0 <= z < pow256 w -> le_val (le_bytes w z) = z.
Proof.
  revert z; induction w as [|w IH]; intros z Hz.
  - unfold pow256 in Hz. cbn in *. lia.
  - cbn [le_bytes le_val]. rewrite IH.
    + pose proof (Z.div_mod z 256). lia.
    + rewrite pow256_S in Hz.
      split; [apply Z.div_pos; lia | apply Z.div_lt_upper_bound; lia].
Qed.

Lemma bytes_ok_cons b r : bytes_ok (b :: r) = true <-> (0 <= b < 256) /\ bytes_ok r = true.
Proof.
  unfold bytes_ok, is_byte. cbn [forallb]. rewrite andb_true_iff, andb_true_iff.
  rewrite Z.leb_le, Z.ltb_lt. tauto.
Qed.

Lemma bytes_ok_app a b : bytes_ok (a ++ b) = true <-> bytes_ok a = true /\ bytes_ok b = true.
Proof. unfold bytes_ok. rewrite forallb_app, andb_true_iff. tauto. Qed.

Lemma le_val_range bs : bytes_ok bs = true -> 0 <= le_val bs < pow256 (length bs).
Proof.
  induction bs as [|b r IH]; intros H.
  - unfold pow256. cbn. lia.
  - apply bytes_ok_cons in H as [Hb Hr]. specialize (IH Hr).
    cbn [le_val length]. rewrite pow256_S. lia.
Qed.

Lemma le_bytes_le_val bs : bytes_ok bs = true -> le_bytes (length bs) (le_val bs) = bs.
Proof.
  induction bs as [|b r IH]; intros H; [reflexivity|].
  apply bytes_ok_cons in H as [Hb Hr]. cbn [length le_val le_bytes].
  replace ((b + 256 * le_val r) mod 256) with b.
  2:{ apply Z.mod_unique with (le_val r); lia. }
  replace ((b + 256 * le_val r) / 256) with (le_val r).
  2:{ apply Z.div_unique with b; lia. }
  rewrite IH by assumption. reflexivity.
Qed.

Lemma le_bytes_ok w z : bytes_ok (le_bytes w z) = true.
Proof.
  revert z; induction w as [|w IH]; intros z; [reflexivity|].
  cbn [le_bytes]. apply bytes_ok_cons. split; [apply Z.mod_pos_bound; lia|apply IH].
Qed.

(* signed *)
Lemma pow256_even w : (1 <= w)%nat -> pow256 w = 2 * (pow256 w / 2).
Proof.
  intros H. destruct w as [|w]; [lia|]. rewrite pow256_S.
  replace (256 * pow256 w) with ((128 * pow256 w) * 2) by lia.
  rewrite Z.div_mul by lia. lia.
Qed.

Lemma to_of_signed w z : (1 <= w)%nat -> - (pow256 w / 2) <= z < pow256 w / 2 ->
  to_signed w (of_signed w z) = z.
Proof.
  intros Hw Hz. unfold to_signed, of_signed.
  pose proof (pow256_even w Hw) as E. pose proof (pow256_pos w) as P.
  destruct (Z_lt_ge_dec z 0) as [Hn|Hn].
  - replace (z mod pow256 w) with (z + pow256 w) by (apply Z.mod_unique with (-1); lia).
    destruct (z + pow256 w <? pow256 w / 2) eqn:C; [apply Z.ltb_lt in C; lia|lia].
  - rewrite Z.mod_small by lia.
    destruct (z <? pow256 w / 2) eqn:C; [reflexivity|apply Z.ltb_ge in C; lia].
Qed.

Lemma of_to_signed w u : (1 <= w)%nat -> 0 <= u < pow256 w ->
  of_signed w (to_signed w u) = u /\ - (pow256 w / 2) <= to_signed w u < pow256 w / 2.
Proof.
  intros Hw Hu. unfold to_signed, of_signed.
  pose proof (pow256_even w Hw) as E. pose proof (pow256_pos w) as P.
  destruct (u <? pow256 w / 2) eqn:C.
  - apply Z.ltb_lt in C. rewrite Z.mod_small by lia. lia.
  - apply Z.ltb_ge in C. split; [|lia].
    symmetry. apply Z.mod_unique with (-1); lia.
Qed.

Lemma of_signed_range w z : 0 <= of_signed w z < pow256 w.
Proof. unfold of_signed. apply Z.mod_pos_bound. apply pow256_pos. Qed.

(* ---------------------------------------------------------------- round trip *)

Definition rt (e : val -> cres (list Z)) (d : decoder) (v : val) : Prop :=
  forall bs rest, e v = COk bs -> d (bs ++ rest) = COk (v, rest).

Lemma enc_all_dec_n e d vs :
  Forall (rt e d) vs ->
  forall bs rest, enc_all e vs = COk bs -> dec_n d (length vs) (bs ++ rest) = COk (vs, rest).
Proof.
  induction 1 as [|v vs Hv _ IH]; intros bs rest H.
  - cbn in *. inversion H; subst. reflexivity.
  - cbn [enc_all] in H. destruct (e v) as [a|] eqn:Ea; cbn [cbind] in H; [|discriminate].
    destruct (enc_all e vs) as [b|] eqn:Eb; cbn [cbind] in H; [|discriminate].
    inversion H; subst. cbn [length dec_n]. rewrite <- app_assoc.
    rewrite (Hv a (b ++ rest) Ea). cbn [cbind fst snd].
    rewrite (IH b rest eq_refl). reflexivity.
Qed.

Lemma enc_all_len e vs k bs :
  (forall v b, In v vs -> e v = COk b -> (k <= length b)%nat) ->
  enc_all e vs = COk bs -> (length vs * k <= length bs)%nat.
Proof.
  revert bs; induction vs as [|v vs IH]; intros bs Hk H.
  - cbn in *. lia.
  - cbn [enc_all] in H. destruct (e v) as [a|] eqn:Ea; cbn [cbind] in H; [|discriminate].
    destruct (enc_all e vs) as [b|] eqn:Eb; cbn [cbind] in H; [|discriminate].
    inversion H; subst. rewrite app_length. cbn [length].
    specialize (IH b (fun v' b' Hin => Hk v' b' (or_intror Hin)) eq_refl).
    specialize (Hk v a (or_introl eq_refl) Ea). lia.
Qed.

Lemma enc_all_len_eq e vs k bs :
  (forall v b, In v vs -> e v = COk b -> length b = k) ->
  enc_all e vs = COk bs -> length bs = (length vs * k)%nat.
Proof.
  revert bs; induction vs as [|v vs IH]; intros bs Hk H.
  - cbn in *. inversion H. reflexivity.
  - cbn [enc_all] in H. destruct (e v) as [a|] eqn:Ea; cbn [cbind] in H; [|discriminate].
    destruct (enc_all e vs) as [b|] eqn:Eb; cbn [cbind] in H; [|discriminate].
    inversion H; subst. rewrite app_length. cbn [length].
    rewrite (IH b (fun v' b' Hin => Hk v' b' (or_intror Hin)) eq_refl).
    rewrite (Hk v a (or_introl eq_refl) Ea). lia.
Qed.

Lemma encode_minsize : forall s v bs, encode s v = COk bs -> (minsize s <= length bs)%nat.
Proof.
  induction s as [w|w| |n s IH|m s IH|ss IH] using schema_ind'; intros v bs H.
  - destruct v as [z| |]; cbn [encode] in H; try discriminate.
    destruct ((0 <=? z) && (z <? pow256 w)); [|discriminate]. inversion H; subst.
    rewrite le_bytes_length. reflexivity.
  - destruct v as [z| |]; cbn [encode] in H; try discriminate.
    destruct ((- (pow256 w / 2) <=? z) && (z <? pow256 w / 2)); [|discriminate]. inversion H; subst.
    rewrite le_bytes_length. reflexivity.
  - destruct v as [|b|]; cbn [encode] in H; try discriminate. inversion H; subst. cbn. lia.
  - destruct v as [| |vs]; cbn [encode] in H; try discriminate.
    destruct (Nat.eqb (length vs) n) eqn:E; [|discriminate]. apply Nat.eqb_eq in E. subst n.
    cbn [minsize]. eapply enc_all_len; [|exact H]. intros v b _ Hv. eapply IH; exact Hv.
  - destruct v as [| |vs]; cbn [encode] in H; try discriminate.
    destruct (negb (maxlen_ok m (Z.of_nat (length vs)))); [discriminate|].
    destruct (2 ^ 32 <=? Z.of_nat (length vs)); [discriminate|].
    destruct (enc_all (encode s) vs) as [b|]; cbn [cbind] in H; [|discriminate].
    inversion H; subst. cbn [minsize le_bytes app length]. lia.
  - destruct v as [| |vs]; cbn [encode] in H; try discriminate. cbn [minsize].
    revert vs bs H. induction IH as [|s ss Hs _ IHss]; intros vs bs H.
    + destruct vs; [|discriminate]. cbn. lia.
    + destruct vs as [|v vs]; [discriminate|]. cbn [map enc_seq] in H.
      destruct (encode s v) as [a|] eqn:Ea; cbn [cbind] in H; [|discriminate].
      destruct (enc_seq (map encode ss) vs) as [b|] eqn:Eb; cbn [cbind] in H; [|discriminate].
      inversion H; subst.
      change (list_sum (map minsize (s :: ss))) with (minsize s + list_sum (map minsize ss))%nat.
      rewrite app_length. specialize (Hs v a Ea). specialize (IHss vs b Eb). lia.
Qed.

Lemma take_app w l rest : length l = w -> take w (l ++ rest) = COk (l, rest).
Proof. intros <-. unfold take. rewrite take_bytes_app. reflexivity. Qed.

Theorem decode_encode : forall s, wfb s = true -> forall v, rt (encode s) (decode s) v.
Proof.
  induction s as [w|w| |n s IH|m s IH|ss IH] using schema_ind'; intros Hwf v bs rest H.
  - destruct v as [z| |]; cbn [encode] in H; try discriminate.
    destruct ((0 <=? z) && (z <? pow256 w)) eqn:E; [|discriminate].
    inversion H; subst. apply andb_true_iff in E as [E1 E2]. apply Z.leb_le in E1. apply Z.ltb_lt in E2.
    cbn [decode]. rewrite take_app by apply le_bytes_length. cbn [cbind fst snd].
    rewrite le_val_le_bytes by lia. reflexivity.
  - destruct v as [z| |]; cbn [encode] in H; try discriminate.
    destruct ((- (pow256 w / 2) <=? z) && (z <? pow256 w / 2)) eqn:E; [|discriminate].
    inversion H; subst. apply andb_true_iff in E as [E1 E2]. apply Z.leb_le in E1. apply Z.ltb_lt in E2.
    cbn [wfb] in Hwf. apply Nat.leb_le in Hwf.
    cbn [decode]. rewrite take_app by apply le_bytes_length. cbn [cbind fst snd].
    rewrite le_val_le_bytes by apply of_signed_range.
    rewrite to_of_signed by (assumption || lia). reflexivity.
  - destruct v as [|b|]; cbn [encode] in H; try discriminate. inversion H; subst. destruct b; reflexivity.
  - destruct v as [| |vs]; cbn [encode] in H; try discriminate.
    destruct (Nat.eqb (length vs) n) eqn:E; [|discriminate]. apply Nat.eqb_eq in E. subst n.
    cbn [decode]. cbn [wfb] in Hwf. erewrite enc_all_dec_n; [reflexivity| |exact H].
    apply Forall_forall. intros x _. apply IH. exact Hwf.
  - destruct v as [| |vs]; cbn [encode] in H; try discriminate.
    cbn [wfb] in Hwf. apply andb_true_iff in Hwf as [Hwf Hm]. apply andb_true_iff in Hwf as [Hwf Hmin].
    apply Nat.leb_le in Hmin. apply Z.leb_le in Hm.
    destruct (negb (maxlen_ok m (Z.of_nat (length vs)))) eqn:E2; [discriminate|].
    destruct (2 ^ 32 <=? Z.of_nat (length vs)) eqn:E1; [discriminate|].
    destruct (enc_all (encode s) vs) as [b|] eqn:Eb; cbn [cbind] in H; [|discriminate].
    assert (Hbs : bs = le_bytes 4 (Z.of_nat (length vs)) ++ b) by congruence. subst bs. clear H.
    apply Z.leb_gt in E1.
    cbn [decode]. rewrite <- app_assoc. rewrite take_app by apply le_bytes_length. cbn [cbind fst snd].
    rewrite le_val_le_bytes by (unfold pow256; change (256 ^ Z.of_nat 4) with (2 ^ 32); lia).
    assert (Hlen : (length vs * 1 <= length b)%nat).
    { eapply enc_all_len; [|exact Eb]. intros v' b' _ Hv'. apply encode_minsize in Hv'. lia. }
    replace (Z.of_nat (length (b ++ rest)) <? Z.of_nat (length vs)) with false
      by (symmetry; apply Z.ltb_ge; rewrite app_length; lia).
    rewrite E2. rewrite Nat2Z.id. erewrite enc_all_dec_n; [reflexivity| |exact Eb].
    apply Forall_forall. intros x _. apply IH. exact Hwf.
  - destruct v as [| |vs]; cbn [encode] in H; try discriminate. cbn [decode].
    cbn [wfb] in Hwf.
    assert (G : dec_seq (map decode ss) (bs ++ rest) = COk (vs, rest)).
    { revert vs bs rest H. induction IH as [|s ss Hs _ IHss]; intros vs bs rest H.
      - destruct vs; [|discriminate]. inversion H; subst. reflexivity.
      - cbn [forallb] in Hwf. apply andb_true_iff in Hwf as [Hw1 Hw2].
        destruct vs as [|v vs]; [discriminate|]. cbn [map enc_seq] in H.
        destruct (encode s v) as [a|] eqn:Ea; cbn [cbind] in H; [|discriminate].
        destruct (enc_seq (map encode ss) vs) as [b|] eqn:Eb; cbn [cbind] in H; [|discriminate].
        inversion H; subst. rewrite <- app_assoc. cbn [map dec_seq].
        rewrite (Hs Hw1 v a (b ++ rest) Ea). cbn [cbind fst snd].
        rewrite (IHss Hw2 vs b rest Eb). reflexivity. }
    rewrite G. reflexivity.
Qed.

(* ---------------------------------------------------------------- size *)

Lemma size_all_enc e f vs bs :
  (forall v b, In v vs -> e v = COk b -> Z.of_nat (length b) = f v) ->
  enc_all e vs = COk bs -> Z.of_nat (length bs) = size_all f vs.
Proof.
  revert bs; induction vs as [|v vs IH]; intros bs Hf H.
  - cbn in *. inversion H. reflexivity.
  - cbn [enc_all] in H. destruct (e v) as [a|] eqn:Ea; cbn [cbind] in H; [|discriminate].
    destruct (enc_all e vs) as [b|] eqn:Eb; cbn [cbind] in H; [|discriminate].
    inversion H; subst. rewrite app_length, Nat2Z.inj_add. cbn [size_all].
    rewrite (Hf v a (or_introl eq_refl) Ea).
    rewrite (IH b (fun v' b' Hin => Hf v' b' (or_intror Hin)) eq_refl). reflexivity.
Qed.

Theorem size_encode : forall s v bs, encode s v = COk bs -> Z.of_nat (length bs) = csize s v.
Proof.
  induction s as [w|w| |n s IH|m s IH|ss IH] using schema_ind'; intros v bs H.
  - destruct v as [z| |]; cbn [encode] in H; try discriminate.
    destruct ((0 <=? z) && (z <? pow256 w)); [|discriminate]. inversion H; subst.
    rewrite le_bytes_length. reflexivity.
  - destruct v as [z| |]; cbn [encode] in H; try discriminate.
    destruct ((- (pow256 w / 2) <=? z) && (z <? pow256 w / 2)); [|discriminate]. inversion H; subst.
    rewrite le_bytes_length. reflexivity.
  - destruct v as [|b|]; cbn [encode] in H; try discriminate. inversion H; subst. reflexivity.
  - destruct v as [| |vs]; cbn [encode] in H; try discriminate.
    destruct (Nat.eqb (length vs) n); [|discriminate].
    cbn [csize]. eapply size_all_enc; [|exact H]. intros v b _ Hv. apply IH. exact Hv.
  - destruct v as [| |vs]; cbn [encode] in H; try discriminate.
    destruct (negb (maxlen_ok m (Z.of_nat (length vs)))); [discriminate|].
    destruct (2 ^ 32 <=? Z.of_nat (length vs)); [discriminate|].
    destruct (enc_all (encode s) vs) as [b|] eqn:Eb; cbn [cbind] in H; [|discriminate].
    assert (Hbs : bs = le_bytes 4 (Z.of_nat (length vs)) ++ b) by congruence. subst bs. clear H.
    cbn [csize]. rewrite app_length, le_bytes_length, Nat2Z.inj_add.
    erewrite (size_all_enc (encode s) (csize s) vs b); [reflexivity| |exact Eb].
    intros v b' _ Hv. apply IH. exact Hv.
  - destruct v as [| |vs]; cbn [encode] in H; try discriminate. cbn [csize].
    revert vs bs H. induction IH as [|s ss Hs _ IHss]; intros vs bs H.
    + destruct vs; [|discriminate]. inversion H. reflexivity.
    + destruct vs as [|v vs]; [discriminate|]. cbn [map enc_seq] in H.
      destruct (encode s v) as [a|] eqn:Ea; cbn [cbind] in H; [|discriminate].
      destruct (enc_seq (map encode ss) vs) as [b|] eqn:Eb; cbn [cbind] in H; [|discriminate].
      inversion H; subst. cbn [map size_seq]. rewrite app_length, Nat2Z.inj_add.
      rewrite (Hs v a Ea), (IHss vs b Eb). reflexivity.
Qed.

(* ---------------------------------------------------------------- canonical decoding *)

Definition canon (e : val -> cres (list Z)) (d : decoder) : Prop :=
  forall bs v rest, bytes_ok bs = true -> d bs = COk (v, rest) ->
    exists pre, bs = pre ++ rest /\ e v = COk pre.

Lemma dec_n_canon e d n : canon e d ->
  forall bs vs rest, bytes_ok bs = true -> dec_n d n bs = COk (vs, rest) ->
    exists pre, bs = pre ++ rest /\ enc_all e vs = COk pre /\ length vs = n.
Proof.
  intros Hc. induction n as [|n IH]; intros bs vs rest Hb H.
  - cbn in H. inversion H; subst. exists []. repeat split; reflexivity.
  - cbn [dec_n] in H. destruct (d bs) as [[v r1]|] eqn:Ed; cbn [cbind fst snd] in H; [|discriminate].
    destruct (dec_n d n r1) as [[vs' r2]|] eqn:En; cbn [cbind fst snd] in H; [|discriminate].
    inversion H; subst.
    destruct (Hc bs v r1 Hb Ed) as [p1 [E1 Ev]]. subst bs.
    apply bytes_ok_app in Hb as [_ Hb1].
    destruct (IH r1 vs' rest Hb1 En) as [p2 [E2 [Evs Hl]]]. subst r1.
    exists (p1 ++ p2). split; [now rewrite app_assoc|]. split; [|cbn; lia].
    cbn [enc_all]. rewrite Ev. cbn [cbind]. rewrite Evs. reflexivity.
Qed.

Lemma take_spec w bs x y : take w bs = COk (x, y) -> bs = x ++ y /\ length x = w.
Proof.
  unfold take. destruct (take_bytes w bs) as [[x' y']|] eqn:E; [|discriminate].
  intros H; inversion H; subst. eapply take_bytes_spec; exact E.
Qed.

Theorem decode_canonical : forall s, wfb s = true -> canon (encode s) (decode s).
Proof.
  induction s as [w|w| |n s IH|m s IH|ss IH] using schema_ind'; intros Hwf bs v rest Hb H.
  - cbn [decode] in H. destruct (take w bs) as [[x y]|] eqn:Et; cbn [cbind fst snd] in H; [|discriminate].
    inversion H; subst. apply take_spec in Et as [E L]. subst bs.
    apply bytes_ok_app in Hb as [Hx _]. pose proof (le_val_range x Hx) as R. rewrite L in R.
    exists x. split; [reflexivity|]. cbn [encode].
    replace ((0 <=? le_val x) && (le_val x <? pow256 w)) with true by (symmetry; apply andb_true_iff; split; [apply Z.leb_le|apply Z.ltb_lt]; lia).
    rewrite <- L at 1. rewrite le_bytes_le_val by assumption. reflexivity.
  - cbn [wfb] in Hwf. apply Nat.leb_le in Hwf.
    cbn [decode] in H. destruct (take w bs) as [[x y]|] eqn:Et; cbn [cbind fst snd] in H; [|discriminate].
    inversion H; subst. apply take_spec in Et as [E L]. subst bs.
    apply bytes_ok_app in Hb as [Hx _]. pose proof (le_val_range x Hx) as R. rewrite L in R.
    destruct (of_to_signed w (le_val x) Hwf R) as [O1 O2].
    exists x. split; [reflexivity|]. cbn [encode].
    replace ((- (pow256 w / 2) <=? to_signed w (le_val x)) && (to_signed w (le_val x) <? pow256 w / 2)) with true
      by (symmetry; apply andb_true_iff; split; [apply Z.leb_le|apply Z.ltb_lt]; lia).
    rewrite O1. rewrite <- L at 1. rewrite le_bytes_le_val by assumption. reflexivity.
  - cbn [decode] in H. destruct bs as [|b r]; [discriminate|].
    destruct (b =? 0) eqn:E0.
    + inversion H; subst. apply Z.eqb_eq in E0. subst b. exists [0]. split; reflexivity.
    + destruct (b =? 1) eqn:E1; [|discriminate]. inversion H; subst. apply Z.eqb_eq in E1. subst b.
      exists [1]. split; reflexivity.
  - cbn [wfb] in Hwf. cbn [decode] in H.
    destruct (dec_n (decode s) n bs) as [[vs r]|] eqn:En; cbn [cbind fst snd] in H; [|discriminate].
    inversion H; subst.
    destruct (dec_n_canon (encode s) (decode s) n (IH Hwf) bs vs rest Hb En) as [pre [E [Ee L]]].
    exists pre. split; [exact E|]. cbn [encode]. rewrite L, Nat.eqb_refl. exact Ee.
  - cbn [wfb] in Hwf. apply andb_true_iff in Hwf as [Hwf Hm]. apply andb_true_iff in Hwf as [Hwf Hmin].
    cbn [decode] in H. destruct (take 4 bs) as [[x y]|] eqn:Et; cbn [cbind fst snd] in H; [|discriminate].
    apply take_spec in Et as [E L]. subst bs.
    apply bytes_ok_app in Hb as [Hx Hy]. pose proof (le_val_range x Hx) as R. rewrite L in R.
    unfold pow256 in R. change (256 ^ Z.of_nat 4) with (2 ^ 32) in R.
    destruct (Z.of_nat (length y) <? le_val x) eqn:Eu; [discriminate|].
    destruct (negb (maxlen_ok m (le_val x))) eqn:Em; [discriminate|].
    destruct (dec_n (decode s) (Z.to_nat (le_val x)) y) as [[vs r]|] eqn:En; cbn [cbind fst snd] in H; [|discriminate].
    inversion H; subst.
    destruct (dec_n_canon (encode s) (decode s) _ (IH Hwf) y vs rest Hy En) as [pre [E [Ee Ll]]].
    subst y. exists (x ++ pre). split; [now rewrite app_assoc|].
    cbn [encode]. rewrite Ll, Z2Nat.id by lia. rewrite Em.
    replace (2 ^ 32 <=? le_val x) with false by (symmetry; apply Z.leb_gt; lia).
    rewrite Ee. cbn [cbind]. rewrite <- L at 1. rewrite le_bytes_le_val by assumption. reflexivity.
  - cbn [wfb] in Hwf. cbn [decode] in H.
    destruct (dec_seq (map decode ss) bs) as [[vs r]|] eqn:En; cbn [cbind fst snd] in H; [|discriminate].
    inversion H; subst. clear H. cbn [encode].
    revert bs vs Hb En. induction IH as [|s ss Hs _ IHss]; intros bs vs Hb En.
    + cbn in En. inversion En; subst. exists []. split; reflexivity.
    + cbn [forallb] in Hwf. apply andb_true_iff in Hwf as [Hw1 Hw2].
      cbn [map dec_seq] in En.
      destruct (decode s bs) as [[v r1]|] eqn:Ed; cbn [cbind fst snd] in En; [|discriminate].
      destruct (dec_seq (map decode ss) r1) as [[vs' r2]|] eqn:Es; cbn [cbind fst snd] in En; [|discriminate].
      inversion En; subst.
      destruct (Hs Hw1 bs v r1 Hb Ed) as [p1 [E1 Ev]]. subst bs.
      apply bytes_ok_app in Hb as [_ Hb1].
      destruct (IHss Hw2 r1 vs' Hb1 Es) as [p2 [E2 Evs]]. subst r1.
      exists (p1 ++ p2). split; [now rewrite app_assoc|].
      cbn [map enc_seq]. rewrite Ev. cbn [cbind]. rewrite Evs. reflexivity.
Qed.

(* a slice longer than maxlen is rejected by both directions *)
Theorem maxlen_enforced_enc m s vs : 0 < m -> m < Z.of_nat (length vs) ->
  encode (SSlice m s) (VList vs) = CErr EMaxLen.
Proof.
  intros Hm Hl. cbn [encode]. unfold maxlen_ok.
  replace (m =? 0) with false by (symmetry; apply Z.eqb_neq; lia).
  replace (Z.of_nat (length vs) <=? m) with false by (symmetry; apply Z.leb_gt; lia).
  reflexivity.
Qed.

Theorem maxlen_enforced_dec m s bs v rest : 0 < m -> bytes_ok bs = true ->
  decode (SSlice m s) bs = COk (v, rest) -> exists vs, v = VList vs /\ Z.of_nat (length vs) <= m.
Proof.
  intros Hm Hb H. cbn [decode] in H.
  destruct (take 4 bs) as [[x y]|] eqn:Et; cbn [cbind fst snd] in H; [|discriminate].
  apply take_spec in Et as [E L]. subst bs. apply bytes_ok_app in Hb as [Hx Hy].
  pose proof (le_val_range x Hx) as R.
  destruct (Z.of_nat (length y) <? le_val x); [discriminate|].
  destruct (negb (maxlen_ok m (le_val x))) eqn:Em; [discriminate|].
  destruct (dec_n (decode s) (Z.to_nat (le_val x)) y) as [[vs r]|] eqn:En; cbn [cbind fst snd] in H; [|discriminate].
  inversion H; subst. exists vs. split; [reflexivity|].
  assert (Hl : length vs = Z.to_nat (le_val x)).
  { clear -En. revert y vs En. generalize (Z.to_nat (le_val x)) as n.
    induction n as [|n IH]; intros y vs En; cbn [dec_n] in En.
    - inversion En. reflexivity.
    - destruct (decode s y) as [[v r1]|]; cbn [cbind fst snd] in En; [|discriminate].
      destruct (dec_n (decode s) n r1) as [[vs' r2]|] eqn:E2; cbn [cbind fst snd] in En; [|discriminate].
      inversion En; subst. cbn. f_equal. eapply IH; exact E2. }
  rewrite Hl, Z2Nat.id by lia.
  apply negb_false_iff in Em. unfold maxlen_ok in Em. apply orb_true_iff in Em as [Em|Em].
  - apply Z.eqb_eq in Em. lia.
  - apply Z.leb_le in Em. exact Em.
Qed.

(* ---------------------------------------------------------------- messages *)

Lemma split_last_spec vs front x : split_last vs = Some (front, x) -> vs = front ++ [x].
Proof.
  unfold split_last. destruct (rev vs) as [|y r] eqn:E; [discriminate|].
  intros H; inversion H; subst. rewrite <- (rev_involutive vs), E. reflexivity.
Qed.

Lemma wf_fields_struct fs : forallb wfb fs = true -> wfb (SStruct fs) = true.
Proof. intros H. exact H. Qed.

Theorem msg_roundtrip m v bs : wf_msg m = true ->
  encode_msg m v = COk bs -> decode_msg_exact m bs = COk v.
Proof.
  unfold wf_msg. intros Hwf H. apply andb_true_iff in Hwf as [Hf Ho].
  unfold encode_msg in H. destruct v as [| |vs]; try discriminate.
  unfold decode_msg_exact, decode_msg.
  destruct (m_omit m) as [[mx s]|] eqn:Eo.
  - destruct (split_last vs) as [[front lastv]|] eqn:Esl; [|discriminate].
    apply split_last_spec in Esl. subst vs.
    destruct (encode (SStruct (m_fields m)) (VList front)) as [a|] eqn:Ea; cbn [cbind] in H; [|discriminate].
    destruct lastv as [| |l]; try discriminate.
    destruct l as [|l0 l].
    + inversion H; subst.
      pose proof (decode_encode (SStruct (m_fields m)) (wf_fields_struct _ Hf) (VList front) bs [] Ea) as D.
      rewrite app_nil_r in D. rewrite D. cbn [cbind fst snd]. reflexivity.
    + destruct (encode (SSlice mx s) (VList (l0 :: l))) as [b|] eqn:Eb; cbn [cbind] in H; [|discriminate].
      inversion H; subst.
      rewrite (decode_encode (SStruct (m_fields m)) (wf_fields_struct _ Hf) (VList front) a b Ea).
      cbn [cbind fst snd].
      assert (Hb : b <> []).
      { cbn [encode] in Eb. destruct (negb (maxlen_ok mx _)); [discriminate|].
        destruct (2 ^ 32 <=? _); [discriminate|].
        destruct (enc_all (encode s) (l0 :: l)); cbn [cbind] in Eb; [|discriminate].
        inversion Eb. cbn. discriminate. }
      destruct b as [|b0 b']; [contradiction|].
      pose proof (decode_encode (SSlice mx s) Ho (VList (l0 :: l)) (b0 :: b') [] Eb) as D.
      rewrite app_nil_r in D. rewrite D. cbn [cbind fst snd]. reflexivity.
  - pose proof (decode_encode (SStruct (m_fields m)) (wf_fields_struct _ Hf) (VList vs) bs [] H) as D.
    rewrite app_nil_r in D. rewrite D. cbn [cbind fst snd]. reflexivity.
Qed.

Theorem size_encode_msg m v bs : encode_msg m v = COk bs -> Z.of_nat (length bs) = csize_msg m v.
Proof.
  unfold encode_msg, csize_msg. destruct v as [| |vs]; try discriminate.
  destruct (m_omit m) as [[mx s]|].
  - destruct (split_last vs) as [[front lastv]|]; [|discriminate].
    destruct (encode (SStruct (m_fields m)) (VList front)) as [a|] eqn:Ea; cbn [cbind]; [|discriminate].
    apply size_encode in Ea.
    destruct lastv as [| |l]; try discriminate. destruct l as [|l0 l].
    + intros H; inversion H; subst. lia.
    + destruct (encode (SSlice mx s) (VList (l0 :: l))) as [b|] eqn:Eb; cbn [cbind]; [|discriminate].
      apply size_encode in Eb. intros H; inversion H; subst. rewrite app_length, Nat2Z.inj_add. lia.
  - apply size_encode.
Qed.

(* exact decoding is canonical for every message schema without omitempty *)
Theorem msg_canonical m bs v : wf_msg m = true -> m_omit m = None -> bytes_ok bs = true ->
  decode_msg_exact m bs = COk v -> encode_msg m v = COk bs.
Proof.
  unfold wf_msg. intros Hwf Ho Hb H. rewrite Ho in Hwf. rewrite andb_true_r in Hwf.
  unfold decode_msg_exact, decode_msg in H. rewrite Ho in H.
  destruct (decode (SStruct (m_fields m)) bs) as [[v' r]|] eqn:Ed; cbn [cbind fst snd] in H; [|discriminate].
  destruct r; [|discriminate]. inversion H; subst.
  destruct (decode_canonical (SStruct (m_fields m)) (wf_fields_struct _ Hwf) bs v [] Hb Ed) as [pre [E Ee]].
  rewrite app_nil_r in E. subst pre.
  unfold encode_msg. rewrite Ho.
  cbn [decode] in Ed. destruct (dec_seq (map decode (m_fields m)) bs) as [[vs r]|]; cbn [cbind fst snd] in Ed; [|discriminate].
  inversion Ed; subst. exact Ee.
Qed.

(* with an omitempty tail, the only non-canonical encodings are those that
   spell the empty tail as an explicit zero count *)
Theorem msg_canonical_omit m mx s bs v : wf_msg m = true -> m_omit m = Some (mx, s) -> bytes_ok bs = true ->
  decode_msg_exact m bs = COk v ->
  encode_msg m v = COk bs \/ (exists a, bs = a ++ [0; 0; 0; 0] /\ encode_msg m v = COk a).
Proof.
  unfold wf_msg. intros Hwf Ho Hb H. rewrite Ho in Hwf. apply andb_true_iff in Hwf as [Hf Hs].
  unfold decode_msg_exact, decode_msg in H. rewrite Ho in H.
  destruct (decode (SStruct (m_fields m)) bs) as [[v' r]|] eqn:Ed; cbn [cbind fst snd] in H; [|discriminate].
  destruct (decode_canonical (SStruct (m_fields m)) (wf_fields_struct _ Hf) bs v' r Hb Ed) as [pre [E Ee]].
  assert (Hv' : exists front, v' = VList front).
  { cbn [decode] in Ed. destruct (dec_seq (map decode (m_fields m)) bs) as [[vs r']|]; cbn [cbind fst snd] in Ed; [|discriminate].
    inversion Ed. eexists; reflexivity. }
  destruct Hv' as [front ->].
  destruct r as [|r0 r'].
  - cbn [cbind fst snd] in H. inversion H; subst. rewrite app_nil_r. left.
    unfold encode_msg. rewrite Ho. unfold split_last. rewrite rev_app_distr. cbn [rev app].
    rewrite rev_involutive. rewrite Ee. reflexivity.
  - subst bs. apply bytes_ok_app in Hb as [_ Hr].
    destruct (decode (SSlice mx s) (r0 :: r')) as [[lv r2]|] eqn:Es; cbn [cbind fst snd] in H; [|discriminate].
    destruct r2; [|discriminate]. inversion H; subst.
    destruct (decode_canonical (SSlice mx s) Hs (r0 :: r') lv [] Hr Es) as [p2 [E2 Ee2]].
    rewrite app_nil_r in E2. subst p2.
    assert (Hlv : exists l, lv = VList l).
    { cbn [decode] in Es. destruct (take 4 (r0 :: r')) as [[x y]|]; cbn [cbind fst snd] in Es; [|discriminate].
      destruct (_ <? _); [discriminate|]. destruct (negb _); [discriminate|].
      destruct (dec_n _ _ _) as [[vs r3]|]; cbn [cbind fst snd] in Es; [|discriminate].
      inversion Es. eexists; reflexivity. }
    destruct Hlv as [l ->].
    unfold encode_msg. rewrite Ho. unfold split_last. rewrite rev_app_distr. cbn [rev app].
    rewrite rev_involutive. rewrite Ee. cbn [cbind].
    destruct l as [|l0 l].
    + right. exists pre. split; [|reflexivity].
      cbn [encode] in Ee2. unfold maxlen_ok in Ee2. cbn [length Z.of_nat] in Ee2.
      destruct (negb _); [discriminate|]. cbn in Ee2. inversion Ee2. reflexivity.
    + left. rewrite Ee2. reflexivity.
Qed.
