(* Proofs/LedgerSupply.v — C01: the coins of the unspent set sum (in Z) to the
   genesis volume after every history; accepted transactions are balanced. *)
From Sky Require Import Base.Uint Model.ArithSpec Gen.Mathutil Model.Ledger Model.LedgerSpec
  Proofs.UintLemmas Proofs.MathutilProofs Proofs.LedgerBasics Proofs.LedgerProofs.
From Coq Require Import Lia ZifyBool Permutation.
Open Scope Z_scope.

(* mathutil.AddUint64 folded over a list: the 64-bit result is the Z sum *)
Lemma add_all_spec l : forall acc v, in_u 64 acc -> Forall (in_u 64) l ->
  add_all acc l = Val (Some v) -> v = acc + sumZ l /\ in_u 64 v.
Proof.
  induction l as [|x r IH]; cbn [add_all sumZ]; intros acc v Ha Hl H.
  - inversion H; subst. split; [lia|assumption].
  - inversion Hl as [|? ? Hx Hr]; subst.
    rewrite (AddUint64_spec acc x Ha Hx) in H. unfold ret_or_err in H.
    destruct (acc + x <? 2 ^ 64) eqn:E; cbn [bind is_err] in H; [|discriminate].
    assert (Hin : in_u 64 (acc + x)) by (unfold in_u in *; lia).
    destruct (IH (acc + x) v Hin Hr H) as [H1 H2]. split; [lia|assumption].
Qed.
Lemma add_all_nopanic l : forall acc, in_u 64 acc -> Forall (in_u 64) l -> add_all acc l <> Panic.
Proof.
  induction l as [|x r IH]; cbn [add_all]; intros acc Ha Hl; [discriminate|].
  inversion Hl as [|? ? Hx Hr]; subst.
  rewrite (AddUint64_spec acc x Ha Hx). unfold ret_or_err.
  destruct (acc + x <? 2 ^ 64) eqn:E; cbn [bind is_err]; [|discriminate].
  apply IH; [unfold in_u in *; lia|assumption].
Qed.


(* ---- the coin checks of one transaction *)
Lemma coins_spending_inv uxin outs : coins_spending uxin outs = Pass ->
  Forall (fun u => in_u 64 (u_coins u)) uxin -> Forall (fun o => in_u 64 (o_coins o)) outs ->
  coins_of uxin = sumZ (map o_coins outs) /\ in_u 64 (coins_of uxin).
Proof.
  unfold coins_spending, coins_of. intros H Hi Ho.
  assert (Hi' : Forall (in_u 64) (map u_coins uxin)) by (apply Forall_map; assumption).
  assert (Ho' : Forall (in_u 64) (map o_coins outs)) by (apply Forall_map; assumption).
  assert (H0 : in_u 64 0) by (unfold in_u; lia).
  destruct (add_all 0 (map u_coins uxin)) as [|[cin|]] eqn:E1; try discriminate.
  destruct (add_all 0 (map o_coins outs)) as [|[cout|]] eqn:E2; try discriminate.
  destruct (add_all_spec _ _ _ H0 Hi' E1) as [A1 A2].
  destruct (add_all_spec _ _ _ H0 Ho' E2) as [B1 B2].
  chk_split H. apply guard_pass in Hc, H.
  split; [lia|]. replace (sumZ (map u_coins uxin)) with cin by lia. assumption.
Qed.

Lemma block_txn_inv pool head t : block_txn_constraints pool head t = Pass ->
  Forall (fun u => in_u 64 (u_coins u)) pool -> Forall (fun o => in_u 64 (o_coins o)) (t_outs t) ->
  exists uxin, get_array (t_ins t) pool = Some uxin /\
    t_ins t <> [] /\ NoDup (t_ins t) /\ NoDup (map o_id (t_outs t)) /\
    coins_of uxin = sumZ (map o_coins (t_outs t)) /\ in_u 64 (coins_of uxin).
Proof.
  unfold block_txn_constraints. intros H Hp Ho.
  destruct (get_array (t_ins t) pool) as [uxin|] eqn:E; [|discriminate].
  chk_split H. destruct (txn_verify_inv _ Hc) as [V1 [V2 [V3 [V4 [V5 V6]]]]].
  assert (Hu : Forall (fun u => in_u 64 (u_coins u)) uxin).
  { destruct (get_array_spec _ _ _ E) as [_ G2]. rewrite Forall_forall in *. auto. }
  destruct (coins_spending_inv _ _ Hc2 Hu Ho) as [C1 C2].
  exists uxin. split; [reflexivity|]. split; [assumption|]. split; [assumption|]. split; [assumption|].
  split; assumption.
Qed.


Definition txn_out_coins (t : txn) : Z := sumZ (map o_coins (t_outs t)).
Lemma created_coins b : coins_of (created b) = sumZ (map txn_out_coins (b_txns b)).
Proof.
  unfold created. induction (b_txns b) as [|t r IH]; cbn [flat_map map sumZ]; [reflexivity|].
  rewrite coins_of_app, IH. f_equal. unfold coins_of, created_of, txn_out_coins.
  rewrite map_map. reflexivity.
Qed.
Lemma created_range b : block_in_range b -> Forall (fun u => in_u 64 (u_coins u)) (created b).
Proof.
  unfold block_in_range, created. induction (b_txns b) as [|t r IH]; cbn [flat_map]; intros H; [constructor|].
  inversion H as [|? ? Ht Hr]; subst. apply Forall_app. split; [|auto].
  unfold created_of. apply Forall_map. cbn [u_coins]. assumption.
Qed.

(* the outputs fetched for the whole block carry the coins the transactions create *)
Lemma spent_sum pool head ts : forall spent,
  Forall (fun t => block_txn_constraints pool head t = Pass) ts ->
  Forall (fun u => in_u 64 (u_coins u)) pool ->
  Forall (fun t => Forall (fun o => in_u 64 (o_coins o)) (t_outs t)) ts ->
  get_array (all_ins ts) pool = Some spent ->
  coins_of spent = sumZ (map txn_out_coins ts).
Proof.
  induction ts as [|t r IH]; cbn [all_ins flat_map map sumZ]; intros spent Hc Hp Hr Hg.
  - cbn [get_array] in Hg. inversion Hg; subst. reflexivity.
  - inversion Hc as [|? ? Hc1 Hc2]; subst. inversion Hr as [|? ? Hr1 Hr2]; subst.
    destruct (get_array_app _ _ _ _ Hg) as [ua [ub [Ga [Gb Es]]]]. subst spent.
    destruct (block_txn_inv _ _ _ Hc1 Hp Hr1) as [uxin [G1 [_ [_ [_ [C1 _]]]]]].
    rewrite Ga in G1. inversion G1; subst uxin.
    rewrite coins_of_app, C1. fold (all_ins r) in Gb. rewrite (IH ub Hc2 Hp Hr2 Gb). reflexivity.
Qed.

(* ---- the invariant *)
Definition inv_supply (G : Z) (s : state) : Prop :=
  NoDup (ids (utxo s)) /\ Forall (fun u => in_u 64 (u_coins u)) (utxo s) /\ coins_of (utxo s) = G.

(* the step of the invariant needs only the transaction-level checks and the
   unspent-set update (whatever the header checks decided) *)
Lemma apply_preserves_supply_ok G s b head spent :
  txns_ok (utxo s) head (b_txns b) ->
  get_array (all_ins (b_txns b)) (utxo s) = Some spent ->
  insert_ok s b = true ->
  block_in_range b -> inv_supply G s -> inv_supply G (apply_block s b spent).
Proof.
  intros [P1 [P2 [P3 P4]]] Hg Hi Hr [I1 [I2 I3]].
  unfold inv_supply. rewrite apply_block_utxo. repeat split.
  - apply new_utxo_nodup; assumption.
  - apply Forall_app. split.
    + unfold remove_ids. rewrite Forall_forall in *. intros u Hu. apply filter_In in Hu. apply I2. tauto.
    + apply created_range. assumption.
  - rewrite coins_of_app, created_coins.
    pose proof (remove_ids_sum _ _ _ I1 P4 Hg) as Hs.
    pose proof (spent_sum _ _ _ _ P1 I2 Hr Hg) as Hsp. lia.
Qed.
Lemma apply_preserves_supply G s b head spent :
  process_txns (utxo s) head (b_txns b) = Pass ->
  get_array (all_ins (b_txns b)) (utxo s) = Some spent ->
  insert_ok s b = true ->
  block_in_range b -> inv_supply G s -> inv_supply G (apply_block s b spent).
Proof. intros Hp. apply apply_preserves_supply_ok with (head := head). apply process_txns_ok. assumption. Qed.

Lemma exec_preserves_supply G s b s' :
  exec_block s b = (s', Accepted) -> block_in_range b -> inv_supply G s -> inv_supply G s'.
Proof.
  intros He Hr Hinv.
  destruct (exec_accept_inv _ _ _ He) as [head [rest [spent [Ec [_ [_ [_ [Hp [_ [_ [Hg [Hi Es]]]]]]]]]]]].
  subst s'. exact (apply_preserves_supply _ _ _ _ _ Hp Hg Hi Hr Hinv).
Qed.

Lemma init_supply g : genesis_wf g -> inv_supply (genesis_volume g) (init_state g).
Proof.
  intros [Hr [Hn _]]. unfold inv_supply, init_state. cbn [utxo]. repeat split.
  - rewrite created_ids_eq. assumption.
  - apply created_range. assumption.
Qed.

Lemma reachable_supply g ops : genesis_wf g -> ops_in_range ops ->
  inv_supply (genesis_volume g) (run (init_state g) ops).
Proof.
  intros Hg Ho. apply (run_invariant (inv_supply (genesis_volume g)) block_in_range).
  - intros s b s' He Hq Hs. exact (exec_preserves_supply _ _ _ _ He Hq Hs).
  - apply init_supply. assumption.
  - exact Ho.
Qed.

(* C01, first clause *)
Lemma supply_conserved g ops : genesis_wf g -> ops_in_range ops ->
  sumZ (map u_coins (utxo (run (init_state g) ops))) = genesis_volume g.
Proof. intros Hg Ho. destruct (reachable_supply g ops Hg Ho) as [_ [_ H]]. exact H. Qed.

(* C01, second clause: every transaction of an accepted block spends exactly
   the coins it creates, and the amount fits in 64 bits *)
Lemma accepted_balanced g ops b s' : genesis_wf g -> ops_in_range ops -> block_in_range b ->
  step (run (init_state g) ops) (ExecBlock b) = (s', Accepted) ->
  Forall (fun t => exists uxin,
            get_array (t_ins t) (utxo (run (init_state g) ops)) = Some uxin /\
            sumZ (map u_coins uxin) = sumZ (map o_coins (t_outs t)) /\
            0 <= sumZ (map u_coins uxin) < 2 ^ 64) (b_txns b).
Proof.
  intros Hg Ho Hb He. cbn [step] in He.
  destruct (reachable_supply g ops Hg Ho) as [I1 [I2 I3]].
  destruct (exec_accept_inv _ _ _ He) as [head [rest [spent [Ec [_ [_ [_ [Hp _]]]]]]]].
  destruct (process_txns_inv _ _ _ Hp) as [_ [P1 _]].
  unfold block_in_range in Hb. rewrite Forall_forall in *. intros t Ht.
  destruct (block_txn_inv _ _ _ (P1 t Ht) (proj2 (Forall_forall _ _) I2) (Hb t Ht)) as [uxin [G1 [_ [_ [_ [C1 C2]]]]]].
  exists uxin. split; [assumption|]. split; [exact C1|exact C2].
Qed.
