(* Proofs/SecpProofs.v — unconditional lemmas about Model/Secp.v: constants,
   byte encodings, modular inverse (extended Euclid with fuel), ranges of the
   results of sign / recover / verify. *)
From Coq Require Import ZArith List Bool Lia ZifyBool Znumtheory.
From Sky Require Import Model.Secp.
Import ListNotations.
Open Scope Z_scope.

(* ------------------------------------------------------------------ constants *)

Lemma consts_relations :
  p = 2 ^ 256 - 2 ^ 32 - 977 /\ two256 = 2 ^ 256 /\
  halfOrder = (n - 1) / 2 /\ n = 2 * halfOrder + 1 /\
  sqrt_exp = (p + 1) / 4 /\ p mod 4 = 3 /\
  1 < n /\ n < p /\ p < two256 /\ 2 ^ 255 < n /\
  on_curve G = true.
Proof. vm_compute. repeat split; intro; discriminate. Qed.

Lemma p_gt1 : 1 < p. Proof. reflexivity. Qed.
Lemma n_gt1 : 1 < n. Proof. reflexivity. Qed.
Lemma n_lt_p : n < p. Proof. reflexivity. Qed.
Lemma p_lt_256 : p < 2 ^ 256. Proof. reflexivity. Qed.
Lemma n_lt_256 : n < 2 ^ 256. Proof. reflexivity. Qed.
Lemma n_half : n = 2 * halfOrder + 1. Proof. reflexivity. Qed.
Lemma p_odd : p mod 2 = 1. Proof. reflexivity. Qed.

(* ------------------------------------------------------------------ bytes *)

Fixpoint le_val (bs : list Z) : Z :=
  match bs with [] => 0 | b :: r => b + 256 * le_val r end.

Lemma le_bytes_length len z : length (le_bytes len z) = len.
Proof. revert z; induction len as [|k IH]; intros z; cbn [le_bytes length]; [reflexivity | now rewrite IH]. Qed.

Lemma be_bytes_length len z : length (be_bytes len z) = len.
Proof. unfold be_bytes. rewrite rev_length. apply le_bytes_length. Qed.

Lemma le_val_le_bytes len z : 0 <= z < 256 ^ Z.of_nat len -> le_val (le_bytes len z) = z.
Proof.
  revert z; induction len as [|k IH]; intros z Hz.
  - cbn in *. lia.
  - cbn [le_bytes le_val]. rewrite IH.
    + pose proof (Z.div_mod z 256). lia.
    + rewrite Nat2Z.inj_succ, Z.pow_succ_r in Hz by lia.
      split; [apply Z.div_pos; lia | apply Z.div_lt_upper_bound; lia].
Qed.

Lemma be_val_acc_app acc l b : be_val_acc acc (l ++ [b]) = be_val_acc acc l * 256 + b.
Proof. revert acc; induction l as [|x l IH]; intros acc; cbn [app be_val_acc]; [reflexivity | apply IH]. Qed.

Lemma be_val_rev l : be_val (rev l) = le_val l.
Proof.
  unfold be_val. induction l as [|b l IH]; cbn [rev le_val be_val_acc]; [reflexivity|].
  rewrite be_val_acc_app, IH. lia.
Qed.

Lemma be_val_be_bytes len z : 0 <= z < 256 ^ Z.of_nat len -> be_val (be_bytes len z) = z.
Proof. intros Hz. unfold be_bytes. rewrite be_val_rev. apply le_val_le_bytes, Hz. Qed.

Lemma le_val_range l : forallb is_byte l = true -> 0 <= le_val l < 256 ^ Z.of_nat (length l).
Proof.
  induction l as [|b l IH]; intros H.
  - cbn. lia.
  - cbn [forallb] in H. apply andb_true_iff in H as [Hb Hl]. specialize (IH Hl).
    unfold is_byte in Hb. cbn [le_val length]. rewrite Nat2Z.inj_succ, Z.pow_succ_r by lia. lia.
Qed.

Lemma le_bytes_le_val l : forallb is_byte l = true -> le_bytes (length l) (le_val l) = l.
Proof.
  induction l as [|b l IH]; intros H; [reflexivity|].
  cbn [forallb] in H. apply andb_true_iff in H as [Hb Hl]. unfold is_byte in Hb.
  cbn [length le_val le_bytes].
  assert (Hm : (b + 256 * le_val l) mod 256 = b).
  { symmetry. apply (Z.mod_unique _ _ (le_val l)); lia. }
  assert (Hd : (b + 256 * le_val l) / 256 = le_val l).
  { symmetry. apply (Z.div_unique _ _ _ b); lia. }
  rewrite Hm, Hd.
  now rewrite IH.
Qed.

Lemma be_bytes_be_val l : all_bytes l = true -> be_bytes (length l) (be_val l) = l.
Proof.
  intros H. unfold be_bytes, all_bytes in *.
  rewrite <- (rev_involutive l) at 2. rewrite be_val_rev.
  rewrite <- (rev_length l). rewrite le_bytes_le_val.
  - apply rev_involutive.
  - rewrite forallb_forall in *. intros x Hx. apply H. now apply in_rev.
Qed.

Lemma be_val_range l : all_bytes l = true -> 0 <= be_val l < 256 ^ Z.of_nat (length l).
Proof.
  intros H. unfold all_bytes in H.
  assert (E : be_val l = le_val (rev l)) by (rewrite <- be_val_rev, rev_involutive; reflexivity).
  rewrite E, <- (rev_length l). apply le_val_range.
  rewrite forallb_forall in *. intros x Hx. apply H. now apply in_rev.
Qed.

Lemma le_bytes_all len z : forallb is_byte (le_bytes len z) = true.
Proof.
  revert z; induction len as [|k IH]; intros z; cbn [le_bytes forallb]; [reflexivity|].
  rewrite IH, andb_true_r. unfold is_byte. pose proof (Z.mod_pos_bound z 256). lia.
Qed.

Lemma be_bytes_all len z : all_bytes (be_bytes len z) = true.
Proof.
  unfold all_bytes, be_bytes. rewrite forallb_forall. intros x Hx. apply in_rev in Hx.
  pose proof (le_bytes_all len z) as H. rewrite forallb_forall in H. now apply H.
Qed.

(* ------------------------------------------------------------------ secret keys *)

Lemma seckey_valid_iff k : seckey_valid k = true <-> 0 < k < n.
Proof. unfold seckey_valid. lia. Qed.

Lemma seckey_code_spec k :
  seckey_code k = (if k <=? 0 then -1 else if n <=? k then -2 else 1) /\
  (seckey_code k = 1 <-> seckey_valid k = true).
Proof.
  split; [reflexivity|]. unfold seckey_code, seckey_valid.
  destruct (k <=? 0) eqn:E1; destruct (n <=? k) eqn:E2; lia.
Qed.

(* ------------------------------------------------------------------ modular inverse *)

Lemma egcd_bezout a m : forall fuel r0 r1 s0 s1 g s,
  (m | r0 - s0 * a) -> (m | r1 - s1 * a) ->
  egcd fuel r0 r1 s0 s1 = Some (g, s) -> (m | g - s * a).
Proof.
  induction fuel as [|f IH]; intros r0 r1 s0 s1 g s H0 H1 E; [discriminate|].
  cbn [egcd] in E. destruct (r1 =? 0) eqn:Er.
  - injection E as <- <-. exact H0.
  - eapply IH; [exact H1| |exact E].
    replace (r0 mod r1 - (s0 - r0 / r1 * s1) * a)
      with ((r0 - s0 * a) - (r0 / r1) * (r1 - s1 * a))
      by (rewrite (Z.mod_eq r0 r1) by lia; ring).
    apply Z.divide_sub_r; [exact H0 | apply Z.divide_mul_r, H1].
Qed.

Lemma egcd_gcd : forall fuel r0 r1 s0 s1 g s,
  0 <= r0 -> 0 <= r1 ->
  egcd fuel r0 r1 s0 s1 = Some (g, s) -> g = Z.gcd r0 r1.
Proof.
  induction fuel as [|f IH]; intros r0 r1 s0 s1 g s H0 H1 E; [discriminate|].
  cbn [egcd] in E. destruct (r1 =? 0) eqn:Er.
  - injection E as <- _. apply Z.eqb_eq in Er. subst r1. rewrite Z.gcd_0_r. lia.
  - apply IH in E; [|lia|apply Z.mod_pos_bound; lia].
    rewrite E, Z.gcd_comm, Z.gcd_mod by lia. apply Z.gcd_comm.
Qed.

Lemma egcd_enough : forall f r0 r1 s0 s1,
  0 <= r1 < r0 -> r0 * r1 < 2 ^ Z.of_nat f ->
  exists res, egcd (S f) r0 r1 s0 s1 = Some res.
Proof.
  induction f as [|f IH]; intros r0 r1 s0 s1 Hr Hp.
  - cbn [egcd]. assert (r1 = 0) by (cbn in Hp; nia). subst r1. cbn. eauto.
  - cbn [egcd]. destruct (r1 =? 0) eqn:Er; [eauto|].
    change (exists res, egcd (S f) r1 (r0 mod r1) s1 (s0 - r0 / r1 * s1) = Some res).
    apply IH.
    + apply Z.mod_pos_bound. lia.
    + rewrite Nat2Z.inj_succ, Z.pow_succ_r in Hp by lia.
      pose proof (Z.mod_pos_bound r0 r1 ltac:(lia)) as Hm.
      pose proof (Z.div_mod r0 r1 ltac:(lia)) as Hd.
      assert (Hq : 1 <= r0 / r1) by (apply Z.div_le_lower_bound; lia).
      nia.
Qed.

(* modinv with the fuel as a parameter (keeps the 520-step unfolding out of the proof terms) *)
Definition modinv_f (fuel : nat) (a m : Z) : option Z :=
  match egcd fuel m (a mod m) 0 1 with
  | Some (g, s) => if g =? 1 then Some (s mod m) else None
  | None => None
  end.
Lemma modinv_unfold a m : modinv a m = modinv_f egcd_fuel a m.
Proof. unfold modinv, modinv_f. reflexivity. Qed.

Lemma modinv_f_sound fuel a m x : 1 < m -> modinv_f fuel a m = Some x -> (a * x) mod m = 1 /\ 0 <= x < m.
Proof.
  intros Hm E. unfold modinv_f in E.
  destruct (egcd fuel m (a mod m) 0 1) as [[g s]|] eqn:Eg; [|discriminate].
  destruct (g =? 1) eqn:E1; [|discriminate]. injection E as <-. apply Z.eqb_eq in E1. subst g.
  split; [|apply Z.mod_pos_bound; lia].
  apply (egcd_bezout a m) in Eg.
  - destruct Eg as [q Hq].
    rewrite Z.mul_mod_idemp_r by lia.
    replace (a * s) with (1 + (- q) * m) by lia.
    rewrite Z.mod_add by lia. apply Z.mod_small. lia.
  - exists 1. ring.
  - exists (- (a / m)). rewrite (Z.mod_eq a m) by lia. ring.
Qed.

Lemma modinv_sound a m x : 1 < m -> modinv a m = Some x -> (a * x) mod m = 1 /\ 0 <= x < m.
Proof. rewrite modinv_unfold. apply modinv_f_sound. Qed.

Lemma modinv_f_complete f a m :
  1 < m -> m * m <= 2 ^ Z.of_nat f -> Z.gcd (a mod m) m = 1 -> exists x, modinv_f (S f) a m = Some x.
Proof.
  intros Hm Hf Hg. unfold modinv_f.
  pose proof (Z.mod_pos_bound a m ltac:(lia)) as Ha.
  destruct (egcd_enough f m (a mod m) 0 1 ltac:(lia) ltac:(nia)) as [[g s] E].
  rewrite E.
  apply egcd_gcd in E; [|lia|lia]. rewrite Z.gcd_comm in E. rewrite E, Hg. cbn. eauto.
Qed.

Lemma fuel_enough : 2 ^ 256 * 2 ^ 256 <= 2 ^ Z.of_nat 519.
Proof. vm_compute. intro; discriminate. Qed.

Lemma modinv_complete a m :
  1 < m < 2 ^ 256 -> Z.gcd (a mod m) m = 1 -> exists x, modinv a m = Some x.
Proof.
  intros Hm Hg. rewrite modinv_unfold. change egcd_fuel with (S 519).
  apply modinv_f_complete; [lia| |exact Hg].
  pose proof fuel_enough. nia.
Qed.

Lemma modinv_none a m x : 1 < m -> (a * x) mod m = 1 -> Z.gcd (a mod m) m = 1.
Proof.
  intros Hm H.
  apply Zgcd_1_rel_prime. apply bezout_rel_prime.
  apply Bezout_intro with (u := x) (v := - (a * x / m) + (a / m) * x).
  rewrite (Z.mod_eq a m) by lia.
  rewrite (Z.mod_eq (a * x) m) in H by lia. lia.
Qed.

(* for a prime modulus every non-zero residue is invertible *)
Lemma modinv_prime a m :
  prime m -> m < 2 ^ 256 -> a mod m <> 0 ->
  exists x, modinv a m = Some x /\ (a * x) mod m = 1 /\ 0 <= x < m.
Proof.
  intros Hp Hm Ha.
  assert (H1 : 1 < m) by (destruct Hp; lia).
  destruct (modinv_complete a m) as [x Hx]; [lia| |].
  - apply Zgcd_1_rel_prime. apply rel_prime_sym. apply prime_rel_prime; [exact Hp|].
    intros [q Hq]. pose proof (Z.mod_pos_bound a m ltac:(lia)).
    assert (q = 0) by nia. lia.
  - exists x. split; [exact Hx|]. now apply modinv_sound.
Qed.

Lemma modinv_mod a m : modinv (a mod m) m = modinv a m.
Proof. unfold modinv. rewrite Zmod_mod. reflexivity. Qed.

(* ------------------------------------------------------------------ ranges of field operations *)

Lemma fmod_range a : 0 <= a mod p < p.
Proof. apply Z.mod_pos_bound. reflexivity. Qed.
Lemma fadd_range a b : in_field (fadd a b) = true.
Proof. unfold in_field, fadd. pose proof (fmod_range (a + b)). lia. Qed.
Lemma fsub_range a b : in_field (fsub a b) = true.
Proof. unfold in_field, fsub. pose proof (fmod_range (a - b)). lia. Qed.
Lemma fmul_range a b : in_field (fmul a b) = true.
Proof. unfold in_field, fmul. pose proof (fmod_range (a * b)). lia. Qed.
Lemma fneg_range a : in_field (fneg a) = true.
Proof. unfold in_field, fneg. pose proof (fmod_range (- a)). lia. Qed.

(* ------------------------------------------------------------------ signing: ranges (C10 sign_low_s) *)

Lemma sign_ranges k m nonce r s v :
  sign k m nonce = Some (r, s, v) ->
  0 <= r < n /\ 0 < s <= halfOrder /\ 0 <= v < 4.
Proof.
  unfold sign. destruct (smulx nonce G) as [|rx ry]; [discriminate|].
  destruct (rx =? 0); [discriminate|].
  destruct (modinv nonce n) as [ki|]; [|discriminate].
  set (r0 := rx mod n).
  set (s0 := (ki * ((r0 * k + m) mod n)) mod n).
  set (v0 := (if n <=? rx then 2 else 0) + (if Z.odd ry then 1 else 0)).
  assert (Hr : 0 <= r0 < n) by (apply Z.mod_pos_bound; reflexivity).
  assert (Hs : 0 <= s0 < n) by (apply Z.mod_pos_bound; reflexivity).
  assert (Hv : 0 <= v0 < 4 /\ (Z.odd v0 = true -> 1 <= v0) /\ (Z.odd v0 = false -> v0 <= 2)).
  { unfold v0. destruct (n <=? rx); destruct (Z.odd ry); cbn; lia. }
  pose proof n_half as Hn.
  clearbody r0 s0 v0. revert Hn Hr Hs. generalize n halfOrder. intros N H Hn Hr Hs.
  destruct (s0 =? 0) eqn:E0; [discriminate|].
  destruct (H <? s0) eqn:Eh; intros E; injection E as <- <- <-.
  - destruct (Z.odd v0) eqn:Eo; lia.
  - lia.
Qed.

(* ------------------------------------------------------------------ recovery: accepted ranges *)

Lemma recover_ranges m r s v Q :
  recover m r s v = inl Q ->
  0 < r < n /\ 0 < s < n /\ (Z.odd (v / 2) = true -> r + n < p) /\ Q <> Inf.
Proof.
  unfold recover.
  destruct (r =? 0) eqn:E1; [discriminate|].
  destruct (r <? 0) eqn:E2; [discriminate|].
  destruct (n <=? r) eqn:E3; [discriminate|].
  destruct ((s <=? 0) || (n <=? s)) eqn:E4; [discriminate|].
  destruct (Z.odd (v / 2)) eqn:Eo.
  - cbn [andb]. destruct (p <=? r + n) eqn:E5; [discriminate|].
    destruct (lift_x (Z.odd v) (r + n)); [|discriminate].
    destruct (modinv r n); [|discriminate].
    destruct (lincomb _ _ _ _) eqn:El; [discriminate|].
    intros E. injection E as <-. repeat split; try lia. discriminate.
  - cbn [andb].
    destruct (lift_x (Z.odd v) r); [|discriminate].
    destruct (modinv r n); [|discriminate].
    destruct (lincomb _ _ _ _) eqn:El; [discriminate|].
    intros E. injection E as <-. repeat split; try lia; discriminate.
Qed.

(* the recovery id is used modulo 4 only *)
Lemma recover_recid_mod4 m r s v : 0 <= v -> recover m r s (v mod 4) = recover m r s v.
Proof.
  intros Hv. unfold recover.
  assert (H1 : Z.odd (v mod 4) = Z.odd v).
  { rewrite !Zodd_mod. replace ((v mod 4) mod 2) with (v mod 2); [reflexivity|].
    rewrite <- (Znumtheory.Zmod_div_mod 2 4 v); try lia. exists 2. lia. }
  assert (H2 : Z.odd (v mod 4 / 2) = Z.odd (v / 2)).
  { rewrite !Zodd_mod.
    replace ((v mod 4 / 2) mod 2) with ((v / 2) mod 2); [reflexivity|].
    pose proof (Z.div_mod v 4 ltac:(lia)). pose proof (Z.mod_pos_bound v 4 ltac:(lia)).
    pose proof (Z.div_mod (v mod 4) 2 ltac:(lia)). pose proof (Z.mod_pos_bound (v mod 4) 2 ltac:(lia)).
    pose proof (Z.div_mod v 2 ltac:(lia)). pose proof (Z.mod_pos_bound v 2 ltac:(lia)).
    pose proof (Z.div_mod (v / 2) 2 ltac:(lia)). pose proof (Z.mod_pos_bound (v / 2) 2 ltac:(lia)).
    pose proof (Z.div_mod (v mod 4 / 2) 2 ltac:(lia)). pose proof (Z.mod_pos_bound (v mod 4 / 2) 2 ltac:(lia)).
    lia. }
  now rewrite H1, H2.
Qed.

(* ------------------------------------------------------------------ public keys: parsing is canonical *)

Lemma pow_pos_range m b e : 0 < m -> 0 <= pow_pos m b e < m.
Proof. intros Hm. destruct e; cbn [pow_pos]; apply Z.mod_pos_bound; exact Hm. Qed.

Lemma fsqrt_range c : in_field (fsqrt c) = true.
Proof.
  unfold fsqrt, sqrt_exp, powm, in_field.
  match goal with |- context [pow_pos p c ?e] => pose proof (pow_pos_range p c e ltac:(reflexivity)) end.
  lia.
Qed.

Lemma mod_neg_sq m y : ((- y) mod m * ((- y) mod m)) mod m = (y * y) mod m.
Proof. rewrite Zmult_mod_idemp_l, Zmult_mod_idemp_r. f_equal. ring. Qed.

Lemma lift_x_sound odd x P :
  lift_x odd x = Some P ->
  exists y, P = Aff x y /\ on_curve P = true /\ Z.odd y = odd.
Proof.
  unfold lift_x. destruct (in_field x) eqn:Ex; [|discriminate].
  set (y := fsqrt (curve_rhs x)).
  assert (Hy : in_field y = true) by apply fsqrt_range.
  clearbody y.
  destruct (fmul y y =? curve_rhs x) eqn:Ec; [|discriminate].
  set (y' := if Bool.eqb (Z.odd y) odd then y else fneg y).
  destruct (Bool.eqb (Z.odd y') odd) eqn:Eo; [|discriminate].
  intros E. injection E as <-. exists y'. split; [reflexivity|]. split.
  - cbn [on_curve]. rewrite Ex. cbn [andb].
    assert (Hy' : in_field y' = true /\ fmul y' y' = fmul y y).
    { unfold y'. destruct (Bool.eqb (Z.odd y) odd); [now split|]. split; [apply fneg_range|].
      unfold fmul, fneg. apply mod_neg_sq. }
    destruct Hy' as [-> ->]. cbn [andb]. exact Ec.
  - now apply eqb_prop in Eo.
Qed.

Lemma parse_pubkey_sound bs P :
  all_bytes bs = true -> parse_pubkey bs = inl P ->
  on_curve P = true /\ P <> Inf /\ compress P = Some bs.
Proof.
  intros Hb. unfold parse_pubkey. destruct bs as [|pre xs]; [discriminate|].
  destruct (Nat.eqb (length xs) 32) eqn:El; cbn [negb]; [|discriminate].
  destruct ((pre =? 2) || (pre =? 3)) eqn:Ep; cbn [negb]; [|discriminate].
  destruct (in_field (be_val xs)) eqn:Ef; cbn [negb]; [|discriminate].
  destruct (lift_x (pre =? 3) (be_val xs)) as [Q|] eqn:Ex; [|discriminate].
  intros E. injection E as <-.
  apply lift_x_sound in Ex as (y & -> & Hc & Ho).
  split; [exact Hc|]. split; [discriminate|].
  cbn [compress]. rewrite Ho. apply Nat.eqb_eq in El.
  cbn [all_bytes forallb] in Hb. apply andb_true_iff in Hb as [_ Hx].
  replace (be_bytes 32 (be_val xs)) with xs by (rewrite <- El; symmetry; apply be_bytes_be_val, Hx).
  f_equal. f_equal. destruct (pre =? 3) eqn:E3; lia.
Qed.
