(* Proofs/SigAcceptGroup.v — C10: which signatures the node accepts.
   (1) what is produced is accepted; (2) the negated signature (r, n - s, recid xor 1)
   is accepted for the same key exactly when bit 255 of n - s is clear;
   (3) "only low-s signatures are accepted" is FALSE of the code's acceptance
   predicate: witness with s = halfOrder + 1 (finding F12). *)
From Coq Require Import ZArith List Bool Lia ZifyBool Znumtheory.
From Sky Require Import Model.Secp Model.SigAccept Proofs.SecpProofs Proofs.SecpJacobian Proofs.SecpGroup
  Proofs.SecpOrder Proofs.SigAcceptProofs.
Import ListNotations.
Open Scope Z_scope.

Lemma bytes_eqb_refl l : bytes_eqb l l = true.
Proof. induction l as [|a l IH]; [reflexivity|]. cbn [bytes_eqb]. rewrite Z.eqb_refl. exact IH. Qed.

Definition flip_recid (v : Z) : Z := if Z.odd v then v - 1 else v + 1.

Lemma flip_recid_range v : 0 <= v < 4 -> 0 <= flip_recid v < 4.
Proof. intros H. assert (E : v = 0 \/ v = 1 \/ v = 2 \/ v = 3) by lia. destruct E as [E|[E|[E|E]]]; subst v; cbv; split; congruence. Qed.

Section Accept.
  Hypothesis prime_p : prime p.
  Hypothesis prime_n : prime n.
  Hypothesis assoc : padd_associative.
  Hypothesis sqrt_ok : sqrt_correct.

  (* a produced signature is accepted for the signer's key *)
  Theorem sign_accepted msg k nonce r s v pk :
    msg <> [] -> 0 <= be_val msg -> 0 < k < n -> 0 < nonce < n ->
    sign k (be_val msg) nonce = Some (r, s, v) -> r <> 0 ->
    pubkey_of_seckey k = Some pk ->
    verify_signature msg (sig_bytes r s v) pk = true.
  Proof.
    intros Hmsg Hm Hk Hnonce Hs Hr0 Hpk.
    pose proof (sign_ranges _ _ _ _ _ _ Hs) as (Rr & Rs & Rv).
    pose proof n_half as Hn. pose proof n_lt_256 as Hn256.
    assert (Hh : halfOrder < 2 ^ 255) by reflexivity.
    assert (E255 : 2 ^ 256 = 2 * 2 ^ 255) by reflexivity.
    rewrite verify_signature_bytes by (assumption || lia).
    rewrite (recover_sign_final prime_p prime_n assoc sqrt_ok k _ nonce r s v Hk Hm Hnonce Hs Hr0).
    unfold pubkey_of_seckey in Hpk. destruct (seckey_valid k); [|discriminate Hpk].
    rewrite (smulx_correct prime_p) in Hpk by (vm_compute; reflexivity). rewrite Hpk.
    replace (s <? 2 ^ 255) with true by lia. replace (v <? 4) with true by lia. cbn [andb].
    clear - Hpk. destruct (smul k G) as [|x y]; [discriminate Hpk|]. cbn [compress] in Hpk. injection Hpk as <-.
    cbn [bytes_eqb]. rewrite Z.eqb_refl. apply bytes_eqb_refl.
  Qed.

  (* the malleated signature is accepted for the same key iff bit 255 of n - s is clear,
     i.e. iff n - 2^255 < s: only then is the produced signature malleable by a third party *)
  Theorem malleated_accepted_iff msg k nonce r s v pk :
    msg <> [] -> 0 <= be_val msg -> 0 < k < n -> 0 < nonce < n ->
    sign k (be_val msg) nonce = Some (r, s, v) -> r <> 0 ->
    pubkey_of_seckey k = Some pk ->
    verify_signature msg (sig_bytes r (n - s) (flip_recid v)) pk = (n - 2 ^ 255 <? s).
  Proof.
    intros Hmsg Hm Hk Hnonce Hs Hr0 Hpk.
    pose proof (sign_ranges _ _ _ _ _ _ Hs) as (Rr & Rs & Rv).
    pose proof n_half as Hn. pose proof n_lt_256 as Hn256.
    assert (Hh : halfOrder < 2 ^ 255) by reflexivity.
    assert (E255 : 2 ^ 256 = 2 * 2 ^ 255) by reflexivity.
    pose proof (flip_recid_range v Rv) as Rf.
    rewrite verify_signature_bytes by (assumption || lia).
    unfold flip_recid in *.
    rewrite (malleated_recovers_signer prime_p prime_n assoc (order_G_proved prime_p) sqrt_ok k _ nonce r s v Hk Hm Hnonce Hs Hr0).
    unfold pubkey_of_seckey in Hpk. destruct (seckey_valid k); [|discriminate Hpk].
    rewrite (smulx_correct prime_p) in Hpk by (vm_compute; reflexivity). rewrite Hpk.
    replace ((if Z.odd v then v - 1 else v + 1) <? 4) with true by lia.
    assert (Eb : bytes_eqb pk pk = true).
    { clear - Hpk. destruct (smul k G) as [|x y]; [discriminate Hpk|]. cbn [compress] in Hpk. injection Hpk as <-.
      cbn [bytes_eqb]. rewrite Z.eqb_refl. apply bytes_eqb_refl. }
    rewrite Eb, !andb_true_r. clear - Rs Hn. lia.
  Qed.
End Accept.

(* ---- the refutation: a signature with s = halfOrder + 1 > halfOrder is accepted *)
Definition f12_msg : list Z := repeat 1 32.
Definition f12_sig : list Z := sig_bytes 1 (halfOrder + 1) 0.
Definition f12_pk : list Z :=
  [2; 208; 205; 224; 201; 165; 128; 70; 246; 151; 41; 136; 98; 197; 7; 218; 114; 116; 104; 56; 209; 49; 36; 190; 124;
   217; 43; 96; 229; 0; 58; 142; 248].

Lemma f12_accepted : verify_signature f12_msg f12_sig f12_pk = true.
Proof. vm_cast_no_check (eq_refl true). Qed.

(* whatever VerifySignature accepts, VerifyPubKeySignedHash accepts (same tests) *)
Lemma verify_signature_vpsh msg sg pk :
  verify_signature msg sg pk = true -> verify_pubkey_signed_hash pk sg msg = SigOK.
Proof.
  intros H. unfold verify_pubkey_signed_hash, pubkey_from_sig.
  pose proof H as H'. unfold verify_signature in H'.
  apply andb_true_iff in H' as [H1 H2]. apply andb_true_iff in H1 as [H0 H1].
  destruct (recover_pubkey msg sg) as [pk'|] eqn:E; [|discriminate H2].
  assert (E2 : bytes_eqb pk' pk = true).
  { clear - H2. revert pk H2. induction pk' as [|a l IH]; intros [|b q]; cbn [bytes_eqb]; try discriminate; auto.
    intros H. apply andb_true_iff in H as [A B]. apply andb_true_iff. split; [rewrite Z.eqb_sym; exact A|]. apply IH. exact B. }
  rewrite E2. cbn [negb]. rewrite H1. cbn [negb]. rewrite H. reflexivity.
Qed.

Lemma f12_s : sig_s f12_sig = halfOrder + 1.
Proof. unfold f12_sig. apply sig_bytes_s. vm_compute. split; [intro; discriminate|reflexivity]. Qed.

Lemma high_s_accepted_refuted :
  exists msg sg pk,
    verify_signature msg sg pk = true /\ verify_pubkey_signed_hash pk sg msg = SigOK /\
    halfOrder < sig_s sg < n /\ sig_s sg = halfOrder + 1.
Proof.
  exists f12_msg, f12_sig, f12_pk.
  split; [exact f12_accepted|]. split; [exact (verify_signature_vpsh _ _ _ f12_accepted)|].
  rewrite f12_s. pose proof n_half. assert (0 < halfOrder) by reflexivity. lia.
Qed.

Lemma f12_example :
  length f12_sig = 65%nat /\ length f12_pk = 33%nat /\ sig_r f12_sig = 1 /\ sig_recid f12_sig = 0 /\
  verify_signature f12_msg f12_sig f12_pk = true.
Proof.
  split; [apply sig_bytes_length|]. split; [reflexivity|].
  split; [apply sig_bytes_r; vm_compute; split; [intro; discriminate|reflexivity]|].
  split; [apply sig_bytes_recid|exact f12_accepted].
Qed.
