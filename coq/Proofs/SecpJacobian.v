(* Proofs/SecpJacobian.v — jacobian_correct: the Jacobian formulas used for
   execution (jdouble, jadd, jsmul_pos, smulx, lincomb) compute the affine
   chord-tangent operations (padd, smul).  Premise: `prime p` only (F_p is a
   field); for the addition of two points with the same abscissa the points
   must be on the curve (y1^2 = y2^2 then gives y1 = +-y2). *)
From Coq Require Import ZArith Lia Znumtheory Ring Field Setoid Morphisms Bool.
From Sky Require Import Model.Secp Proofs.SecpProofs Proofs.SecpField.
Open Scope Z_scope.

(* coordinates are canonical representatives *)
Definition jcanon (J : jpoint) : bool :=
  let '(X, Y, Zc) := J in in_field X && in_field Y && in_field Zc.

Lemma jcanon_inv X Y Zc : jcanon (X, Y, Zc) = true ->
  in_field X = true /\ in_field Y = true /\ in_field Zc = true.
Proof. cbn [jcanon]. intros H. apply andb_true_iff in H as [H H3]. apply andb_true_iff in H as [H1 H2]. auto. Qed.

Lemma to_j_canon P : on_curve P = true -> jcanon (to_j P) = true.
Proof.
  destruct P as [|x y]; [reflexivity|]. cbn [on_curve to_j jcanon]. intros H.
  apply andb_true_iff in H as [H _]. apply andb_true_iff in H as [H1 H2]. rewrite H1, H2. reflexivity.
Qed.

Lemma jdouble_canon J : jcanon (jdouble J) = true.
Proof.
  destruct J as [[X Y] Zc]. unfold jdouble. destruct ((Zc =? 0) || (Y =? 0)); [reflexivity|].
  cbv zeta. cbn [jcanon]. now rewrite !fsub_range, fmul_range.
Qed.

Lemma jadd_canon J1 J2 : jcanon J1 = true -> jcanon J2 = true -> jcanon (jadd J1 J2) = true.
Proof.
  destruct J1 as [[X1 Y1] Z1], J2 as [[X2 Y2] Z2]. intros H1 H2. unfold jadd.
  destruct (Z1 =? 0); [exact H2|]. destruct (Z2 =? 0); [exact H1|]. cbv zeta.
  destruct (_ =? _); [destruct (_ =? _); [apply jdouble_canon|reflexivity]|].
  cbn [jcanon]. now rewrite !fsub_range, fmul_range.
Qed.

Section Jacobian.
  Hypothesis prime_p : prime p.
  Add Field FpJ : (Fp_field prime_p) (setoid feq_equiv Fp_ext, morphism Fp_morph, constants [Zcst]).

  Let nz := in_field_nonzero.

  Lemma of_j_inf X Y : of_j (X, Y, 0) = Inf.
  Proof. reflexivity. Qed.

  Lemma jdouble_correct J : jcanon J = true -> of_j (jdouble J) = padd (of_j J) (of_j J).
  Proof.
    destruct J as [[X Y] Zc]. intros H. apply jcanon_inv in H as (HX & HY & HZ).
    unfold jdouble. destruct (Zc =? 0) eqn:EZ.
    - cbn [orb]. unfold of_j. rewrite EZ. reflexivity.
    - destruct (Y =? 0) eqn:EY.
      + cbn [orb]. apply Z.eqb_eq in EY. subst Y.
        unfold of_j at 2 3. rewrite EZ. cbv zeta. unfold padd. rewrite Z.eqb_refl.
        assert (E0 : forall a, fmul 0 a = 0) by reflexivity. rewrite E0. reflexivity.
      + cbn [orb]. cbv zeta.
        pose proof (nz Zc HZ EZ) as NZ. pose proof (nz Y HY EY) as NY.
        pose proof two_nonzero as N2.
        pose proof (finv_nonzero prime_p Zc NZ) as NZi.
        unfold of_j. rewrite EZ. cbv zeta.
        set (zi := finv Zc) in *.
        set (x := fmul X (fmul zi zi)). set (y := fmul Y (fmul (fmul zi zi) zi)).
        assert (Ny : ~ feq y 0).
        { unfold y. repeat apply (fmul_nonzero prime_p); assumption. }
        assert (Ny2 : ~ feq (fadd y y) 0).
        { intros E. apply Ny. assert (E2 : feq (fadd y y) (fmul 2 y)) by ring.
          rewrite E2 in E. apply (fmul_zero prime_p) in E. tauto. }
        unfold padd. rewrite Z.eqb_refl. rewrite (nfeq_eqb_false _ _ Ny2).
        assert (NZ3 : ~ feq (fmul 2 (fmul Y Zc)) 0).
        { repeat apply (fmul_nonzero prime_p); assumption. }
        rewrite (nfeq_eqb_false _ _ NZ3).
        f_equal; (apply feq_eq; [apply fmul_range | apply fsub_range |]);
          unfold x, y, zi; field; repeat split; assumption.
  Qed.

  Lemma on_curve_inv x y : on_curve (Aff x y) = true ->
    in_field x = true /\ in_field y = true /\ feq (fmul y y) (fadd (fmul (fmul x x) x) 7).
  Proof.
    cbn [on_curve]. intros H. apply andb_true_iff in H as [H H3]. apply andb_true_iff in H as [H1 H2].
    repeat split; try assumption. apply eqb_feq. exact H3.
  Qed.

  Lemma jadd_correct J1 J2 :
    jcanon J1 = true -> jcanon J2 = true ->
    on_curve (of_j J1) = true -> on_curve (of_j J2) = true ->
    of_j (jadd J1 J2) = padd (of_j J1) (of_j J2).
  Proof.
    destruct J1 as [[X1 Y1] Z1], J2 as [[X2 Y2] Z2]. intros C1 C2 O1 O2.
    pose proof C1 as C1'. pose proof C2 as C2'.
    apply jcanon_inv in C1 as (HX1 & HY1 & HZ1). apply jcanon_inv in C2 as (HX2 & HY2 & HZ2).
    unfold jadd. destruct (Z1 =? 0) eqn:EZ1.
    { unfold of_j at 2. rewrite EZ1. reflexivity. }
    destruct (Z2 =? 0) eqn:EZ2.
    { unfold of_j at 3. rewrite EZ2. unfold of_j. rewrite EZ1. reflexivity. }
    cbv zeta.
    pose proof (nz Z1 HZ1 EZ1) as NZ1. pose proof (nz Z2 HZ2 EZ2) as NZ2.
    pose proof (finv_nonzero prime_p Z1 NZ1) as NZi1. pose proof (finv_nonzero prime_p Z2 NZ2) as NZi2.
    (* affine coordinates *)
    assert (A1 : of_j (X1, Y1, Z1) = Aff (fmul X1 (fmul (finv Z1) (finv Z1))) (fmul Y1 (fmul (fmul (finv Z1) (finv Z1)) (finv Z1)))).
    { unfold of_j. rewrite EZ1. reflexivity. }
    assert (A2 : of_j (X2, Y2, Z2) = Aff (fmul X2 (fmul (finv Z2) (finv Z2))) (fmul Y2 (fmul (fmul (finv Z2) (finv Z2)) (finv Z2)))).
    { unfold of_j. rewrite EZ2. reflexivity. }
    rewrite A1, A2 in *.
    set (zi1 := finv Z1) in *. set (zi2 := finv Z2) in *.
    set (x1 := fmul X1 (fmul zi1 zi1)) in *. set (y1 := fmul Y1 (fmul (fmul zi1 zi1) zi1)) in *.
    set (x2 := fmul X2 (fmul zi2 zi2)) in *. set (y2 := fmul Y2 (fmul (fmul zi2 zi2) zi2)) in *.
    set (u1 := fmul X1 (fmul Z2 Z2)). set (u2 := fmul X2 (fmul Z1 Z1)).
    set (s1 := fmul Y1 (fmul (fmul Z2 Z2) Z2)). set (s2 := fmul Y2 (fmul (fmul Z1 Z1) Z1)).
    apply on_curve_inv in O1 as (Fx1 & Fy1 & Cv1). apply on_curve_inv in O2 as (Fx2 & Fy2 & Cv2).
    assert (Ux : feq x1 x2 <-> feq u1 u2).
    { split; intros E.
      - assert (E1 : feq u1 (fmul x1 (fmul (fmul Z1 Z1) (fmul Z2 Z2)))) by (unfold u1, x1, zi1; field; assumption).
        assert (E2 : feq u2 (fmul x2 (fmul (fmul Z1 Z1) (fmul Z2 Z2)))) by (unfold u2, x2, zi2; field; assumption).
        rewrite E1, E2, E. reflexivity.
      - assert (E1 : feq x1 (fmul u1 (fmul (fmul zi1 zi1) (fmul zi2 zi2)))) by (unfold u1, x1, zi1, zi2; field; split; assumption).
        assert (E2 : feq x2 (fmul u2 (fmul (fmul zi1 zi1) (fmul zi2 zi2)))) by (unfold u2, x2, zi1, zi2; field; split; assumption).
        rewrite E1, E2, E. reflexivity. }
    assert (Sy : feq y1 y2 <-> feq s1 s2).
    { split; intros E.
      - assert (E1 : feq s1 (fmul y1 (fmul (fmul (fmul Z1 Z1) Z1) (fmul (fmul Z2 Z2) Z2)))) by (unfold s1, y1, zi1; field; assumption).
        assert (E2 : feq s2 (fmul y2 (fmul (fmul (fmul Z1 Z1) Z1) (fmul (fmul Z2 Z2) Z2)))) by (unfold s2, y2, zi2; field; assumption).
        rewrite E1, E2, E. reflexivity.
      - assert (E1 : feq y1 (fmul s1 (fmul (fmul (fmul zi1 zi1) zi1) (fmul (fmul zi2 zi2) zi2)))) by (unfold s1, y1, zi1, zi2; field; split; assumption).
        assert (E2 : feq y2 (fmul s2 (fmul (fmul (fmul zi1 zi1) zi1) (fmul (fmul zi2 zi2) zi2)))) by (unfold s2, y2, zi1, zi2; field; split; assumption).
        rewrite E1, E2, E. reflexivity. }
    destruct (u1 =? u2) eqn:EU.
    - apply eqb_feq in EU. apply Ux in EU.
      assert (Ex : x1 = x2) by (apply feq_eq; assumption).
      destruct (s1 =? s2) eqn:ES.
      + apply eqb_feq in ES. apply Sy in ES.
        assert (Ey : y1 = y2) by (apply feq_eq; assumption).
        rewrite <- Ex, <- Ey. rewrite <- A1. apply jdouble_correct. exact C1'.
      + assert (NS : ~ feq y1 y2).
        { intros E. apply Sy in E. apply (eqb_false_nfeq s1 s2) in ES; [contradiction| |]; apply fmul_range. }
        assert (Sq : feq (fmul y1 y1) (fmul y2 y2)).
        { rewrite Cv1, Cv2, Ex. reflexivity. }
        apply (fsquare_eq prime_p) in Sq. destruct Sq as [Sq|Sq]; [contradiction|].
        unfold padd. rewrite Ex, Z.eqb_refl.
        assert (E0 : fadd y1 y2 = 0).
        { apply feq_eq; [apply fadd_range|reflexivity|]. rewrite Sq. ring. }
        rewrite E0. reflexivity.
    - assert (NU : ~ feq u1 u2) by (apply eqb_false_nfeq; [apply fmul_range|apply fmul_range|exact EU]).
      assert (NX : ~ feq x1 x2) by (intros E; apply Ux in E; contradiction).
      assert (NH : ~ feq (fsub u2 u1) 0).
      { intros E. apply NU. assert (E1 : feq u1 (fsub u2 (fsub u2 u1))) by ring. rewrite E1, E. ring. }
      assert (NDX : ~ feq (fsub x2 x1) 0).
      { intros E. apply NX. assert (E1 : feq x1 (fsub x2 (fsub x2 x1))) by ring. rewrite E1, E. ring. }
      assert (NZ3 : ~ feq (fmul (fsub u2 u1) (fmul Z1 Z2)) 0).
      { repeat apply (fmul_nonzero prime_p); assumption. }
      unfold of_j. rewrite (nfeq_eqb_false _ _ NZ3).
      unfold padd. rewrite (nfeq_eqb_false _ _ NX).
      f_equal; (apply feq_eq; [apply fmul_range | apply fsub_range |]);
        subst u1 u2 s1 s2 x1 x2 y1 y2 zi1 zi2; field; repeat split; assumption.
  Qed.

  (* ---- closure of the chord-tangent addition (needs only that F_p is a field) *)
  Lemma on_curve_intro x y : in_field x = true -> in_field y = true ->
    feq (fmul y y) (fadd (fmul (fmul x x) x) 7) -> on_curve (Aff x y) = true.
  Proof.
    intros Hx Hy H. cbn [on_curve]. rewrite Hx, Hy. cbn [andb]. apply Z.eqb_eq.
    apply feq_eq; [apply fmul_range|apply fadd_range|exact H].
  Qed.

  Lemma padd_closed P Q : on_curve P = true -> on_curve Q = true -> on_curve (padd P Q) = true.
  Proof.
    destruct P as [|x1 y1]; [intros _ H; exact H|].
    destruct Q as [|x2 y2]; [intros H _; exact H|].
    intros O1 O2. pose proof O1 as O1'. pose proof O2 as O2'.
    apply on_curve_inv in O1 as (Fx1 & Fy1 & Cv1). apply on_curve_inv in O2 as (Fx2 & Fy2 & Cv2).
    assert (B : feq 7 (fsub (fmul y1 y1) (fmul (fmul x1 x1) x1))) by (rewrite Cv1; ring).
    unfold padd. destruct (x1 =? x2) eqn:EX.
    - destruct (fadd y1 y2 =? 0) eqn:EY; [reflexivity|].
      apply Z.eqb_eq in EX. subst x2.
      assert (Sq : feq (fmul y1 y1) (fmul y2 y2)) by (rewrite Cv1, Cv2; reflexivity).
      apply (fsquare_eq prime_p) in Sq.
      assert (NY : ~ feq (fadd y1 y2) 0) by (apply nz; [apply fadd_range|exact EY]).
      destruct Sq as [Sq|Sq]; [|exfalso; apply NY; rewrite Sq; ring].
      assert (Ny1 : ~ feq y1 0).
      { intros E. apply NY. rewrite <- Sq, E. ring. }
      cbv zeta. apply on_curve_intro; [apply fsub_range|apply fsub_range|].
      rewrite B. unfold fdiv. field. split; [exact Ny1|exact two_nonzero].
    - assert (NX : ~ feq x1 x2) by (apply eqb_false_nfeq; assumption).
      assert (ND : ~ feq (fsub x2 x1) 0).
      { intros E. apply NX. assert (E1 : feq x1 (fsub x2 (fsub x2 x1))) by ring. rewrite E1, E. ring. }
      cbv zeta. apply on_curve_intro; [apply fsub_range|apply fsub_range|].
      assert (R0 : feq (fsub (fsub (fmul y2 y2) (fmul y1 y1)) (fsub (fmul (fmul x2 x2) x2) (fmul (fmul x1 x1) x1))) 0).
      { rewrite Cv1, Cv2. ring. }
      set (l := fdiv (fsub y2 y1) (fsub x2 x1)).
      set (x3 := fsub (fsub (fmul l l) x1) x2).
      set (y3 := fsub (fmul l (fsub x1 x3)) y1).
      assert (K : feq (fsub (fmul y3 y3) (fadd (fmul (fmul x3 x3) x3) (fsub (fmul y1 y1) (fmul (fmul x1 x1) x1))))
                      (fmul (fsub (fsub (fmul y2 y2) (fmul y1 y1)) (fsub (fmul (fmul x2 x2) x2) (fmul (fmul x1 x1) x1)))
                            (fdiv (fsub x3 x1) (fsub x2 x1)))).
      { subst y3 x3 l. unfold fdiv. field. exact ND. }
      rewrite R0 in K. rewrite B.
      assert (E : feq (fmul y3 y3) (fadd (fsub (fmul y3 y3) (fadd (fmul (fmul x3 x3) x3) (fsub (fmul y1 y1) (fmul (fmul x1 x1) x1))))
                                       (fadd (fmul (fmul x3 x3) x3) (fsub (fmul y1 y1) (fmul (fmul x1 x1) x1))))) by ring.
      rewrite E, K. ring.
  Qed.

  (* ---- scalar multiplication *)
  Lemma smul_pos_closed k : forall P, on_curve P = true -> on_curve (smul_pos k P) = true.
  Proof.
    induction k as [k IH|k IH|]; intros P OP; cbn [smul_pos].
    - apply padd_closed; [exact OP|]. apply IH. apply padd_closed; exact OP.
    - apply IH. apply padd_closed; exact OP.
    - exact OP.
  Qed.

  Lemma pneg_closed P : on_curve P = true -> on_curve (pneg P) = true.
  Proof.
    destruct P as [|x y]; [trivial|]. intros O. apply on_curve_inv in O as (Fx & Fy & Cv).
    cbn [pneg]. apply on_curve_intro; [exact Fx|apply fneg_range|]. rewrite <- Cv. ring.
  Qed.

  Lemma smul_closed k P : on_curve P = true -> on_curve (smul k P) = true.
  Proof.
    intros O. destruct k as [|k|k]; cbn [smul]; [reflexivity|apply smul_pos_closed, O|].
    apply pneg_closed, smul_pos_closed, O.
  Qed.

  Lemma jsmul_pos_correct k : forall J,
    jcanon J = true -> on_curve (of_j J) = true ->
    jcanon (jsmul_pos k J) = true /\ of_j (jsmul_pos k J) = smul_pos k (of_j J).
  Proof.
    induction k as [k IH|k IH|]; intros J C O; cbn [jsmul_pos smul_pos].
    - assert (Od : on_curve (of_j (jdouble J)) = true) by (rewrite jdouble_correct by exact C; apply padd_closed; exact O).
      destruct (IH (jdouble J) (jdouble_canon J) Od) as [C2 E2].
      split; [apply jadd_canon; assumption|].
      rewrite jadd_correct; try assumption.
      + rewrite E2, jdouble_correct by exact C. reflexivity.
      + rewrite E2, jdouble_correct by exact C. clear IH E2.
        apply smul_pos_closed. apply padd_closed; exact O.
    - assert (Od : on_curve (of_j (jdouble J)) = true) by (rewrite jdouble_correct by exact C; apply padd_closed; exact O).
      destruct (IH (jdouble J) (jdouble_canon J) Od) as [C2 E2].
      split; [exact C2|]. rewrite E2, jdouble_correct by exact C. reflexivity.
    - split; [exact C|reflexivity].
  Qed.

  Lemma of_j_to_j P : on_curve P = true -> of_j (to_j P) = P.
  Proof.
    destruct P as [|x y]; [reflexivity|]. intros O. apply on_curve_inv in O as (Fx & Fy & _).
    cbn [to_j]. unfold of_j. change (1 =? 0) with false. cbv iota.
    assert (E1 : finv 1 = 1).
    { apply feq_eq; [|reflexivity|].
      - unfold finv. destruct (modinv 1 p) as [v|] eqn:E; [|reflexivity].
        apply modinv_sound in E; [|reflexivity]. unfold in_field. lia.
      - pose proof (finv_l prime_p 1 ltac:(apply small_nonzero; split; reflexivity)) as H.
        transitivity (fmul (finv 1) 1); [ring|exact H]. }
    rewrite E1. f_equal; (apply feq_eq; [apply fmul_range|assumption|ring]).
  Qed.

  (* jacobian_correct: the executed scalar multiplication is the affine double-and-add *)
  Theorem smulx_correct k P : on_curve P = true -> smulx k P = smul k P.
  Proof.
    intros O. destruct k as [|k|k]; cbn [smulx smul]; [reflexivity| |];
      destruct (jsmul_pos_correct k (to_j P) (to_j_canon P O)) as [_ E];
      try (rewrite of_j_to_j; exact O); rewrite E, of_j_to_j by exact O; reflexivity.
  Qed.

  Theorem lincomb_correct a P b Q : on_curve P = true -> on_curve Q = true ->
    lincomb a P b Q = padd (smul a P) (smul b Q).
  Proof.
    intros OP OQ.
    assert (JP : forall k, jcanon (jsmul_pos k (to_j P)) = true /\ of_j (jsmul_pos k (to_j P)) = smul_pos k P).
    { intros k. destruct (jsmul_pos_correct k (to_j P) (to_j_canon P OP)) as [C E]; [rewrite of_j_to_j; exact OP|].
      rewrite of_j_to_j in E by exact OP. auto. }
    assert (JQ : forall k, jcanon (jsmul_pos k (to_j Q)) = true /\ of_j (jsmul_pos k (to_j Q)) = smul_pos k Q).
    { intros k. destruct (jsmul_pos_correct k (to_j Q) (to_j_canon Q OQ)) as [C E]; [rewrite of_j_to_j; exact OQ|].
      rewrite of_j_to_j in E by exact OQ. auto. }
    unfold lincomb.
    destruct a as [|a|a]; destruct b as [|b|b];
      try (rewrite !smulx_correct by assumption; reflexivity).
    - reflexivity.
    - destruct (JQ b) as [C E]. rewrite jadd_correct; [rewrite E; reflexivity|reflexivity|exact C|reflexivity|].
      rewrite E. apply smul_pos_closed, OQ.
    - destruct (JP a) as [C E]. rewrite jadd_correct; [rewrite E; reflexivity|exact C|reflexivity| |reflexivity].
      rewrite E. apply smul_pos_closed, OP.
    - destruct (JP a) as [C1 E1]. destruct (JQ b) as [C2 E2].
      rewrite jadd_correct; [rewrite E1, E2; reflexivity|exact C1|exact C2| |].
      + rewrite E1. apply smul_pos_closed, OP.
      + rewrite E2. apply smul_pos_closed, OQ.
  Qed.
End Jacobian.
