(* C27 — the generic theorems instantiated on the regenerated route table *)
From Coq Require Import String List ZArith Bool.
From Sky Require Import Model.ApiAccess Gen.Routes Model.ApiRoutes Proofs.ApiAccessProofs.
Import ListNotations.
Open Scope string_scope.
Open Scope Z_scope.

Lemma routes_translated : routes_translation_error = None.
Proof. reflexivity. Qed.

Lemma routes_wf : wf_tableb routes = true.
Proof. vm_compute. reflexivity. Qed.

Lemma gui_routes_shape : forallb gui_route_shapeb gui_file_routes = true.
Proof. vm_compute. reflexivity. Qed.

Lemma routes_reaches_iff : forall cfg r q, In r routes -> (decide cfg r q = Handler <-> may_reach cfg r q).
Proof. intros cfg r q Hin. apply reaches_iff. exact (wf_table_sets_or_exempt routes r routes_wf Hin). Qed.

Lemma routes_refused_status : forall cfg r q n, In r routes -> decide cfg r q = Status n ->
  (n = 401 /\ ~ creds_ok cfg q) \/
  (n = 415 /\ creds_ok cfg q /\ ~ ctype_ok r q) \/
  (n = 403 /\ creds_ok cfg q /\ ctype_ok r q /\
     ((hdr_on cfg r /\ ~ (host_ok cfg q /\ origin_ok cfg q)) \/ ~ csrf_ok cfg r q)) \/
  (n = 200 /\ checks_pass cfg r q /\ preflight q) \/
  (n = 405 /\ checks_pass cfg r q /\ ~ preflight q /\ ~ method_served r (q_meth q)) \/
  (n = 403 /\ checks_pass cfg r q /\ ~ preflight q /\ method_served r (q_meth q) /\ ~ api_enabled cfg r (q_meth q)).
Proof. intros cfg r q n Hin. apply refused_status. exact (wf_table_sets_or_exempt routes r routes_wf Hin). Qed.

Lemma routes_guarded : forall cfg r q,
  In r routes -> ~ In (r_path r) exempt_paths -> decide cfg r q = Handler ->
  exists tbl sets s, r_sets r = Some tbl /\ In (q_meth q, sets) tbl /\ In s sets /\ In s known_sets /\ In s (c_enabled cfg).
Proof. intros cfg r q. apply wf_table_guarded. exact routes_wf. Qed.

Lemma routes_csrf : forall cfg r q,
  In r routes -> ~ In (r_path r) csrf_exempt_paths ->
  c_disable_csrf cfg = false -> state_changing (q_meth q) ->
  decide cfg r q = Handler -> token_ok q.
Proof. intros cfg r q. apply wf_table_csrf. exact routes_wf. Qed.

Lemma routes_mux_total : forall p, exists r, mux_lookup routes p = Some r /\ In r routes.
Proof. intros p. apply mux_lookup_total. exact routes_wf. Qed.

(* non-vacuity: a registered endpoint, a configuration and a request that reach the handler *)
Lemma routes_example_reached : exists cfg r q,
  mux_lookup routes "/api/v1/wallet/create" = Some r /\ creds_configured cfg /\ c_disable_csrf cfg = false /\
  state_changing (q_meth q) /\ decide cfg r q = Handler.
Proof.
  exists {| c_disable_csrf := false; c_disable_hdr := false; c_enabled := ["WALLET"]; c_host := "127.0.0.1:6420";
            c_host_local := true; c_port := "6420"; c_whitelist := []; c_user := "u"; c_pass := "p" |}.
  eexists.
  exists {| q_meth := "POST"; q_host := "localhost:6420"; q_origin := "http://127.0.0.1:6420"; q_referer := "";
            q_chk_host := Some "127.0.0.1:6420"; q_ctype := "application/x-www-form-urlencoded";
            q_auth := Some ("u", "p"); q_token := TokParsed true true 30; q_now := 29; q_acrm := "" |}.
  split; [vm_compute; reflexivity|]. split; [left; discriminate|]. split; [reflexivity|].
  split; [left; reflexivity|]. vm_compute. reflexivity.
Qed.
