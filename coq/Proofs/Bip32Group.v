(* Proofs/Bip32Group.v — C16: public derivation commutes with private derivation,
   N(CKDpriv(k, i)) = CKDpub(N(k), i) for i < 2^31, including the "impossible child"
   cases; hardened children cannot be derived from a public key; BIP44 path shape.
   The commutation uses the group-law premises of C14 (prime p, prime n,
   padd_associative, sqrt_correct) and the oracle law "HMAC returns bytes". *)
From Coq Require Import ZArith List Bool Lia ZifyBool Znumtheory.
From Sky Require Import Model.Secp Model.Bip Proofs.SecpProofs Proofs.SecpJacobian Proofs.SecpGroup Proofs.SecpOrder.
Import ListNotations.
Open Scope Z_scope.

Definition neuter_res (r : bip32_err + xkey) : option (bip32_err + xkey) :=
  match r with
  | inl e => Some (inl e)
  | inr k => match neuter k with Some pk => Some (inr pk) | None => None end
  end.

Lemma firstn_all_bytes k l : all_bytes l = true -> all_bytes (firstn k l) = true.
Proof.
  unfold all_bytes. rewrite !forallb_forall. intros H x Hx. apply H.
  rewrite <- (firstn_skipn k l). apply in_or_app. left. exact Hx.
Qed.

Lemma pow256_32b : 256 ^ Z.of_nat 32 = 2 ^ 256.
Proof. vm_compute. reflexivity. Qed.

Section Bip32Group.
  Variable hmac_sha512 : list Z -> list Z -> list Z.
  Variable hash160 : list Z -> list Z.
  Hypothesis hmac_bytes : forall key data, all_bytes (hmac_sha512 key data) = true.

  (* hardened children cannot be derived from a public key *)
  Theorem hardened_pub_fails k i :
    x_private k = false -> x_depth k <> 255 -> hardened <= i ->
    ckd_pub hmac_sha512 hash160 k i = inl ErrHardenedChildPublicKey.
  Proof.
    intros Hp Hd Hi. unfold ckd_pub. rewrite Hp.
    replace (x_depth k =? 255) with false by lia. replace (hardened <=? i) with true by lia. reflexivity.
  Qed.

  (* BIP44: the keys handed out by NewCoin / Account / External / Change are the nodes
     m/44'/coin'/account'/change of the BIP32 tree *)
  Theorem bip44_path_shape seed coin account c a x ch :
    bip44_coin hmac_sha512 hash160 seed coin = inr c ->
    bip44_account hmac_sha512 hash160 c account = inr a ->
    (ch = 0 \/ ch = 1) ->
    (if ch =? 0 then bip44_external hmac_sha512 hash160 a else bip44_change hmac_sha512 hash160 a) = inr x ->
    coin < hardened /\ account < hardened /\
    exists m, master_key hmac_sha512 seed = inr m /\
      derive hmac_sha512 hash160 m (firstn 4 (bip44_path coin account ch 0)) = inr x.
  Proof.
    unfold bip44_coin, bip44_account, bip44_external, bip44_change, bip44_path.
    destruct (hardened <=? coin) eqn:E1; [discriminate|].
    destruct (master_key hmac_sha512 seed) as [e|m] eqn:Em; [discriminate|].
    cbn [derive].
    destruct (ckd_priv hmac_sha512 hash160 m (44 + hardened)) as [e|k1] eqn:K1; [discriminate|].
    destruct (ckd_priv hmac_sha512 hash160 k1 (coin + hardened)) as [e|k2] eqn:K2; [discriminate|].
    intros H; injection H as <-.
    destruct (hardened <=? account) eqn:E2; [discriminate|].
    intros Ha Hch Hx. split; [lia|]. split; [lia|]. exists m. split; [reflexivity|].
    cbn [firstn derive]. rewrite K1, K2, Ha.
    destruct Hch as [-> | ->]; cbn [Z.eqb] in Hx; rewrite Hx; reflexivity.
  Qed.

  Section Commute.
    Hypothesis prime_p : prime p.
    Hypothesis prime_n : prime n.
    Hypothesis assoc : padd_associative.
    Hypothesis sqrt_ok : sqrt_correct.

    Let oG := order_G_proved prime_p.

    Theorem ckd_commute k i pk :
      x_private k = true -> seckey_valid (be_val (x_key k)) = true ->
      0 <= i < hardened ->
      neuter k = Some pk ->
      neuter_res (ckd_priv hmac_sha512 hash160 k i) = Some (ckd_pub hmac_sha512 hash160 pk i).
    Proof.
      intros Hpriv Hvalid Hi Hn.
      set (kv := be_val (x_key k)) in *.
      pose proof Hvalid as Hv'. apply seckey_valid_iff in Hv'.
      (* the parent public key *)
      unfold neuter in Hn. rewrite Hpriv in Hn. unfold pub_of_priv, pubkey_of_seckey in Hn. fold kv in Hn.
      rewrite Hvalid in Hn.
      assert (OP : on_curve (smul kv G) = true) by (apply (smul_closed prime_p), G_on_curve).
      rewrite (smulx_correct prime_p) in Hn by exact G_on_curve.
      destruct (compress (smul kv G)) as [P|] eqn:EP; [|discriminate Hn].
      injection Hn as <-.
      pose proof (compress_parse prime_p sqrt_ok _ _ OP EP) as HparseP.
      unfold ckd_priv, ckd_pub. rewrite Hpriv. cbn [negb x_private x_depth x_key x_chain].
      destruct (x_depth k =? 255) eqn:Ed; [reflexivity|].
      unfold pub_of_priv, pubkey_of_seckey. fold kv. rewrite Hvalid.
      rewrite (smulx_correct prime_p) by exact G_on_curve. rewrite EP.
      replace (hardened <=? i) with false by lia.
      rewrite HparseP.
      set (ih := hmac_sha512 (x_chain k) (P ++ ser32 i)).
      set (il := be_val (firstn 32 ih)).
      assert (Hil : 0 <= il).
      { pose proof (be_val_range (firstn 32 ih) (firstn_all_bytes 32 ih (hmac_bytes _ _))). lia. }
      destruct (n <=? il) eqn:En; [reflexivity|]. cbn [orb].
      apply Z.leb_gt in En.
      assert (Hki : 0 <= (il + kv) mod n < n) by (apply Z.mod_pos_bound; reflexivity).
      (* the child point *)
      assert (Hsum : padd (smulx il G) (smul kv G) = smul ((il + kv) mod n) G).
      { rewrite (smulx_correct prime_p) by exact G_on_curve.
        rewrite <- (smul_add prime_p assoc) by (lia || exact G_on_curve).
        symmetry. apply (smulG_mod prime_p assoc oG). lia. }
      rewrite Hsum.
      destruct ((il + kv) mod n =? 0) eqn:E0.
      - apply Z.eqb_eq in E0. rewrite E0. reflexivity.
      - apply Z.eqb_neq in E0.
        pose proof (smulG_nonzero prime_p prime_n assoc oG ((il + kv) mod n) ltac:(lia)) as NZ.
        cbn [neuter_res neuter x_private x_key x_depth x_fp x_child x_chain].
        unfold pub_of_priv, pubkey_of_seckey.
        assert (Hrt : be_val (be_bytes 32 ((il + kv) mod n)) = (il + kv) mod n).
        { apply be_val_be_bytes. rewrite pow256_32b. pose proof n_lt_256. lia. }
        rewrite Hrt.
        replace (seckey_valid ((il + kv) mod n)) with true by (symmetry; apply seckey_valid_iff; lia).
        rewrite (smulx_correct prime_p) by exact G_on_curve.
        destruct (smul ((il + kv) mod n) G) as [|cx cy] eqn:Ec; [exfalso; apply NZ; reflexivity|].
        cbn [compress]. reflexivity.
    Qed.
  End Commute.
End Bip32Group.
