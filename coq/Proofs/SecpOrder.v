(* Proofs/SecpOrder.v — n*G = O by computation (Jacobian execution inside the
   kernel, then jacobian_correct), the agreement of the model's constants with
   the constants regenerated from the Go source, and the final forms of the
   C14 theorems whose only premises are: prime p, prime n, associativity of the
   chord-tangent addition, correctness of the square-root exponentiation. *)
From Coq Require Import ZArith Znumtheory List.
From Sky Require Import Model.Secp Gen.SecpConsts Proofs.SecpProofs Proofs.SecpJacobian Proofs.SecpGroup.
Open Scope Z_scope.

Lemma consts_match_go :
  n = go_Order /\ p = go_p /\ halfOrder = go_halfOrder /\ Gx = go_G_X /\ Gy = go_G_Y.
Proof. repeat split; vm_compute; reflexivity. Qed.

(* one 256-bit scalar multiplication evaluated by the kernel (about 30 s) *)
Lemma order_G_exec : smulx n G = Inf.
Proof. vm_cast_no_check (eq_refl Inf). Qed.

Lemma order_G_proved : prime p -> smul n G = Inf.
Proof.
  intros Hp. rewrite <- (smulx_correct Hp n G); [exact order_G_exec|].
  vm_compute. reflexivity.
Qed.

Section Final.
  Hypothesis prime_p : prime p.
  Hypothesis prime_n : prime n.
  Hypothesis assoc : padd_associative.

  Definition verify_sign_final := verify_sign prime_p prime_n assoc (order_G_proved prime_p).
  Definition negated_sig_verifies_final := negated_sig_verifies prime_p prime_n assoc (order_G_proved prime_p).
  Definition ecdh_sym_points_final := ecdh_sym_points prime_p assoc.
  Definition smulG_mod_final := smulG_mod prime_p assoc (order_G_proved prime_p).
  Definition smul_add_final := smul_add prime_p assoc.
  Definition smul_mul_final := smul_mul prime_p assoc.
  Definition padd_comm_final := padd_comm prime_p.

  Hypothesis sqrt_ok : sqrt_correct.
  Definition recover_sign_final := recover_sign prime_p prime_n assoc (order_G_proved prime_p) sqrt_ok.
  Definition ecdh_sym_final := ecdh_sym prime_p assoc sqrt_ok.
  Definition compress_parse_final := compress_parse prime_p sqrt_ok.
  Definition lift_x_complete_final := lift_x_complete prime_p sqrt_ok.
End Final.

Lemma example_sign :
  pubkey_of_seckey 1 = compress G /\
  exists r s v, sign 1 2 3 = Some (r, s, v) /\ 0 < r /\ 0 < s <= halfOrder /\ v < 4.
Proof.
  split; [vm_compute; reflexivity|].
  destruct (sign 1 2 3) as [[[r s] v]|] eqn:E; [|vm_compute in E; discriminate E].
  exists r, s, v. split; [reflexivity|].
  pose proof (sign_ranges _ _ _ _ _ _ E) as (Hr & Hs & Hv).
  assert (r <> 0).
  { intros ->. vm_compute in E. discriminate E. }
  repeat split; try apply Hs; try apply Hv. destruct Hr. apply Z.le_neq. split; [assumption|]. intro; subst; contradiction.
Qed.
