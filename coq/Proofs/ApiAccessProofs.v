(* C27 — proofs about Model/ApiAccess.v *)
From Coq Require Import String List ZArith Bool Lia.
From Sky Require Import Model.ApiAccess.
Import ListNotations.
Open Scope string_scope.
Open Scope Z_scope.

Ltac conj := repeat match goal with |- _ /\ _ => split end.

(* ------------------------------------------------------------------ reflection of the helpers *)

Lemma mem_In : forall x l, mem x l = true <-> In x l.
Proof.
  intros x l. unfold mem. rewrite existsb_exists. split.
  - intros [y [Hin Heq]]. apply String.eqb_eq in Heq. subst. exact Hin.
  - intros Hin. exists x. split; [exact Hin | apply String.eqb_refl].
Qed.

Lemma mem_false_not_In : forall x l, mem x l = false <-> ~ In x l.
Proof.
  intros x l. split.
  - intros H Hin. apply mem_In in Hin. rewrite Hin in H. discriminate.
  - intros H. destruct (mem x l) eqn:E; [|reflexivity]. apply mem_In in E. contradiction.
Qed.

Lemma nonempty_s_true : forall s, nonempty_s s = true <-> s <> "".
Proof.
  intros s. unfold nonempty_s. rewrite negb_true_iff. split.
  - intros H Heq. subst. rewrite String.eqb_refl in H. discriminate.
  - intros H. destruct (String.eqb s "") eqn:E; [|reflexivity].
    apply String.eqb_eq in E. contradiction.
Qed.

Lemma nonempty_s_false : forall s, nonempty_s s = false <-> s = "".
Proof.
  intros s. unfold nonempty_s. rewrite negb_false_iff. apply String.eqb_eq.
Qed.

Lemma state_changingb_iff : forall m, state_changingb m = true <-> state_changing m.
Proof.
  intros m. unfold state_changingb, state_changing.
  rewrite !orb_true_iff, !String.eqb_eq. tauto.
Qed.

Lemma prefix_app : forall p c, String.prefix p c = true <-> exists rest, c = p ++ rest.
Proof.
  induction p as [|a p IH]; intros c; simpl.
  - split; [intros _; exists c; reflexivity | intros _; destruct c; reflexivity].
  - destruct c as [|b c]; simpl.
    + split; [discriminate | intros [rest H]; discriminate].
    + destruct (Ascii.ascii_dec a b) as [Hab|Hab].
      * subst. rewrite IH. split; intros [rest H]; exists rest.
        -- cbn. rewrite H. reflexivity.
        -- cbn in H. inversion H. reflexivity.
      * split; [discriminate|]. intros [rest H]. cbn in H. inversion H. congruence.
Qed.

Lemma is_jsonb_iff : forall c, is_jsonb c = true <-> is_json c.
Proof.
  intros c. unfold is_jsonb, is_json. rewrite orb_true_iff, String.eqb_eq, prefix_app. tauto.
Qed.

(* ------------------------------------------------------------------ each wrapper against its clause *)

Lemma needs_auth_iff : forall cfg,
  nonempty_s (c_user cfg) || nonempty_s (c_pass cfg) = true <-> creds_configured cfg.
Proof.
  intros cfg. unfold creds_configured. rewrite orb_true_iff, !nonempty_s_true. tauto.
Qed.

Lemma basic_auth_pass_iff : forall cfg q, basic_auth_pass cfg q = true <-> creds_ok cfg q.
Proof.
  intros cfg q. unfold basic_auth_pass, creds_ok.
  destruct (nonempty_s (c_user cfg) || nonempty_s (c_pass cfg)) eqn:Hn.
  - apply needs_auth_iff in Hn. destruct (q_auth q) as [[u p]|].
    + rewrite andb_true_iff, !String.eqb_eq. split.
      * intros [Hu Hp]. subst. split; [reflexivity | intros Hc; contradiction].
      * intros [H _]. specialize (H Hn). inversion H. split; reflexivity.
    + split; [discriminate|]. intros [H _]. specialize (H Hn). discriminate.
  - assert (Hc : ~ creds_configured cfg).
    { intros Hc. apply needs_auth_iff in Hc. rewrite Hc in Hn. discriminate. }
    destruct (q_auth q) as [[u p]|].
    + rewrite negb_true_iff, orb_false_iff, !nonempty_s_false. split.
      * intros [Hu Hp]. split; [intros H; contradiction|]. intros _ u' p' Heq. inversion Heq. subst. split; reflexivity.
      * intros [_ H]. exact (H Hc u p eq_refl).
    + split; [|reflexivity]. intros _. split; [intros H; contradiction | intros _ u p H; discriminate].
Qed.

Lemma content_type_pass_iff : forall r q, content_type_pass r q = true <-> ctype_ok r q.
Proof.
  intros r q. unfold content_type_pass, ctype_ok.
  destruct (r_v2 r); cbn [andb].
  - destruct (String.eqb (q_meth q) "POST") eqn:E.
    + apply String.eqb_eq in E. rewrite is_jsonb_iff. split; [intros H _ _; exact H | intros H; exact (H eq_refl E)].
    + split; [|reflexivity]. intros _ _ Hm. apply String.eqb_eq in Hm. rewrite Hm in E. discriminate.
  - split; [|reflexivity]. intros _ H. discriminate.
Qed.

Lemma host_pass_iff : forall cfg q, host_pass cfg q = true <-> host_ok cfg q.
Proof.
  intros cfg q. unfold host_pass, host_ok. rewrite negb_true_iff.
  destruct (c_host_local cfg); cbn [andb].
  - destruct (nonempty_s (q_host q)) eqn:En; cbn [andb].
    + apply nonempty_s_true in En. rewrite negb_false_iff, mem_In. split; [intros H _ _; exact H | intros H; exact (H eq_refl En)].
    + apply nonempty_s_false in En. split; [|reflexivity]. intros _ _ H. contradiction.
  - split; [|reflexivity]. intros _ H. discriminate.
Qed.

Lemma origin_pass_iff : forall cfg q, origin_pass cfg q = true <-> origin_ok cfg q.
Proof.
  intros cfg q. unfold origin_pass, origin_ok.
  destruct (nonempty_s (checked_header q)) eqn:En.
  - apply nonempty_s_true in En. destruct (q_chk_host q) as [h|].
    + rewrite mem_In. split.
      * intros H _. exists h. split; [reflexivity | exact H].
      * intros H. destruct (H En) as [h' [Heq Hin]]. inversion Heq. subst. exact Hin.
    + split; [discriminate|]. intros H. destruct (H En) as [h' [Heq _]]. discriminate.
  - apply nonempty_s_false in En. split; [|reflexivity]. intros _ H. contradiction.
Qed.

Lemma token_passb_iff : forall q, token_passb q = true <-> token_ok q.
Proof.
  intros q. unfold token_passb, token_ok.
  destruct (q_token q) as [| |mac js e].
  - split; [discriminate | intros [e [H _]]; discriminate].
  - split; [discriminate | intros [e [H _]]; discriminate].
  - destruct mac; cbn [negb].
    + destruct js; cbn [negb].
      * rewrite negb_true_iff. split.
        -- intros H. exists e. split; [reflexivity|]. destruct (Z.gtb_spec (q_now q) e); [discriminate | lia].
        -- intros [e' [Heq Hle]]. inversion Heq. subst. destruct (Z.gtb_spec (q_now q) e'); [lia | reflexivity].
      * split; [discriminate | intros [e' [H _]]; discriminate].
    + split; [discriminate | intros [e' [H _]]; discriminate].
Qed.

Lemma csrf_pass_iff : forall cfg r q, csrf_pass cfg r q = true <-> csrf_ok cfg r q.
Proof.
  intros cfg r q. unfold csrf_pass, csrf_ok.
  destruct (r_csrf r).
  - destruct (c_disable_csrf cfg); cbn [negb].
    + split; [|reflexivity]. intros _ _ H. discriminate.
    + destruct (state_changingb (q_meth q)) eqn:Es.
      * apply state_changingb_iff in Es. rewrite token_passb_iff.
        split; [intros H _ _ _; exact H | intros H; exact (H eq_refl eq_refl Es)].
      * split; [|reflexivity]. intros _ _ _ Hs. apply state_changingb_iff in Hs. rewrite Hs in Es. discriminate.
  - split; [|reflexivity]. intros _ H. discriminate.
Qed.

Lemma hdr_onb_iff : forall cfg r, hdr_onb cfg r = true <-> hdr_on cfg r.
Proof.
  intros cfg r. unfold hdr_onb, hdr_on. destruct (r_hdr r).
  - split; [discriminate | contradiction].
  - tauto.
  - apply negb_true_iff.
Qed.

Lemma is_preflight_iff : forall q, is_preflight q = true <-> preflight q.
Proof.
  intros q. unfold is_preflight, preflight. rewrite andb_true_iff, String.eqb_eq, nonempty_s_true. tauto.
Qed.

Lemma existsb_enabled_iff : forall cfg sets,
  existsb (fun k => mem k (c_enabled cfg)) sets = true <-> exists s, In s sets /\ In s (c_enabled cfg).
Proof.
  intros cfg sets. rewrite existsb_exists. split; intros [s [H1 H2]]; exists s; split; try exact H1; apply mem_In; exact H2.
Qed.

(* forMethodAPISets *)
Lemma api_sets_decide_cases : forall cfg r tbl q,
  r_sets r = Some tbl ->
  (api_sets_decide cfg tbl q = Handler /\ method_served r (q_meth q) /\ api_enabled cfg r (q_meth q)) \/
  (api_sets_decide cfg tbl q = Status 405 /\ ~ method_served r (q_meth q)) \/
  (api_sets_decide cfg tbl q = Status 403 /\ method_served r (q_meth q) /\ ~ api_enabled cfg r (q_meth q)).
Proof.
  intros cfg r tbl q Hr. unfold api_sets_decide, method_served, api_enabled, sets_for. rewrite Hr.
  destruct (assoc (q_meth q) tbl) as [sets|] eqn:Ea.
  - destruct sets as [|s0 sets'].
    + right. left. split; [reflexivity|]. intros [H|H]; [discriminate | apply H; reflexivity].
    + destruct (existsb (fun k => mem k (c_enabled cfg)) (s0 :: sets')) eqn:Ee.
      * left. split; [reflexivity|]. split; [right; discriminate|]. apply existsb_enabled_iff. exact Ee.
      * right. right. split; [reflexivity|]. split; [right; discriminate|].
        intros H. apply existsb_enabled_iff in H. rewrite H in Ee. discriminate.
  - right. left. split; [reflexivity|]. intros [H|H]; [discriminate | apply H; reflexivity].
Qed.

(* ------------------------------------------------------------------ the checks before the endpoint's own table *)

Definition checks_pass (cfg : config) (r : route) (q : request) : Prop :=
  creds_ok cfg q /\ ctype_ok r q /\ (hdr_on cfg r -> host_ok cfg q /\ origin_ok cfg q) /\ csrf_ok cfg r q.

Lemma hdr_clause_iff : forall cfg r q,
  (hdr_onb cfg r && negb (host_pass cfg q) = false /\ hdr_onb cfg r && negb (origin_pass cfg q) = false) <->
  (hdr_on cfg r -> host_ok cfg q /\ origin_ok cfg q).
Proof.
  intros cfg r q. rewrite <- hdr_onb_iff, <- host_pass_iff, <- origin_pass_iff.
  destruct (hdr_onb cfg r), (host_pass cfg q), (origin_pass cfg q); cbn; split; intros H;
    try (split; reflexivity); try (intros _; split; reflexivity);
    try (destruct H as [H1 H2]; discriminate);
    try (destruct (H eq_refl) as [H1 H2]; discriminate);
    try (intros H'; discriminate).
Qed.

(* the verdict of the whole chain, clause by clause, in the code's order *)
Theorem decide_cases : forall cfg r q, sets_or_exempt r ->
  (decide cfg r q = Status 401 /\ ~ creds_ok cfg q) \/
  (decide cfg r q = Status 415 /\ creds_ok cfg q /\ ~ ctype_ok r q) \/
  (decide cfg r q = Status 403 /\ creds_ok cfg q /\ ctype_ok r q /\ hdr_on cfg r /\ ~ (host_ok cfg q /\ origin_ok cfg q)) \/
  (decide cfg r q = Status 403 /\ creds_ok cfg q /\ ctype_ok r q /\ (hdr_on cfg r -> host_ok cfg q /\ origin_ok cfg q) /\ ~ csrf_ok cfg r q) \/
  (decide cfg r q = Status 200 /\ checks_pass cfg r q /\ preflight q) \/
  (decide cfg r q = Status 405 /\ checks_pass cfg r q /\ ~ preflight q /\ ~ method_served r (q_meth q)) \/
  (decide cfg r q = Status 403 /\ checks_pass cfg r q /\ ~ preflight q /\ method_served r (q_meth q) /\ ~ api_enabled cfg r (q_meth q)) \/
  (decide cfg r q = Handler /\ checks_pass cfg r q /\ ~ preflight q /\ method_served r (q_meth q) /\ api_enabled cfg r (q_meth q)).
Proof.
  intros cfg r q Hex. unfold decide.
  destruct (basic_auth_pass cfg q) eqn:Ea; cbn [negb].
  2:{ left. split; [reflexivity|]. intros H. apply basic_auth_pass_iff in H. rewrite H in Ea. discriminate. }
  apply basic_auth_pass_iff in Ea. right.
  destruct (content_type_pass r q) eqn:Ec; cbn [negb].
  2:{ left. split; [reflexivity|]. split; [exact Ea|]. intros H. apply content_type_pass_iff in H. rewrite H in Ec. discriminate. }
  apply content_type_pass_iff in Ec. right.
  destruct (hdr_onb cfg r && negb (host_pass cfg q)) eqn:Eh.
  { left. split; [reflexivity|]. apply andb_true_iff in Eh. destruct Eh as [Eh1 Eh2].
    apply hdr_onb_iff in Eh1. apply negb_true_iff in Eh2.
    conj; try assumption. intros [Hh _]. apply host_pass_iff in Hh. rewrite Hh in Eh2. discriminate. }
  destruct (hdr_onb cfg r && negb (origin_pass cfg q)) eqn:Eo.
  { left. split; [reflexivity|]. apply andb_true_iff in Eo. destruct Eo as [Eo1 Eo2].
    apply hdr_onb_iff in Eo1. apply negb_true_iff in Eo2.
    conj; try assumption. intros [_ Ho]. apply origin_pass_iff in Ho. rewrite Ho in Eo2. discriminate. }
  assert (Hhdr : hdr_on cfg r -> host_ok cfg q /\ origin_ok cfg q).
  { apply hdr_clause_iff. split; assumption. }
  right.
  destruct (csrf_pass cfg r q) eqn:Es; cbn [negb].
  2:{ left. split; [reflexivity|]. conj; try assumption.
      intros H. apply csrf_pass_iff in H. rewrite H in Es. discriminate. }
  apply csrf_pass_iff in Es. right.
  assert (Hcp : checks_pass cfg r q) by (unfold checks_pass; conj; assumption).
  destruct (is_preflight q) eqn:Ep.
  { left. apply is_preflight_iff in Ep. split; [reflexivity|]. split; assumption. }
  assert (Hnp : ~ preflight q).
  { intros H. apply is_preflight_iff in H. rewrite H in Ep. discriminate. }
  right.
  destruct (r_sets r) as [tbl|] eqn:Er.
  - destruct (api_sets_decide_cases cfg r tbl q Er) as [[H1 [H2 H3]]|[[H1 H2]|[H1 [H2 H3]]]].
    + right. right. rewrite H1. conj; try reflexivity; assumption.
    + left. rewrite H1. conj; try reflexivity; assumption.
    + right. left. rewrite H1. conj; try reflexivity; assumption.
  - right. right. split; [reflexivity|]. split; [exact Hcp|]. split; [exact Hnp|].
    split; [left; exact Er|]. unfold api_enabled. rewrite Er. apply Hex. exact Er.
Qed.

Theorem reaches_iff : forall cfg r q, sets_or_exempt r -> (decide cfg r q = Handler <-> may_reach cfg r q).
Proof.
  intros cfg r q Hex. unfold may_reach.
  destruct (decide_cases cfg r q Hex) as [[H N]|[[H N]|[[H N]|[[H N]|[[H N]|[[H N]|[[H N]|[H N]]]]]]]]; rewrite H;
    (split; [try discriminate | ]).
  - intros [_ [_ [_ [_ [Hc _]]]]]. contradiction.
  - intros [_ [_ [_ [_ [_ [Hc _]]]]]]. destruct N as [_ N]. contradiction.
  - intros [_ [_ [_ [Hh _]]]]. destruct N as [_ [_ [Hon N]]]. exfalso. apply N. exact (Hh Hon).
  - intros [_ [_ [Hs _]]]. destruct N as [_ [_ [_ N]]]. contradiction.
  - intros [_ [_ [_ [_ [_ [_ Hp]]]]]]. destruct N as [_ N]. contradiction.
  - intros [Hm _]. destruct N as [_ [_ N]]. contradiction.
  - intros [_ [He _]]. destruct N as [_ [_ [_ N]]]. contradiction.
  - intros _. destruct N as [[Hc [Ht [Hh Hs]]] [Hp [Hm He]]]. conj; assumption.
  - intros _. reflexivity.
Qed.

(* which status a refusal carries *)
Theorem refused_status : forall cfg r q n, sets_or_exempt r -> decide cfg r q = Status n ->
  (n = 401 /\ ~ creds_ok cfg q) \/
  (n = 415 /\ creds_ok cfg q /\ ~ ctype_ok r q) \/
  (n = 403 /\ creds_ok cfg q /\ ctype_ok r q /\
     ((hdr_on cfg r /\ ~ (host_ok cfg q /\ origin_ok cfg q)) \/ ~ csrf_ok cfg r q)) \/
  (n = 200 /\ checks_pass cfg r q /\ preflight q) \/
  (n = 405 /\ checks_pass cfg r q /\ ~ preflight q /\ ~ method_served r (q_meth q)) \/
  (n = 403 /\ checks_pass cfg r q /\ ~ preflight q /\ method_served r (q_meth q) /\ ~ api_enabled cfg r (q_meth q)).
Proof.
  intros cfg r q n Hex Hd.
  destruct (decide_cases cfg r q Hex) as [[H N]|[[H N]|[[H N]|[[H N]|[[H N]|[[H N]|[[H N]|[H N]]]]]]]];
    rewrite H in Hd; try discriminate; inversion Hd; subst n.
  - left. split; [reflexivity | exact N].
  - right. left. split; [reflexivity | exact N].
  - right. right. left. split; [reflexivity|]. destruct N as [Hc [Ht [Hon N]]]. conj; try assumption. left. split; assumption.
  - right. right. left. split; [reflexivity|]. destruct N as [Hc [Ht [_ N]]]. conj; try assumption. right. exact N.
  - right. right. right. left. split; [reflexivity | exact N].
  - right. right. right. right. left. split; [reflexivity | exact N].
  - right. right. right. right. right. split; [reflexivity | exact N].
Qed.

(* the flat decidable form used on the implementation's outputs is the same proposition *)
Lemma may_reachb_iff : forall cfg r q, may_reachb cfg r q = true <-> may_reach cfg r q.
Proof.
  intros cfg r q. unfold may_reachb, may_reach.
  rewrite !andb_true_iff.
  assert (Hserved : (match r_sets r with None => true | Some _ => match sets_for r (q_meth q) with [] => false | _ => true end end) = true
                    <-> method_served r (q_meth q)).
  { unfold method_served. destruct (r_sets r) as [tbl|] eqn:Er.
    - destruct (sets_for r (q_meth q)) as [|s l]; split; intros H; try discriminate; try reflexivity.
      + destruct H as [H|H]; [discriminate | exfalso; apply H; reflexivity].
      + right. discriminate.
    - split; [intros _; left; reflexivity | reflexivity]. }
  assert (Henabled : (match r_sets r with None => mem (r_path r) exempt_paths | Some _ => existsb (fun s => mem s (c_enabled cfg)) (sets_for r (q_meth q)) end) = true
                     <-> api_enabled cfg r (q_meth q)).
  { unfold api_enabled. destruct (r_sets r) as [tbl|] eqn:Er.
    - apply existsb_enabled_iff.
    - apply mem_In. }
  assert (Hcsrf : negb (r_csrf r && negb (c_disable_csrf cfg) && state_changingb (q_meth q)) ||
                  match q_token q with TokParsed true true e => q_now q <=? e | _ => false end = true
                  <-> csrf_ok cfg r q).
  { unfold csrf_ok, token_ok. rewrite orb_true_iff, negb_true_iff. split.
    - intros [H|H] Hr Hd Hs.
      + rewrite Hr, Hd in H. cbn in H. apply state_changingb_iff in Hs. rewrite Hs in H. discriminate.
      + destruct (q_token q) as [| |[] [] e]; try discriminate. exists e. split; [reflexivity | apply Z.leb_le; exact H].
    - intros H. destruct (r_csrf r); [|left; reflexivity].
      destruct (c_disable_csrf cfg); [left; reflexivity|].
      destruct (state_changingb (q_meth q)) eqn:Es; [|left; reflexivity].
      right. apply state_changingb_iff in Es. destruct (H eq_refl eq_refl Es) as [e [Heq Hle]]. rewrite Heq. apply Z.leb_le. exact Hle. }
  assert (Hhdr : negb (hdr_onb cfg r) ||
             ((negb (c_host_local cfg) || String.eqb (q_host q) "" || mem (q_host q) (accepted_hosts cfg)) &&
              (String.eqb (checked_header q) "" ||
               match q_chk_host q with Some h => mem h (accepted_origins cfg) | None => false end)) = true
             <-> (hdr_on cfg r -> host_ok cfg q /\ origin_ok cfg q)).
  { rewrite <- hdr_onb_iff. unfold host_ok, origin_ok.
    destruct (hdr_onb cfg r); cbn [negb orb].
    2:{ split; [intros _ H; discriminate | reflexivity]. }
    rewrite andb_true_iff, !orb_true_iff, negb_true_iff, !String.eqb_eq, mem_In. split.
    - intros [Hh Ho] _. split.
      + intros Hl Hne. destruct Hh as [[Hh|Hh]|Hh]; [rewrite Hl in Hh; discriminate | contradiction | exact Hh].
      + intros Hne. destruct Ho as [Ho|Ho]; [contradiction|].
        destruct (q_chk_host q) as [h|]; [|discriminate]. exists h. split; [reflexivity | apply mem_In; exact Ho].
    - intros H. destruct (H eq_refl) as [Hh Ho]. split.
      + destruct (c_host_local cfg); [|left; left; reflexivity].
        destruct (String.eqb (q_host q) "") eqn:E; [left; right; apply String.eqb_eq; exact E|].
        right. apply Hh; [reflexivity|]. intros Heq. rewrite Heq in E. discriminate.
      + destruct (String.eqb (checked_header q) "") eqn:E; [left; apply String.eqb_eq; exact E|].
        right. destruct Ho as [h [Heq Hin]]. { intros Heq. rewrite Heq in E. discriminate. }
        rewrite Heq. apply mem_In. exact Hin. }
  assert (Hcreds : (if nonempty_s (c_user cfg) || nonempty_s (c_pass cfg)
               then match q_auth q with Some (u, p) => String.eqb u (c_user cfg) && String.eqb p (c_pass cfg) | None => false end
               else match q_auth q with Some (u, p) => String.eqb u "" && String.eqb p "" | None => true end) = true
               <-> creds_ok cfg q).
  { rewrite <- basic_auth_pass_iff. unfold basic_auth_pass.
    destruct (nonempty_s (c_user cfg) || nonempty_s (c_pass cfg)); [tauto|].
    destruct (q_auth q) as [[u p]|]; [|tauto].
    unfold nonempty_s. destruct (String.eqb u ""), (String.eqb p ""); cbn; tauto. }
  assert (Hctype : negb (r_v2 r && String.eqb (q_meth q) "POST") || is_jsonb (q_ctype q) = true <-> ctype_ok r q).
  { rewrite <- content_type_pass_iff. unfold content_type_pass.
    destruct (r_v2 r && String.eqb (q_meth q) "POST"); cbn; tauto. }
  assert (Hpre : negb (String.eqb (q_meth q) "OPTIONS" && nonempty_s (q_acrm q)) = true <-> ~ preflight q).
  { rewrite <- is_preflight_iff. unfold is_preflight.
    destruct (String.eqb (q_meth q) "OPTIONS" && nonempty_s (q_acrm q)); cbn; split; intros H; try reflexivity; try discriminate.
    - exfalso. apply H. reflexivity. }
  rewrite Hserved, Henabled, Hcsrf, Hhdr, Hcreds, Hctype, Hpre. tauto.
Qed.

Corollary decide_Handler_may_reachb : forall cfg r q, sets_or_exempt r -> (decide cfg r q = Handler <-> may_reachb cfg r q = true).
Proof. intros cfg r q Hex. rewrite (reaches_iff cfg r q Hex), may_reachb_iff. tauto. Qed.

(* the "only if" direction needs no premise on the table: whatever is
   registered, a request that reaches the handler passed every check *)
Theorem reaches_only_if : forall cfg r q, decide cfg r q = Handler ->
  method_served r (q_meth q) /\ csrf_ok cfg r q /\ (hdr_on cfg r -> host_ok cfg q /\ origin_ok cfg q) /\
  creds_ok cfg q /\ ctype_ok r q /\ ~ preflight q /\
  (forall tbl, r_sets r = Some tbl -> exists s, In s (sets_for r (q_meth q)) /\ In s (c_enabled cfg)).
Proof.
  intros cfg r q H.
  set (r' := {| r_path := "/"; r_v2 := r_v2 r; r_csrf := r_csrf r; r_hdr := r_hdr r; r_sets := r_sets r |}).
  assert (Hd : decide cfg r' q = Handler) by exact H.
  assert (Hex : sets_or_exempt r') by (intros _; left; reflexivity).
  apply (reaches_iff cfg r' q Hex) in Hd. destruct Hd as [Hm [He [Hs [Hh [Hc [Ht Hp]]]]]].
  split; [exact Hm|]. split; [exact Hs|]. split; [exact Hh|]. split; [exact Hc|]. split; [exact Ht|]. split; [exact Hp|].
  intros tbl Ht'. unfold api_enabled in He. cbn [r' r_sets] in He. rewrite Ht' in He. exact He.
Qed.

(* ------------------------------------------------------------------ consequences used in Properties/C27.v *)

(* credentials: exactly the configured pair (this is the clause F8a broke) *)
Theorem reaches_needs_exact_credentials : forall cfg r q,
  decide cfg r q = Handler -> creds_configured cfg -> q_auth q = Some (c_user cfg, c_pass cfg).
Proof.
  intros cfg r q H Hc. apply reaches_only_if in H. destruct H as [_ [_ [_ [[H _] _]]]]. exact (H Hc).
Qed.

(* the unrepaired comparison accepted another split of the same characters *)
Theorem concat_credentials_refuted : exists cfg r q,
  decide_concat cfg r q = Handler /\ creds_configured cfg /\ q_auth q <> Some (c_user cfg, c_pass cfg).
Proof.
  exists {| c_disable_csrf := false; c_disable_hdr := false; c_enabled := ["READ"]; c_host := "127.0.0.1:6420";
            c_host_local := true; c_port := "6420"; c_whitelist := []; c_user := "a"; c_pass := "bc" |}.
  exists {| r_path := "/api/v1/version"; r_v2 := false; r_csrf := true; r_hdr := HdrCfg; r_sets := None |}.
  exists {| q_meth := "GET"; q_host := "127.0.0.1:6420"; q_origin := ""; q_referer := ""; q_chk_host := None;
            q_ctype := ""; q_auth := Some ("ab", "c"); q_token := TokMalformed; q_now := 0; q_acrm := "" |}.
  split; [vm_compute; reflexivity|]. split; [left; discriminate | discriminate].
Qed.

(* no API set enabled: nothing but the exempt endpoints is reachable *)
Theorem no_set_no_access : forall cfg r q tbl,
  r_sets r = Some tbl -> c_enabled cfg = [] -> decide cfg r q <> Handler.
Proof.
  intros cfg r q tbl Hr He H. apply reaches_only_if in H. destruct H as [_ [_ [_ [_ [_ [_ H]]]]]].
  destruct (H tbl Hr) as [s [_ Hs]]. rewrite He in Hs. contradiction.
Qed.

Theorem state_change_needs_token : forall cfg r q,
  decide cfg r q = Handler -> r_csrf r = true -> c_disable_csrf cfg = false -> state_changing (q_meth q) -> token_ok q.
Proof.
  intros cfg r q H. apply reaches_only_if in H. destruct H as [_ [H _]]. exact H.
Qed.

(* ------------------------------------------------------------------ well-formed tables *)

Lemma nodupb_NoDup : forall l, nodupb l = true -> NoDup l.
Proof.
  induction l as [|x l IH]; cbn [nodupb]; intros H; [constructor|].
  apply andb_true_iff in H. destruct H as [H1 H2]. constructor; [|exact (IH H2)].
  apply negb_true_iff in H1. apply mem_false_not_In. exact H1.
Qed.

Definition wf_route (r : route) : Prop :=
  (r_sets r = None -> In (r_path r) exempt_paths) /\
  (forall tbl, r_sets r = Some tbl ->
     NoDup (map fst tbl) /\ forall m sets, In (m, sets) tbl -> sets <> [] /\ forall s, In s sets -> In s known_sets) /\
  (r_csrf r = false -> In (r_path r) csrf_exempt_paths) /\
  r_hdr r <> HdrNever.

Lemma wf_setsb_ok : forall tbl, wf_setsb tbl = true ->
  NoDup (map fst tbl) /\ forall m sets, In (m, sets) tbl -> sets <> [] /\ forall s, In s sets -> In s known_sets.
Proof.
  intros tbl H. unfold wf_setsb in H. apply andb_true_iff in H. destruct H as [H1 H2]. split.
  - apply nodupb_NoDup. exact H1.
  - intros m sets Hin. rewrite forallb_forall in H2. specialize (H2 _ Hin). cbn [snd] in H2.
    destruct sets as [|s0 sets']; [discriminate|]. split; [discriminate|].
    intros s Hs. rewrite forallb_forall in H2. apply mem_In. exact (H2 s Hs).
Qed.

Lemma wf_routeb_ok : forall r, wf_routeb r = true -> wf_route r.
Proof.
  intros r H. unfold wf_routeb in H. apply andb_true_iff in H. destruct H as [H Hh].
  apply andb_true_iff in H. destruct H as [Hs Hc]. unfold wf_route. split; [|split; [|split]].
  - intros Hn. rewrite Hn in Hs. apply mem_In. exact Hs.
  - intros tbl Ht. rewrite Ht in Hs. destruct tbl as [|e tbl]; [discriminate|]. apply wf_setsb_ok. exact Hs.
  - intros Hf. rewrite Hf in Hc. cbn in Hc. apply mem_In. exact Hc.
  - intros Hn. rewrite Hn in Hh. discriminate.
Qed.

Lemma wf_tableb_ok : forall t, wf_tableb t = true ->
  Forall wf_route t /\ NoDup (map r_path t) /\ In "/" (map r_path t).
Proof.
  intros t H. unfold wf_tableb in H. apply andb_true_iff in H. destruct H as [H H3].
  apply andb_true_iff in H. destruct H as [H1 H2]. split; [|split].
  - apply Forall_forall. intros r Hin. rewrite forallb_forall in H1. apply wf_routeb_ok. exact (H1 r Hin).
  - apply nodupb_NoDup. exact H2.
  - apply mem_In. exact H3.
Qed.

Lemma wf_table_sets_or_exempt : forall t r, wf_tableb t = true -> In r t -> sets_or_exempt r.
Proof.
  intros t r Hwf Hin. destruct (wf_tableb_ok t Hwf) as [Hall _]. rewrite Forall_forall in Hall.
  exact (proj1 (Hall r Hin)).
Qed.

(* lookup in a table with distinct keys is membership *)
Lemma assoc_In : forall (tbl : list (string * list string)) m sets,
  NoDup (map fst tbl) -> (assoc m tbl = Some sets <-> In (m, sets) tbl).
Proof.
  induction tbl as [|[k v] tbl IH]; intros m sets Hnd; cbn [assoc].
  - split; [discriminate | contradiction].
  - inversion Hnd as [|? ? Hnotin Hnd']. subst. destruct (String.eqb k m) eqn:E.
    + apply String.eqb_eq in E. subst k. split.
      * intros H. inversion H. left. reflexivity.
      * intros [H|H]; [inversion H; reflexivity|]. exfalso. apply Hnotin. cbn [map fst].
        change m with (fst (m, sets)). apply in_map. exact H.
    + rewrite (IH m sets Hnd'). split; [intros H; right; exact H|].
      intros [H|H]; [|exact H]. inversion H. subst. rewrite String.eqb_refl in E. discriminate.
Qed.

(* on a well-formed table: a non-exempt endpoint is reached only by a method
   listed for it, with one of that method's (known) API sets enabled *)
Theorem wf_table_guarded : forall t cfg r q,
  wf_tableb t = true -> In r t -> ~ In (r_path r) exempt_paths ->
  decide cfg r q = Handler ->
  exists tbl sets s, r_sets r = Some tbl /\ In (q_meth q, sets) tbl /\ In s sets /\ In s known_sets /\ In s (c_enabled cfg).
Proof.
  intros t cfg r q Hwf Hin Hne Hd.
  destruct (wf_tableb_ok t Hwf) as [Hall _]. rewrite Forall_forall in Hall. specialize (Hall r Hin).
  destruct Hall as [Hnone [Hsome _]].
  destruct (r_sets r) as [tbl|] eqn:Er; [|exfalso; apply Hne; apply Hnone; reflexivity].
  destruct (Hsome tbl eq_refl) as [Hnd Hk].
  apply reaches_only_if in Hd. destruct Hd as [_ [_ [_ [_ [_ [_ Hd]]]]]]. destruct (Hd tbl Er) as [s [Hs1 Hs2]].
  unfold sets_for in Hs1. rewrite Er in Hs1.
  destruct (assoc (q_meth q) tbl) as [sets|] eqn:Ea; [|contradiction].
  apply (assoc_In tbl _ _ Hnd) in Ea.
  exists tbl, sets, s. conj; try assumption; try reflexivity. exact (proj2 (Hk _ _ Ea) s Hs1).
Qed.

(* on a well-formed table: every state-changing request to any endpoint other
   than the token endpoint needs a valid token while the check is on *)
Theorem wf_table_csrf : forall t cfg r q,
  wf_tableb t = true -> In r t -> ~ In (r_path r) csrf_exempt_paths ->
  c_disable_csrf cfg = false -> state_changing (q_meth q) ->
  decide cfg r q = Handler -> token_ok q.
Proof.
  intros t cfg r q Hwf Hin Hne Hc Hs Hd.
  destruct (wf_tableb_ok t Hwf) as [Hall _]. rewrite Forall_forall in Hall. specialize (Hall r Hin).
  destruct Hall as [_ [_ [Hcs _]]].
  destruct (r_csrf r) eqn:Er; [|exfalso; apply Hne; apply Hcs; reflexivity].
  exact (state_change_needs_token cfg r q Hd Er Hc Hs).
Qed.

(* the mux sends every path to a registered entry *)
Theorem mux_lookup_total : forall t p, wf_tableb t = true -> exists r, mux_lookup t p = Some r /\ In r t.
Proof.
  intros t p Hwf. destruct (wf_tableb_ok t Hwf) as [_ [_ Hroot]].
  assert (Hfind : forall t p r, find_path t p = Some r -> In r t).
  { induction t0 as [|x t0 IH]; cbn [find_path]; intros p0 r0 H; [discriminate|].
    destruct (String.eqb (r_path x) p0); [inversion H; left; reflexivity | right; exact (IH _ _ H)]. }
  assert (Hex : forall t p, In p (map r_path t) -> exists r, find_path t p = Some r).
  { induction t0 as [|x t0 IH]; cbn [find_path map]; intros p0 H; [contradiction|].
    destruct (String.eqb (r_path x) p0) eqn:E; [exists x; reflexivity|].
    destruct H as [H|H]; [rewrite H, String.eqb_refl in E; discriminate | exact (IH _ H)]. }
  unfold mux_lookup. destruct (find_path t p) as [r|] eqn:E.
  - exists r. split; [reflexivity | exact (Hfind _ _ _ E)].
  - destruct (Hex t "/" Hroot) as [r Hr]. exists r. rewrite Hr. split; [reflexivity | exact (Hfind _ _ _ Hr)].
Qed.

(* ------------------------------------------------------------------ F8b: the documented invalidation does not hold *)

Theorem old_token_invalidated_refuted : ~ old_token_invalidated.
Proof.
  unfold old_token_invalidated. intros H.
  specialize (H {| c_disable_csrf := false; c_disable_hdr := false; c_enabled := ["READ"]; c_host := "127.0.0.1:6420";
                   c_host_local := true; c_port := "6420"; c_whitelist := []; c_user := ""; c_pass := "" |}
                {| r_path := "/api/v1/blocks"; r_v2 := false; r_csrf := true; r_hdr := HdrCfg;
                   r_sets := Some [("GET", ["READ"]); ("POST", ["READ"])] |}
                {| q_meth := "POST"; q_host := "127.0.0.1:6420"; q_origin := ""; q_referer := ""; q_chk_host := None;
                   q_ctype := ""; q_auth := None; q_token := TokMalformed; q_now := 0; q_acrm := "" |}
                tt 0 1000000000 2000000000).
  cbn [csrf_issue] in H. apply H; try lia; try (vm_compute; reflexivity).
  left. reflexivity.
Qed.

(* what does hold: a token is accepted exactly until its own expiry, whatever
   was issued in between *)
Theorem token_valid_until_expiry : forall s t1 t3,
  let '(_, tk1) := csrf_issue s t1 in
  forall q, token_ok (with_token q tk1 t3) <-> t3 <= t1 + csrf_max_age.
Proof.
  intros s t1 t3. cbn [csrf_issue]. intros q. unfold token_ok, with_token. cbn [q_token q_now]. split.
  - intros [e [Heq Hle]]. inversion Heq. lia.
  - intros H. exists (t1 + csrf_max_age). split; [reflexivity | exact H].
Qed.
