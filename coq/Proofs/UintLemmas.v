(* Lemmas about wrap/swrap and the res monad. *)
From Sky Require Import Base.Uint.
From Coq Require Import Lia ZifyBool.
Open Scope Z_scope.

Lemma pow64 : 2 ^ 64 = 18446744073709551616. Proof. reflexivity. Qed.
Lemma pow32 : 2 ^ 32 = 4294967296. Proof. reflexivity. Qed.
Lemma pow63 : 2 ^ 63 = 9223372036854775808. Proof. reflexivity. Qed.
Lemma pow8 : 2 ^ 8 = 256. Proof. reflexivity. Qed.

Lemma wrap_small bits z : 0 <= z < 2 ^ bits -> wrap bits z = z.
Proof. intros H. unfold wrap. apply Z.mod_small. exact H. Qed.

Lemma wrap_range bits z : 0 <= bits -> 0 <= wrap bits z < 2 ^ bits.
Proof. intros Hb. unfold wrap. apply Z.mod_pos_bound. apply Z.pow_pos_nonneg; lia. Qed.

Lemma wrap_add_over bits a b :
  0 <= bits -> 0 <= a < 2 ^ bits -> 0 <= b < 2 ^ bits -> 2 ^ bits <= a + b ->
  wrap bits (a + b) = a + b - 2 ^ bits.
Proof.
  intros Hb Ha Hb' Ho. unfold wrap. symmetry.
  apply Z.mod_unique with 1; lia.
Qed.

Lemma wrap_sub_under bits a b :
  0 <= a < 2 ^ bits -> 0 <= b < 2 ^ bits -> a < b ->
  wrap bits (a - b) = a - b + 2 ^ bits.
Proof.
  intros Ha Hb Hlt. unfold wrap. symmetry.
  apply Z.mod_unique with (-1); lia.
Qed.

Lemma bind_val {A B} (a : A) (f : A -> res B) : bind (Val a) f = f a.
Proof. reflexivity. Qed.

Lemma udiv_nz a b : b <> 0 -> udiv a b = Val (a / b).
Proof. intros H. unfold udiv. destruct (b =? 0) eqn:E; [lia|reflexivity]. Qed.
Lemma umod_nz a b : b <> 0 -> umod a b = Val (a mod b).
Proof. intros H. unfold umod. destruct (b =? 0) eqn:E; [lia|reflexivity]. Qed.
