(* Proofs/LedgerBasics.v — list / check-monad lemmas for the ledger model and
   the consequences of an accepted block (shared by C01, C02, C04). *)
From Sky Require Import Base.Uint Model.Ledger Model.LedgerSpec.
From Coq Require Import Lia ZifyBool Permutation.
Open Scope Z_scope.

(* ---- booleans as propositions *)
Lemma memZ_In x l : memZ x l = true <-> In x l.
Proof.
  induction l as [|y r IH]; cbn [memZ In].
  - split; [discriminate|tauto].
  - rewrite Bool.orb_true_iff, IH, Z.eqb_eq. split; intros [H|H]; auto.
Qed.
Lemma memZ_false x l : memZ x l = false <-> ~ In x l.
Proof. rewrite <- memZ_In. destruct (memZ x l); split; congruence. Qed.
Lemma nodupZ_NoDup l : nodupZ l = true <-> NoDup l.
Proof.
  induction l as [|x r IH]; cbn [nodupZ].
  - split; [constructor|reflexivity].
  - rewrite Bool.andb_true_iff, Bool.negb_true_iff, memZ_false, IH.
    split; [intros [H1 H2]; constructor; assumption|intros H; inversion H; auto].
Qed.

(* ---- the check monad *)
Lemma andthen_pass c k : c ;; k = Pass -> c = Pass /\ k = Pass.
Proof. destruct c; cbn [andthen]; intros H; try discriminate; auto. Qed.
Lemma guard_pass b e : guard b e = Pass -> b = true.
Proof. unfold guard. destruct b; [reflexivity|discriminate]. Qed.

Ltac chk_split H :=
  repeat match type of H with
  | (_ ;; _) = Pass => let H1 := fresh "Hc" in apply andthen_pass in H; destruct H as [H1 H]
  end.

(* ---- find_ux / get_array *)
Lemma find_ux_some id l u : find_ux id l = Some u -> In u l /\ u_id u = id.
Proof.
  induction l as [|v r IH]; cbn [find_ux]; [discriminate|].
  destruct (u_id v =? id) eqn:E.
  - intros H; inversion H; subst. split; [left; reflexivity|lia].
  - intros H. destruct (IH H) as [H1 H2]. split; [right; assumption|assumption].
Qed.
Lemma find_ux_none id l : find_ux id l = None -> ~ In id (ids l).
Proof.
  induction l as [|v r IH]; cbn [find_ux ids map In]; [tauto|].
  destruct (u_id v =? id) eqn:E; [discriminate|].
  intros H [H1|H1]; [lia|]. exact (IH H H1).
Qed.
Lemma find_ux_in id l : In id (ids l) -> exists u, find_ux id l = Some u.
Proof.
  intros H. destruct (find_ux id l) eqn:E; [eauto|]. apply find_ux_none in E. contradiction.
Qed.

Lemma get_array_spec hs pool us : get_array hs pool = Some us ->
  map u_id us = hs /\ Forall (fun u => In u pool) us.
Proof.
  revert us. induction hs as [|h r IH]; cbn [get_array]; intros us H.
  - inversion H; subst. split; [reflexivity|constructor].
  - destruct (find_ux h pool) as [u|] eqn:E; [|discriminate].
    destruct (get_array r pool) as [l|] eqn:E2; [|discriminate].
    inversion H; subst. destruct (IH l eq_refl) as [H1 H2].
    destruct (find_ux_some _ _ _ E) as [H3 H4].
    split; [cbn [map]; congruence|constructor; assumption].
Qed.
Lemma get_array_incl hs pool us : get_array hs pool = Some us -> incl hs (ids pool).
Proof.
  intros H. destruct (get_array_spec _ _ _ H) as [H1 H2]. subst hs.
  intros x Hx. apply in_map_iff in Hx. destruct Hx as [u [Hu1 Hu2]]. subst x.
  apply in_map. rewrite Forall_forall in H2. auto.
Qed.
Lemma get_array_app a b pool us : get_array (a ++ b) pool = Some us ->
  exists ua ub, get_array a pool = Some ua /\ get_array b pool = Some ub /\ us = ua ++ ub.
Proof.
  revert us. induction a as [|h r IH]; cbn [get_array app]; intros us H.
  - exists [], us. auto.
  - destruct (find_ux h pool) as [u|]; [|discriminate].
    destruct (get_array (r ++ b) pool) as [l|] eqn:E; [|discriminate].
    inversion H; subst. destruct (IH l eq_refl) as [ua [ub [H1 [H2 H3]]]].
    exists (u :: ua), ub. rewrite H1. subst l. auto.
Qed.
Lemma get_array_app_intro a b pool ua ub :
  get_array a pool = Some ua -> get_array b pool = Some ub -> get_array (a ++ b) pool = Some (ua ++ ub).
Proof.
  revert ua. induction a as [|h r IH]; cbn [get_array app]; intros ua Ha Hb.
  - inversion Ha; subst. exact Hb.
  - destruct (find_ux h pool) as [u|]; [|discriminate].
    destruct (get_array r pool) as [l|] eqn:E; [|discriminate].
    inversion Ha; subst. rewrite (IH l eq_refl Hb). reflexivity.
Qed.

(* ---- sums *)
Lemma sumZ_app a b : sumZ (a ++ b) = sumZ a + sumZ b.
Proof. induction a as [|x r IH]; cbn [sumZ app]; lia. Qed.

(* ---- removing spent outputs *)
Lemma NoDup_ids_filter (p : ux -> bool) l : NoDup (ids l) -> NoDup (ids (filter p l)).
Proof.
  unfold ids. induction l as [|u r IH]; cbn [filter map]; intros H; [constructor|].
  inversion H as [|? ? Hn Hr]; subst.
  destruct (p u); cbn [map]; [constructor|]; auto.
  intros Hin. apply Hn. apply in_map_iff in Hin. destruct Hin as [v [Hv1 Hv2]].
  apply filter_In in Hv2. apply in_map_iff. exists v. tauto.
Qed.
Lemma in_ids_filter (p : ux -> bool) l x : In x (ids (filter p l)) -> In x (ids l).
Proof.
  unfold ids. intros H. apply in_map_iff in H. destruct H as [v [Hv1 Hv2]].
  apply filter_In in Hv2. apply in_map_iff. exists v. tauto.
Qed.

Lemma forallb_filter_id {A} (p : A -> bool) l : forallb p l = true -> filter p l = l.
Proof.
  induction l as [|a r IH]; cbn [forallb filter]; [reflexivity|].
  intros H. apply Bool.andb_true_iff in H. destruct H as [H1 H2]. rewrite H1, (IH H2). reflexivity.
Qed.

Definition coins_of (l : list ux) : Z := sumZ (map u_coins l).
Lemma coins_of_app a b : coins_of (a ++ b) = coins_of a + coins_of b.
Proof. unfold coins_of. rewrite map_app. apply sumZ_app. Qed.

Lemma filter_out_one l u : NoDup (ids l) -> In u l ->
  coins_of (filter (fun v => negb (u_id v =? u_id u)) l) + u_coins u = coins_of l.
Proof.
  unfold coins_of, ids. induction l as [|w r IH]; cbn [filter map sumZ In]; intros Hn Hin; [contradiction|].
  inversion Hn as [|? ? Hn1 Hn2]; subst. destruct Hin as [Hin|Hin].
  - subst w. rewrite Z.eqb_refl. cbn [negb].
    assert (Hf : filter (fun v => negb (u_id v =? u_id u)) r = r).
    { apply forallb_filter_id. apply forallb_forall. intros v Hv.
      destruct (u_id v =? u_id u) eqn:E; [|reflexivity]. exfalso. apply Hn1.
      apply in_map_iff. exists v. split; [lia|assumption]. }
    rewrite Hf. lia.
  - destruct (u_id w =? u_id u) eqn:E.
    + exfalso. apply Hn1. apply in_map_iff. exists u. split; [lia|assumption].
    + cbn [negb map sumZ]. specialize (IH Hn2 Hin). lia.
Qed.

Lemma remove_ids_cons h r pool :
  remove_ids (h :: r) pool = filter (fun v => negb (u_id v =? h)) (remove_ids r pool).
Proof.
  unfold remove_ids. induction pool as [|u p IH]; [reflexivity|].
  cbn [filter]. rewrite IH. cbn [memZ].
  destruct (u_id u =? h) eqn:E1; destruct (memZ (u_id u) r) eqn:E2; cbn [orb negb filter];
    rewrite ?E1; reflexivity.
Qed.

Lemma remove_ids_sum hs : forall pool us, NoDup (ids pool) -> NoDup hs ->
  get_array hs pool = Some us ->
  coins_of (remove_ids hs pool) + coins_of us = coins_of pool.
Proof.
  induction hs as [|h r IH]; intros pool us Hn Hh H.
  - cbn [get_array] in H. inversion H; subst. unfold remove_ids. cbn [memZ negb].
    rewrite forallb_filter_id by (apply forallb_forall; reflexivity).
    unfold coins_of. cbn [map sumZ]. lia.
  - cbn [get_array] in H.
    destruct (find_ux h pool) as [u|] eqn:E; [|discriminate].
    destruct (get_array r pool) as [l|] eqn:E2; [|discriminate].
    inversion H; subst. inversion Hh as [|? ? Hh1 Hh2]; subst.
    destruct (find_ux_some _ _ _ E) as [Hu1 Hu2].
    specialize (IH pool l Hn Hh2 E2).
    rewrite remove_ids_cons. subst h.
    assert (Hin : In u (remove_ids r pool)).
    { unfold remove_ids. apply filter_In. split; [assumption|].
      apply Bool.negb_true_iff. apply memZ_false. assumption. }
    pose proof (filter_out_one (remove_ids r pool) u (NoDup_ids_filter _ _ Hn) Hin) as Hf.
    unfold coins_of in *. cbn [map sumZ]. lia.
Qed.
