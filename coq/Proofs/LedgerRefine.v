(* Proofs/LedgerRefine.v — the coin-spending and hour-spending checks of the
   ledger model (Model/Ledger.v: coins_spending, hours_spending, written by
   hand over an error ENUM) are EQUAL, for all inputs, to the Gallina that the
   translator regenerates from src/coin/transactions.go on every run
   (Gen/CoinLoops.v: VerifyTransactionCoinsSpending, VerifyTransactionHoursSpending)
   applied to the fields the Go functions read, once the translated function's
   error (a message / sentinel name) is classified into the model's enum.
   No range hypotheses. A change of meaning of either Go function breaks a
   proof here (a proof obligation of C01), not only the sampled correspondence. *)
From Sky Require Import Gen.CoinLoops.
From Sky Require Import Base.Uint Gen.Mathutil Gen.CoinHours Model.Ledger.
Open Scope Z_scope.

(* classification of the translated functions' errors into the model's enum *)
Definition coins_err_class (s : string) : err :=
  if String.eqb s "Transaction input coins overflow"%string then EInOverflow
  else if String.eqb s "Transaction output coins overflow"%string then EOutOverflow2
  else if String.eqb s "Insufficient coins"%string then EInsufficientCoins
  else if String.eqb s "Transactions may not destroy coins"%string then EDestroyCoins
  else EOther.
(* every error of UxOut.CoinHours that VerifyTransactionHoursSpending returns
   unchanged is ECoinHours in the model *)
Definition hours_err_class (s : string) : err :=
  if String.eqb s "Transaction input hours overflow"%string then EInHoursOverflow
  else if String.eqb s "Insufficient coin hours"%string then EInsufficientHours
  else ECoinHours.
Definition chk_of (cls : string -> err) (r : res error) : chk :=
  match r with Panic => Boom | Val None => Pass | Val (Some s) => Fail (cls s) end.

Definition ux_proj (u : ux) : Z * Z * Z := (u_time u, u_coins u, u_hours u).

(* ---- coins *)
Lemma coins_loop1_add_all : forall (k : Z -> res error) l acc,
  CoinLoops.VerifyTransactionCoinsSpending_loop1 k l acc =
  match add_all acc l with
  | Panic => Panic
  | Val None => Val (Some "Transaction input coins overflow"%string)
  | Val (Some c) => k c
  end.
Proof.
  intros k. induction l as [|x r IH]; intros acc;
    cbn [CoinLoops.VerifyTransactionCoinsSpending_loop1 add_all].
  - reflexivity.
  - destruct (AddUint64 acc x) as [|[c e]]; cbn [bind]; [reflexivity|].
    destruct (is_err e); [reflexivity|]. apply IH.
Qed.

Lemma coins_loop2_add_all : forall (k : Z -> res error) l acc,
  CoinLoops.VerifyTransactionCoinsSpending_loop2 k l acc =
  match add_all acc l with
  | Panic => Panic
  | Val None => Val (Some "Transaction output coins overflow"%string)
  | Val (Some c) => k c
  end.
Proof.
  intros k. induction l as [|x r IH]; intros acc;
    cbn [CoinLoops.VerifyTransactionCoinsSpending_loop2 add_all].
  - reflexivity.
  - destruct (AddUint64 acc x) as [|[c e]]; cbn [bind]; [reflexivity|].
    destruct (is_err e); [reflexivity|]. apply IH.
Qed.

Lemma coins_spending_refines : forall uxin outs,
  coins_spending uxin outs =
  chk_of coins_err_class
    (CoinLoops.VerifyTransactionCoinsSpending (map u_coins uxin) (map o_coins outs)).
Proof.
  intros uxin outs. unfold coins_spending, CoinLoops.VerifyTransactionCoinsSpending.
  rewrite coins_loop1_add_all.
  destruct (add_all 0 (map u_coins uxin)) as [|[cin|]]; [reflexivity| |reflexivity].
  rewrite coins_loop2_add_all.
  destruct (add_all 0 (map o_coins outs)) as [|[cout|]]; [reflexivity| |reflexivity].
  destruct (cin <? cout); [reflexivity|].
  destruct (cin >? cout); reflexivity.
Qed.

(* ---- hours *)
(* the errors UxOut.CoinHours can return (read off the regenerated definition) *)
Lemma CoinHours_error_names : forall tm c h t v s,
  UxOut_CoinHours tm c h t = Val (v, Some s) ->
  s = "UxOut.CoinHours: Calculating whole coin seconds overflows uint64 seconds="%string \/
  s = "UxOut.CoinHours: Calculating droplet seconds overflows uint64 seconds="%string \/
  s = "UxOut.CoinHours: Calculating coin seconds overflows uint64 seconds="%string \/
  s = "ErrAddEarnedCoinHoursAdditionOverflow"%string.
Proof.
  intros tm c h t v s. unfold UxOut_CoinHours.
  destruct (t <? tm); [discriminate|].
  destruct (MultUint64 _ _) as [|[a1 e1]]; cbn [bind]; [discriminate|].
  destruct (is_err e1); [intros H; inversion H; auto|].
  destruct (MultUint64 _ _) as [|[a2 e2]]; cbn [bind]; [discriminate|].
  destruct (is_err e2); [intros H; inversion H; auto|].
  destruct (AddUint64 _ _) as [|[a3 e3]]; cbn [bind]; [discriminate|].
  destruct (is_err e3); [intros H; inversion H; auto|].
  destruct (AddUint64 _ _) as [|[a4 e4]]; cbn [bind]; [discriminate|].
  destruct (is_err e4); [intros H; inversion H; auto|discriminate].
Qed.

Lemma hours_loop1_hours_in : forall (k : Z -> res error) T uxin acc,
  chk_of hours_err_class (CoinLoops.VerifyTransactionHoursSpending_loop1 k T (map ux_proj uxin) acc) =
  match hours_in T acc uxin with
  | HBoom => Boom
  | HErr e => Fail e
  | HOk hin => chk_of hours_err_class (k hin)
  end.
Proof.
  intros k T. induction uxin as [|u r IH]; intros acc;
    cbn [map ux_proj CoinLoops.VerifyTransactionHoursSpending_loop1 hours_in].
  - reflexivity.
  - destruct (UxOut_CoinHours (u_time u) (u_coins u) (u_hours u) T) as [|[h e]] eqn:HC; cbn [bind]; [reflexivity|].
    destruct e as [s|]; cbn [is_err eqb_error].
    + unfold E_AddEarned.
      destruct (String.eqb s "ErrAddEarnedCoinHoursAdditionOverflow"%string) eqn:Es.
      * destruct (AddUint64 acc 0) as [|[c e2]]; cbn [bind]; [reflexivity|].
        destruct (is_err e2); [reflexivity|]. apply IH.
      * cbn [chk_of]. f_equal.
        destruct (CoinHours_error_names _ _ _ _ _ _ HC) as [E|[E|[E|E]]]; subst s;
          reflexivity.
    + destruct (AddUint64 acc h) as [|[c e2]]; cbn [bind]; [reflexivity|].
      destruct (is_err e2); [reflexivity|]. apply IH.
Qed.

Lemma hours_loop2_hours_out : forall (k : Z -> res error) outs acc,
  CoinLoops.VerifyTransactionHoursSpending_loop2 k (map o_hours outs) acc =
  k (fold_left (fun a o => wrap 64 (a + o_hours o)) outs acc).
Proof.
  intros k. induction outs as [|o r IH]; intros acc;
    cbn [map CoinLoops.VerifyTransactionHoursSpending_loop2 fold_left].
  - reflexivity.
  - apply IH.
Qed.

Lemma hours_spending_refines : forall T uxin outs,
  hours_spending T uxin outs =
  chk_of hours_err_class
    (CoinLoops.VerifyTransactionHoursSpending T (map ux_proj uxin) (map o_hours outs)).
Proof.
  intros T uxin outs. unfold hours_spending, CoinLoops.VerifyTransactionHoursSpending.
  rewrite hours_loop1_hours_in.
  destruct (hours_in T 0 uxin) as [hin| |]; [|reflexivity|reflexivity].
  rewrite hours_loop2_hours_out. unfold hours_out.
  destruct (hin <? fold_left (fun a o => wrap 64 (a + o_hours o)) outs 0); reflexivity.
Qed.
